(* C29 — Compaction never loses or invents data, even if it crashes.
   Property theorems only. Vocabulary (Model/C29.v):
     init            the original blocks: (id, samples)
     hop             block-level event: HAdd (a compaction result became visible), HMark
                     (deletion mark uploaded), HDel (meta.json deleted)
     legal st hist   every event of hist satisfies its guard in the state where it happens:
                       HAdd: the new block's parents are visible, share no source and none is
                             strictly contained in another visible block; its sources are the
                             union of theirs, its samples exactly the union of theirs, each once
                       HMark: another visible UNMARKED block contains all sources of the block
                       HDel: the block carries a deletion mark
     sg_select st hide   what a store gateway selects: blocks with a deletion mark dropped (hide)
                     or not, then the duplicate filter of property C31 (Model/C31.v, imported)
     cover_ok st hide sel   sel contains only eligible blocks and covers the sources of every
                     eligible block (what C31_hidden_covered guarantees of the filter)
   A crash at any point leaves a prefix of the history; a restart appends further legal
   events: every state a crashing-and-restarting compactor can reach is the end of a prefix
   of a legal history. *)
From Coq Require Import ZArith NArith List Bool.
Import ListNotations.
From Verif Require Import Lib.Corr Gen.C29 Model.C29 Proofs.C29.

(* THE property. At every prefix (crash point) of every legal history over any set of original
   blocks (any compaction groups, levels, time ranges), what the store gateway's filter chain
   selects - deletion-mark filter with either treatment of the marks, then the duplicate
   filter, whose model [C31.hidden] is the one of property C31 (tied to the real
   DefaultDeduplicateFilter there; here the real fetcher's selections are compared with
   [sg_select] after every event, corr_ok) - serves every sample of every original block and
   no other sample. No hypothesis about the filter is left: its guarantee is theorem
   C31_hidden_covered. *)
Theorem C29_crash_safe : forall G init hist k hide,
  NoDup (map fst init) -> legal (init_state G init) hist = true ->
  let st := fold_left apply_hop (firstn k hist) (init_state G init) in
  let sel := sg_select st hide in
  (forall o ss s, In (o, ss) init -> In s ss ->
     exists id b, In id sel /\ find st id = Some b /\ In s (m_samples b))
  /\ (forall id b s, In id sel -> find st id = Some b -> In s (m_samples b) ->
     exists o ss, In (o, ss) init /\ In s ss).
Proof. exact crash_safe_filter. Qed.
Print Assumptions C29_crash_safe.

(* The same for ANY selection with the covering property (not only the modelled filter): every sample of every
   original block is in a selected block, and every sample of a selected block is a sample
   of an original block. *)
Theorem C29_crash_safe_any_covering_selection : forall G init hist k hide sel,
  NoDup (map fst init) -> legal (init_state G init) hist = true ->
  let st := fold_left apply_hop (firstn k hist) (init_state G init) in
  cover_ok st hide sel = true ->
  (forall o ss s, In (o, ss) init -> In s ss ->
     exists id b, In id sel /\ find st id = Some b /\ In s (m_samples b))
  /\ (forall id b s, In id sel -> find st id = Some b -> In s (m_samples b) ->
     exists o ss, In (o, ss) init /\ In s ss).
Proof. exact crash_safe. Qed.
Print Assumptions C29_crash_safe_any_covering_selection.

(* Every block that ever exists in a legal history holds exactly the samples of the
   original blocks among its sources (the guard of HAdd - result = union of the parents,
   each sample once - is checked on every real compaction output). *)
Theorem C29_merge_exact : forall G init hist k i b,
  NoDup (map fst init) -> legal (init_state G init) hist = true ->
  In (i, b) (fold_left apply_hop (firstn k hist) (init_state G init)) ->
  forall s, In s (m_samples b) <-> exists o ss, In (o, ss) init /\ In o (m_sources b) /\ In s ss.
Proof. exact merge_exact. Qed.
Print Assumptions C29_merge_exact.

(* Link to the check: a case is the block-level history the real BucketCompactor produced
   under a crash schedule, with the selections of a real store-gateway fetcher after every
   event. If the history is legal and the selections are the ones the filter model computes
   (corr_ok), then every original sample is served and nothing else is, after every event
   (served_all). *)
Theorem C29_accepted_case_is_safe : forall c, corr_ok c = true -> served_all c = true.
Proof. exact corr_served. Qed.
Print Assumptions C29_accepted_case_is_safe.

(* Exactly once. When the original blocks share no sample, at every prefix of every legal
   history and for every selection in which no block's sources are contained in another's
   (what the duplicate filter returns), a sample is in at most one selected block, and every
   block lists each of its samples once - so, with C29_crash_safe, every original sample is
   served exactly once, not only when compaction has finished but at every crash point. The
   source sets of the visible blocks always form a laminar family (nested or disjoint).
   partial: for overlapping original blocks (vertical compaction) "exactly once after
   compaction finished" is not proved (it needs the planner, C30); it is evaluated on the
   final selection of every quiescent run (pred_ok / once_ok). *)
Theorem C29_served_once : forall G init hist k sel,
  NoDup (map fst init) -> (forall o ss, In (o, ss) init -> NoDup ss) -> orig_disjoint init ->
  legal (init_state G init) hist = true ->
  let st := fold_left apply_hop (firstn k hist) (init_state G init) in
  antichain_ok st sel = true ->
  (forall i j a c s, In i sel -> In j sel -> find st i = Some a -> find st j = Some c ->
     In s (m_samples a) -> In s (m_samples c) -> i = j)
  /\ (forall i a, find st i = Some a -> NoDup (m_samples a)).
Proof. exact served_once. Qed.
Print Assumptions C29_served_once.

(* ... and on the case: for inputs whose original blocks share no sample, a legal history with
   covering, non-nested selections ends (at quiescence) with every sample listed once in what
   is served, under both treatments of deletion marks. Together with
   C29_accepted_case_is_safe: corr_ok /\ cover_all -> pred_ok for non-overlapping inputs. *)
Theorem C29_accepted_case_serves_once : forall c,
  corr_ok c = true -> cover_all c = true ->
  match c with CHist _ _ init _ _ _ _ => orig_disjoint_b init = true | CHistD _ _ _ _ _ _ _ => True end ->
  once_ok c = true.
Proof. exact once_case. Qed.
Print Assumptions C29_accepted_case_serves_once.

(* Exactly once, ALSO for overlapping inputs (vertical compaction, identical samples merged
   once): compaction has finished when the planner finds nothing to merge, i.e. no two served
   blocks of one compaction group overlap in time ([quiet_ok], evaluated on the real final
   selection of every quiescent run). At any such state of any legal history a sample is in at
   most one served block, and once in it (every block's samples lie in its time range; blocks
   of different groups are built from different streams). With C29_crash_safe: each original
   sample is served exactly once. *)
Theorem C29_served_once_when_quiet : forall G init hist k sel,
  NoDup (map fst init) -> (forall o ss, In (o, ss) init -> NoDup ss) ->
  init_in_range_b G init = true -> groups_disjoint_b G init = true ->
  legal (init_state G init) hist = true ->
  let st := fold_left apply_hop (firstn k hist) (init_state G init) in
  quiet_ok st sel = true ->
  (forall i j a c s, In i sel -> In j sel -> find st i = Some a -> find st j = Some c ->
     In s (m_samples a) -> In s (m_samples c) -> i = j)
  /\ (forall i a, find st i = Some a -> NoDup (m_samples a)).
Proof. exact quiet_once. Qed.
Print Assumptions C29_served_once_when_quiet.

(* ... on the case: corr_ok and the quiescence check give the duplicate-free check. With
   C29_accepted_case_is_safe, all of pred_ok but its (observed) cover/quiet clauses follows
   from corr_ok. *)
Theorem C29_accepted_case_serves_once_when_quiet : forall c,
  corr_ok c = true -> quiet_all c = true ->
  match c with CHist _ G init _ _ _ _ => groups_disjoint_b G init = true | CHistD _ _ _ _ _ _ _ => True end ->
  once_ok c = true.
Proof. exact once_case_quiet. Qed.
Print Assumptions C29_accepted_case_serves_once_when_quiet.

(* Replicated streams compacted with deduplication (--deduplication.replica-label, penalty
   merge function): the result of a compaction is a SUBSET of the parents' samples that keeps
   every series (legal_dd). partial: at every crash point of every such history the filter
   chain's selection contains only original samples and at least one sample of every original
   series - that no TIME RANGE of a series is lost is not stated (it needs the penalty
   algorithm, property C01); for replicas with identical samples the check additionally
   demands every result to hold exactly the parents' samples (exact_all) and all of them to be
   served (Go-side predicate). *)
Theorem C29_dedup_safe_partial : forall G init hist k hide,
  NoDup (map fst init) -> legal_dd (init_state G init) hist = true ->
  let st := fold_left apply_hop (firstn k hist) (init_state G init) in
  let sel := sg_select st hide in
  (forall o ss s, In (o, ss) init -> In s ss ->
     exists id b s', In id sel /\ find st id = Some b /\ In s' (m_samples b) /\ series_of s' = series_of s)
  /\ (forall id b s, In id sel -> find st id = Some b -> In s (m_samples b) ->
     exists o ss, In (o, ss) init /\ In s ss).
Proof. exact dedup_safe. Qed.
Print Assumptions C29_dedup_safe_partial.

Theorem C29_accepted_dedup_case_is_safe : forall c, corr_ok c = true -> dd_all c = true.
Proof. exact corr_dd. Qed.
Print Assumptions C29_accepted_dedup_case_is_safe.

(* ---- non-vacuity: three original blocks are compacted into block 3; the sources are
   marked one after the other and then deleted; the selections are those of the duplicate
   filter. ---- *)
Definition ex_init : list (N * list sample) :=
  [(0%N, [sm 0 0 1; sm 0 100 2]); (1%N, [sm 0 1000 3]); (2%N, [sm 1 2000 4; sm 0 2100 5])].
Definition ex_G : list (N * ometa) := [om 0 0 0 1000; om 1 0 1000 2000; om 2 0 2000 3000].
Definition ex_hist : list hop :=
  [HAdd 3 (mkcb [0; 1; 2]%N [0; 1; 2]%N [sm 0 0 1; sm 0 100 2; sm 0 1000 3; sm 0 2100 5; sm 1 2000 4] 0 2 0 3000);
   HMark 0; HMark 1; HMark 2; HDel 1; HDel 0; HDel 2].

Example C29_nonvacuous :
  order_ok = true
  /\ NoDup (map fst ex_init) /\ legal (init_state ex_G ex_init) ex_hist = true
  /\ cover_ok (fold_left apply_hop (firstn 0 ex_hist) (init_state ex_G ex_init)) true [0; 1; 2]%N = true
  /\ cover_ok (fold_left apply_hop (firstn 1 ex_hist) (init_state ex_G ex_init)) true [3]%N = true
  /\ cover_ok (fold_left apply_hop (firstn 3 ex_hist) (init_state ex_G ex_init)) false [3]%N = true
  /\ cover_ok (fold_left apply_hop (firstn 7 ex_hist) (init_state ex_G ex_init)) true [3]%N = true
  /\ antichain_ok (fold_left apply_hop (firstn 1 ex_hist) (init_state ex_G ex_init)) [3]%N = true
  /\ antichain_ok (init_state ex_G ex_init) [0; 1; 2]%N = true
  /\ orig_disjoint_b ex_init = true
  /\ sg_select (fold_left apply_hop (firstn 1 ex_hist) (init_state ex_G ex_init)) true = [3%N]
  /\ sg_select (fold_left apply_hop (firstn 2 ex_hist) (init_state ex_G ex_init)) false = [3%N]
  /\ sg_select (init_state ex_G ex_init) true = [0; 1; 2]%N
  /\ quiet_ok (fold_left apply_hop (firstn 7 ex_hist) (init_state ex_G ex_init)) [3%N] = true
  /\ init_in_range_b ex_G ex_init = true /\ groups_disjoint_b ex_G ex_init = true
  /\ legal (init_state ex_G ex_init) [HMark 0] = false      (* retiring a source before the result exists is illegal *)
  /\ legal (init_state ex_G ex_init) [HDel 0] = false.
Proof.
  split; [vm_compute; reflexivity|].
  split; [repeat constructor; simpl; intuition discriminate|].
  repeat split; vm_compute; reflexivity.
Qed.
