(* C29 — Compaction never loses or invents data, even if it crashes.
   Property theorems only. Vocabulary (Model/C29.v):
     init            the original blocks: (id, samples)
     hop             block-level event: HAdd (a compaction result became visible), HMark
                     (deletion mark uploaded), HDel (meta.json deleted)
     legal st hist   every event of hist satisfies its guard in the state where it happens:
                       HAdd: the new block's parents are visible, share no source and none is
                             strictly contained in another visible block; its sources are the
                             union of theirs, its samples exactly the union of theirs, each once
                       HMark: another visible UNMARKED block contains all sources of the block
                       HDel: the block carries a deletion mark
     cover_ok st hide sel   the store gateway's selection sel (hide: blocks with a deletion mark
                     are dropped before the duplicate filter) contains only eligible blocks and
                     covers the sources of every eligible block - the guarantee of the
                     duplicate filter (property C31), here a hypothesis that the check
                     evaluates on every selection made by the real fetcher
   A crash at any point leaves a prefix of the history; a restart appends further legal
   events: every state a crashing-and-restarting compactor can reach is the end of a prefix
   of a legal history. *)
From Coq Require Import ZArith NArith List Bool.
Import ListNotations.
From Verif Require Import Lib.Corr Gen.C29 Model.C29 Proofs.C29.

(* At every prefix (crash point) of every legal history over any set of original blocks, for
   either treatment of deletion marks and any covering selection: every sample of every
   original block is in a selected block, and every sample of a selected block is a sample
   of an original block. *)
Theorem C29_crash_safe : forall init hist k hide sel,
  NoDup (map fst init) -> legal (init_state init) hist = true ->
  let st := fold_left apply_hop (firstn k hist) (init_state init) in
  cover_ok st hide sel = true ->
  (forall o ss s, In (o, ss) init -> In s ss ->
     exists id b, In id sel /\ find st id = Some b /\ In s (m_samples b))
  /\ (forall id b s, In id sel -> find st id = Some b -> In s (m_samples b) ->
     exists o ss, In (o, ss) init /\ In s ss).
Proof. exact crash_safe. Qed.
Print Assumptions C29_crash_safe.

(* Every block that ever exists in a legal history holds exactly the samples of the
   original blocks among its sources (the guard of HAdd - result = union of the parents,
   each sample once - is checked on every real compaction output). *)
Theorem C29_merge_exact : forall init hist k i b,
  NoDup (map fst init) -> legal (init_state init) hist = true ->
  In (i, b) (fold_left apply_hop (firstn k hist) (init_state init)) ->
  forall s, In s (m_samples b) <-> exists o ss, In (o, ss) init /\ In o (m_sources b) /\ In s ss.
Proof. exact merge_exact. Qed.
Print Assumptions C29_merge_exact.

(* Link to the check: a case is the block-level history the real BucketCompactor produced
   under a crash schedule, with the selections of a real store-gateway fetcher after every
   event. If the history is legal (corr_ok) and the selections are covering (cover_all, part
   of pred_ok), then every original sample is served and nothing else is, after every event
   (served_all, the rest of pred_ok but "exactly once at quiescence"). *)
Theorem C29_accepted_case_is_safe : forall c,
  corr_ok c = true -> cover_all c = true -> served_all c = true.
Proof. exact crash_safe_case. Qed.
Print Assumptions C29_accepted_case_is_safe.

(* Exactly once. When the original blocks share no sample, at every prefix of every legal
   history and for every selection in which no block's sources are contained in another's
   (what the duplicate filter returns), a sample is in at most one selected block, and every
   block lists each of its samples once - so, with C29_crash_safe, every original sample is
   served exactly once, not only when compaction has finished but at every crash point. The
   source sets of the visible blocks always form a laminar family (nested or disjoint).
   partial: for overlapping original blocks (vertical compaction) "exactly once after
   compaction finished" is not proved (it needs the planner, C30); it is evaluated on the
   final selection of every quiescent run (pred_ok / once_ok). *)
Theorem C29_served_once : forall init hist k sel,
  NoDup (map fst init) -> (forall o ss, In (o, ss) init -> NoDup ss) -> orig_disjoint init ->
  legal (init_state init) hist = true ->
  let st := fold_left apply_hop (firstn k hist) (init_state init) in
  antichain_ok st sel = true ->
  (forall i j a c s, In i sel -> In j sel -> find st i = Some a -> find st j = Some c ->
     In s (m_samples a) -> In s (m_samples c) -> i = j)
  /\ (forall i a, find st i = Some a -> NoDup (m_samples a)).
Proof. exact served_once. Qed.
Print Assumptions C29_served_once.

(* ... and on the case: for inputs whose original blocks share no sample, a legal history with
   covering, non-nested selections ends (at quiescence) with every sample listed once in what
   is served, under both treatments of deletion marks. Together with
   C29_accepted_case_is_safe: corr_ok /\ cover_all -> pred_ok for non-overlapping inputs. *)
Theorem C29_accepted_case_serves_once : forall c,
  corr_ok c = true -> cover_all c = true ->
  match c with CHist _ init _ _ _ _ => orig_disjoint_b init = true end ->
  once_ok c = true.
Proof. exact once_case. Qed.
Print Assumptions C29_accepted_case_serves_once.

(* ---- non-vacuity: three original blocks are compacted into block 3; the sources are
   marked one after the other and then deleted; the selections are those of the duplicate
   filter. ---- *)
Definition ex_init : list (N * list sample) :=
  [(0%N, [sm 0 0 1; sm 0 100 2]); (1%N, [sm 0 1000 3]); (2%N, [sm 1 2000 4; sm 0 2100 5])].
Definition ex_hist : list hop :=
  [HAdd 3 (mkcb [0; 1; 2]%N [0; 1; 2]%N [sm 0 0 1; sm 0 100 2; sm 0 1000 3; sm 0 2100 5; sm 1 2000 4]);
   HMark 0; HMark 1; HMark 2; HDel 1; HDel 0; HDel 2].

Example C29_nonvacuous :
  order_ok = true
  /\ NoDup (map fst ex_init) /\ legal (init_state ex_init) ex_hist = true
  /\ cover_ok (fold_left apply_hop (firstn 0 ex_hist) (init_state ex_init)) true [0; 1; 2]%N = true
  /\ cover_ok (fold_left apply_hop (firstn 1 ex_hist) (init_state ex_init)) true [3]%N = true
  /\ cover_ok (fold_left apply_hop (firstn 3 ex_hist) (init_state ex_init)) false [3]%N = true
  /\ cover_ok (fold_left apply_hop (firstn 7 ex_hist) (init_state ex_init)) true [3]%N = true
  /\ antichain_ok (fold_left apply_hop (firstn 1 ex_hist) (init_state ex_init)) [3]%N = true
  /\ antichain_ok (init_state ex_init) [0; 1; 2]%N = true
  /\ orig_disjoint_b ex_init = true
  /\ legal (init_state ex_init) [HMark 0] = false      (* retiring a source before the result exists is illegal *)
  /\ legal (init_state ex_init) [HDel 0] = false.
Proof.
  split; [vm_compute; reflexivity|].
  split; [repeat constructor; simpl; intuition discriminate|].
  repeat split; vm_compute; reflexivity.
Qed.
