(* C32 — Blocks are deleted only when retention and delays allow it.
   Property theorems only.  The decisions are those of the Go source: every
   condition in [retention_marks], [cleaner_deletes], [partial_deleted] comes
   from Gen/C32.v, regenerated from retention.go / blocks_cleaner.go / clean.go
   on every run.  Instants and durations in nanoseconds (Z), block MaxTime in
   ms, deletion-mark time in s; the clock is a parameter (all [now]). *)
From Coq Require Import ZArith List Bool Lia.
Import ListNotations.
From Verif Require Import Lib.Corr Gen.C32 Model.C32 Proofs.C32.
Open Scope Z_scope.

(* Retention marks a block only when its newest possible sample (MaxTime - 1 ms;
   MaxTime is exclusive) is older than the retention of its resolution — for all
   MaxTime incl. negative and sub-second positions, all retentions, all clocks.
   (Holds of the repaired expression time.UnixMilli(m.MaxTime); with the former
   time.Unix(m.MaxTime/1000, 0) this theorem does not check, see C32_second_truncation_refuted.) *)
Theorem C32_retention_only_when_older : forall now maxt ret,
  retention_marks now maxt ret = true -> ret <> 0 /\ now - (maxt - 1) * ns_per_ms > ret.
Proof. exact retention_only_when_older. Qed.
Print Assumptions C32_retention_only_when_older.

Theorem C32_retention_zero_disables : forall now maxt, retention_marks now maxt 0 = false.
Proof. exact retention_zero_disables. Qed.
Print Assumptions C32_retention_zero_disables.

(* not vacuous the other way: a block whose MaxTime itself is older than the retention is marked *)
Theorem C32_retention_marks_when_older : forall now maxt ret,
  ret <> 0 -> now - maxt * ns_per_ms > ret -> retention_marks now maxt ret = true.
Proof. exact retention_marks_when_older. Qed.
Print Assumptions C32_retention_marks_when_older.

(* The cleaner removes a marked block exactly when the mark is older than the delete delay. *)
Theorem C32_cleaner_only_after_delay : forall now mark delay,
  cleaner_deletes now mark delay = true <-> now - mark * ns_per_s > delay.
Proof. exact cleaner_only_after_delay. Qed.
Print Assumptions C32_cleaner_only_after_delay.

(* Partial uploads: removed only when untouched for longer than the threshold
   (48 h, the linked constant) and not carrying a deletion mark. *)
Theorem C32_partial_only_after_threshold : forall now lm marked,
  partial_deleted now lm marked = true -> marked = false /\ now - lm > PartialUploadThresholdAge.
Proof. exact partial_only_after_threshold. Qed.
Print Assumptions C32_partial_only_after_threshold.

Theorem C32_partial_skips_marked : forall now lm, partial_deleted now lm true = false.
Proof. exact partial_skips_marked_blocks. Qed.
Print Assumptions C32_partial_skips_marked.

(* Listing faults (getOldestModifiedTime): the listing of a partial block's objects may
   complete, report no times, or fail before the first / after k objects; on the error path
   the code uses the expression regenerated into oldest_time_on_error (the ULID creation time).
   A young partial upload — ULID time and every object's last-modified time within the
   threshold — is never removed, for EVERY listing outcome. *)
Theorem C32_young_partial_never_deleted : forall now ulid_t lms fault marked,
  now - ulid_t <= PartialUploadThresholdAge ->
  Forall (fun t => now - t <= PartialUploadThresholdAge) lms ->
  partial_deleted_listing now ulid_t lms fault marked = false.
Proof. exact young_partial_never_deleted. Qed.
Print Assumptions C32_young_partial_never_deleted.

(* Without a listing fault a removal satisfies the predicate judged from the bucket's true
   object times (every object older than the threshold). *)
Theorem C32_partial_listing_pred : forall t now ulid_t lms marked,
  t <= now -> Forall (fun x => zero_time < x) lms ->
  partial_pred_listing now ulid_t lms marked (partial_deleted_listing t ulid_t lms None marked) = true.
Proof. exact listing_ok_pred. Qed.
Print Assumptions C32_partial_listing_pred.

(* Link to the check: an action the model takes at instant t satisfies the
   boolean predicate evaluated at any later clock reading (the check evaluates
   it at the reading taken after the call returned). *)
Theorem C32_model_preds : forall t now, t <= now ->
  (forall maxt ret, ret_pred now maxt ret (retention_marks t maxt ret) = true) /\
  (forall mark delay, clean_pred now mark delay (cleaner_deletes t mark delay) = true) /\
  (forall lm marked, partial_pred now lm marked (partial_deleted t lm marked) = true).
Proof. exact model_preds. Qed.
Print Assumptions C32_model_preds.

(* The former expression: MaxTime = 1999 ms, retention 10 s, now = 11.5 s marks a
   block whose newest sample may be only 9.502 s old. *)
Theorem C32_second_truncation_refuted :
  exists now maxt ret, ret <> 0 /\ now > old_maxTime maxt + ret /\ ~ (now - (maxt - 1) * ns_per_ms > ret).
Proof. exact second_truncation_refuted. Qed.
Print Assumptions C32_second_truncation_refuted.

(* Non-vacuity: concrete instants on both sides of each boundary. *)
Example C32_nonvacuous :
  retention_marks 11999000001 1999 10000000000 = true
  /\ retention_marks 11999000000 1999 10000000000 = false
  /\ retention_marks 3999000000 (-6001) 10000000000 = false
  /\ cleaner_deletes 100000000001 50 50000000000 = true
  /\ cleaner_deletes 100000000000 50 50000000000 = false
  /\ partial_deleted (PartialUploadThresholdAge + 8) 7 false = true
  /\ partial_deleted (PartialUploadThresholdAge + 7) 7 false = false
  /\ partial_deleted_listing (PartialUploadThresholdAge + 100) 100 [50; 90] (Some 0%nat) false = false
  /\ partial_deleted_listing (PartialUploadThresholdAge + 100) 50 [50; 90] None false = true.
Proof. vm_compute. repeat split; reflexivity. Qed.
