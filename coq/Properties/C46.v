(* C46 — The alert queue is a bounded FIFO that never loses a wake-up.
   Statements over ALL traces of the transition system of Model/C46.v started
   in the empty queue: any number of pushers and poppers, any interleaving of
   push / take (token receive) / crit (critical section of Pop), any relabel
   decision function [keep], any capacity >= 0 and batch size >= 0. *)
From Coq Require Import NArith ZArith List Bool String.
Import ListNotations.
From Verif Require Import Lib.Corr Gen.C46 Model.C46 Proofs.C46 Proofs.C46_bridge.
Open Scope Z_scope.

(* The queue never holds more than its capacity. *)
Theorem C46_capacity : forall cap batch keep tr s,
  0 <= cap -> run cap batch keep init tr = Some s -> len (q s) <= cap.
Proof. intros cap batch keep tr s Hc Hr. destruct (reach_inv cap batch keep Hc tr s Hr) as [H _]. exact H. Qed.
Print Assumptions C46_capacity.

(* Every batch handed out by Pop is at most the batch size. *)
Theorem C46_batch : forall cap batch keep tr s,
  0 <= batch -> run cap batch keep init tr = Some s ->
  Forall (fun l => match l with LCrit out => len out <= batch | _ => True end) tr.
Proof. intros cap batch keep tr s Hb Hr. eapply batch_bound; eauto. Qed.
Print Assumptions C46_batch.

(* FIFO, dropping the oldest first: the queue is always the newest part of the
   kept pushes (a suffix of their concatenation), and what was popped so far is
   a subsequence, in order, of the older part. *)
Theorem C46_fifo : forall cap batch keep tr s,
  0 <= cap -> run cap batch keep init tr = Some s ->
  exists older, kept keep tr = older ++ q s /\ Sub (popped tr) older.
Proof. intros cap batch keep tr s Hc Hr. destruct (reach_inv cap batch keep Hc tr s Hr) as [_ [_ H]]. exact H. Qed.
Print Assumptions C46_fifo.

(* No lost wake-up: whenever alerts are queued, the token is set or a popper
   is between its token receive and its critical section; hence a popper step
   is enabled, and the popper in between re-arms the token if alerts remain. *)
Theorem C46_no_lost_wakeup : forall cap batch keep tr s,
  0 <= cap -> run cap batch keep init tr = Some s -> q s <> [] ->
  (tok s = true \/ (0 < mid s)%nat)
  /\ ((exists s', take s = Some s')
      \/ (exists s' out, crit batch s = Some (s', out) /\ (q s' <> [] -> tok s' = true))).
Proof.
  intros cap batch keep tr s Hc Hr Hne.
  pose proof (reach_inv cap batch keep Hc tr s Hr) as HI. split.
  - destruct HI as [_ [H _]]. exact (H Hne).
  - eapply popper_enabled; eauto.
Qed.
Print Assumptions C46_no_lost_wakeup.

(* Bridge between the transition system and the check.
   (1) Every run that ends with no popper between its two halves satisfies, on
       its own final state, the boolean predicate the check evaluates on the
       implementation's observables. *)
Theorem C46_trace_pred : forall cap batch tr s,
  0 <= cap -> 0 <= batch ->
  run cap batch keep_nonneg init tr = Some s -> mid s = O ->
  obs_pred cap batch tr (q s, tok s) = true.
Proof. intros cap batch tr s Hc Hb. apply trace_pred; assumption. Qed.
Print Assumptions C46_trace_pred.

(* (2) A sequential recording accepted by the correspondence check IS a run of
       the transition system (pop = take then crit), and then the predicate
       holds after every prefix of it. *)
Theorem C46_seq_bridge : forall cap batch ops,
  0 <= cap -> 0 <= batch ->
  corr_ok (CSeq cap batch ops) = true ->
  (exists s, run cap batch keep_nonneg init (trace_of ops) = Some s /\ mid s = O)
  /\ pred_ok (CSeq cap batch ops) = true.
Proof.
  intros cap batch ops Hc Hb H. split; [eapply seq_is_run; eauto | apply seq_bridge; assumption].
Qed.
Print Assumptions C46_seq_bridge.

(* (3) A forced interleaving (pushes landing between Pop's token receive and
       its critical section): if the observation is explained by one of the
       candidate schedules of the model, the predicate holds for that schedule. *)
Theorem C46_mid_bridge : forall cap batch pre mids term out nilret after,
  0 <= cap -> 0 <= batch ->
  corr_ok (CMid cap batch pre mids term out nilret after) = true ->
  pred_ok (CMid cap batch pre mids term out nilret after) = true.
Proof. intros cap batch pre mids term out nilret after Hc Hb. apply mid_bridge; assumption. Qed.
Print Assumptions C46_mid_bridge.

(* Tie T: Pop receives the token before taking the mutex and runs the rest
   under it; Push runs under the mutex and signals last. *)
Theorem C46_statement_order : stmts_ok = true.
Proof. exact stmts_fact. Qed.
Print Assumptions C46_statement_order.

(* Non-vacuity: two pushes around the capacity (3) with a relabel drop, a popper
   taking the token, a third push while that popper is between its two halves,
   then its critical section (batch 2) and a second pop. *)
Example C46_nonvacuous :
  run 3 2 keep_nonneg init
      [LPush [1; -2; 3]; LTake; LPush [4; 5]; LCrit [3; 4]; LTake; LCrit [5]]
  = Some (St [] false 0).
Proof. vm_compute. reflexivity. Qed.
