(* C21 — Shuffle-sharded tenants get stable, correctly sized sub-rings.
   Property theorems only. Model: Model/C21.v (getShardSize, getTenantShard,
   getTenantShardCached) over the shared ketama ring model. Section hashes,
   math/rand positions (seeded by md5 of tenant and zone) and filepath.Match
   results are arbitrary data of the statements. *)
From Coq Require Import ZArith List Bool Arith Permutation.
Import ListNotations.
From Verif Require Import Lib.Corr Lib.Hashring_Ketama Gen.C21 Model.C21 Proofs.C21.
From Verif Require Import Lib.Hashring_Answers Lib.Hashring_Order.
Close Scope Z_scope.

(* Stable, cached or not: for ANY eviction policy (the cache may drop any
   entries at any time) and any request history, every answer equals the
   recomputation for that tenant. *)
Theorem C21_cache_transparent : forall compute evict,
  (forall c p, In p (evict c) -> In p c) ->
  forall ts cache,
  (forall p, In p cache -> snd p = compute (fst p)) ->
  run_requests compute evict cache ts = map compute ts.
Proof. exact cache_transparent. Qed.
Print Assumptions C21_cache_transparent.

(* Sized: within one zone, `take` draws select exactly `take` pairwise
   distinct nodes of that zone, whatever the random positions are, as long as the
   zone has at least that many nodes [D] owning sections. *)
Theorem C21_zone_selection_sized : forall secs D, NoDup D ->
  (forall d, In d D -> exists s, In s secs /\ s_ep s = d) ->
  forall take positions selected,
  take <= length positions ->
  NoDup selected -> length selected + take <= length D ->
  let l := select secs positions take selected in
  NoDup l /\ length l = length selected + take /\
  (forall e, In e l -> In e selected \/ exists s, In s secs /\ s_ep s = e) /\
  (forall e, In e selected -> In e l).
Proof. exact select_spec. Qed.
Print Assumptions C21_zone_selection_sized.

(* Sized, whole shard: whenever getTenantShard succeeds (every node owning a
   section, non-negative shard size, enough random draws supplied), the shard
   consists of pairwise distinct valid nodes, contains EXACTLY `take` nodes of
   every zone — take = ceil(size / zones), or the size itself in the single
   pseudo-zone when zone awareness is disabled — hence zones * take nodes in
   total, and at least rf of them. *)
Theorem C21_shard_sized : forall eps rf dflt disabled ovs globm tenant rand nodes,
  Forall (fun e => snd e <> []) eps -> eps <> [] ->
  let zs := zones_of disabled [] eps in
  let ss := shard_size ovs globm tenant dflt in
  let take := if disabled then ss else per_zone ss (length zs) in
  (0 <= ss)%Z ->
  (forall z, In z zs -> Z.to_nat take <= length (lookup_pos rand z)) ->
  tenant_shard eps rf dflt disabled ovs globm tenant rand = SOk nodes ->
  NoDup nodes /\ (forall e, In e nodes -> e < length eps) /\
  (forall z, In z zs -> Z.of_nat (count_zone disabled eps nodes z) = take) /\
  Z.of_nat (length nodes) = (Z.of_nat (length zs) * take)%Z /\ rf <= length nodes.
Proof. exact tenant_shard_sized. Qed.
Print Assumptions C21_shard_sized.

(* The configured size: the source (as read on this run) implements the
   documented override semantics — first matching override wins, an unset
   matcher type means exact, glob overrides use filepath.Match, malformed
   patterns never match — otherwise the default shard size. *)
Theorem C21_shard_size_documented : forall ovs globm tenant dflt,
  shard_size ovs globm tenant dflt = shard_size_doc ovs globm tenant dflt.
Proof. exact shard_size_is_documented. Qed.
Print Assumptions C21_shard_size_documented.

(* Containing: whatever the section hashes of the tenant's sub-ring are, the
   rf answers of its GetN are pairwise distinct members of the shard. *)
Theorem C21_replicas_inside_shard : forall (nodes : list nat) sub_eps rf v a,
  length sub_eps = length nodes ->
  sections_of 0 sub_eps <> [] ->
  ketama_answers sub_eps rf v = Some a ->
  length a = rf /\
  (forall i, In i a -> In (nth i nodes 0) nodes) /\
  (NoDup nodes -> NoDup (map (fun i => nth i nodes 0) a)).
Proof. exact answers_inside_shard. Qed.
Print Assumptions C21_replicas_inside_shard.

(* getTenantShard visits the zones in Go's map iteration order, so finalNodes
   — the endpoint list the sub-ring is built from — comes in an unspecified order.
   This cannot be observed: for every permutation of that list the sub-ring
   answers every lookup with the same nodes (collision-free section hashes). *)
Theorem C21_zone_iteration_order_irrelevant : forall sub_eps perm,
  Permutation perm (seq 0 (length sub_eps)) ->
  NoDup (map s_hash (sections_of 0 sub_eps)) ->
  forall rf v, sections_of 0 sub_eps <> [] ->
  option_map (map (fun i => nth i perm 0))
    (ketama_answers (permute (0%Z, []) sub_eps perm) rf v)
  = ketama_answers sub_eps rf v.
Proof. exact ketama_answers_perm. Qed.
Print Assumptions C21_zone_iteration_order_irrelevant.

(* Tie T: the comparison handed to sort.Search in getTenantShard, read from the
   source, is "section hash >= random position", as in the model's ring_index. *)
Theorem C21_search_predicate_from_source : forall h pos, shard_search_pred h pos = (pos <=? h)%Z.
Proof. exact shard_search_pred_tie. Qed.
Print Assumptions C21_search_predicate_from_source.

(* Non-vacuity: two zones with two nodes each, shard size 2 (one per zone). *)
Example C21_nonvacuous :
  let eps := [(0, [10; 50]); (1, [20; 60]); (0, [30; 70]); (1, [40; 80])]%Z in
  tenant_shard eps 2 2%Z false [] [] 7%Z [(0, [35; 1]); (1, [65; 2])]%Z = SOk [0; 3]
  /\ shard_size [(3, MUnset, [7])]%Z [[]] 7%Z 2%Z = 3%Z.
Proof. split; vm_compute; reflexivity. Qed.

(* Non-vacuity of the whole-shard theorem: its hypotheses hold of the example above. *)
Example C21_sized_nonvacuous :
  let eps := [(0, [10; 50]); (1, [20; 60]); (0, [30; 70]); (1, [40; 80])]%Z in
  let rand := [(0, [35; 1]); (1, [65; 2])]%Z in
  Forall (fun e => snd e <> []) eps /\ eps <> [] /\
  (0 <= shard_size [] [] 7%Z 2%Z)%Z /\
  (forall z, In z (zones_of false [] eps) ->
     Z.to_nat (per_zone (shard_size [] [] 7%Z 2%Z) (length (zones_of false [] eps))) <= length (lookup_pos rand z)).
Proof.
  split; [repeat constructor; discriminate|]. split; [discriminate|]. split; [vm_compute; discriminate|].
  intros z Hz. vm_compute in Hz. destruct Hz as [<-|[<-|[]]]; vm_compute; repeat constructor.
Qed.
