(* C38 — Re-downsampling aggregates conserves totals.
   Property theorems only; each is closed by [exact] of a lemma from Proofs/C38.v.
   Model: Lib/Downsample_Aggr.v (downsampleAggr, downsampleAggrLoop,
   downsampleFloatAggrBatch, genericAggregate, expandXorChunkIterator,
   ApplyCounterResetsSeriesIterator) over Lib/Downsample_Core.v (downsampleBatch,
   floatAggregator), with [currentWindow] regenerated from the Go source (Gen/C38.v).
   [num_chunks] = targetChunkCount(...) is universally quantified.
   valid_ins: output resolution > 0 and, per aggregate, the input timestamps are >= 0
   and non-decreasing over the whole chunk sequence (any number / size of chunks,
   aggregates may be absent from some chunks). *)
From Coq Require Import ZArith List Bool Sorted.
Import ListNotations.
From Verif Require Import Lib.Corr Lib.Downsample_Core Lib.Downsample_Aggr Gen.C38 Model.C38 Proofs.C38.
Open Scope Z_scope.

(* Whenever downsampleAggr returns chunks: the total sample count (count is
   re-aggregated by SUM), the total sum, the overall minimum and the overall maximum
   of the series are those of the input. *)
Theorem C38_totals : forall res num_chunks ins out,
  valid_ins res ins -> downsample_aggr_m res num_chunks ins = Some out -> totals_spec ins out.
Proof. intros res nc ins out H. exact (aggr_totals res (proj1 H) nc ins out H). Qed.
Print Assumptions C38_totals.

(* Output timestamps of every aggregate are non-decreasing over the output chunk
   sequence and each lies between two input timestamps of that aggregate (hence inside
   the input's time span). *)
Theorem C38_timestamps : forall res num_chunks ins out,
  valid_ins res ins -> downsample_aggr_m res num_chunks ins = Some out -> timestamps_spec ins out.
Proof. intros res nc ins out H. exact (aggr_timestamps res (proj1 H) nc ins out H). Qed.
Print Assumptions C38_timestamps.

(* Both, through the boolean predicate that the check evaluates on the
   implementation's own output (corr_ok states model = implementation output). *)
Theorem C38_pred : forall res num_chunks ins out,
  downsample_aggr_m res num_chunks ins = Some out -> pred_ok (CAggr res num_chunks ins out) = true.
Proof. exact pred_holds. Qed.
Print Assumptions C38_pred.

(* Termination, unconditionally (with C38-fix.patch: batchSize := max(len(chks)/numChunks, 1)):
   for every chunk list, resolution and EVERY value of targetChunkCount, downsampleAggr
   returns (the loop and the counter iterator inside every part terminate), and on valid
   inputs the predicate holds: total correctness. *)
Theorem C38_terminates : forall res num_chunks ins,
  exists out, downsample_aggr_m res num_chunks ins = Some out.
Proof. exact aggr_terminates. Qed.
Print Assumptions C38_terminates.

Theorem C38_pred_total : forall res num_chunks ins,
  valid_input res num_chunks ins = true ->
  exists out, downsample_aggr_m res num_chunks ins = Some out /\ pred_ok (CAggr res num_chunks ins out) = true.
Proof. exact pred_total. Qed.
Print Assumptions C38_pred_total.

(* The code AS FOUND computed batchSize := len(chks)/numChunks.  Planned (DESIGN) as "batch
   size 0 returns the invalid-range error"; the faithful model REFUTES that: with more
   target chunks than input chunks downsampleAggrLoop takes an empty part, which yields a
   chunk with mint = maxt = 0 (not MaxInt64/MinInt64), so no error is raised and the same
   chunks are processed again — the loop never ends, whatever the fuel (observed on the real
   code: corpus/C38/more_targets_than_chunks.json hangs on the tree without the fix). *)
Theorem C38_unclamped_zero_batch_refuted : forall res fuel chks,
  chks <> [] -> aggr_loop cw fuel res 0 chks = None.
Proof. exact zero_batch_spins. Qed.
Print Assumptions C38_unclamped_zero_batch_refuted.

(* ... but on the property's domain the clamp changes nothing: for 5m chunks as DownsampleRaw
   writes them (at most 720 rows each) and a 5m -> 1h target chunk count within the bound the
   heuristic guarantees (both checked on the implementation's values in corr_ok), there are
   never more target chunks than chunks.  So blocks written by Thanos never hit the hang;
   only foreign / hand-made 5m blocks with very large chunks could. *)
Theorem C38_clamp_noop_in_domain : forall nc (ins : list achunk),
  ins <> [] -> (1 <= nc)%nat -> domain_ok nc ins = true ->
  (nc <= length ins)%nat /\ Nat.max (length ins / nc) 1 = (length ins / nc)%nat.
Proof. exact clamp_noop. Qed.
Print Assumptions C38_clamp_noop_in_domain.

(* the integer loop of targetChunkCount (`for x = 1; expSamples/x > 140; x++ {}`) stops at
   the least x with expSamples/x <= 140, i.e. expSamples/141 + 1: the closed form used in
   domain_ok *)
Theorem C38_target_loop_closed_form : forall e, 0 <= e ->
  let x := e / 141 + 1 in
  Z.quot e x <= 140 /\ forall y, 1 <= y < x -> 140 < Z.quot e y.
Proof. exact target_loop_closed_form. Qed.
Print Assumptions C38_target_loop_closed_form.

(* Tie T for the batch size of downsampleAggrLoop: the model's max(len / numChunks, 1) is the
   expression assigned to batchSize in the Go source (translated into Gen/C38.v on every run). *)
Theorem C38_batch_size_source : forall len nc,
  Z.to_nat (aggr_batch_size (Z.of_nat len) (Z.of_nat nc)) = Nat.max (len / nc) 1.
Proof. exact aggr_batch_size_model. Qed.
Print Assumptions C38_batch_size_source.

(* Non-vacuity: three 10 ms-resolution chunks re-downsampled to 30 ms in parts of one
   chunk each (num_chunks = 3); the second chunk lacks the max aggregate. *)
Example C38_nonvacuous :
  let ins := [ mkC 9 19 (Some [(9, 2); (19, 1)]) (Some [(9, 3); (19, 7)]) (Some [(9, -2); (19, 7)]) (Some [(9, 5); (19, 7)]) (Some [(0, 5); (9, 5); (19, 14); (19, 7)]);
               mkC 29 40 (Some [(29, 2); (40, 1)]) (Some [(29, 2); (40, 9)]) (Some [(29, 1); (40, 9)]) None (Some [(25, 1); (29, 1); (40, 9); (40, 9)]);
               mkC 59 59 (Some [(59, 4)]) (Some [(59, 8)]) (Some [(59, 0)]) (Some [(59, 6)]) (Some [(50, 0); (59, 6); (59, 6)]) ] in
  valid_ins 30 ins /\ valid_input 30 3 ins = true /\
  exists out, downsample_aggr_m 30 3 ins = Some out /\ length out = 3%nat /\
    map snd (series k_count out) = [3; 2; 1; 4] /\ map fst (series k_count out) = [19; 29; 40; 59].
Proof.
  cbv zeta. split; [|split; [vm_compute; reflexivity|]].
  - apply valid_input_valid with (nc := 3%nat). vm_compute. reflexivity.
  - eexists. split; [vm_compute; reflexivity|]. repeat split; vm_compute; reflexivity.
Qed.
