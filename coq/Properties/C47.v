(* C47 — The config reloader applies the latest configuration.
   The theorems describe the code WITH repo_patches/C47-fix.patch.
   [apply] is one Reloader.apply call on a file-system snapshot (config file
   [cfg], config directory [dir] with distinct file names) from ANY reloader
   state [s] (hence after every history of edits, additions, removals and reload
   failures), for every environment [env], with or without tolerated expansion
   errors, and every script of the reload endpoint ([fails] failures then
   success, or the retry window running out: [give_up]). [watch] is the endless
   loop of Watch as a state machine over events (debounced file notification /
   watch interval elapsed / context cancelled).
   sha256 is modelled as the identity on (name, content) lists. *)
From Coq Require Import NArith ZArith List Bool String.
Import ListNotations.
From Verif Require Import Lib.Corr Lib.Misc_Cmp Gen.C47 Model.C47 Proofs.C47.

(* One apply call that returns without error:
   - every output equals its input with the environment substituted;
   - the reload endpoint is called iff a previous reload is still pending
     ([force]) or the content differs from the one recorded at the last
     successful reload;
   - a successful reload (after [fails] retried failures) records the content
     and clears the pending flag; an unsuccessful one leaves the record unchanged
     and sets the flag;
   - if every output present is recorded ([synced], an invariant: next theorem)
     the output directory afterwards holds only files whose inputs exist. *)
Theorem C47_apply : forall has_cfg env tolerate s cfg dir fails give_up s' r,
  apply has_cfg env tolerate s cfg dir fails give_up = (s', r) ->
  r_err r = false -> NoDup (map fst dir) ->
  (has_cfg = true -> exists c, cfg = Some c /\ out_cfg s' = expand env tolerate c /\ expand env tolerate c <> None)
  /\ (forall n c, In (n, c) dir -> lookup n (out_dir s') = expand env tolerate c /\ expand env tolerate c <> None)
  /\ r_tried r = (force s || negb (same_as_recorded has_cfg s cfg dir))
  /\ (r_succeeded r = true -> r_tried r = true /\ give_up = false /\ force s' = false
        /\ last_cfg s' = cfg_hash has_cfg cfg /\ last_dir s' = Some dir /\ r_attempts r = S fails)
  /\ (r_succeeded r = false -> last_cfg s' = last_cfg s /\ last_dir s' = last_dir s
        /\ force s' = (force s || r_tried r))
  /\ (r_tried r = true -> r_succeeded r = negb give_up)
  /\ last_names s' = Some (map fst dir)
  /\ (synced s -> forall f, In f (out_dir s') -> In (fst f) (map fst dir)).
Proof. exact apply_spec. Qed.
Print Assumptions C47_apply.

(* [synced] holds initially and after every apply call, failing or not: outputs
   of vanished inputs are removed by the next complete pass, whatever happened
   before. *)
Theorem C47_synced_invariant : forall has_cfg env tolerate,
  synced init
  /\ forall s cfg dir fails give_up,
       synced s -> synced (fst (apply has_cfg env tolerate s cfg dir fails give_up)).
Proof. intros. split; [exact synced_init | intros; apply apply_synced; assumption]. Qed.
Print Assumptions C47_synced_invariant.

(* Before the repair this was false: a pass failing half-way (unset variable,
   not tolerated) had written outputs it did not record; if such an input
   disappeared its output stayed (third component: the repaired code removes
   it). Witness replayed on the implementation: corpus/C47/01. *)
Theorem C47_unfixed_removal_refuted :
  let s1 := fst (apply_unfixed false w_env false init None [(fa, [120%N])] 0 false) in
  let s2 := fst (apply_unfixed false w_env false s1 None [(fa, [120%N]); (fb, [121%N]); (fc, bad)] 0 false) in
  let '(s3, r3) := apply_unfixed false w_env false s2 None [(fa, [120%N])] 0 false in
  r_err r3 = false /\ out_dir s3 = [(fa, [120%N]); (fb, [121%N])]
  /\ out_dir (fst (apply false w_env false
        (fst (apply false w_env false (fst (apply false w_env false init None [(fa, [120%N])] 0 false))
                    None [(fa, [120%N]); (fb, [121%N]); (fc, bad)] 0 false))
        None [(fa, [120%N])] 0 false)) = [(fa, [120%N])].
Proof. exact error_pass_leaves_stale_output. Qed.
Print Assumptions C47_unfixed_removal_refuted.

(* The Watch loop calls apply once for every event until the context is
   cancelled ([live] = the events before the first cancellation). *)
Theorem C47_watch_applies_every_event : forall has_cfg env tolerate s evs,
  List.length (snd (watch has_cfg env tolerate s evs)) = List.length (live evs).
Proof. intros. apply watch_applies_every_event. Qed.
Print Assumptions C47_watch_applies_every_event.

(* After the files stop changing: the first apply whose endpoint script ends in
   success leaves the reloader settled on the content (nothing pending, content
   recorded; its outputs are as in C47_apply); from a settled state every later
   event on the same content is handled without error and without calling the
   endpoint, and the reloader stays settled. A reload that gave up is retried at
   the very next event. *)
Theorem C47_quiescent : forall has_cfg env tolerate cfg dir,
  NoDup (map fst dir) ->
  r_err (snd (apply has_cfg env tolerate init cfg dir 0 false)) = false ->
  (forall s fails s' r,
     apply has_cfg env tolerate s cfg dir fails false = (s', r) ->
     r_err r = false /\ settled has_cfg s' cfg dir)
  /\ (forall s evs, settled has_cfg s cfg dir -> quiet cfg dir evs ->
     settled has_cfg (fst (watch has_cfg env tolerate s evs)) cfg dir
     /\ Forall (fun r => r_err r = false /\ r_tried r = false) (snd (watch has_cfg env tolerate s evs))
     /\ List.length (snd (watch has_cfg env tolerate s evs)) = List.length evs).
Proof.
  intros has_cfg env tolerate cfg dir Hnd He. split.
  - intros s fails s' r H.
    assert (E : r_err r = false).
    { pose proof (apply_err_state has_cfg env tolerate s init cfg dir fails false 0 false) as X.
      rewrite H in X. cbn [snd] in X. congruence. }
    split; [exact E | eapply apply_settles; eauto].
  - intros s evs Hs Hq. apply watch_stable; assumption.
Qed.
Print Assumptions C47_quiescent.

Theorem C47_retry_next_event : forall has_cfg env tolerate s cfg dir fails s' r cfg2 dir2 f2 g2,
  apply has_cfg env tolerate s cfg dir fails true = (s', r) ->
  r_err r = false -> NoDup (map fst dir) -> r_tried r = true ->
  r_err (snd (apply has_cfg env tolerate s' cfg2 dir2 f2 g2)) = false -> NoDup (map fst dir2) ->
  r_tried (snd (apply has_cfg env tolerate s' cfg2 dir2 f2 g2)) = true.
Proof. intros. eapply retry_next; eauto. Qed.
Print Assumptions C47_retry_next_event.

(* apply reads the config file twice (hashFile, then normalize). With the hash
   read FIRST, an edit that falls between the two reads leaves the old hash
   recorded and the new content written: the next undisturbed pass sees a change
   and reloads the final content. *)
Theorem C47_edit_between_reads : forall env tolerate s old new dir f s1 r1 f2 s2 r2,
  old <> new -> NoDup (map fst dir) ->
  apply2 true env tolerate s (Some old) (Some new) dir f false = (s1, r1) -> r_err r1 = false ->
  apply true env tolerate s1 (Some new) dir f2 false = (s2, r2) -> r_err r2 = false ->
  r_tried r2 = true /\ r_succeeded r2 = true /\ out_cfg s2 = expand env tolerate new.
Proof. exact hash_then_normalize. Qed.
Print Assumptions C47_edit_between_reads.

(* With the normalize read first this is false: the reload loads the old
   content under the new hash and no later pass reloads. *)
Theorem C47_normalize_first_refuted :
  let '(s1, r1) := apply2 true w_env true init (Some w_new) (Some w_old) [] 0 false in
  let '(s2, r2) := apply true w_env true s1 (Some w_new) [] 0 false in
  r_succeeded r1 = true /\ out_cfg s1 = Some w_old
  /\ r_err r2 = false /\ r_tried r2 = false /\ out_cfg s2 = Some w_new.
Proof. exact normalize_then_hash_refuted. Qed.
Print Assumptions C47_normalize_first_refuted.

(* Tie T: the reload decision and the removal guard of apply, and the shape of
   the endless loop of Watch (its only return is guarded by ctx.Err() != nil;
   r.apply is called on every other way through the select), and the order of
   the two reads of the config file (hashFile before normalize), are those of
   the source. *)
Theorem C47_decision_source : decision_ok = true /\ watch_shape_ok = true /\ reads_order_ok = true.
Proof. exact (conj decision_fact (conj watch_shape reads_order)). Qed.
Print Assumptions C47_decision_source.

(* Non-vacuity: first apply of a fresh reloader: the variable is substituted,
   the endpoint fails twice, then succeeds; afterwards the reloader is settled
   and two further events do nothing. *)
Example C47_nonvacuous :
  let env := env_of [([86%N], [104; 105]%N)] in
  let cfg := Some [36; 40; 86; 41; 33]%N in
  let dir := [(fa, [36; 40; 86; 41]%N)] in
  let '(s', r) := apply true env false init cfg dir 2 false in
  r_err r = false /\ out_cfg s' = Some [104; 105; 33]%N /\ out_dir s' = [(fa, [104; 105]%N)]
  /\ r_attempts r = 3%nat
  /\ map r_tried (snd (watch true env false s' [(ETick, (cfg, dir), (0%nat, false)); (ENotify, (cfg, dir), (1%nat, true))]))
     = [false; false].
Proof. vm_compute. repeat split; reflexivity. Qed.
