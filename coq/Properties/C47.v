(* C47 — The config reloader applies the latest configuration.
   One apply call of the reloader on a file-system snapshot (config file [cfg],
   config directory [dir] with distinct file names), for every reloader state
   [s] (hence after every history of edits, additions, removals and reload
   failures), every environment [env], with or without tolerated expansion
   errors, every script of the reload endpoint ([fails] failures then success,
   or the retry window running out [give_up]).
   sha256 is modelled as the identity on (name, content) lists. *)
From Coq Require Import NArith ZArith List Bool String.
Import ListNotations.
From Verif Require Import Lib.Corr Lib.Misc_Cmp Gen.C47 Model.C47 Proofs.C47.

(* When apply returns without error:
   - every output equals its input with the environment substituted;
   - the reload endpoint is called iff a previous reload is still pending
     ([force]) or the content differs from the one recorded at the last
     successful reload;
   - a successful reload (after [fails] retried failures) records the content and
     clears the pending flag; an unsuccessful one leaves the record unchanged and
     the flag set, so the next apply retries;
   - the set of output files is recorded, and if the outputs present stem from
     the last complete pass ([synced]) the output directory afterwards holds
     only files whose inputs exist (outputs of vanished inputs are removed). *)
Theorem C47_apply : forall has_cfg env tolerate s cfg dir fails give_up s' r,
  apply has_cfg env tolerate s cfg dir fails give_up = (s', r) ->
  r_err r = false -> NoDup (map fst dir) ->
  (has_cfg = true -> exists c, cfg = Some c /\ out_cfg s' = expand env tolerate c /\ expand env tolerate c <> None)
  /\ (forall n c, In (n, c) dir -> lookup n (out_dir s') = expand env tolerate c /\ expand env tolerate c <> None)
  /\ r_tried r = (force s || negb (same_as_recorded has_cfg s cfg dir))
  /\ (r_succeeded r = true -> r_tried r = true /\ give_up = false /\ force s' = false
        /\ last_cfg s' = cfg_hash has_cfg cfg /\ last_dir s' = Some dir /\ r_attempts r = S fails)
  /\ (r_succeeded r = false -> last_cfg s' = last_cfg s /\ last_dir s' = last_dir s
        /\ force s' = (force s || r_tried r))
  /\ (r_tried r = true -> r_succeeded r = negb give_up)
  /\ last_names s' = Some (map fst dir)
  /\ (synced s -> forall f, In f (out_dir s') -> In (fst f) (map fst dir)).
Proof. exact apply_spec. Qed.
Print Assumptions C47_apply.

(* The removal clause needs [synced]: a pass that fails half-way (unset
   variable, not tolerated) has written outputs it does not record; if such an
   input disappears, its output stays. Witness replayed on the implementation:
   corpus/C47/01 (known finding). *)
Theorem C47_removal_after_error_pass_refuted :
  let s1 := fst (apply false w_env false init None [(fa, [120%N])] 0 false) in
  let s2 := fst (apply false w_env false s1 None [(fa, [120%N]); (fb, [121%N]); (fc, bad)] 0 false) in
  let '(s3, r3) := apply false w_env false s2 None [(fa, [120%N])] 0 false in
  r_err r3 = false /\ out_dir s3 = [(fa, [120%N]); (fb, [121%N])].
Proof. exact error_pass_leaves_stale_output. Qed.
Print Assumptions C47_removal_after_error_pass_refuted.

(* Tie T: the reload decision and the removal guard are those of the source. *)
Theorem C47_decision_source : decision_ok = true.
Proof. exact decision_fact. Qed.
Print Assumptions C47_decision_source.

(* Non-vacuity: first apply of a fresh reloader: the variable is substituted,
   the endpoint fails twice, then succeeds. *)
Example C47_nonvacuous :
  let env := env_of [([86%N], [104; 105]%N)] in
  let '(s', r) := apply true env false init (Some [36; 40; 86; 41; 33]%N) [(fa, [36; 40; 86; 41]%N)] 2 false in
  r_err r = false /\ out_cfg s' = Some [104; 105; 33]%N /\ out_dir s' = [(fa, [104; 105]%N)]
  /\ r_attempts r = 3%nat /\ synced init.
Proof. vm_compute. repeat split; reflexivity. Qed.
