(* C17 — Pooled buffers are released exactly once and pool budgets hold (partial: the
   BucketedPool accounting and the ShardMatcher buffer life cycle; the full proxy
   request — respSet goroutines, both retrieval strategies — is represented only by
   its Close structure: facts from the source that a respSet is closed by the loser
   tree callback AND by the deferred Close, each calling ShardMatcher.Close).
   Property theorems only; each is closed by [exact] of a lemma of Proofs/C17.v.
   Models WITH C17-fix.patch ([true]); [false] = before the fix. *)
From Coq Require Import String.
From Coq Require Import NArith List Bool.
Import ListNotations.
From Verif Require Import Lib.Corr Gen.C17 Model.C17 Proofs.C17.
Open Scope N_scope.

(* BucketedPool: for every bucket layout, every budget and every history of Get(size) /
   Put(outstanding slice, capacity unchanged, each returned at most once): UsedBytes is
   exactly the sum of the capacities handed out and not yet returned; it never exceeds
   maxTotal (when maxTotal > 0); it is 0 once every slice is returned. *)
Theorem C17_pool_budget : forall sizes maxt ops,
  let st := pfinal true sizes maxt pinit ops in
  used st = sum_n (out st) /\ (maxt <> 0 -> used st <= maxt) /\ (out st = [] -> used st = 0).
Proof. exact pool_invariant. Qed.
Print Assumptions C17_pool_budget.

(* the same after every single call, through the predicate the check evaluates on the
   real pool's answers *)
Theorem C17_pool_pred : forall sizes maxt ops,
  pred_ok (CPool sizes maxt ops (prun true sizes maxt pinit ops)) = true.
Proof. exact pool_case_pred. Qed.
Print Assumptions C17_pool_pred.

(* before the fix the limit was tested against the requested size but the bucket capacity
   was charged: maxTotal 10, buckets 8/16, Get(9) => 16 used (corpus/C17/01) *)
Theorem C17_capacity_budget_unfixed_refuted :
  used (pfinal false [8; 16] 10 pinit [PGet 9]) = 16 /\ pget true [8; 16] 10 pinit 9 = None.
Proof. exact pool_unfixed_refuted. Qed.
Print Assumptions C17_capacity_budget_unfixed_refuted.

(* ShardMatcher buffers: for every history of Matcher() / Close() calls on one sync.Pool —
   any number of Close calls per matcher, in any order, sync.Pool.Get returning any pooled
   buffer or a new one — no buffer is in the pool twice and no buffer is both in the pool
   and held by an open matcher: two live requests never share a buffer. *)
Theorem C17_single_put : forall ops st, mrun true minit ops = Some st ->
  NoDup (mpool st ++ somes (held st)).
Proof. exact shard_single_put. Qed.
Print Assumptions C17_single_put.

Theorem C17_shard_pred : forall ops st, mrun true minit ops = Some st ->
  pred_ok (CShard ops (sort_n (mpool st))) = true.
Proof. exact shard_case_pred. Qed.
Print Assumptions C17_shard_pred.

(* a whole request through the proxy: one matcher per store, each closed twice *)
Theorem C17_proxy_pred : forall k sharded st, mrun true minit (proxy_ops k sharded) = Some st ->
  pred_ok (CProxy k sharded (negb (nodup_n (mpool st)))) = true.
Proof. exact proxy_case_pred. Qed.
Print Assumptions C17_proxy_pred.

(* before the fix every Close put the buffer again: closed twice (as ProxyStore.Series does,
   see C17_source_shape) the buffer is in the pool twice and the next two matchers share it
   (corpus/C17/02) *)
Theorem C17_double_put_unfixed_refuted :
  option_map mpool (mrun false minit [MNew true 0; MClose 0; MClose 0]) = Some [0; 0] /\
  option_map (fun st => somes (held st)) (mrun false minit [MNew true 0; MClose 0; MClose 0; MNew true 0; MNew true 0])
    = Some [0; 0; 0] /\
  option_map mpool (mrun true minit [MNew true 0; MClose 0; MClose 0]) = Some [0].
Proof. exact shard_unfixed_refuted. Qed.
Print Assumptions C17_double_put_unfixed_refuted.

(* Tie T: the accounting statements of Get/Put, the two limit tests of the fixed Get, the
   body of ShardMatcher.Close (Put, then s.buffers = nil), and the two Close paths of the
   proxy: the deferred respSet.Close in ProxyStore.Series and the loser tree's close
   callback, both reaching shardMatcher.Close in lazyRespSet.Close / eagerRespSet.Close. *)
Theorem C17_source_shape :
  poolUsedTotalUpdates = ["p.usedTotal += uint64(cap(*b))"; "p.usedTotal += uint64(sz)"; "p.usedTotal = 0";
                          "p.usedTotal -= uint64(sz)"]%string /\
  In ("if", "p.maxTotal > 0 && p.usedTotal+uint64(bktSize) > p.maxTotal")%string poolGetEvents /\
  In ("if", "p.maxTotal > 0 && p.usedTotal+uint64(sz) > p.maxTotal")%string poolGetEvents /\
  shardMatcherCloseEvents = [("if", "s == nil"); ("return", ""); ("endif", ""); ("if", "s.buffers != nil");
                             ("call", "s.buffers.Put"); ("endif", "")]%string /\
  shardMatcherCloseAssigns = ["s.buffers = nil"]%string /\
  In "respSet.Close"%string proxySeriesDefers /\ In "s.Close"%string loserTreeCloseCalls /\
  In "l.shardMatcher.Close"%string lazyRespSetCloseCalls /\ In "l.shardMatcher.Close"%string eagerRespSetCloseCalls.
Proof. exact source_shape. Qed.
Print Assumptions C17_source_shape.

(* Non-vacuity *)
Example C17_nonvacuous :
  prun true [10; 20; 40; 80] 100 pinit [PGet 40; PGet 19; PGet 50; PPut 0; PGet 50; PPut 0; PPut 0]
    = [(true, 40, 40); (true, 20, 60); (false, 0, 60); (true, 0, 20); (true, 80, 100); (true, 0, 80); (true, 0, 0)] /\
  option_map mpool (mrun true minit [MNew true 0; MNew true 1; MClose 1; MClose 1; MNew true 1; MClose 0]) = Some [0] /\
  option_map mpool (mrun true minit (proxy_ops 3 true)) = Some [2; 1; 0] /\
  option_map mpool (mrun false minit (proxy_ops 2 true)) = Some [1; 1; 0; 0].
Proof. repeat split; vm_compute; reflexivity. Qed.
