From Verif Require Import Model.C17.
