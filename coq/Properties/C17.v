(* C17 — Pooled buffers are released exactly once and pool budgets hold: the BucketedPool
   accounting, the ShardMatcher buffer life cycle, and requests as interleavings of
   "response set created / dropped unopened / closed from one of the call sites" events, the
   call sites taken from the source (loser tree exhaustion and Close, the proxy's deferred
   Close, the store gateway's error path; both retrieval strategies end in ShardMatcher.Close).
   Property theorems only; each is closed by [exact] of a lemma of Proofs/C17.v.
   Models WITH C17-fix.patch ([true]); [false] = before the fix. *)
From Coq Require Import String.
From Coq Require Import NArith List Bool.
Import ListNotations.
From Verif Require Import Lib.Corr Gen.C17 Model.C17 Proofs.C17.
Open Scope N_scope.

(* BucketedPool: for every bucket layout, every budget and every history of Get(size) /
   Put(outstanding slice, capacity unchanged, each returned at most once): UsedBytes is
   exactly the sum of the capacities handed out and not yet returned; it never exceeds
   maxTotal (when maxTotal > 0); it is 0 once every slice is returned. *)
Theorem C17_pool_budget : forall sizes maxt ops,
  let st := pfinal true sizes maxt pinit ops in
  used st = sum_n (out st) /\ (maxt <> 0 -> used st <= maxt) /\ (out st = [] -> used st = 0).
Proof. exact pool_invariant. Qed.
Print Assumptions C17_pool_budget.

(* the same after every single call, through the predicate the check evaluates on the
   real pool's answers *)
Theorem C17_pool_pred : forall sizes maxt ops,
  pred_ok (CPool sizes maxt ops (prun true sizes maxt pinit ops)) = true.
Proof. exact pool_case_pred. Qed.
Print Assumptions C17_pool_pred.

(* before the fix the limit was tested against the requested size but the bucket capacity
   was charged: maxTotal 10, buckets 8/16, Get(9) => 16 used (corpus/C17/01) *)
Theorem C17_capacity_budget_unfixed_refuted :
  used (pfinal false [8; 16] 10 pinit [PGet 9]) = 16 /\ pget true [8; 16] 10 pinit 9 = None.
Proof. exact pool_unfixed_refuted. Qed.
Print Assumptions C17_capacity_budget_unfixed_refuted.

(* ShardMatcher buffers: for every history of Matcher() / Close() calls on one sync.Pool —
   any number of Close calls per matcher, in any order, sync.Pool.Get returning any pooled
   buffer or a new one — no buffer is in the pool twice and no buffer is both in the pool
   and held by an open matcher: two live requests never share a buffer. *)
Theorem C17_single_put : forall ops st, mrun true minit ops = Some st ->
  NoDup (mpool st ++ somes (held st)).
Proof. exact shard_single_put. Qed.
Print Assumptions C17_single_put.

Theorem C17_shard_pred : forall ops st, mrun true minit ops = Some st ->
  pred_ok (CShard ops (sort_n (mpool st))) = true.
Proof. exact shard_case_pred. Qed.
Print Assumptions C17_shard_pred.

(* Requests. For ANY number of concurrent requests on one store and any interleaving of their
   events — a response set is created (its matcher takes a buffer), or created and dropped
   because the store refused the stream, or closed from any of the call sites (loser tree on
   exhaustion, loser tree Close, the proxy's deferred Close, the gateway's error path), each any
   number of times — every reachable state has each buffer at most once in the pool and no
   pooled buffer is still held by an open response set. *)
Theorem C17_requests_single_put : forall es st, pxrun true pxinit es = Some st ->
  NoDup (mpool (px_m st) ++ somes (held (px_m st))).
Proof. exact px_single_put. Qed.
Print Assumptions C17_requests_single_put.

Theorem C17_proxy_pred : forall reqs k nfail sharded st,
  pxrun true pxinit (px_requests reqs k nfail sharded 0 0) = Some st ->
  pred_ok (CProxy reqs k nfail sharded (negb (nodup_n (mpool (px_m st))))) = true.
Proof. exact proxy_case_pred. Qed.
Print Assumptions C17_proxy_pred.

(* before the fix, at the level of requests: exhausted in the loser tree, then the deferred Close *)
Theorem C17_requests_unfixed_refuted :
  option_map (fun st => mpool (px_m st))
    (pxrun false pxinit [EvOpen 0 true 0; EvClose 0 0 CSExhausted; EvClose 0 0 CSDeferred]) = Some [0; 0] /\
  option_map (fun st => mpool (px_m st))
    (pxrun true pxinit [EvOpen 0 true 0; EvOpenFail 0 true 1; EvOpen 1 true 2; EvClose 0 0 CSExhausted; EvClose 1 0 CSErrorPath;
                        EvClose 0 0 CSDeferred; EvClose 1 0 CSTreeClose; EvClose 1 0 CSDeferred]) = Some [2; 0].
Proof. exact px_unfixed_refuted. Qed.
Print Assumptions C17_requests_unfixed_refuted.

(* Tie T for the request model: the close call sites of the loser tree, of ProxyStore.Series and
   of BucketStore.Series, no Close in newAsyncRespSet (a refused stream drops the matcher), and
   both retrieval strategies ending in shardMatcher.Close. *)
Theorem C17_close_sites_in_source :
  loserTreeCloseSites = ["Close: t.close(e.items)"; "moveNext: t.close(n.items)"]%string /\
  proxySeriesCloseCalls = ["defer respSet.Close"]%string /\
  bucketSeriesCloseCalls = ["defer blockClient.Close"; "call resp.Close"; "defer lt.Close"]%string /\
  newAsyncRespSetCloseCalls = []%string /\
  newAsyncRespSetOpenEvents =
    [("call", "storeInfo"); ("call", "grpc_opentracing.ClientAddContextTags"); ("call", "context.WithCancel");
     ("call", "shardInfo.Matcher"); ("call", "st.SupportsSharding"); ("if", "applySharding"); ("call", "st.String");
     ("call", "level.Debug"); ("call", "level.Debug().Log"); ("endif", ""); ("call", "st.Series"); ("if", "err != nil");
     ("call", "errors.Wrapf"); ("call", "cancel"); ("return", "nil, err"); ("endif", "")]%string /\
  In "s.Close"%string loserTreeCloseCalls /\
  In "l.shardMatcher.Close"%string lazyRespSetCloseCalls /\ In "l.shardMatcher.Close"%string eagerRespSetCloseCalls.
Proof. exact close_sites_in_source. Qed.
Print Assumptions C17_close_sites_in_source.

(* before the fix every Close put the buffer again: closed twice (as ProxyStore.Series does,
   see C17_source_shape) the buffer is in the pool twice and the next two matchers share it
   (corpus/C17/02) *)
Theorem C17_double_put_unfixed_refuted :
  option_map mpool (mrun false minit [MNew true 0; MClose 0; MClose 0]) = Some [0; 0] /\
  option_map (fun st => somes (held st)) (mrun false minit [MNew true 0; MClose 0; MClose 0; MNew true 0; MNew true 0])
    = Some [0; 0; 0] /\
  option_map mpool (mrun true minit [MNew true 0; MClose 0; MClose 0]) = Some [0].
Proof. exact shard_unfixed_refuted. Qed.
Print Assumptions C17_double_put_unfixed_refuted.

(* Tie T: the accounting statements of Get/Put, the two limit tests of the fixed Get, the
   body of ShardMatcher.Close (Put, then s.buffers = nil), and the two Close paths of the
   proxy: the deferred respSet.Close in ProxyStore.Series and the loser tree's close
   callback, both reaching shardMatcher.Close in lazyRespSet.Close / eagerRespSet.Close. *)
Theorem C17_source_shape :
  poolUsedTotalUpdates = ["p.usedTotal += uint64(cap(*b))"; "p.usedTotal += uint64(sz)"; "p.usedTotal = 0";
                          "p.usedTotal -= uint64(sz)"]%string /\
  In ("if", "p.maxTotal > 0 && p.usedTotal+uint64(bktSize) > p.maxTotal")%string poolGetEvents /\
  In ("if", "p.maxTotal > 0 && p.usedTotal+uint64(sz) > p.maxTotal")%string poolGetEvents /\
  shardMatcherCloseEvents = [("if", "s == nil"); ("return", ""); ("endif", ""); ("if", "s.buffers != nil");
                             ("call", "s.buffers.Put"); ("endif", "")]%string /\
  shardMatcherCloseAssigns = ["s.buffers = nil"]%string /\
  In "respSet.Close"%string proxySeriesDefers /\ In "s.Close"%string loserTreeCloseCalls /\
  In "l.shardMatcher.Close"%string lazyRespSetCloseCalls /\ In "l.shardMatcher.Close"%string eagerRespSetCloseCalls.
Proof. exact source_shape. Qed.
Print Assumptions C17_source_shape.

(* Concurrent Get/Put on one pool. Get holds the pool's mutex from the budget test to the
   accounting and Put holds it for the subtraction (C17_get_critical_section), so a concurrent
   execution is an interleaving of atomic steps. For every set of threads and EVERY schedule:
   UsedBytes equals the capacities checked out by all threads together and never exceeds maxTotal. *)
Theorem C17_concurrent_budget : forall sizes maxt threads sched,
  let st := tfinal true sizes maxt (tinit threads) sched in
  t_used st = total_out (t_outs st) /\ (maxt <> 0 -> t_used st <= maxt).
Proof. exact concurrent_budget. Qed.
Print Assumptions C17_concurrent_budget.

Theorem C17_sched_pred : forall sizes maxt threads sched,
  pred_ok (CSched sizes maxt threads sched (trun true sizes maxt (tinit threads) sched)) = true.
Proof. exact sched_case_pred. Qed.
Print Assumptions C17_sched_pred.

(* a Get whose budget test and accounting are not one atomic step breaks the budget *)
Theorem C17_split_get_refuted :
  pget true [10; 20; 40; 80] 100 (mkP 0 []) 80 <> None /\
  pget true [10; 20; 40; 80] 100 (mkP 0 []) 80 <> None /\
  0 + charge [10; 20; 40; 80] 80 + charge [10; 20; 40; 80] 80 = 160 /\ 100 < 160 /\
  pget true [10; 20; 40; 80] 100 (mkP 80 [80]) 80 = None.
Proof. exact split_get_refuted. Qed.
Print Assumptions C17_split_get_refuted.

(* Tie T: the critical section of Get (Lock first, Unlock deferred, tests and accounting inline,
   no other lock operation) and of Put's subtraction *)
Theorem C17_get_critical_section :
  poolGetEvents =
    [("call", "p.mtx.Lock"); ("defer", "p.mtx.Unlock"); ("for", "range"); ("if", "sz > bktSize"); ("endif", "");
     ("call", "uint64"); ("if", "p.maxTotal > 0 && p.usedTotal+uint64(bktSize) > p.maxTotal");
     ("return", "nil, ErrPoolExhausted"); ("endif", ""); ("call", "p.buckets.Get"); ("if", "!ok"); ("call", "p.new");
     ("endif", ""); ("call", "cap"); ("call", "uint64"); ("return", "b, nil"); ("endfor", ""); ("call", "uint64");
     ("if", "p.maxTotal > 0 && p.usedTotal+uint64(sz) > p.maxTotal"); ("return", "nil, ErrPoolExhausted"); ("endif", "");
     ("call", "uint64"); ("call", "p.new"); ("return", "p.new(sz), nil")]%string /\
  (exists pre, poolPutEvents = pre ++ [("call", "p.mtx.Lock"); ("defer", "p.mtx.Unlock"); ("call", "uint64");
     ("if", "uint64(sz) >= p.usedTotal"); ("else", ""); ("call", "uint64"); ("endif", "")]%string).
Proof. exact get_critical_section. Qed.
Print Assumptions C17_get_critical_section.

(* When a response set gives its buffer back. Close runs in the request's goroutine while the
   response set's receive goroutine may still be handling messages (MatchesZLabels writes into the
   buffer). With Close as written — cancel the stream, WAIT for the receive goroutine, then
   shardMatcher.Close() (Put), then CloseSend (C17_close_stmts_in_source) — for EVERY interleaving
   and any number of messages still handled by the receiver, nothing writes into the buffer after
   it went back to the pool, i.e. after another request may own it. *)
Theorem C17_put_after_receiver : forall fuel sched writes,
  write_after_put false (trun_close fuel sched 0 close_fixed writes false) = false.
Proof. exact put_after_receiver. Qed.
Print Assumptions C17_put_after_receiver.

(* with the Put before the wait there is an interleaving that writes into a pooled buffer *)
Theorem C17_early_put_refuted :
  trun_close 10 (fun s => Nat.ltb s 2) 0 close_early_put 1 false
    = [TAct CCancel; TAct CPut; TWrite; TStop; TAct CCloseSend; TAct CWait] /\
  write_after_put false (trun_close 10 (fun s => Nat.ltb s 2) 0 close_early_put 1 false) = true.
Proof. exact early_put_refuted. Qed.
Print Assumptions C17_early_put_refuted.

Theorem C17_close_stmts_in_source :
  lazyCloseStmts = ["l.bufferedResponsesMtx.Lock()"; "l.closeSeries()"; "l.rb.close()"; "l.noMoreData = true";
                    "l.dataOrFinishEvent.Signal()"; "l.bufferedResponsesMtx.Unlock()"; "<-l.donec";
                    "l.shardMatcher.Close()"; "_ = l.cl.CloseSend()"]%string /\
  eagerCloseStmts = ["if l.closeSeries != nil { l.closeSeries() }"; "l.wg.Wait()"; "l.shardMatcher.Close()";
                     "_ = l.cl.CloseSend()"]%string.
Proof. exact close_stmts_in_source. Qed.
Print Assumptions C17_close_stmts_in_source.

(* Non-vacuity *)
Example C17_concurrent_nonvacuous :
  trun true [10; 20; 40; 80] 100 (tinit [[TGet 80; TPut 0%nat]; [TGet 80; TGet 20]]) [0; 1; 1; 0; 1]%nat
    = [(true, 80, 80); (false, 0, 80); (true, 20, 100); (true, 0, 20); (true, 0, 20)].
Proof. exact concurrent_nonvacuous. Qed.

Example C17_nonvacuous :
  prun true [10; 20; 40; 80] 100 pinit [PGet 40; PGet 19; PGet 50; PPut 0; PGet 50; PPut 0; PPut 0]
    = [(true, 40, 40); (true, 20, 60); (false, 0, 60); (true, 0, 20); (true, 80, 100); (true, 0, 80); (true, 0, 0)] /\
  option_map mpool (mrun true minit [MNew true 0; MNew true 1; MClose 1; MClose 1; MNew true 1; MClose 0]) = Some [0] /\
  option_map (fun st => mpool (px_m st)) (pxrun true pxinit (px_requests 2 3 1 true 0 0)) = Some [5; 4; 2; 1] /\
  option_map (fun st => mpool (px_m st)) (pxrun false pxinit (px_requests 1 2 0 true 0 0)) = Some [1; 1; 0; 0].
Proof. repeat split; vm_compute; reflexivity. Qed.
