(* C30 — Compaction planning is safe and converges.
   Property theorems only; each is closed by [exact] of a lemma of Proofs/C30.v.
   [plan] models tsdbBasedPlanner.plan of pkg/compact/planner.go; the window
   start and the two window tests inside it come from Gen/C30.v, regenerated
   from the Go source on every run. *)
From Coq Require Import ZArith List Bool Lia.
Import ListNotations.
From Verif Require Import Lib.Corr Lib.Compact_List Gen.C30 Model.C30 Proofs.C30 Proofs.C30_regime Proofs.C30_iter.
Open Scope Z_scope.

(* The planner never panics on a non-empty group when at least one range is
   configured (on an empty group the Go code indexes metasByMinTime[len-1]:
   the model returns None there and the callers never plan an empty group). *)
Theorem C30_plan_total : forall ranges marks l,
  l <> [] -> ranges <> [] -> exists p, plan ranges marks l = Some p.
Proof. exact plan_total. Qed.
Print Assumptions C30_plan_total.

(* Clause "at least two, or a single block with many tombstones": for every
   group, mark set and range list. *)
Theorem C30_size : forall ranges marks l p, plan ranges marks l = Some p ->
  p = [] \/ (2 <= length p)%nat \/
  exists m t, p = [m] /\ heavy m = true /\ mid_range ranges = Some t /\ t <= maxt m - mint m.
Proof. exact plan_size. Qed.
Print Assumptions C30_size.

(* Clause "never includes blocks marked no-compact". *)
Theorem C30_no_nocompact : forall ranges marks l p, plan ranges marks l = Some p ->
  Forall (fun m => marked marks m = false) p.
Proof. exact plan_no_nocompact. Qed.
Print Assumptions C30_no_nocompact.

(* Clause "names blocks of one group": the plan is a subsequence of the list handed in. *)
Theorem C30_one_group : forall ranges marks l p, plan ranges marks l = Some p -> sublist p l.
Proof. exact plan_sublist. Qed.
Print Assumptions C30_one_group.

(* Clause "for non-overlapping blocks never includes the newest block": when no
   not-excluded block starts before the end of an earlier one, the plan is a
   subsequence of the group without its last (= newest, max MinTime) block; with
   distinct ULIDs the newest block's id is not planned. *)
Theorem C30_newest_excluded : forall ranges marks l p,
  plan ranges marks l = Some p -> disjoint_sorted (filter (unmarked marks) l) ->
  sublist p (removelast l) /\ (NoDup (map bid l) -> ~ In (bid (last l dummy)) (map bid p)).
Proof. exact plan_newest_excluded. Qed.
Print Assumptions C30_newest_excluded.

(* Clause "always fits into one configured time range": a plan of two or more
   non-overlapping blocks (sorted by MinTime, positive ranges) lies inside one
   aligned window [iv*k, iv*k+iv] of a configured range iv of ranges[1:].
   Negative timestamps included (Go's truncating division, see t0_spec). *)
Theorem C30_fits_range : forall ranges marks l p,
  plan ranges marks l = Some p -> disjoint_sorted (filter (unmarked marks) l) ->
  positive_ranges ranges -> sorted_mint l -> (2 <= length p)%nat ->
  exists iv k, In iv (tl ranges) /\ in_window (iv * k) iv p.
Proof. exact plan_disjoint_window. Qed.
Print Assumptions C30_fits_range.

(* selectOverlappingMetas finds nothing exactly when the blocks are pairwise
   non-overlapping in list order. *)
Theorem C30_overlap_detection : forall l, select_overlapping l = [] <-> disjoint_sorted l.
Proof. exact select_overlapping_nil. Qed.
Print Assumptions C30_overlap_detection.

(* Convergence: plan / apply (planned blocks replaced by one block spanning them)
   reaches a state where the planner has nothing to do after at most
   2*|blocks| + #tombstone-heavy steps, for every group (aligned or not,
   overlapping or not), and in that state no two not-excluded blocks overlap. *)
Theorem C30_converges : forall ranges marks l newid,
  ranges <> [] -> l <> [] -> wf l ->
  exists h fin, iterate (S (measure l)) ranges marks l newid = Some (h, fin) /\
    plan ranges marks fin = Some [] /\ (length h <= measure l)%nat /\
    disjoint_sorted (filter (unmarked marks) fin).
Proof. exact converges. Qed.
Print Assumptions C30_converges.

(* The same clauses through the boolean predicate that the check evaluates on
   the real planner's output: the model's plan satisfies pred_ok, so
   "corr_ok on a case" transfers the clauses to the implementation's plan. *)
Theorem C30_plan_pred : forall ranges marks l,
  l <> [] -> ranges <> [] -> positive_ranges ranges -> sorted_mint l -> NoDup (map bid l) ->
  exists p, plan ranges marks l = Some p /\
    corr_ok (CPlan ranges marks l (Some (map bid p))) = true /\
    pred_ok (CPlan ranges marks l (Some (map bid p))) = true.
Proof. exact plan_pred_ok. Qed.
Print Assumptions C30_plan_pred.

(* largeTotalIndexSizeFilter.plan (plan, and while the planned blocks' summed
   index size reaches the limit mark the biggest one no-compact and plan again)
   terminates for every group and limit: each round marks a block that was
   unmarked, so |group| + 1 rounds suffice. *)
Theorem C30_index_filter_terminates : forall ranges marks lim l,
  exists res ms, idx_plan (S (length l)) ranges marks lim l = Some (res, ms).
Proof. exact index_filter_terminates. Qed.
Print Assumptions C30_index_filter_terminates.

(* Non-vacuity: aligned blocks 0-20,20-40,40-60,60-80 with ranges 20/60: the
   first three are planned (window [0,60]), the newest is left out; a second
   instance with negative times and a no-compact mark. *)
Example C30_nonvacuous :
  let b i a z := mk_meta i a z false 0 10 1 in
  let l := [b 1 0 20; b 2 20 40; b 3 40 60; b 4 60 80] in
  option_map (map bid) (plan [20; 60] [] l) = Some [1; 2; 3]
  /\ disjoint_sorted (filter (unmarked []) l) /\ sorted_mint l /\ positive_ranges [20; 60]
  /\ option_map (map bid) (plan [20; 60] [2] [b 1 (-60) (-40); b 2 (-40) (-20); b 3 (-20) 0; b 4 0 20; b 5 20 40]) = Some []
  /\ option_map (map bid) (plan [20; 60] [9] [b 1 (-60) (-40); b 2 (-40) (-20); b 3 (-20) 0; b 4 0 20]) = Some [1; 2; 3].
Proof.
  cbv zeta. split; [vm_compute; reflexivity|]. split.
  { simpl. repeat split; repeat constructor; simpl; lia. }
  split. { simpl. repeat split; repeat constructor; simpl; lia. }
  split. { repeat constructor. }
  split; vm_compute; reflexivity.
Qed.

(* Non-vacuity of convergence: three replicated overlapping streams collapse in two steps. *)
Example C30_converges_nonvacuous :
  let b i a z := mk_meta i a z false 0 10 1 in
  let l := [b 1 0 20; b 2 0 20; b 3 20 40; b 4 25 40; b 5 40 60] in
  option_map fst (iterate (S (measure l)) [20; 60] [] l 100) = Some [[1; 2]; [3; 4]].
Proof. vm_compute. reflexivity. Qed.

(* ---- "Repeatedly planning and applying plans ends ... with non-overlapping blocks
   no longer than the largest range" -------------------------------------------------

   History invariant 1 (any positive ranges): if the group is sorted by MinTime,
   blocks have positive length, the not-excluded blocks do not overlap and every
   block lies inside one aligned window of SOME configured range ("aligned"),
   then one plan/apply step keeps all of that ... *)
Theorem C30_regime_step : forall ranges marks l p newid,
  positive_ranges ranges -> Reg ranges marks l -> plan ranges marks l = Some p -> p <> [] ->
  Reg ranges marks (apply_plan l p newid).
Proof. exact reg_step. Qed.
Print Assumptions C30_regime_step.

(* ... hence plan/apply to the fixpoint ends, within the measure, in a state that is
   again in the regime: non-overlapping, aligned, and every block no longer than
   the largest range. *)
Theorem C30_aligned_history : forall ranges marks l newid,
  ranges <> [] -> positive_ranges ranges -> l <> [] -> wf l -> Reg ranges marks l ->
  exists h fin, iterate (S (measure l)) ranges marks l newid = Some (h, fin) /\
    plan ranges marks fin = Some [] /\ (length h <= measure l)%nat /\
    Reg ranges marks fin /\
    disjoint_sorted (filter (unmarked marks) fin) /\
    Forall (fun m => maxt m - mint m <= maxr ranges) fin.
Proof. exact regime_history. Qed.
Print Assumptions C30_aligned_history.

(* History invariant 2 (every configured range divides the largest one, as with
   Thanos' 2h/8h/2d/14d): for ALL groups — overlapping or not, excluded blocks or
   not — whose blocks each lie inside one window of the largest range, plan/apply
   to the fixpoint keeps every block inside one window of the largest range; at
   the fixpoint the not-excluded blocks do not overlap and no block is longer
   than the largest range.  (Vertical merges of aligned blocks stay inside the
   window: overlapping blocks of positive length share their window.) *)
Theorem C30_window_history : forall ranges marks l newid,
  ranges <> [] -> positive_ranges ranges -> Forall (fun iv => (iv | maxr ranges)) ranges ->
  l <> [] -> wf l -> Win ranges l ->
  exists h fin, iterate (S (measure l)) ranges marks l newid = Some (h, fin) /\
    plan ranges marks fin = Some [] /\ (length h <= measure l)%nat /\
    disjoint_sorted (filter (unmarked marks) fin) /\
    Forall (in_some_win (maxr ranges)) fin /\
    Forall (fun m => maxt m - mint m <= maxr ranges) fin.
Proof. exact window_history. Qed.
Print Assumptions C30_window_history.

(* When the largest range IS exceeded: only outside those regimes.  For every
   largest range R > 1 the misaligned overlapping chain [0,R), [R-1,2R-1) — each
   block exactly R long, sorted, positive — is planned as a whole (vertical
   merge) and replaced by a block 2R-1 > R long; the input is not in the regime. *)
Theorem C30_overlap_can_exceed : forall R, 1 < R ->
  plan [R] [] (chain R) = Some (chain R)
  /\ Forall (fun m => maxt m - mint m <= maxr [R]) (chain R)
  /\ sorted_mint (chain R) /\ Forall pos (chain R)
  /\ maxt (hull (chain R) 3) - mint (hull (chain R) 3) = 2 * R - 1
  /\ maxr [R] < maxt (hull (chain R) 3) - mint (hull (chain R) 3)
  /\ ~ Reg [R] [] (chain R).
Proof. exact overlap_can_exceed. Qed.
Print Assumptions C30_overlap_can_exceed.

(* Whole histories through the boolean predicate of the check (case CIter): the
   model's history satisfies it, including the window clause when the input is in
   the window regime; "corr_ok on the case" transfers this to the real planner's history. *)
Theorem C30_iter_pred : forall ranges marks l newid,
  ranges <> [] -> positive_ranges ranges -> l <> [] -> wf l -> sorted_mint l -> fresh_ok l newid ->
  exists h fin, iterate (S (measure l)) ranges marks l newid = Some (h, fin) /\
    corr_ok (CIter ranges marks l newid h) = true /\ pred_ok (CIter ranges marks l newid h) = true.
Proof. exact iter_pred_ok. Qed.
Print Assumptions C30_iter_pred.

(* Non-vacuity of the regimes: replicated aligned 2h-style blocks with ranges 20/60/180. *)
Example C30_regimes_nonvacuous :
  let b i a z := mk_meta i a z false 0 10 1 in
  let l := [b 1 0 20; b 2 0 20; b 3 20 40; b 4 40 60; b 5 60 80; b 6 60 120; b 7 180 200] in
  win_regime [20; 60; 180] l = true
  /\ option_map fst (iterate (S (measure l)) [20; 60; 180] [] l 100) = Some [[1; 2]; [5; 6]; [100; 3; 4]]
  /\ Reg [20; 60; 180] [] [b 1 0 20; b 3 20 40; b 4 40 60; b 7 180 200].
Proof.
  cbv zeta. split; [vm_compute; reflexivity|]. split; [vm_compute; reflexivity|].
  unfold Reg, sorted_mint, sdisj, srel, pos, aligned. simpl. repeat split; repeat constructor; simpl; try lia.
  - exists 20, 0. simpl. intuition lia.
  - exists 20, 1. simpl. intuition lia.
  - exists 20, 2. simpl. intuition lia.
  - exists 20, 9. simpl. intuition lia.
Qed.
