(* C03 — StoreAPI fan-out merge returns each series once, sorted, with all chunks.
   Property theorems only; proofs are in Lib/Proxy_Proofs.v (generic model) and
   Proofs/C03.v (this instance). The model (Lib/Proxy_Model.v via Model/C03.v) is
   ProxyStore.Series: lazy / eager response sets incl. sortWithoutLabels, the array
   loser tree of pkg/losertree, responseDeduplicator (with the C03 fix: chunks keyed
   by all their field checksums), the limit loop and batchableServer. *)
From Coq Require Import ZArith NArith List Bool Permutation Sorted.
Import ListNotations.
From Verif Require Import Lib.Corr Lib.Proxy_Order Lib.Proxy_Model Lib.Proxy_Proofs Lib.Proxy_LoserTree Gen.C03 Model.C03 Proofs.C03_Inst Proofs.C03 Proofs.C03_Ring.
Open Scope Z_scope.

(* For every number of stores, all series sets, frame / batch splits, duplicate
   placements, warnings anywhere in the streams, both retrieval strategies (buffer sizes
   do not occur in the model), all batch sizes and replica-label removal: if no store
   fails, no limit is set and every store that is not re-sorted by the proxy sends
   label-sorted series, then ProxyStore.Series succeeds and what the client receives
   (after splitting batches) is strictly sorted by labels (each label set once), every
   series carries its chunks ordered by time, without duplicates, and the chunk keys
   are exactly those that some store returned for that label set; the label sets are
   exactly those the stores returned; all warnings are passed on. *)
Theorem C03_once_sorted_all_chunks : forall lazy wrl limit batch scripts,
  limit <= 0 ->
  (forall s, In s scripts -> sopen_err s = None /\ send s = EEof) ->
  inputs_sorted lazy wrl scripts ->
  exists frames,
    proxy lazy wrl false limit batch scripts = Some frames
    /\ let outs := sers (unbatch frames) in
       let ins := concat (map (presented (wrlb wrl) (rm_labels wrl)) scripts) in
       StronglySorted (llt lbl_cmp) (map fst outs)
       /\ (forall X cs, In (X, cs) outs ->
             Sorted time_ord cs /\ NoDup (map ckey cs)
             /\ forall k, In k (map ckey cs) <-> exists cs', In (X, cs') ins /\ In k (map ckey cs'))
       /\ (forall X, In X (map fst outs) <-> In X (map fst ins))
       /\ Permutation (warns (unbatch frames)) (concat (map (fun s => warns (flatten_frames (sframes s))) scripts)).
Proof. exact proxy_spec. Qed.
Print Assumptions C03_once_sorted_all_chunks.

(* "The result is the same for lazy and eager retrieval, any buffer size and any response
   batch size": two runs over the same stores that differ in retrieval strategy and batch size
   return the same label sets in the same order, each with the same set of chunk keys. *)
Theorem C03_strategy_independent : forall lazy1 lazy2 batch1 batch2 wrl limit scripts,
  limit <= 0 ->
  (forall s, In s scripts -> sopen_err s = None /\ send s = EEof) ->
  inputs_sorted lazy1 wrl scripts -> inputs_sorted lazy2 wrl scripts ->
  exists f1 f2,
    proxy lazy1 wrl false limit batch1 scripts = Some f1 /\ proxy lazy2 wrl false limit batch2 scripts = Some f2
    /\ map fst (sers (unbatch f1)) = map fst (sers (unbatch f2))
    /\ (forall X cs1 cs2, In (X, cs1) (sers (unbatch f1)) -> In (X, cs2) (sers (unbatch f2)) ->
          forall k, In k (map ckey cs1) <-> In k (map ckey cs2)).
Proof. exact strategy_independent. Qed.
Print Assumptions C03_strategy_independent.

(* The array loser tree of pkg/losertree (New, moveNext, playGame, replayGames, Next):
   for ANY input streams its output is a permutation of the inputs, produced by always
   advancing a stream with a minimal head; on label-sorted streams it is label-sorted. *)
Theorem C03_losertree_merge : forall ss : list (list resp),
  Permutation (lt_merge lbl_cmp wlen ss) (concat ss)
  /\ (streams_sorted lbl_cmp ss -> StronglySorted (lle lbl_cmp) (map fst (sers (lt_merge lbl_cmp wlen ss)))).
Proof. exact losertree_merge. Qed.
Print Assumptions C03_losertree_merge.

Theorem C03_losertree_min_run : forall ss : list (list resp), min_run lbl_cmp wlen ss (lt_merge lbl_cmp wlen ss).
Proof. exact losertree_min_run. Qed.
Print Assumptions C03_losertree_min_run.

(* Any merge that always advances a stream with a minimal head (as a loser tree, a
   heap or a linear scan does) turns label-sorted streams — warnings may sit anywhere
   in them — into a label-sorted stream that is a permutation of the inputs. *)
Theorem C03_min_merge_sorted : forall (ss : list (list resp)) (out : list resp),
  min_run lbl_cmp wlen ss out -> streams_sorted lbl_cmp ss ->
  StronglySorted (lle lbl_cmp) (map fst (sers out)) /\ Permutation out (concat ss).
Proof. exact min_merge_sorted. Qed.
Print Assumptions C03_min_merge_sorted.

(* responseDeduplicator on any label-sorted stream (duplicate label sets in any frame
   split): output strictly sorted, the label sets are preserved, each output series
   carries the time-sorted, key-deduplicated concatenation of ALL chunks of that label
   set; warnings untouched. *)
Theorem C03_dedup_refines_spec : forall l : list resp,
  StronglySorted (lle lbl_cmp) (map fst (sers l)) ->
  let outs := sers (dedup lbl_cmp ckey keqb cleb None l) in
  StronglySorted (llt lbl_cmp) (map fst outs)
  /\ (forall X cs, In (X, cs) outs -> cs = chained ckey keqb cleb (chunks_of lbl_cmp X (sers l)))
  /\ (forall X, In X (map fst outs) <-> In X (map fst (sers l)))
  /\ warns (dedup lbl_cmp ckey keqb cleb None l) = warns l.
Proof. exact dedup_ok. Qed.
Print Assumptions C03_dedup_refines_spec.

(* chainSeriesAndRemIdenticalChunks: sorted by time, each key once, same key set, nothing invented *)
Theorem C03_chain_chunks : forall cs,
  Sorted time_ord (chained ckey keqb cleb cs) /\ NoDup (map ckey (chained ckey keqb cleb cs))
  /\ (forall k, In k (map ckey (chained ckey keqb cleb cs)) <-> In k (map ckey cs))
  /\ incl (chained ckey keqb cleb cs) cs.
Proof. exact (chained_spec ckey keqb keqb_spec cleb time_ord cleb_true cleb_false). Qed.
Print Assumptions C03_chain_chunks.

(* batchableServer: for every batch size, un-batching what was sent gives back the responses *)
Theorem C03_batch_transparent : forall (n : nat) (l : list resp), unbatch (send_all n true l) = l.
Proof. exact batch_transparent. Qed.
Print Assumptions C03_batch_transparent.

(* Lazy retrieval, schedules: the ring buffer of any size (fixedBufferSize = requested size + 1
   >= 2) between the receiver goroutine and the merge. For EVERY interleaving of append and pop
   steps the merge has received a prefix of what the store sent, in order, nothing lost or
   duplicated (received ++ buffered ++ not-yet-appended = the store's stream); while data
   remains some step is enabled (no deadlock); every step decreases a measure, so all runs end
   with the whole stream received. This is why the model may treat a lazy stream as the
   sequence of the store's frames. *)
Theorem C03_ring_fifo : forall (A : Type) (d : A) (N : Z), 2 <= N -> forall input st,
  reach N (init d input) st -> wf N st /\ received st ++ contents N st ++ pending st = input.
Proof. exact @ring_fifo. Qed.
Print Assumptions C03_ring_fifo.

Theorem C03_ring_progress : forall (A : Type) (d : A) (N : Z), 2 <= N -> forall input st,
  reach N (init d input) st -> (pending st <> [] \/ contents N st <> []) -> exists st', step N st st'.
Proof. exact @ring_progress. Qed.
Print Assumptions C03_ring_progress.

Theorem C03_ring_terminates : forall (A : Type) (d : A) (N : Z), 2 <= N -> forall input st st',
  reach N (init d input) st -> step N st st' -> (measure N st' < measure N st)%nat.
Proof. exact @ring_terminates. Qed.
Print Assumptions C03_ring_terminates.

(* the series limit of the request (not part of the property's statement, pinned here because
   [limit_break] is regenerated from the source): a positive limit passes exactly the first
   `limit` responses of the merged, de-duplicated stream *)
Theorem C03_limit_prefix : forall limit (l : list resp) i,
  0 <= i <= limit -> 0 < limit ->
  series_loop limit_break false limit i l = (firstn (Z.to_nat (limit - i)) l, false).
Proof. exact series_loop_limit. Qed.
Print Assumptions C03_limit_prefix.

(* stores that cannot strip replica labels *)
Theorem C03_resort : forall wrl (l : list resp),
  StronglySorted (lle lbl_cmp) (map fst (sers (sort_without_labels lbl_cmp (rm_labels wrl) l)))
  /\ Permutation (sort_without_labels lbl_cmp (rm_labels wrl) l) (map (rm_resp (rm_labels wrl)) l).
Proof. exact resort_ok. Qed.
Print Assumptions C03_resort.

(* The defect found (fixed by repo_patches/C03-fix.patch): the former loop kept a chunk
   under the checksum of its first field not seen before, so an aggregated chunk sent
   by two stores was listed twice; keyed by all field checksums it is listed once. *)
Theorem C03_unfixed_dedup_refuted :
  exists cs, ~ NoDup (map ckey (dedup_unfixed [] cs)) /\ NoDup (map ckey (dedup_keys ckey keqb [] cs)).
Proof. exact unfixed_dedup_refuted. Qed.
Print Assumptions C03_unfixed_dedup_refuted.

(* Non-vacuity: two stores, the second duplicates series a=1 with an overlapping chunk
   set and adds a=2; lazy retrieval, batch size 2. All hypotheses of the main theorem
   hold and the result has two series. *)
Definition ex_c (t : Z) (h : N) : chunk := MkChunk t (t + 5) [Some (1, h, [h]); None; None; None; None; None].
Definition ex_l (v : N) : labels := [([97%N], [v])].
Definition ex_scripts : list script :=
  [ MkScript None [FSeries (ex_l 49) [ex_c 0 1; ex_c 10 2]] EEof true;
    MkScript None [FBatch [(ex_l 49, [ex_c 10 2; ex_c 20 3]); (ex_l 50, [ex_c 0 4])]] EEof true ].
Example C03_nonvacuous :
  proxy true [] false 0 2 ex_scripts
    = Some [FBatch [(ex_l 49, [ex_c 0 1; ex_c 10 2; ex_c 20 3]); (ex_l 50, [ex_c 0 4])]]
  /\ lt_merge lbl_cmp wlen (streams_of true [] ex_scripts)
     = [RSeries (ex_l 49) [ex_c 10 2; ex_c 20 3]; RSeries (ex_l 49) [ex_c 0 1; ex_c 10 2]; RSeries (ex_l 50) [ex_c 0 4]].
Proof. split; vm_compute; reflexivity. Qed.

(* a buffer of size 1 (N = 2): append a, pop, append b, append is then blocked until the pop *)
Example C03_ring_nonvacuous :
  let s0 := init 0%nat [7; 8; 9]%nat in
  exists s1 s2 s3, step 2 s0 s1 /\ step 2 s1 s2 /\ step 2 s2 s3
    /\ received s3 = [7%nat] /\ contents 2 s3 = [8%nat] /\ pending s3 = [9%nat]
    /\ ring_is_full (hd s3) (tl s3) 2 = true.
Proof.
  cbv zeta. eexists. eexists. eexists. split; [eapply s_append; [reflexivity | vm_compute; reflexivity]|].
  split; [eapply s_pop; vm_compute; reflexivity|].
  split; [eapply s_append; [reflexivity | vm_compute; reflexivity]|]. vm_compute. repeat split.
Qed.
