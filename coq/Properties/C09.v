(* C09 — Series request limits are enforced: the limiter and the limiting server wrapper of
   pkg/store/limiter.go, and the reservation schedule of BucketStore.Series — ExpandPostings /
   nextBatch in bucket.go — with eagerly and lazily expanded postings and the request's own
   Limit field. (The theorems about a single Limiter keep the hypothesis "total < 2^64", where
   the uint64 counter would wrap; their names say _partial for that reason.)
   Property theorems only; each is closed by [exact] of a lemma of Proofs/C09.v.
   Full statement kept visible: "a Series call that succeeds never returns more series
   than the series limit or more chunks than the chunk limit, and a request that would
   exceed a limit fails instead of returning truncated data", for all block contents,
   selectors, limit values, lazy postings on/off. Proved here: for every sequence of
   Reserve calls and every stream of responses through limitedServer. *)
From Coq Require Import String.
From Coq Require Import ZArith NArith List Bool.
Import ListNotations.
From Verif Require Import Lib.Corr Gen.C09 Model.C09 Proofs.C09.
Open Scope N_scope.

(* Limiter: for every limit > 0 and every sequence of Reserve(n) calls whose total stays
   below 2^64 (the atomic counter wraps there): all calls succeed iff the total is within
   the limit; after a failed call every later call fails; each answer is "prefix sum <= limit". *)
Theorem C09_limiter_sound_partial : forall limit nums, limit <> 0 -> sum_n nums < two64 ->
  let oks := reserves (new_limiter limit) nums in
  length oks = length nums /\
  (forallb (fun b => b) oks = true <-> sum_n nums <= limit) /\
  (forall l1 l2, oks = l1 ++ false :: l2 -> Forall (fun b => b = false) l2) /\
  limiter_pred limit 0 nums oks = true.
Proof. exact limiter_sound. Qed.
Print Assumptions C09_limiter_sound_partial.

(* limit 0 disables the limiter *)
Theorem C09_limiter_unlimited : forall nums l, lim l = 0 -> reserves l nums = map (fun _ => true) nums.
Proof. exact limiter_unlimited. Qed.
Print Assumptions C09_limiter_unlimited.

(* limitedServer in front of any store: for every stream of series / batch / other
   responses, what reaches the client is a prefix whose series count and
   chunks*MaxSamplesPerChunk are within the limits; Series returns nil exactly when the
   totals of the whole stream are within the limits, and then the prefix is the whole stream. *)
Theorem C09_server_bound_partial : forall sl cl rs, tot_s rs < two64 -> tot_c rs * samples_per_chunk < two64 ->
  let n := fst (stream (new_limiter sl) (new_limiter cl) rs) in
  let fin := snd (stream (new_limiter sl) (new_limiter cl) rs) in
  let pre := firstn (N.to_nat n) rs in
  within sl (tot_s pre) = true /\ within cl (tot_c pre * samples_per_chunk) = true /\
  fin = within sl (tot_s rs) && within cl (tot_c rs * samples_per_chunk) /\
  (fin = true -> n = N.of_nat (length rs)).
Proof. exact server_sound. Qed.
Print Assumptions C09_server_bound_partial.

(* a stream whose totals exceed a limit ends in an error: never a silently shortened answer *)
Theorem C09_no_silent_truncation_partial : forall sl cl rs, tot_s rs < two64 -> tot_c rs * samples_per_chunk < two64 ->
  (sl <> 0 /\ sl < tot_s rs) \/ (cl <> 0 /\ cl < tot_c rs * samples_per_chunk) ->
  snd (stream (new_limiter sl) (new_limiter cl) rs) = false.
Proof. exact server_no_silent_truncation. Qed.
Print Assumptions C09_no_silent_truncation_partial.

(* BucketStore.Series. A request = the blocks selected for it, each seen by its block client as
   the fetched postings in order with, per posting, "passes the lazily applied matchers" and
   "chunks in the time range" (Model/C09.v: blockq). Both expansion modes are covered:
   eager (ExpandPostings truncates to the request's Limit and reserves len(postings); nextBatch
   reserves chunks per sent series) and lazy (nextBatch additionally reserves seriesMatched per
   batch). All block clients share the request's two limiters.
   For all blocks, every mix of eager and lazy blocks, every batch size >= 1, every request
   Limit, chunks skipped or not, all limit values: a request that succeeds sends at most the
   limits (sent <= reserved <= limit). [nowrap] = the reserved totals stay below 2^64. *)
Theorem C09_store_bound : forall sl cl bsz skip reqlim blocks, (1 <= bsz)%nat -> nowrap bsz skip reqlim blocks ->
  store_ok sl cl bsz skip reqlim blocks = true ->
  within sl (returned_series bsz skip reqlim blocks) = true /\
  within cl (sum_n (chunk_reservations bsz skip reqlim blocks)) = true.
Proof. exact store_bound. Qed.
Print Assumptions C09_store_bound.

(* No silent truncation (request Limit 0, i.e. the caller did not ask for a cut): on success the
   block clients send every series the blocks hold for the request with all its chunks in range;
   and if that result exceeds a limit the request is refused (the reservations that the result
   needs are made before the data is sent) — in both expansion modes. *)
Theorem C09_store_no_silent_truncation : forall sl cl bsz skip blocks, (1 <= bsz)%nat -> nowrap bsz skip 0 blocks ->
  returned_series bsz skip 0 blocks = true_series blocks /\
  sum_n (chunk_reservations bsz skip 0 blocks) = true_chunks skip blocks /\
  ((sl <> 0 /\ sl < true_series blocks) \/ (cl <> 0 /\ cl < true_chunks skip blocks) ->
   store_ok sl cl bsz skip 0 blocks = false).
Proof. exact store_no_silent_truncation. Qed.
Print Assumptions C09_store_no_silent_truncation.

Theorem C09_store_pred : forall sl cl bsz skip blocks sres cres tseries, (1 <= bsz)%nat -> nowrap bsz skip 0 blocks ->
  tseries <= true_series blocks ->
  pred_ok (CStore sl cl bsz skip 0 blocks (store_ok sl cl bsz skip 0 blocks) (negb (store_ok sl cl bsz skip 0 blocks)) sres cres
                  tseries (true_chunks skip blocks) tseries (true_chunks skip blocks)) = true.
Proof. exact store_case_pred. Qed.
Print Assumptions C09_store_pred.

(* through the predicates the check evaluates on the implementation's observables *)
Theorem C09_limiter_pred : forall limit nums, pred_ok (CLimiter limit nums (reserves (new_limiter limit) nums)) = true.
Proof. exact limiter_case_pred. Qed.
Print Assumptions C09_limiter_pred.

Theorem C09_server_pred : forall sl cl rs,
  pred_ok (CServer sl cl rs (fst (stream (new_limiter sl) (new_limiter cl) rs))
                            (snd (stream (new_limiter sl) (new_limiter cl) rs))) = true.
Proof. exact server_case_pred. Qed.
Print Assumptions C09_server_pred.

(* Tie T *)
Theorem C09_source_shape :
  MaxSamplesPerChunk = 120%Z /\
  reserveEvents =
    [("if", "l == nil"); ("return", "nil"); ("endif", ""); ("if", "l.limit == 0"); ("return", "nil"); ("endif", "");
     ("call", "l.reserved.Add"); ("if", "reserved > l.limit"); ("call", "l.failedOnce.Do"); ("call", "errors.Errorf");
     ("return", "errors.Errorf(""limit %v violated (got %v)"", l.limit, reserved)"); ("endif", ""); ("return", "nil")]%string /\
  (exists pre post, sendEvents = pre ++
     [("call", "i.seriesLimiter.Reserve"); ("if", "err != nil"); ("call", "errors.Wrapf");
      ("return", "errors.Wrapf(err, ""failed to send series"")"); ("endif", "");
      ("call", "i.samplesLimiter.Reserve"); ("if", "err != nil"); ("call", "errors.Wrapf");
      ("return", "errors.Wrapf(err, ""failed to send samples"")"); ("endif", "");
      ("call", "i.Store_SeriesServer.Send"); ("return", "i.Store_SeriesServer.Send(response)")]%string ++ post /\ post = []).
Proof. exact source_shape. Qed.
Print Assumptions C09_source_shape.

(* the three Reserve calls of a block client (the third only with lazily expanded postings) *)
Theorem C09_store_source_shape :
  blockClientReservations =
    ["blockSeriesClient.ExpandPostings: seriesLimiter.Reserve(uint64(len(b.lazyPostings.postings)))";
     "blockSeriesClient.nextBatch: b.chunksLimiter.Reserve(uint64(len(b.chkMetas)))";
     "blockSeriesClient.nextBatch: b.seriesLimiter.Reserve(uint64(seriesMatched))"]%string.
Proof. exact store_source_shape. Qed.
Print Assumptions C09_store_source_shape.

(* Non-vacuity: limit 5; the third call crosses it and later calls keep failing; a stream
   of 2 series (3 chunks) against limits 2 series / 360 samples passes, against 359 fails
   after forwarding the first response. *)
Example C09_nonvacuous :
  reserves (new_limiter 5) [2; 3; 1; 0] = [true; true; false; false] /\
  stream (new_limiter 2) (new_limiter 360) [RSeries 1; ROther; RBatch [None; Some 2]] = (3, true) /\
  stream (new_limiter 2) (new_limiter 359) [RSeries 1; ROther; RBatch [None; Some 2]] = (2, false) /\
  sum_n [2; 3; 1; 0] < two64 /\
  (* two blocks: 3 matched series (one without chunks in range) and 2; series limit 5 is
     needed although 4 series are returned; chunk limit 7 = 3+2+1+1 *)
  (let bs := [mkB false [(true, 3); (true, 0); (true, 2)]; mkB true [(true, 1); (false, 2); (true, 1)]] in
   (* eager block: 3 postings reserved, 2 sent; lazy block, batch size 2: batches reserve 1 and 1 *)
   series_reservations 2 false 0 bs = [3; 1; 1] /\ chunk_reservations 2 false 0 bs = [3; 2; 1; 1] /\
   returned_series 2 false 0 bs = 4 /\ true_series bs = 4 /\
   store_ok 5 7 2 false 0 bs = true /\ store_ok 4 7 2 false 0 bs = false /\ store_ok 5 6 2 false 0 bs = false /\
   (* request Limit 1: the eager block keeps 1 posting; each batch of the lazy block stops after its first match *)
   series_reservations 2 false 1 bs = [1; 1; 1] /\ returned_series 2 false 1 bs = 3 /\ nowrap 2 false 0 bs).
Proof. vm_compute. repeat split; reflexivity. Qed.
