(* C19 — Building a hashring from any configuration terminates: it produces a
   usable ring or reports an error; it never hangs.
   Property theorems only (closed by [exact] of lemmas from Proofs/C19.v and
   Lib/Hashring_KetamaFacts.v). The model is the shared ketama model
   (Lib/Hashring_Ketama.v); [ketama_new_src] is the constructor with the
   lap-detection exit present or absent as READ FROM THE SOURCE on this run
   (Gen/C19.v). Section hashes (xxhash) are arbitrary data of the statements. *)
From Coq Require Import ZArith List Bool Arith.
Import ListNotations.
From Verif Require Import Lib.Corr Lib.Hashring_Ketama Lib.Hashring_KetamaFacts Gen.C19 Model.C19 Proofs.C19 Proofs.C19_Balanced.
Close Scope Z_scope.

(* Termination of the replica walk for EVERY ring (any order of sections, any
   hash collisions), every zone set and replication factor: the loop of the
   source (with its lap counter) ends with rf replicas or with the error within
   (rf+1)*(|ring|+1)+1 iterations; the iteration budget is never exhausted. *)
Theorem C19_walk_terminates : forall ring rf azs i,
  walk true (walk_fuel ring rf) ring rf i 0 [] (spread_init azs) <> OutOfFuel.
Proof. exact walk_terminates. Qed.
Print Assumptions C19_walk_terminates.

(* The constructor as the source has it now, on every endpoint list (any zone
   layout, any number of sections per node, any hashes) and every replication
   factor: it returns an error or a ring, and a returned ring satisfies the
   boolean predicate that the check evaluates on the implementation's output. *)
Theorem C19_total : forall eps rf,
  ketama_new_src eps rf = KErr \/
  exists ring reps, ketama_new_src eps rf = KOk ring reps /\
    pred_ok (CKetama false eps rf (OOk (combine (map (fun s => (s_hash s, s_ep s)) ring) reps))) = true.
Proof. exact src_total. Qed.
Print Assumptions C19_total.

(* Readable form of "usable": the ring is the hash-sorted list of all
   sections, there is one replica list per section, and each holds exactly rf
   pairwise distinct valid endpoint indexes — GetN(n) is answerable for n < rf. *)
Theorem C19_ring_usable : forall eps rf ring reps,
  ketama_new_src eps rf = KOk ring reps ->
  ring = sort_sections (sections_of 0 eps) /\ rf <= length eps /\
  length reps = length ring /\
  Forall (fun r => length r = rf /\ NoDup r /\ forall e, In e r -> e < length eps) reps.
Proof. exact src_ring_usable. Qed.
Print Assumptions C19_ring_usable.

(* The repair rejects nothing that used to work: with enough endpoints, the
   error is reported exactly on configurations on which the loop WITHOUT the
   lap counter (the code before the repair) runs forever — no iteration budget
   is enough for it. *)
Theorem C19_error_only_where_original_spins : forall eps rf,
  rf <= length eps -> ketama_new_src eps rf = KErr ->
  forall fuel, ketama_new_fuel false fuel eps rf = KFuel.
Proof. exact src_error_only_where_original_spins. Qed.
Print Assumptions C19_error_only_where_original_spins.

(* ... and where the repaired loop finishes, the original one computes the same replicas. *)
Theorem C19_repair_conservative : forall ring rf fuel0 fuel i sp out,
  walk true fuel0 ring rf i 0 [] sp = Done out ->
  walk false fuel ring rf i 0 [] sp = Done out \/ walk false fuel ring rf i 0 [] sp = OutOfFuel.
Proof. exact repair_conservative. Qed.
Print Assumptions C19_repair_conservative.

(* The observed defect: zones A:{a1}, B:{b1,b2,b3} (real xxhash values, one
   section per node), replication factor 4. The source now reports an error;
   the loop without the lap counter never terminates on it. *)
Theorem C19_unbalanced_layout : 
  ketama_new_src eps_unbalanced 4 = KErr /\
  forall fuel, ketama_new_fuel false fuel eps_unbalanced 4 = KFuel.
Proof. exact src_unbalanced_layout. Qed.
Print Assumptions C19_unbalanced_layout.

(* Without zones, or with a single zone, every configuration with
   rf <= #endpoints (each owning at least one section) yields a ring. *)
Theorem C19_single_zone_always_builds : forall eps rf,
  length (az_set [] eps) <= 1 -> rf <= length eps -> Forall (fun e => snd e <> []) eps ->
  exists ring reps, ketama_new_src eps rf = KOk ring reps.
Proof. exact src_single_zone. Qed.
Print Assumptions C19_single_zone_always_builds.

(* With several zones: if every zone can hold its share of the replicas
   (rf <= zones * |zone|, i.e. |zone| >= ceil(rf / zones), for every zone), every
   endpoint owns a section and rf <= #endpoints, the constructor yields a ring —
   whatever the section hashes are. The layouts on which the walk gets stuck are
   therefore exactly among those where some zone is too small for its share. *)
Theorem C19_balanced_zones_always_build : forall eps rf,
  Forall (fun e => snd e <> []) eps -> rf <= length eps ->
  (Z.of_nat rf <= MaxInt64)%Z ->
  (forall a, In a (az_set [] eps) -> rf <= length (az_set [] eps) * length (zone_members eps a)) ->
  exists ring reps, ketama_new_src eps rf = KOk ring reps.
Proof. exact src_balanced_zones. Qed.
Print Assumptions C19_balanced_zones_always_build.

(* Non-vacuity: a two-zone layout 2+2 with three sections per node and rf = 3
   builds a ring (corpus/C19/balanced-2x2-rf3.json); the hypotheses of the
   single-zone theorem hold of a three-node ring. *)
Example C19_nonvacuous :
  (exists ring reps, ketama_new_src
     [(0, [17435437932079402853; 13562102443147507239; 1669017779664615285]);
      (1, [17927577647030366782; 742117387956019904; 17119174355089869588]);
      (0, [4357014088305159996; 10271613861235621930; 13480071174685583505]);
      (1, [2009852540237172958; 5017795776030357180; 15279010018270936816])]%Z 3 = KOk ring reps
     /\ length ring = 12)
  /\ (length (az_set [] [(7, [5]); (7, [9]); (7, [1])]%Z) <= 1 /\ 2 <= 3).
Proof.
  split.
  - eexists. eexists. split; [vm_compute; reflexivity|reflexivity].
  - vm_compute. split; repeat constructor.
Qed.

(* Non-vacuity of the several-zones theorem: two zones with two endpoints each, rf = 3. *)
Example C19_balanced_nonvacuous :
  let eps := [(0, [5; 11]); (1, [3; 9]); (0, [7; 2]); (1, [8; 1])]%Z in
  Forall (fun e => snd e <> []) eps /\ 3 <= length eps /\ (Z.of_nat 3 <= MaxInt64)%Z /\
  (forall a, In a (az_set [] eps) -> 3 <= length (az_set [] eps) * length (zone_members eps a)).
Proof.
  split; [repeat constructor; discriminate|]. split; [vm_compute; repeat constructor|].
  split; [vm_compute; discriminate|].
  intros a Ha. vm_compute in Ha. destruct Ha as [<-|[<-|[]]]; vm_compute; repeat constructor.
Qed.
