(* C16 — Lazy index headers stay correct under concurrent idle unloading.
   Property theorems only. The transition system (Model/C16.v) has any number
   of threads, each running any sequence of Reader-method calls, Close /
   unloadIfIdleSince(ts), isIdleSince(ts) and pool sweeps, under every
   interleaving of their atomic steps ([reachable]). [bp_src] (computed from the
   regenerated source facts) says whether some delegating method returns the
   BinaryReader's zero-copy strings to its caller without copying them; with the
   fix of LabelValues it is false, and every theorem is stated for
   [reachable bp_src], i.e. for the program the source describes now. *)
From Coq Require Import ZArith List Bool String Arith.
Import ListNotations.
From Verif Require Import Lib.Corr Gen.C16 Model.C16 Proofs.C16.
Close Scope Z_scope.

(* No use after close: in every reachable configuration, a thread at the use
   point (the delegated BinaryReader call on handle h) holds a read lock, no
   writer is active, r.reader is exactly h and h has not been closed. *)
Theorem C16_no_use_after_close : forall s ts h,
  reachable bp_src s ts -> In (L_UseCall h) ts ->
  1 <= readers s /\ writer s = false /\ rd s = Some h /\ is_closed h (closed s) = false.
Proof. rewrite bp_src_false. exact no_use_after_close. Qed.
Print Assumptions C16_no_use_after_close.

(* r.reader is never nil where it is dereferenced (after load() returned nil). *)
Theorem C16_reader_field_not_nil : forall s ts p,
  reachable bp_src s ts -> In p ts -> p = L_Touch \/ p = L_UseRead ->
  1 <= readers s /\ writer s = false /\
  exists h, rd s = Some h /\ is_closed h (closed s) = false.
Proof. rewrite bp_src_false. exact reader_field_not_nil. Qed.
Print Assumptions C16_reader_field_not_nil.

(* Every call returns a declared result: a Reader method returns the answer of
   an OPEN BinaryReader handle (all handles are readers of the same immutable
   index-header file, so the answer of the always-loaded reader), the latched
   load error, or errUnloadedWhileLoading; it never panics on a nil reader and
   never answers from a closed one (RPanic / RUAC are excluded by lookup_res /
   good_res). *)
Theorem C16_answers_equal_or_error : forall s ts x,
  reachable bp_src s ts ->
  (In (L_RUnlockEnd x) ts -> lookup_res x) /\
  (In (U_Unlock x) ts -> unload_res x) /\
  (In (Done x) ts -> good_res x).
Proof. rewrite bp_src_false. exact results_ok. Qed.
Print Assumptions C16_answers_equal_or_error.

(* Answers outlive unloading: no caller ever reads an answer that is backed by the
   memory of a closed (unmapped) index-header. Holds because no delegating
   method hands out memory-backed answers ([bp_src] = false, from the source). *)
Theorem C16_answers_outlive_unload : forall s ts h,
  reachable bp_src s ts -> ~ In (Dangling h) ts.
Proof. rewrite bp_src_false. exact no_dangling. Qed.
Print Assumptions C16_answers_outlive_unload.

(* ... and it is exactly what fails when a method returns the zero-copy strings
   of BinaryReader.LabelValues as they are (the code before the fix): a lookup
   returns, Close() unmaps the header, the caller reads the answer. *)
Theorem C16_uncopied_answer_refuted :
  exists s ts h, reachable true s ts /\ In (Dangling h) ts.
Proof.
  exists (mkS 0 false None false 7%Z 1 [0] 1 0 1 0), [Dangling 0; Done RNil], 0.
  split; [|left; reflexivity].
  exists 2, 1%Z.
  apply (exec_steps true (repeat (0, mkC OLookup true 7%Z true) 14 ++ repeat (1, mkC (OUnload 0%Z) true 0%Z true) 7
                          ++ [(0, mkC OLookup true 7%Z true)])).
  vm_compute. reflexivity.
Qed.
Print Assumptions C16_uncopied_answer_refuted.

(* The lock discipline: the reader count is the number of threads inside read
   sections, at most one thread is inside a write section and then nobody is
   inside a read section. *)
Theorem C16_rw_excl : forall s ts,
  reachable bp_src s ts ->
  readers s = cnt holdsR ts /\ cnt holdsW ts = (if writer s then 1 else 0) /\
  (writer s = true -> cnt holdsR ts = 0).
Proof. rewrite bp_src_false. exact rw_excl. Qed.
Print Assumptions C16_rw_excl.

(* Lock balance: a thread about to execute a Reader method's deferred RUnlock
   holds a read lock (every path through load() re-acquires it), so that RUnlock
   never releases another lookup's hold and never hits an unlocked mutex. *)
Theorem C16_lock_balance : forall s ts x,
  reachable bp_src s ts -> In (L_RUnlockEnd x) ts -> 1 <= readers s /\ writer s = false.
Proof. rewrite bp_src_false. exact lock_balance. Qed.
Print Assumptions C16_lock_balance.

(* Tie T for it: in the regenerated event list of load(), every return is reached
   with the read lock held or after the deferred Unlock/RLock has been registered. *)
Theorem C16_load_returns_with_read_lock : load_lock_balance = true.
Proof. exact load_lock_balance_holds. Qed.
Print Assumptions C16_load_returns_with_read_lock.

(* The metric counters: whenever the write lock is free,
   loadCount - loadFailedCount = unloadCount - unloadFailedCount + [reader loaded]. *)
Theorem C16_counters : forall s ts,
  reachable bp_src s ts -> writer s = false ->
  loads s - loadfails s = (unloads s - unloadfails s) + (if is_some (rd s) then 1 else 0)
  /\ loadfails s <= loads s /\ unloadfails s <= unloads s.
Proof. rewrite bp_src_false. exact counts_quiescent. Qed.
Print Assumptions C16_counters.

(* One thread: for every sequence of operations (and clock values) the model
   produces observations, the correspondence check accepts exactly them, and
   they satisfy the predicate evaluated on the implementation's observables. *)
Theorem C16_sequential_pred : forall u0 load_ok ops,
  exists obs, seq_model bp_src load_ok (init_shared u0) ops = Some obs
    /\ corr_ok (CSeq u0 load_ok obs) = true
    /\ pred_ok (CSeq u0 load_ok obs) = true
    /\ map (fun x => (fst (fst x), snd (fst x))) obs = ops.
Proof. intros. unfold corr_ok. rewrite bp_src_false. apply seq_model_ok. apply quiet_init. Qed.
Print Assumptions C16_sequential_pred.

(* ... and any observations the correspondence check accepts satisfy it. *)
Theorem C16_sequential_corr_implies_pred : forall u0 load_ok obs,
  corr_ok (CSeq u0 load_ok obs) = true -> pred_ok (CSeq u0 load_ok obs) = true.
Proof. intros u0 ok obs. unfold corr_ok. rewrite bp_src_false. apply seq_ok_pred. apply quiet_init. Qed.
Print Assumptions C16_sequential_corr_implies_pred.

(* A sequential execution of an operation (what the correspondence check
   evaluates) is a run of the transition system. *)
Theorem C16_sequential_run_is_lts_run : forall bp fuel c s p s' x,
  run bp fuel c s p = Some (s', x) -> steps bp (s, [p]) (s', [Done x]).
Proof. exact run_steps. Qed.
Print Assumptions C16_sequential_run_is_lts_run.

(* Tie T: the synchronisation skeletons regenerated from the Go source (Gen/C16.v)
   are exactly the ones the thread programs of the model implement. *)
Theorem C16_source_skeleton : facts_ok = true.
Proof. exact facts_hold. Qed.
Print Assumptions C16_source_skeleton.

(* Non-vacuity. Two threads: thread 0 runs a Reader method and loads the
   header; between its deferred Unlock and RLock thread 1 runs Close(); thread
   0's re-check then reports errUnloadedWhileLoading. The configuration is
   reachable, so the theorems above speak about it. *)
Definition lk := mkC OLookup true 7%Z true.
Definition cl0 := mkC (OUnload 0%Z) true 0%Z true.
Definition sched_unloaded : list (nat * choice) :=
  repeat (0, lk) 8 ++ repeat (1, cl0) 7 ++ repeat (0, lk) 3.

Example C16_nonvacuous_unloaded_while_loading :
  exists s, reachable bp_src s [Done (RErr EUnloaded); Done RNil]
            /\ rd s = None /\ closed s = [0] /\ loads s = 1 /\ unloads s = 1.
Proof.
  destruct (exec false sched_unloaded (init_shared 1%Z) (repeat Idle 2)) as [[s ts]|] eqn:E;
    vm_compute in E; [|discriminate].
  injection E as <- <-.
  eexists. split; [rewrite bp_src_false; exists 2, 1%Z; apply (exec_steps false sched_unloaded); vm_compute; reflexivity|].
  repeat split.
Qed.

(* A thread at the use point while an unloader waits for the write lock. *)
Example C16_nonvacuous_use_point :
  exists s, reachable bp_src s [L_UseCall 0; U_Lock 0%Z]
            /\ readers s = 1 /\ writer s = false /\ rd s = Some 0
            /\ tstep bp_src cl0 s (U_Lock 0%Z) = None.
Proof.
  eexists. split.
  - rewrite bp_src_false. exists 2, 1%Z.
    apply (exec_steps false (repeat (0, lk) 8 ++ [(1, cl0)] ++ repeat (0, lk) 4)). vm_compute. reflexivity.
  - vm_compute. repeat split.
Qed.

(* A sequential run with a reload and idle checks on both sides of usedAt. *)
Example C16_nonvacuous_sequential :
  exists obs, seq_model bp_src true (init_shared 5%Z)
                [(OLookup, 10%Z); (OUnload 9%Z, 0%Z); (OSweep 10%Z, 0%Z); (OLookup, 20%Z); (OUnload 0%Z, 0%Z)] = Some obs
   /\ map (fun x => o_res (snd x)) obs = [KOk; KNotIdle; KNil; KOk; KNil]
   /\ map (fun x => o_loads (snd x)) obs = [1; 1; 1; 2; 2]%N.
Proof. eexists. split; [vm_compute; reflexivity|]. split; reflexivity. Qed.
