(* C39 — Aggregate chunk encoding round-trips for any set of aggregates.
   Property theorems only; each is closed by [exact] of a lemma from
   Proofs/C39.v.  The model (Model/C39.v) is EncodeAggrChunk / AggrChunk.Get of
   pkg/compact/downsample/aggr.go over byte lists, with encoding/binary's
   PutUvarint / Uvarint written out; [get] is Get with the zero-length test
   before the size test (C39-fix.patch), [get_presize] is Get as found.
   [valid_encodings], [AggrCounter] and [Get_events] come from Gen/C39.v,
   regenerated from the tree on every run. *)
From Coq Require Import ZArith NArith String List Bool.
Import ListNotations.
From Verif Require Import Lib.Corr Gen.C39 Model.C39 Proofs.C39.
Open Scope N_scope.

(* For EVERY list of aggregate slots (any length, any presence pattern, any
   contents) whose present sub-chunks are non-empty, shorter than 2^56 bytes
   and carry an encoding chunkenc.FromData accepts: encoding succeeds, and Get
   of every slot returns the present sub-chunk byte-identical with its
   encoding byte, and ErrAggrNotExist for an absent one. *)
Theorem C39_roundtrip : forall chks,
  forallb sub_wf chks = true ->
  exists bytes, encode chks = Some bytes /\
    forall t s, nth_error chks t = Some s -> get t bytes = expected s.
Proof. exact roundtrip. Qed.
Print Assumptions C39_roundtrip.

Theorem C39_get_present : forall chks t e d,
  forallb sub_wf chks = true -> nth_error chks t = Some (Some (e, d)) ->
  exists bytes, encode chks = Some bytes /\ get t bytes = GOk e d.
Proof. exact get_present. Qed.
Print Assumptions C39_get_present.

Theorem C39_get_absent : forall chks t,
  forallb sub_wf chks = true -> nth_error chks t = Some None ->
  exists bytes, encode chks = Some bytes /\ get t bytes = GNotExist.
Proof. exact get_absent. Qed.
Print Assumptions C39_get_absent.

(* The same for the five-slot array of the Go code, through the boolean
   predicate that the check evaluates on the implementation's own output. *)
Theorem C39_roundtrip_pred : forall chks,
  List.length chks = 5%nat -> forallb sub_wf chks = true ->
  exists bytes, encode chks = Some bytes /\
    pred_ok (CEnc chks bytes (map (fun t => get t bytes) (seq 0 6))) = true.
Proof. exact roundtrip_pred. Qed.
Print Assumptions C39_roundtrip_pred.

(* The code as found at the pinned commit (size test before the zero-length
   test) does NOT have the property: Get(AggrCounter) of a chunk whose last
   aggregate is absent answers "invalid size". *)
Theorem C39_get_absent_size_test_first_refuted :
  exists chks bytes,
    forallb sub_wf chks = true /\ encode chks = Some bytes /\
    nth_error chks AggrCounter = Some None /\ get_presize AggrCounter bytes = GErr.
Proof. exact presize_refuted. Qed.
Print Assumptions C39_get_absent_size_test_first_refuted.

(* ... and that is the ONLY difference: on encoder output the code as found agrees with the
   specification for every slot that is present or is not the last one (so the repair
   changes the result only for an absent last aggregate). *)
Theorem C39_size_test_first_differs_only_on_absent_last : forall chks bytes t s,
  forallb sub_wf chks = true -> encode chks = Some bytes -> nth_error chks t = Some s ->
  (s <> None \/ (S t < List.length chks)%nat) ->
  get_presize t bytes = expected s.
Proof. exact get_presize_encode. Qed.
Print Assumptions C39_size_test_first_differs_only_on_absent_last.

(* Tie T: in the source of Get as it is now, the `l == 0` test comes before the
   test that mentions `int(l)+1`. *)
Theorem C39_source_order : get_order_ok = true.
Proof. exact source_order. Qed.
Print Assumptions C39_source_order.

(* Non-vacuity: a well-formed pattern with a present 130-byte sub-chunk
   (two-byte length), absent slots in the middle and at the end. *)
Example C39_nonvacuous :
  let chks := [Some (1, repeat 7 130); None; Some (2, [0; 1; 255]); None; None] in
  forallb sub_wf chks = true /\ List.length chks = 5%nat /\
  (exists bytes, encode chks = Some bytes /\
     map (fun t => get t bytes) (seq 0 5) = map expected chks) /\
  nth_error chks 4 = Some None /\ nth_error chks 0 = Some (Some (1, repeat 7 130)).
Proof.
  cbv zeta. split; [vm_compute; reflexivity|]. split; [reflexivity|].
  split; [|split; reflexivity].
  exists (match encode [Some (1, repeat 7 130); None; Some (2, [0; 1; 255]); None; None] with
          | Some b => b | None => [] end).
  split; vm_compute; reflexivity.
Qed.
