(* C11 — Binary index-header answers equal the full index.
   Property theorems only; each is closed by [exact] of a lemma from Proofs/C11.v.
   Model: Model/C11.v (BinaryReader.init sampling, postingsOffset loop, LabelValues,
   LabelNames for one label name of the postings offset table). The three sampling
   conditions of BinaryReader.init and NotFoundRange come from Gen/C11.v, regenerated
   from pkg/block/indexheader/binary_reader.go on every run. *)
From Coq Require Import ZArith NArith List Bool Sorted.
Import ListNotations.
From Verif Require Import Lib.Corr Lib.Storegw_Str Gen.C11 Model.C11 Proofs.C11.
Open Scope Z_scope.

(* The specification [spec_range tbl lv v] is "what the full index says":
   the posting list of a value present in the table starts 4 bytes after its own
   offset and ends 4 bytes before the next entry's offset (for the last value of
   the name: lv = lastValOffset); a value that is not in the table is NotFoundRange. *)
Theorem C11_spec_found : forall tbl lv pre v po d',
  StronglySorted str_lt (keys tbl) -> tbl = pre ++ (v, po) :: d' ->
  spec_range tbl lv v = (po + 4, match d' with [] => lv | (_, po') :: _ => po' - 4 end).
Proof. exact spec_found_at. Qed.
Print Assumptions C11_spec_found.

Theorem C11_spec_missing : forall tbl lv v, ~ In v (keys tbl) -> spec_range tbl lv v = (-1, -1).
Proof. exact spec_missing. Qed.
Print Assumptions C11_spec_missing.

(* BinaryReader.init, every sampling rate, every non-empty table: the in-memory
   sampled offsets are entries of the table at strictly increasing positions, the
   first and the last value of the name are always present. *)
Theorem C11_sampled_ok : forall n tbl, 1 <= n -> tbl <> [] -> good_samples tbl (init_sample n tbl).
Proof. exact sampled_ok. Qed.
Print Assumptions C11_sampled_ok.

(* Main theorem. For EVERY table of a label name (values strictly increasing, as
   the index writer emits them), EVERY sampling rate n >= 1 and EVERY sorted list of
   requested values (duplicates, absent values, values before the first / after the
   last one included), the postingsOffset loop terminates within its fuel, never
   runs off the name's entries (no decbuf error), and returns exactly one range per
   requested value, in order: the full-index location of the value, or NotFoundRange. *)
Theorem C11_offsets_eq_spec : forall n tbl next_off vs,
  1 <= n -> tbl <> [] -> StronglySorted str_lt (keys tbl) -> StronglySorted str_le vs ->
  postings_offset (init_sample n tbl) (last_val_offset next_off) tbl vs
  = OK (map (spec_range tbl (last_val_offset next_off)) vs).
Proof. exact offsets_eq_spec. Qed.
Print Assumptions C11_offsets_eq_spec.

(* The same for any sampled-offset list that satisfies the invariant (not only the one
   built by init): the lookup loop is correct for every "good" sample. *)
Theorem C11_offsets_eq_spec_any_sample : forall tbl lv,
  StronglySorted str_lt (keys tbl) -> forall offs, good_samples tbl offs ->
  forall vs, StronglySorted str_le vs ->
  postings_offset offs lv tbl vs = OK (map (spec_range tbl lv) vs).
Proof. exact postings_offset_ok. Qed.
Print Assumptions C11_offsets_eq_spec_any_sample.

(* LabelValues returns every value of the name, in table order, for every sampling rate. *)
Theorem C11_label_values_eq : forall n tbl,
  1 <= n -> tbl <> [] -> StronglySorted str_lt (keys tbl) ->
  label_values (init_sample n tbl) tbl = Some (keys tbl).
Proof. exact label_values_eq. Qed.
Print Assumptions C11_label_values_eq.

(* LabelNames: sorted, and exactly the non-empty names occurring in the table. *)
Theorem C11_label_names : forall names,
  StronglySorted str_le (label_names names)
  /\ forall s, In s (label_names names) <-> (In s names /\ s <> []).
Proof. exact label_names_ok. Qed.
Print Assumptions C11_label_names.

(* LookupSymbol over histories: the value-symbol cache is a direct-mapped table of
   (index, string); a slot is a hit only when its index equals the looked-up reference. For
   EVERY symbol table, every set of name references and EVERY history of lookups on one
   reader (collisions k, k+1024, k+2048, repeats, out-of-range references) every answer is the
   table's symbol for that reference. *)
Theorem C11_lookup_history : forall tbl names h c, sc_ok tbl c ->
  run_lookups tbl names c h = map tbl h.
Proof. exact lookup_history_ok. Qed.
Print Assumptions C11_lookup_history.

(* ... and it is the index test that makes it so: a cache that trusts the slot alone is refuted. *)
Theorem C11_lookup_history_noidx_refuted :
  exists tbl h, run_lookups_noidx tbl [] [] h <> map tbl h.
Proof. exact lookup_history_noidx_refuted. Qed.
Print Assumptions C11_lookup_history_noidx_refuted.

(* Connection with the check: for all valid inputs the model's answers are the
   specification's, and a case in which the implementation agrees with the model
   (corr_ok) and the full index agrees with the specification passes pred_ok. *)
Theorem C11_case_pred : forall n tbl next_off vs,
  1 <= n -> tbl <> [] -> StronglySorted str_lt (keys tbl) -> StronglySorted str_le vs ->
  let offs := init_sample n tbl in
  let lv := last_val_offset next_off in
  exists out lvs,
    postings_offset offs lv tbl vs = OK out /\ label_values offs tbl = Some lvs /\
    out = map (spec_range tbl lv) vs /\ lvs = keys tbl /\
    corr_ok (CName n tbl next_off offs lv [(vs, Some out, map (spec_range tbl lv) vs)] (Some lvs) (keys tbl)) = true /\
    pred_ok (CName n tbl next_off offs lv [(vs, Some out, map (spec_range tbl lv) vs)] (Some lvs) (keys tbl)) = true.
Proof. exact name_case_ok. Qed.
Print Assumptions C11_case_pred.

(* Non-vacuity: 7 values sampled at rate 3 (samples b,h,n = positions 0,3,6);
   a request with a value before the first, duplicates, values between samples,
   absent values and a value after the last one. *)
Definition ex_tbl : list entry :=
  [([98%N], 100); ([100%N], 116); ([102%N], 132); ([104%N], 148); ([106%N], 164); ([108%N], 180); ([110%N], 196)].
Definition ex_vs : list str := [[97]; [98]; [98]; [99]; [102]; [105]; [108]; [108]; [110]; [122]]%N.
Example C11_nonvacuous :
  init_sample 3 ex_tbl = [([98]%N, 0%nat); ([104]%N, 3%nat); ([110]%N, 6%nat)]
  /\ postings_offset (init_sample 3 ex_tbl) (last_val_offset 212) ex_tbl ex_vs
     = OK [(-1, -1); (104, 112); (104, 112); (-1, -1); (136, 144); (-1, -1); (184, 192); (184, 192); (200, 208); (-1, -1)]
  /\ 1 <= 3 /\ ex_tbl <> []
  /\ StronglySorted str_lt (keys ex_tbl) /\ StronglySorted str_le ex_vs
  /\ label_values (init_sample 3 ex_tbl) ex_tbl = Some (keys ex_tbl).
Proof.
  split; [vm_compute; reflexivity|]. split; [vm_compute; reflexivity|].
  split; [discriminate|]. split; [discriminate|].
  split; [|split; [|vm_compute; reflexivity]].
  - repeat (constructor; [|repeat (constructor; [reflexivity|]); try constructor]); constructor.
  - repeat (constructor; [|repeat (constructor; [discriminate|]); try constructor]); constructor.
Qed.

Example C11_label_names_nonvacuous :
  label_names [[]; [98]; [98]; [97]; [97]; [99; 100]]%N = [[97]; [98]; [99; 100]]%N.
Proof. vm_compute. reflexivity. Qed.

Example C11_lookup_history_nonvacuous :
  let tbl := fun o => if (o =? 5) then Some [97%N] else if (o =? 1029) then Some [98%N] else if (o =? 2053) then Some [99%N] else None in
  run_lookups tbl [] [] [5; 1029; 2053; 5; 5; 9999] = [Some [97%N]; Some [98%N]; Some [99%N]; Some [97%N]; Some [97%N]; None]
  /\ sc_ok tbl [].
Proof. split; [vm_compute; reflexivity|apply sc_ok_nil]. Qed.
