(* placeholder while the pipeline is brought up *)
From Coq Require Import ZArith List Bool.
From Verif Require Import Lib.Corr Lib.Storegw_Str Gen.C11 Model.C11.
