(* placeholder while the pipeline is brought up *)
From Coq Require Import ZArith List Bool.
From Verif Require Import Lib.Corr Gen.C14 Model.C14.
