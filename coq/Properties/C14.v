(* C14 — Caching bucket is transparent for immutable objects.
   Property theorems only; each is closed by [exact] of a lemma from Proofs/C14*.v.
   Model: Model/C14.v; the integer expressions of cachedGetRange and
   fetchMissingSubranges come from Gen/C14.v (regenerated from
   pkg/store/cache/caching_bucket.go on every run).
   The model describes the code WITH repo_patches/C14-fix.patch (a GetRange at or past
   the end of the object is answered by the underlying bucket; the unpatched code
   panics there, see the corpus case 02-past-the-end). *)
From Coq Require Import ZArith NArith List Bool.
Import ListNotations.
From Verif Require Import Lib.Corr Gen.C14 Model.C14 Proofs.C14 Proofs.C14_merge Proofs.C14_fetch Proofs.C14_main Proofs.C14_hist.
Open Scope Z_scope.

(* GetRange. For every world of immutable objects, every subrange size > 0, every
   max-sub-requests value (any Z; <= 0 means unlimited), every offset >= 0 and
   length > 0 (inside the object, overlapping its end, or past it), every cache whose
   entries are truthful and every loss pattern [hits] (any subset of the cache may fail
   to be returned): the bytes read through the caching bucket are exactly the bytes the
   underlying bucket returns (no fuel exhaustion, no failed ReadFull, no out-of-range
   slice, no missing subrange in the reader), an absent object is an error in both, and
   the cache stays truthful. *)
Theorem C14_get_range_eq : forall g w listing c hits name off len,
  0 < c_S g -> 0 <= off -> 0 < len -> cache_ok w listing c ->
  fst (fst (fst (get_range g w c hits name off len))) = reference w (OGetRange name off len) []
  /\ cache_ok w listing (snd (get_range g w c hits name off len)).
Proof. exact get_range_ok. Qed.
Print Assumptions C14_get_range_eq.

(* Request merging: the missing subranges, merged with limit 0 and then with a doubling
   limit until at most M requests remain, stay ascending, non-overlapping and inside the
   window, still cover every missing subrange, number at most M when M > 0, and the
   doubling loop terminates within its fuel. *)
Theorem C14_merge_ranges_cover : forall Sz ks ke M l lo, 0 < Sz -> chain Sz ks ke lo l ->
  exists r, merge_loop (S (Z.to_nat (ke - ks))) (merge_ranges l 0) Sz M = Some r
    /\ chain Sz ks ke lo r /\ (forall x, covered l x -> covered r x)
    /\ (0 < M -> Z.of_nat (length r) <= M).
Proof. exact merge_pipeline_ok. Qed.
Print Assumptions C14_merge_ranges_cover.

(* The in-memory subranges reader returns exactly obj[ro, ro+rem). *)
Theorem C14_reader_eq : forall obj Sz, 0 < Sz -> forall h ks ke,
  (forall k, ks <= k < ke -> hget h (k * Sz) = Some (sub_of obj Sz (k * Sz))) -> 0 <= ks ->
  forall fuel ro rem acc,
  ks * Sz <= ro -> 0 <= rem -> ro + rem <= blen obj -> ro + rem <= ke * Sz ->
  ke - Z.quot ro Sz < Z.of_nat fuel ->
  read_loop fuel Sz h ro rem acc = RBytes (acc ++ slice obj ro (ro + rem)).
Proof. exact read_loop_ok. Qed.
Print Assumptions C14_reader_eq.

(* Get / Exists / Attributes / Iter / GetRange: one operation on a truthful cache answers
   like the underlying bucket and leaves the cache truthful. *)
Theorem C14_get_exists_attr_iter_eq : forall g w listing c o hits,
  0 < c_S g -> valid_op o -> cache_ok w listing c ->
  res_of (step g w c o hits (op_truth listing o)) = reference w o (op_truth listing o)
  /\ cache_ok w listing (snd (step g w c o hits (op_truth listing o))).
Proof. exact step_ok. Qed.
Print Assumptions C14_get_exists_attr_iter_eq.

(* getReader (the reader returned by Get), consumed to EOF in reads of any chunk size > 0,
   for every object and every MaxCacheableSize >= 0: the content key is written exactly when
   the whole object fits, and then with the WHOLE object (never a prefix); without any
   assumption on the limit, what is written is either nothing or the whole object. *)
Theorem C14_get_reader_stores_whole : forall chunk maxsize, 0 < chunk ->
  forall fuel rest b, (length rest < fuel)%nat -> blen b <= maxsize ->
  get_reader fuel rest chunk maxsize (Some b)
  = (if blen b + blen rest <=? maxsize then Some (b ++ rest) else None).
Proof. exact get_reader_ok. Qed.
Print Assumptions C14_get_reader_stores_whole.

Theorem C14_get_reader_never_prefix : forall chunk maxsize, 0 < chunk ->
  forall fuel rest b, (length rest < fuel)%nat ->
  get_reader fuel rest chunk maxsize (Some b) = None
  \/ get_reader fuel rest chunk maxsize (Some b) = Some (b ++ rest).
Proof. exact get_reader_whole. Qed.
Print Assumptions C14_get_reader_never_prefix.

(* Faulty bucket: the body of every underlying read of an operation may end after any number
   of bytes [cut] (short read, then EOF). A fetch whose body is shorter than its buffer fails
   and stores nothing; a fetch that succeeds is the healthy fetch; so a GetRange over the
   faulty bucket answers the underlying object's bytes or an ERROR - never other bytes - and
   the cache stays truthful, whatever was cached before and whatever the cache loses. *)
Theorem C14_short_fetch_fails : forall cut obj S lastOff lastLen known ms me h st,
  blen (cut_body cut (under_get_range obj ms (me - ms)))
  < (if buf_full_cond lastOff me then buf_size_full ms me else buf_size_last ms me S lastLen) ->
  fetch_one_f cut obj S lastOff lastLen known (ms, me) h st = None.
Proof. exact fetch_one_f_short. Qed.
Print Assumptions C14_short_fetch_fails.

Theorem C14_faulty_get_range : forall cut g w listing c hits name off len,
  0 <= cut -> 0 < c_S g -> 0 <= off -> 0 < len -> cache_ok w listing c ->
  (fst (fst (fst (get_range_f cut g w c hits name off len))) = reference w (OGetRange name off len) []
   \/ fst (fst (fst (get_range_f cut g w c hits name off len))) = RErr)
  /\ cache_ok w listing (snd (get_range_f cut g w c hits name off len)).
Proof. exact get_range_f_ok. Qed.
Print Assumptions C14_faulty_get_range.

(* Histories: any sequence of reads, each with its own arbitrary loss pattern, starting
   from any truthful cache (in particular the empty one): every answer equals the
   underlying bucket's. *)
Theorem C14_history : forall g w listing, 0 < c_S g ->
  forall ops c, cache_ok w listing c -> Forall (fun p => valid_op (fst p)) ops ->
  run g w listing c ops = map (fun p => reference w (fst p) (op_truth listing (fst p))) ops.
Proof. exact history_ok. Qed.
Print Assumptions C14_history.

(* Connection with the check: the case built from the model's own outputs on any valid
   history passes corr_ok's history part and pred_ok's predicate. *)
Theorem C14_case_pred : forall g w listing, 0 < c_S g ->
  forall ops c, cache_ok w listing c -> Forall (fun p => valid_op (fst p)) ops ->
  run_corr g w c (mk_obs g w listing c ops) = true
  /\ forallb (fun x : obs =>
                let '(o, _, truth, impl, under, _, _) := x in
                result_eqb impl under && result_eqb (reference w o truth) under) (mk_obs g w listing c ops) = true.
Proof. exact case_ok. Qed.
Print Assumptions C14_case_pred.

(* Non-vacuity: a 12-byte object, subrange size 1, at most one sub-request; the middle
   is cached by the first read, the second read misses the first and the last byte and
   needs four doublings of the merge limit; a read past the end; a lossy third read. *)
Definition ex_g : cfg := {| c_S := 1; c_M := 1; c_maxsize := 0 |}.
Definition ex_w : world := [(0%N, [10; 11; 12; 13; 14; 15; 16; 17; 18; 19; 20; 21]%N)].
Definition ex_hits : list key := map (fun i => KSub 0 (Z.of_nat i) (Z.of_nat i + 1)) (seq 1 10) ++ [KAttr 0].
Definition ex_ops : list (op * list key) :=
  [(OGetRange 0 1 10, []); (OGetRange 0 0 12, ex_hits); (OGetRange 0 30 5, ex_hits); (OGetRange 0 3 100, [KSub 0 5 6])].
Example C14_nonvacuous :
  run ex_g ex_w (fun _ _ => []) [] ex_ops
  = [RBytes [11; 12; 13; 14; 15; 16; 17; 18; 19; 20]%N;
     RBytes [10; 11; 12; 13; 14; 15; 16; 17; 18; 19; 20; 21]%N;
     RBytes [];
     RBytes [13; 14; 15; 16; 17; 18; 19; 20; 21]%N]
  /\ snd (fst (fst (step ex_g ex_w (snd (step ex_g ex_w [] (OGetRange 0 1 10) [] [])) (OGetRange 0 0 12) ex_hits []))) = [(0, 12)]
  /\ cache_ok ex_w (fun _ _ => []) [] /\ 0 < c_S ex_g
  /\ Forall (fun p => valid_op (fst p)) ex_ops.
Proof.
  split; [vm_compute; reflexivity|]. split; [vm_compute; reflexivity|].
  split; [apply cache_ok_nil|]. split; [reflexivity|].
  repeat constructor; simpl; try discriminate.
Qed.

(* a 12-byte object, limit 5, read 4 bytes at a time: nothing is stored; limit 12: the whole object *)
Example C14_get_reader_nonvacuous :
  get_reader 13 [10; 11; 12; 13; 14; 15; 16; 17; 18; 19; 20; 21]%N 4 5 (Some []) = None
  /\ get_reader 13 [10; 11; 12; 13; 14; 15; 16; 17; 18; 19; 20; 21]%N 4 12 (Some [])
     = Some [10; 11; 12; 13; 14; 15; 16; 17; 18; 19; 20; 21]%N
  /\ res_of (step {| c_S := 4; c_M := 0; c_maxsize := 5 |} ex_w [] (OGet 0 4) [] []) = reference ex_w (OGet 0 4) [].
Proof. repeat split; vm_compute; reflexivity. Qed.

(* body cut after 5 of 12 requested bytes: an error and no subrange is stored; cut at 100: healthy *)
Example C14_faulty_nonvacuous :
  fst (fst (fst (get_range_f 5 ex_g ex_w [] [] 0 0 12))) = RErr
  /\ snd (get_range_f 5 ex_g ex_w [] [] 0 0 12) = [(KAttr 0, VSize 12)]
  /\ get_range_f 100 ex_g ex_w [] [] 0 0 12 = get_range ex_g ex_w [] [] 0 0 12.
Proof. repeat split; vm_compute; reflexivity. Qed.
