(* C22 — An acknowledged remote write reached quorum for every series.
   Property theorems only. [fanout n q ft rs] models fanoutForward's response
   loop (counters, canReturnEarly, channel close) for n series, success
   threshold q, failure threshold ft and the replica responses rs IN ARRIVAL
   ORDER (each response names the series of one (node, replica) write).
   [successes_of s rs] = replicas that stored series s; [responses_of s rs] =
   responses that concern s. Hypothesis made explicit everywhere: every series
   gets exactly nrep responses before the channel closes (sendWrites' contract)
   and q + ft = nrep + 1 (proved of the handler's own thresholds below).
   writeQuorum, the failureThreshold expression and the shape of the loop's
   decisions come from Gen/C22.v, regenerated from handler.go on every run. *)
From Coq Require Import ZArith List Bool String.
Import ListNotations.
From Verif Require Import Lib.Corr Gen.C22 Model.C22 Proofs.C22 Proofs.C22_dist Proofs.C22_send Proofs.C22_timeout.
Open Scope Z_scope.

(* canReturnEarly and the decisions of fanoutForward's response loop still have
   the shape the hand model was written from. *)
Theorem C22_source_shape : shape_ok = true.
Proof. exact shape_holds. Qed.
Print Assumptions C22_source_shape.

(* Acknowledged <-> every series was stored by at least q replicas; for any
   number of series spread over any nodes, any outcome per (node, replica) and
   ANY arrival order. *)
Theorem C22_ack_iff_quorum : forall n nrep q ft rs, q + ft = nrep + 1 ->
  (forall s, (s < n)%nat -> responses_of s rs = nrep) ->
  (fanout n q ft rs = Some Ack <-> forall s, (s < n)%nat -> successes_of s rs >= q).
Proof.
  intros n nrep q ft rs H1 H2. rewrite <- quorum_everywhere_spec. exact (fanout_ack_iff_quorum n nrep q ft rs H1 H2).
Qed.
Print Assumptions C22_ack_iff_quorum.

(* ... and the acknowledgement is never early: it is issued after a consumed
   prefix of the responses in which every series already has q successes. *)
Theorem C22_ack_implies_quorum_in_consumed_prefix : forall n nrep q ft rs, q + ft = nrep + 1 ->
  (forall s, (s < n)%nat -> responses_of s rs = nrep) ->
  fanout n q ft rs = Some Ack ->
  exists k, (k <= List.length rs)%nat /\ quorum_everywhere n q (firstn k rs) = true.
Proof. exact fanout_ack_after_quorum. Qed.
Print Assumptions C22_ack_implies_quorum_in_consumed_prefix.

(* If some series cannot reach quorum with all responses in, the request fails. *)
Theorem C22_no_quorum_fails : forall n nrep q ft rs s, q + ft = nrep + 1 ->
  (forall s, (s < n)%nat -> responses_of s rs = nrep) ->
  (s < n)%nat -> successes_of s rs < q -> fanout n q ft rs = Some Fail.
Proof. exact fanout_no_quorum_fails. Qed.
Print Assumptions C22_no_quorum_fails.

(* Whether the request is acknowledged does not depend on the arrival order. *)
Theorem C22_order_independent_ack : forall n nrep q ft rs rs', q + ft = nrep + 1 ->
  (forall s, (s < n)%nat -> responses_of s rs = nrep) -> Permutation.Permutation rs rs' ->
  fanout n q ft rs = fanout n q ft rs'.
Proof. exact fanout_order_independent. Qed.
Print Assumptions C22_order_independent_ack.

(* The handler's thresholds: for a fresh request q = writeQuorum rf of rf
   replicas (a majority unless rf = 2), for an already replicated request
   q = 1 of the 1 addressed replica; in both cases q + ft = nrep + 1. *)
Theorem C22_thresholds : forall rf rep, 1 <= rf -> 0 <= rep ->
  let q := success_threshold rf rep in let nrep := n_replicas rf rep in
  1 <= q <= nrep /\ q + failureThreshold_expr nrep q = nrep + 1.
Proof. exact handler_thresholds. Qed.
Print Assumptions C22_thresholds.

Theorem C22_quorum_is_majority : forall rf, 1 <= rf -> rf <> 2 -> 2 * writeQuorum rf > rf.
Proof. exact writeQuorum_majority. Qed.
Print Assumptions C22_quorum_is_majority.

(* Whole request (replica header, distribution of series to writes) and the
   predicate the check evaluates on the real handler: an acknowledged request
   has quorum everywhere, already in the responses delivered by the time the
   handler returned (any delivered count from the consumed prefix on); a failed
   one lacks quorum for some series. C22_replicated_single is the instance
   rep <> 0 (threshold 1 on the addressed replica). *)
Theorem C22_request_pred : forall rf rep place ws, 1 <= rf -> 0 <= rep ->
  (forall s, (s < List.length place)%nat -> responses_of s (resps_of place ws) = n_replicas rf rep) ->
  exists o, handle rf rep place ws = Some o
    /\ (o = OAck -> rep <= rf ->
        quorum_everywhere (List.length place) (success_threshold rf rep) (resps_of place ws) = true
        /\ exists k, (k <= List.length ws)%nat /\ forall d hg obs obsr, (k <= d)%nat ->
             pred_ok (CAck rf rep place ws hg obs obsr 200 d) = true)
    /\ (o = OFail -> quorum_everywhere (List.length place) (success_threshold rf rep) (resps_of place ws) = false).
Proof. exact handle_pred. Qed.
Print Assumptions C22_request_pred.

(* ---- the forward timeout ----
   [loop_ev] is the response loop with the ctx.Done event (forward timeout or
   cancellation) as an input at any position; peers that never answer
   contribute no response, so with hung peers the events end with ECtxDone.
   A loop whose next event is ctx.Done returns ctx.Err() — never an Ack —
   whatever was received before: *)
Theorem C22_timeout_never_acks : forall q ft st tail, loop_ev q ft st (ECtxDone :: tail) = EvTimedOut.
Proof. exact ctx_done_times_out. Qed.
Print Assumptions C22_timeout_never_acks.

(* Without that event the loop is the one of the theorems above. *)
Theorem C22_loop_without_timeout : forall q ft rs st, loop_ev q ft st (map EResp rs) = ev_of (loop q ft st rs).
Proof. exact loop_ev_no_ctx. Qed.
Print Assumptions C22_loop_without_timeout.

(* With hung peers (any number, any position, no assumption on how many
   responses arrive) an acknowledgement can only come from the early return:
   after a consumed prefix in which every series is decided and has its quorum. *)
Theorem C22_hung_peers_ack_only_after_quorum : forall q ft n rs tail,
  loop_ev q ft (repeat sst0 n) (map EResp rs ++ ECtxDone :: tail) = EvAck ->
  exists k, (1 <= k <= List.length rs)%nat
    /\ can_return_early q ft (reach n (firstn k rs)) = true
    /\ quorum_everywhere n q (firstn k rs) = true.
Proof. exact loop_ev_hang_ack. Qed.
Print Assumptions C22_hung_peers_ack_only_after_quorum.

Theorem C22_hung_peers_without_quorum_not_acked : forall q ft n rs tail s, (s < n)%nat -> successes_of s rs < q ->
  loop_ev q ft (repeat sst0 n) (map EResp rs ++ ECtxDone :: tail) <> EvAck.
Proof. exact hang_without_quorum_not_ack. Qed.
Print Assumptions C22_hung_peers_without_quorum_not_acked.

(* Whole request with hung peers and the predicate of the check; without hung
   peers handle_ev is handle. *)
Theorem C22_request_pred_hung_peers : forall rf rep place ws, 1 <= rf -> 0 <= rep ->
  exists o, handle_ev rf rep place ws true = Some o
    /\ (o = OAck -> rep <= rf ->
        exists k, (k <= List.length ws)%nat /\ forall d hg obs obsr, (k <= d)%nat ->
          pred_ok (CAck rf rep place ws hg obs obsr 200 d) = true).
Proof. exact handle_ev_hang_pred. Qed.
Print Assumptions C22_request_pred_hung_peers.

Theorem C22_request_without_hung_peers : forall rf rep place ws, handle_ev rf rep place ws false = handle rf rep place ws.
Proof. exact handle_ev_no_hang. Qed.
Print Assumptions C22_request_without_hung_peers.

(* ---- where the responses come from ----
   distributeTimeseriesToReplicas: the groups have distinct (node, replica)
   keys, the keys are exactly the placements of the series on the request's
   replicas, and every group carries, in request order, the series the hashring
   places there. *)
Theorem C22_distribution : forall place replicas, NoDup replicas ->
  NoDup (keys (distribute place replicas))
  /\ (forall d, In d (keys (distribute place replicas)) <->
        exists s r, (s < List.length place)%nat /\ In r replicas /\ d = (placed place s r, r))
  /\ (forall node r, In (node, r) (keys (distribute place replicas)) ->
        group_ids (distribute place replicas) (node, r) = Some (ids_of place node r)).
Proof.
  intros place replicas H. split; [apply distribute_keys_nodup|]. split; [apply distribute_keys_in|].
  intros node r. apply distribute_group_ids. exact H.
Qed.
Print Assumptions C22_distribution.

(* The order of the bookkeeping calls (wg.Add / wg.Done / response sends / pool
   submission / wg.Wait / close) in sendWrites, tryWrite, sendWrite,
   prepareRemoteWrite, buildWork, RemoteWriteAsync, TryRemoteWriteAsync and the
   sender goroutine of fanoutForward is the modelled one. *)
Theorem C22_send_protocol_shape : send_shape_ok = true.
Proof. exact send_shape_holds. Qed.
Print Assumptions C22_send_protocol_shape.

(* Every interleaving of the sender (first non-blocking pass with connection
   errors / accepted / rejected submissions, second blocking pass, wg.Wait,
   close) with the pool workers (response, then completion callback): the
   WaitGroup counter never goes negative, nothing is sent on the closed
   channel, the channel never holds more than one response per destination
   (its capacity), and when it is closed it holds exactly one response per
   destination. *)
Theorem C22_exactly_one_response_per_write : forall D ls s, srun (sinit D) ls = Some s ->
  sbad s = false /\ 0 <= swg s
  /\ (List.length (schan s) <= List.length D)%nat
  /\ (sph s = PClosed -> Permutation.Permutation (schan s) D).
Proof. exact sender_safe. Qed.
Print Assumptions C22_exactly_one_response_per_write.

Theorem C22_sender_can_complete : forall D, exists ls s, srun (sinit D) ls = Some s /\ sph s = PClosed.
Proof. exact closing_run_exists. Qed.
Print Assumptions C22_sender_can_complete.

(* Hence the hypothesis of the theorems above is a consequence of the model:
   responses that are the channel content of a complete sender run over the
   distribution's groups give every series one response per replica ... *)
Theorem C22_one_response_per_replica : forall rf rep place ws ls s, 0 <= rf ->
  srun (sinit (keys (distribute place (replicas_of rf rep)))) ls = Some s ->
  sph s = PClosed -> schan s = map write_dest ws ->
  forall x, (x < List.length place)%nat -> responses_of x (resps_of place ws) = n_replicas rf rep.
Proof. exact sender_gives_one_response_per_replica. Qed.
Print Assumptions C22_one_response_per_replica.

(* ... and the whole-request theorem holds without that hypothesis. *)
Theorem C22_request_pred_from_sender : forall rf rep place ws ls s, 1 <= rf -> 0 <= rep ->
  srun (sinit (keys (distribute place (replicas_of rf rep)))) ls = Some s ->
  sph s = PClosed -> schan s = map write_dest ws ->
  exists o, handle rf rep place ws = Some o
    /\ (o = OAck -> rep <= rf ->
        quorum_everywhere (List.length place) (success_threshold rf rep) (resps_of place ws) = true
        /\ exists k, (k <= List.length ws)%nat /\ forall d hg obs obsr, (k <= d)%nat ->
             pred_ok (CAck rf rep place ws hg obs obsr 200 d) = true)
    /\ (o = OFail -> quorum_everywhere (List.length place) (success_threshold rf rep) (resps_of place ws) = false).
Proof. exact handle_pred_sender. Qed.
Print Assumptions C22_request_pred_from_sender.

(* Non-vacuity: rf 3 (q 2), two series on 4 nodes; series 1 is stored once only -> fails;
   with its second replica succeeding -> acknowledged, and each series got 3 responses. *)
Example C22_nonvacuous :
  let place := [[0;1;2];[1;2;3]]%nat in
  handle 3 0 place [(0,0,KOk);(1,0,KOk);(1,1,KConflict);(2,1,KUnavailGrpc);(2,2,KOk);(3,2,KOther)]%nat = Some OFail
  /\ handle 3 0 place [(0,0,KOk);(1,0,KOk);(1,1,KConflict);(2,1,KOk);(2,2,KOk);(3,2,KOther)]%nat = Some OAck
  /\ responses_of 1%nat (resps_of place [(0,0,KOk);(1,0,KOk);(1,1,KConflict);(2,1,KOk);(2,2,KOk);(3,2,KOther)]%nat) = 3
  /\ distribute place (replicas_of 3 0) = [((0,0),[0]); ((1,1),[0]); ((2,2),[0]); ((1,0),[1]); ((2,1),[1]); ((3,2),[1])]%nat
  /\ option_map schan (srun (sinit [(0,0);(1,1);(2,2)]%nat)
        [S1Accept; S1Reject; S1ConnFail; S1End; SWorkSend (0,0)%nat; S2Accept; S2End; SWorkSend (1,1)%nat; SWorkDone (1,1)%nat; SWorkDone (0,0)%nat; SClose])
      = Some [(2,2);(0,0);(1,1)]%nat
  /\ handle_ev 3 0 [[0;1;2]]%nat [(0,0,KOk)]%nat true = Some OFail
  /\ handle_ev 3 0 [[0;1;2]]%nat [(0,0,KOk);(2,2,KOk)]%nat true = Some OAck.
Proof. vm_compute. repeat split; reflexivity. Qed.
