(* C35 — The shipper uploads every eligible block completely, at least once.
   Property theorems only. [sync] (Model/C35.v) is Shipper.Sync: it is defined
   only if the control skeleton of Shipper.Sync, the calls of Shipper.upload and
   the order of the bucket mutations of block.upload regenerated from the source
   (Gen/C35.v) are the ones the model was written against; the order of the
   uploads inside one block is computed from that list.

   Vocabulary:
     state          (bucket, content of thanos.shipper.json or None)
     cfg            one Sync call: block directories present, the external labels CURRENT AT THAT
                    SYNC (c_lbl: the value the owner's label callback returns when Shipper.upload
                    calls it; Gen/C35.v pins that New stores the callback itself in Shipper.labels
                    and that upload reads `s.labels()`; the harness keeps one Shipper object alive
                    over several syncs while the callback's value changes), upload-compacted,
                    allow-out-of-order, external labels, ONE fault (crash before
                    bucket operation k / operation k fails once; Exists calls count;
                    k = number of operations: death before the meta file is written)
                    further: skipCorruptedBlocks and the block directories whose local meta.json
                    is unreadable; upload concurrency > 1 with, per uploaded block, the order in
                    which its chunk files went out (ANY permutation: all theorems quantify over
                    every cfg, hence over every interleaving of the chunk uploads of a block
                    before its index and meta.json)
     eligible c i   non-empty block of level 1, or any level with upload-compacted
                    (a compacted block that overlaps a block already in the bucket, or a bucket
                    that holds a partial upload, makes such a Sync return an error: the
                    overlap check of lazyOverlapChecker is part of the model)
     published U b id   meta.json of id is in b with the block's file list and every
                    listed file is in b with its size
     good U st      the bucket satisfies the block invariant (C28) and every block
                    recorded in the meta file is visible in the bucket *)
From Coq Require Import ZArith NArith List Bool.
Import ListNotations.
From Verif Require Import Lib.Corr Lib.Crash_Store Lib.Crash_Block Lib.Crash_BlockFacts Lib.Crash_BlockProgs.
From Verif Require Import Gen.C35 Model.C35 Proofs.C35 Proofs.C35_wedge.

(* One Sync from any good state, with any fault: every bucket state it passes
   through satisfies the block invariant (so C28 holds at each of its crash
   points); if it returns nil, every eligible local block is published; every
   meta.json it uploads carries the external labels current at THIS sync (not those of an
   earlier sync or of the construction of the Shipper); the state stays good. *)
Theorem C35_sync_complete : forall U L c st res,
  wf_univ U -> good U st -> sync U L c (snd st) (fst st) = Some res ->
  (forall b', In b' (bstates (fst st) (r_ops res)) -> binv U b')
  /\ (r_ret res = true -> forall id i, In id (c_present c) -> linfo_of L id = Some i -> eligible c i = true ->
        published U (bapply_ops (fst st) (r_ops res)) id)
  /\ (forall id cid files lbl, In (Up (id, FMeta) (MetaO cid files lbl)) (r_ops res) -> c_lbl c = Some lbl)
  /\ good U (sync_state st res).
Proof. exact sync_complete. Qed.
Print Assumptions C35_sync_complete.

(* ANY history of syncs from the empty bucket - each with fresh Shipper, any
   settings, any set of local blocks, any crash point or failing operation -
   followed by one sync that returns nil: every eligible local block is published. *)
Theorem C35_crash_then_sync : forall U L cs c st res,
  wf_univ_b U = true ->
  after_syncs U L ([], None) cs = Some st ->
  sync U L c (snd st) (fst st) = Some res -> r_ret res = true ->
  forall id i, In id (c_present c) -> linfo_of L id = Some i -> eligible c i = true ->
    published U (bapply_ops (fst st) (r_ops res)) id.
Proof. exact crash_then_sync. Qed.
Print Assumptions C35_crash_then_sync.

(* After any such history, every id written to thanos.shipper.json is published
   in the bucket (seen there by Exists, or uploaded completely by this shipper). *)
Theorem C35_uploaded_sound : forall U L cs st,
  wf_univ_b U = true -> after_syncs U L ([], None) cs = Some st ->
  forall id, In id (mf_list (snd st)) -> published U (fst st) id.
Proof. exact uploaded_sound. Qed.
Print Assumptions C35_uploaded_sound.

(* Property C28 for shipper uploads: after any history of syncs, at EVERY crash point k of
   the next sync (whatever its fault), a block whose meta.json is in the bucket has every
   file that meta.json lists, with the recorded size. *)
Theorem C35_every_crash_point_visible_complete : forall U L cs c st res,
  wf_univ_b U = true -> after_syncs U L ([], None) cs = Some st ->
  sync U L c (snd st) (fst st) = Some res ->
  forall k, visible_complete (bapply_ops (fst st) (firstn k (r_ops res))).
Proof. exact sync_visible_complete. Qed.
Print Assumptions C35_every_crash_point_visible_complete.

(* The property is not vacuous after a crash: after ANY history of syncs (any crash points,
   any failing operations) an undisturbed sync with external labels RETURNS NIL - hence, by
   C35_crash_then_sync, has published every eligible block - when no two local blocks overlap
   in time (an overlap in the bucket is the one legitimate reason for refusing a compacted
   block). This holds for the FIXED lazyOverlapChecker (repo_patches/C35-fix.patch): before
   the fix a block directory without meta.json - what a sync that died in the middle of an
   upload leaves behind - made the overlap check, and with it every later Sync that had a
   compacted block to ship, fail for ever (witness: corpus/C35/wedge-own-partial-upload.json:
   one compacted block, upload-compacted on, first sync dies after 3 bucket operations). *)
Theorem C35_sync_can_succeed_after_crash : forall U L cs c st res lbl,
  wf_univ_b U = true -> ranges_disjoint_b L = true ->
  after_syncs U L ([], None) cs = Some st ->
  c_fault c = NoFault -> c_lbl c = Some lbl -> c_corrupt c = [] ->
  sync U L c (snd st) (fst st) = Some res -> r_ret res = true.
Proof. exact sync_can_succeed_after_crash. Qed.
Print Assumptions C35_sync_can_succeed_after_crash.

(* ... and on the case: the no-wedge clause of pred_ok (a sync without fault that returns an
   error must have a compacted block blocked by an overlap in the bucket) follows from
   corr_ok when no two local blocks overlap. pred_ok = pred_core && wedge_all. *)
Theorem C35_accepted_case_not_wedged : forall c,
  corr_ok c = true -> match c with CSync _ L _ => ranges_disjoint_b L = true end -> wedge_all c = true.
Proof. exact not_wedged_case. Qed.
Print Assumptions C35_accepted_case_not_wedged.

(* Link to the check: a case carries what the real Shipper did in every sync
   (mutating operations, bucket listing after each, returned nil?, meta file
   afterwards). If the model reproduces it, the predicate evaluated on those
   observables holds. *)
Theorem C35_accepted_case_satisfies_property : forall c, corr_ok c = true -> pred_core c = true.
Proof. exact corr_implies_pred. Qed.
Print Assumptions C35_accepted_case_satisfies_property.

Theorem C35_model_run_is_accepted : forall U L cs steps,
  wf_univ_b U = true -> model_steps U L ([], None) cs = Some steps ->
  corr_ok (CSync U L steps) = true /\ pred_core (CSync U L steps) = true.
Proof. exact model_case_ok. Qed.
Print Assumptions C35_model_run_is_accepted.

(* ---- non-vacuity: three local blocks (level 1, level 2, empty); a sync that
   dies in the middle of the first upload, one whose index upload fails (out of
   order allowed: goes on with the next block, returns an error), one that dies
   before the meta file is written, and an undisturbed one that returns nil. ---- *)
Definition ex_U : univ :=
  [(0%N, mkblk [(1%N, 20%Z); (2%N, 16%Z)] 35%Z 0%N); (1%N, mkblk [(1%N, 5%Z)] 7%Z 0%N); (2%N, mkblk [(1%N, 1%Z)] 2%Z 0%N)].
Definition ex_L : locals :=
  [(0%N, mklinfo true 1 2000 3000); (1%N, mklinfo true 2 1000 2000); (2%N, mklinfo false 1 0 1000)].
Definition ex_cs : list cfg :=
  [mkcfg [0; 1; 2]%N true true (Some 1%N) (CrashAt 2) [] false [] false [];
   mkcfg [0; 1; 2]%N true true (Some 1%N) (FailAt 2) [7%N] false [] false [];
   mkcfg [0; 1; 2]%N true true (Some 1%N) (CrashAt 4) [8%N] false [] true [[1%N]]].
Definition ex_last : cfg := mkcfg [2; 1; 0]%N true true (Some 1%N) NoFault [] false [] false [].

Example C35_nonvacuous :
  wf_univ_b ex_U = true
  /\ upload_phases = Some [PChunks; PIndex; PMeta]
  /\ exists st res,
       after_syncs ex_U ex_L ([], None) ex_cs = Some st
       /\ snd st = Some [0%N] /\ length (fst st) = 7%nat
       /\ sync ex_U ex_L ex_last (snd st) (fst st) = Some res
       /\ r_ret res = true /\ r_meta res = Some [1; 0]%N /\ r_ops res = []
       /\ eligible ex_last (mklinfo true 2 1000 2000) = true.
Proof.
  split; [vm_compute; reflexivity|]. split; [vm_compute; reflexivity|].
  eexists. eexists. split; [vm_compute; reflexivity|]. vm_compute. repeat split; reflexivity.
Qed.
