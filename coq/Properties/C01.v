(* C01 — Penalty replica deduplication yields a well-formed merge of replica samples.
   Property theorems only; each is closed by [exact] of a lemma of Proofs/C01.v
   (which rests on Lib/Dedup_Refine.v and Lib/Dedup_SpecFacts.v).
   [dedup_iter f r] is the model of dedup.NewSeriesSet(set, "", "penalty").At().Iterator(nil)
   for the replicas f :: r of one series (pkg/dedup/iter.go with the repaired Seek),
   [drain] iterates it with Next to exhaustion, [run_prog] runs a reader program of
   Next / Seek calls. The penalty constant and formulas are regenerated from the Go
   source into Gen/C01.v on every run. All theorems hold for every number of replicas
   and every sample list; int64 overflow and native histograms are not modelled. *)
From Coq Require Import ZArith List Bool Sorted.
Import ListNotations.
From Verif Require Import Lib.Corr Lib.Dedup_Iter Lib.Dedup_SpecFacts Gen.C01 Model.C01 Proofs.C01.
Open Scope Z_scope.

(* The facts about the source that the model relies on: Seek first takes a
   sample with Next when nothing was returned yet, and the order / right-hand
   sides of the useA and penalty assignments in Next. *)
Theorem C01_source_shape : seek_shape_ok = true /\ next_shape_ok = true.
Proof. exact source_shape. Qed.
Print Assumptions C01_source_shape.

(* Iterating never runs out of fuel and yields the fold of the pairwise penalty
   merge [pmerge] over the replicas (the functional specification). *)
Theorem C01_drain_is_penalty_merge : forall f r,
  drain (dedup_iter f r) = Some (pmerge_all cfg f r).
Proof. exact drain_pmerge. Qed.
Print Assumptions C01_drain_is_penalty_merge.

(* Strictly increasing timestamps: with two or more replicas for ANY sample
   lists, with one replica when that replica is strictly increasing. *)
Theorem C01_strictly_increasing : forall f r,
  r <> [] \/ strict_incr f = true ->
  exists out, drain (dedup_iter f r) = Some out /\ Sorted Z.lt (map ts out).
Proof. exact strictly_increasing. Qed.
Print Assumptions C01_strictly_increasing.

(* Every sample yielded is a sample (timestamp and value) that one of the replicas holds. *)
Theorem C01_provenance : forall f r out,
  drain (dedup_iter f r) = Some out ->
  forall s, In s out -> exists l, In l (f :: r) /\ In s l.
Proof. exact provenance. Qed.
Print Assumptions C01_provenance.

(* A single replica comes out unchanged. *)
Theorem C01_single_identity : forall f, drain (dedup_iter f []) = Some f.
Proof. exact single_identity. Qed.
Print Assumptions C01_single_identity.

(* Any number of identical replicas (strictly increasing timestamps) come out unchanged. *)
Theorem C01_identical_identity : forall f n,
  strict_incr f = true -> drain (dedup_iter f (repeat f n)) = Some f.
Proof. exact identical_identity. Qed.
Print Assumptions C01_identical_identity.

(* Every reader program of Next / Seek calls (no Seek after exhaustion) sees
   exactly what the same program sees on a plain list iterator over the fully
   iterated series [out]. *)
Theorem C01_reader_is_list_reader : forall f r ops out,
  drain (dedup_iter f r) = Some out -> proto_ok false None out ops = true ->
  run_prog (dedup_iter f r) ops = spec_run None out ops.
Proof. exact reader_is_list_reader. Qed.
Print Assumptions C01_reader_is_list_reader.

(* In particular a reader that first seeks to t and then iterates sees exactly
   the suffix of [out] from the first sample at or after t (for strictly
   increasing [out]: the samples with timestamp >= t), then exhaustion. *)
Theorem C01_seek_suffix : forall f r t n out,
  drain (dedup_iter f r) = Some out ->
  run_prog (dedup_iter f r) (OSeek t :: repeat ONext n) = take_obs (S n) (drop_lt t out)
  /\ (strict_incr out = true -> drop_lt t out = filter (fun s => t <=? ts s) out).
Proof. exact seek_suffix. Qed.
Print Assumptions C01_seek_suffix.

(* The boolean predicate that the check evaluates on the implementation's own
   observables holds of the model's output, for all replicas and reader programs;
   so wherever corr_ok holds (model = implementation) the implementation satisfies it. *)
Theorem C01_pred : forall f r ops,
  exists full reader,
    drain (dedup_iter f r) = Some full /\ run_prog (dedup_iter f r) ops = reader /\
    corr_ok (Case (f :: r) ops full reader) = true /\
    pred_ok (Case (f :: r) ops full reader) = true.
Proof. exact model_pred. Qed.
Print Assumptions C01_pred.

(* Non-vacuity: three replicas with different scrape offsets and a gap; the
   merge switches replicas; a reader seeking first sees the suffix. *)
Example C01_nonvacuous :
  let a := [(10000, 1); (20000, 2); (30000, 3); (60000, 4); (70000, 5)] in
  let b := [(10100, 11); (20100, 12); (30100, 13); (40100, 14); (50100, 15); (60100, 16)] in
  let c := [(5000, 21); (15000, 22)] in
  drain (dedup_iter a [b]) = Some [(10000, 1); (20000, 2); (30000, 3); (50100, 15); (60100, 16)]
  /\ drain (dedup_iter a [b; c]) = Some [(5000, 21); (15000, 22); (50100, 15); (60100, 16)]
  /\ forallb strict_incr [a; b; c] = true
  /\ run_prog (dedup_iter a [b; c]) [OSeek 3000; ONext; ONext] = [Some (5000, 21); Some (15000, 22); Some (50100, 15)]
  /\ run_prog (dedup_iter a [b; c]) [OSeek 20000; ONext] = [Some (50100, 15); Some (60100, 16)]
  /\ proto_ok false None [(5000, 21); (15000, 22); (50100, 15); (60100, 16)] [OSeek 20000; ONext] = true
  /\ drain (dedup_iter a [a; a; a]) = Some a.
Proof. vm_compute. repeat split; reflexivity. Qed.
