From Coq Require Import ZArith List Bool.
From Verif Require Import Lib.Corr Lib.Dedup_Iter Gen.C40 Model.C40.
Theorem C40_source_shape : to_chunk_shape_ok = true.
Proof. vm_compute. reflexivity. Qed.
Print Assumptions C40_source_shape.
