(* C40 — Offline deduplication of downsampled chunks keeps every aggregate sample.
   Property theorems only (proofs: Proofs/C40.v, C40_Chunk.v, C40_Ts.v on top of
   Lib/Dedup_Refine.v). [merge_group base others] is the model of what
   dedup.NewChunkSeriesMerger produces for one group of mutually overlapping
   aggregate chunks (pkg/dedup/chunk_iter.go WITH repo_patches/C40-fix.patch):
   per aggregate the chunks' samples are merged by the penalty iterator, the merged
   count aggregate is re-chunked every seriesToChunkEncoderSplit (Gen/C40.v: 120)
   samples, and for every such chunk toChunk fills the other four aggregates from
   iterators shared between the output chunks. *)
From Coq Require Import ZArith List Bool.
Import ListNotations.
From Verif Require Import Lib.Corr Lib.Dedup_Iter Lib.Dedup_Refine Gen.C40 Model.C40.
From Verif Require Import Proofs.C40_Chunk Proofs.C40.
Open Scope Z_scope.

(* Source facts: the shape of the repaired toChunk (peek instead of consume). *)
Theorem C40_source_shape : to_chunk_shape_ok = true.
Proof. exact source_shape. Qed.
Print Assumptions C40_source_shape.

(* toChunk on a shared iterator that reads the stream R (any contract-satisfying
   iterator, in particular the penalty merge of any number of chunks): it yields
   the samples of R up to maxTime that are not before minTime, and leaves the
   iterator reading the rest of R from the first sample beyond maxTime — no
   sample is consumed without being written. *)
Theorem C40_to_chunk_keeps_lookahead : forall counter st R mint maxt,
  areads st R ->
  exists st', to_chunk counter st mint maxt = (st', chunk_of counter (keep_ge mint (take_le maxt R)))
              /\ areads st' (drop_le maxt R).
Proof. exact to_chunk_spec. Qed.
Print Assumptions C40_to_chunk_keeps_lookahead.

(* The property: for every group of two or more well-formed downsampled chunks
   (all five aggregates at the count aggregate's strictly increasing timestamps,
   the counter with its repeated last timestamp; any lengths, offsets, gaps,
   any number of output chunks) every output chunk has, in sum, min and max, a
   sample at exactly the timestamps of its count aggregate, and in counter those
   plus the repeated last one. *)
Theorem C40_every_timestamp : forall base o1 others,
  well_formed base -> well_formed o1 -> Forall well_formed others ->
  exists out, merge_group base (o1 :: others) = Some out /\ forallb ochunk_ok out = true.
Proof. exact every_timestamp. Qed.
Print Assumptions C40_every_timestamp.

(* The same for whole series: all chunks of the series being merged, in the
   order dedupChunksIterator pops them, are split into overlap groups (exact
   copies of the previous chunk are skipped, a chunk that overlaps nothing is
   passed through); every chunk produced is complete. *)
Theorem C40_every_timestamp_series : forall chunks,
  Forall well_formed chunks ->
  exists out, merge_series chunks = Some out /\ forallb ochunk_ok out = true.
Proof. exact every_timestamp_series. Qed.
Print Assumptions C40_every_timestamp_series.

(* Wherever the check finds model = implementation on a case, the predicate it
   evaluates on the implementation's own output follows. *)
Theorem C40_corr_implies_pred : forall c, corr_ok c = true -> pred_ok c = true.
Proof. exact corr_implies_pred. Qed.
Print Assumptions C40_corr_implies_pred.

(* Non-vacuity: two overlapping chunks of 100 and 90 samples (5 min resolution,
   shifted by 2 min) merge into one output chunk; chunks of 130 and 150 samples
   overlapping by 80 merge into two output chunks of 120 and 79 samples; every
   aggregate is complete in each. *)
Definition ex_chunk (start : Z) (n : nat) (v : Z) : achunk :=
  let tl := map (fun k => start + 300000 * Z.of_nat k) (seq 0 n) in
  let mk := fun d => map (fun t => (t, v + d)) tl in
  [Some (mk 0); Some (mk 1); Some (mk 2); Some (mk 3); Some (mk 4 ++ [(last tl 0, v + 5)])].

Example C40_nonvacuous :
  let base := ex_chunk 1600000000000 100 10 in
  let other := ex_chunk 1600000120000 90 20 in
  wf_chunk base = true /\ wf_chunk other = true /\
  match merge_group base [other] with
  | Some out => length out = 1%nat /\ forallb ochunk_ok out = true
  | None => False
  end /\
  match merge_group (ex_chunk 1600000000000 130 10) [ex_chunk 1600015120000 150 20] with
  | Some out => map (fun oc => length (match nth 1 (snd oc) None with Some l => l | None => [] end)) out = [120; 79]%nat
                /\ forallb ochunk_ok out = true
  | None => False
  end /\
  (* a series: a group of two, an exact copy, and a later chunk that overlaps nothing *)
  match merge_series [ex_chunk 1600000000000 130 10; ex_chunk 1600015120000 150 20;
                      ex_chunk 1600015120000 150 20; ex_chunk 1700000000000 7 30] with
  | Some out => length out = 3%nat /\ forallb ochunk_ok out = true
  | None => False
  end.
Proof. vm_compute. repeat split; reflexivity. Qed.
