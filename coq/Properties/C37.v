From Coq Require Import ZArith List Bool.
From Verif Require Import Lib.Corr Model.C37.
