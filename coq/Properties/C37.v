(* C37 — Downsampled counters preserve the raw counter's increase.
   Property theorems only; each is closed by [exact] of a lemma from Proofs/C37.v.
   Model: DownsampleRaw / downsampleFloatBatch / downsampleBatch / floatAggregator.counter
   (Lib/Downsample_Core.v), ApplyCounterResetsSeriesIterator as written (Next with its
   internal Seek(lastT+1) on chunk exhaustion, the "same timestamp = true last value"
   rule, the back-in-time skip; Lib/Downsample_Aggr.v), downsampleAggr for the second
   level, with [currentWindow] regenerated from the Go source (Gen/C37.v).
   [adj vs] = the raw counter adjusted for resets: first value, + (v - last) for every
   increase, + v for every decrease.  [adj_at d t] = adj of the raw non-NaN samples at or
   before t.  valid_counter: resolution > 0, int64 timestamps >= 0 strictly increasing,
   values >= 0; no bound on length, on the number of chunks or on reset positions. *)
From Coq Require Import ZArith List Bool Sorted.
Import ListNotations.
From Verif Require Import Lib.Corr Lib.Downsample_Core Lib.Downsample_Aggr Lib.Downsample_Counter
  Gen.C37 Model.C37 Proofs.C37.
Open Scope Z_scope.

(* Level 1 (5m).  For every raw counter series, every resolution and EVERY value of
   targetChunkCount: DownsampleRaw terminates, reading the counter aggregate of its
   chunks with ApplyCounterResetsSeriesIterator terminates, and every value read is the
   raw counter adjusted for all counter resets up to the last raw sample at or before
   the emitted timestamp — whether the resets fall inside a chunk or between chunks;
   emitted timestamps are strictly increasing and the last value read is the total
   adjusted counter of the series (the raw counter's whole increase is preserved). *)
Theorem C37_level1 : forall res num_chunks data,
  valid_counter res data ->
  exists l1 emitted,
    level1 res num_chunks data = Some l1 /\ read_counter l1 = Some emitted /\
    Forall (fun s => snd s = adj_at (keep_nonnan data) (fst s)) emitted /\
    StronglySorted Z.lt (map fst emitted) /\
    (keep_nonnan data = [] -> emitted = []) /\
    (keep_nonnan data <> [] ->
       emitted <> [] /\ snd (last emitted (0, 0)) = adj (map snd (keep_nonnan data))).
Proof. exact level1_full. Qed.
Print Assumptions C37_level1.

(* The same through the level-1 clause [level_ok] of the boolean predicate that the check
   evaluates on the implementation's own read-out: values = adjusted counter, timestamps
   strictly increasing, last value = total adjusted counter (the whole increase is
   preserved).  pred_ok additionally applies level_ok to the SECOND level (1h) and checks
   Next/Seek programs: those two clauses are tied by execution only — this is the
   "partial" in the property's level. *)
Theorem C37_level1_pred_partial : forall res1 res2 num_chunks data,
  valid_input res1 res2 data = true ->
  exists l1 emitted,
    level1 res1 num_chunks data = Some l1 /\ read_counter l1 = Some emitted /\
    level_ok (keep_nonnan data) emitted = true.
Proof. exact level1_pred. Qed.
Print Assumptions C37_level1_pred_partial.

(* The iterator on ANY sequence of counter chunks of the documented format (first raw
   value, non-decreasing per-window values at strictly increasing timestamps, last
   timestamp repeated with the last raw value), time-ordered: what Next yields until
   ValNone is exactly [expect]: the first chunk's values as they are, every later chunk
   shifted by the adjusted total so far plus the reset-aware step from the previous
   chunk's LAST RAW value to this chunk's FIRST RAW value.  (This is the statement that
   also covers the chunks written by the second level.) *)
Theorem C37_iterator_stitches_chunks : forall qs,
  q_chain None qs -> READ (toks_of (map q_samples qs)) acr0 = Some (expect None qs).
Proof. exact read_chunks. Qed.
Print Assumptions C37_iterator_stitches_chunks.

(* The counter sub-chunk DownsampleRaw writes for a batch has that format, and its
   per-window values are the adjusted counter of the batch's samples through each window. *)
Theorem C37_counter_chunk_format : forall res b, 0 < res -> counter_batch b ->
  q_ok (q_of res b) /\ q_end (q_of res b) = last_t b /\
  k_counter (float_batch cw res b) = Some (q_samples (q_of res b)) /\
  map snd (q_mids (q_of res b)) = map adj (prefixes [] (Lib.Downsample_Batch.batch_windows cw res b)).
Proof. intros res b H. exact (q_of_ok res H b). Qed.
Print Assumptions C37_counter_chunk_format.

(* Non-vacuity: a counter with a reset inside the first chunk and one exactly between
   the two chunks (batch size 3), 10 ms resolution. *)
Example C37_nonvacuous :
  let data := [(0, Some 5); (4, Some 9); (12, Some 2); (15, None); (21, Some 6); (30, Some 1); (47, Some 3)] in
  valid_counter 10 data /\
  exists l1, level1 10 3 data = Some l1 /\ length l1 = 2%nat /\
    read_counter l1 = Some [(0, 5); (9, 9); (12, 11); (21, 15); (29, 15); (39, 16); (47, 18)] /\
    adj (map snd (keep_nonnan data)) = 18.
Proof.
  cbv zeta. split.
  - split; [reflexivity|]. split.
    + cbn [map fst]. repeat (constructor; [|repeat constructor; reflexivity]). constructor.
    + repeat constructor; cbn; try discriminate; exact I.
  - eexists. split; [vm_compute; reflexivity|]. repeat split; vm_compute; reflexivity.
Qed.
