(* C37 — Downsampled counters preserve the raw counter's increase.
   Property theorems only; each is closed by [exact] of a lemma from Proofs/C37.v.
   Model: DownsampleRaw / downsampleFloatBatch / downsampleBatch / floatAggregator.counter
   (Lib/Downsample_Core.v), ApplyCounterResetsSeriesIterator as written (Next with its
   internal Seek(lastT+1) on chunk exhaustion, the "same timestamp = true last value"
   rule, the back-in-time skip; Lib/Downsample_Aggr.v), downsampleAggr for the second
   level, with [currentWindow] regenerated from the Go source (Gen/C37.v).
   [adj vs] = the raw counter adjusted for resets: first value, + (v - last) for every
   increase, + v for every decrease.  [adj_at d t] = adj of the raw non-NaN samples at or
   before t.  valid_counter: resolution > 0, int64 timestamps >= 0 strictly increasing,
   values >= 0; no bound on length, on the number of chunks or on reset positions. *)
From Coq Require Import ZArith List Bool Sorted.
Import ListNotations.
From Verif Require Import Lib.Corr Lib.Downsample_Core Lib.Downsample_Aggr Lib.Downsample_Counter
  Gen.C37 Model.C37 Proofs.C37 Proofs.C37_L2 Proofs.C37_L2v Proofs.C37_prog.
Open Scope Z_scope.

(* Level 1 (5m).  For every raw counter series, every resolution and EVERY value of
   targetChunkCount: DownsampleRaw terminates, reading the counter aggregate of its
   chunks with ApplyCounterResetsSeriesIterator terminates, and every value read is the
   raw counter adjusted for all counter resets up to the last raw sample at or before
   the emitted timestamp — whether the resets fall inside a chunk or between chunks;
   emitted timestamps are strictly increasing and the last value read is the total
   adjusted counter of the series (the raw counter's whole increase is preserved). *)
Theorem C37_level1 : forall res num_chunks data,
  valid_counter res data ->
  exists l1 emitted,
    level1 res num_chunks data = Some l1 /\ read_counter l1 = Some emitted /\
    Forall (fun s => snd s = adj_at (keep_nonnan data) (fst s)) emitted /\
    StronglySorted Z.lt (map fst emitted) /\
    (keep_nonnan data = [] -> emitted = []) /\
    (keep_nonnan data <> [] ->
       emitted <> [] /\ snd (last emitted (0, 0)) = adj (map snd (keep_nonnan data))).
Proof. exact level1_full. Qed.
Print Assumptions C37_level1.

(* The same through the level-1 clause [level_ok] of the boolean predicate that the check
   evaluates on the implementation's own read-out: values = adjusted counter, timestamps
   strictly increasing, last value = total adjusted counter (the whole increase is
   preserved).  pred_ok applies level_ok to both levels (level 2: C37_level2_pred) and
   additionally checks Next/Seek programs (C37_programs); the whole predicate is C37_pred. *)
Theorem C37_level1_pred : forall res1 res2 num_chunks data,
  valid_input res1 res2 data = true ->
  exists l1 emitted,
    level1 res1 num_chunks data = Some l1 /\ read_counter l1 = Some emitted /\
    level_ok (keep_nonnan data) emitted = true.
Proof. exact level1_pred. Qed.
Print Assumptions C37_level1_pred.

(* The iterator on ANY sequence of counter chunks of the documented format (first raw
   value, non-decreasing per-window values at strictly increasing timestamps, last
   timestamp repeated with the last raw value), time-ordered: what Next yields until
   ValNone is exactly [expect]: the first chunk's values as they are, every later chunk
   shifted by the adjusted total so far plus the reset-aware step from the previous
   chunk's LAST RAW value to this chunk's FIRST RAW value.  (This is the statement that
   also covers the chunks written by the second level.) *)
Theorem C37_iterator_stitches_chunks : forall qs,
  q_chain None qs -> READ (toks_of (map q_samples qs)) acr0 = Some (expect None qs).
Proof. exact read_chunks. Qed.
Print Assumptions C37_iterator_stitches_chunks.

(* The counter sub-chunk DownsampleRaw writes for a batch has that format, and its
   per-window values are the adjusted counter of the batch's samples through each window. *)
Theorem C37_counter_chunk_format : forall res b, 0 < res -> counter_batch b ->
  q_ok (q_of res b) /\ q_end (q_of res b) = last_t b /\
  k_counter (float_batch cw res b) = Some (q_samples (q_of res b)) /\
  map snd (q_mids (q_of res b)) = map adj (prefixes [] (Lib.Downsample_Batch.batch_windows cw res b)).
Proof. intros res b H. exact (q_of_ok res H b). Qed.
Print Assumptions C37_counter_chunk_format.

(* Level 2 (1h), structure: for every raw counter series, every pair of
   resolutions and every value of targetChunkCount at both levels: the second-level counter chunks are, per part of consecutive first-level chunks,
   of the documented format [q2_of]: they start with the part's FIRST RAW sample, end with
   the part's LAST RAW value at the part's last timestamp ("a chunk's first and last counter
   values are the true values of the original series ... even across multiple aggregation
   iterations"), have non-decreasing per-window values at strictly increasing timestamps,
   and are time-ordered; hence (C37_iterator_stitches_chunks) reading them yields exactly
   the stitched values [expect].  This holds for ANY pair of resolutions; that the values
   are adj_at needs nesting windows and is C37_level2 below. *)
Theorem C37_level2_structure : forall res1 res2 nc1 nc2 data l1 l2,
  0 < res1 -> 0 < res2 ->
  valid_counter res1 data ->
  level1 res1 nc1 data = Some l1 -> level2 res2 nc2 l1 = Some l2 ->
  exists batches parts,
    l1 = map (float_batch cw res1) batches /\ concat batches = keep_nonnan data /\
    concat parts = batches /\ Forall (fun p : list (list (Z * Z)) => p <> []) parts /\
    present k_counter l2 = map (fun p => q_samples (q2_of res1 res2 p)) parts /\
    q_chain None (map (q2_of res1 res2) parts) /\
    read_counter l2 = Some (expect None (map (q2_of res1 res2) parts)) /\
    Forall counter_batch batches /\ Lib.Downsample_Raw.seps cw res1 batches.
Proof. intros res1 res2 nc1 nc2 data l1 l2 H1 H2. exact (level2_structure res1 res2 H1 H2 nc1 nc2 data l1 l2). Qed.
Print Assumptions C37_level2_structure.

(* Level 2 (1h), values.  When the target resolution is a multiple of the first one
   (5m -> 1h: the 5m windows nest in the 1h windows): reading the counter aggregate after TWO levels of downsampling yields, at every
   emitted timestamp, the raw counter adjusted for all resets up to the last raw sample at
   or before it; timestamps strictly increasing; the last value is the total adjusted
   counter.  For every raw counter series, both resolutions, EVERY targetChunkCount at
   both levels. *)
Theorem C37_level2 : forall res1 k nc1 nc2 data l1 l2,
  0 < res1 -> 0 < k ->
  valid_counter res1 data ->
  level1 res1 nc1 data = Some l1 -> level2 (k * res1) nc2 l1 = Some l2 ->
  exists emitted,
    read_counter l2 = Some emitted /\
    Forall (fun s => snd s = adj_at (keep_nonnan data) (fst s)) emitted /\
    StronglySorted Z.lt (map fst emitted) /\
    (keep_nonnan data = [] -> emitted = []) /\
    (keep_nonnan data <> [] ->
       emitted <> [] /\ snd (last emitted (0, 0)) = adj (map snd (keep_nonnan data))).
Proof. intros res1 k nc1 nc2 data l1 l2 H1 H2. exact (level2_full res1 k H1 H2 nc1 nc2 data l1 l2). Qed.
Print Assumptions C37_level2.

(* ... and through the level-2 clause of the check's boolean predicate. *)
Theorem C37_level2_pred : forall res1 k nc1 nc2 data l1 l2,
  0 < res1 -> 0 < k ->
  valid_input res1 (k * res1) data = true ->
  level1 res1 nc1 data = Some l1 -> level2 (k * res1) nc2 l1 = Some l2 ->
  exists emitted, read_counter l2 = Some emitted /\ level_ok (keep_nonnan data) emitted = true.
Proof. intros res1 k nc1 nc2 data l1 l2 H1 H2. exact (level2_pred res1 k H1 H2 nc1 nc2 data l1 l2). Qed.
Print Assumptions C37_level2_pred.

(* Both levels end to end, through the predicate's clauses: for every valid raw counter,
   resolutions res1 and k*res1, and EVERY targetChunkCount at both levels, both the 5m and
   the 1h pipeline terminate and their read-outs satisfy level_ok (the second level relies on
   C38-fix.patch: batch size max(len/numChunks, 1)). *)
Theorem C37_two_levels : forall res1 k nc1 nc2 data,
  0 < res1 -> 0 < k -> valid_input res1 (k * res1) data = true ->
  exists l1 read1,
    level1 res1 nc1 data = Some l1 /\ read_counter l1 = Some read1 /\
    level_ok (keep_nonnan data) read1 = true /\
    exists l2 read2,
      level2 (k * res1) nc2 l1 = Some l2 /\ read_counter l2 = Some read2 /\
      level_ok (keep_nonnan data) read2 = true.
Proof. exact two_levels. Qed.
Print Assumptions C37_two_levels.

(* Next/Seek programs.  Seek is implemented with Next; whatever sequence of Next / Seek(x)
   calls a consumer makes on the 5m chunks (until the first ValNone), it terminates and
   every sample it gets is the adjusted raw counter at that sample's timestamp. *)
Theorem C37_programs : forall res num_chunks data l1 prog,
  valid_counter res data -> level1 res num_chunks data = Some l1 ->
  exists pres,
    run_prog prog (counter_toks l1) acr0 = Some pres /\
    Forall (fun o => match o with Some s => snd s = adj_at (keep_nonnan data) (fst s) | None => True end) pres.
Proof. exact programs_exact. Qed.
Print Assumptions C37_programs.

(* The whole boolean predicate of the check holds of the model's outputs (corr_ok states
   that these outputs are the implementation's). *)
Theorem C37_pred : forall res1 k nc1 nc2 data prog,
  0 < res1 -> 0 < k -> valid_input res1 (k * res1) data = true ->
  exists l1 read1 pres,
    level1 res1 nc1 data = Some l1 /\ read_counter l1 = Some read1 /\
    run_prog prog (counter_toks l1) acr0 = Some pres /\
    exists l2 read2,
      level2 (k * res1) nc2 l1 = Some l2 /\ read_counter l2 = Some read2 /\
      pred_ok (CCounter res1 (k * res1) nc1 nc2 data read1 read2 prog pres) = true.
Proof. exact full_pred. Qed.
Print Assumptions C37_pred.

(* Tie T for the batch sizes of both loops (expressions translated from the Go source into
   Gen/C37.v on every run). *)
Theorem C37_batch_sizes_source : forall len nc,
  Z.to_nat (raw_batch_size (Z.of_nat len) (Z.of_nat nc)) = (len / nc + 1)%nat /\
  Z.to_nat (aggr_batch_size (Z.of_nat len) (Z.of_nat nc)) = Nat.max (len / nc) 1.
Proof. intros len nc. split; [apply raw_batch_size_model|apply aggr_batch_size_model]. Qed.
Print Assumptions C37_batch_sizes_source.

(* Tie T for the comparison of downsampleRawLoop's batch-extension loop (see C36). *)
Theorem C37_extension_loop_source : forall t w, ext_take t w = (t <=? w).
Proof. exact ext_take_model. Qed.
Print Assumptions C37_extension_loop_source.

(* Non-vacuity: a counter with a reset inside the first chunk and one exactly between
   the two chunks (batch size 3), 10 ms resolution; second level at 30 ms in two parts
   and in one part. *)
Example C37_nonvacuous :
  let data := [(0, Some 5); (4, Some 9); (12, Some 2); (15, None); (21, Some 6); (30, Some 1); (47, Some 3)] in
  valid_counter 10 data /\
  exists l1, level1 10 3 data = Some l1 /\ length l1 = 2%nat /\
    read_counter l1 = Some [(0, 5); (9, 9); (12, 11); (21, 15); (29, 15); (39, 16); (47, 18)] /\
    adj (map snd (keep_nonnan data)) = 18 /\
    (exists l2, level2 30 2 l1 = Some l2 /\ length l2 = 2%nat /\
       read_counter l2 = Some [(0, 5); (12, 11); (21, 15); (29, 15); (47, 18)]) /\
    (exists l2, level2 30 1 l1 = Some l2 /\ length l2 = 1%nat /\
       read_counter l2 = Some [(0, 5); (29, 15); (47, 18)]).
Proof.
  cbv zeta. split.
  - split; [reflexivity|]. split.
    + cbn [map fst]. repeat (constructor; [|repeat constructor; reflexivity]). constructor.
    + repeat constructor; cbn; try discriminate; exact I.
  - eexists. split; [vm_compute; reflexivity|].
    split; [vm_compute; reflexivity|]. split; [vm_compute; reflexivity|]. split; [vm_compute; reflexivity|].
    split; (eexists; split; [vm_compute; reflexivity|]; split; vm_compute; reflexivity).
Qed.
