(* C26 — Remote-write v2 requests are translated faithfully and safely.
   Property theorems only. [translate symbols ss] models translateV2ToV1 (with
   v2Labels); [handle_v2] adds handleV2HTTP's status and what a single ingesting
   node receives. [spec_series] is the reading of a v2 series the protocol
   describes: the j-th label is (symbols[refs[2j]], symbols[refs[2j+1]]),
   samples / histograms / exemplar values and timestamps unchanged, in order. *)
From Coq Require Import ZArith NArith List Bool String.
Import ListNotations.
From Verif Require Import Lib.Corr Gen.C26 Model.C26 Proofs.C26.
Open Scope Z_scope.

(* Source facts: v2Labels tests every reference against len(symbols) and
   returns an error before any lookup; translateV2ToV1 indexes the symbol table
   only through v2Labels; handleV2HTTP answers a failed translation with a 4xx. *)
Theorem C26_source_checks_refs : refs_checked = true /\ 400 <= v2_bad_ref_status < 500.
Proof. exact (conj refs_are_checked bad_ref_status_is_client_error). Qed.
Print Assumptions C26_source_checks_refs.

(* Faithful: whenever the translation succeeds, every reference was inside the
   table and the result is exactly the described series, for all symbol tables
   and all requests (any number of series, labels, samples, histograms,
   exemplars; repeated and shared symbols; an odd trailing reference is dropped
   by the i+1 < len loop and by the specification alike). *)
Theorem C26_faithful : forall symbols ss out, translate symbols ss = Some out ->
  out = map (spec_series symbols) ss
  /\ Forall (fun r => (r < N.of_nat (List.length symbols))%N) (all_refs ss).
Proof. exact translate_faithful. Qed.
Print Assumptions C26_faithful.

(* ... and it does succeed when all references (series labels and exemplar labels) are inside the table. *)
Theorem C26_accepts_valid : forall symbols ss,
  Forall (fun r => (r < N.of_nat (List.length symbols))%N) (all_refs ss) ->
  translate symbols ss = Some (map (spec_series symbols) ss).
Proof. exact translate_accepts. Qed.
Print Assumptions C26_accepts_valid.

(* Safe: any reference outside the table, anywhere in the request, makes the
   translation fail (no lookup is attempted: the model is total). *)
Theorem C26_rejects_bad_refs : forall symbols ss r, In r (all_refs ss) ->
  (N.of_nat (List.length symbols) <= r)%N -> translate symbols ss = None.
Proof. exact translate_rejects. Qed.
Print Assumptions C26_rejects_bad_refs.

(* The request as a whole, through the predicate the check evaluates on the
   real handler's status and on what the real handler hands to ingestion:
   200 + exactly the described series, or 4xx + nothing ingested. *)
Theorem C26_request_pred : forall symbols ss,
  req_pred_ok (CV2 symbols ss false (fst (handle_v2 symbols ss)) (snd (handle_v2 symbols ss))) = true.
Proof. exact handle_v2_pred. Qed.
Print Assumptions C26_request_pred.

(* Histories. Source fact: the v2 path (handleV2HTTP, translateV2ToV1, v2Labels,
   translateV2SpansToV1) reads no Handler field and no package-level variable —
   no pool or cache survives from one request to the next. *)
Theorem C26_v2_path_stateless : v2_path_stateless = true.
Proof. exact v2_path_is_stateless. Qed.
Print Assumptions C26_v2_path_stateless.

(* The outcome of the n-th request of any history is a function of that request
   only, and every request of every history satisfies the predicate on its own. *)
Theorem C26_outcome_depends_on_the_request_only : forall pre r post,
  nth (List.length pre) (handle_history (pre ++ r :: post)) (0, []) = handle_v2 (fst r) (snd r).
Proof. exact history_is_pointwise. Qed.
Print Assumptions C26_outcome_depends_on_the_request_only.

Theorem C26_history_pred : forall reqs,
  pred_ok (CHist (map (fun r => CV2 (fst r) (snd r) false (fst (handle_v2 (fst r) (snd r))) (snd (handle_v2 (fst r) (snd r)))) reqs)) = true.
Proof. exact history_pred. Qed.
Print Assumptions C26_history_pred.

(* Before the repair the lookup was an unchecked slice index: undefined (a Go
   panic) on this request, which the repaired translation rejects. *)
Theorem C26_unchecked_refuted :
  pair_up_unchecked [[97%N]] [0%N; 1%N] = None /\ v2_labels [[97%N]] [0%N; 1%N] = None.
Proof. exact unchecked_lookup_undefined. Qed.
Print Assumptions C26_unchecked_refuted.

(* Non-vacuity: symbols ["", "__name__", "up", "job", "x"], one series with
   labels {__name__="up", job="x"} and an exemplar {job="up"}. *)
Example C26_nonvacuous :
  translate [[]; [95;95;110;97;109;101;95;95]; [117;112]; [106;111;98]; [120]]%N
    [([1;2;3;4]%N, [(1000, 4607182418800017408%N)], [([3;2]%N, 0%N, 7)], [])]
  = Some [([([95;95;110;97;109;101;95;95], [117;112]); ([106;111;98], [120])]%N,
           [(1000, 4607182418800017408%N)], [([([106;111;98], [117;112])]%N, 0%N, 7)], [])].
Proof. vm_compute. reflexivity. Qed.
