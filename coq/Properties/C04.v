(* C04 — Deduplicated queries return each logical series once with replica data.
   Property theorems only; the model is Model/C04.v (querier.selectFn,
   overlapSplitSet, chunkSeriesIterator, boundedSeriesIterator, the penalty
   dedupSeriesIterator with its constants regenerated from pkg/dedup/iter.go). *)
From Coq Require Import ZArith List Bool NArith Sorting.Sorted Permutation.
Import ListNotations.
From Verif Require Import Lib.Corr Gen.C04 Model.C04 Model.C04_Csi Model.C04_Facts
  Proofs.C04 Proofs.C04_Total Proofs.C04_Cuts Proofs.C04_Main Proofs.C04_Csi Proofs.C04_Facts Proofs.C04_Pred Proofs.C04_Plain.
Open Scope Z_scope.

(* overlapSplitSet: every chunk of a series lands in exactly one pseudo-replica
   (the concatenation is a permutation of the input, whatever its order), and
   inside each pseudo-replica consecutive chunks are strictly apart
   (MaxTime < next MinTime). For every chunk list. *)
Theorem C04_overlap_split_partition : forall cs,
  cs <> [] ->
  Permutation (concat (overlap_split cs)) cs /\ Forall chain (overlap_split cs).
Proof. exact overlap_split_partition. Qed.
Print Assumptions C04_overlap_split_partition.

(* chunkSeriesIterator: for chunks that are consecutive non-empty pieces of a
   strictly increasing sample list L (any cut), the iterator yields exactly L. *)
Theorem C04_chunk_iter_concat : forall cs L,
  concat (map csamples cs) = L -> Forall (fun c => csamples c <> []) cs ->
  SS L -> Forall (fun x => MinT < fst x) L ->
  chunk_iter cs = L.
Proof. exact chunk_iter_cuts. Qed.
Print Assumptions C04_chunk_iter_concat.

(* Deduplication off: every series handed over by the proxy (one per replica,
   replica label kept) is returned as its own series, with the samples of its
   chunk stream restricted to [mint, maxt] — for any number of series. *)
Theorem C04_no_dedup_identity : forall mint maxt po out,
  Forall (fun s => rawstream (chunk_iter (snd s))) po ->
  select mint maxt false po = Some out ->
  out = map (fun s => (fst s, in_range mint maxt (chunk_iter (snd s)))) po.
Proof. exact select_plain. Qed.
Print Assumptions C04_no_dedup_identity.

(* Deduplication off with OVERLAPPING pieces: for any number of series, each
   handed over with chunks that are arbitrary pieces (overlapping, nested,
   duplicated — e.g. one replica served by two stores with overlapping time
   ranges) of its strictly increasing samples L, sorted by MinTime and together
   holding every sample, Select returns the series with exactly L inside
   [mint, maxt]. (With deduplication ON the same input loses samples:
   C04_overlapping_cuts_refuted.) *)
Theorem C04_no_dedup_overlapping_pieces : forall mint maxt items,
  Forall pitem_ok items ->
  select mint maxt false (map (fun x => (p_lbl x, p_cs x)) items)
  = Some (map (fun x => (p_lbl x, in_range mint maxt (p_L x))) items).
Proof. exact select_plain_pieces. Qed.
Print Assumptions C04_no_dedup_overlapping_pieces.

(* The penalty algorithm (any number of pseudo-replicas, left-nested as in
   dedupSeries.Iterator, any penalties): when the first stream w0 is strictly
   increasing and every other stream is a subsequence of it — in particular when
   all replicas hold identical samples — the model terminates (its fuel
   suffices) and the deduplicated series is exactly w0 restricted to [mint, maxt]. *)
Theorem C04_identical_streams : forall mint maxt w0 ws,
  rawstream w0 -> Forall (fun w => sub w w0) ws ->
  series_samples mint maxt (w0 :: ws) = Some (in_range mint maxt w0).
Proof. exact series_samples_total. Qed.
Print Assumptions C04_identical_streams.

(* The overlap split of identical replicas with NON-overlapping cuts: for one
   logical series whose replicas (any number) each cut the same strictly
   increasing samples L into consecutive non-empty chunks (any cuts), and for
   any proxy output that passes the checks of Model.proxy_ok_dedup (only replica
   chunks, every replica chunk's data present, sorted by MinTime), the first
   pseudo-replica holds exactly L and every other one a subsequence of L. *)
Theorem C04_split_of_identical_replicas : forall x,
  item_ok x ->
  map chunk_iter (overlap_split (i_cs x)) = i_L x :: ws_of x
  /\ Forall (fun w => sub w (i_L x)) (ws_of x).
Proof. exact item_split. Qed.
Print Assumptions C04_split_of_identical_replicas.

(* THE PROPERTY, dedup on, identical replicas: for any number of logical series
   (adjacent label sets distinct, as the proxy delivers them), any number of
   replicas per series, arbitrary non-overlapping chunk cuts per replica, any
   placement on stores / frames (the proxy output only has to pass the checked
   relation), any [mint, maxt]: Select returns exactly one series per logical
   series, labelled as handed over by the proxy (replica labels removed there),
   holding exactly the replicas' samples inside [mint, maxt]. *)
Theorem C04_identical_replicas : forall mint maxt items,
  Forall item_ok items -> adj_distinct (map i_lbl items) ->
  select mint maxt true (map (fun x => (i_lbl x, i_cs x)) items)
  = Some (map (fun x => (i_lbl x, in_range mint maxt (i_L x))) items).
Proof. exact select_identical_replicas. Qed.
Print Assumptions C04_identical_replicas.

(* What the check evaluates, for one logical series with identical replicas and
   non-overlapping cuts: the model's output (one series, the samples in range)
   passes the correspondence check against any proxy output that passes the proxy
   relation, and satisfies the property's predicate pred_ok. So on such inputs
   "corr_ok everywhere" means the implementation's own output satisfies pred_ok. *)
Theorem C04_single_series_corr_and_pred : forall mint maxt s cs L,
  l_reps s <> [] -> Forall (fun r => r_samples r = L) (l_reps s) ->
  item_ok (mkItem (l_labels s) L (map r_chunks (l_reps s)) cs) ->
  nodup_samples cs = true ->
  let out := [(l_labels s, in_range mint maxt L)] in
  corr_ok (CDedup mint maxt [s] [(l_labels s, cs)] out) = true
  /\ pred_ok (CDedup mint maxt [s] [(l_labels s, cs)] out) = true.
Proof. exact single_series_checks. Qed.
Print Assumptions C04_single_series_corr_and_pred.

(* chunkSeriesIterator as the Go code implements it (XOR chunk iterators, index
   into the chunk list, lastVal, mutually recursive Next / Seek: Model/C04_Csi.v)
   refines the stream-level model used above: from any well-formed state, with
   fuel 2*size+1 resp. 2*size+2 (so it terminates), Next moves to the next
   element of the stream [rem] and Seek(t) to the first element >= t of the
   current sample followed by [rem]; the initial state's stream is
   Model.C04.chunk_iter. Holds for ANY chunk lists (overlapping, nested, unsorted). *)
Theorem C04_chunk_iterator_next : forall s,
  W s -> exists s' v, cnext (2 * size s + 1) s = Some (s', v) /\ next_spec s s' v.
Proof. exact csi_next_correct. Qed.
Print Assumptions C04_chunk_iterator_next.

Theorem C04_chunk_iterator_seek : forall s t,
  W s -> MinT < t -> exists s' v, cseek (2 * size s + 2) t s = Some (s', v) /\ seek_spec t s s' v.
Proof. exact csi_seek_correct. Qed.
Print Assumptions C04_chunk_iterator_seek.

Theorem C04_chunk_iterator_initial : forall cs c r,
  map csamples cs = c :: r -> above c -> Forall above r ->
  exists s0, csi_new (map csamples cs) = Some s0 /\ W s0 /\ all s0 = chunk_iter cs.
Proof. exact csi_new_all. Qed.
Print Assumptions C04_chunk_iterator_initial.

(* Tie T: the statement skeletons of overlapSplitSet.Next, dedupSeriesIterator.Next/Seek,
   boundedSeriesIterator.Next/Seek, dedupSeriesSet.next, chunkSeriesIterator.Next/Seek
   and the dedup-related steps of querier.selectFn, regenerated from the Go source
   on every run, are the ones the model transcribes. *)
Theorem C04_source_skeleton : facts_ok = true.
Proof. exact facts_hold. Qed.
Print Assumptions C04_source_skeleton.

(* REFUTED for overlapping cuts: one replica whose 11 samples (15 s apart) sit
   on two stores with overlapping time ranges — chunks [0..60000] and
   [45000..150000], all data identical where it overlaps — loses the samples at
   75000 and 90000 when deduplication is on. *)
Definition ex_L : list sample :=
  [(0,1); (15000,2); (30000,3); (45000,4); (60000,5); (75000,6); (90000,7); (105000,8); (120000,9); (135000,10); (150000,11)].
Definition ex_cs : list chunk :=
  [mkChunk 0 60000 (firstn 5 ex_L); mkChunk 45000 150000 (skipn 3 ex_L)].

Theorem C04_overlapping_cuts_refuted :
  exists mint maxt ls cs L out,
    Forall (fun c => sub (csamples c) L) cs            (* every chunk holds samples of L only *)
    /\ (forall x, In x L -> exists c, In c cs /\ In x (csamples c))   (* and every sample of L is held *)
    /\ select mint maxt true [(ls, cs)] = Some [(ls, out)]
    /\ out <> in_range mint maxt L.
Proof.
  exists (-1000000), 1000000, [], ex_cs, ex_L,
    [(0,1); (15000,2); (30000,3); (45000,4); (60000,5); (105000,8); (120000,9); (135000,10); (150000,11)].
  split; [|split; [|split]].
  - repeat (constructor; [apply subb_sound; vm_compute; reflexivity|]). constructor.
  - intros x Hin. vm_compute in Hin.
    repeat (destruct Hin as [<-|Hin];
            [first [ exists (mkChunk 0 60000 (firstn 5 ex_L)); split; [left; reflexivity | vm_compute; tauto]
                   | exists (mkChunk 45000 150000 (skipn 3 ex_L)); split; [right; left; reflexivity | vm_compute; tauto] ] |]).
    contradiction.
  - vm_compute. reflexivity.
  - vm_compute. discriminate.
Qed.
Print Assumptions C04_overlapping_cuts_refuted.

(* Non-vacuity: three identical replicas with different non-overlapping cuts, as
   the proxy hands them over (identical chunks kept once, sorted by (min, max)):
   the first pseudo-replica is complete, the others are subsequences, and Select
   returns the 10 samples. *)
Definition nv_L : list sample := map (fun k => (Z.of_nat k, Z.of_nat k)) (seq 1 10).
Definition nv_chunk (a b : nat) : chunk :=
  mkChunk (Z.of_nat (S a)) (Z.of_nat b) (firstn (b - a) (skipn a nv_L)).
Definition nv_cs : list chunk :=
  [nv_chunk 0 2; nv_chunk 0 4; nv_chunk 2 4; nv_chunk 2 10; nv_chunk 4 10].

Example C04_nonvacuous :
  map chunk_iter (overlap_split nv_cs) = [nv_L; skipn 0 (firstn 4 nv_L); skipn 2 nv_L]
  /\ rawstream nv_L
  /\ select (-100) 100 true [([], nv_cs)] = Some [([], nv_L)]
  /\ select 3 8 true [([], nv_cs)] = Some [([], in_range 3 8 nv_L)].
Proof.
  split; [vm_compute; reflexivity|]. split.
  - split; [|vm_compute; repeat constructor].
    unfold SS, nv_L. vm_compute. repeat (constructor; [|repeat (constructor; [reflexivity|])]); constructor.
  - split; vm_compute; reflexivity.
Qed.

Definition nv_item : item :=
  mkItem [] nv_L
    [[nv_chunk 0 2; nv_chunk 2 10]; [nv_chunk 0 2; nv_chunk 2 4; nv_chunk 4 10]; [nv_chunk 0 4; nv_chunk 4 10]]
    nv_cs.

Example C04_nonvacuous_item : item_ok nv_item /\ ws_of nv_item = [firstn 4 nv_L; skipn 2 nv_L].
Proof.
  split; [|vm_compute; reflexivity].
  destruct C04_nonvacuous as (_ & Hraw & _).
  unfold item_ok. split; [exact Hraw|]. split; [discriminate|]. split; [discriminate|].
  split.
  - repeat (constructor; [split; [vm_compute; reflexivity|
              repeat (constructor; [eexists; eexists; repeat split; vm_compute; reflexivity|]); constructor]|]).
    constructor.
  - repeat split; vm_compute; reflexivity.
Qed.

(* the sidecar + store-gateway layout of the refutation, read with dedup OFF, is fine *)
Example C04_nonvacuous_pieces : pitem_ok (mkP [] ex_L ex_cs)
  /\ select (-1000000) 1000000 false [([], ex_cs)] = Some [([], ex_L)].
Proof.
  split; [|vm_compute; reflexivity].
  assert (HS : SS ex_L).
  { unfold SS, ex_L. repeat (constructor; [|repeat (constructor; [reflexivity|])]); constructor. }
  split; [split; [exact HS|vm_compute; repeat constructor]|].
  split; [repeat constructor; vm_compute; discriminate|].
  split.
  - repeat (constructor; [split; [eexists; eexists; repeat split; vm_compute; reflexivity|vm_compute; reflexivity]|]).
    constructor.
  - intros y Hy. vm_compute in Hy.
    repeat (destruct Hy as [<-|Hy];
            [first [ exists (mkChunk 0 60000 (firstn 5 ex_L)); split; [left; reflexivity | vm_compute; tauto]
                   | exists (mkChunk 45000 150000 (skipn 3 ex_L)); split; [right; left; reflexivity | vm_compute; tauto] ] |]).
    contradiction.
Qed.

(* the state machine on nested / overlapping chunks: [1..5], [2,3] (skipped), [4,6] *)
Example C04_nonvacuous_csi :
  let cs := [[(1,1);(2,2);(3,3);(4,4);(5,5)]; [(2,2);(3,3)]; [(4,4);(6,6)]] in
  exists s0, csi_new cs = Some s0 /\ W s0 /\ all s0 = [(1,1);(2,2);(3,3);(4,4);(5,5);(6,6)]
    /\ exists s1 , cseek 40 6 s0 = Some (s1, true) /\ cur_sample s1 = (6,6).
Proof.
  eexists. split; [reflexivity|]. split.
  - repeat split; simpl; try (repeat constructor; vm_compute; reflexivity); try (vm_compute; discriminate).
  - split; [vm_compute; reflexivity|]. eexists. split; vm_compute; reflexivity.
Qed.

Example C04_nonvacuous_split :
  overlap_split nv_cs <> [] /\ Forall chain (overlap_split nv_cs) /\ length (overlap_split nv_cs) = 3%nat.
Proof. split; [vm_compute; discriminate|]. split; [apply C04_overlap_split_partition; discriminate|reflexivity]. Qed.
