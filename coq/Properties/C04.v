(* C04 — Deduplicated queries return each logical series once with replica data.
   Property theorems only; the model is Model/C04.v (querier.selectFn,
   overlapSplitSet, chunkSeriesIterator, boundedSeriesIterator, the penalty
   dedupSeriesIterator with its constants regenerated from pkg/dedup/iter.go). *)
From Coq Require Import ZArith List Bool NArith Sorting.Sorted Permutation.
Import ListNotations.
From Verif Require Import Lib.Corr Gen.C04 Model.C04 Proofs.C04 Proofs.C04_Total Proofs.C04_Cuts Proofs.C04_Main.
Open Scope Z_scope.

(* overlapSplitSet: every chunk of a series lands in exactly one pseudo-replica
   (the concatenation is a permutation of the input, whatever its order), and
   inside each pseudo-replica consecutive chunks are strictly apart
   (MaxTime < next MinTime). For every chunk list. *)
Theorem C04_overlap_split_partition : forall cs,
  cs <> [] ->
  Permutation (concat (overlap_split cs)) cs /\ Forall chain (overlap_split cs).
Proof. exact overlap_split_partition. Qed.
Print Assumptions C04_overlap_split_partition.

(* chunkSeriesIterator: for chunks that are consecutive non-empty pieces of a
   strictly increasing sample list L (any cut), the iterator yields exactly L. *)
Theorem C04_chunk_iter_concat : forall cs L,
  concat (map csamples cs) = L -> Forall (fun c => csamples c <> []) cs ->
  SS L -> Forall (fun x => MinT < fst x) L ->
  chunk_iter cs = L.
Proof. exact chunk_iter_cuts. Qed.
Print Assumptions C04_chunk_iter_concat.

(* Deduplication off: every series handed over by the proxy (one per replica,
   replica label kept) is returned as its own series, with the samples of its
   chunk stream restricted to [mint, maxt] — for any number of series. *)
Theorem C04_no_dedup_identity : forall mint maxt po out,
  Forall (fun s => rawstream (chunk_iter (snd s))) po ->
  select mint maxt false po = Some out ->
  out = map (fun s => (fst s, in_range mint maxt (chunk_iter (snd s)))) po.
Proof. exact select_plain. Qed.
Print Assumptions C04_no_dedup_identity.

(* The penalty algorithm (any number of pseudo-replicas, left-nested as in
   dedupSeries.Iterator, any penalties): when the first stream w0 is strictly
   increasing and every other stream is a subsequence of it — in particular when
   all replicas hold identical samples — the model terminates (its fuel
   suffices) and the deduplicated series is exactly w0 restricted to [mint, maxt]. *)
Theorem C04_identical_streams : forall mint maxt w0 ws,
  rawstream w0 -> Forall (fun w => sub w w0) ws ->
  series_samples mint maxt (w0 :: ws) = Some (in_range mint maxt w0).
Proof. exact series_samples_total. Qed.
Print Assumptions C04_identical_streams.

(* The overlap split of identical replicas with NON-overlapping cuts: for one
   logical series whose replicas (any number) each cut the same strictly
   increasing samples L into consecutive non-empty chunks (any cuts), and for
   any proxy output that passes the checks of Model.proxy_ok_dedup (only replica
   chunks, every replica chunk's data present, sorted by MinTime), the first
   pseudo-replica holds exactly L and every other one a subsequence of L. *)
Theorem C04_split_of_identical_replicas : forall x,
  item_ok x ->
  map chunk_iter (overlap_split (i_cs x)) = i_L x :: ws_of x
  /\ Forall (fun w => sub w (i_L x)) (ws_of x).
Proof. exact item_split. Qed.
Print Assumptions C04_split_of_identical_replicas.

(* THE PROPERTY, dedup on, identical replicas: for any number of logical series
   (adjacent label sets distinct, as the proxy delivers them), any number of
   replicas per series, arbitrary non-overlapping chunk cuts per replica, any
   placement on stores / frames (the proxy output only has to pass the checked
   relation), any [mint, maxt]: Select returns exactly one series per logical
   series, labelled as handed over by the proxy (replica labels removed there),
   holding exactly the replicas' samples inside [mint, maxt]. *)
Theorem C04_identical_replicas : forall mint maxt items,
  Forall item_ok items -> adj_distinct (map i_lbl items) ->
  select mint maxt true (map (fun x => (i_lbl x, i_cs x)) items)
  = Some (map (fun x => (i_lbl x, in_range mint maxt (i_L x))) items).
Proof. exact select_identical_replicas. Qed.
Print Assumptions C04_identical_replicas.

(* REFUTED for overlapping cuts: one replica whose 11 samples (15 s apart) sit
   on two stores with overlapping time ranges — chunks [0..60000] and
   [45000..150000], all data identical where it overlaps — loses the samples at
   75000 and 90000 when deduplication is on. *)
Definition ex_L : list sample :=
  [(0,1); (15000,2); (30000,3); (45000,4); (60000,5); (75000,6); (90000,7); (105000,8); (120000,9); (135000,10); (150000,11)].
Definition ex_cs : list chunk :=
  [mkChunk 0 60000 (firstn 5 ex_L); mkChunk 45000 150000 (skipn 3 ex_L)].

Theorem C04_overlapping_cuts_refuted :
  exists mint maxt ls cs L out,
    Forall (fun c => sub (csamples c) L) cs            (* every chunk holds samples of L only *)
    /\ (forall x, In x L -> exists c, In c cs /\ In x (csamples c))   (* and every sample of L is held *)
    /\ select mint maxt true [(ls, cs)] = Some [(ls, out)]
    /\ out <> in_range mint maxt L.
Proof.
  exists (-1000000), 1000000, [], ex_cs, ex_L,
    [(0,1); (15000,2); (30000,3); (45000,4); (60000,5); (105000,8); (120000,9); (135000,10); (150000,11)].
  split; [|split; [|split]].
  - repeat (constructor; [apply subb_sound; vm_compute; reflexivity|]). constructor.
  - intros x Hin. vm_compute in Hin.
    repeat (destruct Hin as [<-|Hin];
            [first [ exists (mkChunk 0 60000 (firstn 5 ex_L)); split; [left; reflexivity | vm_compute; tauto]
                   | exists (mkChunk 45000 150000 (skipn 3 ex_L)); split; [right; left; reflexivity | vm_compute; tauto] ] |]).
    contradiction.
  - vm_compute. reflexivity.
  - vm_compute. discriminate.
Qed.
Print Assumptions C04_overlapping_cuts_refuted.

(* Non-vacuity: three identical replicas with different non-overlapping cuts, as
   the proxy hands them over (identical chunks kept once, sorted by (min, max)):
   the first pseudo-replica is complete, the others are subsequences, and Select
   returns the 10 samples. *)
Definition nv_L : list sample := map (fun k => (Z.of_nat k, Z.of_nat k)) (seq 1 10).
Definition nv_chunk (a b : nat) : chunk :=
  mkChunk (Z.of_nat (S a)) (Z.of_nat b) (firstn (b - a) (skipn a nv_L)).
Definition nv_cs : list chunk :=
  [nv_chunk 0 2; nv_chunk 0 4; nv_chunk 2 4; nv_chunk 2 10; nv_chunk 4 10].

Example C04_nonvacuous :
  map chunk_iter (overlap_split nv_cs) = [nv_L; skipn 0 (firstn 4 nv_L); skipn 2 nv_L]
  /\ rawstream nv_L
  /\ select (-100) 100 true [([], nv_cs)] = Some [([], nv_L)]
  /\ select 3 8 true [([], nv_cs)] = Some [([], in_range 3 8 nv_L)].
Proof.
  split; [vm_compute; reflexivity|]. split.
  - split; [|vm_compute; repeat constructor].
    unfold SS, nv_L. vm_compute. repeat (constructor; [|repeat (constructor; [reflexivity|])]); constructor.
  - split; vm_compute; reflexivity.
Qed.

Definition nv_item : item :=
  mkItem [] nv_L
    [[nv_chunk 0 2; nv_chunk 2 10]; [nv_chunk 0 2; nv_chunk 2 4; nv_chunk 4 10]; [nv_chunk 0 4; nv_chunk 4 10]]
    nv_cs.

Example C04_nonvacuous_item : item_ok nv_item /\ ws_of nv_item = [firstn 4 nv_L; skipn 2 nv_L].
Proof.
  split; [|vm_compute; reflexivity].
  destruct C04_nonvacuous as (_ & Hraw & _).
  unfold item_ok. split; [exact Hraw|]. split; [discriminate|]. split; [discriminate|].
  split.
  - repeat (constructor; [split; [vm_compute; reflexivity|
              repeat (constructor; [eexists; eexists; repeat split; vm_compute; reflexivity|]); constructor]|]).
    constructor.
  - repeat split; vm_compute; reflexivity.
Qed.

Example C04_nonvacuous_split :
  overlap_split nv_cs <> [] /\ Forall chain (overlap_split nv_cs) /\ length (overlap_split nv_cs) = 3%nat.
Proof. split; [vm_compute; discriminate|]. split; [apply C04_overlap_split_partition; discriminate|reflexivity]. Qed.
