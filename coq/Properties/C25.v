(* C25 — Cap'n Proto replication encoding is lossless.
   Property theorems only. [encode] models symboltable.Builder +
   writecapnp.BuildInto/marshalSymbols + the multi-tenant assembly of the
   client (one symbol table shared by all tenants); [decode] models
   writecapnp.NewRequest + Request.At/readHistogram/readExemplar on the peer.
   [spec_request] is the request itself in decoded form (labels, float samples,
   native histograms with their int/float reading and custom values, exemplars). *)
From Coq Require Import ZArith NArith List Bool.
Import ListNotations.
From Verif Require Import Lib.Corr Gen.C25 Model.C25 Proofs.C25.
Open Scope Z_scope.

(* Every symbol table (any strings, any order, empty strings, repeats of byte
   content in different entries) survives offsets+data marshalling and the
   cumulative-end decoding. *)
Theorem C25_symbols_roundtrip : forall tbl,
  decode_symbols (fst (marshal_symbols tbl)) (snd (marshal_symbols tbl)) = tbl.
Proof. exact symbols_roundtrip. Qed.
Print Assumptions C25_symbols_roundtrip.

(* The index AddEntry returns for a string resolves to that string in the
   decoded table of every later state of the builder (interning in any order,
   with repeats). *)
Theorem C25_interned_strings_roundtrip : forall tbl s tbl' i, add_entry tbl s = (tbl', i) ->
  forall T, (exists ext, T = tbl' ++ ext) ->
  sym (decode_symbols (fst (marshal_symbols T)) (snd (marshal_symbols T))) i = s.
Proof. exact interned_strings_roundtrip. Qed.
Print Assumptions C25_interned_strings_roundtrip.

(* For ALL requests (any tenants, series, labels sharing or not sharing
   symbols, empty lists, samples, histograms, exemplars): decoding the encoded
   request yields the request with exactly one thing erased — the histograms'
   custom values, which the Cap'n Proto schema has no field for. Histograms
   are read as the protobuf path reads them (float iff the count is a float;
   a zero count that is unset or of the other type reads as 0). *)
Theorem C25_request_roundtrip_partial : forall req,
  decode (encode req) = spec_request (erase_request req).
Proof. exact request_roundtrip. Qed.
Print Assumptions C25_request_roundtrip_partial.

(* Lossless on every request without histogram custom values. *)
Theorem C25_request_roundtrip_no_custom_values : forall req, no_custom_values req = true ->
  decode (encode req) = spec_request req.
Proof. exact request_roundtrip_lossless. Qed.
Print Assumptions C25_request_roundtrip_no_custom_values.

(* The full statement "forall req, decode (encode req) = spec_request req" is
   false of the faithful model: custom bucket boundaries are dropped ... *)
Theorem C25_custom_values_refuted :
  exists out want, decode (encode witness_custom) = Some out /\ spec_request witness_custom = Some want /\ out <> want.
Proof. exact custom_values_lost. Qed.
Print Assumptions C25_custom_values_refuted.

(* Decoding never panics, whatever message the peer receives (also one from an
   encoder that leaves the zero count on the other arm of the union). *)
Theorem C25_decode_never_panics : forall w, exists out, decode w = Some out.
Proof. exact decode_total. Qed.
Print Assumptions C25_decode_never_panics.

(* Before the repair a float histogram whose zero_count oneof is unset could
   not be decoded (the generated accessor panicked); it now decodes to its
   protobuf-path reading, even from the old encoder's message. *)
Theorem C25_unguarded_union_refuted :
  dec_hist_old (enc_hist_old witness_union_hist) = None
  /\ dec_hist (enc_hist witness_union_hist) = spec_hist witness_union_hist
  /\ dec_hist (enc_hist_old witness_union_hist) <> None.
Proof. exact float_histogram_without_zero_count_old_undefined. Qed.
Print Assumptions C25_unguarded_union_refuted.

(* Non-vacuity: two tenants sharing the symbols "a" and "b"; the table holds them once. *)
Example C25_nonvacuous :
  let req := [([116;49]%N, [([([97], [98]); ([99], [97])]%N, [(1000, 4607182418800017408%N)], [], [([([98], [98])]%N, 0%N, 5)])]);
              ([116;50]%N, [([([97], [])]%N, [], [], [])])] in
  fst (fst (encode req)) = [1; 2; 3; 3]%N /\ snd (fst (encode req)) = [97; 98; 99]%N
  /\ decode (encode req) = spec_request req /\ no_custom_values req = true.
Proof. vm_compute. repeat split; reflexivity. Qed.
