(* C15 — Store gateway picks blocks that cover the query at allowed resolutions.
   Property theorems only; each is closed by [exact] of a lemma of Proofs/C15.v.
   Model: Model/C15.v, bucketBlockSet.getFor of pkg/store/bucket.go WITH
   C15-fix.patch ([get_for_top true]); [get_for_top false] is the code before
   the fix. A block set is [wf_levels]: one list per resolution of
   s.resolutions (ResLevel2, ResLevel1, ResLevel0 — regenerated from the
   source), holding blocks of that resolution sorted by min time: what
   bucketBlockSet.add maintains. No other assumption on the layout: gaps,
   overlaps, nesting, equal ranges, partial downsampling, empty levels and
   degenerate blocks are all allowed; mint, maxt, maxres are arbitrary integers. *)
From Coq Require Import String.
From Coq Require Import ZArith NArith List Bool Permutation.
Import ListNotations.
From Verif Require Import Lib.Corr Gen.C15 Model.C15 Proofs.C15.
Open Scope Z_scope.

(* getFor always returns (no panic, also for a negative max resolution). *)
Theorem C15_total : forall levels mint maxt maxres,
  exists out, get_for_top true levels mint maxt maxres = Some out /\
    (mint <= maxt -> out = get_for true (drop_levels maxres resolutions levels) mint maxt).
Proof. exact top_some. Qed.
Print Assumptions C15_total.

(* Selected blocks never exceed the maximum resolution. *)
Theorem C15_res_bound : forall levels mint maxt maxres out, wf_levels levels ->
  get_for_top true levels mint maxt maxres = Some out -> Forall (fun b => bres b <= maxres) out.
Proof. exact res_bound. Qed.
Print Assumptions C15_res_bound.

(* Every selected block is a block of the set and overlaps [mint, maxt]
   (blocks are half-open [bmin, bmax)). *)
Theorem C15_overlap : forall levels mint maxt maxres out,
  get_for_top true levels mint maxt maxres = Some out ->
  Forall (fun b => bmin b <= maxt /\ mint < bmax b) out /\ incl out (concat levels).
Proof. exact overlap_and_member. Qed.
Print Assumptions C15_overlap.

(* No block is selected twice (blocks of the set have distinct ids). *)
Theorem C15_nodup : forall levels mint maxt maxres out, NoDup (map bid (concat levels)) ->
  get_for_top true levels mint maxt maxres = Some out -> NoDup (map bid out).
Proof. exact nodup_ids. Qed.
Print Assumptions C15_nodup.

(* Every instant of the range covered by a block of an allowed resolution is
   covered by a selected block. *)
Theorem C15_cover : forall levels mint maxt maxres out t b, wf_levels levels ->
  get_for_top true levels mint maxt maxres = Some out ->
  mint <= t <= maxt -> In b (concat levels) -> bres b <= maxres -> covers b t = true ->
  exists b', In b' out /\ covers b' t = true.
Proof. exact cover. Qed.
Print Assumptions C15_cover.

(* The same four clauses through the boolean predicate that the check evaluates
   on the implementation's own output, for every input whose per-level lists
   pass the layout conditions the check verifies on the real s.blocks. *)
Theorem C15_pred : forall input failed lids lv mint maxt maxres,
  nodup_n (map bid input) = true -> levels_ok input resolutions lv = true ->
  pred_ok (CGet input failed lids mint maxt maxres (option_map (map bid) (get_for_top true lv mint maxt maxres))) = true.
Proof. exact case_pred_ok. Qed.
Print Assumptions C15_pred.

(* The coverage clause of the predicate, decided at finitely many critical
   instants, means coverage of every instant. *)
Theorem C15_cover_check_sound : forall input sel mint maxt maxres,
  cover_check input sel mint maxt maxres = true ->
  forall t a, mint <= t <= maxt -> In a input -> allowed maxres a = true -> covers a t = true ->
  exists s, In s sel /\ covers s t = true.
Proof. exact cover_check_sound. Qed.
Print Assumptions C15_cover_check_sound.

(* The code before the fix: a 5m block [0,30) spanning the 1h block [10,20) is
   returned twice for the query [0,30] at max resolution 1h; and a negative max
   resolution indexes s.blocks out of range. (Replayed on the real code by
   corpus/C15/01 and 02.) *)
Theorem C15_unfixed_duplicates_refuted :
  wf_levels witness_levels /\ NoDup (map bid (concat witness_levels)) /\
  exists out, get_for_top false witness_levels 0 30 ResLevel2 = Some out /\ ~ NoDup (map bid out).
Proof. exact unfixed_duplicates_refuted. Qed.
Print Assumptions C15_unfixed_duplicates_refuted.

Theorem C15_unfixed_panics_refuted :
  get_for_top false witness_levels 0 30 (-1) = None /\ get_for_top true witness_levels 0 30 (-1) = Some [].
Proof. exact unfixed_panics. Qed.
Print Assumptions C15_unfixed_panics_refuted.

(* Histories. The set is driven by add / remove / getFor calls (ids of added blocks new). The
   model keeps one list per resolution: add inserts at its place in (min, max) order (append +
   sort, up to the order of equal ranges), remove deletes preserving the order (source fact
   C15_remove_shape). EVERY reachable state is a well-formed set (right resolutions, sorted by
   min time, ids distinct) holding exactly the blocks added and not removed — and therefore in
   every reachable state every getFor satisfies the four clauses against the blocks currently
   in the set. *)
Theorem C15_reachable_clauses : forall ops, fresh_ids [] ops = true ->
  let lv := fst (hstate_run ops) in let cur := snd (hstate_run ops) in
  wf_levels lv /\ NoDup (map bid (concat lv)) /\ Permutation (concat lv) cur /\
  forall mint maxt maxres out, get_for_top true lv mint maxt maxres = Some out ->
    Forall (fun b => bres b <= maxres) out /\
    Forall (fun b => bmin b <= maxt /\ mint < bmax b) out /\ incl out cur /\
    NoDup (map bid out) /\
    (forall t b, mint <= t <= maxt -> In b cur -> bres b <= maxres -> covers b t = true ->
       exists b', In b' out /\ covers b' t = true).
Proof. exact reachable_clauses. Qed.
Print Assumptions C15_reachable_clauses.

(* sortedness is needed: on the level that a swap-with-last removal of the oldest of four blocks
   leaves behind, getFor returns nothing for [-2,10] although the block 10-20 covers instant 10;
   the order-preserving removal returns that block *)
Theorem C15_unsorted_level_refuted :
  let lv := [[]; []; [mkBlock 4 30 40 0; mkBlock 2 10 20 0; mkBlock 3 20 30 0]] in
  sorted_by blk_le (nth 2 lv []) = false /\
  get_for_top true lv (-2) 10 0 = Some [] /\
  covers (mkBlock 2 10 20 0) 10 = true /\
  get_for_top true (mremove 1 (fold_left (madd resolutions) [mkBlock 1 0 10 0; mkBlock 2 10 20 0; mkBlock 3 20 30 0; mkBlock 4 30 40 0] mset_init)) (-2) 10 0
    = Some [mkBlock 2 10 20 0].
Proof. exact unsorted_level_refuted. Qed.
Print Assumptions C15_unsorted_level_refuted.

Theorem C15_remove_shape : removeAssigns = ["s.blocks[i] = append(bs[:j], bs[j+1:]...)"]%string.
Proof. exact remove_shape. Qed.
Print Assumptions C15_remove_shape.

(* Tie T. *)
Theorem C15_source_shape :
  resolutions = [ResLevel2; ResLevel1; ResLevel0] /\ ResLevel2 > ResLevel1 /\ ResLevel1 > ResLevel0 /\
  getForIfs = ["mint > maxt"; "i >= len(s.blocks)"; "b.meta.MaxTime <= mint"; "b.meta.MinTime > maxt";
               "i+1 < len(s.resolutions)"; "len(blockMatchers) == 0 || b.matchRelabelLabels(blockMatchers)";
               "i+1 < len(s.resolutions)"]%string /\
  getForStartAssigns = ["mint"; "b.meta.MaxTime"]%string /\
  getForRecursiveArgs = ["start, b.meta.MinTime - 1, s.resolutions[i+1], blockMatchers";
                         "start, maxt, s.resolutions[i+1], blockMatchers"]%string /\
  getForAppends = ["appendNewBlocks(bs, s.getFor(start, b.meta.MinTime-1, s.resolutions[i+1], blockMatchers))";
                   "append(bs, b)";
                   "appendNewBlocks(bs, s.getFor(start, maxt, s.resolutions[i+1], blockMatchers))"]%string /\
  addSortLess = ["if bs[j].meta.MinTime == bs[k].meta.MinTime"; "return bs[j].meta.MaxTime < bs[k].meta.MaxTime";
                 "return bs[j].meta.MinTime < bs[k].meta.MinTime"]%string.
Proof. exact source_shape_all. Qed.
Print Assumptions C15_source_shape.

(* Non-vacuity: a well-formed set with a gap at 1h, nesting at 1h, a spanning
   5m block and raw blocks; the fixed getFor returns each needed block once. *)
Example C15_nonvacuous :
  let lv := [[mkBlock 1 0 100 ResLevel2; mkBlock 2 10 20 ResLevel2; mkBlock 3 150 160 ResLevel2];
             [mkBlock 4 90 200 ResLevel1];
             [mkBlock 5 0 50 ResLevel0; mkBlock 6 195 260 ResLevel0]] in
  wf_levels lv /\ NoDup (map bid (concat lv)) /\
  option_map (map bid) (get_for_top true lv 5 250 ResLevel2) = Some [1; 2; 5; 4; 3; 6]%N /\
  option_map (map bid) (get_for_top false lv 5 250 ResLevel2) = Some [1; 2; 5; 4; 3; 4; 6]%N /\
  option_map (map bid) (get_for_top true lv 5 250 (ResLevel1 - 1)) = Some [5; 6]%N.
Proof.
  cbn zeta. split; [unfold wf_levels, resolutions; repeat constructor|].
  split; [cbn; repeat constructor; cbn; intuition discriminate|]. vm_compute. repeat split; reflexivity.
Qed.
