(* C31 — Only blocks fully covered by another block are hidden as duplicates.
   Property theorems only; each is closed by [exact] of a lemma of Proofs/C31.v.
   [hidden l b] = block b is removed from the metas map (and reported by
   DuplicateIDs) by DefaultDeduplicateFilter.Filter run on the blocks l. *)
From Coq Require Import ZArith List Bool Permutation.
Import ListNotations.
From Verif Require Import Lib.Corr Gen.C31 Model.C31 Proofs.C31.
Open Scope Z_scope.

(* A hidden block has a KEPT block of the SAME compaction group that was built
   from all of the hidden block's sources.  All block sets with distinct ULIDs
   (the filter works on a map keyed by ULID). *)
Theorem C31_hidden_covered : forall l b, NoDup (map bid l) -> In b l -> hidden l b = true ->
  exists p, In p l /\ grp p = grp b /\ hidden l p = false /\ incl (srcs b) (srcs p).
Proof. exact hidden_covered. Qed.
Print Assumptions C31_hidden_covered.

(* The kept blocks together still cover every source, group by group. *)
Theorem C31_kept_cover : forall l b s, NoDup (map bid l) -> In b l -> In s (srcs b) ->
  exists p, In p l /\ grp p = grp b /\ hidden l p = false /\ In s (srcs p).
Proof. exact kept_cover. Qed.
Print Assumptions C31_kept_cover.

(* The outcome does not depend on the listing order (map iteration order): the
   sort key (more sources first, then ULID) is total on distinct ULIDs. *)
Theorem C31_order_independent : forall l l', Permutation l l' -> NoDup (map bid l) ->
  forall b, hidden l b = hidden l' b.
Proof. exact order_independent. Qed.
Print Assumptions C31_order_independent.

(* ... nor on the order in which the groups are handed to the concurrent
   workers: groups are filtered independently, the result is the union. *)
Theorem C31_concurrency_independent : forall keys keys' l, Permutation keys keys' ->
  forall i, In i (dups_in_order keys l) <-> In i (dups_in_order keys' l).
Proof. exact schedule_independent. Qed.
Print Assumptions C31_concurrency_independent.

(* The boolean predicate the check evaluates on the real filter's output holds
   of the model's output for every block set with distinct ULIDs. *)
Theorem C31_model_pred : forall l conc, NoDup (map bid l) ->
  run_pred l (conc, map bid (kept l), dups l) = true.
Proof. exact model_run_pred. Qed.
Print Assumptions C31_model_pred.

(* the value the correspondence check compares the real filter's output with *)
Theorem C31_model_view : forall l, model_view l = (map bid (kept l), dups l).
Proof. exact model_view_spec. Qed.
Print Assumptions C31_model_view.

(* Statelessness across syncs: for a history of Filter calls on one long-lived filter
   instance, the outcome of the n-th call is the stateless outcome on the n-th block set,
   whatever the instance remembered (its field duplicateIDs) before — so every clause
   above holds after every sync, also when covering blocks disappear between syncs. *)
Theorem C31_history_stateless : forall prev ls n l, nth_error ls n = Some l ->
  nth_error (run_history prev ls) n = Some (map bid (kept l), dups l).
Proof. exact history_nth. Qed.
Print Assumptions C31_history_stateless.

(* Source fact (regenerated from fetcher.go): Filter and filterGroup use the receiver only
   for concurrency, the mutex, filterGroup and the ASSIGNMENT of duplicateIDs; they read
   nothing a previous call wrote. *)
Theorem C31_filter_reads_no_previous_result : filter_reads_no_previous_result = true.
Proof. exact filter_stateless_fact. Qed.
Print Assumptions C31_filter_reads_no_previous_result.

(* Non-vacuity: two replicas' level-1 blocks 1,2,3 and their compactions:
   block 10 = {1,2,3} hides 11 = {1,2} and the sources; 12 = {3,4} stays (4 is
   not covered); another group is untouched. *)
Example C31_nonvacuous :
  let l := [mk_blk 1 0 [1] 1; mk_blk 2 0 [2] 1; mk_blk 3 0 [3] 1; mk_blk 10 0 [1; 2; 3] 1;
            mk_blk 11 0 [2; 1] 1; mk_blk 12 0 [3; 4] 1; mk_blk 20 1 [1] 1] in
  NoDup (map bid l) /\ dups l = [11; 1; 2; 3] /\ map bid (kept l) = [10; 12; 20]
  /\ hidden l (mk_blk 11 0 [2; 1] 1) = true.
Proof.
  cbv zeta. split; [|vm_compute; auto].
  simpl. repeat constructor; simpl; intuition congruence.
Qed.
