(* C45 — Rules API label filters follow Prometheus semantics.
   Property theorems only; proofs are in Proofs/C45.v. [re] (anchored regex
   match of labels.Matcher) and [templ] (text/template classification of a
   label value) are arbitrary functions: the theorems hold for every choice. *)
From Coq Require Import NArith ZArith List Bool String.
Import ListNotations.
From Coq Require Import Sorted Permutation.
From Verif Require Import Lib.Corr Lib.Misc_Cmp Gen.C45 Model.C45 Proofs.C45 Proofs.C45_dedup Proofs.C45_sort.

(* With one or more selector sets, a rule's labels pass the filter iff the
   non-templated labels satisfy ALL selectors of AT LEAST ONE set. *)
Theorem C45_or_of_ands : forall re templ sets ls,
  sets <> [] ->
  (matches re templ sets ls = true <-> exists s, In s sets /\ satisfies re templ s ls).
Proof. exact matches_iff. Qed.
Print Assumptions C45_or_of_ands.

(* The same through the boolean specification used by the check. *)
Theorem C45_matches_spec : forall re templ sets ls,
  matches re templ sets ls = spec_match re templ sets ls.
Proof. exact matches_eq_spec. Qed.
Print Assumptions C45_matches_spec.

(* filterRulesByMatchers keeps exactly the selected rules, in order, and drops emptied groups. *)
Theorem C45_filter_rules : forall re templ sets gs,
  sets <> [] ->
  filter_rules re templ sets gs
  = filter (fun g => negb (is_nil (g_rules g)))
      (map (fun g => Group (g_key g) (filter (fun r => spec_match re templ sets (r_labels r)) (g_rules g))) gs).
Proof. exact filter_rules_spec. Qed.
Print Assumptions C45_filter_rules.

(* The loop as it stood before the repair (return false on the first failing
   selector of any set) is AND across sets: it agrees with the specification
   for a single set (all the existing tests reach) and not in general. *)
Theorem C45_unfixed_single_set : forall re templ s ls,
  matches_unfixed re templ [s] ls = spec_match re templ [s] ls.
Proof. exact matches_unfixed_single. Qed.
Print Assumptions C45_unfixed_single_set.

Theorem C45_unfixed_refuted :
  exists re templ sets ls,
    spec_match re templ sets ls = true /\ matches_unfixed re templ sets ls = false.
Proof. exact unfixed_refuted. Qed.
Print Assumptions C45_unfixed_refuted.

(* Tie T: in the source, the loop over the selector sets of `matches` returns
   only `true` from inside the loop and `false` after it; `matchesAll` returns
   `false` inside its loop over selectors and `true` after it; filterRulesByMatchers
   calls only len / r.GetLabels / matches, and matches for every rule outside any
   `if` (the verdict of a rule depends on that rule and the selectors only:
   C45_filter_rules). *)
Theorem C45_loop_shape : loop_shape_ok = true /\ filter_per_rule_ok = true.
Proof. exact (conj loop_shape filter_per_rule). Qed.
Print Assumptions C45_loop_shape.


(* What GRPCClient.Rules returns (no name/group/file filter), for all rule
   groups, selector sets, replica label lists, [re], [templ]:
   - one group per group key and, inside a group, no two rules that are equal
     up to replica labels (Rule.Compare = 0): both lists are strictly increasing;
   - every returned rule is a selected input rule of a group with that key,
     with its replica labels removed;
   - every selected input rule is represented, in the group with its key, by a
     rule equal to it up to replica labels. *)
Theorem C45_dedup_one_per_rule : forall re templ sets replica gs,
  let out := rules_api re templ sets replica gs in
  StronglySorted (clt group_cmp) out
  /\ (forall g', In g' out -> StronglySorted (clt rule_cmp) (g_rules g'))
  /\ (forall g' r', In g' out -> In r' (g_rules g') ->
        exists g r, In g gs /\ g_key g = g_key g' /\ In r (g_rules g)
                    /\ selected re templ sets r /\ r' = strip replica r)
  /\ (forall g r, In g gs -> In r (g_rules g) -> selected re templ sets r ->
        exists g' r', In g' out /\ g_key g' = g_key g /\ In r' (g_rules g')
                      /\ rule_cmp (strip replica r) r' = Eq).
Proof.
  intros re templ sets replica gs out. split; [apply api_groups_distinct|].
  split; [apply api_rules_distinct|]. split; [apply api_sound | apply api_complete].
Qed.
Print Assumptions C45_dedup_one_per_rule.

(* sort.Slice is not stable and the model uses a stable insertion sort: it does
   not matter. For well-formed rules, dedupRules gives the same list for EVERY
   arrangement of the stripped rules that is sorted by Rule.Compare (every correct
   sorting algorithm), and for every order in which the rules of merged groups
   were appended. *)
Theorem C45_dedup_any_sort : forall replica rs sorted,
  Forall rule_wf rs ->
  Permutation (map (strip replica) rs) sorted -> StronglySorted (cle rule_cmp) sorted ->
  dedup_rules replica rs = dedup_sorted sorted.
Proof. exact dedup_rules_any_sort. Qed.
Print Assumptions C45_dedup_any_sort.

Theorem C45_dedup_order_independent : forall replica rs1 rs2,
  Forall rule_wf rs1 -> Permutation rs1 rs2 ->
  dedup_rules replica rs1 = dedup_rules replica rs2.
Proof.
  intros replica rs1 rs2 Hwf Hp.
  rewrite (dedup_rules_any_sort replica rs1 (isort rule_cmp (map (strip replica) rs2)) Hwf).
  - reflexivity.
  - rewrite <- isort_perm. apply Permutation_map. exact Hp.
  - apply isort_sorted. apply rule_cmp_good.
Qed.
Print Assumptions C45_dedup_order_independent.

(* The same through the boolean predicates that the check evaluates on the
   implementation's own output: the model's output satisfies them on every input. *)
Theorem C45_rules_pred : forall sets rt tpl replica gs,
  pred_ok (CRules sets rt tpl replica gs (rules_api (re_of rt) (templ_of tpl) sets replica gs)) = true.
Proof. intros. apply api_pred_holds. Qed.
Print Assumptions C45_rules_pred.

Theorem C45_matches_pred : forall sets rt tpl ls,
  pred_ok (CMatch sets rt tpl ls (matches (re_of rt) (templ_of tpl) sets ls)) = true.
Proof. intros. simpl. rewrite matches_eq_spec. apply Bool.eqb_reflx. Qed.
Print Assumptions C45_matches_pred.

(* Rule.Compare and RuleGroup.Compare are total preorders (what sort.Slice and
   the neighbour-merging loops rely on). *)
Theorem C45_compare_total_preorder : good_cmp rule_cmp /\ good_cmp group_cmp.
Proof. exact (conj rule_cmp_good group_cmp_good). Qed.
Print Assumptions C45_compare_total_preorder.

(* Non-vacuity: two sets, the second one satisfied. *)
Example C45_nonvacuous :
  matches ex_re ex_templ ex_sets [([97%N], [121%N])] = true /\ ex_sets <> [].
Proof. split; [vm_compute; reflexivity | discriminate]. Qed.

(* Non-vacuity for the pipeline: two replicas of one alerting rule (replica label
   114 = "r") in two groups with the same key, two selector sets; one rule is
   returned, the firing one. *)
Definition ex_gs : list group :=
  [Group [103%N] [Rule Alerting [49%N] [([97%N],[121%N]); ([114%N],[49%N])] [117%N] 60 1 100];
   Group [103%N] [Rule Alerting [49%N] [([97%N],[121%N]); ([114%N],[50%N])] [117%N] 60 2 200;
                  Rule Recording [50%N] [([97%N],[122%N])] [117%N] 0 0 100]].
Example C45_pipeline_nonvacuous :
  rules_api ex_re ex_templ ex_sets [[114%N]] ex_gs
  = [Group [103%N] [Rule Alerting [49%N] [([97%N],[121%N])] [117%N] 60 2 200]].
Proof. vm_compute. reflexivity. Qed.
