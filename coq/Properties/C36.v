(* C36 — Raw downsampling aggregates are exact.
   Property theorems only; each is closed by [exact] of a lemma from Proofs/C36.v.
   Model: Lib/Downsample_Core.v (DownsampleRaw, downsampleRawLoop, downsampleFloatBatch,
   downsampleBatch, floatAggregator, aggrChunkBuilder mint/maxt) instantiated with
   [currentWindow] regenerated from pkg/compact/downsample/downsample.go on every run
   (Gen/C36.v), plus the querier's chunkSeriesIterator (Model/C36.v).
   Values are integers (integer-valued float64 below 2^53: float64 arithmetic is exact);
   [num_chunks] = targetChunkCount(...) is universally quantified: the theorems hold for
   EVERY batch size the float heuristic may choose.
   valid_raw: resolution > 0, timestamps int64, >= 0 and non-decreasing; no bound on length. *)
From Coq Require Import ZArith List Bool Sorted.
Import ListNotations.
From Verif Require Import Lib.Corr Lib.Downsample_Core Gen.C36 Model.C36 Proofs.C36.
Open Scope Z_scope.

(* Clause 1.  DownsampleRaw terminates, the count/sum/min/max lists of every chunk
   have identical timestamps (all_rows succeeds), and every output row (w, count,
   sum, min, max) carries exactly the count, sum, min and max of the raw non-NaN
   samples s with currentWindow(s.t) = currentWindow(w) — over the WHOLE series, not
   only its batch.  Rows appear in strictly increasing window order (one row per
   non-empty window). *)
Theorem C36_windows : forall res num_chunks data,
  valid_raw res data ->
  exists out rows,
    downsample_raw_m res num_chunks data = Some out /\ all_rows out = Some rows /\
    Forall (row_spec res (keep_nonnan data)) rows /\
    StronglySorted Z.lt (map (fun r => cw (fst r) res) rows).
Proof. exact windows_exact. Qed.
Print Assumptions C36_windows.

(* Clause 2.  Totals over the series: sum of counts = number of non-NaN samples, sum of
   sums = sum of values, min of mins / max of maxes = overall min / max. *)
Theorem C36_totals : forall res num_chunks data,
  valid_raw res data ->
  exists out rows,
    downsample_raw_m res num_chunks data = Some out /\ all_rows out = Some rows /\
    totals_spec (keep_nonnan data) rows.
Proof. exact totals_exact. Qed.
Print Assumptions C36_totals.

(* Clause 3.  Chunks are time-ordered and non-overlapping: [mint,maxt] of a chunk lies
   strictly after the previous chunk's maxt; inside a chunk timestamps are strictly
   increasing, the first is mint and the last is maxt. *)
Theorem C36_chunks_ordered : forall res num_chunks data,
  valid_raw res data ->
  exists out, downsample_raw_m res num_chunks data = Some out /\ chunks_spec None out.
Proof. exact chunks_ordered_exact. Qed.
Print Assumptions C36_chunks_ordered.

(* Clause 4.  Reading count / sum / min / max back through the querier's
   chunkSeriesIterator (pkg/query/iter.go: per-chunk iterators, Seek(lastT+1) when entering
   the next chunk) yields exactly the concatenation of the per-chunk lists: nothing is
   dropped by the overlap skip, because of clause 3. *)
Theorem C36_query_readback : forall res num_chunks data,
  valid_raw res data ->
  exists out, downsample_raw_m res num_chunks data = Some out /\
    readbacks out =
      [ concat (map (fun c => olist (k_count c)) out); concat (map (fun c => olist (k_sum c)) out);
        concat (map (fun c => olist (k_min c)) out); concat (map (fun c => olist (k_max c)) out) ].
Proof. exact readback_exact. Qed.
Print Assumptions C36_query_readback.

(* All clauses, plus clause 4 (reading count/sum/min/max back through the querier's
   chunkSeriesIterator yields exactly the concatenated per-chunk lists), through the
   boolean predicate that the check evaluates on the implementation's own output. *)
Theorem C36_pred : forall res num_chunks data,
  valid_input res data = true ->
  exists out, downsample_raw_m res num_chunks data = Some out /\
    pred_ok (CRaw res num_chunks data out (readbacks out)) = true.
Proof. exact pred_holds. Qed.
Print Assumptions C36_pred.

(* The facts about currentWindow (as translated from the Go source) that everything
   rests on: a timestamp is inside its own window, and the window is determined by
   any timestamp inside it. *)
Theorem C36_current_window : forall res, 0 < res ->
  (forall t, 0 <= t -> t <= cw t res) /\
  (forall t t', 0 <= t -> t <= t' -> t' <= cw t res -> cw t' res = cw t res).
Proof. intros res H. split; [exact (cw_ge res H)|exact (cw_same res H)]. Qed.
Print Assumptions C36_current_window.

(* Tie T for the batch size of downsampleRawLoop: the model's (len / numChunks) + 1 is the
   expression assigned to batchSize in the Go source (translated into Gen/C36.v on every run). *)
Theorem C36_batch_size_source : forall len nc,
  Z.to_nat (raw_batch_size (Z.of_nat len) (Z.of_nat nc)) = (len / nc + 1)%nat.
Proof. exact raw_batch_size_model. Qed.
Print Assumptions C36_batch_size_source.

(* Faults on the read path (a sub-chunk's iterator stops with an error, e.g. truncated bytes).
   [read_f] models chunkSeriesIterator over chunk iterators given as (samples yielded before
   ValNone, Err() <> nil).  An error in ANY chunk is reported by the series iterator ... *)
Theorem C36_read_error_reported : forall chunks bound,
  Exists (fun c : list (Z * Z) * bool => snd c = true) chunks -> snd (read_f chunks bound) = true.
Proof. exact read_f_error_reported. Qed.
Print Assumptions C36_read_error_reported.

(* ... and no sample of a later chunk is yielded after the failing chunk: the chunks after
   it do not influence the read at all. *)
Theorem C36_read_stops_at_error : forall pre l post bound,
  Forall (fun c : list (Z * Z) * bool => snd c = false) pre ->
  read_f (pre ++ (l, true) :: post) bound = read_f (pre ++ [(l, true)]) bound.
Proof. exact read_f_stops_at_error. Qed.
Print Assumptions C36_read_stops_at_error.

(* The fault clause of the check's predicate holds of the model for EVERY list of chunk
   iterators: an error of any of them is reported; if none fails and what they yield is
   time-ordered, exactly their samples are read, without error — never fewer samples with a
   nil error.  (Stated on what the sub-chunk iterators report: the third-party XOR decoder
   may also decode truncated bytes to wrong values WITHOUT an error, which no series
   iterator can notice.) *)
Theorem C36_read_fault_pred : forall chunks orig,
  pred_ok (CFault chunks orig (fst (read_faulty chunks)) (snd (read_faulty chunks))) = true.
Proof. exact fault_pred. Qed.
Print Assumptions C36_read_fault_pred.

(* For the aggregates DownsampleRaw writes (count, sum, min or max), whichever sub-chunk
   iterators fail and whatever they yield before failing: the read-back reports an error or
   is exactly the aggregate's values. *)
Theorem C36_read_values_or_error : forall res num_chunks data (f : achunk -> option (list (Z * Z))),
  (f = k_count \/ f = k_sum \/ f = k_min \/ f = k_max) ->
  valid_raw res data ->
  exists out, downsample_raw_m res num_chunks data = Some out /\
    forall chunks,
      Forall2 (fun o (c : list (Z * Z) * bool) => snd c = true \/ c = (o, false))
              (map (fun c => olist (f c)) out) chunks ->
      snd (read_faulty chunks) = true \/
      fst (read_faulty chunks) = concat (map (fun c => olist (f c)) out).
Proof. exact raw_fault. Qed.
Print Assumptions C36_read_values_or_error.

(* Tie T for the read-back: the aggregates the querier selects (aggrsFromFunc, evaluated on
   the linked code into Gen/C36.v) for count_over_time / sum_over_time / min_over_time /
   max_over_time are COUNT / SUM / MIN / MAX; [readbacks] (used in C36_query_readback and
   C36_pred) reads the chunks through this table. *)
Theorem C36_aggr_selection : map lookup_aggr read_funcs = [[1]; [2]; [3]; [4]].
Proof. exact aggr_selection. Qed.
Print Assumptions C36_aggr_selection.

(* Negative timestamps are NOT covered by the theorems above, and the statement is false
   for them: downsampleBatch uses nextT = -1 as "no window yet", so samples at t <= -1 do
   not open a window.  (a) A negative sample before a non-negative one is dropped from all
   aggregates (count 1 for 2 samples).  (b) With only negative samples, all windows are
   merged into a single row at t = -1 whose min is 0 — the zero value of the aggregator that
   was never reset — instead of the true minimum.  Both behaviours are reproduced on the
   real code by corpus/C36/negative_*.json (model = implementation). *)
Theorem C36_negative_timestamps_refuted :
  (let data := [(-10, Some 5); (0, Some 7)] in
   StronglySorted Z.lt (map fst data) /\
   exists out rows, downsample_raw_m 10 1 data = Some out /\ all_rows out = Some rows /\
     rows = [(0, (1, 7, 7, 7))] /\ ~ totals_spec (keep_nonnan data) rows) /\
  (let data := [(-25, Some 1); (-13, Some 2); (-1, Some 4)] in
   StronglySorted Z.lt (map fst data) /\
   exists out rows, downsample_raw_m 10 1 data = Some out /\ all_rows out = Some rows /\
     rows = [(-1, (3, 7, 0, 4))] /\ ~ totals_spec (keep_nonnan data) rows).
Proof. split; [exact negative_lost|exact negative_merged]. Qed.
Print Assumptions C36_negative_timestamps_refuted.

(* Tie T for the batch-extension loop of downsampleRawLoop (`for ; j < len(data) &&
   data[j].t <= curW; j++ {}`): the comparison operator in the Go source (extracted into
   Gen/C36.v on every run) is the inclusive one of the model's take_le — a sample exactly on
   the window's last millisecond stays in the batch. *)
Theorem C36_extension_loop_source : forall t w, ext_take t w = (t <=? w).
Proof. exact ext_take_model. Qed.
Print Assumptions C36_extension_loop_source.

(* Non-vacuity: irregular series with a NaN, a window boundary and two batches
   (num_chunks = 2) at a 10 ms resolution. *)
Example C36_nonvacuous :
  let data := [(0, Some 5); (3, None); (9, Some (-2)); (10, Some 7); (25, Some 1); (26, Some 1); (40, Some 9)] in
  valid_raw 10 data /\ valid_input 10 data = true /\
  exists out, downsample_raw_m 10 2 data = Some out /\ length out = 2%nat /\
    all_rows out = Some [(9, (2, 3, -2, 5)); (10, (1, 7, 7, 7)); (29, (2, 2, 1, 1)); (40, (1, 9, 9, 9))].
Proof.
  cbv zeta. split; [|split; [vm_compute; reflexivity|]].
  - split; [reflexivity|]. split.
    + cbn [map fst]. repeat (constructor; [|repeat constructor; discriminate]). constructor.
    + repeat constructor; cbn; discriminate.
  - eexists. split; [vm_compute; reflexivity|]. split; vm_compute; reflexivity.
Qed.
