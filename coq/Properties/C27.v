(* C27 — Tenants are routed to the hashring their configuration selects.
   Property theorems only. Model: Model/C27.v (multiHashring.GetN, tenantSet.match);
   the shape of the error handling in tenantSet.match and the lock order in GetN are
   read from the source on every run (Gen/C27.v). filepath.Match results are
   arbitrary data; the order of a list stands for Go's map iteration order. *)
From Coq Require Import ZArith List Bool Arith Permutation.
Import ListNotations.
From Verif Require Import Lib.Corr Gen.C27 Model.C27 Proofs.C27.
Close Scope Z_scope.

(* First match: the chosen hashring is the first config whose tenant set
   matches (a config without tenants matches everything); all earlier ones do
   not match. *)
Theorem C27_first_match : forall tenant cfgs k,
  route 0 cfgs tenant = RIdx k ->
  k < length cfgs /\
  tmatch tenant (nth k cfgs TOther) = MTrue /\
  forall j, j < k -> tmatch tenant (nth j cfgs TOther) = MFalse.
Proof. exact route_first_match_0. Qed.
Print Assumptions C27_first_match.

(* ... and an error means: nothing matches, or the first config that does not
   answer "no" contains a malformed pattern and none of its patterns matches. *)
Theorem C27_error_cases : forall tenant cfgs,
  route 0 cfgs tenant = RErr ->
  (forall j, j < length cfgs -> tmatch tenant (nth j cfgs TOther) = MFalse) \/
  (exists j, j < length cfgs /\ tmatch tenant (nth j cfgs TOther) = MErr /\
             forall j', j' < j -> tmatch tenant (nth j' cfgs TOther) = MFalse).
Proof. exact route_err_0. Qed.
Print Assumptions C27_error_cases.

(* The choice cannot depend on Go's map iteration order: permuting the entries
   of every tenant set (exact ids, glob patterns incl. malformed ones) leaves
   the route unchanged; inside a glob set "matches" wins over "malformed". *)
Theorem C27_map_order_irrelevant : forall tenant cfgs cfgs',
  Forall2 tset_perm cfgs cfgs' -> route 0 cfgs tenant = route 0 cfgs' tenant.
Proof. exact route_order_independent_0. Qed.
Print Assumptions C27_map_order_irrelevant.

Theorem C27_glob_match_spec : forall rs,
  glob_match rs = if existsb is_true rs then MTrue else if existsb is_none rs then MErr else MFalse.
Proof. exact glob_match_spec. Qed.
Print Assumptions C27_glob_match_spec.

(* The code before the repair (return on the first pattern error) did depend on that order. *)
Theorem C27_abort_on_error_refuted :
  exists rs rs', Permutation rs rs' /\ glob_loop true false rs <> glob_loop true false rs'.
Proof. exact abort_order_dependent. Qed.
Print Assumptions C27_abort_on_error_refuted.

(* Repeated and concurrent requests: for EVERY interleaving of the atomic steps
   of any number of GetN calls (cache lookup under the read lock; cache store
   of the computed route under the write lock, taken only after a match — source
   fact), starting from any cache holding only computed routes, every response
   is the route computed from the configuration. *)
Theorem C27_cache_transparent : forall compute evs cache,
  (forall p, In p cache -> snd p = compute (fst p)) ->
  forall t r, In (t, r) (exec compute cache evs) -> r = compute t.
Proof. exact exec_correct. Qed.
Print Assumptions C27_cache_transparent.

(* The source keys the cache by the full tenant name (m.cache[tenant], read from the
   source); histories are arbitrary event lists over arbitrarily many tenants. A cache
   that finds entries through a slot (hash) of the name without comparing names is
   NOT transparent: two tenants with different routes sharing a slot are enough. *)
Theorem C27_cache_keyed_by_tenant : cache_key_is_tenant = true.
Proof. exact cache_key_is_tenant_true. Qed.
Print Assumptions C27_cache_keyed_by_tenant.

Theorem C27_slot_cache_refuted : forall compute slot t1 t2 i,
  slot t1 = slot t2 -> compute t1 = RIdx i -> compute t2 <> RIdx i ->
  exists r, In (t2, r) (exec_gen compute false slot [] [Lookup t1; Store t1; Lookup t2]) /\ r <> compute t2.
Proof. exact slot_cache_misroutes. Qed.
Print Assumptions C27_slot_cache_refuted.

Theorem C27_store_guarded : store_guarded = true /\ err_aborts = false.
Proof. exact (conj store_guarded_true err_aborts_false). Qed.
Print Assumptions C27_store_guarded.

(* The model's answer, repeated any number of times, satisfies the predicate the
   check evaluates on the implementation's observations. *)
Theorem C27_pred : forall tenant cfgs n m,
  pred_ok (CRoute [Q tenant cfgs (repeat (route 0 cfgs tenant) (S n)) (repeat (route 0 cfgs tenant) m)]) = true.
Proof. exact pred_ok_model. Qed.
Print Assumptions C27_pred.

(* Non-vacuity: exact, glob (with a malformed pattern next to a matching one), default. *)
Example C27_nonvacuous :
  route 0 [TExact [5; 6]; TGlob [None; Some true]; TDefault]%Z 7%Z = RIdx 1
  /\ route 0 [TExact [5; 6]; TGlob [Some false; None]; TDefault]%Z 7%Z = RErr
  /\ route 0 [TExact [5; 6]; TGlob [Some false]; TDefault]%Z 7%Z = RIdx 2
  /\ Forall2 tset_perm [TGlob [None; Some true]] [TGlob [Some true; None]].
Proof. repeat split; try (vm_compute; reflexivity). constructor; [|constructor]. constructor. apply perm_swap. Qed.
