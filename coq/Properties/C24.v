(* C24 — The remote-write concurrency gate is never exceeded.
   Property theorems only. The LTS (Model/C24.v) has any number of request
   threads of the protobuf and OTLP endpoints around one gate of capacity max;
   labels: arrive (queue in Start), admission, cancel-while-queued, leave the write
   path, deferred Done. Whether Done runs after a FAILED Start is computed from
   the statement order of receiveHTTP / receiveOTLPHTTP (Gen/C24.v, regenerated
   from the source on every run). *)
From Coq Require Import List Bool Arith String.
Import ListNotations.
From Verif Require Import Lib.Corr Gen.C24 Model.C24 Proofs.C24.

(* Source-order fact: in both handlers nothing calls or defers Done between the
   call of Start and the `if err != nil { ...; return }` block, and Done is
   deferred after that block. *)
Theorem C24_done_only_after_successful_start : forall e, done_on_failed_start e = false.
Proof. exact current_source_safe. Qed.
Print Assumptions C24_done_only_after_successful_start.

(* Any capacity, any number of requests, EVERY interleaving of arrivals,
   admissions, cancellations while queued, completions and deferred Dones:
   at most max requests are inside the write path, Done never panics, and the
   gate holds exactly the requests that are inside or about to release. *)
Theorem C24_bound_and_no_panic : forall max ls s,
  run done_on_failed_start max init ls = Some s ->
  working s <= max /\ panics s = 0.
Proof. exact bound_current_source. Qed.
Print Assumptions C24_bound_and_no_panic.

(* The same for any handler pair with the safe order (what the proof uses of the source). *)
Theorem C24_bound_generic : forall dofs max ls s, (forall e, dofs e = false) ->
  run dofs max init ls = Some s ->
  working s <= max /\ panics s = 0 /\ tokens s = working s + exiting s.
Proof. exact bound_all_interleavings. Qed.
Print Assumptions C24_bound_generic.

(* ---- reloads of the limits configuration: several gates ----
   Source-order fact: in both handlers Start and the deferred Done are called
   on one plain identifier that is assigned exactly once (the gate value is
   looked up once per request). *)
Theorem C24_start_and_done_on_the_same_gate : forall e, same_gate e = true.
Proof. exact current_source_same_gate. Qed.
Print Assumptions C24_start_and_done_on_the_same_gate.

(* Any initial capacity, any number of requests and of reloads (each installs a
   fresh gate of any capacity), EVERY interleaving: on every gate, old or new,
   at most its capacity of requests admitted by it are inside the write path,
   its accounting stays balanced (tokens = in the write path + about to
   release) and Done never hits an empty gate. *)
Theorem C24_per_gate_bound_across_reloads : forall max ls gs,
  mrun done_on_failed_start same_gate (minit max) ls = Some gs ->
  Forall (fun g => working (snd g) <= fst g /\ panics (snd g) = 0) gs.
Proof. exact per_gate_bound_current_source. Qed.
Print Assumptions C24_per_gate_bound_across_reloads.

Theorem C24_per_gate_bound_generic : forall dofs same max ls gs,
  (forall e, dofs e = false) -> (forall e, same e = true) ->
  mrun dofs same (minit max) ls = Some gs ->
  Forall (fun g => working (snd g) <= fst g /\ panics (snd g) = 0 /\ tokens (snd g) = working (snd g) + exiting (snd g)) gs.
Proof. exact per_gate_bound. Qed.
Print Assumptions C24_per_gate_bound_generic.

(* Tie to the check: if the implementation's observed counts after every
   scheduled operation (reloads included) are those of the model (corr_ok),
   then the property's predicate holds of those observations (pred_ok). *)
Theorem C24_observed_runs_within_bound : forall c, corr_ok c = true -> pred_ok c = true.
Proof. exact corr_implies_pred. Qed.
Print Assumptions C24_observed_runs_within_bound.

(* ... and the schedule controller's operations are LTS runs. *)
Theorem C24_schedule_is_run : forall dofs same gs o gs', exec_op dofs same gs o = Some gs' ->
  exists ls, mrun dofs same gs ls = Some gs'.
Proof. exact exec_op_is_run. Qed.
Print Assumptions C24_schedule_is_run.

(* A handler that looks the gate up a second time for its Done breaks both
   halves as soon as a request straddles a reload (capacity 1: two requests
   admitted by the new gate inside the write path; Done on the empty new gate). *)
Theorem C24_double_lookup_refuted_bound :
  exists gs, mrun (fun _ => false) (fun _ => false) (minit 1)
    [MOn 0 (LArrive Http); MOn 0 LAdmit; MReload 1; MOn 1 (LArrive Http); MOn 1 LAdmit;
     MOn 0 LFinish; MRelease 0 Http; MOn 1 (LArrive Otlp); MOn 1 LAdmit] = Some gs
    /\ map (fun g => (fst g, working (snd g))) gs = [(1, 0); (1, 2)].
Proof. exact double_lookup_over_admission. Qed.
Print Assumptions C24_double_lookup_refuted_bound.

Theorem C24_double_lookup_refuted_panic :
  exists gs, mrun (fun _ => false) (fun _ => false) (minit 1)
    [MOn 0 (LArrive Http); MOn 0 LAdmit; MReload 1; MOn 0 LFinish; MRelease 0 Http] = Some gs
    /\ sum_of panics gs = 1.
Proof. exact double_lookup_panic. Qed.
Print Assumptions C24_double_lookup_refuted_panic.

(* With the order the source had before the repair (Done deferred before the
   error test) both halves fail: *)
Theorem C24_done_before_check_refuted_bound :
  exists s, run (fun _ => true) 1 init
    [LArrive Http; LAdmit; LArrive Http; LCancel Http; LArrive Otlp; LAdmit] = Some s
    /\ working s = 2.
Proof. exact buggy_over_admission. Qed.
Print Assumptions C24_done_before_check_refuted_bound.

Theorem C24_done_before_check_refuted_panic :
  exists s, run (fun _ => true) 1 init [LArrive Http; LCancel Http] = Some s /\ panics s = 1.
Proof. exact buggy_panic. Qed.
Print Assumptions C24_done_before_check_refuted_panic.

(* Non-vacuity: capacity 2, three arrivals, the queued one is cancelled, one
   finishes, another arrives: a run of the current-source LTS ending with two
   requests in the write path and one cancelled. *)
Example C24_nonvacuous :
  option_map (fun s => (working s, waiting s, finished s, cancelled s, panics s)) (run done_on_failed_start 2 init
    [LArrive Http; LAdmit; LArrive Otlp; LAdmit; LArrive Http; LCancel Http;
     LFinish; LRelease; LArrive Http; LAdmit]) = Some (2, 0, 1, 1, 0).
Proof. vm_compute. reflexivity. Qed.

(* ... and with a reload while a request is queued: the queued request is later
   admitted by the OLD gate, the new gate admits independently. *)
Example C24_nonvacuous_reload :
  option_map snap_of (mrun done_on_failed_start same_gate (minit 1)
    [MOn 0 (LArrive Http); MOn 0 LAdmit; MOn 0 (LArrive Otlp); MReload 1; MOn 1 (LArrive Http); MOn 1 LAdmit;
     MOn 0 LFinish; MRelease 0 Http; MOn 0 LAdmit])
  = Some ([(1, 1, 0); (1, 1, 0)], 1, 0, 0).
Proof. vm_compute. reflexivity. Qed.
