(* C24 — The remote-write concurrency gate is never exceeded.
   Property theorems only. The LTS (Model/C24.v) has any number of request
   threads of the protobuf and OTLP endpoints around one gate of capacity max;
   labels: arrive (queue in Start), admission, cancel-while-queued, leave the write
   path, deferred Done. Whether Done runs after a FAILED Start is computed from
   the statement order of receiveHTTP / receiveOTLPHTTP (Gen/C24.v, regenerated
   from the source on every run). *)
From Coq Require Import List Bool Arith String.
Import ListNotations.
From Verif Require Import Lib.Corr Gen.C24 Model.C24 Proofs.C24.

(* Source-order fact: in both handlers nothing calls or defers Done between the
   call of Start and the `if err != nil { ...; return }` block, and Done is
   deferred after that block. *)
Theorem C24_done_only_after_successful_start : forall e, done_on_failed_start e = false.
Proof. exact current_source_safe. Qed.
Print Assumptions C24_done_only_after_successful_start.

(* Any capacity, any number of requests, EVERY interleaving of arrivals,
   admissions, cancellations while queued, completions and deferred Dones:
   at most max requests are inside the write path, Done never panics, and the
   gate holds exactly the requests that are inside or about to release. *)
Theorem C24_bound_and_no_panic : forall max ls s,
  run done_on_failed_start max init ls = Some s ->
  working s <= max /\ panics s = 0.
Proof. exact bound_current_source. Qed.
Print Assumptions C24_bound_and_no_panic.

(* The same for any handler pair with the safe order (what the proof uses of the source). *)
Theorem C24_bound_generic : forall dofs max ls s, (forall e, dofs e = false) ->
  run dofs max init ls = Some s ->
  working s <= max /\ panics s = 0 /\ tokens s = working s + exiting s.
Proof. exact bound_all_interleavings. Qed.
Print Assumptions C24_bound_generic.

(* Tie to the check: if the implementation's observed counts after every
   scheduled operation are those of the model (corr_ok), then the property's
   predicate holds of those observations (pred_ok). *)
Theorem C24_observed_runs_within_bound : forall c, corr_ok c = true -> pred_ok c = true.
Proof. exact corr_implies_pred. Qed.
Print Assumptions C24_observed_runs_within_bound.

(* ... and the schedule controller's operations are LTS runs that never get stuck. *)
Theorem C24_schedule_is_run : forall dofs max s o s', exec_op dofs max s o = Some s' ->
  exists ls, run dofs max s ls = Some s'.
Proof. exact exec_op_is_run. Qed.
Print Assumptions C24_schedule_is_run.

(* With the order the source had before the repair (Done deferred before the
   error test) both halves fail: *)
Theorem C24_done_before_check_refuted_bound :
  exists s, run (fun _ => true) 1 init
    [LArrive Http; LAdmit; LArrive Http; LCancel Http; LArrive Otlp; LAdmit] = Some s
    /\ working s = 2.
Proof. exact buggy_over_admission. Qed.
Print Assumptions C24_done_before_check_refuted_bound.

Theorem C24_done_before_check_refuted_panic :
  exists s, run (fun _ => true) 1 init [LArrive Http; LCancel Http] = Some s /\ panics s = 1.
Proof. exact buggy_panic. Qed.
Print Assumptions C24_done_before_check_refuted_panic.

(* Non-vacuity: capacity 2, three arrivals, the queued one is cancelled, one
   finishes, another arrives: a run of the current-source LTS ending with two
   requests in the write path and one cancelled. *)
Example C24_nonvacuous :
  option_map snap_of (run done_on_failed_start 2 init
    [LArrive Http; LAdmit; LArrive Otlp; LAdmit; LArrive Http; LCancel Http;
     LFinish; LRelease; LArrive Http; LAdmit]) = Some (2, 0, 1, 1, 0).
Proof. vm_compute. reflexivity. Qed.
