// C36: raw downsampling aggregates are exact.
package main

import (
	"encoding/json"
	"fmt"
	"io"
	"math"
	"math/rand"
	"strings"

	"github.com/prometheus/prometheus/model/histogram"
	"github.com/prometheus/prometheus/model/labels"
	"github.com/prometheus/prometheus/model/value"
	"github.com/prometheus/prometheus/tsdb/chunkenc"
	"github.com/prometheus/prometheus/tsdb/chunks"

	"github.com/thanos-io/thanos/pkg/compact/downsample"
	"github.com/thanos-io/thanos/pkg/query"
	"github.com/thanos-io/thanos/pkg/store/storepb"
	"github.com/thanos-io/thanos/zzverif/common"
	"github.com/thanos-io/thanos/zzverif/downsampleutil"
)

type input struct {
	Res     int64                 `json:"res"`
	Samples []downsampleutil.RawS `json:"samples"`
	// Fault != nil: read ONE aggregate back after truncating the bytes of one sub-chunk
	Fault *faultIn `json:"fault,omitempty"`
}

// faultIn: aggregate Func (index into readFuncs) of chunk Chunk (mod number of chunks) keeps
// only 2 + Keep mod (len-2) of its bytes (2 = the XOR sample-count header).
type faultIn struct {
	Func  int `json:"func"`
	Chunk int `json:"chunk"`
	Keep  int `json:"keep"`
}

// the PromQL functions whose read-back the property is about, in the order count, sum, min, max
var readFuncs = []string{"count_over_time", "sum_over_time", "min_over_time", "max_over_time"}

func facts(repo string, w io.Writer) error {
	if err := downsampleutil.WindowFacts(repo, w); err != nil {
		return err
	}
	// aggrsFromFunc of the linked querier (storepb.Aggr numbers: RAW=0 COUNT=1 SUM=2 MIN=3 MAX=4 COUNTER=5)
	fmt.Fprintln(w, "(* pkg/query/querier.go: aggrsFromFunc, evaluated on the linked code *)")
	var rows []string
	for _, f := range append(append([]string{}, readFuncs...), "count", "min", "max", "sum", "avg_over_time", "rate", "increase") {
		var as []string
		for _, a := range query.VerifC36AggrsFromFunc(f) {
			as = append(as, fmt.Sprintf("%d", int(a)))
		}
		rows = append(rows, fmt.Sprintf("(%s, [%s])", common.CoqString(f), strings.Join(as, "; ")))
	}
	fmt.Fprintf(w, "Definition aggrs_from_func : list (string * list Z) :=\n  [%s]%%string.\n", strings.Join(rows, ";\n   "))
	return nil
}

// one-series storepb.SeriesSet
type oneSeries struct {
	chks []storepb.AggrChunk
	done bool
}

func (s *oneSeries) Next() bool {
	if s.done {
		return false
	}
	s.done = true
	return true
}
func (s *oneSeries) At() (labels.Labels, []storepb.AggrChunk) {
	return labels.FromStrings("a", "1"), s.chks
}
func (s *oneSeries) Err() error { return nil }

func xor(c chunkenc.Chunk) *storepb.Chunk {
	if c == nil {
		return nil
	}
	return &storepb.Chunk{Type: storepb.Chunk_XOR, Data: c.Bytes()}
}

// readback reads one aggregate of the chunks through pkg/query's chunkSeries
// (the translation AggrChunk -> storepb.AggrChunk is what the store gateway does).
func aggrChunks(metas []chunks.Meta) []storepb.AggrChunk {
	var cs []storepb.AggrChunk
	for _, m := range metas {
		ac := m.Chunk.(*downsample.AggrChunk)
		get := func(t downsample.AggrType) chunkenc.Chunk {
			c, err := ac.Get(t)
			if err != nil {
				return nil
			}
			return c
		}
		cs = append(cs, storepb.AggrChunk{MinTime: m.MinTime, MaxTime: m.MaxTime,
			Count: xor(get(downsample.AggrCount)), Sum: xor(get(downsample.AggrSum)),
			Min: xor(get(downsample.AggrMin)), Max: xor(get(downsample.AggrMax)),
			Counter: xor(get(downsample.AggrCounter))})
	}
	return cs
}

func readback(metas []chunks.Meta, aggrs []storepb.Aggr) ([]downsampleutil.S, error) {
	out, err, rerr := readSeries(aggrChunks(metas), aggrs, downsampleutil.ToInt)
	if err == nil {
		err = rerr
	}
	return out, err
}

// readSeries reads cs through pkg/query's chunkSeries. err: harness problem; rerr: the
// iterator's Err() after it returned ValNone.
func readSeries(cs []storepb.AggrChunk, aggrs []storepb.Aggr, conv func(float64) (int64, error)) (out []downsampleutil.S, err, rerr error) {
	if len(cs) == 0 {
		return nil, nil, nil
	}
	set := query.NewPromSeriesSet(&oneSeries{chks: cs}, math.MinInt64, math.MaxInt64, aggrs, nil)
	if !set.Next() {
		return nil, fmt.Errorf("no series"), nil
	}
	it := set.At().Iterator(nil)
	for it.Next() != chunkenc.ValNone {
		t, v := it.At()
		z, err := conv(v)
		if err != nil {
			return nil, err, nil
		}
		out = append(out, downsampleutil.S{T: t, V: z})
	}
	return out, nil, it.Err()
}

func field(c *storepb.AggrChunk, a storepb.Aggr) *storepb.Chunk {
	switch a {
	case storepb.Aggr_COUNT:
		return c.Count
	case storepb.Aggr_SUM:
		return c.Sum
	case storepb.Aggr_MIN:
		return c.Min
	case storepb.Aggr_MAX:
		return c.Max
	}
	return c.Counter
}

// runFault: truncate one sub-chunk of the selected aggregate, decode every sub-chunk on its
// own (what its iterator yields, and whether it stops with an error), read the series back.
func runFault(in input, metas []chunks.Meta) (common.Case, error) {
	var c common.Case
	f := readFuncs[((in.Fault.Func%len(readFuncs))+len(readFuncs))%len(readFuncs)]
	aggrs := query.VerifC36AggrsFromFunc(f)
	if len(aggrs) != 1 {
		return c, fmt.Errorf("aggrsFromFunc(%s) = %v", f, aggrs)
	}
	cs := aggrChunks(metas)
	if len(cs) == 0 {
		return c, fmt.Errorf("no chunks")
	}
	// values are compared for equality only: a truncated XOR chunk may decode to arbitrary
	// floats, so every value of a fault case is represented by its bit pattern
	bits := func(v float64) (int64, error) { return int64(math.Float64bits(v)), nil }
	orig, _, rerr := readSeries(cs, aggrs, bits)
	if rerr != nil {
		return c, fmt.Errorf("intact series does not read back: %v", rerr)
	}
	k := ((in.Fault.Chunk % len(cs)) + len(cs)) % len(cs)
	sub := field(&cs[k], aggrs[0])
	if sub == nil || len(sub.Data) <= 2 {
		return c, fmt.Errorf("sub-chunk too small to truncate")
	}
	keep := 2 + ((in.Fault.Keep%(len(sub.Data)-2))+(len(sub.Data)-2))%(len(sub.Data)-2)
	sub.Data = append([]byte(nil), sub.Data[:keep]...)
	// each sub-chunk on its own
	var parts []string
	anyErr := false
	for i := range cs {
		ch, err := chunkenc.FromData(chunkenc.EncXOR, field(&cs[i], aggrs[0]).Data)
		if err != nil {
			return c, err
		}
		it := ch.Iterator(nil)
		var ss []downsampleutil.S
		for it.Next() != chunkenc.ValNone {
			t, v := it.At()
			z, _ := bits(v)
			ss = append(ss, downsampleutil.S{T: t, V: z})
		}
		if it.Err() != nil {
			anyErr = true
		}
		parts = append(parts, common.Pair(downsampleutil.SamplesCoq(ss), common.Bool(it.Err() != nil)))
	}
	rb, err, rerr := readSeries(cs, aggrs, bits)
	if err != nil {
		return c, err
	}
	c.Coq = common.App("CFault", common.List(parts), downsampleutil.SamplesCoq(orig), downsampleutil.SamplesCoq(rb), common.Bool(rerr != nil))
	pos := "middle"
	if k == len(cs)-1 {
		pos = "last"
	}
	if len(cs) == 1 {
		pos = "only"
	}
	c.Class = fmt.Sprintf("fault:%s chunk, decode-error=%v", pos, anyErr)
	c.Nontrivial = anyErr && len(cs) >= 2
	c.Obs = map[string]any{"func": f, "chunks": len(cs), "faulty_chunk": k, "kept_bytes": keep, "aggregate_samples": len(orig), "read": len(rb), "err": rerr != nil}
	if anyErr && rerr == nil {
		c.GoPred = fmt.Sprintf("%s read back through the querier: the iterator of sub-chunk %d of %d (truncated to %d bytes) stopped with an error, but the series iterator returned %d of %d samples with Err() == nil", f, k, len(cs), keep, len(rb), len(orig))
		c.Sig = "readback-hole-without-error"
	}
	return c, nil
}

type fsample struct {
	t int64
	v float64
}

func (s fsample) T() int64                      { return s.t }
func (s fsample) F() float64                    { return s.v }
func (s fsample) H() *histogram.Histogram       { return nil }
func (s fsample) FH() *histogram.FloatHistogram { return nil }
func (s fsample) Type() chunkenc.ValueType      { return chunkenc.ValFloat }
func (s fsample) Copy() chunks.Sample           { return s }

func run(raw json.RawMessage) (common.Case, error) {
	var in input
	if err := json.Unmarshal(raw, &in); err != nil {
		return common.Case{}, err
	}
	var c common.Case
	if len(in.Samples) == 0 || in.Res <= 0 {
		return c, fmt.Errorf("empty input")
	}
	var ss []chunks.Sample
	nonNaN := 0
	for _, s := range in.Samples {
		v := float64(s.V)
		switch s.K {
		case "nan":
			v = math.NaN()
		case "stale":
			v = math.Float64frombits(value.StaleNaN)
		default:
			nonNaN++
		}
		ss = append(ss, fsample{s.T, v})
	}
	data := downsample.SamplesFromTSDBSamples(ss)
	mint, maxt := in.Samples[0].T, in.Samples[len(in.Samples)-1].T
	nc := downsample.VerifC36TargetChunkCount(mint, maxt, 60000, in.Res, len(in.Samples))
	metas := downsample.DownsampleRaw(data, in.Res)
	if in.Fault != nil && len(metas) > 0 { // nothing to truncate in an all-NaN series
		return runFault(in, metas)
	}
	out, err := downsampleutil.DecodeMetas(metas)
	if err != nil {
		return c, err
	}
	var rbs []string
	for _, f := range readFuncs {
		// the aggregates the querier selects for this function (querier.Select -> aggrsFromFunc)
		a := query.VerifC36AggrsFromFunc(f)
		if len(a) != 1 {
			return c, fmt.Errorf("aggrsFromFunc(%s) = %v: not a single aggregate", f, a)
		}
		rb, err := readback(metas, a)
		if err != nil {
			return c, fmt.Errorf("readback %v: %w", a, err)
		}
		rbs = append(rbs, downsampleutil.SamplesCoq(rb))
	}
	c.Coq = common.App("CRaw", common.Z(in.Res), common.Nat(nc), downsampleutil.RawCoq(in.Samples),
		downsampleutil.ChunksCoq(out), common.List(rbs))
	rows := 0
	for _, k := range out {
		rows += len(k.Count)
	}
	c.Obs = map[string]any{"num_chunks_target": nc, "chunks": len(out), "rows": rows}
	c.Class = fmt.Sprintf("res=%d chunks=%s", in.Res, bucket(len(out)))
	c.Nontrivial = rows >= 2 && nonNaN >= 3
	// Go-side search aid: totals
	var cnt, sum int64
	for _, k := range out {
		for _, s := range k.Count {
			cnt += s.V
		}
		for _, s := range k.Sum {
			sum += s.V
		}
	}
	var wsum int64
	for _, s := range in.Samples {
		if s.K == "" {
			wsum += s.V
		}
	}
	if downsampleutil.ValidRaw(in.Samples) {
		// one output row per window, also across chunk boundaries
		prevW, first := int64(0), true
		for ci, k := range out {
			for _, s := range k.Count {
				w := s.T - s.T%in.Res + in.Res - 1
				if !first && w <= prevW && c.GoPred == "" {
					c.GoPred = fmt.Sprintf("window ending at %d has two output rows (the second one at t=%d in chunk %d): a window was split", w, s.T, ci)
					c.Sig = "window-split"
				}
				prevW, first = w, false
			}
		}
	}
	if downsampleutil.ValidRaw(in.Samples) && c.GoPred == "" {
		if cnt != int64(nonNaN) {
			c.GoPred = fmt.Sprintf("total count %d != number of non-NaN raw samples %d", cnt, nonNaN)
			c.Sig = "count-total"
		} else if sum != wsum {
			c.GoPred = fmt.Sprintf("total sum %d != raw sum %d", sum, wsum)
			c.Sig = "sum-total"
		}
	}
	return c, nil
}

func bucket(n int) string {
	switch {
	case n <= 1:
		return fmt.Sprint(n)
	case n <= 3:
		return "2-3"
	default:
		return "4+"
	}
}

func gen(r *rand.Rand, tier string, n int) []any {
	var out []any
	for i := 0; i < n; i++ {
		out = append(out, input{Res: downsampleutil.GenRes(r), Samples: nil})
		in := out[len(out)-1].(input)
		in.Samples = downsampleutil.GenRaw(r, tier, in.Res, false)
		if r.Intn(5) == 0 {
			// several chunks, every window closed by a sample on its last millisecond
			in.Res = common.Pick(r, downsample.ResLevel1, 10, 1000, 60000, 7)
			nWin := 150 + r.Intn(250)
			if in.Res == downsample.ResLevel1 {
				nWin = 380 + r.Intn(200) // >= 2 chunks needs > 140 expected samples, i.e. > 700 raw samples
			}
			in.Samples = downsampleutil.GenWindowEnds(r, in.Res, nWin)
		} else if r.Intn(4) == 0 {
			// fault on the read path; mostly series with several chunks
			if r.Intn(4) != 0 {
				in.Res = common.Pick(r, int64(1000), 10, 7, 60000)
				in.Samples = downsampleutil.GenDense(r, in.Res, 150+r.Intn(400))
			}
			in.Fault = &faultIn{Func: r.Intn(4), Chunk: r.Intn(8), Keep: r.Intn(1 << 20)}
		}
		out[len(out)-1] = in
	}
	return out
}

func main() {
	common.Main(common.Prop{ID: "C36", Facts: facts, Gen: gen, Run: run, QuickN: 110, ThoroughN: 1200,
		Preamble: "From Verif Require Import Lib.Downsample_Core.\nOpen Scope Z_scope.\n"})
}
