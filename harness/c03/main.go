// C03: StoreAPI fan-out merge returns each series once, sorted, with all chunks.
//
// Runs the real ProxyStore.Series over 1..5 in-process fake store clients that
// stream scripted frames (series split across frames, batches, duplicates across
// stores, warnings), for lazy/eager retrieval, buffer sizes, batch sizes, limits
// and replica-label removal, and prints input + received frames as a Coq case.
package main

import (
	"encoding/json"
	"fmt"
	"go/ast"
	"io"
	"math/rand"
	"sort"
	"strings"

	"github.com/cespare/xxhash/v2"

	"github.com/thanos-io/thanos/pkg/store/storepb"
	"github.com/thanos-io/thanos/zzverif/common"
	pu "github.com/thanos-io/thanos/zzverif/proxyutil"
)

func facts(repo string, w io.Writer) error {
	s, err := common.ParseSrc(repo, "pkg/store/proxy.go")
	if err != nil {
		return err
	}
	fd, err := s.FindFunc("ProxyStore.Series")
	if err != nil {
		return err
	}
	// the `if r.Limit > 0 && i > int(r.Limit) { break }` inside `for respHeap.Next()`
	var cond ast.Expr
	ast.Inspect(fd.Body, func(n ast.Node) bool {
		if cond != nil {
			return false
		}
		if is, ok := n.(*ast.IfStmt); ok && len(is.Body.List) == 1 {
			if br, ok := is.Body.List[0].(*ast.BranchStmt); ok && br.Tok.String() == "break" {
				cond = is.Cond
				return false
			}
		}
		return true
	})
	if cond == nil {
		return fmt.Errorf("srcfacts: pkg/store/proxy.go: ProxyStore.Series: `if ... { break }` (series limit) not found")
	}
	e, err := s.TranslateExpr(cond, map[string]string{"r.Limit": "limit"}, nil)
	if err != nil {
		return err
	}
	fmt.Fprintf(w, "(* pkg/store/proxy.go ProxyStore.Series: `if %s { break }` after i++ *)\n", s.ExprString(cond))
	fmt.Fprintf(w, "Definition limit_break (limit i : Z) : bool :=\n  %s.\n", e)
	return nil
}

func run(raw json.RawMessage) (common.Case, error) {
	var in pu.Input
	if err := json.Unmarshal(raw, &in); err != nil {
		return common.Case{}, err
	}
	var c common.Case
	res := pu.RunProxy(in, 0)

	var scripts []string
	for _, s := range in.Stores {
		scripts = append(scripts, pu.CoqScript(s, "", ""))
	}
	oFrames := common.None
	if res.Err == nil {
		var fs []string
		for _, f := range res.Frames {
			fs = append(fs, pu.CoqFrame(f, func(string) string { return "" }))
		}
		oFrames = common.Some(common.List(fs))
	}
	ws := pu.Warnings(res.Frames)
	c.Coq = common.App("CSeries", common.Bool(in.Lazy), common.Nat(in.Buf), pu.CoqStrList(in.WRL), common.Z(in.Limit),
		common.Nat(int(in.Batch)), common.List(scripts), oFrames, pu.CoqStrList(ws))
	obs := map[string]any{"frames": pu.Describe(res.Frames)}
	if res.Err != nil {
		obs["err"] = "error"
	}
	c.Obs = obs

	// ---- Go-side predicate (search aid): sorted, once, chunks distinct ----
	nSeries, dupSeen := 0, false
	seenIn := map[string]int{}
	for _, s := range in.Stores {
		for _, f := range s.Frames {
			for _, se := range f.Series {
				seenIn[fmt.Sprint(se.Labels)]++
			}
		}
	}
	for _, n := range seenIn {
		if n > 1 {
			dupSeen = true
		}
	}
	if res.Err != nil {
		c.GoPred = "Series returned an error although no store fails"
		c.Sig = "unexpected-error"
	} else {
		var prev string
		first := true
		for _, f := range res.Frames {
			var ss []string
			if f.GetSeries() != nil {
				l, ch := pu.CoqSeries(f.GetSeries())
				ss = append(ss, l+"|"+ch)
			}
			if b := f.GetBatch(); b != nil {
				for _, s := range b.Series {
					l, ch := pu.CoqSeries(s)
					ss = append(ss, l+"|"+ch)
				}
			}
			for _, s := range ss {
				nSeries++
				l := s[:strings.Index(s, "|")]
				if !first && l == prev && sortedInput(in) {
					c.GoPred = "label set listed twice in the response"
					c.Sig = "series-twice"
				}
				prev, first = l, false
			}
		}
		if c.GoPred == "" && sortedInput(in) {
			for _, f := range res.Frames {
				var sers []*seriesT
				if f.GetSeries() != nil {
					sers = append(sers, &seriesT{f.GetSeries().Chunks})
				}
				if b := f.GetBatch(); b != nil {
					for _, s := range b.Series {
						sers = append(sers, &seriesT{s.Chunks})
					}
				}
				for _, s := range sers {
					seen := map[string]bool{}
					for _, ch := range s.chunks {
						k := pu.CoqChunk(ch)
						if seen[k] {
							c.GoPred = "the same chunk is listed twice for one series"
							c.Sig = "duplicate-chunk"
							if ch.Count != nil || ch.Sum != nil || ch.Min != nil || ch.Max != nil || ch.Counter != nil {
								c.Sig = "duplicate-aggr-chunk"
							}
						}
						seen[k] = true
					}
				}
			}
		}
	}
	mode := "eager"
	if in.Lazy {
		mode = "lazy"
	}
	c.Class = fmt.Sprintf("%s/stores=%d", mode, len(in.Stores))
	// non-trivial: at least two stores, at least two series in the result, and some label set sent more than once
	c.Nontrivial = len(in.Stores) >= 2 && nSeries >= 2 && dupSeen
	return c, nil
}

type seriesT struct {
	chunks []storepb.AggrChunk
}

// ---- generator ----

type uSeries struct {
	labels []pu.Lbl // without replica label
	chunks []pu.ChunkIn
}

func mkRaw(id int, min, max int64, explicitHash bool) pu.ChunkIn {
	data := []byte{byte(1 + id%250), byte(id / 250)}
	f := &pu.FieldIn{Type: 1, Data: data}
	if explicitHash {
		f.Hash = xxhash.Sum64(data)
	}
	var c pu.ChunkIn
	c.Min, c.Max = min, max
	c.Fields[0] = f
	return c
}

func mkAggr(id int, min, max int64, nf int) pu.ChunkIn {
	var c pu.ChunkIn
	c.Min, c.Max = min, max
	for k := 0; k < nf && k < 5; k++ {
		c.Fields[1+k] = &pu.FieldIn{Type: 1, Data: []byte{byte(1 + id%250), byte(id / 250), byte(10 + k)}}
	}
	return c
}

func sortedInput(in pu.Input) bool {
	wrl := len(in.WRL) > 0
	for _, s := range in.Stores {
		if !in.Lazy || (!s.Supports && wrl) {
			continue
		}
		var prev string
		first := true
		for _, f := range s.Frames {
			for _, se := range f.Series {
				k := labelsKey(se.Labels)
				if !first && k < prev {
					return false
				}
				prev, first = k, false
			}
		}
	}
	return true
}

// labelsKey orders label sets like labels.Compare for the generator's alphabet
// (names and values without bytes below 0x02).
func labelsKey(ls []pu.Lbl) string {
	cp := append([]pu.Lbl(nil), ls...)
	sort.Slice(cp, func(i, j int) bool { return cp[i][0] < cp[j][0] })
	var sb strings.Builder
	for _, l := range cp {
		sb.WriteString(l[0])
		sb.WriteByte(1)
		sb.WriteString(l[1])
		sb.WriteByte(1)
	}
	return sb.String()
}

func gen(r *rand.Rand, tier string, n int) []any {
	var out []any
	big := tier == "thorough"
	for i := 0; i < n; i++ {
		var in pu.Input
		in.Lazy = r.Intn(2) == 0
		in.Buf = common.Pick(r, 0, 1, 1, 2, 3, 20)
		in.Batch = common.Pick(r, int64(0), 1, 2, 3, 5, 64)
		if r.Intn(5) == 0 {
			in.Limit = common.Between(r, 1, 6)
		}
		if r.Intn(3) == 0 {
			in.Jitter = 1 + r.Intn(1000)
		}
		useReplica := r.Intn(2) == 0
		if useReplica && r.Intn(4) != 0 {
			in.WRL = []string{"r"}
		}
		// universe of series
		nU := 1 + r.Intn(6)
		if big {
			nU = 1 + r.Intn(14)
		}
		var uni []uSeries
		seen := map[string]bool{}
		cid := 0
		for len(uni) < nU {
			var ls []pu.Lbl
			ls = append(ls, pu.Lbl{"a", common.Pick(r, "1", "2", "3", "10")})
			if r.Intn(2) == 0 {
				ls = append(ls, pu.Lbl{"b", common.Pick(r, "x", "y", "")})
			}
			if r.Intn(6) == 0 {
				ls = append(ls, pu.Lbl{"z", common.Pick(r, "1", "2")})
			}
			if r.Intn(8) == 0 {
				ls = append(ls, pu.Lbl{"__name__", "up"})
			}
			// drop empty-valued labels (a store never sends them)
			var ls2 []pu.Lbl
			for _, l := range ls {
				if l[1] != "" {
					ls2 = append(ls2, l)
				}
			}
			k := labelsKey(ls2)
			if seen[k] {
				if r.Intn(4) == 0 {
					break
				}
				continue
			}
			seen[k] = true
			u := uSeries{labels: ls2}
			nc := r.Intn(5)
			t := common.Between(r, 0, 50)
			for q := 0; q < nc; q++ {
				cid++
				d := common.Between(r, 1, 10)
				switch {
				case r.Intn(6) == 0:
					u.chunks = append(u.chunks, mkAggr(cid, t, t+d, 1+r.Intn(5)))
				default:
					u.chunks = append(u.chunks, mkRaw(cid, t, t+d, r.Intn(3) == 0))
				}
				switch r.Intn(4) {
				case 0: // overlapping / same start
				case 1:
					t += d
				default:
					t += d + 1
				}
			}
			uni = append(uni, u)
		}
		nStores := 1 + r.Intn(5)
		unsorted := r.Intn(12) == 0
		for si := 0; si < nStores; si++ {
			st := pu.StoreIn{Name: fmt.Sprintf("store%d", si), Supports: r.Intn(4) != 0}
			replica := fmt.Sprint(si % 2)
			type item struct {
				labels []pu.Lbl
				chunks []pu.ChunkIn
			}
			var items []item
			for _, u := range uni {
				if r.Intn(3) == 0 {
					continue
				}
				reps := []string{replica}
				if useReplica && r.Intn(4) == 0 {
					reps = []string{"0", "1"} // the store holds both replicas
				}
				for _, rep := range reps {
					ls := append([]pu.Lbl(nil), u.labels...)
					if useReplica && !(st.Supports && len(in.WRL) > 0) {
						ls = append(ls, pu.Lbl{"r", rep})
					}
					// subset of the chunks (duplicates across stores), split over 1..3 frames
					var cs []pu.ChunkIn
					for _, ch := range u.chunks {
						if r.Intn(4) != 0 {
							cs = append(cs, ch)
						}
					}
					parts := 1
					if r.Intn(3) == 0 {
						parts = 2 + r.Intn(2)
					}
					for p := 0; p < parts; p++ {
						lo, hi := p*len(cs)/parts, (p+1)*len(cs)/parts
						items = append(items, item{ls, append([]pu.ChunkIn(nil), cs[lo:hi]...)})
					}
				}
			}
			sort.SliceStable(items, func(a, b int) bool { return labelsKey(items[a].labels) < labelsKey(items[b].labels) })
			if unsorted && len(items) >= 2 && r.Intn(2) == 0 {
				a, b := r.Intn(len(items)), r.Intn(len(items))
				items[a], items[b] = items[b], items[a]
			}
			// frames: single series or batches; occasional warnings
			for k := 0; k < len(items); {
				if r.Intn(10) == 0 {
					st.Frames = append(st.Frames, pu.FrameIn{Kind: "warn", Warn: fmt.Sprintf("w%d-%d%s", si, k, strings.Repeat("!", r.Intn(3)))})
				}
				if r.Intn(3) == 0 {
					m := 1 + r.Intn(4)
					if k+m > len(items) {
						m = len(items) - k
					}
					f := pu.FrameIn{Kind: "batch"}
					for _, it := range items[k : k+m] {
						f.Series = append(f.Series, pu.SeriesIn{Labels: it.labels, Chunks: it.chunks})
					}
					st.Frames = append(st.Frames, f)
					k += m
				} else {
					st.Frames = append(st.Frames, pu.FrameIn{Kind: "series", Series: []pu.SeriesIn{{Labels: items[k].labels, Chunks: items[k].chunks}}})
					k++
				}
			}
			if r.Intn(15) == 0 {
				st.Frames = append(st.Frames, pu.FrameIn{Kind: "warn", Warn: fmt.Sprintf("end%d", si)})
			}
			in.Stores = append(in.Stores, st)
		}
		out = append(out, in)
	}
	return out
}

func main() {
	common.Main(common.Prop{ID: "C03", Facts: facts, Gen: gen, Run: run, QuickN: 600, ThoroughN: 12000,
		Preamble: "Open Scope Z_scope.\n"})
}
