// C03: StoreAPI fan-out merge returns each series once, sorted, with all chunks.
//
// Runs the real ProxyStore.Series over 1..5 in-process fake store clients that
// stream scripted frames (series split across frames, batches, duplicates across
// stores, warnings), for lazy/eager retrieval, buffer sizes, batch sizes, limits
// and replica-label removal, and prints input + received frames as a Coq case.
package main

import (
	"encoding/json"
	"fmt"
	"go/ast"
	"io"
	"math/rand"
	"strings"

	"github.com/thanos-io/thanos/pkg/store/storepb"
	"github.com/thanos-io/thanos/zzverif/common"
	pu "github.com/thanos-io/thanos/zzverif/proxyutil"
)

func facts(repo string, w io.Writer) error {
	s, err := common.ParseSrc(repo, "pkg/store/proxy.go")
	if err != nil {
		return err
	}
	fd, err := s.FindFunc("ProxyStore.Series")
	if err != nil {
		return err
	}
	// the `if r.Limit > 0 && i > int(r.Limit) { break }` inside `for respHeap.Next()`
	var cond ast.Expr
	ast.Inspect(fd.Body, func(n ast.Node) bool {
		if cond != nil {
			return false
		}
		if is, ok := n.(*ast.IfStmt); ok && len(is.Body.List) == 1 {
			if br, ok := is.Body.List[0].(*ast.BranchStmt); ok && br.Tok.String() == "break" {
				cond = is.Cond
				return false
			}
		}
		return true
	})
	if cond == nil {
		return fmt.Errorf("srcfacts: pkg/store/proxy.go: ProxyStore.Series: `if ... { break }` (series limit) not found")
	}
	e, err := s.TranslateExpr(cond, map[string]string{"r.Limit": "limit"}, nil)
	if err != nil {
		return err
	}
	fmt.Fprintf(w, "(* pkg/store/proxy.go ProxyStore.Series: `if %s { break }` after i++ *)\n", s.ExprString(cond))
	fmt.Fprintf(w, "Definition limit_break (limit i : Z) : bool :=\n  %s.\n", e)
	return ringFacts(repo, w)
}

// ringFacts translates the one-line index computations of the lazy response set's ring
// buffer (pkg/store/proxy_merge.go) for the interleaving proof Proofs/C03_Ring.v.
func ringFacts(repo string, w io.Writer) error {
	s, err := common.ParseSrc(repo, "pkg/store/proxy_merge.go")
	if err != nil {
		return err
	}
	consts := map[string]string{"rb.ringHead": "ringHead", "rb.ringTail": "ringTail", "rb.fixedBufferSize": "fixedBufferSize"}
	ret := func(fn string) (ast.Expr, error) {
		fd, err := s.FindFunc(fn)
		if err != nil {
			return nil, err
		}
		if len(fd.Body.List) == 1 {
			if r, ok := fd.Body.List[0].(*ast.ReturnStmt); ok && len(r.Results) == 1 {
				return r.Results[0], nil
			}
		}
		return nil, fmt.Errorf("srcfacts: pkg/store/proxy_merge.go: %s is no longer a single return statement", fn)
	}
	assign := func(fn, field string) (ast.Expr, error) {
		fd, err := s.FindFunc(fn)
		if err != nil {
			return nil, err
		}
		var found ast.Expr
		ast.Inspect(fd.Body, func(n ast.Node) bool {
			if as, ok := n.(*ast.AssignStmt); ok && found == nil && len(as.Lhs) == 1 && len(as.Rhs) == 1 {
				if se, ok := as.Lhs[0].(*ast.SelectorExpr); ok && se.Sel.Name == field {
					found = as.Rhs[0]
				}
			}
			return true
		})
		if found == nil {
			return nil, fmt.Errorf("srcfacts: pkg/store/proxy_merge.go: %s: no assignment to rb.%s", fn, field)
		}
		return found, nil
	}
	for _, d := range []struct {
		name, params, typ string
		get               func() (ast.Expr, error)
	}{
		{"ring_is_empty", "(ringHead ringTail : Z)", "bool", func() (ast.Expr, error) { return ret("ringBuffer.isEmpty") }},
		{"ring_is_full", "(ringHead ringTail fixedBufferSize : Z)", "bool", func() (ast.Expr, error) { return ret("ringBuffer.isFull") }},
		{"ring_next_tail", "(ringTail fixedBufferSize : Z)", "Z", func() (ast.Expr, error) { return assign("ringBuffer.append", "ringTail") }},
		{"ring_next_head", "(ringHead fixedBufferSize : Z)", "Z", func() (ast.Expr, error) { return assign("ringBuffer.pop", "ringHead") }},
	} {
		e, err := d.get()
		if err != nil {
			return err
		}
		t, err := s.TranslateExpr(e, consts, nil)
		if err != nil {
			return err
		}
		fmt.Fprintf(w, "(* pkg/store/proxy_merge.go ringBuffer: `%s` *)\n", s.ExprString(e))
		fmt.Fprintf(w, "Definition %s %s : %s :=\n  %s.\n", d.name, d.params, d.typ, t)
	}
	return nil
}

func run(raw json.RawMessage) (common.Case, error) {
	var in pu.Input
	if err := json.Unmarshal(raw, &in); err != nil {
		return common.Case{}, err
	}
	var c common.Case
	res := pu.RunProxy(in, 0)

	var scripts []string
	for _, s := range in.Stores {
		scripts = append(scripts, pu.CoqScript(s, "", ""))
	}
	oFrames := common.None
	if res.Err == nil {
		var fs []string
		for _, f := range res.Frames {
			fs = append(fs, pu.CoqFrame(f, func(string) string { return "" }))
		}
		oFrames = common.Some(common.List(fs))
	}
	ws := pu.Warnings(res.Frames)
	c.Coq = common.App("CSeries", common.Bool(in.Lazy), common.Nat(in.Buf), pu.CoqStrList(in.WRL), common.Z(in.Limit),
		common.Nat(int(in.Batch)), common.List(scripts), oFrames, pu.CoqStrList(ws))
	obs := map[string]any{"frames": pu.Describe(res.Frames)}
	if len(in.Sched) > 0 {
		obs["receiver_schedule_realised"] = fmt.Sprint(res.Trace)
	}
	if res.Err != nil {
		obs["err"] = "error"
	}
	c.Obs = obs

	// ---- Go-side predicate (search aid): sorted, once, chunks distinct ----
	nSeries, dupSeen := 0, false
	seenIn := map[string]int{}
	for _, s := range in.Stores {
		for _, f := range s.Frames {
			for _, se := range f.Series {
				seenIn[fmt.Sprint(se.Labels)]++
			}
		}
	}
	for _, n := range seenIn {
		if n > 1 {
			dupSeen = true
		}
	}
	if res.Err != nil {
		c.GoPred = "Series returned an error although no store fails"
		c.Sig = "unexpected-error"
	} else {
		var prev string
		first := true
		for _, f := range res.Frames {
			var ss []string
			if f.GetSeries() != nil {
				l, ch := pu.CoqSeries(f.GetSeries())
				ss = append(ss, l+"|"+ch)
			}
			if b := f.GetBatch(); b != nil {
				for _, s := range b.Series {
					l, ch := pu.CoqSeries(s)
					ss = append(ss, l+"|"+ch)
				}
			}
			for _, s := range ss {
				nSeries++
				l := s[:strings.Index(s, "|")]
				if !first && l == prev && pu.SortedInput(in) {
					c.GoPred = "label set listed twice in the response"
					c.Sig = "series-twice"
				}
				prev, first = l, false
			}
		}
		if c.GoPred == "" && pu.SortedInput(in) {
			for _, f := range res.Frames {
				var sers []*seriesT
				if f.GetSeries() != nil {
					sers = append(sers, &seriesT{f.GetSeries().Chunks})
				}
				if b := f.GetBatch(); b != nil {
					for _, s := range b.Series {
						sers = append(sers, &seriesT{s.Chunks})
					}
				}
				for _, s := range sers {
					seen := map[string]bool{}
					for _, ch := range s.chunks {
						k := pu.CoqChunk(ch)
						if seen[k] {
							c.GoPred = "the same chunk is listed twice for one series"
							c.Sig = "duplicate-chunk"
							if ch.Count != nil || ch.Sum != nil || ch.Min != nil || ch.Max != nil || ch.Counter != nil {
								c.Sig = "duplicate-aggr-chunk"
							}
						}
						seen[k] = true
					}
				}
			}
		}
	}
	mode := "eager"
	if in.Lazy {
		mode = "lazy"
	}
	c.Class = fmt.Sprintf("%s/stores=%d", mode, len(in.Stores))
	if len(in.Sched) > 0 {
		c.Class += "/scheduled"
	}
	// non-trivial: at least two stores, at least two series in the result, and some label set sent more than once
	c.Nontrivial = len(in.Stores) >= 2 && nSeries >= 2 && dupSeen
	return c, nil
}

type seriesT struct {
	chunks []storepb.AggrChunk
}

func gen(r *rand.Rand, tier string, n int) []any {
	var out []any
	for i := 0; i < n; i++ {
		out = append(out, pu.GenBase(r, tier == "thorough"))
	}
	return out
}

func main() {
	common.Main(common.Prop{ID: "C03", Facts: facts, Gen: gen, Run: run, QuickN: 600, ThoroughN: 6000,
		Preamble: "Open Scope Z_scope.\n"})
}
