// C32: blocks are deleted only when retention and delays allow it.
package main

import (
	"bytes"
	"context"
	"encoding/json"
	"fmt"
	"go/ast"
	"io"
	"math/rand"
	"path"
	"strings"
	"time"

	"github.com/go-kit/log"
	"github.com/oklog/ulid/v2"
	"github.com/prometheus/client_golang/prometheus"
	"github.com/prometheus/client_golang/prometheus/promauto"
	"github.com/thanos-io/objstore"

	"github.com/thanos-io/thanos/pkg/block"
	"github.com/thanos-io/thanos/pkg/block/metadata"
	"github.com/thanos-io/thanos/pkg/compact"
	"github.com/thanos-io/thanos/pkg/extprom"
	"github.com/thanos-io/thanos/zzverif/common"
	cu "github.com/thanos-io/thanos/zzverif/compactutil"
)

// All times in an input are RELATIVE to the wall clock at the moment the case
// runs (the code under test calls time.Now() itself).
type item struct {
	// retention: resolution (0, 300000, 3600000), retention for that resolution,
	// and d = (block MaxTime + retention) - now, in ms; frac = wanted MaxTime mod 1000
	// (the retention is lengthened by < 1 s to get it; -1 = leave as is).
	Res   int64 `json:"res,omitempty"`
	RetMs int64 `json:"ret_ms,omitempty"`
	Frac  int64 `json:"frac,omitempty"`
	// cleaner: k = mark time - floor(now - delay), in s.
	// partial: d = (last modified + threshold) - now, in ms.
	D int64 `json:"d"`
	// partial: block carries a deletion mark; no last-modified attribute available
	// (then the time in the ULID, set from D, is used).
	Marked bool `json:"marked,omitempty"`
	NoLM   bool `json:"no_lm,omitempty"`
	// partial: the listing of the block's objects fails after this many objects (0 = before
	// the first one); -1 / absent = no fault.  With a fault the ULID time is set to the same
	// age as the newest object.
	ListFault *int `json:"list_fault,omitempty"`
}

type input struct {
	Kind    string `json:"kind"` // retention | cleaner | partial
	DelayMs int64  `json:"delay_ms,omitempty"`
	Items   []item `json:"items"`
}

// ---- tie T -------------------------------------------------------------------

func singleStmt(b *ast.BlockStmt, kind string) bool { return cu.BodyKinds(b) == kind }

func facts(repo string, w io.Writer) error {
	// retention.go
	s, err := common.ParseSrc(repo, "pkg/compact/retention.go")
	if err != nil {
		return err
	}
	const fn = "ApplyRetentionPolicyByResolution"
	names := map[string]string{"m.MaxTime": "maxt", "retentionDuration": "ret", "maxTime": "maxTime"}
	ifz, err := cu.TheIf(s, fn, "`if <retention is zero> { continue }`", func(is *ast.IfStmt) bool {
		return singleStmt(is.Body, "continue") && cu.Mentions(is.Cond, "retentionDuration")
	})
	if err != nil {
		return err
	}
	c, err := cu.TimeExpr(ifz.Cond, names)
	if err != nil {
		return err
	}
	fmt.Fprintln(w, "(* all instants and durations in nanoseconds; block times (maxt) in milliseconds *)")
	fmt.Fprintln(w, "(* pkg/compact/retention.go: retention disabled for this resolution *)")
	fmt.Fprint(w, cu.Def("retention_disabled", []string{"ret"}, "bool", c))
	rhs, err := s.RHS(fn, "maxTime")
	if err != nil {
		return err
	}
	c, err = cu.TimeExpr(rhs, names)
	if err != nil {
		return err
	}
	fmt.Fprintln(w, "(* retention.go: the instant taken as the block's end (maxTime := ...) *)")
	fmt.Fprint(w, cu.Def("retention_maxTime", []string{"maxt"}, "Z", c))
	ifd, err := cu.TheIf(s, fn, "the if around block.MarkForDeletion", func(is *ast.IfStmt) bool {
		found := false
		ast.Inspect(is.Body, func(n ast.Node) bool {
			if ce, ok := n.(*ast.CallExpr); ok && s.ExprString(ce.Fun) == "block.MarkForDeletion" {
				found = true
			}
			return true
		})
		return found && cu.Mentions(is.Cond, "maxTime")
	})
	if err != nil {
		return err
	}
	c, err = cu.TimeExpr(ifd.Cond, names)
	if err != nil {
		return err
	}
	fmt.Fprintln(w, "(* retention.go: the block is marked for deletion *)")
	fmt.Fprint(w, cu.Def("retention_due", []string{"now", "maxTime", "ret"}, "bool", c))

	// blocks_cleaner.go
	s, err = common.ParseSrc(repo, "pkg/compact/blocks_cleaner.go")
	if err != nil {
		return err
	}
	ifc, err := cu.TheIf(s, "BlocksCleaner.DeleteMarkedBlocks", "the if around block.Delete", func(is *ast.IfStmt) bool {
		return cu.Mentions(is.Cond, "deleteDelay")
	})
	if err != nil {
		return err
	}
	c, err = cu.TimeExpr(ifc.Cond, map[string]string{"deletionMark.DeletionTime": "mark", "s.deleteDelay": "delay"})
	if err != nil {
		return err
	}
	fmt.Fprintln(w, "(* pkg/compact/blocks_cleaner.go: a marked block is deleted; mark = DeletionTime in seconds *)")
	fmt.Fprint(w, cu.Def("cleaner_due", []string{"now", "mark", "delay"}, "bool", c))

	// clean.go
	s, err = common.ParseSrc(repo, "pkg/compact/clean.go")
	if err != nil {
		return err
	}
	fmt.Fprintln(w, "(* pkg/compact/clean.go *)")
	fmt.Fprintf(w, "Definition PartialUploadThresholdAge : Z := %d.\n", int64(compact.PartialUploadThresholdAge))
	const pf = "BestEffortCleanAbortedPartialUploads"
	ify, err := cu.TheIf(s, pf, "`if <too young> { continue }`", func(is *ast.IfStmt) bool {
		return singleStmt(is.Body, "continue") && cu.Mentions(is.Cond, "lastModifiedTime")
	})
	if err != nil {
		return err
	}
	c, err = cu.TimeExpr(ify.Cond, map[string]string{"lastModifiedTime": "lm", "PartialUploadThresholdAge": "PartialUploadThresholdAge"})
	if err != nil {
		return err
	}
	fmt.Fprintln(w, "(* clean.go: the partial upload is left alone; lm = newest last-modified of its objects *)")
	fmt.Fprint(w, cu.Def("partial_young", []string{"now", "lm"}, "bool", c))
	// getOldestModifiedTime: what is returned when the listing failed
	ife, err := cu.TheIf(s, "getOldestModifiedTime", "`if err != nil { return ..., err }` after the listing", func(is *ast.IfStmt) bool {
		return s.ExprString(is.Cond) == "err != nil" && singleStmt(is.Body, "return")
	})
	if err != nil {
		return err
	}
	ret := ife.Body.List[0].(*ast.ReturnStmt)
	if len(ret.Results) != 2 {
		return fmt.Errorf("srcfacts: getOldestModifiedTime: error path returns %d values", len(ret.Results))
	}
	var onErr string
	switch txt := s.ExprString(ret.Results[0]); txt {
	case "timestamp.Time(int64(blockID.Time()))":
		onErr = "ulid_t"
	case "lastModifiedTime":
		onErr = "seen"
	default:
		return fmt.Errorf("srcfacts: getOldestModifiedTime: error path returns %s, not translatable", txt)
	}
	fmt.Fprintln(w, "(* clean.go getOldestModifiedTime: the time returned when listing the block's objects failed;")
	fmt.Fprintln(w, "   ulid_t = creation time in the block's ULID, seen = newest last-modified time seen before the failure *)")
	fmt.Fprint(w, cu.Def("oldest_time_on_error", []string{"ulid_t", "seen"}, "Z", onErr))
	// the deletion-mark test comes first in the loop body and continues
	fd, err := s.FindFunc(pf)
	if err != nil {
		return err
	}
	skips := false
	ast.Inspect(fd.Body, func(n ast.Node) bool {
		rs, ok := n.(*ast.RangeStmt)
		if !ok || s.ExprString(rs.X) != "partial" || len(rs.Body.List) == 0 {
			return true
		}
		is, ok := rs.Body.List[0].(*ast.IfStmt)
		if !ok || is.Init == nil || is.Else != nil {
			return false
		}
		init := s.ExprString(is.Init.(*ast.AssignStmt).Rhs[0])
		kinds := cu.BodyKinds(is.Body)
		if init == "deletionMarkBlocks[id]" && s.ExprString(is.Cond) == "ok" && strings.HasSuffix(kinds, "continue") {
			skips = true
		}
		return false
	})
	fmt.Fprintln(w, "(* clean.go: the loop over partial blocks starts with `if _, ok := deletionMarkBlocks[id]; ok { ...; continue }` *)")
	fmt.Fprintf(w, "Definition partial_skips_marked : bool := %v.\n", skips)
	return nil
}

// ---- running the real code -----------------------------------------------------

func mkULID(ms uint64, n int) ulid.ULID {
	var u ulid.ULID
	if err := u.SetTime(ms); err != nil {
		panic(err)
	}
	u[15] = byte(n)
	u[14] = byte(n >> 8)
	return u
}

func counter() prometheus.Counter { return promauto.With(nil).NewCounter(prometheus.CounterOpts{}) }

func floorDiv(a, b int64) int64 {
	q := a / b
	if a%b != 0 && (a < 0) != (b < 0) {
		q--
	}
	return q
}

func mod(a, b int64) int64 { return a - floorDiv(a, b)*b }

func upload(bkt objstore.Bucket, name string, data []byte) error {
	return bkt.Upload(context.Background(), name, bytes.NewReader(data))
}

func hasObjects(bkt objstore.Bucket, dir string) (bool, error) {
	n := 0
	err := bkt.Iter(context.Background(), dir, func(string) error { n++; return nil }, objstore.WithRecursiveIter())
	return n > 0, err
}

func run(raw json.RawMessage) (common.Case, error) {
	var in input
	if err := json.Unmarshal(raw, &in); err != nil {
		return common.Case{}, err
	}
	ctx := context.Background()
	logger := log.NewNopLogger()
	var c common.Case
	c.Class = in.Kind
	inmem := objstore.NewInMemBucket()
	bkt := cu.NewRecBucket(inmem)
	now0 := time.Now()
	switch in.Kind {
	case "retention":
		metas := map[ulid.ULID]*metadata.Meta{}
		ret := map[compact.ResolutionLevel]time.Duration{}
		type b struct {
			id   ulid.ULID
			maxt int64
			ret  time.Duration
		}
		var bs []b
		for i, it := range in.Items {
			retMs := it.RetMs
			maxt := now0.UnixMilli() - retMs + it.D
			if retMs != 0 && it.Frac >= 0 {
				adj := mod(maxt-it.Frac, 1000)
				retMs += adj
				maxt -= adj
			}
			if _, dup := ret[compact.ResolutionLevel(it.Res)]; dup {
				return c, fmt.Errorf("two items with the same resolution")
			}
			ret[compact.ResolutionLevel(it.Res)] = time.Duration(retMs) * time.Millisecond
			m := &metadata.Meta{}
			m.Version = 1
			m.ULID = mkULID(uint64(1000+i), i)
			m.MinTime, m.MaxTime = maxt-7200000, maxt
			m.Thanos.Downsample.Resolution = it.Res
			metas[m.ULID] = m
			bs = append(bs, b{m.ULID, maxt, time.Duration(retMs) * time.Millisecond})
		}
		nowA := time.Now()
		err := compact.ApplyRetentionPolicyByResolution(ctx, logger, bkt, metas, ret, counter())
		nowB := time.Now()
		if err != nil {
			return c, err
		}
		var xs []string
		var obs []any
		for _, x := range bs {
			marked, err := inmem.Exists(ctx, path.Join(x.id.String(), metadata.DeletionMarkFilename))
			if err != nil {
				return c, err
			}
			xs = append(xs, common.Tuple(common.Z(x.maxt), common.Z(int64(x.ret)), common.Bool(marked)))
			obs = append(obs, map[string]any{"maxt_ms": x.maxt, "retention_ns": int64(x.ret), "marked": marked, "newest_sample_age_ns_at_most": nowB.UnixNano() - (x.maxt-1)*1e6})
			if marked {
				c.Nontrivial = true
				if x.ret == 0 {
					c.GoPred, c.Sig = "block marked although retention is disabled for its resolution", "retention-disabled-marked"
				} else if !(nowB.UnixNano()-(x.maxt-1)*1e6 > int64(x.ret)) {
					c.GoPred, c.Sig = fmt.Sprintf("block marked for deletion while its newest sample (MaxTime-1 = %d ms) is not yet older than the retention %v", x.maxt-1, x.ret), "retention-early"
				}
			}
		}
		c.Obs = obs
		c.Coq = common.App("CRet", common.Z(nowA.UnixNano()), common.Z(nowB.UnixNano()), common.List(xs))
		return c, nil

	case "cleaner":
		delay := time.Duration(in.DelayMs) * time.Millisecond
		metas := map[ulid.ULID]*metadata.Meta{}
		type b struct {
			id   ulid.ULID
			mark int64
		}
		var bs []b
		for i, it := range in.Items {
			id := mkULID(uint64(2000+i), i)
			mark := floorDiv(now0.UnixNano()-int64(delay), 1e9) + it.D
			m := &metadata.Meta{}
			m.Version = 1
			m.ULID = id
			metas[id] = m
			mj, _ := json.Marshal(m)
			if err := upload(inmem, path.Join(id.String(), block.MetaFilename), mj); err != nil {
				return c, err
			}
			if err := upload(inmem, path.Join(id.String(), "chunks", "000001"), []byte("x")); err != nil {
				return c, err
			}
			dm, _ := json.Marshal(metadata.DeletionMark{ID: id, Version: metadata.DeletionMarkVersion1, DeletionTime: mark})
			if err := upload(inmem, path.Join(id.String(), metadata.DeletionMarkFilename), dm); err != nil {
				return c, err
			}
			bs = append(bs, b{id, mark})
		}
		f := block.NewIgnoreDeletionMarkFilter(logger, objstore.WithNoopInstr(bkt), 0, 4)
		g := extprom.NewTxGaugeVec(nil, prometheus.GaugeOpts{}, []string{"state"})
		if err := f.Filter(ctx, metas, g, g); err != nil {
			return c, err
		}
		cl := compact.NewBlocksCleaner(logger, bkt, f, delay, counter(), counter())
		nowA := time.Now()
		deleted, err := cl.DeleteMarkedBlocks(ctx)
		nowB := time.Now()
		if err != nil {
			return c, err
		}
		var xs []string
		var obs []any
		for _, x := range bs {
			_, del := deleted[x.id]
			left, err := hasObjects(inmem, x.id.String())
			if err != nil {
				return c, err
			}
			xs = append(xs, common.Pair(common.Z(x.mark), common.Bool(del || !left)))
			obs = append(obs, map[string]any{"mark_s": x.mark, "deleted": del, "objects_left": left, "mark_age_ns": nowB.UnixNano() - x.mark*1e9})
			if del != !left {
				c.GoPred, c.Sig = "DeleteMarkedBlocks' result disagrees with the bucket contents", "cleaner-inconsistent"
			}
			if del || !left {
				c.Nontrivial = true
				if !(nowB.UnixNano()-x.mark*1e9 > int64(delay)) {
					c.GoPred, c.Sig = fmt.Sprintf("block deleted although its deletion mark is not older than the delete delay %v", delay), "cleaner-early"
				}
			}
		}
		c.Obs = obs
		c.Coq = common.App("CClean", common.Z(nowA.UnixNano()), common.Z(nowB.UnixNano()), common.Z(int64(delay)), common.List(xs))
		return c, nil

	case "partial":
		thr := compact.PartialUploadThresholdAge
		partial := map[ulid.ULID]error{}
		marks := map[ulid.ULID]*metadata.DeletionMark{}
		lmOf := map[string]time.Time{}
		type b struct {
			id     ulid.ULID
			ulidNs int64
			lms    []int64 // true last-modified times in listing order; nil = not reported
			fault  int
			marked bool
		}
		var bs []b
		faults := map[string]int{}
		for i, it := range in.Items {
			lm := now0.UnixNano() - int64(thr) + it.D*1e6
			ulidMs := uint64(now0.UnixMilli()) // young: must not be used when a last-modified time exists
			fault := -1
			if it.ListFault != nil && *it.ListFault >= 0 {
				fault = *it.ListFault
			}
			if it.NoLM || fault >= 0 {
				ulidMs = uint64(lm / 1e6)
				if it.NoLM {
					lm = int64(ulidMs) * 1e6
				}
			}
			id := mkULID(ulidMs, i)
			partial[id] = fmt.Errorf("meta.json missing")
			var lms []int64
			// listing order of the in-memory bucket: chunks/000001, then index
			for j, name := range []string{path.Join(id.String(), "chunks", "000001"), path.Join(id.String(), "index")} {
				if err := upload(inmem, name, []byte("x")); err != nil {
					return c, err
				}
				if it.NoLM {
					lmOf[name] = time.Time{}
				} else {
					// the newest object decides
					t := lm - int64(1-j)*3600e9
					lmOf[name] = time.Unix(0, t)
					lms = append(lms, t)
				}
			}
			if it.Marked {
				marks[id] = &metadata.DeletionMark{ID: id, Version: 1, DeletionTime: now0.Unix() - 10}
			}
			if fault >= 0 {
				faults[id.String()] = fault
			}
			bs = append(bs, b{id, int64(ulidMs) * 1e6, lms, fault, it.Marked})
		}
		bkt.ModTime = func(name string) (time.Time, bool) { t, ok := lmOf[name]; return t, ok }
		bkt.IterFail = func(dir string) (int, bool) { k, ok := faults[strings.TrimSuffix(dir, "/")]; return k, ok }
		nowA := time.Now()
		compact.BestEffortCleanAbortedPartialUploads(ctx, logger, partial, bkt, counter(), counter(), counter(), marks)
		nowB := time.Now()
		bkt.IterFail = nil
		var xs []string
		var obs []any
		for _, x := range bs {
			left, err := hasObjects(inmem, x.id.String())
			if err != nil {
				return c, err
			}
			fl := common.None
			if x.fault >= 0 {
				fl = common.Some(common.Nat(x.fault))
			}
			xs = append(xs, common.Tuple(common.Z(x.ulidNs), common.ZList(x.lms), fl, common.Bool(x.marked), common.Bool(!left)))
			newest := x.ulidNs
			for _, t := range x.lms {
				if t > newest || newest == x.ulidNs && len(x.lms) > 0 {
					newest = t
				}
			}
			if len(x.lms) > 0 {
				newest = x.lms[0]
				for _, t := range x.lms {
					if t > newest {
						newest = t
					}
				}
			}
			obs = append(obs, map[string]any{"ulid_ns": x.ulidNs, "last_modified_ns": x.lms, "listing_fails_after": x.fault, "marked": x.marked, "deleted": !left, "untouched_ns": nowB.UnixNano() - newest})
			if !left {
				c.Nontrivial = true
				if x.marked {
					c.GoPred, c.Sig = "partial upload that is already marked for deletion was removed by the partial-upload cleaner", "partial-marked-deleted"
				} else if !(nowB.UnixNano()-newest > int64(thr)) {
					c.GoPred, c.Sig = fmt.Sprintf("partial upload removed before it was untouched for %v (listing of its objects failed after %d objects: %v)", thr, x.fault, x.fault >= 0), "partial-early"
				}
			}
		}
		c.Obs = obs
		c.Coq = common.App("CPartial", common.Z(nowA.UnixNano()), common.Z(nowB.UnixNano()), common.List(xs))
		return c, nil
	}
	return c, fmt.Errorf("bad kind %q", in.Kind)
}

// ---- generators ---------------------------------------------------------------

func gen(r *rand.Rand, tier string, n int) []any {
	var out []any
	for i := 0; i < n; i++ {
		var in input
		switch k := r.Intn(10); {
		case k < 5:
			in.Kind = "retention"
			for _, res := range []int64{0, 300000, 3600000} {
				if r.Intn(5) == 0 {
					continue
				}
				it := item{Res: res, Frac: -1}
				it.RetMs = common.Pick(r, int64(10000), 86400000, 30*86400000, 365*86400000, 1500, 70*365*86400000, 12345678)
				if r.Intn(8) == 0 {
					it.RetMs = 0 // disabled
				}
				switch r.Intn(4) {
				case 0: // far from the boundary
					it.D = common.Pick(r, int64(-86400000), -5000, 5000, 86400000)
				default: // within two seconds of the boundary, chosen sub-second position of MaxTime
					it.D = common.Between(r, -2100, 2100)
					it.Frac = common.Between(r, 0, 999)
				}
				in.Items = append(in.Items, it)
			}
		case k < 8:
			in.Kind = "cleaner"
			in.DelayMs = common.Pick(r, int64(0), 1000, 1500, 172800000, 86400000, 2700)
			nb := 1 + r.Intn(6)
			for j := 0; j < nb; j++ {
				in.Items = append(in.Items, item{D: common.Pick(r, int64(-100000), -3, -2, -1, 0, 1, 2, 3, 100000)})
			}
		default:
			in.Kind = "partial"
			nb := 1 + r.Intn(6)
			for j := 0; j < nb; j++ {
				it := item{D: common.Pick(r, int64(-86400000), -3000, -1000, -300, 300, 1000, 3000, 86400000), Marked: r.Intn(4) == 0, NoLM: r.Intn(4) == 0}
				if r.Intn(3) == 0 {
					it.D = common.Between(r, -5000, 5000)
				}
				if r.Intn(3) == 0 {
					k := r.Intn(3) // before the first object, after one, after both (the listing still fails)
					it.ListFault = &k
				}
				in.Items = append(in.Items, it)
			}
		}
		if in.Items == nil {
			in.Items = []item{}
		}
		out = append(out, in)
	}
	return out
}

func main() {
	common.Main(common.Prop{ID: "C32", Facts: facts, Gen: gen, Run: run, QuickN: 400, ThoroughN: 4000,
		Preamble: "Open Scope Z_scope.\n"})
}
