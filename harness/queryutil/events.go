// Package queryutil: source-order event lists of Go functions (tie T helper
// shared by the "query" group's harnesses).
package queryutil

import (
	"bytes"
	"fmt"
	"go/ast"
	"go/printer"
	"go/token"
	"io"
	"strings"

	"github.com/thanos-io/thanos/zzverif/common"
)

// Ev is one event: call / defer / enddefer / return / if / else / endif / for / endfor / assign / define.
type Ev struct{ Kind, Text string }

func nstr(fset *token.FileSet, n ast.Node) string {
	var b bytes.Buffer
	printer.Fprint(&b, fset, n)
	return strings.Join(strings.Fields(b.String()), " ")
}

func (w *walker) ignoredCall(name string) bool {
	for _, p := range w.ignore {
		if strings.HasPrefix(name, p) {
			return true
		}
	}
	return false
}

func callee(fset *token.FileSet, e ast.Expr) string {
	switch x := e.(type) {
	case *ast.Ident:
		return x.Name
	case *ast.SelectorExpr:
		return callee(fset, x.X) + "." + x.Sel.Name
	case *ast.CallExpr:
		return callee(fset, x.Fun) + "()"
	case *ast.ParenExpr:
		return callee(fset, x.X)
	}
	return nstr(fset, e)
}

type walker struct {
	ignore []string
	fset   *token.FileSet
	evs    []Ev
	err    error
}

func (w *walker) fail(n ast.Node, what string) {
	if w.err == nil {
		w.err = fmt.Errorf("facts: unsupported %s at %s", what, w.fset.Position(n.Pos()))
	}
}

// calls inside an expression, in source order (arguments before the call).
func (w *walker) expr(e ast.Expr) {
	if e == nil {
		return
	}
	ast.Inspect(e, func(n ast.Node) bool {
		switch x := n.(type) {
		case *ast.FuncLit:
			w.fail(x, "function literal in expression")
			return false
		case *ast.CallExpr:
			if se, ok := x.Fun.(*ast.SelectorExpr); ok {
				w.expr(se.X)
			}
			for _, a := range x.Args {
				w.expr(a)
			}
			name := callee(w.fset, x.Fun)
			if !w.ignoredCall(name) {
				w.evs = append(w.evs, Ev{"call", name})
			}
			return false
		}
		return true
	})
}

func (w *walker) block(b *ast.BlockStmt) {
	for _, st := range b.List {
		w.stmt(st)
	}
}

func (w *walker) stmt(st ast.Stmt) {
	switch x := st.(type) {
	case *ast.ExprStmt:
		w.expr(x.X)
	case *ast.AssignStmt:
		for _, r := range x.Rhs {
			w.expr(r)
		}
		// only assignments to fields / named results matter; locals (:=) are dropped
		if x.Tok == token.ASSIGN {
			w.evs = append(w.evs, Ev{"assign", nstr(w.fset, x)})
		} else if x.Tok == token.DEFINE {
			// locals are dropped unless they read the shared reader fields
			if t := nstr(w.fset, x); true {
				w.evs = append(w.evs, Ev{"define", t})
			}
		} else {
			w.evs = append(w.evs, Ev{"assign", nstr(w.fset, x)})
		}
	case *ast.DeferStmt:
		for _, a := range x.Call.Args {
			w.expr(a)
		}
		if fl, ok := x.Call.Fun.(*ast.FuncLit); ok {
			w.evs = append(w.evs, Ev{"defer", "funclit"})
			w.block(fl.Body)
			w.evs = append(w.evs, Ev{"enddefer", "funclit"})
		} else {
			w.evs = append(w.evs, Ev{"defer", callee(w.fset, x.Call.Fun)})
		}
	case *ast.ReturnStmt:
		var parts []string
		for _, r := range x.Results {
			w.expr(r)
			parts = append(parts, nstr(w.fset, r))
		}
		w.evs = append(w.evs, Ev{"return", strings.Join(parts, ", ")})
	case *ast.IfStmt:
		if x.Init != nil {
			w.stmt(x.Init)
		}
		w.expr(x.Cond)
		w.evs = append(w.evs, Ev{"if", nstr(w.fset, x.Cond)})
		w.block(x.Body)
		if x.Else != nil {
			w.evs = append(w.evs, Ev{"else", ""})
			switch e := x.Else.(type) {
			case *ast.BlockStmt:
				w.block(e)
			default:
				w.stmt(e)
			}
		}
		w.evs = append(w.evs, Ev{"endif", ""})
	case *ast.BlockStmt:
		w.block(x)
	case *ast.RangeStmt:
		w.expr(x.X)
		w.evs = append(w.evs, Ev{"for", "range " + nstr(w.fset, x.X)})
		w.block(x.Body)
		w.evs = append(w.evs, Ev{"endfor", ""})
	case *ast.IncDecStmt:
		w.evs = append(w.evs, Ev{"assign", nstr(w.fset, x)})
	case *ast.LabeledStmt:
		w.evs = append(w.evs, Ev{"label", x.Label.Name})
		w.stmt(x.Stmt)
	case *ast.BranchStmt:
		w.evs = append(w.evs, Ev{"branch", nstr(w.fset, x)})
	case *ast.ForStmt:
		if x.Init != nil {
			w.stmt(x.Init)
		}
		cond := ""
		if x.Cond != nil {
			w.expr(x.Cond)
			cond = nstr(w.fset, x.Cond)
		}
		w.evs = append(w.evs, Ev{"for", cond})
		w.block(x.Body)
		if x.Post != nil {
			w.stmt(x.Post)
		}
		w.evs = append(w.evs, Ev{"endfor", ""})
	case *ast.DeclStmt:
		// declarations: no calls allowed inside
		ast.Inspect(x, func(n ast.Node) bool {
			if _, ok := n.(*ast.CallExpr); ok {
				w.fail(n, "call in declaration")
			}
			return true
		})
		if gd, ok := x.Decl.(*ast.GenDecl); ok {
			var names []string
			for _, sp := range gd.Specs {
				if vs, ok := sp.(*ast.ValueSpec); ok {
					for _, n := range vs.Names {
						names = append(names, n.Name)
					}
				}
			}
			w.evs = append(w.evs, Ev{"decl", gd.Tok.String() + " " + strings.Join(names, ",")})
		}
	default:
		w.fail(st, fmt.Sprintf("statement %T", st))
	}
}

// Events flattens the body of fn ("Recv.Name" for methods) into source-order events.
// Calls whose callee starts with one of ignore are dropped; unknown statement kinds are an error.
func Events(s *common.SrcFile, fn string, ignore []string) ([]Ev, error) {
	fd, err := s.FindFunc(fn)
	if err != nil {
		return nil, err
	}
	w := &walker{fset: s.Fset, ignore: ignore}
	w.block(fd.Body)
	if w.err != nil {
		return nil, fmt.Errorf("%s: %w", fn, w.err)
	}
	return w.evs, nil
}

// Emit writes `Definition name : list (string * string)`.
func Emit(w io.Writer, name string, evs []Ev) {
	var parts []string
	for _, e := range evs {
		parts = append(parts, fmt.Sprintf("(%s, %s)", common.CoqString(e.Kind), common.CoqString(e.Text)))
	}
	fmt.Fprintf(w, "Definition %s : list (string * string) :=\n  [%s]%%string.\n", name, strings.Join(parts, ";\n   "))
}
