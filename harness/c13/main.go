// C13: cache keys never conflate different cached items.
package main

import (
	"encoding/base64"
	"encoding/json"
	"fmt"
	"go/ast"
	"io"
	"math/rand"
	"strconv"
	"strings"
	"time"

	"github.com/oklog/ulid/v2"
	"github.com/prometheus/prometheus/model/labels"
	"golang.org/x/crypto/blake2b"

	storecache "github.com/thanos-io/thanos/pkg/store/cache"
	"github.com/thanos-io/thanos/pkg/store/storepb"
	"github.com/thanos-io/thanos/zzverif/common"
)

type matcher struct {
	T string `json:"t"` // = != =~ !~
	N string `json:"n"`
	V string `json:"v"`
}

type item struct {
	Kind  string    `json:"kind"` // postings | expanded | series | matcher
	Block uint64    `json:"block,omitempty"`
	Name  string    `json:"name,omitempty"`
	Value string    `json:"value,omitempty"`
	Comp  string    `json:"comp,omitempty"`
	Ms    []matcher `json:"ms,omitempty"`
	ID    uint64    `json:"id,omitempty"`
	M     *matcher  `json:"m,omitempty"`
}

type fevent struct {
	B *int `json:"b,omitempty"` // issue lookup i (GetOrSet of item i in its own goroutine)
	F *int `json:"f,omitempty"` // let the conversion of lookup i return
}

type input struct {
	A item `json:"a"`
	B item `json:"b"`
	// flight: concurrent lookups on one LruMatchersCache
	Kind  string    `json:"kind,omitempty"`
	Items []matcher `json:"items,omitempty"`
	Evs   []fevent  `json:"evs,omitempty"`
}

func coqStrList(name string, xs []string) string {
	q := make([]string, len(xs))
	for i, x := range xs {
		q[i] = common.CoqString(x)
	}
	return fmt.Sprintf("Definition %s : list string := [%s]%%string.\n", name, strings.Join(q, "; "))
}

func facts(repo string, w io.Writer) error {
	s, err := common.ParseSrc(repo, "pkg/store/cache/cache.go")
	if err != nil {
		return err
	}
	fmt.Fprintln(w, "(* pkg/store/cache/cache.go CacheKey.String: the hashed expressions and the key expressions, in source order *)")
	fd, err := s.FindFunc("CacheKey.String")
	if err != nil {
		return err
	}
	var assigns, rets []string
	ast.Inspect(fd.Body, func(n ast.Node) bool {
		switch x := n.(type) {
		case *ast.AssignStmt:
			if len(x.Lhs) == 1 && len(x.Rhs) == 1 {
				assigns = append(assigns, s.ExprString(x.Lhs[0])+" "+x.Tok.String()+" "+s.ExprString(x.Rhs[0]))
			}
		case *ast.ReturnStmt:
			if len(x.Results) == 1 {
				rets = append(rets, s.ExprString(x.Results[0]))
			}
		}
		return true
	})
	fmt.Fprint(w, coqStrList("cacheKeyStringAssigns", assigns))
	fmt.Fprint(w, coqStrList("cacheKeyStringReturns", rets))
	evs, err := s.CallOrder("LabelMatchersToString")
	if err != nil {
		return err
	}
	fmt.Fprintln(w, common.EventsCoq("labelMatchersToStringEvents", evs))
	s2, err := common.ParseSrc(repo, "pkg/store/cache/matchers_cache.go")
	if err != nil {
		return err
	}
	fd2, err := s2.FindFunc("cacheKey")
	if err != nil {
		return err
	}
	var writes []string
	ast.Inspect(fd2.Body, func(n ast.Node) bool {
		if ce, ok := n.(*ast.CallExpr); ok {
			if se, ok := ce.Fun.(*ast.SelectorExpr); ok && strings.HasPrefix(se.Sel.Name, "Write") && len(ce.Args) == 1 {
				writes = append(writes, se.Sel.Name+"("+s2.ExprString(ce.Args[0])+")")
			}
		}
		if as, ok := n.(*ast.AssignStmt); ok && len(as.Lhs) == 1 && len(as.Rhs) == 1 {
			if id, ok := as.Lhs[0].(*ast.Ident); ok && (id.Name == "name" || id.Name == "typeStr") {
				writes = append(writes, id.Name+" := "+s2.ExprString(as.Rhs[0]))
			}
		}
		return true
	})
	fmt.Fprintln(w, "(* pkg/store/cache/matchers_cache.go cacheKey: what is written into the key, in order *)")
	fmt.Fprint(w, coqStrList("matcherCacheKeyWrites", writes))
	// GetOrSet: the key of the in-flight de-duplication (singleflight) and the keys of the LRU
	gos, err := s2.FindFunc("LruMatchersCache.GetOrSet")
	if err != nil {
		return err
	}
	var keyUses []string
	ast.Inspect(gos.Body, func(n ast.Node) bool {
		switch x := n.(type) {
		case *ast.AssignStmt:
			if len(x.Lhs) >= 1 && len(x.Rhs) == 1 {
				if id, ok := x.Lhs[0].(*ast.Ident); ok && id.Name == "key" {
					keyUses = append(keyUses, "key := "+s2.ExprString(x.Rhs[0]))
				}
			}
		case *ast.CallExpr:
			f := s2.ExprString(x.Fun)
			if (f == "c.sf.Do" || f == "c.cache.Get" || f == "c.cache.Add") && len(x.Args) >= 1 {
				keyUses = append(keyUses, f+"("+s2.ExprString(x.Args[0])+")")
			}
		}
		return true
	})
	fmt.Fprintln(w, "(* pkg/store/cache/matchers_cache.go GetOrSet: where the key comes from and what is keyed by it *)")
	fmt.Fprint(w, coqStrList("getOrSetKeys", keyUses))
	fmt.Fprintf(w, "Definition compressionSchemeStreamedSnappy : string := %s%%string.\n", common.CoqString(storecache.VerifC13CompressionScheme()))
	return nil
}

func blockOf(n uint64) ulid.ULID {
	var u ulid.ULID
	for i := 0; i < 8; i++ {
		u[15-i] = byte(n >> (8 * uint(i)))
	}
	u[0] = 1
	return u
}

func mtype(t string) (labels.MatchType, storepb.LabelMatcher_Type, string) {
	switch t {
	case "!=":
		return labels.MatchNotEqual, storepb.LabelMatcher_NEQ, "MNeq"
	case "=~":
		return labels.MatchRegexp, storepb.LabelMatcher_RE, "MRe"
	case "!~":
		return labels.MatchNotRegexp, storepb.LabelMatcher_NRE, "MNre"
	}
	return labels.MatchEqual, storepb.LabelMatcher_EQ, "MEq"
}

type oracles struct {
	h, q map[string]string
	d    map[uint64]string
}

func (o *oracles) hash(s string) {
	sum := blake2b.Sum256([]byte(s))
	o.h[s] = base64.RawURLEncoding.EncodeToString(sum[:])
}

func matcherCoq(m matcher) string {
	_, _, c := mtype(m.T)
	return common.App("mkM", c, common.Bytes(m.N), common.Bytes(m.V))
}

// keyOf computes the real key of an item and records the oracle values the model needs.
func keyOf(it item, o *oracles) (key string, coq string, err error) {
	switch it.Kind {
	case "postings":
		b := blockOf(it.Block).String()
		key = storecache.CacheKey{Block: b, Key: storecache.CacheKeyPostings(labels.Label{Name: it.Name, Value: it.Value}), Compression: it.Comp}.String()
		o.hash(it.Name + ":" + it.Value)
		coq = common.App("IPostings", common.Bytes(b), common.Bytes(it.Name), common.Bytes(it.Value), common.Bytes(it.Comp))
	case "expanded":
		b := blockOf(it.Block).String()
		var ms []*labels.Matcher
		var mc []string
		for _, m := range it.Ms {
			t, _, _ := mtype(m.T)
			pm, err := labels.NewMatcher(t, m.N, m.V)
			if err != nil {
				return "", "", fmt.Errorf("matcher %v: %w", m, err)
			}
			ms = append(ms, pm)
			mc = append(mc, matcherCoq(m))
			o.q[m.N] = strconv.Quote(m.N)
			o.q[m.V] = strconv.Quote(m.V)
		}
		str := storecache.LabelMatchersToString(ms)
		key = storecache.CacheKey{Block: b, Key: storecache.CacheKeyExpandedPostings(str), Compression: it.Comp}.String()
		o.hash(str)
		coq = common.App("IExpanded", common.Bytes(b), common.List(mc), common.Bytes(it.Comp))
	case "series":
		b := blockOf(it.Block).String()
		key = storecache.CacheKey{Block: b, Key: storecache.CacheKeySeries(it.ID)}.String()
		o.d[it.ID] = strconv.FormatUint(it.ID, 10)
		coq = common.App("ISeries", common.Bytes(b), common.N(it.ID))
	case "matcher":
		_, pt, _ := mtype(it.M.T)
		key, err = storecache.VerifC13MatcherCacheKey(&storepb.LabelMatcher{Type: pt, Name: it.M.N, Value: it.M.V})
		if err != nil {
			return "", "", err
		}
		o.q[it.M.N] = strconv.Quote(it.M.N)
		coq = common.App("IMatcher", matcherCoq(*it.M))
	default:
		return "", "", fmt.Errorf("bad kind %q", it.Kind)
	}
	return key, coq, nil
}

func same(a, b item) bool {
	ja, _ := json.Marshal(a)
	jb, _ := json.Marshal(b)
	return string(ja) == string(jb)
}

func run(raw json.RawMessage) (common.Case, error) {
	var in input
	if err := json.Unmarshal(raw, &in); err != nil {
		return common.Case{}, err
	}
	var c common.Case
	if in.Kind == "flight" {
		return runFlight(in)
	}
	o := &oracles{h: map[string]string{}, q: map[string]string{}, d: map[uint64]string{}}
	k1, c1, err := keyOf(in.A, o)
	if err != nil {
		return c, err
	}
	k2, c2, err := keyOf(in.B, o)
	if err != nil {
		return c, err
	}
	var oh, oq, od []string
	for k, v := range o.h {
		oh = append(oh, common.Pair(common.Bytes(k), common.Bytes(v)))
	}
	for k, v := range o.q {
		oq = append(oq, common.Pair(common.Bytes(k), common.Bytes(v)))
	}
	for k, v := range o.d {
		od = append(od, common.Pair(common.N(k), common.Bytes(v)))
	}
	c.Coq = common.App("CPair", c1, c2, common.Bytes(k1), common.Bytes(k2), common.List(oh), common.List(oq), common.List(od))
	c.Class = in.A.Kind + "/" + in.B.Kind
	c.Obs = map[string]string{"key_a": k1, "key_b": k2}
	distinct := !same(in.A, in.B)
	sameCache := (in.A.Kind == "matcher") == (in.B.Kind == "matcher")
	c.Nontrivial = distinct && sameCache && in.A.Kind == in.B.Kind
	if distinct && sameCache && k1 == k2 {
		ja, _ := json.Marshal(in.A)
		jb, _ := json.Marshal(in.B)
		c.GoPred = fmt.Sprintf("two different %s/%s items share the key %q: %s and %s", in.A.Kind, in.B.Kind, k1, ja, jb)
		c.Sig = "collision-" + in.A.Kind + "-" + in.B.Kind
		if in.A.Kind == "postings" && in.B.Kind == "postings" && in.A.Block == in.B.Block && in.A.Comp == in.B.Comp &&
			in.A.Name+":"+in.A.Value == in.B.Name+":"+in.B.Value && (strings.Contains(in.A.Name, ":") || strings.Contains(in.B.Name, ":")) {
			c.Sig = "postings-name-colon"
		}
	}
	return c, nil
}

// runFlight: lookups on one real LruMatchersCache in a forced interleaving. The conversion
// (newItem) of a lookup signals that it was entered and then parks until the schedule lets it
// return. The generator never issues a lookup while an EQUAL item is being converted, so with
// keys that separate different items no lookup ever has to wait for another one.
func runFlight(in input) (common.Case, error) {
	var c common.Case
	cache, err := storecache.NewMatchersCache(storecache.WithSize(100),
		storecache.WithIsCacheableFunc(func(storecache.ConversionLabelMatcher) bool { return true }))
	if err != nil {
		return c, err
	}
	n := len(in.Items)
	type result struct {
		m   *labels.Matcher
		err error
	}
	entered := make([]chan struct{}, n)
	release := make([]chan struct{}, n)
	resCh := make([]chan result, n)
	state := make([]int, n) // 0 idle, 1 converting, 2 waiting for a call in flight, 3 returned
	got := make([]*labels.Matcher, n)
	pbs := make([]storepb.LabelMatcher, n)
	for i, m := range in.Items {
		_, pt, _ := mtype(m.T)
		pbs[i] = storepb.LabelMatcher{Type: pt, Name: m.N, Value: m.V}
		entered[i], release[i], resCh[i] = make(chan struct{}), make(chan struct{}), make(chan result, 1)
	}
	const patience = 1500 * time.Millisecond
	settle := func(i int) error { // a waiting lookup may have been answered meanwhile
		if state[i] != 2 {
			return nil
		}
		select {
		case r := <-resCh[i]:
			if r.err != nil {
				return r.err
			}
			got[i], state[i] = r.m, 3
		case <-time.After(patience):
		}
		return nil
	}
	var codes, evsCoq []string
	for _, e := range in.Evs {
		switch {
		case e.B != nil && *e.B >= 0 && *e.B < n:
			i := *e.B
			evsCoq = append(evsCoq, common.App("FBegin", common.Nat(i)))
			if state[i] == 0 {
				go func() {
					m, err := cache.GetOrSet(&pbs[i], func() (*labels.Matcher, error) {
						close(entered[i])
						<-release[i]
						return storepb.MatcherToPromMatcher(pbs[i])
					})
					resCh[i] <- result{m, err}
				}()
				select {
				case <-entered[i]:
					state[i] = 1
				case r := <-resCh[i]:
					if r.err != nil {
						return c, r.err
					}
					got[i], state[i] = r.m, 3
				case <-time.After(patience):
					state[i] = 2 // neither converting nor answered: attached to a conversion in flight
				}
			}
			codes = append(codes, common.N(uint64(state[i])))
		case e.F != nil && *e.F >= 0 && *e.F < n:
			i := *e.F
			evsCoq = append(evsCoq, common.App("FFinish", common.Nat(i)))
			if state[i] == 1 {
				close(release[i])
				r := <-resCh[i]
				if r.err != nil {
					return c, r.err
				}
				got[i], state[i] = r.m, 3
				for j := range state {
					if err := settle(j); err != nil {
						return c, err
					}
				}
			}
			codes = append(codes, common.N(uint64(state[i])))
		}
	}
	// observations are complete; let everything still parked run out
	var results []string
	type ob struct {
		Item     string `json:"item"`
		State    int    `json:"state"`
		Returned string `json:"returned,omitempty"`
	}
	var obs []ob
	for i := range in.Items {
		o := ob{Item: in.Items[i].N + in.Items[i].T + strconv.Quote(in.Items[i].V), State: state[i]}
		if state[i] == 3 {
			g := got[i]
			results = append(results, common.Some(matcherCoq(matcher{T: g.Type.String(), N: g.Name, V: g.Value})))
			o.Returned = g.Name + g.Type.String() + strconv.Quote(g.Value)
			if (g.Name != in.Items[i].N || g.Type.String() != in.Items[i].T || g.Value != in.Items[i].V) && c.GoPred == "" {
				c.GoPred = fmt.Sprintf("lookup %d of %s was answered with the matcher of another item: %s", i, o.Item, o.Returned)
				c.Sig = "inflight-conflated"
			}
		} else {
			results = append(results, common.None)
		}
		obs = append(obs, o)
	}
	for i := range state {
		if state[i] == 1 {
			close(release[i])
		}
	}
	var itemsCoq []string
	for _, m := range in.Items {
		itemsCoq = append(itemsCoq, matcherCoq(m))
	}
	c.Coq = common.App("CFlight", common.List(itemsCoq), common.List(evsCoq), common.List(codes), common.List(results))
	c.Obs = obs
	c.Class = "flight"
	c.Nontrivial = n >= 2 && len(evsCoq) >= 3
	return c, nil
}

// ---- generators --------------------------------------------------------------

var alphabet = []string{"a", "b", "c", "x", "_", "0", "7", ":", ";", "=", "~", "!", ",", "\"", "\\", ".", "*", "|", "é", "日", " ", "A", "-"}

func word(r *rand.Rand, maxLen int, legacy bool) string {
	n := r.Intn(maxLen + 1)
	var sb strings.Builder
	for i := 0; i < n; i++ {
		if legacy {
			sb.WriteString(common.Pick(r, "a", "b", "c", "_", "A", "0", "7"))
		} else {
			sb.WriteString(alphabet[r.Intn(len(alphabet))])
		}
	}
	s := sb.String()
	if legacy && (s == "" || s[0] == '0' || s[0] == '7') {
		s = "a" + s
	}
	return s
}

func genName(r *rand.Rand) string {
	if r.Intn(2) == 0 {
		return word(r, 4, true)
	}
	s := word(r, 5, false)
	if s == "" {
		s = "n"
	}
	return s
}

func genMatcher(r *rand.Rand, onlyRe bool) matcher {
	t := common.Pick(r, "=", "!=", "=~", "!~")
	if onlyRe {
		t = common.Pick(r, "=~", "!~")
	}
	m := matcher{T: t, N: genName(r), V: word(r, 5, false)}
	if t == "=~" || t == "!~" {
		if _, err := labels.NewMatcher(labels.MatchRegexp, m.N, m.V); err != nil {
			m.V = strings.NewReplacer("*", "", "|", "", "\\", "", ".", "").Replace(m.V)
			if _, err := labels.NewMatcher(labels.MatchRegexp, m.N, m.V); err != nil {
				m.V = "v"
			}
		}
	}
	return m
}

func genItem(r *rand.Rand, kind string) item {
	comp := common.Pick(r, "", "", "dss", "dvs")
	switch kind {
	case "postings":
		return item{Kind: kind, Block: uint64(1 + r.Intn(3)), Name: genName(r), Value: word(r, 5, false), Comp: comp}
	case "expanded":
		n := r.Intn(4)
		if r.Intn(2) == 0 {
			n = 2 + r.Intn(2)
		}
		it := item{Kind: kind, Block: uint64(1 + r.Intn(3)), Comp: comp}
		for i := 0; i < n; i++ {
			it.Ms = append(it.Ms, genMatcher(r, false))
		}
		return it
	case "series":
		return item{Kind: kind, Block: uint64(1 + r.Intn(3)), ID: common.Pick(r, uint64(0), 1, 9, 10, 16, 12345, 1<<32, ^uint64(0), uint64(r.Int63()))}
	}
	m := genMatcher(r, r.Intn(4) != 0)
	return item{Kind: "matcher", M: &m}
}

// shift moves a piece of text across the boundary between two adjacent fields.
func shift(r *rand.Rand, a, b string, sep string) (string, string) {
	whole := a + sep + b
	if len(whole) == 0 {
		return a, b
	}
	// choose another occurrence of sep as the boundary
	var cuts []int
	for i := 0; i+len(sep) <= len(whole); i++ {
		if whole[i:i+len(sep)] == sep {
			cuts = append(cuts, i)
		}
	}
	if len(cuts) == 0 {
		return a, b
	}
	k := cuts[r.Intn(len(cuts))]
	return whole[:k], whole[k+len(sep):]
}

func variant(r *rand.Rand, it item) item {
	v := it
	switch it.Kind {
	case "postings":
		switch r.Intn(6) {
		case 5: // move one character across the name/value boundary
			if len(it.Value) > 0 && it.Value[0] < 0x80 {
				v.Name, v.Value = it.Name+it.Value[:1], it.Value[1:]
			} else {
				v.Value = it.Value + "b"
			}
		case 0:
			v.Name, v.Value = shift(r, it.Name, it.Value, ":")
			if v.Name == "" {
				v.Name = it.Name
				v.Value = it.Value + "x"
			}
		case 1:
			v.Value = it.Value + common.Pick(r, ":", "a", "")
		case 2:
			v.Block = it.Block%3 + 1
		case 3:
			v.Comp = common.Pick(r, "", "dss", "dvs")
		default:
			v.Name = it.Name + common.Pick(r, ":", "b")
		}
	case "expanded":
		v.Ms = append([]matcher(nil), it.Ms...)
		// The second item is derived from the first by re-cutting a plausible (weaker) serialisation of it
		// at another name / type / value / list boundary: a key builder that drops a quote or a
		// separator makes exactly such a pair collide.
		switch k := r.Intn(12); {
		case k == 0 && len(v.Ms) >= 2: // two matchers folded into one VALUE (values written unquoted)
			a, b := v.Ms[0], v.Ms[1]
			v.Ms = append([]matcher{{T: a.T, N: a.N, V: a.V + "\";" + b.N + b.T + "\"" + b.V}}, v.Ms[2:]...)
		case k == 1 && len(v.Ms) >= 2: // two matchers folded into one NAME (names written unquoted): a="b";c="d" as name `a="b";c`
			a, b := v.Ms[0], v.Ms[1]
			v.Ms = append([]matcher{{T: b.T, N: a.N + a.T + strconv.Quote(a.V) + ";" + b.N, V: b.V}}, v.Ms[2:]...)
		case k == 2 && len(v.Ms) >= 2: // every matcher folded into the name of the last one
			last := v.Ms[len(v.Ms)-1]
			name := ""
			for _, m := range v.Ms[:len(v.Ms)-1] {
				name += m.N + m.T + strconv.Quote(m.V) + ";"
			}
			v.Ms = []matcher{{T: last.T, N: name + last.N, V: last.V}}
		case k == 3 && len(v.Ms) >= 2: // folded into the name without the ';' (separator dropped)
			a, b := v.Ms[0], v.Ms[1]
			v.Ms = append([]matcher{{T: b.T, N: a.N + a.T + strconv.Quote(a.V) + b.N, V: b.V}}, v.Ms[2:]...)
		case k == 4 && len(v.Ms) >= 2: // nothing quoted at all
			a, b := v.Ms[0], v.Ms[1]
			v.Ms = append([]matcher{{T: a.T, N: a.N, V: a.V + ";" + b.N + b.T + b.V}}, v.Ms[2:]...)
		case k == 5 && len(v.Ms) >= 1: // name / type boundary: a!="v" is name `a!` with = or name `a` with !=
			m := &v.Ms[r.Intn(len(v.Ms))]
			switch {
			case m.T == "!=":
				m.N, m.T = m.N+"!", "="
			case m.T == "!~":
				m.N, m.T = m.N+"!", "=~" // a!~ vs a!=~ : differ, a near miss
			case strings.HasSuffix(m.N, "!") && len(m.N) > 1 && m.T == "=":
				m.N, m.T = m.N[:len(m.N)-1], "!="
			default:
				m.N = m.N + "!"
			}
		case k == 6 && len(v.Ms) >= 1: // type / value boundary: ="~x" vs =~"x"
			m := &v.Ms[r.Intn(len(v.Ms))]
			switch {
			case m.T == "=~":
				m.T, m.V = "=", "~"+m.V
			case m.T == "=" && strings.HasPrefix(m.V, "~"):
				m.T, m.V = "=~", m.V[1:]
			default:
				m.V = "~" + m.V
			}
		case k == 7 && len(v.Ms) >= 1:
			v.Ms[0].N, v.Ms[0].V = shift(r, v.Ms[0].N, v.Ms[0].V, v.Ms[0].T)
			if v.Ms[0].N == "" {
				v.Ms[0].N = "n"
			}
		case k == 8 && len(v.Ms) >= 1:
			v.Ms[0].T = common.Pick(r, "=", "!=")
		case k == 9 && len(v.Ms) >= 2:
			v.Ms[0], v.Ms[1] = v.Ms[1], v.Ms[0]
		case k == 10:
			v.Ms = append(v.Ms, genMatcher(r, false))
		default:
			v.Comp = common.Pick(r, "", "dss")
			v.Block = it.Block%3 + 1
		}
		for i := range v.Ms { // keep regexes valid
			if v.Ms[i].T == "=~" || v.Ms[i].T == "!~" {
				if _, err := labels.NewMatcher(labels.MatchRegexp, v.Ms[i].N, v.Ms[i].V); err != nil {
					v.Ms[i].T = "="
				}
			}
		}
	case "series":
		if r.Intn(2) == 0 {
			v.ID = it.ID + 1
		} else {
			v.Block = it.Block%3 + 1
		}
	case "matcher":
		m := *it.M
		switch r.Intn(5) {
		case 4: // move one character across the name/value boundary
			if len(m.V) > 0 && m.V[0] < 0x80 {
				m.N, m.V = m.N+m.V[:1], m.V[1:]
			} else {
				m.V = m.V + "b"
			}
		case 0:
			m.N, m.V = shift(r, m.N, m.V, m.T)
			if m.N == "" {
				m.N = it.M.N
				m.V = it.M.V + "x"
			}
		case 1:
			m.N = it.M.N + "b"
		case 2:
			if m.T == "=~" {
				m.T = "!~"
			} else {
				m.T = "=~"
			}
		default:
			m.V = m.V + "a"
		}
		if m.T == "=~" || m.T == "!~" {
			if _, err := labels.NewMatcher(labels.MatchRegexp, m.N, m.V); err != nil {
				m.V = "c"
			}
		}
		v.M = &m
	}
	return v
}

func genFlight(r *rand.Rand) input {
	in := input{Kind: "flight"}
	vals := []string{"a.*|b", "x", "b=~c", "1|2", ".+"}
	names := []string{"job", "instance", "a", "a=~b", "é"}
	types := []string{"=~", "!~", "=", "!="}
	n := 2 + r.Intn(3)
	v := vals[r.Intn(len(vals))]
	seen := map[string]bool{}
	for len(in.Items) < n {
		m := matcher{T: types[r.Intn(len(types))], N: names[r.Intn(len(names))], V: v}
		if r.Intn(4) == 0 {
			m.V = vals[r.Intn(len(vals))]
		}
		k := m.N + "\x00" + m.T + "\x00" + m.V
		if seen[k] && r.Intn(3) != 0 {
			continue
		}
		seen[k] = true
		in.Items = append(in.Items, m)
	}
	// a random schedule of begins and finishes; a lookup is not issued while an equal item is being converted
	ip := func(v int) *int { return &v }
	state := make([]int, n) // 0 idle 1 converting 3 done
	key := func(i int) string { return in.Items[i].N + "\x00" + in.Items[i].T + "\x00" + in.Items[i].V }
	for step := 0; step < 3*n; step++ {
		var cand []fevent
		for i := 0; i < n; i++ {
			switch state[i] {
			case 0:
				busy := false
				for j := 0; j < n; j++ {
					if state[j] == 1 && key(j) == key(i) {
						busy = true
					}
				}
				if !busy {
					cand = append(cand, fevent{B: ip(i)})
				}
			case 1:
				if r.Intn(2) == 0 {
					cand = append(cand, fevent{F: ip(i)})
				}
			}
		}
		if len(cand) == 0 {
			continue
		}
		e := cand[r.Intn(len(cand))]
		in.Evs = append(in.Evs, e)
		if e.B != nil {
			done := false
			for j := 0; j < n; j++ {
				if state[j] == 3 && key(j) == key(*e.B) {
					done = true
				}
			}
			if done {
				state[*e.B] = 3 // cache hit
			} else {
				state[*e.B] = 1
			}
		} else {
			state[*e.F] = 3
		}
	}
	return in
}

func gen(r *rand.Rand, tier string, n int) []any {
	var out []any
	for i := 0; i < n/10; i++ {
		out = append(out, genFlight(r))
	}
	kinds := []string{"postings", "postings", "expanded", "expanded", "series", "matcher", "matcher"}
	for i := 0; i < n; i++ {
		k := kinds[r.Intn(len(kinds))]
		a := genItem(r, k)
		var b item
		switch x := r.Intn(10); {
		case x < 6:
			b = variant(r, a)
			if k == "matcher" && r.Intn(3) == 0 { // a=~"b=~c" against a=~b=~"c"
				t := a.M.T
				a.M = &matcher{T: t, N: a.M.N, V: "b" + t + "c"}
				b = item{Kind: "matcher", M: &matcher{T: t, N: a.M.N + t + "b", V: "c"}}
			}
		case x < 8:
			b = genItem(r, k)
		case x < 9:
			k2 := kinds[r.Intn(len(kinds))]
			if (k2 == "matcher") != (k == "matcher") {
				k2 = k
			}
			b = genItem(r, k2)
		default:
			b = a
		}
		out = append(out, input{A: a, B: b})
	}
	return out
}

func main() {
	common.Main(common.Prop{ID: "C13", Facts: facts, Gen: gen, Run: run, QuickN: 500, ThoroughN: 15000,
		Preamble: "Open Scope N_scope.\n"})
}
