// C25: Cap'n Proto replication encoding is lossless: a (multi-tenant) write
// request encoded by the real RemoteWriteClient and decoded with
// writecapnp.NewRequest / Request.At on the peer yields the same series.
package main

import (
	"context"
	"encoding/json"
	"fmt"
	"math"
	"math/rand"
	"strings"
	"sync"
	"time"

	"capnproto.org/go/capnp/v3"
	"capnproto.org/go/capnp/v3/rpc"
	"github.com/go-kit/log"
	"github.com/prometheus/prometheus/model/histogram"
	"github.com/prometheus/prometheus/model/labels"
	"google.golang.org/grpc/test/bufconn"

	"github.com/thanos-io/thanos/pkg/receive/writecapnp"
	"github.com/thanos-io/thanos/pkg/store/labelpb"
	"github.com/thanos-io/thanos/pkg/store/storepb"
	"github.com/thanos-io/thanos/pkg/store/storepb/prompb"
	"github.com/thanos-io/thanos/zzverif/common"
)

// ---- input ----
type sample struct {
	T int64  `json:"t"`
	V uint64 `json:"v"`
}
type exemplar struct {
	Labels [][2]string `json:"labels"`
	V      uint64      `json:"v"`
	T      int64       `json:"t"`
}
type hist struct {
	CountKind int        `json:"ck"` // 0 unset, 1 int, 2 float
	Count     uint64     `json:"c"`
	Sum       uint64     `json:"sum"`
	Schema    int32      `json:"schema"`
	ZT        uint64     `json:"zt"`
	ZCKind    int        `json:"zk"`
	ZC        uint64     `json:"zc"`
	NSpans    [][2]int64 `json:"ns"`
	NDeltas   []int64    `json:"nd"`
	NCounts   []uint64   `json:"nc"`
	PSpans    [][2]int64 `json:"ps"`
	PDeltas   []int64    `json:"pd"`
	PCounts   []uint64   `json:"pc"`
	Reset     int32      `json:"reset"`
	T         int64      `json:"t"`
	Custom    []uint64   `json:"custom"`
}
type series struct {
	Labels    [][2]string `json:"labels"`
	Samples   []sample    `json:"samples"`
	Hists     []hist      `json:"hists"`
	Exemplars []exemplar  `json:"exemplars"`
}
type tenant struct {
	Tenant string   `json:"tenant"`
	Series []series `json:"series"`
}
type input struct {
	Single  bool     `json:"single"` // legacy single-tenant message (WriteRequest.Tenant/Timeseries)
	Tenants []tenant `json:"tenants"`
}

func f64(b uint64) float64 { return math.Float64frombits(b) }
func floats(bs []uint64) []float64 {
	out := make([]float64, len(bs))
	for i, b := range bs {
		out[i] = f64(b)
	}
	return out
}
func zlabels(ls [][2]string) []labelpb.ZLabel {
	out := make([]labelpb.ZLabel, len(ls))
	for i, l := range ls {
		out[i] = labelpb.ZLabel{Name: l[0], Value: l[1]}
	}
	return out
}
func (s *series) toProto() prompb.TimeSeries {
	ts := prompb.TimeSeries{Labels: zlabels(s.Labels)}
	for _, x := range s.Samples {
		ts.Samples = append(ts.Samples, prompb.Sample{Timestamp: x.T, Value: f64(x.V)})
	}
	for _, e := range s.Exemplars {
		ts.Exemplars = append(ts.Exemplars, prompb.Exemplar{Labels: zlabels(e.Labels), Value: f64(e.V), Timestamp: e.T})
	}
	for _, h := range s.Hists {
		ph := prompb.Histogram{Sum: f64(h.Sum), Schema: h.Schema, ZeroThreshold: f64(h.ZT),
			NegativeDeltas: h.NDeltas, NegativeCounts: floats(h.NCounts), PositiveDeltas: h.PDeltas, PositiveCounts: floats(h.PCounts),
			ResetHint: prompb.Histogram_ResetHint(h.Reset), Timestamp: h.T, CustomValues: floats(h.Custom)}
		switch h.CountKind {
		case 1:
			ph.Count = &prompb.Histogram_CountInt{CountInt: h.Count}
		case 2:
			ph.Count = &prompb.Histogram_CountFloat{CountFloat: f64(h.Count)}
		}
		switch h.ZCKind {
		case 1:
			ph.ZeroCount = &prompb.Histogram_ZeroCountInt{ZeroCountInt: h.ZC}
		case 2:
			ph.ZeroCount = &prompb.Histogram_ZeroCountFloat{ZeroCountFloat: f64(h.ZC)}
		}
		for _, sp := range h.NSpans {
			ph.NegativeSpans = append(ph.NegativeSpans, prompb.BucketSpan{Offset: int32(sp[0]), Length: uint32(sp[1])})
		}
		for _, sp := range h.PSpans {
			ph.PositiveSpans = append(ph.PositiveSpans, prompb.BucketSpan{Offset: int32(sp[0]), Length: uint32(sp[1])})
		}
		ts.Histograms = append(ts.Histograms, ph)
	}
	return ts
}

// ---- the peer: a Cap'n Proto Writer server that decodes like CapNProtoHandler.Write ----
type decoded struct {
	tenants []string
	series  [][]string // Coq terms per tenant
	offsets []uint32
	data    []byte
	panicV  string
	err     string
	custom  int // custom bucket boundaries seen in decoded histograms
}

type peer struct {
	mu   sync.Mutex
	last *decoded
}

func lblsCoq(ls labels.Labels) string {
	var s []string
	ls.Range(func(l labels.Label) {
		s = append(s, common.Pair(common.Bytes(l.Name), common.Bytes(l.Value)))
	})
	return common.List(s)
}
func spansCoq(sp []histogram.Span) string {
	s := make([]string, len(sp))
	for i, x := range sp {
		s[i] = common.Pair(common.Z(int64(x.Offset)), common.N(uint64(x.Length)))
	}
	return common.List(s)
}
func bitsList(fs []float64) string {
	s := make([]string, len(fs))
	for i, f := range fs {
		s[i] = common.N(math.Float64bits(f))
	}
	return common.List(s)
}
func outHist(h writecapnp.HistogramSample) string {
	if h.Histogram != nil {
		x := h.Histogram
		return common.Tuple("true", common.Z(int64(x.CounterResetHint)), common.N(x.Count), common.N(math.Float64bits(x.Sum)), common.Z(int64(x.Schema)),
			common.N(math.Float64bits(x.ZeroThreshold)), common.N(x.ZeroCount), spansCoq(x.PositiveSpans), spansCoq(x.NegativeSpans),
			common.ZList(x.PositiveBuckets), common.ZList(x.NegativeBuckets), "[]", "[]", common.Z(h.Timestamp), bitsList(x.CustomValues))
	}
	x := h.FloatHistogram
	return common.Tuple("false", common.Z(int64(x.CounterResetHint)), common.N(math.Float64bits(x.Count)), common.N(math.Float64bits(x.Sum)), common.Z(int64(x.Schema)),
		common.N(math.Float64bits(x.ZeroThreshold)), common.N(math.Float64bits(x.ZeroCount)), spansCoq(x.PositiveSpans), spansCoq(x.NegativeSpans),
		"[]", "[]", bitsList(x.PositiveBuckets), bitsList(x.NegativeBuckets), common.Z(h.Timestamp), bitsList(x.CustomValues))
}

func drain(req *writecapnp.Request, d *decoded) ([]string, error) {
	var out []string
	var s writecapnp.Series
	for req.Next() {
		if err := req.At(&s); err != nil {
			return nil, err
		}
		var ss, hs, es []string
		for _, x := range s.Samples {
			ss = append(ss, common.Pair(common.Z(x.Timestamp), common.N(math.Float64bits(x.Value))))
		}
		for _, h := range s.Histograms {
			hs = append(hs, outHist(h))
			if h.Histogram != nil {
				d.custom += len(h.Histogram.CustomValues)
			} else if h.FloatHistogram != nil {
				d.custom += len(h.FloatHistogram.CustomValues)
			}
		}
		for _, e := range s.Exemplars {
			es = append(es, common.Tuple(lblsCoq(e.Labels), common.N(math.Float64bits(e.Value)), common.Z(e.Ts)))
		}
		out = append(out, common.Tuple(lblsCoq(s.Labels), common.List(ss), common.List(hs), common.List(es)))
	}
	return out, nil
}

func (p *peer) Write(_ context.Context, call writecapnp.Writer_write) (rerr error) {
	d := &decoded{}
	defer func() {
		if r := recover(); r != nil {
			d.panicV = fmt.Sprint(r)
			rerr = nil
		}
		p.mu.Lock()
		p.last = d
		p.mu.Unlock()
	}()
	call.Go()
	wr, err := call.Args().Wr()
	if err != nil {
		d.err = err.Error()
		return nil
	}
	symTable, err := wr.Symbols()
	if err == nil {
		if data, err := symTable.Data(); err == nil {
			d.data = append([]byte(nil), data...)
		}
		if offs, err := symTable.Offsets(); err == nil {
			for i := 0; i < offs.Len(); i++ {
				d.offsets = append(d.offsets, offs.At(i))
			}
		}
	}
	if wr.HasTimeSeries() {
		t, err := wr.Tenant()
		if err != nil {
			d.err = err.Error()
			return nil
		}
		req, err := writecapnp.NewSingleTenantRequest(wr, t)
		if err != nil {
			d.err = err.Error()
			return nil
		}
		ss, err := drain(req, d)
		if err != nil {
			d.err = err.Error()
			return nil
		}
		d.tenants, d.series = append(d.tenants, t), append(d.series, ss)
		_ = req.Close()
		return nil
	}
	data, err := wr.Data()
	if err != nil {
		d.err = err.Error()
		return nil
	}
	for i := 0; i < data.Len(); i++ {
		t, err := data.At(i).Tenant()
		if err != nil {
			d.err = err.Error()
			return nil
		}
		req, err := writecapnp.NewRequest(data.At(i), symTable, t)
		if err != nil {
			d.err = err.Error()
			return nil
		}
		ss, err := drain(req, d)
		if err != nil {
			d.err = err.Error()
			return nil
		}
		d.tenants, d.series = append(d.tenants, t), append(d.series, ss)
		_ = req.Close()
	}
	return nil
}

var (
	once    sync.Once
	thePeer = &peer{}
	client  *writecapnp.RemoteWriteClient
)

func setup() {
	lis := bufconn.Listen(1 << 20)
	srv := writecapnp.Writer_ServerToClient(thePeer)
	go func() {
		for {
			conn, err := lis.Accept()
			if err != nil {
				return
			}
			go func() {
				rc := rpc.NewConn(rpc.NewPackedStreamTransport(conn), &rpc.Options{BootstrapClient: capnp.Client(srv).AddRef()})
				<-rc.Done()
			}()
		}
	}()
	client = writecapnp.NewRemoteWriteClient(lis, log.NewNopLogger())
}

// ---- Coq printers of the input ----
func pairsCoq(ls [][2]string) string {
	s := make([]string, len(ls))
	for i, l := range ls {
		s[i] = common.Pair(common.Bytes(l[0]), common.Bytes(l[1]))
	}
	return common.List(s)
}
func nlist(bs []uint64) string {
	s := make([]string, len(bs))
	for i, b := range bs {
		s[i] = common.N(b)
	}
	return common.List(s)
}
func inSpans(sp [][2]int64) string {
	s := make([]string, len(sp))
	for i, x := range sp {
		s[i] = common.Pair(common.Z(x[0]), common.N(uint64(x[1])))
	}
	return common.List(s)
}
func cnt(kind int, v uint64) string {
	switch kind {
	case 1:
		return common.Some(common.Pair("true", common.N(v)))
	case 2:
		return common.Some(common.Pair("false", common.N(v)))
	}
	return "None"
}
func (h *hist) coq() string {
	return common.Tuple(cnt(h.CountKind, h.Count), common.N(h.Sum), common.Z(int64(h.Schema)), common.N(h.ZT), cnt(h.ZCKind, h.ZC),
		inSpans(h.NSpans), common.ZList(h.NDeltas), nlist(h.NCounts), inSpans(h.PSpans), common.ZList(h.PDeltas), nlist(h.PCounts),
		common.Z(int64(h.Reset)), common.Z(h.T), nlist(h.Custom))
}
func (s *series) coq() string {
	var ss, hs, es []string
	for _, x := range s.Samples {
		ss = append(ss, common.Pair(common.Z(x.T), common.N(x.V)))
	}
	for i := range s.Hists {
		hs = append(hs, s.Hists[i].coq())
	}
	for _, e := range s.Exemplars {
		es = append(es, common.Tuple(pairsCoq(e.Labels), common.N(e.V), common.Z(e.T)))
	}
	return common.Tuple(pairsCoq(s.Labels), common.List(ss), common.List(hs), common.List(es))
}

func run(raw json.RawMessage) (common.Case, error) {
	var in input
	if err := json.Unmarshal(raw, &in); err != nil {
		return common.Case{}, err
	}
	once.Do(setup)
	req := &storepb.WriteRequest{Replica: 1}
	if in.Single {
		if len(in.Tenants) != 1 {
			return common.Case{}, fmt.Errorf("single-tenant message needs exactly one tenant")
		}
		req.Tenant = in.Tenants[0].Tenant
		for i := range in.Tenants[0].Series {
			req.Timeseries = append(req.Timeseries, in.Tenants[0].Series[i].toProto())
		}
	} else {
		for _, t := range in.Tenants {
			td := storepb.TimeSeriesTenantTuple{Tenant: t.Tenant}
			for i := range t.Series {
				td.Timeseries = append(td.Timeseries, t.Series[i].toProto())
			}
			req.TimeseriesTenantData = append(req.TimeseriesTenantData, td)
		}
	}
	thePeer.mu.Lock()
	thePeer.last = nil
	thePeer.mu.Unlock()
	ctx, cancel := context.WithTimeout(context.Background(), 20*time.Second)
	defer cancel()
	_, rerr := client.RemoteWrite(ctx, req)
	thePeer.mu.Lock()
	d := thePeer.last
	thePeer.mu.Unlock()
	if d == nil {
		return common.Case{}, fmt.Errorf("the peer did not receive the message (client error: %v)", rerr)
	}
	if d.err != "" {
		return common.Case{}, fmt.Errorf("peer-side decode error: %s", d.err)
	}
	var c common.Case
	var tin, tout []string
	nlabels, hasCustom, hasHist, customIn := 0, false, false, 0
	for _, t := range in.Tenants {
		var ss []string
		for i := range t.Series {
			ss = append(ss, t.Series[i].coq())
			nlabels += len(t.Series[i].Labels)
			for _, h := range t.Series[i].Hists {
				hasHist = true
				hasCustom = hasCustom || len(h.Custom) > 0
				customIn += len(h.Custom)
			}
		}
		tin = append(tin, common.Pair(common.Bytes(t.Tenant), common.List(ss)))
	}
	for i, t := range d.tenants {
		tout = append(tout, common.Pair(common.Bytes(t), common.List(d.series[i])))
	}
	var offs []string
	for _, o := range d.offsets {
		offs = append(offs, common.N(uint64(o)))
	}
	c.Coq = common.App("CCapnp", common.Bool(in.Single), common.List(tin), common.Bool(d.panicV != ""), common.List(offs), common.Bytes(string(d.data)), common.List(tout))
	c.Obs = map[string]any{"panic": d.panicV, "tenants": d.tenants, "symbols": len(d.offsets), "symbol_bytes": len(d.data)}
	c.Class = "multi"
	if in.Single {
		c.Class = "single"
	}
	if hasHist {
		c.Class += "/hist"
	}
	if hasCustom {
		c.Class += "/custom-values"
	}
	c.Nontrivial = nlabels > 0
	if d.panicV != "" {
		c.GoPred = "decoding on the peer panicked: " + d.panicV
		c.Sig = "decode-panic"
		if strings.Contains(d.panicV, "Which()") {
			c.Sig = "decode-panic-union"
		}
	} else if customIn != d.custom {
		c.GoPred = fmt.Sprintf("histogram custom values (custom bucket boundaries) are not carried by the Cap'n Proto encoding: %d sent, %d decoded", customIn, d.custom)
		c.Sig = "custom-values-dropped"
	}
	return c, nil
}

// ---- generator ----
func genBits(r *rand.Rand) uint64 {
	switch r.Intn(8) {
	case 0:
		return 0
	case 1:
		return math.Float64bits(math.NaN())
	case 2:
		return math.Float64bits(math.Inf(1))
	case 3:
		return r.Uint64()
	case 4:
		return 1 << 63
	}
	return math.Float64bits(float64(r.Intn(2000)-1000) / 8)
}
func genBitsList(r *rand.Rand, max int) []uint64 {
	out := make([]uint64, r.Intn(max+1))
	for i := range out {
		out[i] = genBits(r)
	}
	return out
}
func genDeltas(r *rand.Rand, max int) []int64 {
	out := make([]int64, r.Intn(max+1))
	for i := range out {
		out[i] = common.Pick(r, int64(r.Intn(20)-10), math.MinInt64, math.MaxInt64, int64(r.Intn(1000)))
	}
	return out
}
func genSpans(r *rand.Rand) [][2]int64 {
	out := make([][2]int64, r.Intn(3))
	for i := range out {
		out[i] = [2]int64{common.Pick(r, int64(r.Intn(10)-5), math.MinInt32, math.MaxInt32), int64(common.Pick(r, uint32(r.Intn(5)), math.MaxUint32))}
	}
	return out
}
func genHist(r *rand.Rand, custom bool) hist {
	h := hist{Sum: genBits(r), Schema: common.Pick(r, int32(r.Intn(12)-4), -53, math.MinInt32), ZT: genBits(r),
		NSpans: genSpans(r), PSpans: genSpans(r), Reset: common.Pick(r, int32(0), 1, 2, 3), T: common.Pick(r, int64(r.Intn(1e6)), 1700000000000, -5)}
	if r.Intn(2) == 0 {
		h.CountKind, h.ZCKind = 1, 1
		h.Count, h.ZC = common.Pick(r, uint64(r.Intn(100)), r.Uint64()), common.Pick(r, uint64(r.Intn(10)), r.Uint64())
		h.NDeltas, h.PDeltas = genDeltas(r, 3), genDeltas(r, 3)
	} else {
		h.CountKind, h.ZCKind = 2, 2
		h.Count, h.ZC = genBits(r), genBits(r)
		h.NCounts, h.PCounts = genBitsList(r, 3), genBitsList(r, 3)
	}
	// what the protobuf path also accepts: zero count unset or of the other type, count unset
	switch r.Intn(16) {
	case 0:
		h.ZCKind = 0
	case 1:
		h.ZCKind = 3 - h.ZCKind
		h.ZC = genBits(r)
	case 2:
		h.CountKind = 0
	}
	if custom {
		h.Schema = -53
		h.Custom = genBitsList(r, 3)
		if len(h.Custom) == 0 {
			h.Custom = []uint64{math.Float64bits(1.5)}
		}
	}
	return h
}

func gen(r *rand.Rand, tier string, n int) []any {
	var out []any
	words := []string{"", "__name__", "job", "instance", "le", "up", "http_requests_total", "a", "b", "trace_id", "x\ny", "ünï", "0.5", "node-1:9100", "=", "aa", "a", ""}
	maxSeries, maxLabels := 4, 6
	if tier == "thorough" {
		maxSeries, maxLabels = 7, 10
	}
	word := func() string {
		w := words[r.Intn(len(words))]
		if r.Intn(5) == 0 {
			w = fmt.Sprintf("%s%d", w, r.Intn(30))
		}
		return w
	}
	lbls := func(max int) [][2]string {
		out := make([][2]string, r.Intn(max+1))
		for i := range out {
			out[i] = [2]string{word(), word()}
		}
		return out
	}
	for i := 0; i < n; i++ {
		var in input
		in.Single = r.Intn(6) == 0
		nt := 1 + r.Intn(3)
		if in.Single {
			nt = 1
		}
		custom := r.Intn(25) == 0 // the known finding: custom bucket boundaries
		for t := 0; t < nt; t++ {
			tn := tenant{Tenant: common.Pick(r, "t1", "tenant-a", "", "ünï", word())}
			for k := r.Intn(maxSeries + 1); k > 0; k-- {
				s := series{Labels: lbls(maxLabels)}
				for j := r.Intn(4); j > 0; j-- {
					s.Samples = append(s.Samples, sample{T: common.Pick(r, int64(r.Intn(1e6)), 1700000000000, -1, math.MinInt64), V: genBits(r)})
				}
				for j := r.Intn(3); j > 0 && r.Intn(2) == 0; j-- {
					s.Hists = append(s.Hists, genHist(r, custom && r.Intn(2) == 0))
				}
				for j := r.Intn(3); j > 0 && r.Intn(2) == 0; j-- {
					s.Exemplars = append(s.Exemplars, exemplar{Labels: lbls(3), V: genBits(r), T: int64(r.Intn(1e6))})
				}
				tn.Series = append(tn.Series, s)
			}
			in.Tenants = append(in.Tenants, tn)
		}
		out = append(out, in)
	}
	return out
}

func main() {
	common.Main(common.Prop{ID: "C25", Gen: gen, Run: run, QuickN: 250, ThoroughN: 1500,
		Preamble: "Open Scope Z_scope.\n"})
}
