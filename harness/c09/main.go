// C09: series request limits are enforced (Limiter, limitedStoreServer).
package main

import (
	"context"
	"encoding/json"
	"fmt"
	"io"
	"math"
	"math/rand"

	"github.com/prometheus/client_golang/prometheus"
	"google.golang.org/grpc"

	"github.com/thanos-io/thanos/pkg/store"
	"github.com/thanos-io/thanos/pkg/store/labelpb"
	"github.com/thanos-io/thanos/pkg/store/storepb"
	"github.com/thanos-io/thanos/zzverif/common"
)

type resp struct {
	K      string `json:"k"`                // series | batch | warn | hints
	Chunks int    `json:"chunks,omitempty"` // series
	Batch  []int  `json:"batch,omitempty"`  // chunk count per entry; -1 = nil entry
}

type input struct {
	Kind  string   `json:"kind"` // limiter | server
	Limit uint64   `json:"limit"`
	Nums  []uint64 `json:"nums,omitempty"`
	CLim  uint64   `json:"samples_limit,omitempty"`
	Resps []resp   `json:"resps,omitempty"`
}

func facts(repo string, w io.Writer) error {
	fmt.Fprintf(w, "(* pkg/store/bucket.go: constant linked into the harness *)\nDefinition MaxSamplesPerChunk : Z := %d.\n", store.MaxSamplesPerChunk)
	s, err := common.ParseSrc(repo, "pkg/store/limiter.go")
	if err != nil {
		return err
	}
	for _, f := range []struct{ fn, name string }{
		{"Limiter.ReserveWithType", "reserveEvents"},
		{"limitedServer.Send", "sendEvents"},
		{"limitedStoreServer.Series", "limitedSeriesEvents"},
	} {
		evs, err := s.CallOrder(f.fn)
		if err != nil {
			return err
		}
		fmt.Fprintln(w, common.EventsCoq(f.name, evs))
	}
	return nil
}

// fakeStore sends scripted responses and returns the first Send error.
type fakeStore struct {
	storepb.UnimplementedStoreServer
	resps []*storepb.SeriesResponse
}

func (f *fakeStore) Series(_ *storepb.SeriesRequest, srv storepb.Store_SeriesServer) error {
	for _, r := range f.resps {
		if err := srv.Send(r); err != nil {
			return err
		}
	}
	return nil
}

type recorder struct {
	grpc.ServerStream
	got []*storepb.SeriesResponse
}

func (r *recorder) Send(resp *storepb.SeriesResponse) error { r.got = append(r.got, resp); return nil }
func (r *recorder) Context() context.Context                 { return context.Background() }

func mkSeries(i, chunks int) *storepb.Series {
	s := &storepb.Series{Labels: []labelpb.ZLabel{{Name: "i", Value: fmt.Sprint(i)}}}
	for j := 0; j < chunks; j++ {
		s.Chunks = append(s.Chunks, storepb.AggrChunk{MinTime: int64(j), MaxTime: int64(j)})
	}
	return s
}

func run(raw json.RawMessage) (common.Case, error) {
	var in input
	if err := json.Unmarshal(raw, &in); err != nil {
		return common.Case{}, err
	}
	var c common.Case
	switch in.Kind {
	case "limiter":
		ctr := prometheus.NewCounter(prometheus.CounterOpts{Name: "x"})
		l := store.NewLimiter(in.Limit, ctr)
		var oks []string
		var obs []bool
		var nums []string
		var acc uint64
		wrapped := false
		for _, n := range in.Nums {
			ok := l.Reserve(n) == nil
			oks = append(oks, common.Bool(ok))
			obs = append(obs, ok)
			nums = append(nums, common.N(n))
			if acc+n < acc {
				wrapped = true
			}
			acc += n
			if !wrapped && in.Limit > 0 && ok != (acc <= in.Limit) && c.GoPred == "" {
				c.GoPred = fmt.Sprintf("Reserve answered %v with %d reserved of limit %d", ok, acc, in.Limit)
				c.Sig = "limiter-wrong-answer"
			}
			if in.Limit == 0 && !ok && c.GoPred == "" {
				c.GoPred = "Reserve failed although the limit is disabled"
				c.Sig = "limiter-wrong-answer"
			}
		}
		c.Coq = common.App("CLimiter", common.N(in.Limit), common.List(nums), common.List(oks))
		c.Obs = obs
		c.Class = "limiter"
		if in.Limit == 0 {
			c.Class = "limiter/unlimited"
		}
		c.Nontrivial = in.Limit > 0 && len(in.Nums) >= 2
		return c, nil
	case "server":
		fs := &fakeStore{}
		var rs []string
		var totS, totC uint64
		for i, r := range in.Resps {
			switch r.K {
			case "series":
				fs.resps = append(fs.resps, storepb.NewSeriesResponse(mkSeries(i, r.Chunks)))
				rs = append(rs, common.App("RSeries", common.N(uint64(r.Chunks))))
				totS++
				totC += uint64(r.Chunks)
			case "batch":
				var b []*storepb.Series
				var es []string
				for j, k := range r.Batch {
					if k < 0 {
						b = append(b, nil)
						es = append(es, common.None)
						continue
					}
					b = append(b, mkSeries(i*100+j, k))
					es = append(es, common.Some(common.N(uint64(k))))
					totS++
					totC += uint64(k)
				}
				fs.resps = append(fs.resps, storepb.NewBatchResponse(b))
				rs = append(rs, common.App("RBatch", common.List(es)))
			case "warn":
				fs.resps = append(fs.resps, storepb.NewWarnSeriesResponse(fmt.Errorf("w")))
				rs = append(rs, "ROther")
			default:
				fs.resps = append(fs.resps, storepb.NewHintsSeriesResponse(nil))
				rs = append(rs, "ROther")
			}
		}
		srv := store.NewLimitedStoreServer(fs, prometheus.NewRegistry(), store.SeriesSelectLimits{SeriesPerRequest: in.Limit, SamplesPerRequest: in.CLim})
		rec := &recorder{}
		err := srv.Series(&storepb.SeriesRequest{}, rec)
		// forwarded responses must be a prefix of the scripted ones
		for i, g := range rec.got {
			if g != fs.resps[i] {
				return c, fmt.Errorf("forwarded responses are not a prefix of the sent ones")
			}
		}
		c.Coq = common.App("CServer", common.N(in.Limit), common.N(in.CLim), common.List(rs), common.N(uint64(len(rec.got))), common.Bool(err == nil))
		c.Obs = map[string]any{"forwarded": len(rec.got), "ok": err == nil}
		c.Class = "server"
		c.Nontrivial = (in.Limit > 0 || in.CLim > 0) && len(in.Resps) >= 2
		within := func(lim, tot uint64) bool { return lim == 0 || tot <= lim }
		want := within(in.Limit, totS) && within(in.CLim, totC*store.MaxSamplesPerChunk)
		if (err == nil) != want {
			c.GoPred = fmt.Sprintf("Series returned ok=%v but totals series=%d samples=%d against limits %d/%d", err == nil, totS, totC*store.MaxSamplesPerChunk, in.Limit, in.CLim)
			c.Sig = "server-limit-not-enforced"
		} else if err == nil && len(rec.got) != len(fs.resps) {
			c.GoPred = "Series returned nil but not every response was forwarded"
			c.Sig = "server-silent-truncation"
		}
		return c, nil
	}
	return c, fmt.Errorf("bad kind %q", in.Kind)
}

func gen(r *rand.Rand, tier string, n int) []any {
	var out []any
	maxLen := 12
	if tier == "thorough" {
		maxLen = 60
	}
	for i := 0; i < n; i++ {
		if r.Intn(3) == 0 {
			in := input{Kind: "limiter"}
			k := r.Intn(maxLen)
			var tot uint64
			for j := 0; j < k; j++ {
				v := uint64(r.Intn(8))
				if r.Intn(6) == 0 {
					v = uint64(r.Intn(1000))
				}
				in.Nums = append(in.Nums, v)
				tot += v
			}
			// limits just below / at / above the true total and prefix sums
			in.Limit = uint64(int64(tot) + int64(r.Intn(7)) - 3)
			if int64(in.Limit) < 0 {
				in.Limit = 1
			}
			if r.Intn(3) == 0 && k > 0 {
				var p uint64
				for _, v := range in.Nums[:1+r.Intn(k)] {
					p += v
				}
				in.Limit = p + uint64(r.Intn(2))
			}
			if r.Intn(8) == 0 {
				in.Limit = 0
			}
			if r.Intn(25) == 0 { // counter wrap-around
				in.Limit = common.Pick(r, uint64(5), math.MaxUint64, math.MaxUint64-1)
				in.Nums = append(in.Nums, math.MaxUint64-uint64(r.Intn(3)), uint64(r.Intn(5)), uint64(r.Intn(5)))
			}
			out = append(out, in)
			continue
		}
		in := input{Kind: "server"}
		k := r.Intn(maxLen)
		var totS, totC uint64
		for j := 0; j < k; j++ {
			switch x := r.Intn(10); {
			case x < 5:
				ch := r.Intn(5)
				in.Resps = append(in.Resps, resp{K: "series", Chunks: ch})
				totS++
				totC += uint64(ch)
			case x < 8:
				var b []int
				for m := r.Intn(5); m > 0; m-- {
					if r.Intn(6) == 0 {
						b = append(b, -1)
						continue
					}
					ch := r.Intn(4)
					b = append(b, ch)
					totS++
					totC += uint64(ch)
				}
				in.Resps = append(in.Resps, resp{K: "batch", Batch: b})
			case x < 9:
				in.Resps = append(in.Resps, resp{K: "warn"})
			default:
				in.Resps = append(in.Resps, resp{K: "hints"})
			}
		}
		pick := func(tot uint64) uint64 {
			switch r.Intn(6) {
			case 0:
				return 0
			case 1:
				return tot + 1 + uint64(r.Intn(50))
			}
			v := int64(tot) + int64(r.Intn(5)) - 2
			if v < 1 {
				v = 1
			}
			return uint64(v)
		}
		in.Limit = pick(totS)
		cl := pick(totC)
		in.CLim = cl * store.MaxSamplesPerChunk
		if cl > 0 && r.Intn(3) == 0 { // not a multiple of 120
			in.CLim = cl*store.MaxSamplesPerChunk - uint64(1+r.Intn(119))
		}
		out = append(out, in)
	}
	return out
}

func main() {
	common.Main(common.Prop{ID: "C09", Facts: facts, Gen: gen, Run: run, QuickN: 800, ThoroughN: 15000,
		Preamble: "Open Scope N_scope.\n"})
}
