// C09: series request limits are enforced (Limiter, limitedStoreServer).
package main

import (
	"context"
	"encoding/json"
	"fmt"
	"go/ast"
	"io"
	"math"
	"math/rand"
	"os"
	"path/filepath"
	"sort"
	"strings"
	"sync"
	"time"

	"github.com/go-kit/log"
	"github.com/oklog/ulid/v2"
	"github.com/prometheus/client_golang/prometheus"
	"github.com/prometheus/prometheus/model/labels"
	"github.com/prometheus/prometheus/storage"
	"github.com/prometheus/prometheus/tsdb/chunks"
	"github.com/prometheus/prometheus/tsdb/index"
	"github.com/thanos-io/objstore"
	"google.golang.org/grpc"
	"google.golang.org/grpc/codes"
	"google.golang.org/grpc/status"

	"github.com/thanos-io/thanos/pkg/block"
	"github.com/thanos-io/thanos/pkg/block/metadata"
	"github.com/thanos-io/thanos/pkg/store"
	"github.com/thanos-io/thanos/pkg/testutil/e2eutil"
	"github.com/thanos-io/thanos/pkg/store/labelpb"
	"github.com/thanos-io/thanos/pkg/store/storepb"
	"github.com/thanos-io/thanos/zzverif/common"
)

type resp struct {
	K      string `json:"k"`                // series | batch | warn | hints
	Chunks int    `json:"chunks,omitempty"` // series
	Batch  []int  `json:"batch,omitempty"`  // chunk count per entry; -1 = nil entry
}

type mreq struct {
	T string `json:"t"` // = != =~ !~
	N string `json:"n"`
	V string `json:"v"`
}

type input struct {
	Kind  string   `json:"kind"` // limiter | server | store
	Limit uint64   `json:"limit"`
	Nums  []uint64 `json:"nums,omitempty"`
	CLim  uint64   `json:"samples_limit,omitempty"`
	Resps []resp   `json:"resps,omitempty"`
	// store: a Series request against the fixture blocks; Limit = series limit, ChunkLimit = chunks limit
	ChunkLimit uint64 `json:"chunk_limit,omitempty"`
	Mint       int64  `json:"mint,omitempty"`
	Maxt       int64  `json:"maxt,omitempty"`
	Matchers   []mreq `json:"matchers,omitempty"`
	SkipChunks bool   `json:"skip_chunks,omitempty"`
	SmallBatch bool   `json:"small_batch,omitempty"` // store with series batch size 2
	Lazy       bool   `json:"lazy,omitempty"`        // store with lazy expanded postings (series match ratio 1: every further posting group is lazy)
	ReqLimit   int64  `json:"req_limit,omitempty"`   // SeriesRequest.Limit
}

func facts(repo string, w io.Writer) error {
	fmt.Fprintf(w, "(* pkg/store/bucket.go: constant linked into the harness *)\nDefinition MaxSamplesPerChunk : Z := %d.\n", store.MaxSamplesPerChunk)
	s, err := common.ParseSrc(repo, "pkg/store/limiter.go")
	if err != nil {
		return err
	}
	for _, f := range []struct{ fn, name string }{
		{"Limiter.ReserveWithType", "reserveEvents"},
		{"limitedServer.Send", "sendEvents"},
		{"limitedStoreServer.Series", "limitedSeriesEvents"},
	} {
		evs, err := s.CallOrder(f.fn)
		if err != nil {
			return err
		}
		fmt.Fprintln(w, common.EventsCoq(f.name, evs))
	}
	// the reservations made by a block client of BucketStore.Series
	s2, err := common.ParseSrc(repo, "pkg/store/bucket.go")
	if err != nil {
		return err
	}
	var res []string
	for _, fn := range []string{"blockSeriesClient.ExpandPostings", "blockSeriesClient.nextBatch"} {
		fd, err := s2.FindFunc(fn)
		if err != nil {
			return err
		}
		ast.Inspect(fd.Body, func(n ast.Node) bool {
			if ce, ok := n.(*ast.CallExpr); ok {
				if se, ok := ce.Fun.(*ast.SelectorExpr); ok && se.Sel.Name == "Reserve" && len(ce.Args) == 1 {
					res = append(res, fn+": "+s2.ExprString(ce.Fun)+"("+s2.ExprString(ce.Args[0])+")")
				}
			}
			return true
		})
	}
	q := make([]string, len(res))
	for i, x := range res {
		q[i] = common.CoqString(x)
	}
	fmt.Fprintf(w, "(* pkg/store/bucket.go: Reserve calls of a block client, in source order *)\nDefinition blockClientReservations : list string := [%s]%%string.\n", strings.Join(q, "; "))
	return nil
}

// fakeStore sends scripted responses and returns the first Send error.
type fakeStore struct {
	storepb.UnimplementedStoreServer
	resps []*storepb.SeriesResponse
}

func (f *fakeStore) Series(_ *storepb.SeriesRequest, srv storepb.Store_SeriesServer) error {
	for _, r := range f.resps {
		if err := srv.Send(r); err != nil {
			return err
		}
	}
	return nil
}

type recorder struct {
	grpc.ServerStream
	got []*storepb.SeriesResponse
}

func (r *recorder) Send(resp *storepb.SeriesResponse) error { r.got = append(r.got, resp); return nil }
func (r *recorder) Context() context.Context                 { return context.Background() }

func mkSeries(i, chunks int) *storepb.Series {
	s := &storepb.Series{Labels: []labelpb.ZLabel{{Name: "i", Value: fmt.Sprint(i)}}}
	for j := 0; j < chunks; j++ {
		s.Chunks = append(s.Chunks, storepb.AggrChunk{MinTime: int64(j), MaxTime: int64(j)})
	}
	return s
}

// ---- real BucketStore over fixture blocks ---------------------------------------

type fseries struct {
	ref  storage.SeriesRef // as the Prometheus index reader numbers it
	lset labels.Labels
	chks []chunks.Meta
}

type fblock struct {
	id         ulid.ULID
	mint, maxt int64
	series     []fseries // in postings (label) order, read with the Prometheus index reader
}

type recLimiter struct {
	inner *store.Limiter
	mtx   *sync.Mutex
	log   *[]uint64
}

func (r *recLimiter) Reserve(n uint64) error {
	r.mtx.Lock()
	*r.log = append(*r.log, n)
	r.mtx.Unlock()
	return r.inner.Reserve(n)
}

type fixture struct {
	blocks      []fblock
	stores      [4]*store.BucketStore // eager: default batch size, batch size 2; lazy postings: default, 2
	mtx         sync.Mutex
	slim, clim  uint64
	sres, cres  []uint64
	initialized bool
	err         error
	dir         string
}

var fx fixture

var extLset = labels.FromStrings("ext", "1")

func (f *fixture) init() error {
	if f.initialized {
		return f.err
	}
	f.initialized = true
	f.err = f.build()
	return f.err
}

func (f *fixture) build() error {
	ctx := context.Background()
	dir, err := os.MkdirTemp("", "verif-c09")
	if err != nil {
		return err
	}
	f.dir = dir
	bkt := objstore.NewInMemBucket()
	mk := func(as, bs []string) []labels.Labels {
		var out []labels.Labels
		for _, a := range as {
			for _, b := range bs {
				out = append(out, labels.FromStrings("a", a, "b", b))
			}
		}
		return out
	}
	const h = int64(3600000)
	specs := []struct {
		series     []labels.Labels
		n          int
		mint, maxt int64
	}{
		{mk([]string{"1", "2"}, []string{"1", "2", "3"}), 250, 0, 2 * h},     // 3 chunks per series
		{mk([]string{"1", "2", "3"}, []string{"1", "2"}), 130, 2 * h, 4 * h}, // 2 chunks per series
		{mk([]string{"3", "4"}, []string{"1", "4"}), 10, h, 3 * h},           // 1 chunk per series, overlaps both
	}
	for _, sp := range specs {
		id, err := e2eutil.CreateBlock(ctx, dir, sp.series, sp.n, sp.mint, sp.maxt, extLset, 0, metadata.NoneFunc, nil)
		if err != nil {
			return fmt.Errorf("create block: %w", err)
		}
		bdir := filepath.Join(dir, id.String())
		fb := fblock{id: id, mint: sp.mint, maxt: sp.maxt}
		ir, err := index.NewFileReader(filepath.Join(bdir, "index"), index.DecodePostingsRaw)
		if err != nil {
			return err
		}
		k, v := index.AllPostingsKey()
		ps, err := ir.Postings(ctx, k, v)
		if err != nil {
			return err
		}
		var b labels.ScratchBuilder
		for ps.Next() {
			var chks []chunks.Meta
			if err := ir.Series(ps.At(), &b, &chks); err != nil {
				return err
			}
			fb.series = append(fb.series, fseries{ref: ps.At(), lset: b.Labels().Copy(), chks: append([]chunks.Meta(nil), chks...)})
		}
		ir.Close()
		m, err := metadata.ReadFromDir(bdir)
		if err != nil {
			return err
		}
		fb.mint, fb.maxt = m.MinTime, m.MaxTime
		f.blocks = append(f.blocks, fb)
		if err := block.Upload(ctx, log.NewNopLogger(), bkt, bdir, metadata.NoneFunc); err != nil {
			return fmt.Errorf("upload: %w", err)
		}
	}
	for i := 0; i < 4; i++ {
		sdir := filepath.Join(dir, fmt.Sprintf("store%d", i))
		if err := os.MkdirAll(sdir, 0o755); err != nil {
			return err
		}
		ins := objstore.WithNoopInstr(bkt)
		mf, err := block.NewMetaFetcher(log.NewNopLogger(), 4, ins, block.NewConcurrentLister(log.NewNopLogger(), ins), sdir, nil, nil)
		if err != nil {
			return err
		}
		opts := []store.BucketStoreOption{}
		if i%2 == 1 {
			opts = append(opts, store.WithSeriesBatchSize(2))
		}
		if i >= 2 {
			// match ratio 1: fetching a further posting group never saves series bytes, so every
			// posting group after the first one with add keys is expanded lazily
			opts = append(opts, store.WithLazyExpandedPostings(true), store.WithSeriesMatchRatio(1.0))
		}
		st, err := store.NewBucketStore(ins, mf, sdir,
			func(c prometheus.Counter) store.ChunksLimiter {
				return &recLimiter{inner: store.NewLimiter(f.clim, c), mtx: &f.mtx, log: &f.cres}
			},
			func(c prometheus.Counter) store.SeriesLimiter {
				return &recLimiter{inner: store.NewLimiter(f.slim, c), mtx: &f.mtx, log: &f.sres}
			},
			store.NewBytesLimiterFactory(0),
			store.NewGapBasedPartitioner(store.PartitionerMaxGapSize), 4, store.DefaultPostingOffsetInMemorySampling,
			false, false, time.Minute, opts...)
		if err != nil {
			return err
		}
		sctx, cancel := context.WithTimeout(ctx, 60*time.Second)
		err = st.SyncBlocks(sctx)
		cancel()
		if err != nil {
			return fmt.Errorf("sync blocks: %w", err)
		}
		f.stores[i] = st
	}
	return nil
}

func promMatchers(ms []mreq) ([]*labels.Matcher, []storepb.LabelMatcher, error) {
	var pm []*labels.Matcher
	var sm []storepb.LabelMatcher
	for _, m := range ms {
		t, st := labels.MatchEqual, storepb.LabelMatcher_EQ
		switch m.T {
		case "!=":
			t, st = labels.MatchNotEqual, storepb.LabelMatcher_NEQ
		case "=~":
			t, st = labels.MatchRegexp, storepb.LabelMatcher_RE
		case "!~":
			t, st = labels.MatchNotRegexp, storepb.LabelMatcher_NRE
		}
		x, err := labels.NewMatcher(t, m.N, m.V)
		if err != nil {
			return nil, nil, err
		}
		pm = append(pm, x)
		sm = append(sm, storepb.LabelMatcher{Type: st, Name: m.N, Value: m.V})
	}
	return pm, sm, nil
}

func sortedCoq(xs []uint64) string {
	ys := append([]uint64(nil), xs...)
	sort.Slice(ys, func(i, j int) bool { return ys[i] < ys[j] })
	s := make([]string, len(ys))
	for i, y := range ys {
		s[i] = common.N(y)
	}
	return common.List(s)
}

func runStore(in input) (common.Case, error) {
	var c common.Case
	if err := fx.init(); err != nil {
		return c, err
	}
	pm, sm, err := promMatchers(in.Matchers)
	if err != nil {
		return c, err
	}
	st := fx.stores[0]
	bsz := store.SeriesBatchSize
	switch {
	case in.Lazy && in.SmallBatch:
		st, bsz = fx.stores[3], 2
	case in.Lazy:
		st = fx.stores[2]
	case in.SmallBatch:
		st, bsz = fx.stores[1], 2
	}
	// Per selected block: the postings the block client iterates and the matchers it applies lazily
	// come from the store's own postings expansion (an oracle: the choice of lazy posting groups
	// is not part of the property); labels and chunk metas of every series come from the
	// Prometheus index reader.
	var blockMs []*labels.Matcher
	for _, m := range pm {
		if m.Name != "ext" { // matchers on external labels are answered by the block set
			blockMs = append(blockMs, m)
		}
	}
	var blocksCoq []string
	union := map[string]bool{}
	var trueChunks uint64
	lazyBlocks := 0
	for _, b := range fx.blocks {
		if !(b.mint <= in.Maxt && in.Mint < b.maxt) || in.Mint > in.Maxt {
			continue
		}
		refs, lazyMs, err := st.VerifC09ExpandedPostings(context.Background(), b.id, blockMs)
		if err != nil {
			return c, fmt.Errorf("expanded postings: %w", err)
		}
		byRef := map[storage.SeriesRef]*fseries{}
		for i := range b.series {
			byRef[b.series[i].ref*16] = &b.series[i]
		}
		var es []string
		for _, ref := range refs {
			se := byRef[ref]
			if se == nil {
				return c, fmt.Errorf("posting %d is not a series of block %s", ref, b.id)
			}
			lm := true
			for _, m := range lazyMs {
				if !m.Matches(se.lset.Get(m.Name)) {
					lm = false
				}
			}
			var k uint64
			for _, ch := range se.chks {
				if ch.MinTime > in.Maxt {
					break
				}
				if ch.MaxTime >= in.Mint {
					k++
				}
			}
			if in.SkipChunks && k > 0 {
				k = 1 // only "has a chunk in range" matters
			}
			es = append(es, common.Pair(common.Bool(lm), common.N(k)))
			if lm && k > 0 {
				union[se.lset.String()] = true
				trueChunks += k
			}
		}
		if len(lazyMs) > 0 {
			lazyBlocks++
		}
		blocksCoq = append(blocksCoq, common.App("mkB", common.Bool(len(lazyMs) > 0), common.List(es)))
	}
	if in.SkipChunks {
		trueChunks = 0
	}
	fx.mtx.Lock()
	fx.slim, fx.clim = in.Limit, in.ChunkLimit
	fx.sres, fx.cres = nil, nil
	fx.mtx.Unlock()
	rec := &recorder{}
	err = st.Series(&storepb.SeriesRequest{MinTime: in.Mint, MaxTime: in.Maxt, Matchers: sm, SkipChunks: in.SkipChunks, Limit: in.ReqLimit,
		MaxResolutionWindow: 0, PartialResponseStrategy: storepb.PartialResponseStrategy_ABORT}, rec)
	var nser, nchk uint64
	for _, r := range rec.got {
		if se := r.GetSeries(); se != nil {
			nser++
			nchk += uint64(len(se.Chunks))
		} else if b := r.GetBatch(); b != nil {
			for _, se := range b.Series {
				if se != nil {
					nser++
					nchk += uint64(len(se.Chunks))
				}
			}
		}
	}
	code := "ok"
	if err != nil {
		code = status.Code(err).String()
		if s, ok := status.FromError(err); ok {
			code = s.Code().String()
		}
	}
	exhausted := err != nil && code == codes.ResourceExhausted.String()
	fx.mtx.Lock()
	sres, cres := append([]uint64(nil), fx.sres...), append([]uint64(nil), fx.cres...)
	fx.mtx.Unlock()
	c.Coq = common.App("CStore", common.N(in.Limit), common.N(in.ChunkLimit), common.Nat(bsz), common.Bool(in.SkipChunks), common.N(uint64(in.ReqLimit)), common.List(blocksCoq),
		common.Bool(err == nil), common.Bool(exhausted), sortedCoq(sres), sortedCoq(cres),
		common.N(nser), common.N(nchk), common.N(uint64(len(union))), common.N(trueChunks))
	c.Obs = map[string]any{"status": code, "series": nser, "chunks": nchk, "series_reservations": sres, "chunk_reservations": cres,
		"true_series": len(union), "true_chunks": trueChunks}
	c.Class = "store"
	if lazyBlocks > 0 {
		c.Class = "store/lazy"
	}
	if in.ReqLimit > 0 {
		c.Class += "/req-limit"
	}
	if in.SkipChunks {
		c.Class += "/skip-chunks"
	}
	c.Nontrivial = len(union) >= 2 && (in.Limit > 0 || in.ChunkLimit > 0)
	if err == nil {
		if in.Limit > 0 && nser > in.Limit {
			c.GoPred, c.Sig = fmt.Sprintf("returned %d series with series limit %d", nser, in.Limit), "store-series-limit"
		} else if in.ChunkLimit > 0 && nchk > in.ChunkLimit {
			c.GoPred, c.Sig = fmt.Sprintf("returned %d chunks with chunk limit %d", nchk, in.ChunkLimit), "store-chunk-limit"
		} else if in.ReqLimit > 0 && nser > uint64(in.ReqLimit) {
			c.GoPred, c.Sig = fmt.Sprintf("returned %d series with request limit %d", nser, in.ReqLimit), "store-request-limit"
		} else if in.ReqLimit == 0 && (nser != uint64(len(union)) || nchk != trueChunks) {
			c.GoPred, c.Sig = fmt.Sprintf("returned %d series / %d chunks, the blocks hold %d / %d for this request", nser, nchk, len(union), trueChunks), "store-truncated"
		}
	} else if !exhausted {
		c.GoPred, c.Sig = "Series failed with "+code+": "+err.Error(), "store-other-error"
	}
	return c, nil
}

func run(raw json.RawMessage) (common.Case, error) {
	var in input
	if err := json.Unmarshal(raw, &in); err != nil {
		return common.Case{}, err
	}
	var c common.Case
	switch in.Kind {
	case "store":
		return runStore(in)
	case "limiter":
		ctr := prometheus.NewCounter(prometheus.CounterOpts{Name: "x"})
		l := store.NewLimiter(in.Limit, ctr)
		var oks []string
		var obs []bool
		var nums []string
		var acc uint64
		wrapped := false
		for _, n := range in.Nums {
			ok := l.Reserve(n) == nil
			oks = append(oks, common.Bool(ok))
			obs = append(obs, ok)
			nums = append(nums, common.N(n))
			if acc+n < acc {
				wrapped = true
			}
			acc += n
			if !wrapped && in.Limit > 0 && ok != (acc <= in.Limit) && c.GoPred == "" {
				c.GoPred = fmt.Sprintf("Reserve answered %v with %d reserved of limit %d", ok, acc, in.Limit)
				c.Sig = "limiter-wrong-answer"
			}
			if in.Limit == 0 && !ok && c.GoPred == "" {
				c.GoPred = "Reserve failed although the limit is disabled"
				c.Sig = "limiter-wrong-answer"
			}
		}
		c.Coq = common.App("CLimiter", common.N(in.Limit), common.List(nums), common.List(oks))
		c.Obs = obs
		c.Class = "limiter"
		if in.Limit == 0 {
			c.Class = "limiter/unlimited"
		}
		c.Nontrivial = in.Limit > 0 && len(in.Nums) >= 2
		return c, nil
	case "server":
		fs := &fakeStore{}
		var rs []string
		var totS, totC uint64
		for i, r := range in.Resps {
			switch r.K {
			case "series":
				fs.resps = append(fs.resps, storepb.NewSeriesResponse(mkSeries(i, r.Chunks)))
				rs = append(rs, common.App("RSeries", common.N(uint64(r.Chunks))))
				totS++
				totC += uint64(r.Chunks)
			case "batch":
				var b []*storepb.Series
				var es []string
				for j, k := range r.Batch {
					if k < 0 {
						b = append(b, nil)
						es = append(es, common.None)
						continue
					}
					b = append(b, mkSeries(i*100+j, k))
					es = append(es, common.Some(common.N(uint64(k))))
					totS++
					totC += uint64(k)
				}
				fs.resps = append(fs.resps, storepb.NewBatchResponse(b))
				rs = append(rs, common.App("RBatch", common.List(es)))
			case "warn":
				fs.resps = append(fs.resps, storepb.NewWarnSeriesResponse(fmt.Errorf("w")))
				rs = append(rs, "ROther")
			default:
				fs.resps = append(fs.resps, storepb.NewHintsSeriesResponse(nil))
				rs = append(rs, "ROther")
			}
		}
		srv := store.NewLimitedStoreServer(fs, prometheus.NewRegistry(), store.SeriesSelectLimits{SeriesPerRequest: in.Limit, SamplesPerRequest: in.CLim})
		rec := &recorder{}
		err := srv.Series(&storepb.SeriesRequest{}, rec)
		// forwarded responses must be a prefix of the scripted ones
		for i, g := range rec.got {
			if g != fs.resps[i] {
				return c, fmt.Errorf("forwarded responses are not a prefix of the sent ones")
			}
		}
		c.Coq = common.App("CServer", common.N(in.Limit), common.N(in.CLim), common.List(rs), common.N(uint64(len(rec.got))), common.Bool(err == nil))
		c.Obs = map[string]any{"forwarded": len(rec.got), "ok": err == nil}
		c.Class = "server"
		c.Nontrivial = (in.Limit > 0 || in.CLim > 0) && len(in.Resps) >= 2
		within := func(lim, tot uint64) bool { return lim == 0 || tot <= lim }
		want := within(in.Limit, totS) && within(in.CLim, totC*store.MaxSamplesPerChunk)
		if (err == nil) != want {
			c.GoPred = fmt.Sprintf("Series returned ok=%v but totals series=%d samples=%d against limits %d/%d", err == nil, totS, totC*store.MaxSamplesPerChunk, in.Limit, in.CLim)
			c.Sig = "server-limit-not-enforced"
		} else if err == nil && len(rec.got) != len(fs.resps) {
			c.GoPred = "Series returned nil but not every response was forwarded"
			c.Sig = "server-silent-truncation"
		}
		return c, nil
	}
	return c, fmt.Errorf("bad kind %q", in.Kind)
}

func gen(r *rand.Rand, tier string, n int) []any {
	var out []any
	maxLen := 12
	if tier == "thorough" {
		maxLen = 60
	}
	nStore := n / 8 // every store case runs two real Series requests
	for i := 0; i < nStore; i++ {
		const h = int64(3600000)
		in := input{Kind: "store", SkipChunks: r.Intn(5) == 0, SmallBatch: r.Intn(2) == 0, Lazy: r.Intn(2) == 0}
		in.Mint = int64(r.Intn(int(5*h))) - h/2
		in.Maxt = in.Mint + int64(r.Intn(int(4*h)))
		if r.Intn(4) == 0 {
			in.Mint, in.Maxt = -h, 6*h
		}
		in.Matchers = [][]mreq{
			{{"=~", "a", ".+"}},
			{{"=", "a", "1"}},
			{{"=~", "a", "1|3"}},
			{{"=", "b", "1"}},
			{{"=~", "a", ".+"}, {"!=", "b", "2"}},
			{{"=", "a", "3"}, {"=~", "b", "1|4"}},
			{{"=", "a", "9"}},
			{{"=", "ext", "1"}, {"=", "b", "2"}},
			{{"=", "a", "1"}, {"=~", "b", "1|2|3"}},
			{{"=~", "a", "1|2|3"}, {"=", "b", "1"}},
			{{"=~", "a", ".+"}, {"=~", "b", "2|3|4"}},
			{{"=", "a", "2"}, {"!=", "b", "1"}},
			{{"=~", "a", "2|3"}, {"=~", "b", "1|4"}},
		}[r.Intn(13)]
		if in.Lazy && r.Intn(3) != 0 { // two posting groups on different labels: the second is expanded lazily
			in.Matchers = [][]mreq{
				{{"=", "a", "1"}, {"=~", "b", "1|2|3"}},
				{{"=~", "a", "1|2|3"}, {"=", "b", "1"}},
				{{"=~", "a", ".+"}, {"=~", "b", "2|3|4"}},
				{{"=", "a", "2"}, {"!=", "b", "1"}},
				{{"=~", "a", "2|3"}, {"=~", "b", "1|4"}},
				{{"=~", "a", "1|2"}, {"=~", "b", ".+"}},
				{{"=", "b", "2"}, {"=~", "a", "2|3|4"}},
			}[r.Intn(7)]
		}
		// limits around the real reservation totals are found by a dry run with limits disabled
		dry := in
		dry.Limit, dry.ChunkLimit = 0, 0
		var sTot, cTot uint64
		trueSeries := uint64(0)
		if dc, err := runStore(dry); err == nil {
			if m, ok := dc.Obs.(map[string]any); ok {
				if v, ok := m["true_series"].(int); ok {
					trueSeries = uint64(v)
				}
			}
			fx.mtx.Lock()
			for _, v := range fx.sres {
				sTot += v
			}
			for _, v := range fx.cres {
				cTot += v
			}
			fx.mtx.Unlock()
		}
		pick := func(tot uint64) uint64 {
			switch r.Intn(5) {
			case 0:
				return 0
			case 1:
				return tot + 1 + uint64(r.Intn(20))
			}
			v := int64(tot) + int64(r.Intn(5)) - 2
			if v < 1 {
				v = 1
			}
			return uint64(v)
		}
		in.Limit, in.ChunkLimit = pick(sTot), pick(cTot)
		if r.Intn(4) == 0 && trueSeries >= 2 { // just below what the client would receive, whatever was reserved
			in.Limit = trueSeries - 1
		}
		if r.Intn(5) == 0 { // the request's own Limit: limiter limits off or generous, so that the result does not
			// depend on how many batches were asked for before the merged stream was cut
			in.ReqLimit = int64(1 + r.Intn(4))
			in.Limit, in.ChunkLimit = common.Pick(r, uint64(0), sTot+5), common.Pick(r, uint64(0), cTot+5)
		}
		out = append(out, in)
	}
	for i := 0; i < n-nStore; i++ {
		if r.Intn(3) == 0 {
			in := input{Kind: "limiter"}
			k := r.Intn(maxLen)
			var tot uint64
			for j := 0; j < k; j++ {
				v := uint64(r.Intn(8))
				if r.Intn(6) == 0 {
					v = uint64(r.Intn(1000))
				}
				in.Nums = append(in.Nums, v)
				tot += v
			}
			// limits just below / at / above the true total and prefix sums
			in.Limit = uint64(int64(tot) + int64(r.Intn(7)) - 3)
			if int64(in.Limit) < 0 {
				in.Limit = 1
			}
			if r.Intn(3) == 0 && k > 0 {
				var p uint64
				for _, v := range in.Nums[:1+r.Intn(k)] {
					p += v
				}
				in.Limit = p + uint64(r.Intn(2))
			}
			if r.Intn(8) == 0 {
				in.Limit = 0
			}
			if r.Intn(25) == 0 { // counter wrap-around
				in.Limit = common.Pick(r, uint64(5), math.MaxUint64, math.MaxUint64-1)
				in.Nums = append(in.Nums, math.MaxUint64-uint64(r.Intn(3)), uint64(r.Intn(5)), uint64(r.Intn(5)))
			}
			out = append(out, in)
			continue
		}
		in := input{Kind: "server"}
		k := r.Intn(maxLen)
		var totS, totC uint64
		for j := 0; j < k; j++ {
			switch x := r.Intn(10); {
			case x < 5:
				ch := r.Intn(5)
				in.Resps = append(in.Resps, resp{K: "series", Chunks: ch})
				totS++
				totC += uint64(ch)
			case x < 8:
				var b []int
				for m := r.Intn(5); m > 0; m-- {
					if r.Intn(6) == 0 {
						b = append(b, -1)
						continue
					}
					ch := r.Intn(4)
					b = append(b, ch)
					totS++
					totC += uint64(ch)
				}
				in.Resps = append(in.Resps, resp{K: "batch", Batch: b})
			case x < 9:
				in.Resps = append(in.Resps, resp{K: "warn"})
			default:
				in.Resps = append(in.Resps, resp{K: "hints"})
			}
		}
		pick := func(tot uint64) uint64 {
			switch r.Intn(6) {
			case 0:
				return 0
			case 1:
				return tot + 1 + uint64(r.Intn(50))
			}
			v := int64(tot) + int64(r.Intn(5)) - 2
			if v < 1 {
				v = 1
			}
			return uint64(v)
		}
		in.Limit = pick(totS)
		cl := pick(totC)
		in.CLim = cl * store.MaxSamplesPerChunk
		if cl > 0 && r.Intn(3) == 0 { // not a multiple of 120
			in.CLim = cl*store.MaxSamplesPerChunk - uint64(1+r.Intn(119))
		}
		out = append(out, in)
	}
	return out
}

func main() {
	defer func() {
		if fx.dir != "" {
			_ = os.RemoveAll(fx.dir) // blocks and store directories of the fixture
		}
	}()
	common.Main(common.Prop{ID: "C09", Facts: facts, Gen: gen, Run: run, QuickN: 800, ThoroughN: 15000,
		Preamble: "Open Scope N_scope.\n"})
}
