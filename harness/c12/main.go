// C12: cached posting-list encodings decode to the original list, and seeking
// in the decoded list behaves as seeking in the original.
package main

import (
	"bytes"
	"encoding/json"
	"fmt"
	"go/ast"
	"hash/crc32"
	"io"
	"math/rand"
	"runtime"
	"runtime/debug"
	"sort"
	"strings"

	"github.com/golang/snappy"
	"github.com/klauspost/compress/s2"
	"github.com/prometheus/prometheus/storage"
	"github.com/prometheus/prometheus/tsdb/index"

	"github.com/thanos-io/thanos/pkg/store"
	"github.com/thanos-io/thanos/zzverif/common"
)

type op struct {
	K string `json:"k"` // next | seek
	X uint64 `json:"x,omitempty"`
}

type piece struct {
	N int  `json:"n"`          // payload bytes of this chunk
	C bool `json:"c,omitempty"` // compressed chunk (else uncompressed)
}

type hlist struct {
	Start   uint64   `json:"start"`
	Pattern []uint64 `json:"pattern"`
	Reps    int      `json:"reps"`
}

type hevent struct {
	New     *int    `json:"new,omitempty"`     // decodePostings(list)
	Next    *[2]int `json:"next,omitempty"`    // decoder, number of Next calls
	Exhaust *int    `json:"exhaust,omitempty"` // decoder
	Close   *int    `json:"close,omitempty"`   // decoder
}

type input struct {
	Lists []hlist  `json:"lists,omitempty"` // hist
	Evs   []hevent `json:"evs,omitempty"`   // hist
	Kind   string   `json:"kind"` // round | split | seek | hist
	L      []uint64 `json:"l"`
	Pieces []piece  `json:"pieces,omitempty"` // split: framing chosen by the harness
	Prog   []op     `json:"prog,omitempty"`   // seek, big
	// big: l = prefix sums, from Start, of Pattern repeated Reps times
	Start   uint64   `json:"start,omitempty"`
	Pattern []uint64 `json:"pattern,omitempty"`
	Reps    int      `json:"reps,omitempty"`
}

func facts(repo string, w io.Writer) error {
	s, err := common.ParseSrc(repo, "pkg/store/postings_codec.go")
	if err != nil {
		return err
	}
	fmt.Fprintln(w, "(* pkg/store/postings_codec.go: source-order events (calls, ifs, loops, returns) of the iterator methods and of the encoder loop *)")
	for _, f := range []struct{ fn, name string }{
		{"diffVarintPostings.Next", "dvNextEvents"},
		{"diffVarintPostings.Seek", "dvSeekEvents"},
		{"streamedDiffVarintPostings.Next", "sdNextEvents"},
		{"streamedDiffVarintPostings.Seek", "sdSeekEvents"},
		{"diffVarintEncodeNoHeader", "encodeEvents"},
	} {
		evs, err := s.CallOrder(f.fn)
		if err != nil {
			return err
		}
		fmt.Fprintln(w, common.EventsCoq(f.name, evs))
	}
	// what readNextChunk makes of the remainder and the decoded chunk payload
	rn, err := s.FindFunc("streamedDiffVarintPostings.readNextChunk")
	if err != nil {
		return err
	}
	var bAssigns []string
	ast.Inspect(rn.Body, func(n ast.Node) bool {
		if as, ok := n.(*ast.AssignStmt); ok && len(as.Lhs) == 1 && len(as.Rhs) == 1 && s.ExprString(as.Lhs[0]) == "it.db.B" {
			bAssigns = append(bAssigns, s.ExprString(as.Rhs[0]))
		}
		return true
	})
	qs := make([]string, len(bAssigns))
	for i, x := range bAssigns {
		qs[i] = common.CoqString(x)
	}
	fmt.Fprintf(w, "Definition readNextChunkDbBAssigns : list string := [%s]%%string.\n", strings.Join(qs, "; "))
	// close() of the streamed decoder: what it tests, what it calls, and that it assigns nothing
	cevs, err := s.CallOrder("streamedDiffVarintPostings.close")
	if err != nil {
		return err
	}
	fmt.Fprintln(w, common.EventsCoq("sdCloseEvents", cevs))
	cf, err := s.FindFunc("streamedDiffVarintPostings.close")
	if err != nil {
		return err
	}
	var cAssigns []string
	ast.Inspect(cf.Body, func(n ast.Node) bool {
		if as, ok := n.(*ast.AssignStmt); ok {
			for _, l := range as.Lhs {
				cAssigns = append(cAssigns, s.ExprString(l))
			}
		}
		return true
	})
	qc := make([]string, len(cAssigns))
	for i, x := range cAssigns {
		qc[i] = common.CoqString(x)
	}
	fmt.Fprintf(w, "Definition sdCloseAssigns : list string := [%s]%%string.\n", strings.Join(qc, "; "))
	e, err := s.RHS("diffVarintSnappyStreamedEncode", "uvarintSize")
	if err != nil {
		return err
	}
	fmt.Fprintf(w, "Definition streamedEncodeUvarintRHS : string := %s%%string.\n", common.CoqString(s.ExprString(e)))
	h1, h2 := store.VerifC12CodecHeaders()
	fmt.Fprintf(w, "Definition codecHeaderSnappy : string := %s%%string.\n", common.CoqString(h1))
	fmt.Fprintf(w, "Definition codecHeaderStreamedSnappy : string := %s%%string.\n", common.CoqString(h2))
	return nil
}

func refs(l []uint64) []storage.SeriesRef {
	out := make([]storage.SeriesRef, len(l))
	for i, v := range l {
		out[i] = storage.SeriesRef(v)
	}
	return out
}

// nlist renders a list of N; long lists are written as blocks joined by ++ so
// that no single literal is nested deeper than a few thousand conses.
func nlist(l []uint64) string {
	if len(l) == 0 {
		return "[]"
	}
	const blk = 2048
	if len(l) > blk {
		var parts []string
		for i := 0; i < len(l); i += blk {
			j := i + blk
			if j > len(l) {
				j = len(l)
			}
			parts = append(parts, nlist(l[i:j]))
		}
		return "(" + strings.Join(parts, " ++ ") + ")"
	}
	var sb bytes.Buffer
	sb.WriteString("[")
	for i, v := range l {
		if i > 0 {
			sb.WriteString(";")
		}
		fmt.Fprintf(&sb, "%d", v)
	}
	sb.WriteString("]%N")
	return sb.String()
}

func nbytes(b []byte) string {
	u := make([]uint64, len(b))
	for i, v := range b {
		u[i] = uint64(v)
	}
	return nlist(u)
}

func intsN(l []int) string {
	u := make([]uint64, len(l))
	for i, v := range l {
		u[i] = uint64(v)
	}
	return nlist(u)
}

// readAll reads an iterator with Next until it returns false.
func readAll(p index.Postings) ([]uint64, bool) {
	var out []uint64
	for p.Next() {
		out = append(out, uint64(p.At()))
	}
	return out, p.Err() != nil
}

func outCoq(l []uint64, e bool) string { return common.Pair(nlist(l), common.Bool(e)) }

var crcTable = crc32.MakeTable(crc32.Castagnoli)

// masked CRC of the snappy framing format (section 3).
func crc(b []byte) uint32 {
	c := crc32.Update(0, crcTable, b)
	return c>>15 | c<<17 + 0xa282ead8
}

// dataChunks parses the snappy framing after the "dss" header and returns the
// decoded payload of every data chunk.
func dataChunks(enc []byte, hdr string) ([][]byte, error) {
	if !bytes.HasPrefix(enc, []byte(hdr)) {
		return nil, fmt.Errorf("streamed encoding lacks header")
	}
	in := enc[len(hdr):]
	var out [][]byte
	for len(in) > 0 {
		if len(in) < 4 {
			return nil, fmt.Errorf("short chunk header")
		}
		t := in[0]
		n := int(in[1]) | int(in[2])<<8 | int(in[3])<<16
		in = in[4:]
		if len(in) < n {
			return nil, fmt.Errorf("short chunk")
		}
		body := in[:n]
		in = in[n:]
		switch t {
		case 0x00:
			d, err := s2.Decode(nil, body[4:])
			if err != nil {
				return nil, err
			}
			out = append(out, d)
		case 0x01:
			out = append(out, body[4:])
		}
	}
	return out, nil
}

func frame(raw []byte, pieces []piece, hdr string) []byte {
	var b bytes.Buffer
	b.WriteString(hdr)
	b.Write([]byte{0xff, 0x06, 0x00, 0x00, 's', 'N', 'a', 'P', 'p', 'Y'})
	for _, pc := range pieces {
		data := raw[:pc.N]
		raw = raw[pc.N:]
		var body []byte
		t := byte(0x01)
		if pc.C {
			t = 0x00
			body = snappy.Encode(nil, data)
		} else {
			body = data
		}
		n := len(body) + 4
		c := crc(data)
		b.Write([]byte{t, byte(n), byte(n >> 8), byte(n >> 16), byte(c), byte(c >> 8), byte(c >> 16), byte(c >> 24)})
		b.Write(body)
	}
	return b.Bytes()
}

func valid(l []uint64) bool {
	return sort.SliceIsSorted(l, func(i, j int) bool { return l[i] < l[j] })
}

func eqU(a, b []uint64) bool {
	if len(a) != len(b) {
		return false
	}
	for i := range a {
		if a[i] != b[i] {
			return false
		}
	}
	return true
}

type ev struct {
	B  bool   `json:"b"`
	At uint64 `json:"at"`
}

func runProg(p index.Postings, prog []op) []ev {
	var t []ev
	for _, o := range prog {
		var b bool
		if o.K == "seek" {
			b = p.Seek(storage.SeriesRef(o.X))
		} else {
			b = p.Next()
		}
		t = append(t, ev{b, uint64(p.At())})
		if !b {
			break
		}
	}
	return t
}

func traceCoq(t []ev) string {
	s := make([]string, len(t))
	for i, e := range t {
		s[i] = common.Pair(common.Bool(e.B), common.N(e.At))
	}
	return common.List(s)
}

func visibleEq(a, b []ev) bool {
	if len(a) != len(b) {
		return false
	}
	for i := range a {
		if a[i].B != b[i].B || (a[i].B && a[i].At != b[i].At) {
			return false
		}
	}
	return true
}

func sizeClass(n int) string {
	switch {
	case n == 0:
		return "empty"
	case n <= 3:
		return "1-3"
	case n <= 50:
		return "4-50"
	case n <= 2000:
		return "51-2000"
	}
	return ">2000"
}

func run(rawIn json.RawMessage) (common.Case, error) {
	var in input
	if err := json.Unmarshal(rawIn, &in); err != nil {
		return common.Case{}, err
	}
	var c common.Case
	if in.Kind == "hist" {
		return runHist(in)
	}
	if in.Kind == "big" {
		cur := in.Start
		in.L = nil
		for i := 0; i < in.Reps; i++ {
			for _, d := range in.Pattern {
				cur += d
				in.L = append(in.L, cur)
			}
		}
	}
	c.Class = in.Kind + "/" + sizeClass(len(in.L))
	_, hdrS := store.VerifC12CodecHeaders()
	l := refs(in.L)
	ok := valid(in.L)

	raw, rawErr := store.VerifC12DiffVarintEncodeNoHeader(index.NewListPostings(l), len(l))

	switch in.Kind {
	case "round":
		e1, err1 := store.VerifC12DiffVarintSnappyEncode(index.NewListPostings(l), len(l))
		e2, err2 := store.VerifC12DiffVarintSnappyStreamedEncode(index.NewListPostings(l), len(l))
		if rawErr != nil || err1 != nil || err2 != nil {
			if ok || rawErr == nil || err1 == nil || err2 == nil {
				return encodeFailed(c, in.L, ok, rawErr, err1, err2), nil
			}
			c.Coq = common.App("CRound", nlist(in.L), common.None, outCoq(nil, false), "[]", outCoq(nil, false))
			c.Obs = map[string]any{"encode_error": true}
			return c, nil
		}
		// decodePostings dispatches on the header, as the cache read path does
		p1, close1, err := store.VerifC12DecodePostings(e1)
		if err != nil {
			return c, fmt.Errorf("decode dvs: %w", err)
		}
		d1, de1 := readAll(p1)
		close1()
		p2, close2, err := store.VerifC12DecodePostings(e2)
		if err != nil {
			return c, fmt.Errorf("decode dss: %w", err)
		}
		d2, de2 := readAll(p2)
		close2()
		chunks, err := dataChunks(e2, hdrS)
		if err != nil {
			return c, err
		}
		var lens []int
		var cat []byte
		for _, ch := range chunks {
			lens = append(lens, len(ch))
			cat = append(cat, ch...)
		}
		if !bytes.Equal(cat, raw) {
			return c, fmt.Errorf("streamed chunks do not concatenate to the diff-varint bytes")
		}
		c.Coq = common.App("CRound", nlist(in.L), common.Some(nbytes(raw)), outCoq(d1, de1), intsN(lens), outCoq(d2, de2))
		c.Obs = map[string]any{"raw_len": len(raw), "chunks": lens, "dvs_len": len(d1), "dss_len": len(d2), "dvs_err": de1, "dss_err": de2}
		c.Nontrivial = ok && len(in.L) >= 2
		if ok && (!eqU(d1, in.L) || de1 || !eqU(d2, in.L) || de2) {
			c.GoPred = "decoded list differs from the original"
			c.Sig = "roundtrip-differs"
		}
		return c, nil
	case "reencode":
		// the cache write path of fetchPostings: snappyStreamedEncode over ready diff-varint bytes,
		// read back through decodePostings
		if rawErr != nil {
			return encodeFailed(c, in.L, ok, rawErr, nil, nil), nil
		}
		enc, err := store.VerifC12SnappyStreamedEncode(len(in.L), raw)
		if err != nil {
			return c, fmt.Errorf("snappyStreamedEncode: %w", err)
		}
		chunks, err := dataChunks(enc, hdrS)
		if err != nil {
			return c, err
		}
		var lens []int
		var cat []byte
		for _, ch := range chunks {
			lens = append(lens, len(ch))
			cat = append(cat, ch...)
		}
		if !bytes.Equal(cat, raw) {
			return c, fmt.Errorf("streamed chunks do not concatenate to the diff-varint bytes")
		}
		p, cl, err := store.VerifC12DecodePostings(enc)
		if err != nil {
			return c, fmt.Errorf("decode: %w", err)
		}
		d, de := readAll(p)
		cl()
		c.Coq = common.App("CSplit", nlist(in.L), intsN(lens), outCoq(d, de))
		c.Obs = map[string]any{"raw_len": len(raw), "chunks": lens, "decoded_len": len(d), "err": de}
		c.Nontrivial = len(in.L) >= 2
		if !eqU(d, in.L) || de {
			c.GoPred = "snappyStreamedEncode + decodePostings does not give back the original list"
			c.Sig = "reencode-differs"
		}
		return c, nil
	case "split":
		if rawErr != nil {
			return encodeFailed(c, in.L, ok, rawErr, nil, nil), nil
		}
		tot := 0
		var lens []int
		for _, pc := range in.Pieces {
			tot += pc.N
			lens = append(lens, pc.N)
		}
		if tot != len(raw) {
			// generator does not know the byte length: re-cut proportionally
			return c, fmt.Errorf("pieces sum %d != raw length %d", tot, len(raw))
		}
		enc := frame(raw, in.Pieces, hdrS)
		p, cl, err := store.VerifC12DiffVarintSnappyStreamedDecode(enc, len(in.L)%2 == 0)
		if err != nil {
			return c, fmt.Errorf("streamed decode: %w", err)
		}
		d, de := readAll(p)
		cl()
		c.Coq = common.App("CSplit", nlist(in.L), intsN(lens), outCoq(d, de))
		c.Obs = map[string]any{"raw_len": len(raw), "pieces": in.Pieces, "decoded_len": len(d), "err": de}
		c.Nontrivial = len(in.L) >= 2 && len(in.Pieces) >= 2
		if !eqU(d, in.L) || de {
			c.GoPred = "streamed decoder output differs from the original for this chunking"
			c.Sig = "split-differs"
		}
		return c, nil
	case "seek", "big":
		if rawErr != nil {
			return encodeFailed(c, in.L, ok, rawErr, nil, nil), nil
		}
		e1, err := store.VerifC12DiffVarintSnappyEncode(index.NewListPostings(l), len(l))
		if err != nil {
			return encodeFailed(c, in.L, ok, nil, err, nil), nil
		}
		var e2 []byte
		var lens []int
		if len(in.Pieces) > 0 {
			for _, pc := range in.Pieces {
				lens = append(lens, pc.N)
			}
			e2 = frame(raw, in.Pieces, hdrS)
		} else {
			e2, err = store.VerifC12DiffVarintSnappyStreamedEncode(index.NewListPostings(l), len(l))
			if err != nil {
				return encodeFailed(c, in.L, ok, nil, nil, err), nil
			}
			chunks, err := dataChunks(e2, hdrS)
			if err != nil {
				return c, err
			}
			for _, ch := range chunks {
				lens = append(lens, len(ch))
			}
		}
		tl := runProg(index.NewListPostings(refs(in.L)), in.Prog)
		p1, close1, err := store.VerifC12DecodePostings(e1)
		if err != nil {
			return c, err
		}
		td := runProg(p1, in.Prog)
		close1()
		p2, close2, err := store.VerifC12DecodePostings(e2)
		if err != nil {
			return c, err
		}
		ts := runProg(p2, in.Prog)
		close2()
		var progS []string
		seeks := 0
		for _, o := range in.Prog {
			if o.K == "seek" {
				progS = append(progS, common.App("OSeek", common.N(o.X)))
				seeks++
			} else {
				progS = append(progS, "ONext")
			}
		}
		c.Obs = map[string]any{"list": tl, "dvs": td, "dss": ts}
		c.Nontrivial = len(in.L) >= 2 && seeks >= 1
		if in.Kind == "big" {
			q1, cl1, err := store.VerifC12DecodePostings(e1)
			if err != nil {
				return c, err
			}
			d1, de1 := readAll(q1)
			cl1()
			q2, cl2, err := store.VerifC12DecodePostings(e2)
			if err != nil {
				return c, err
			}
			d2, de2 := readAll(q2)
			cl2()
			same1, same2 := eqU(d1, in.L) && !de1, eqU(d2, in.L) && !de2
			c.Coq = common.App("CBig", common.N(in.Start), nlist(in.Pattern), common.N(uint64(in.Reps)), intsN(lens),
				common.Bool(same1), common.Bool(same2), common.List(progS), traceCoq(tl), traceCoq(td), traceCoq(ts))
			c.Obs = map[string]any{"len": len(in.L), "raw_len": len(raw), "chunks": lens, "dvs_same": same1, "dss_same": same2, "list": tl, "dvs": td, "dss": ts}
			c.Nontrivial = len(lens) >= 2
			if !same1 || !same2 {
				c.GoPred = "decoded long list differs from the original"
				c.Sig = "roundtrip-differs"
				return c, nil
			}
		} else {
			c.Coq = common.App("CSeek", nlist(in.L), intsN(lens), common.List(progS), traceCoq(tl), traceCoq(td), traceCoq(ts))
		}
		if !visibleEq(td, tl) {
			c.GoPred = "diffVarintPostings answers the program differently from ListPostings"
			c.Sig = "seek-differs-dvs"
		} else if !visibleEq(ts, tl) {
			c.GoPred = "streamedDiffVarintPostings answers the program differently from ListPostings"
			c.Sig = "seek-differs-dss"
		}
		return c, nil
	}
	return c, fmt.Errorf("bad kind %q", in.Kind)
}

// runHist: a history of pooled streamed decoders (decodePostings with pooling on).
func runHist(in input) (common.Case, error) {
	var c common.Case
	runtime.GOMAXPROCS(1)
	defer debug.SetGCPercent(debug.SetGCPercent(-1))
	runtime.LockOSThread()
	defer runtime.UnlockOSThread()
	_, hdrS := store.VerifC12CodecHeaders()
	var lists [][]uint64
	var encs [][]byte
	var listsCoq []string
	compressed := 0
	for _, hl := range in.Lists {
		var l []uint64
		cur := hl.Start
		for i := 0; i < hl.Reps; i++ {
			for _, d := range hl.Pattern {
				cur += d
				l = append(l, cur)
			}
		}
		enc, err := store.VerifC12DiffVarintSnappyStreamedEncode(index.NewListPostings(refs(l)), len(l))
		if err != nil {
			return c, fmt.Errorf("encode: %w", err)
		}
		// count compressed data chunks: only those use the pooled decode buffer
		for b := enc[len(hdrS):]; len(b) >= 4; {
			n := int(b[1]) | int(b[2])<<8 | int(b[3])<<16
			if b[0] == 0x00 {
				compressed++
			}
			if len(b) < 4+n {
				break
			}
			b = b[4+n:]
		}
		lists = append(lists, l)
		encs = append(encs, enc)
		listsCoq = append(listsCoq, common.Tuple(common.N(hl.Start), nlist(hl.Pattern), common.N(uint64(hl.Reps))))
	}
	type dec struct {
		p     index.Postings
		cl    func()
		l     int
		read  int
		same  bool
		done  bool
		close bool
	}
	var decs []*dec
	var evsCoq []string
	step := func(d *dec) bool {
		if d.p.Next() {
			if d.read >= len(lists[d.l]) || uint64(d.p.At()) != lists[d.l][d.read] {
				d.same = false
			}
			d.read++
			return true
		}
		d.done = true
		return false
	}
	maxLive, live := 0, 0
	for _, e := range in.Evs {
		switch {
		case e.New != nil && *e.New >= 0 && *e.New < len(lists):
			p, cl, err := store.VerifC12DecodePostings(encs[*e.New])
			if err != nil {
				return c, fmt.Errorf("decode: %w", err)
			}
			decs = append(decs, &dec{p: p, cl: cl, l: *e.New, same: true})
			evsCoq = append(evsCoq, common.App("HNew", common.Nat(*e.New)))
			live++
			if live > maxLive {
				maxLive = live
			}
		case e.Next != nil && e.Next[0] >= 0 && e.Next[0] < len(decs) && !decs[e.Next[0]].close && e.Next[1] >= 0:
			d := decs[e.Next[0]]
			for k := 0; k < e.Next[1] && !d.done; k++ {
				step(d)
			}
			evsCoq = append(evsCoq, common.App("HNext", common.Nat(e.Next[0]), common.N(uint64(e.Next[1]))))
		case e.Exhaust != nil && *e.Exhaust >= 0 && *e.Exhaust < len(decs) && !decs[*e.Exhaust].close:
			d := decs[*e.Exhaust]
			for !d.done && step(d) {
			}
			evsCoq = append(evsCoq, common.App("HExhaust", common.Nat(*e.Exhaust)))
		case e.Close != nil && *e.Close >= 0 && *e.Close < len(decs) && !decs[*e.Close].close:
			d := decs[*e.Close]
			d.cl()
			d.close = true
			live--
			evsCoq = append(evsCoq, common.App("HClose", common.Nat(*e.Close)))
		}
	}
	var outs []string
	type ob struct {
		List int  `json:"list"`
		Read int  `json:"read"`
		Same bool `json:"equals_original"`
		Err  bool `json:"err"`
	}
	var obs []ob
	for i, d := range decs {
		e := d.p.Err() != nil
		outs = append(outs, common.Tuple(common.N(uint64(d.read)), common.Bool(d.same), common.Bool(e)))
		obs = append(obs, ob{d.l, d.read, d.same, e})
		if (!d.same || e) && c.GoPred == "" {
			c.GoPred = fmt.Sprintf("decoder %d (list %d) returned values that differ from its original list (read %d, err=%v)", i, d.l, d.read, e)
			c.Sig = "pooled-decoders-interfere"
		}
		if !d.close { // leave the pools as we found them
			d.cl()
		}
	}
	c.Coq = common.App("CHist", common.List(listsCoq), common.List(evsCoq), common.List(outs))
	c.Obs = map[string]any{"decoders": obs, "compressed_chunks": compressed, "max_live_decoders": maxLive}
	c.Class = "hist"
	c.Nontrivial = compressed > 0 && maxLive >= 2
	return c, nil
}

// encodeFailed: an encoder refused a sorted list, or the three encoders do not
// agree on refusing this list. Reported as a failing case (raw = None).
func encodeFailed(c common.Case, l []uint64, sorted bool, e0, e1, e2 error) common.Case {
	c.Coq = common.App("CRound", nlist(l), common.None, outCoq(nil, false), "[]", outCoq(nil, false))
	c.Obs = map[string]any{"encode_error": map[string]bool{"noheader": e0 != nil, "dvs": e1 != nil, "dss": e2 != nil}}
	if sorted {
		c.GoPred = "an encoder rejected a sorted list"
		c.Sig = "encode-error"
	} else {
		c.GoPred = "the encoders disagree on rejecting an unsorted list"
		c.Sig = "encoders-disagree"
	}
	return c
}

// ---- generators ------------------------------------------------------------

func genList(r *rand.Rand, maxLen int) []uint64 {
	n := 0
	switch k := r.Intn(10); {
	case k == 0:
		n = 0
	case k <= 2:
		n = 1 + r.Intn(3)
	default:
		n = 1 + r.Intn(maxLen)
	}
	style := r.Intn(6)
	l := make([]uint64, 0, n)
	var cur uint64
	if r.Intn(3) == 0 {
		cur = uint64(r.Int63n(1 << 40))
	}
	for i := 0; i < n; i++ {
		var d uint64
		switch style {
		case 0: // dense
			d = uint64(r.Intn(3))
		case 1: // one/two byte varints around the 128 boundary
			d = uint64(120 + r.Intn(20))
		case 2: // varint length boundaries
			sh := uint(7 * (1 + r.Intn(8)))
			d = (uint64(1) << sh) - 2 + uint64(r.Intn(4))
		case 3: // sparse, gaps >= 2^32
			d = uint64(1)<<32 + uint64(r.Int63n(1<<33))
		case 4: // mixed
			d = uint64(r.Int63n(1 << uint(1+r.Intn(40))))
		default: // typical series refs (multiples of 16)
			d = 16 * uint64(1+r.Intn(20))
		}
		if cur+d < cur { // would wrap: stop growing
			d = 0
		}
		cur += d
		l = append(l, cur)
	}
	if n > 0 && r.Intn(12) == 0 { // reach the top of uint64 (10-byte varints)
		l[n-1] = ^uint64(0) - uint64(r.Intn(2))
		if n > 1 && l[n-2] > l[n-1] {
			l[n-2] = l[n-1]
		}
	}
	if n > 0 && r.Intn(15) == 0 && l[0] < 1<<63 {
		l[0] = uint64(1)<<63 + uint64(r.Intn(5)) // first diff needs 10 bytes
		for i := 1; i < n; i++ {
			if l[i] < l[i-1] {
				l[i] = l[i-1]
			}
		}
	}
	return l
}

func rawLen(l []uint64) int {
	raw, err := store.VerifC12DiffVarintEncodeNoHeader(index.NewListPostings(refs(l)), len(l))
	if err != nil {
		return -1
	}
	return len(raw)
}

func genPieces(r *rand.Rand, total int) []piece {
	var ps []piece
	left := total
	style := r.Intn(3)
	for left > 0 {
		var n int
		switch style {
		case 0: // byte by byte: every varint longer than one byte is split
			n = 1
		case 1:
			n = 1 + r.Intn(3)
		default:
			n = 1 + r.Intn(left)
		}
		if n > left {
			n = left
		}
		if r.Intn(8) == 0 {
			n = 0 // empty chunk
		}
		ps = append(ps, piece{N: n, C: r.Intn(2) == 0})
		left -= n
	}
	if r.Intn(4) == 0 {
		ps = append(ps, piece{N: 0, C: r.Intn(2) == 0})
	}
	return ps
}

func genProg(r *rand.Rand, l []uint64, n int) []op {
	var prog []op
	cur := 0
	for i := 0; i < n; i++ {
		if r.Intn(2) == 0 {
			prog = append(prog, op{K: "next"})
			cur++
			continue
		}
		var x uint64
		switch k := r.Intn(8); {
		case k == 0:
			x = 0
		case k == 1:
			x = uint64(r.Int63())
		case k == 2 && len(l) > 0:
			x = l[len(l)-1] + uint64(r.Intn(2)) // last element / just beyond
		case len(l) > 0:
			j := cur - 2 + r.Intn(8)
			if r.Intn(4) == 0 {
				j = r.Intn(len(l))
			}
			if j < 0 {
				j = 0
			}
			if j >= len(l) {
				j = len(l) - 1
			}
			x = l[j] + uint64(r.Intn(3)) - 1
			cur = j
		default:
			x = uint64(r.Intn(5))
		}
		prog = append(prog, op{K: "seek", X: x})
	}
	return prog
}

func gen(r *rand.Rand, tier string, n int) []any {
	var out []any
	maxLen := 60
	if tier == "thorough" {
		maxLen = 200
	}
	for i := 0; i < n; i++ {
		switch k := r.Intn(10); {
		case k < 3:
			l := genList(r, maxLen)
			if r.Intn(6) == 0 && len(l) >= 2 { // unsorted: the encoder must fail
				a, b := r.Intn(len(l)), r.Intn(len(l))
				l[a], l[b] = l[b], l[a]
			}
			out = append(out, input{Kind: "round", L: l})
		case k < 5:
			l := genList(r, maxLen)
			out = append(out, input{Kind: "split", L: l, Pieces: genPieces(r, rawLen(l))})
		case k < 6:
			out = append(out, input{Kind: "reencode", L: genList(r, 4*maxLen)})
		default:
			l := genList(r, maxLen)
			in := input{Kind: "seek", L: l, Prog: genProg(r, l, 1+r.Intn(2*len(l)+4))}
			if r.Intn(2) == 0 {
				in.Pieces = genPieces(r, rawLen(l))
			}
			out = append(out, in)
		}
	}
	// histories of pooled streamed decoders
	nh := n / 12
	for i := 0; i < nh; i++ {
		in := input{Kind: "hist"}
		nl := 2 + r.Intn(3)
		for j := 0; j < nl; j++ {
			k := 1 + r.Intn(3)
			pat := make([]uint64, k)
			for x := range pat {
				pat[x] = uint64(1 + r.Intn(40))
			}
			in.Lists = append(in.Lists, hlist{Start: uint64(r.Intn(5000)), Pattern: pat, Reps: 100 + r.Intn(700)})
		}
		ip := func(v int) *int { return &v }
		nd := 0
		open := []int{}
		// a decoder read to the end and closed (what every request does) ...
		warm := 1 + r.Intn(2)
		for w := 0; w < warm; w++ {
			in.Evs = append(in.Evs, hevent{New: ip(r.Intn(nl))}, hevent{Exhaust: ip(nd)}, hevent{Close: ip(nd)})
			nd++
		}
		// ... then several decoders alive at the same time, consumed interleaved
		k := 2 + r.Intn(3)
		for j := 0; j < k; j++ {
			in.Evs = append(in.Evs, hevent{New: ip(r.Intn(nl))})
			open = append(open, nd)
			nd++
		}
		for st := 0; st < 6+r.Intn(20) && len(open) > 0; st++ {
			x := r.Intn(len(open))
			d := open[x]
			switch r.Intn(10) {
			case 0:
				in.Evs = append(in.Evs, hevent{Exhaust: ip(d)})
			case 1:
				in.Evs = append(in.Evs, hevent{Close: ip(d)})
				open = append(open[:x], open[x+1:]...)
			case 2:
				in.Evs = append(in.Evs, hevent{New: ip(r.Intn(nl))})
				open = append(open, nd)
				nd++
			default:
				in.Evs = append(in.Evs, hevent{Next: &[2]int{d, 1 + r.Intn(300)}})
			}
		}
		for _, d := range open {
			if r.Intn(2) == 0 {
				in.Evs = append(in.Evs, hevent{Exhaust: ip(d)})
			}
		}
		for _, d := range open {
			in.Evs = append(in.Evs, hevent{Close: ip(d)})
		}
		out = append(out, in)
	}
	// lists whose diff-varint bytes cross the 65536-byte block of the real snappy
	// stream writer (the chunk boundary falls wherever it falls, also inside a varint)
	big := 1
	if tier == "thorough" {
		big = 12
	}
	for i := 0; i < big; i++ {
		k := 3 + r.Intn(8)
		pat := make([]uint64, k)
		bytesPer := 0
		var sum uint64
		for j := range pat {
			nb := 1 + r.Intn(6) // varint length of this difference
			pat[j] = uint64(1)<<uint(7*(nb-1)) + uint64(r.Int63n(1<<uint(7*(nb-1))))
			if nb == 1 {
				pat[j] = uint64(r.Intn(128))
			}
			bytesPer += nb
			sum += pat[j]
		}
		reps := (66000+r.Intn(70000))/bytesPer + 1
		if tier == "thorough" && i%3 == 2 {
			reps *= 2
		}
		for uint64(reps) > (^uint64(0)>>1)/(sum+1) { // keep every value below 2^63
			reps /= 2
		}
		n := reps * k
		start := uint64(r.Intn(1000))
		// probe around the middle and the end
		in := input{Kind: "big", Start: start, Pattern: pat, Reps: reps}
		var l []uint64
		cur := start
		for a := 0; a < reps; a++ {
			for _, d := range pat {
				cur += d
				l = append(l, cur)
			}
		}
		in.Prog = []op{{K: "seek", X: l[n/2] - 1}, {K: "next"}, {K: "seek", X: l[n-3]}, {K: "next"}, {K: "next"}, {K: "next"}}
		if i%2 == 1 {
			in.Prog = []op{{K: "next"}, {K: "seek", X: l[n/3] + 1}, {K: "seek", X: l[n-1] + 1}}
		}
		out = append(out, in)
	}
	return out
}

func main() {
	common.Main(common.Prop{ID: "C12", Facts: facts, Gen: gen, Run: run, QuickN: 500, ThoroughN: 3000,
		Preamble: "Open Scope N_scope.\n"})
}
