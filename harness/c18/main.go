// C18: hashring placement is distinct, deterministic (order-independent) and zone-balanced.
package main

import (
	"encoding/json"
	"fmt"
	"go/ast"
	"io"
	"math/rand"
	"sort"
	"strings"

	"github.com/cespare/xxhash/v2"
	"github.com/thanos-io/thanos/pkg/receive"
	"github.com/thanos-io/thanos/pkg/store/labelpb"
	"github.com/thanos-io/thanos/pkg/store/storepb/prompb"
	"github.com/thanos-io/thanos/zzverif/common"
	"github.com/thanos-io/thanos/zzverif/hashringutil"
)

type endpoint struct {
	Addr string `json:"addr"`
	AZ   string `json:"az"`
}

type series struct {
	Tenant string      `json:"tenant"`
	Labels [][2]string `json:"labels"`
}

type input struct {
	Kind      string     `json:"kind"` // ketama | multi | hashmod | hash
	Endpoints []endpoint `json:"endpoints,omitempty"`
	Perm      []int      `json:"perm,omitempty"`
	Spn       int        `json:"spn,omitempty"`
	RF        uint64     `json:"rf,omitempty"`
	Series    []series   `json:"series"`
}

func facts(repo string, w io.Writer) error {
	s, err := common.ParseSrc(repo, "pkg/receive/hashring.go")
	if err != nil {
		return err
	}
	fd, err := s.FindFunc("simpleHashring.GetN")
	if err != nil {
		return err
	}
	// the guard `if n >= uint64(len(s))` and the index of the final `return s[<index>], nil`
	var guard, index ast.Expr
	for _, st := range fd.Body.List {
		switch x := st.(type) {
		case *ast.IfStmt:
			if guard == nil {
				guard = x.Cond
			}
		case *ast.ReturnStmt:
			if len(x.Results) == 2 {
				if ix, ok := x.Results[0].(*ast.IndexExpr); ok {
					index = ix.Index
				}
			}
		}
	}
	if guard == nil || index == nil {
		return fmt.Errorf("srcfacts: simpleHashring.GetN no longer has the shape `if <guard> {...}; return s[<index>], nil`")
	}
	consts := map[string]string{"ts.Labels": "labels"}
	callees := map[string]string{"labelpb.HashWithPrefix": "HWP", "len": "len_"}
	g, err := s.TranslateExpr(guard, consts, callees)
	if err != nil {
		return err
	}
	ix, err := s.TranslateExpr(index, consts, callees)
	if err != nil {
		return err
	}
	fmt.Fprintf(w, "(* pkg/receive/hashring.go simpleHashring.GetN: guard `%s`, index `%s` (uint64 arithmetic read over Z: no wrap-around) *)\n", s.ExprString(guard), s.ExprString(index))
	fmt.Fprintf(w, "Definition simple_insufficient (len_ : Z -> Z) (n s : Z) : bool := %s.\n", g)
	fmt.Fprintf(w, "Definition simple_index (HWP : Z -> Z -> Z) (len_ : Z -> Z) (tenant labels n s : Z) : Z := %s.\n", ix)
	// ketamaHashring.GetN: the predicate handed to sort.Search
	gd, err := s.FindFunc("ketamaHashring.GetN")
	if err != nil {
		return err
	}
	op, err := hashringutil.SearchPredicate(gd, s.ExprString, "c.sections[i].hash", "v")
	if err != nil {
		return err
	}
	fmt.Fprintln(w, "(* pkg/receive/hashring.go ketamaHashring.GetN: sort.Search(len(c.sections), func(i int) bool { return c.sections[i].hash <op> v }) *)")
	fmt.Fprintf(w, "Definition ketama_search_pred (hash v : Z) : bool := (hash %s v).\n", op)
	return nil
}

func toTS(sr series) (*prompb.TimeSeries, []labelpb.ZLabel) {
	ls := make([]labelpb.ZLabel, len(sr.Labels))
	for i, l := range sr.Labels {
		ls[i] = labelpb.ZLabel{Name: l[0], Value: l[1]}
	}
	return &prompb.TimeSeries{Labels: ls}, ls
}

func azIDs(eps []endpoint) map[string]int64 {
	m := map[string]int64{}
	for _, e := range eps {
		if _, ok := m[e.AZ]; !ok {
			m[e.AZ] = int64(len(m))
		}
	}
	return m
}

func natList(xs []int) string {
	s := make([]string, len(xs))
	for i, x := range xs {
		s[i] = common.Nat(x)
	}
	return common.List(s)
}

func permuted(eps []endpoint, perm []int) []receive.Endpoint {
	out := make([]receive.Endpoint, len(perm))
	for i, p := range perm {
		out[i] = receive.Endpoint{Address: eps[p].Addr, AZ: eps[p].AZ}
	}
	return out
}

func identity(n int) []int {
	p := make([]int, n)
	for i := range p {
		p[i] = i
	}
	return p
}

func run(raw json.RawMessage) (common.Case, error) {
	var in input
	if err := json.Unmarshal(raw, &in); err != nil {
		return common.Case{}, err
	}
	var c common.Case
	c.Class = in.Kind
	if len(in.Perm) != len(in.Endpoints) {
		in.Perm = identity(len(in.Endpoints))
	}
	switch in.Kind {
	case "hash":
		return runHash(in, c)
	case "hashmod":
		return runHashmod(in, c)
	case "ketama", "multi":
		return runKetama(in, c)
	}
	return c, fmt.Errorf("bad kind %q", in.Kind)
}

func runHash(in input, c common.Case) (common.Case, error) {
	if len(in.Series) != 1 {
		return c, fmt.Errorf("hash case needs exactly one series")
	}
	sr := in.Series[0]
	_, ls := toTS(sr)
	impl := labelpb.HashWithPrefix(sr.Tenant, ls)
	// independent computation: one-shot xxhash of tenant 0xff (name 0xff value 0xff)*
	var b []byte
	b = append(b, sr.Tenant...)
	b = append(b, 0xff)
	var lbl []string
	for _, l := range sr.Labels {
		b = append(b, l[0]...)
		b = append(b, 0xff)
		b = append(b, l[1]...)
		b = append(b, 0xff)
		lbl = append(lbl, common.Pair(common.Bytes(l[0]), common.Bytes(l[1])))
	}
	oracle := xxhash.Sum64(b)
	c.Coq = common.App("CHash", common.Bytes(sr.Tenant), common.List(lbl), common.Bytes(string(b)), common.ZU(oracle), common.ZU(impl))
	c.Obs = impl
	c.Nontrivial = len(b) >= 1024 // the streaming path was taken
	if len(b) >= 1024 {
		c.Class = "hash/stream"
	} else {
		c.Class = "hash/buffer"
	}
	if impl != oracle {
		c.GoPred, c.Sig = "HashWithPrefix differs from xxhash of the canonical byte string", "hash-input"
	}
	return c, nil
}

func runHashmod(in input, c common.Case) (common.Case, error) {
	n := len(in.Endpoints)
	mk := func(perm []int) (receive.Hashring, error) {
		return receive.NewMultiHashring(receive.AlgorithmHashmod, in.RF, []receive.HashringConfig{{Endpoints: permuted(in.Endpoints, perm)}}, nil)
	}
	h1, err := mk(identity(n))
	if err != nil {
		return c, fmt.Errorf("hashmod ring: %v", err)
	}
	h2, err := mk(in.Perm)
	if err != nil {
		return c, fmt.Errorf("hashmod ring (permuted): %v", err)
	}
	// address ids: rank of the address in string order (strings.Compare)
	addrs := make([]string, n)
	for i, e := range in.Endpoints {
		addrs[i] = e.Addr
	}
	sorted := append([]string(nil), addrs...)
	sort.Strings(sorted)
	id := map[string]int64{}
	for _, a := range sorted {
		if _, ok := id[a]; !ok {
			id[a] = int64(len(id))
		}
	}
	var addrTerms []string
	for _, a := range addrs {
		addrTerms = append(addrTerms, common.Z(id[a]))
	}
	var qs []string
	var obs [][]string
	for _, sr := range in.Series {
		ts, ls := toTS(sr)
		hv := labelpb.HashWithPrefix(sr.Tenant, ls)
		ans := func(h receive.Hashring) (string, []string, error) {
			var out []string
			var names []string
			seen := map[string]bool{}
			for k := 0; k < n; k++ {
				e, err := h.GetN(sr.Tenant, ts, uint64(k))
				if err != nil {
					return "", nil, fmt.Errorf("GetN(%d): %v", k, err)
				}
				if seen[e.Address] {
					c.GoPred, c.Sig = "hashmod: the same node is returned for two replica numbers", "hashmod-duplicate"
				}
				seen[e.Address] = true
				out = append(out, common.Z(id[e.Address]))
				names = append(names, e.Address)
			}
			if _, err := h.GetN(sr.Tenant, ts, uint64(n)); err == nil {
				c.GoPred, c.Sig = "hashmod: GetN(len) did not fail", "hashmod-range"
			}
			return common.List(out), names, nil
		}
		a1, n1, err := ans(h1)
		if err != nil {
			return c, err
		}
		a2, n2, err := ans(h2)
		if err != nil {
			return c, err
		}
		if strings.Join(n1, ",") != strings.Join(n2, ",") && c.GoPred == "" {
			c.GoPred, c.Sig = "hashmod: answers depend on the order of the endpoint list", "hashmod-order"
		}
		qs = append(qs, common.Tuple(common.ZU(hv), a1, a2))
		obs = append(obs, n1)
	}
	c.Coq = common.App("CMod", common.List(addrTerms), natList(in.Perm), common.List(qs))
	c.Obs = obs
	c.Nontrivial = n >= 2 && len(in.Series) > 0
	return c, nil
}

func runKetama(in input, c common.Case) (common.Case, error) {
	n := len(in.Endpoints)
	spn := in.Spn
	mk := func(perm []int) (receive.Hashring, error) {
		eps := permuted(in.Endpoints, perm)
		if in.Kind == "multi" {
			return receive.NewMultiHashring(receive.AlgorithmKetama, in.RF, []receive.HashringConfig{{Endpoints: eps}}, nil)
		}
		return receive.VerifC18NewKetama(eps, spn, in.RF)
	}
	if in.Kind == "multi" {
		spn = receive.SectionsPerNode
	}
	h1, err1 := mk(identity(n))
	h2, err2 := mk(in.Perm)
	pos := map[string]int{}
	for i, e := range in.Endpoints {
		pos[e.Addr] = i
	}
	ids := azIDs(in.Endpoints)
	rk := &hashringutil.Ranker{}
	for _, e := range in.Endpoints {
		for i := 1; i <= spn; i++ {
			rk.Add(hashringutil.SectionHash(e.Addr, i))
		}
	}
	hvs := make([]uint64, len(in.Series))
	for i, sr := range in.Series {
		_, ls := toTS(sr)
		hvs[i] = labelpb.HashWithPrefix(sr.Tenant, ls)
		rk.Add(hvs[i])
	}
	var epTerms []string
	zones := map[string]bool{}
	for _, e := range in.Endpoints {
		zones[e.AZ] = true
		hs := make([]string, 0, spn)
		for i := 1; i <= spn; i++ {
			hs = append(hs, common.ZU(rk.Rank(hashringutil.SectionHash(e.Addr, i))))
		}
		epTerms = append(epTerms, common.Pair(common.Z(ids[e.AZ]), common.List(hs)))
	}
	var qs []string
	var obs [][]string
	for i, sr := range in.Series {
		ts, _ := toTS(sr)
		ans := func(h receive.Hashring, herr error) (string, []string, error) {
			if herr != nil {
				return "[]", nil, nil
			}
			var out []int
			var names []string
			perZone := map[string]int{}
			seen := map[string]bool{}
			for k := uint64(0); k < in.RF; k++ {
				e, err := h.GetN(sr.Tenant, ts, k)
				if err != nil {
					return "", nil, fmt.Errorf("GetN(%d): %v", k, err)
				}
				p, ok := pos[e.Address]
				if !ok {
					return "", nil, fmt.Errorf("GetN returned an unknown endpoint %q", e.Address)
				}
				if seen[e.Address] {
					c.GoPred, c.Sig = "ketama: the same node is returned for two replica numbers", "ketama-duplicate"
				}
				seen[e.Address] = true
				perZone[e.AZ]++
				out = append(out, p)
				names = append(names, e.Address)
			}
			if c.GoPred == "" {
				lo, hi := int(in.RF), 0
				for z := range zones {
					if perZone[z] < lo {
						lo = perZone[z]
					}
					if perZone[z] > hi {
						hi = perZone[z]
					}
				}
				if hi > lo+1 {
					c.GoPred, c.Sig = "ketama: replica counts per zone differ by more than one", "zone-imbalance"
				}
			}
			return natList(out), names, nil
		}
		a1, n1, err := ans(h1, err1)
		if err != nil {
			return c, err
		}
		a2, n2, err := ans(h2, err2)
		if err != nil {
			return c, err
		}
		if err1 == nil && err2 == nil && strings.Join(n1, ",") != strings.Join(n2, ",") && c.GoPred == "" {
			c.GoPred, c.Sig = "ketama: answers depend on the order of the endpoint list", "ketama-order"
		}
		qs = append(qs, common.Tuple(common.ZU(rk.Rank(hvs[i])), a1, a2))
		obs = append(obs, n1)
	}
	if (err1 == nil) != (err2 == nil) && c.GoPred == "" {
		c.GoPred, c.Sig = "ketama: whether the ring can be built depends on the order of the endpoint list", "ketama-order-build"
	}
	c.Coq = common.App("CKet", common.List(epTerms), natList(in.Perm), common.Nat(int(in.RF)),
		common.Bool(err1 == nil), common.Bool(err2 == nil), common.List(qs))
	c.Obs = obs
	c.Class = fmt.Sprintf("%s/zones=%d", in.Kind, len(zones))
	if err1 != nil {
		c.Class += "/err"
	}
	// non-trivial: a ring with >= 2 nodes was built, rf >= 2 and at least one series was placed
	c.Nontrivial = err1 == nil && n >= 2 && in.RF >= 2 && len(in.Series) > 0
	return c, nil
}

// ---- generators ----

func genSeries(r *rand.Rand, k int, long bool) []series {
	tenants := []string{"", "default-tenant", "team-a", "team-b", "t\xff1"}
	var out []series
	for i := 0; i < k; i++ {
		var s series
		s.Tenant = common.Pick(r, tenants...)
		nl := r.Intn(5)
		s.Labels = append(s.Labels, [2]string{"__name__", fmt.Sprintf("metric_%d", r.Intn(1000))})
		for j := 0; j < nl; j++ {
			s.Labels = append(s.Labels, [2]string{fmt.Sprintf("l%d", j), fmt.Sprintf("v%d", r.Intn(50))})
		}
		if long {
			// push the hash input across the 1 KiB buffer: exactly at, just below, well above
			pad := int(common.Pick(r, int64(900), 990, 1000, 1010, 1024, 1100, 2100))
			at := r.Intn(len(s.Labels) + 1)
			big := [2]string{"pad", strings.Repeat(string(rune('a'+r.Intn(26))), pad)}
			s.Labels = append(s.Labels[:at], append([][2]string{big}, s.Labels[at:]...)...)
			if r.Intn(4) == 0 {
				s.Tenant = strings.Repeat("T", 1030) // prefix alone exceeds the buffer
			}
		}
		out = append(out, s)
	}
	return out
}

// genSafeLayout returns endpoints whose zones can all hold ceil(rf/zones)
// replicas, so that the replica walk cannot get stuck (see C19) and the
// result does not depend on whether the C19 repair is applied.
func genSafeLayout(r *rand.Rand, maxNodes int) ([]endpoint, uint64) {
	n := int(common.Between(r, 1, int64(maxNodes)))
	nz := int(common.Between(r, 1, 4))
	if nz > n {
		nz = n
	}
	if r.Intn(4) == 0 {
		nz = 1
	}
	names := []string{"", "a", "b", "c"}
	if r.Intn(2) == 0 {
		names = []string{"z1", "z2", "z3", "z4"}
	}
	sizes := make([]int, nz)
	for i := range sizes {
		sizes[i] = 1
	}
	for k := nz; k < n; k++ {
		if r.Intn(3) == 0 {
			sizes[0]++ // unbalanced
		} else {
			sizes[r.Intn(nz)]++
		}
	}
	minSize := n
	for _, s := range sizes {
		if s < minSize {
			minSize = s
		}
	}
	maxRF := minSize * nz // every zone can take ceil(rf/nz) <= minSize
	if maxRF > 5 {
		maxRF = 5
	}
	rf := uint64(common.Between(r, 1, int64(maxRF)))
	if r.Intn(3) == 0 {
		rf = uint64(maxRF)
	}
	var eps []endpoint
	for z, s := range sizes {
		for k := 0; k < s; k++ {
			eps = append(eps, endpoint{Addr: fmt.Sprintf("n%d-%d.%d:10901", r.Intn(100), z, k), AZ: names[z]})
		}
	}
	r.Shuffle(len(eps), func(i, j int) { eps[i], eps[j] = eps[j], eps[i] })
	return eps, rf
}

func gen(r *rand.Rand, tier string, n int) []any {
	var out []any
	nser := 6
	if tier == "thorough" {
		nser = 12
	}
	for i := 0; i < n; i++ {
		var in input
		switch k := r.Intn(100); {
		case k < 8:
			in.Kind = "hash"
			in.Series = genSeries(r, 1, r.Intn(3) == 0)
		case k < 25:
			in.Kind = "hashmod"
			nn := int(common.Between(r, 1, 12))
			for j := 0; j < nn; j++ {
				in.Endpoints = append(in.Endpoints, endpoint{Addr: fmt.Sprintf("h%d.%d:10901", r.Intn(50), j)})
			}
			in.Perm = r.Perm(nn)
			in.Series = genSeries(r, nser, false)
		default:
			in.Kind = "ketama"
			maxNodes := 12
			if r.Intn(60) == 0 { // the public constructor, real SectionsPerNode; lists are shuffled (unsorted)
				in.Kind = "multi"
				maxNodes = 3
			}
			in.Endpoints, in.RF = genSafeLayout(r, maxNodes)
			in.Spn = int(common.Pick(r, int64(1), 2, 3, 5, 8))
			in.Perm = r.Perm(len(in.Endpoints))
			in.Series = genSeries(r, nser, r.Intn(20) == 0)
		}
		out = append(out, in)
	}
	return out
}

func main() {
	common.Main(common.Prop{ID: "C18", Facts: facts, Gen: gen, Run: run, QuickN: 400, ThoroughN: 3000})
}
