// C21: shuffle-sharded tenants get stable, correctly sized sub-rings that contain all replicas.
package main

import (
	"encoding/json"
	"fmt"
	"go/ast"
	"io"
	"math/rand"
	"path/filepath"
	"sort"

	"github.com/thanos-io/thanos/pkg/receive"
	"github.com/thanos-io/thanos/pkg/store/labelpb"
	"github.com/thanos-io/thanos/pkg/store/storepb/prompb"
	"github.com/thanos-io/thanos/zzverif/common"
	"github.com/thanos-io/thanos/zzverif/hashringutil"
)

type endpoint struct {
	Addr string `json:"addr"`
	AZ   string `json:"az"`
}

type override struct {
	Size    int      `json:"size"`
	Type    string   `json:"type"` // "exact" | "glob" | "" | other
	Tenants []string `json:"tenants"`
}

type input struct {
	Via       string     `json:"via"` // shim | multi
	Endpoints []endpoint `json:"endpoints"`
	Spn       int        `json:"spn"`
	RF        uint64     `json:"rf"`
	ShardSize int        `json:"shard_size"`
	CacheSize int        `json:"cache_size"`
	Disabled  bool       `json:"zone_awareness_disabled"`
	Overrides []override `json:"overrides"`
	Requests  []string   `json:"requests"` // tenants, in request order (repetitions exercise the cache)
	NSeries   int        `json:"nseries"`
}

func facts(repo string, w io.Writer) error {
	s, err := common.ParseSrc(repo, "pkg/receive/hashring.go")
	if err != nil {
		return err
	}
	fd, err := s.FindFunc("shuffleShardHashring.getShardSize")
	if err != nil {
		return err
	}
	// Is an unset TenantMatcherType ("") handled like TenantMatcherTypeExact?
	// true iff a case clause lists both TenantMatcherTypeExact and "", or isExactMatcher is used.
	found, sawSwitch := false, false
	ast.Inspect(fd.Body, func(n ast.Node) bool {
		switch x := n.(type) {
		case *ast.CaseClause:
			sawSwitch = true
			hasExact, hasEmpty := false, false
			for _, e := range x.List {
				if id, ok := e.(*ast.Ident); ok && id.Name == "TenantMatcherTypeExact" {
					hasExact = true
				}
				if bl, ok := e.(*ast.BasicLit); ok && bl.Value == `""` {
					hasEmpty = true
				}
			}
			if hasExact && hasEmpty {
				found = true
			}
		case *ast.CallExpr:
			if id, ok := x.Fun.(*ast.Ident); ok && id.Name == "isExactMatcher" {
				found, sawSwitch = true, true
			}
		}
		return true
	})
	if !sawSwitch {
		return fmt.Errorf("srcfacts: getShardSize no longer switches on the matcher type")
	}
	fmt.Fprintln(w, "(* pkg/receive/hashring.go getShardSize: is an unset tenant_matcher_type treated as exact? *)")
	fmt.Fprintf(w, "Definition unset_is_exact : bool := %s.\n", common.Bool(found))
	gd, err := s.FindFunc("shuffleShardHashring.getTenantShard")
	if err != nil {
		return err
	}
	op, err := hashringutil.SearchPredicate(gd, s.ExprString, "azSections[idx].hash", "randomPos")
	if err != nil {
		return err
	}
	fmt.Fprintln(w, "(* getTenantShard: sort.Search(len(azSections), func(idx int) bool { return azSections[idx].hash <op> randomPos }) *)")
	fmt.Fprintf(w, "Definition shard_search_pred (hash pos : Z) : bool := (hash %s pos).\n", op)
	return nil
}

func natList(xs []int) string {
	s := make([]string, len(xs))
	for i, x := range xs {
		s[i] = common.Nat(x)
	}
	return common.List(s)
}

func optNodes(eps []receive.Endpoint, err error, pos map[string]int) (string, []int) {
	if err != nil {
		return common.None, nil
	}
	var ps []int
	for _, e := range eps {
		ps = append(ps, pos[e.Address])
	}
	sort.Ints(ps)
	return common.Some(natList(ps)), ps
}

const maxPositions = 12

func run(raw json.RawMessage) (common.Case, error) {
	var in input
	if err := json.Unmarshal(raw, &in); err != nil {
		return common.Case{}, err
	}
	var c common.Case
	eps := make([]receive.Endpoint, len(in.Endpoints))
	pos := map[string]int{}
	azID := map[string]int64{}
	// The model sees every distinct endpoint once (first occurrence): the
	// implementation deduplicates the nodes of the base ring, and a repeated
	// endpoint only repeats sections with identical hashes and identity.
	var distinct []endpoint
	hasDup := false
	for i, e := range in.Endpoints {
		eps[i] = receive.Endpoint{Address: e.Addr, AZ: e.AZ}
		if j, dup := pos[e.Addr]; dup {
			if distinct[j].AZ != e.AZ {
				return c, fmt.Errorf("address %q listed with two different zones (not supported by this harness)", e.Addr)
			}
			hasDup = true
			continue
		}
		pos[e.Addr] = len(distinct)
		distinct = append(distinct, e)
		if _, ok := azID[e.AZ]; !ok {
			azID[e.AZ] = int64(len(azID))
		}
	}
	in.Endpoints = distinct
	cfg := receive.ShuffleShardingConfig{ShardSize: in.ShardSize, CacheSize: in.CacheSize, ZoneAwarenessDisabled: in.Disabled}
	strID := map[string]int64{}
	sid := func(s string) int64 {
		if _, ok := strID[s]; !ok {
			strID[s] = int64(len(strID))
		}
		return strID[s]
	}
	var ovTerms []string
	for _, o := range in.Overrides {
		cfg.Overrides = append(cfg.Overrides, receive.ShuffleShardingOverrideConfig{ShardSize: o.Size, Tenants: o.Tenants, TenantMatcherType: receive.VerifC21Matcher(o.Type)})
		mt := "MOther"
		switch o.Type {
		case "exact":
			mt = "MExact"
		case "glob":
			mt = "MGlob"
		case "":
			mt = "MUnset"
		}
		var ts []int64
		for _, t := range o.Tenants {
			ts = append(ts, sid(t))
		}
		ovTerms = append(ovTerms, common.Tuple(common.Z(int64(o.Size)), mt, common.ZList(ts)))
	}
	spn := in.Spn
	var h receive.Hashring
	var err error
	if in.Via == "multi" {
		spn = receive.SectionsPerNode
		h, err = receive.NewMultiHashring(receive.AlgorithmKetama, in.RF, []receive.HashringConfig{{Hashring: "verif", Endpoints: eps, ShuffleShardingConfig: cfg}}, nil)
	} else {
		h, err = receive.VerifC21New(eps, spn, in.RF, cfg)
	}
	if err != nil {
		return c, fmt.Errorf("constructor: %v", err)
	}
	defer h.Close()

	// oracle values: section hashes and the random positions, ranked together
	rk := &hashringutil.Ranker{}
	for _, e := range in.Endpoints {
		for i := 1; i <= spn; i++ {
			rk.Add(hashringutil.SectionHash(e.Addr, i))
		}
	}
	type zoneRand struct {
		id  int64
		pos []uint64
	}
	randOf := map[string][]zoneRand{}
	zoneNames := []string{""}
	if !in.Disabled {
		zoneNames = nil
		for _, e := range in.Endpoints {
			seen := false
			for _, z := range zoneNames {
				if z == e.AZ {
					seen = true
				}
			}
			if !seen {
				zoneNames = append(zoneNames, e.AZ)
			}
		}
	}
	for _, t := range in.Requests {
		if _, ok := randOf[t]; ok {
			continue
		}
		var zr []zoneRand
		for _, z := range zoneNames {
			r := rand.New(rand.NewSource(receive.ShuffleShardSeed(t, z)))
			var ps []uint64
			for k := 0; k < maxPositions; k++ {
				v := r.Uint64()
				ps = append(ps, v)
				rk.Add(v)
			}
			id := int64(-1)
			if !in.Disabled {
				id = azID[z]
			}
			zr = append(zr, zoneRand{id, ps})
		}
		randOf[t] = zr
	}
	var epTerms []string
	for _, e := range in.Endpoints {
		hs := make([]string, 0, spn)
		for i := 1; i <= spn; i++ {
			hs = append(hs, common.ZU(rk.Rank(hashringutil.SectionHash(e.Addr, i))))
		}
		epTerms = append(epTerms, common.Pair(common.Z(azID[e.AZ]), common.List(hs)))
	}

	var qTerms []string
	var obs []any
	sized := false
	firstSeen := map[string]string{}
	for qi, t := range in.Requests {
		n1, e1 := receive.VerifC21Shard(h, t)
		n2, e2 := receive.VerifC21Shard(h, t)
		n3, e3 := receive.VerifC21ShardUncached(h, t)
		s1, p1 := optNodes(n1, e1, pos)
		s2, _ := optNodes(n2, e2, pos)
		s3, _ := optNodes(n3, e3, pos)
		if e1 == nil {
			for k := 1; k < len(p1); k++ {
				if p1[k] == p1[k-1] && c.GoPred == "" {
					c.GoPred, c.Sig = "the tenant's shard contains the same node twice (fewer distinct nodes than configured)", "duplicate-node-in-shard"
				}
			}
		}
		if s1 != s2 || s1 != s3 {
			c.GoPred, c.Sig = "the tenant's sub-ring differs between first, repeated and uncached computation", "unstable-shard"
		}
		if prev, ok := firstSeen[t]; ok && prev != s1 && c.GoPred == "" {
			c.GoPred, c.Sig = "the tenant's sub-ring changed between requests", "unstable-shard"
		}
		firstSeen[t] = s1
		// GetN answers
		var ansTerms []string
		if e1 == nil {
			inShard := map[int]bool{}
			for _, p := range p1 {
				inShard[p] = true
			}
			for k := 0; k < in.NSeries; k++ {
				ts := &prompb.TimeSeries{Labels: []labelpb.ZLabel{{Name: "__name__", Value: fmt.Sprintf("m%d_%d", qi, k)}}}
				var a []int
				for n := uint64(0); n < in.RF; n++ {
					e, err := h.GetN(t, ts, n)
					if err != nil {
						return c, fmt.Errorf("GetN: %v", err)
					}
					a = append(a, pos[e.Address])
					if !inShard[pos[e.Address]] && c.GoPred == "" {
						c.GoPred, c.Sig = "a replica was placed outside the tenant's shard", "outside-shard"
					}
				}
				ansTerms = append(ansTerms, natList(a))
			}
			sized = true
		}
		// filepath.Match oracle
		var gm []string
		for _, o := range in.Overrides {
			var row []string
			for _, p := range o.Tenants {
				m, err := filepath.Match(p, t)
				if err != nil {
					row = append(row, common.None)
				} else {
					row = append(row, common.Some(common.Bool(m)))
				}
			}
			gm = append(gm, common.List(row))
		}
		var rt []string
		for _, zr := range randOf[t] {
			var ps []string
			for _, v := range zr.pos {
				ps = append(ps, common.ZU(rk.Rank(v)))
			}
			rt = append(rt, common.Pair(common.Z(zr.id), common.List(ps)))
		}
		qTerms = append(qTerms, common.App("Q", common.Z(sid(t)), common.List(gm), common.List(rt), s1, s2, s3, common.List(ansTerms)))
		obs = append(obs, map[string]any{"tenant": t, "shard": p1, "err": e1 != nil})
	}
	c.Coq = common.App("CShard", common.List(epTerms), common.Nat(int(in.RF)), common.Z(int64(in.ShardSize)), common.Bool(in.Disabled), common.List(ovTerms), common.List(qTerms))
	c.Obs = obs
	mode := "zone-aware"
	if in.Disabled {
		mode = "zone-unaware"
	}
	c.Class = fmt.Sprintf("%s/%s/zones=%d", in.Via, mode, len(azID))
	if hasDup {
		c.Class += "/dup-endpoint"
	}
	// non-trivial: a proper sub-ring (fewer nodes than the base ring) was computed for some tenant
	c.Nontrivial = sized && in.ShardSize < len(in.Endpoints)
	return c, nil
}

func gen(r *rand.Rand, tier string, n int) []any {
	var out []any
	tenants := []string{"team-a", "team-b", "prod-1", "prod-22", "x", "", "[bad", "te*m"}
	patterns := []string{"team-*", "prod-?", "*", "[bad", "team-a", "prod-[0-9]*", "t?am-b", "\\"}
	for i := 0; i < n; i++ {
		var in input
		in.Via = "shim"
		maxNodes := 12
		if r.Intn(100) == 0 { // the public constructor; endpoint lists are shuffled (unsorted)
			in.Via, maxNodes = "multi", 3
		}
		nn := int(common.Between(r, 2, int64(maxNodes)))
		nz := int(common.Between(r, 1, 3))
		if nz > nn {
			nz = nn
		}
		in.Disabled = r.Intn(3) == 0
		zn := []string{"az-a", "az-b", "az-c"}
		if r.Intn(4) == 0 {
			zn = []string{"", "b", "c"}
		}
		sizes := make([]int, nz)
		for k := 0; k < nn; k++ {
			if k < nz {
				sizes[k]++
			} else {
				sizes[r.Intn(nz)]++
			}
		}
		minSize := nn
		for _, s := range sizes {
			if s < minSize {
				minSize = s
			}
		}
		for z, s := range sizes {
			for k := 0; k < s; k++ {
				in.Endpoints = append(in.Endpoints, endpoint{Addr: fmt.Sprintf("n%d-%d-%d:10901", r.Intn(100), z, k), AZ: zn[z]})
			}
		}
		r.Shuffle(len(in.Endpoints), func(a, b int) { in.Endpoints[a], in.Endpoints[b] = in.Endpoints[b], in.Endpoints[a] })
		// rf: the base ring must be buildable on the unrepaired code too (every zone holds ceil(rf/zones));
		// zone-unaware shards may mix zones unevenly, so keep rf <= 3 there (a 3-replica walk cannot get stuck)
		maxRF := minSize * nz
		if maxRF > 4 {
			maxRF = 4
		}
		if in.Disabled && nz > 1 && maxRF > 3 {
			maxRF = 3
		}
		in.RF = uint64(common.Between(r, 1, int64(maxRF)))
		in.Spn = int(common.Pick(r, int64(1), 2, 3, 5, 8))
		in.ShardSize = int(common.Between(r, 1, int64(nn)))
		in.CacheSize = int(common.Pick(r, int64(0), 1, 1, 2, 3))
		for k := r.Intn(4); k > 0; k-- {
			var o override
			o.Type = common.Pick(r, "exact", "glob", "glob", "", "regex")
			o.Size = int(common.Between(r, 0, int64(nn+1)))
			for j := int(common.Between(r, 1, 3)); j > 0; j-- {
				if o.Type == "glob" {
					o.Tenants = append(o.Tenants, common.Pick(r, patterns...))
				} else {
					o.Tenants = append(o.Tenants, common.Pick(r, tenants...))
				}
			}
			in.Overrides = append(in.Overrides, o)
		}
		nreq := int(common.Between(r, 2, 6))
		for k := 0; k < nreq; k++ {
			in.Requests = append(in.Requests, common.Pick(r, tenants...))
		}
		in.NSeries = 3
		out = append(out, in)
	}
	return out
}

func main() {
	common.Main(common.Prop{ID: "C21", Facts: facts, Gen: gen, Run: run, QuickN: 300, ThoroughN: 3000})
}
