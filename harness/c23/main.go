// C23: failed replicated writes report retryable (503) and permanent (409)
// failures correctly, never 500 for conflict/unavailable-only failures, for
// every order of replica responses.
package main

import (
	"encoding/json"
	"fmt"
	"io"
	"math/rand"

	"github.com/thanos-io/thanos/zzverif/common"
	ru "github.com/thanos-io/thanos/zzverif/receiveutil"
)

const handlerGo = "pkg/receive/handler.go"

func facts(repo string, w io.Writer) error {
	s, err := common.ParseSrc(repo, handlerGo)
	if err != nil {
		return err
	}
	return Facts(s, w)
}

// Facts writes the source facts shared by C22 and C23 (both import Gen.C23 / Gen.C22 separately).
func Facts(s *common.SrcFile, w io.Writer) error {
	d, err := ru.TranslateMethodWithFields(s, "Handler.writeQuorum", "writeQuorum",
		map[string]string{"h.options.ReplicationFactor": "rf"}, []string{"rf"})
	if err != nil {
		return err
	}
	fmt.Fprintln(w, "(* pkg/receive/handler.go: Handler.writeQuorum; rf = h.options.ReplicationFactor *)")
	fmt.Fprintln(w, d)

	rhs, err := s.RHS("Handler.fanoutForward", "failureThreshold")
	if err != nil {
		return err
	}
	rhs = ru.SubstExpr(rhs, ru.ReplaceSelectors(s, map[string]string{"len(params.replicas)": "nreplicas"}))
	d, err = ru.ExprDefinition(s, "failureThreshold_expr", rhs, []string{"nreplicas", "successThreshold"})
	if err != nil {
		return err
	}
	fmt.Fprintln(w, "(* fanoutForward: failureThreshold := ...; nreplicas = len(params.replicas) *)")
	fmt.Fprintln(w, d)

	call, err := ru.FirstCall(s, "Handler.fanoutForward", "newReplicationErrors")
	if err != nil {
		return err
	}
	if len(call.Args) != 2 {
		return fmt.Errorf("newReplicationErrors called with %d arguments", len(call.Args))
	}
	d, err = ru.ExprDefinition(s, "replErr_threshold", call.Args[0], []string{"successThreshold", "failureThreshold"})
	if err != nil {
		return err
	}
	fmt.Fprintln(w, "(* fanoutForward: first argument of newReplicationErrors(...) = replicationErrors.threshold *)")
	fmt.Fprintln(w, d)

	d, err = ru.StatusSwitchArms(s, "Handler.handleV1HTTP", "errors.Cause(err)", "responseStatusCode", "v1_status_arms")
	if err != nil {
		return err
	}
	fmt.Fprintln(w, "(* handleV1HTTP: switch errors.Cause(err) { case X: responseStatusCode = ... } *)")
	fmt.Fprintln(w, d)

	for _, f := range [][2]string{{"replicationErrors.Cause", "replCause_order"}, {"writeErrors.Cause", "writeCause_order"}} {
		d, err = ru.ExpectedErrorsOrder(s, f[0], f[1])
		if err != nil {
			return err
		}
		fmt.Fprintf(w, "(* %s: expectedErrors literal, source order *)\n%s\n", f[0], d)
	}
	for _, f := range [][2]string{{"replicationErrors.Cause", "replCause_skeleton"}, {"writeErrors.Cause", "writeCause_skeleton"}, {"canReturnEarly", "canReturnEarly_skeleton"}} {
		evs, err := ru.Skeleton(s, f[0])
		if err != nil {
			return err
		}
		fmt.Fprintf(w, "(* %s: if/return skeleton in source order *)\n%s\n", f[0], common.EventsCoq(f[1], evs))
	}
	return nil
}

func quorum(rf, replica int) (nrep, q int) {
	if replica != 0 {
		return 1, 1
	}
	if rf == 2 {
		return rf, 1
	}
	return rf, rf/2 + 1
}

func run(raw json.RawMessage) (common.Case, error) {
	var in ru.FanoutInput
	if err := json.Unmarshal(raw, &in); err != nil {
		return common.Case{}, err
	}
	res, err := ru.RunFanout(&in)
	if err != nil {
		return common.Case{}, err
	}
	var c common.Case
	var place []string
	for _, p := range in.Place {
		var row []string
		for _, n := range p {
			row = append(row, common.Nat(n))
		}
		place = append(place, common.List(row))
	}
	var writes []string
	onlyCU, anyFail := true, false
	for _, w := range in.Writes {
		writes = append(writes, common.Tuple(common.Nat(w.Node), common.Nat(w.Rep), ru.KindCoq(w.Kind)))
		if w.Kind != "ok" {
			anyFail = true
		}
		if w.Kind == "other" {
			onlyCU = false
		}
	}
	c.Coq = common.App("CFan", common.Z(int64(in.RF)), common.Z(int64(in.Replica)), common.List(place), common.List(writes), common.Z(int64(res.Status)))
	c.Obs = res
	c.Class = fmt.Sprintf("rf%d/series%d", in.RF, len(in.Place))
	if in.Replica != 0 {
		c.Class = "replicated/" + c.Class
	}
	c.Nontrivial = anyFail

	// Go-side predicate (search aid).
	if in.Replica <= in.RF {
		nrep, q := quorum(in.RF, in.Replica)
		ft := nrep - q + 1
		permanent := false
		for s, p := range in.Place {
			conf := 0
			for _, w := range in.Writes {
				if (w.Kind == "conflict" || w.Kind == "conflict_local") && p[w.Rep] == w.Node {
					conf++
				}
			}
			_ = s
			if conf >= ft {
				permanent = true
			}
		}
		switch {
		case res.Status == 500 && onlyCU:
			c.GoPred = "HTTP 500 for a failure made only of conflicts / unavailable replicas"
			c.Sig = "500-for-conflict-unavailable"
		case res.Status == 409 && !permanent:
			c.GoPred = "HTTP 409 although no series has enough conflicts to make quorum impossible"
			c.Sig = "409-but-retryable"
		case res.Status != 200 && !permanent && res.Status != 503 && onlyCU:
			c.GoPred = fmt.Sprintf("HTTP %d for a failure that a retry can fix (want 503)", res.Status)
			c.Sig = "retryable-not-503"
		}
	}
	return c, nil
}

// writesFor lists the (node, replica) pairs of a placement in a canonical order.
func writesFor(in *ru.FanoutInput) []ru.Write {
	var ws []ru.Write
	seen := map[[2]int]bool{}
	for _, p := range in.Place {
		for r := 0; r < in.RF; r++ {
			if in.Replica != 0 && r != in.Replica-1 {
				continue
			}
			k := [2]int{p[r], r}
			if !seen[k] {
				seen[k] = true
				ws = append(ws, ru.Write{Node: p[r], Rep: r})
			}
		}
	}
	return ws
}

func gen(r *rand.Rand, tier string, n int) []any {
	var out []any
	// 1. every ordered outcome sequence over {ok, conflict, unavail} for one
	//    series: all multisets and all orders for rf <= maxAll.
	maxAll := 5
	if tier == "thorough" {
		maxAll = 6
	}
	three := []string{"ok", "conflict", "unavail"}
	for rf := 1; rf <= maxAll; rf++ {
		total := 1
		for i := 0; i < rf; i++ {
			total *= 3
		}
		for code := 0; code < total; code++ {
			in := ru.FanoutInput{RF: rf}
			row := make([]int, rf)
			for i := range row {
				row[i] = i
			}
			in.Place = [][]int{row}
			perm := r.Perm(rf) // release order of the replicas
			c := code
			for i := 0; i < rf; i++ {
				in.Writes = append(in.Writes, ru.Write{Node: perm[i], Rep: perm[i], Kind: three[c%3]})
				c /= 3
			}
			out = append(out, in)
		}
	}
	// 2. random multi-series requests over several nodes, all outcome kinds.
	maxRF, maxSeries := 6, 3
	if tier == "thorough" {
		maxRF, maxSeries = 7, 5
	}
	for i := 0; i < n; i++ {
		rf := 1 + r.Intn(maxRF)
		in := ru.FanoutInput{RF: rf}
		nodes := rf + r.Intn(3)
		ns := 1 + r.Intn(maxSeries)
		for s := 0; s < ns; s++ {
			row := r.Perm(nodes)[:rf]
			if r.Intn(12) == 0 { // placements need not be distinct for the handler
				for j := range row {
					row[j] = r.Intn(nodes)
				}
			}
			in.Place = append(in.Place, row)
		}
		switch k := r.Intn(20); {
		case k == 0:
			in.Replica = rf + 1 + r.Intn(2)
		case k <= 2:
			in.Replica = 1 + r.Intn(rf)
		}
		ws := writesFor(&in)
		if in.Replica > rf {
			ws = nil
		}
		r.Shuffle(len(ws), func(a, b int) { ws[a], ws[b] = ws[b], ws[a] })
		var palette []string
		switch r.Intn(6) {
		case 0:
			palette = []string{"ok", "conflict"}
		case 1:
			palette = []string{"ok", "unavail", "conflict", "conflict"}
		case 2:
			palette = []string{"conflict", "unavail", "unavail_sent", "notready"}
		case 3:
			palette = []string{"ok", "ok", "conflict", "conflict_local", "unavail", "unavail_sent", "notready", "other"}
		case 4:
			palette = []string{"ok", "ok", "ok", "conflict", "unavail"}
		default:
			palette = []string{"ok", "conflict", "unavail"}
		}
		for j := range ws {
			ws[j].Kind = palette[r.Intn(len(palette))]
		}
		in.Writes = ws
		out = append(out, in)
	}
	return out
}

func main() {
	common.Main(common.Prop{ID: "C23", Facts: facts, Gen: gen, Run: run, QuickN: 400, ThoroughN: 5000,
		Preamble: "Open Scope Z_scope.\n"})
}
