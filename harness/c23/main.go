// C23: failed replicated writes report retryable (503) and permanent (409)
// failures correctly, never 500 for conflict/unavailable-only failures, for
// every order of replica responses.
package main

import (
	"encoding/json"
	"fmt"
	"io"
	"math/rand"

	"github.com/thanos-io/thanos/zzverif/common"
	ru "github.com/thanos-io/thanos/zzverif/receiveutil"
)

const handlerGo = "pkg/receive/handler.go"

func facts(repo string, w io.Writer) error {
	s, err := common.ParseSrc(repo, handlerGo)
	if err != nil {
		return err
	}
	return Facts(s, w)
}

// Facts writes the source facts shared by C22 and C23 (both import Gen.C23 / Gen.C22 separately).
func Facts(s *common.SrcFile, w io.Writer) error {
	d, err := ru.TranslateMethodWithFields(s, "Handler.writeQuorum", "writeQuorum",
		map[string]string{"h.options.ReplicationFactor": "rf"}, []string{"rf"})
	if err != nil {
		return err
	}
	fmt.Fprintln(w, "(* pkg/receive/handler.go: Handler.writeQuorum; rf = h.options.ReplicationFactor *)")
	fmt.Fprintln(w, d)

	rhs, err := s.RHS("Handler.fanoutForward", "failureThreshold")
	if err != nil {
		return err
	}
	rhs = ru.SubstExpr(rhs, ru.ReplaceSelectors(s, map[string]string{"len(params.replicas)": "nreplicas"}))
	d, err = ru.ExprDefinition(s, "failureThreshold_expr", rhs, []string{"nreplicas", "successThreshold"})
	if err != nil {
		return err
	}
	fmt.Fprintln(w, "(* fanoutForward: failureThreshold := ...; nreplicas = len(params.replicas) *)")
	fmt.Fprintln(w, d)

	call, err := ru.FirstCall(s, "Handler.fanoutForward", "newReplicationErrors")
	if err != nil {
		return err
	}
	if len(call.Args) != 2 {
		return fmt.Errorf("newReplicationErrors called with %d arguments", len(call.Args))
	}
	d, err = ru.ExprDefinition(s, "replErr_threshold", call.Args[0], []string{"successThreshold", "failureThreshold"})
	if err != nil {
		return err
	}
	fmt.Fprintln(w, "(* fanoutForward: first argument of newReplicationErrors(...) = replicationErrors.threshold *)")
	fmt.Fprintln(w, d)

	d, err = ru.StatusSwitchArms(s, "Handler.handleV1HTTP", "errors.Cause(err)", "responseStatusCode", "v1_status_arms")
	if err != nil {
		return err
	}
	fmt.Fprintln(w, "(* handleV1HTTP: switch errors.Cause(err) { case X: responseStatusCode = ... } *)")
	fmt.Fprintln(w, d)

	for _, f := range [][2]string{{"replicationErrors.Cause", "replCause_order"}, {"writeErrors.Cause", "writeCause_order"}} {
		d, err = ru.ExpectedErrorsOrder(s, f[0], f[1])
		if err != nil {
			return err
		}
		fmt.Fprintf(w, "(* %s: expectedErrors literal, source order *)\n%s\n", f[0], d)
	}
	for _, f := range [][2]string{{"replicationErrors.Cause", "replCause_skeleton"}, {"writeErrors.Cause", "writeCause_skeleton"}, {"canReturnEarly", "canReturnEarly_skeleton"}} {
		evs, err := ru.Skeleton(s, f[0])
		if err != nil {
			return err
		}
		fmt.Fprintf(w, "(* %s: if/return skeleton in source order *)\n%s\n", f[0], common.EventsCoq(f[1], evs))
	}
	return nil
}

func quorum(rf, replica int) (nrep, q int) {
	if replica != 0 {
		return 1, 1
	}
	if rf == 2 {
		return rf, 1
	}
	return rf, rf/2 + 1
}

func run(raw json.RawMessage) (common.Case, error) {
	var in ru.FanoutInput
	if err := json.Unmarshal(raw, &in); err != nil {
		return common.Case{}, err
	}
	res, err := ru.RunFanout(&in)
	if err != nil {
		return common.Case{}, err
	}
	var c common.Case
	var place []string
	for _, p := range in.Place {
		var row []string
		for _, n := range p {
			row = append(row, common.Nat(n))
		}
		place = append(place, common.List(row))
	}
	var writes []string
	onlyCU, anyFail := true, false
	released := make([]ru.Write, 0, len(res.Order))
	for _, i := range res.Order {
		released = append(released, in.Writes[i])
	}
	for _, w := range released {
		writes = append(writes, common.Tuple(common.Nat(w.Node), common.Nat(w.Rep), ru.KindCoq(w.Kind)))
		if w.Kind != "ok" {
			anyFail = true
		}
		if w.Kind == "other" {
			onlyCU = false
		}
	}
	c.Coq = common.App("CFan", common.Z(int64(in.RF)), common.Z(int64(in.Replica)), common.List(place), common.List(writes), common.Z(int64(res.Status)))
	c.Obs = res
	c.Class = fmt.Sprintf("rf%d/series%d", in.RF, len(in.Place))
	if in.Replica != 0 {
		c.Class = "replicated/" + c.Class
	}
	c.Nontrivial = anyFail

	// Go-side predicate (search aid): the status as a function of WHAT the
	// replicas answered, not of the order (Model.C23.spec_status): 200 iff every
	// series reached quorum; else 409 iff every series that missed quorum got
	// >= failureThreshold conflicts; else 503.
	if in.Replica <= in.RF && len(in.Place) > 0 {
		nrep, q := quorum(in.RF, in.Replica)
		ft := nrep - q + 1
		allQuorum, allDetermined, permanent := true, true, false
		for _, p := range in.Place {
			conf, ok := 0, 0
			for _, w := range in.Writes {
				if p[w.Rep] != w.Node {
					continue
				}
				switch w.Kind {
				case "conflict", "conflict_local":
					conf++
				case "ok":
					ok++
				}
			}
			if conf >= ft {
				permanent = true
			}
			if ok < q {
				allQuorum = false
				if conf < ft {
					allDetermined = false
				}
			}
		}
		want := 503
		if allQuorum {
			want = 200
		} else if allDetermined {
			want = 409
		}
		switch {
		case res.Status == 500 && onlyCU:
			c.GoPred = "HTTP 500 for a failure made only of conflicts / unavailable replicas"
			c.Sig = "500-for-conflict-unavailable"
		case res.Status == 409 && !permanent:
			c.GoPred = "HTTP 409 although no series has enough conflicts to make quorum impossible"
			c.Sig = "409-but-retryable"
		case onlyCU && res.Status != want && want == 409:
			c.GoPred = fmt.Sprintf("HTTP %d although every series that missed quorum is blocked by conflicts alone (want 409, in every arrival order)", res.Status)
			c.Sig = "permanent-not-409"
		case onlyCU && res.Status != want:
			c.GoPred = fmt.Sprintf("HTTP %d, want %d (200 iff quorum everywhere, 409 iff all failed series are blocked by conflicts, else 503)", res.Status, want)
			c.Sig = fmt.Sprintf("status-%d-want-%d", res.Status, want)
		}
	}
	if res.Hung {
		c.GoPred = "the request was never answered although every forwarded write had responded (response channel never closed?)"
		c.Sig = "no-answer"
	}
	return c, nil
}

// writesFor lists the (node, replica) pairs of a placement in a canonical order.
func writesFor(in *ru.FanoutInput) []ru.Write {
	var ws []ru.Write
	seen := map[[2]int]bool{}
	for _, p := range in.Place {
		for r := 0; r < in.RF; r++ {
			if in.Replica != 0 && r != in.Replica-1 {
				continue
			}
			k := [2]int{p[r], r}
			if !seen[k] {
				seen[k] = true
				ws = append(ws, ru.Write{Node: p[r], Rep: r})
			}
		}
	}
	return ws
}

func gen(r *rand.Rand, tier string, n int) []any {
	var out []any
	// 1. every ordered outcome sequence over {ok, conflict, unavail} for one
	//    series: all multisets and all orders for rf <= maxAll.
	maxAll := 5
	if tier == "thorough" {
		maxAll = 6
	}
	three := []string{"ok", "conflict", "unavail"}
	for rf := 1; rf <= maxAll; rf++ {
		total := 1
		for i := 0; i < rf; i++ {
			total *= 3
		}
		for code := 0; code < total; code++ {
			in := ru.FanoutInput{RF: rf}
			row := make([]int, rf)
			for i := range row {
				row[i] = i
			}
			in.Place = [][]int{row}
			perm := r.Perm(rf) // release order of the replicas
			c := code
			for i := 0; i < rf; i++ {
				in.Writes = append(in.Writes, ru.Write{Node: perm[i], Rep: perm[i], Kind: three[c%3]})
				c /= 3
			}
			out = append(out, in)
		}
	}
	// 1b. ties at even replication factors: exactly failureThreshold conflicts
	//     + failureThreshold unavailable, in EVERY arrival order, with each
	//     flavour of "unavailable"; plus the same tie as one series of a
	//     two-series request whose other series succeeds everywhere.
	for _, rf := range []int{4, 6} {
		ft := rf / 2
		flavours := []string{"unavail", "unavail_sent", "notready"}
		if tier != "thorough" && rf == 6 {
			flavours = []string{"unavail"}
		}
		for _, fl := range flavours {
			for mask := 0; mask < 1<<rf; mask++ { // positions of the conflicts in the arrival order
				bits := 0
				for i := 0; i < rf; i++ {
					bits += (mask >> i) & 1
				}
				if bits != ft {
					continue
				}
				in := ru.FanoutInput{RF: rf}
				row := make([]int, rf)
				for i := range row {
					row[i] = i
				}
				in.Place = [][]int{row}
				perm := r.Perm(rf)
				for i := 0; i < rf; i++ {
					k := fl
					if (mask>>i)&1 == 1 {
						k = common.Pick(r, "conflict", "conflict", "conflict_local")
					}
					in.Writes = append(in.Writes, ru.Write{Node: perm[i], Rep: perm[i], Kind: k})
				}
				out = append(out, in)
				if rf == 4 || tier == "thorough" {
					in2 := ru.FanoutInput{RF: rf, Place: [][]int{row, make([]int, rf)}}
					for i := range row {
						in2.Place[1][i] = rf + i // second series on other nodes, all ok
					}
					in2.Writes = append([]ru.Write(nil), in.Writes...)
					for i := 0; i < rf; i++ {
						in2.Writes = append(in2.Writes, ru.Write{Node: rf + i, Rep: i, Kind: "ok"})
					}
					r.Shuffle(len(in2.Writes), func(a, b int) { in2.Writes[a], in2.Writes[b] = in2.Writes[b], in2.Writes[a] })
					out = append(out, in2)
				}
			}
		}
	}
	// 2. random multi-series requests over several nodes, all outcome kinds.
	maxRF, maxSeries := 6, 3
	if tier == "thorough" {
		maxRF, maxSeries = 7, 5
	}
	for i := 0; i < n; i++ {
		rf := 1 + r.Intn(maxRF)
		in := ru.FanoutInput{RF: rf}
		nodes := rf + r.Intn(3)
		ns := 1 + r.Intn(maxSeries)
		for s := 0; s < ns; s++ {
			row := r.Perm(nodes)[:rf]
			if r.Intn(12) == 0 { // placements need not be distinct for the handler
				for j := range row {
					row[j] = r.Intn(nodes)
				}
			}
			in.Place = append(in.Place, row)
		}
		switch k := r.Intn(20); {
		case k == 0:
			in.Replica = rf + 1 + r.Intn(2)
		case k <= 2:
			in.Replica = 1 + r.Intn(rf)
		}
		ws := writesFor(&in)
		if in.Replica > rf {
			ws = nil
		}
		r.Shuffle(len(ws), func(a, b int) { ws[a], ws[b] = ws[b], ws[a] })
		var palette []string
		switch r.Intn(6) {
		case 0:
			palette = []string{"ok", "conflict"}
		case 1:
			palette = []string{"ok", "unavail", "conflict", "conflict"}
		case 2:
			palette = []string{"conflict", "unavail", "unavail_sent", "notready"}
		case 3:
			palette = []string{"ok", "ok", "conflict", "conflict_local", "unavail", "unavail_sent", "notready", "other"}
		case 4:
			palette = []string{"ok", "ok", "ok", "conflict", "unavail"}
		default:
			palette = []string{"ok", "conflict", "unavail"}
		}
		for j := range ws {
			ws[j].Kind = palette[r.Intn(len(palette))]
		}
		if r.Intn(4) == 0 && in.Replica == 0 && rf >= 2 {
			// force series 0 to exactly failureThreshold conflicts, the rest unavailable
			_, q := quorum(rf, 0)
			ft := rf - q + 1
			k := 0
			for j := range ws {
				if in.Place[0][ws[j].Rep] == ws[j].Node {
					if k < ft {
						ws[j].Kind = "conflict"
					} else {
						ws[j].Kind = common.Pick(r, "unavail", "unavail_sent", "notready", "unavail")
					}
					k++
				}
			}
			r.Shuffle(len(ws), func(a, b int) { ws[a], ws[b] = ws[b], ws[a] })
		}
		in.Writes = ws
		out = append(out, in)
	}
	return out
}

func main() {
	common.Main(common.Prop{ID: "C23", Facts: facts, Gen: gen, Run: run, QuickN: 400, ThoroughN: 5000,
		Preamble: "Open Scope Z_scope.\n"})
}
