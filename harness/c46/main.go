// C46: the alert queue is a bounded FIFO that never loses a wake-up.
package main

import (
	"encoding/json"
	"fmt"
	"go/ast"
	"io"
	"math/rand"
	"sort"
	"strconv"
	"strings"
	"sync"
	"time"

	"github.com/prometheus/common/model"
	"github.com/prometheus/prometheus/model/labels"
	"github.com/prometheus/prometheus/model/relabel"
	"github.com/prometheus/prometheus/notifier"

	"github.com/thanos-io/thanos/pkg/alert"
	"github.com/thanos-io/thanos/zzverif/common"
)

type opIn struct {
	Push []int64 `json:"push,omitempty"` // alert ids; negative ids carry drop="1" and are removed by the relabel config
	Pop  bool    `json:"pop,omitempty"`
}

type input struct {
	Kind  string `json:"kind"` // seq | conc | wake | mid
	Cap   int    `json:"cap"`
	Batch int    `json:"batch"`
	Ops   []opIn `json:"ops,omitempty"`
	// conc: Pushers goroutines push PerPusher batches of BatchLen alerts each, Poppers goroutines pop
	Pushers   int `json:"pushers,omitempty"`
	PerPusher int `json:"per_pusher,omitempty"`
	BatchLen  int `json:"batch_len,omitempty"`
	Poppers   int `json:"poppers,omitempty"`
	// mid: Pre pushes run first; then, with the queue mutex held by the harness, CritPos of the
	// Mids pushes are started (they block on the mutex), then Pop (takes the token, blocks on the
	// mutex), then the remaining Mids pushes; the mutex is released.
	Pre     [][]int64 `json:"pre,omitempty"`
	Mids    [][]int64 `json:"mids,omitempty"`
	CritPos int       `json:"crit_pos,omitempty"`
	// Term: close the popper's termination channel while it waits for the mutex (token already taken)
	Term bool `json:"term,omitempty"`
}

// ---- tie T: statement order in Pop and Push ----

func exprText(s *common.SrcFile, e ast.Expr) string { return s.ExprString(e) }

func coqStrings(name string, xs []string) string {
	var parts []string
	for _, x := range xs {
		parts = append(parts, common.CoqString(x))
	}
	return fmt.Sprintf("Definition %s : list string :=\n  [%s]%%string.\n", name, strings.Join(parts, ";\n   "))
}

func facts(repo string, w io.Writer) error {
	s, err := common.ParseSrc(repo, "pkg/alert/alert.go")
	if err != nil {
		return err
	}
	for _, fn := range []string{"Queue.Pop", "Queue.Push"} {
		xs, err := stmtSummaryNoStmtText(s, fn)
		if err != nil {
			return err
		}
		fmt.Fprintf(w, "(* pkg/alert/alert.go: top-level statements of %s *)\n", fn)
		fmt.Fprintln(w, coqStrings(strings.ReplaceAll(fn, "Queue.", "")+"_stmts", xs))
	}
	return nil
}

// same as stmtSummary but renders select communications without needing a
// statement printer in common: recv:<chan> / send:<chan> / default
func stmtSummaryNoStmtText(s *common.SrcFile, fn string) ([]string, error) {
	fd, err := s.FindFunc(fn)
	if err != nil {
		return nil, err
	}
	var out []string
	for _, st := range fd.Body.List {
		switch x := st.(type) {
		case *ast.SelectStmt:
			var comms []string
			for _, c := range x.Body.List {
				cc := c.(*ast.CommClause)
				switch cm := cc.Comm.(type) {
				case nil:
					comms = append(comms, "default")
				case *ast.SendStmt:
					comms = append(comms, "send:"+exprText(s, cm.Chan))
				case *ast.ExprStmt:
					if u, ok := cm.X.(*ast.UnaryExpr); ok {
						comms = append(comms, "recv:"+exprText(s, u.X))
					} else {
						return nil, fmt.Errorf("select comm not understood in %s", fn)
					}
				case *ast.AssignStmt:
					if u, ok := cm.Rhs[0].(*ast.UnaryExpr); ok {
						comms = append(comms, "recv:"+exprText(s, u.X))
					} else {
						return nil, fmt.Errorf("select comm not understood in %s", fn)
					}
				default:
					return nil, fmt.Errorf("select comm %T not understood in %s", cm, fn)
				}
			}
			out = append(out, "select["+strings.Join(comms, "|")+"]")
		case *ast.ExprStmt:
			if _, ok := x.X.(*ast.CallExpr); ok {
				out = append(out, "call:"+exprText(s, x.X))
			} else {
				out = append(out, "expr")
			}
		case *ast.DeferStmt:
			out = append(out, "defer:"+exprText(s, x.Call))
		case *ast.IfStmt:
			txt := "if:" + exprText(s, x.Cond)
			// a select directly inside the if body (Pop's re-signal)
			for _, b := range x.Body.List {
				if sel, ok := b.(*ast.SelectStmt); ok {
					var comms []string
					for _, c := range sel.Body.List {
						cc := c.(*ast.CommClause)
						switch cm := cc.Comm.(type) {
						case nil:
							comms = append(comms, "default")
						case *ast.SendStmt:
							comms = append(comms, "send:"+exprText(s, cm.Chan))
						default:
							comms = append(comms, "other")
						}
					}
					txt += "{select[" + strings.Join(comms, "|") + "]}"
				}
			}
			out = append(out, txt)
		case *ast.ReturnStmt:
			out = append(out, "return")
		case *ast.AssignStmt:
			out = append(out, "assign:"+exprText(s, x.Lhs[0]))
		case *ast.ForStmt, *ast.RangeStmt:
			out = append(out, "for")
		case *ast.DeclStmt:
			out = append(out, "decl")
		default:
			return nil, fmt.Errorf("statement %T in %s not summarised", st, fn)
		}
	}
	return out, nil
}

// ---- running the real queue ----

func mkAlert(id int64) *notifier.Alert {
	ls := []labels.Label{{Name: "id", Value: strconv.FormatInt(id, 10)}}
	if id < 0 {
		ls = append(ls, labels.Label{Name: "drop", Value: "1"})
	}
	return &notifier.Alert{Labels: labels.New(ls...)}
}

func idOf(a *notifier.Alert) int64 {
	v, _ := strconv.ParseInt(a.Labels.Get("id"), 10, 64)
	return v
}

func ids(as []*notifier.Alert) []int64 {
	out := make([]int64, 0, len(as))
	for _, a := range as {
		out = append(out, idOf(a))
	}
	return out
}

func newQueue(capacity, batch int) *alert.Queue {
	drop := &relabel.Config{SourceLabels: model.LabelNames{"drop"}, Separator: ";", Regex: relabel.MustNewRegexp("1"), Action: relabel.Drop}
	return alert.NewQueue(nil, nil, capacity, batch, labels.FromStrings("cluster", "c"), []string{"nosuch"}, []*relabel.Config{drop})
}

type seqObs struct {
	Op      string  `json:"op"`
	Blocked bool    `json:"blocked,omitempty"`
	Out     []int64 `json:"out,omitempty"`
	Queue   []int64 `json:"queue"`
	Token   bool    `json:"token"`
}

func run(raw json.RawMessage) (common.Case, error) {
	var in input
	if err := json.Unmarshal(raw, &in); err != nil {
		return common.Case{}, err
	}
	c := common.Case{Class: in.Kind}
	if in.Cap < 0 || in.Batch < 1 {
		return c, fmt.Errorf("cap >= 0 and batch >= 1 required")
	}
	switch in.Kind {
	case "seq":
		q := newQueue(in.Cap, in.Batch)
		var obs []seqObs
		var coqOps []string
		npush, npop := 0, 0
		for _, op := range in.Ops {
			var o seqObs
			if op.Pop {
				o.Op = "pop"
				if !alert.VerifC46Token(q) {
					o.Blocked = true // Pop would block: not executed
				} else {
					done := make(chan []*notifier.Alert, 1)
					go func() { done <- q.Pop(nil) }()
					select {
					case as := <-done:
						o.Out = ids(as)
					case <-time.After(5 * time.Second):
						c.GoPred, c.Sig = "Pop did not return although the token was set", "hang"
						c.Coq = "CSkip"
						return c, nil
					}
					npop++
				}
			} else {
				o.Op = "push"
				var as []*notifier.Alert
				for _, id := range op.Push {
					as = append(as, mkAlert(id))
				}
				q.Push(as)
				npush++
			}
			o.Queue = ids(alert.VerifC46Queue(q))
			o.Token = alert.VerifC46Token(q)
			if q.Len() != len(o.Queue) {
				return c, fmt.Errorf("Len() disagrees with the queue")
			}
			obs = append(obs, o)
			state := common.Tuple(common.ZList(o.Queue), common.Bool(o.Token))
			if op.Pop {
				if o.Blocked {
					coqOps = append(coqOps, common.App("OPopBlocked", state))
				} else {
					coqOps = append(coqOps, common.App("OPop", common.ZList(o.Out), state))
				}
			} else {
				coqOps = append(coqOps, common.App("OPush", common.ZList(op.Push), state))
			}
		}
		c.Coq = common.App("CSeq", common.Z(int64(in.Cap)), common.Z(int64(in.Batch)), common.List(coqOps))
		c.Obs = obs
		c.Nontrivial = npush >= 2 && npop >= 1
		// Go-side predicate
		for _, o := range obs {
			if len(o.Queue) > in.Cap {
				c.GoPred, c.Sig = "queue longer than its capacity", "over-capacity"
			}
			if len(o.Out) > in.Batch {
				c.GoPred, c.Sig = "batch larger than the batch size", "batch-too-large"
			}
			if len(o.Queue) > 0 && !o.Token {
				c.GoPred, c.Sig = "alerts queued, no popper running, wake-up token not set", "lost-wakeup"
			}
		}
		return c, nil
	case "wake":
		// a popper blocked on an empty queue must be woken by a push
		q := newQueue(in.Cap, in.Batch)
		done := make(chan []*notifier.Alert, 1)
		go func() { done <- q.Pop(nil) }()
		time.Sleep(2 * time.Millisecond)
		var push []int64
		if len(in.Ops) > 0 {
			push = in.Ops[0].Push
		}
		var as []*notifier.Alert
		for _, id := range push {
			as = append(as, mkAlert(id))
		}
		q.Push(as)
		var out []int64
		woken := false
		select {
		case r := <-done:
			out, woken = ids(r), true
		case <-time.After(300 * time.Millisecond):
		}
		rest := ids(alert.VerifC46Queue(q))
		tok := alert.VerifC46Token(q)
		c.Coq = common.App("CWake", common.Z(int64(in.Cap)), common.Z(int64(in.Batch)), common.ZList(push), common.Bool(woken), common.ZList(out), common.Tuple(common.ZList(rest), common.Bool(tok)))
		c.Obs = map[string]any{"woken": woken, "out": out, "queue": rest, "token": tok}
		c.Nontrivial = len(push) > 0
		kept := 0
		for _, id := range push {
			if id >= 0 {
				kept++
			}
		}
		if kept > 0 && in.Cap > 0 && !woken {
			c.GoPred, c.Sig = "a popper waiting on the empty queue was not woken by a push", "lost-wakeup"
		}
		if !woken { // unblock the goroutine
			term := make(chan struct{})
			close(term)
			_ = term
		}
		return c, nil
	case "mid":
		q := newQueue(in.Cap, in.Batch)
		mk := func(idsIn []int64) []*notifier.Alert {
			var as []*notifier.Alert
			for _, id := range idsIn {
				as = append(as, mkAlert(id))
			}
			return as
		}
		for _, p := range in.Pre {
			q.Push(mk(p))
		}
		if !alert.VerifC46Token(q) {
			c.Coq, c.Class = "CSkip", "mid/no-token"
			return c, nil
		}
		waitFor := func(cond func() bool) bool {
			dl := time.Now().Add(3 * time.Second)
			for !cond() {
				if time.Now().After(dl) {
					return false
				}
				time.Sleep(50 * time.Microsecond)
			}
			return true
		}
		alert.VerifC46Lock(q)
		waiters := 0
		var wg sync.WaitGroup
		startPush := func(p []int64) bool {
			if len(p) == 0 { // returns before touching the mutex
				q.Push(nil)
				return true
			}
			as := mk(p)
			wg.Add(1)
			go func() { defer wg.Done(); q.Push(as) }()
			waiters++
			return waitFor(func() bool { return alert.VerifC46Waiters(q) >= waiters })
		}
		pos := in.CritPos
		if pos > len(in.Mids) {
			pos = len(in.Mids)
		}
		ok := true
		for _, p := range in.Mids[:pos] {
			ok = ok && startPush(p)
		}
		popDone := make(chan []*notifier.Alert, 1)
		termc := make(chan struct{})
		go func() { popDone <- q.Pop(termc) }()
		waiters++
		ok = ok && waitFor(func() bool { return !alert.VerifC46Token(q) && alert.VerifC46Waiters(q) >= waiters })
		if in.Term && ok {
			close(termc) // the popper holds the token and is blocked on the mutex
		}
		for _, p := range in.Mids[pos:] {
			ok = ok && startPush(p)
		}
		time.Sleep(200 * time.Microsecond)
		alert.VerifC46Unlock(q)
		if !ok {
			return c, fmt.Errorf("could not line the calls up behind the queue mutex")
		}
		var out []int64
		nilret := false
		select {
		case r := <-popDone:
			out, nilret = ids(r), r == nil
		case <-time.After(5 * time.Second):
			c.GoPred, c.Sig, c.Coq = "Pop holding the token did not finish after the mutex was released", "hang", "CSkip"
			return c, nil
		}
		wg.Wait()
		rest := ids(alert.VerifC46Queue(q))
		tok := alert.VerifC46Token(q)
		lists := func(xs [][]int64) string {
			var o []string
			for _, x := range xs {
				o = append(o, common.ZList(x))
			}
			return common.List(o)
		}
		c.Coq = common.App("CMid", common.Z(int64(in.Cap)), common.Z(int64(in.Batch)), lists(in.Pre), lists(in.Mids), common.Bool(in.Term), common.ZList(out), common.Bool(nilret), common.Tuple(common.ZList(rest), common.Bool(tok)))
		c.Obs = map[string]any{"out": out, "returned_nil": nilret, "queue": rest, "token": tok}
		c.Class = fmt.Sprintf("mid/pushes=%d/crit_pos=%d", len(in.Mids), pos)
		if in.Term {
			c.Class = "mid/term-while-waiting-for-mutex"
		}
		c.Nontrivial = pos >= 1
		if len(rest) > in.Cap {
			c.GoPred, c.Sig = "queue longer than its capacity", "over-capacity"
		}
		if len(out) > in.Batch {
			c.GoPred, c.Sig = "batch larger than the batch size", "batch-too-large"
		}
		if len(rest) > 0 && !tok {
			c.GoPred, c.Sig = "alerts queued, no popper running, wake-up token not set", "lost-wakeup"
		}
		if nilret && c.GoPred == "" {
			c.GoPred, c.Sig = "Pop returned nil although it had already received the wake-up token", "token-swallowed"
		}
		return c, nil
	case "conc":
		q := newQueue(in.Cap, in.Batch)
		total := in.Pushers * in.PerPusher * in.BatchLen
		if in.Cap < total {
			return c, fmt.Errorf("conc runs need cap >= number of alerts")
		}
		var wg sync.WaitGroup
		for p := 0; p < in.Pushers; p++ {
			wg.Add(1)
			go func(p int) {
				defer wg.Done()
				next := int64(p) * 1000000
				for b := 0; b < in.PerPusher; b++ {
					var as []*notifier.Alert
					for k := 0; k < in.BatchLen; k++ {
						as = append(as, mkAlert(next))
						next++
					}
					q.Push(as)
				}
			}(p)
		}
		var mu sync.Mutex
		got := 0
		batches := make([][][]int64, in.Poppers)
		term := make(chan struct{})
		allDone := make(chan struct{})
		var once sync.Once
		var pwg sync.WaitGroup
		for i := 0; i < in.Poppers; i++ {
			pwg.Add(1)
			go func(i int) {
				defer pwg.Done()
				for {
					as := q.Pop(term)
					if as == nil {
						select {
						case <-term:
							return
						default:
						}
					}
					mu.Lock()
					batches[i] = append(batches[i], ids(as))
					got += len(as)
					fin := got >= total
					mu.Unlock()
					if fin {
						once.Do(func() { close(allDone) })
					}
				}
			}(i)
		}
		wg.Wait()
		completed := true
		select {
		case <-allDone:
		case <-time.After(3 * time.Second):
			completed = false
		}
		close(term)
		pwg.Wait()
		var coqPoppers []string
		for _, bs := range batches {
			var xs []string
			for _, b := range bs {
				xs = append(xs, common.ZList(b))
			}
			coqPoppers = append(coqPoppers, common.List(xs))
		}
		c.Coq = common.App("CConc", common.Z(int64(in.Cap)), common.Z(int64(in.Batch)), common.Z(int64(in.Pushers)), common.Z(int64(in.PerPusher*in.BatchLen)),
			common.List(coqPoppers), common.Bool(completed))
		c.Obs = map[string]any{"completed": completed, "popped": got, "pushed": total, "batches_per_popper": func() []int {
			var n []int
			for _, b := range batches {
				n = append(n, len(b))
			}
			return n
		}()}
		c.Nontrivial = in.Pushers >= 2 && total >= 4
		if !completed {
			c.GoPred, c.Sig = fmt.Sprintf("poppers received %d of %d alerts and then waited forever while alerts were queued (%d left)", got, total, q.Len()), "lost-wakeup"
		}
		return c, nil
	}
	return c, fmt.Errorf("bad kind %q", in.Kind)
}

// ---- generators ----
func gen(r *rand.Rand, tier string, n int) []any {
	var out []any
	maxOps := 10
	if tier == "thorough" {
		maxOps = 30
	}
	next := int64(1)
	for i := 0; i < n; i++ {
		switch k := r.Intn(20); {
		case k < 9:
			in := input{Kind: "seq", Cap: r.Intn(7), Batch: 1 + r.Intn(4)}
			if r.Intn(4) == 0 {
				in.Cap = 5 + r.Intn(20)
			}
			next = 1
			for j := 0; j < 1+r.Intn(maxOps); j++ {
				if r.Intn(5) < 2 {
					in.Ops = append(in.Ops, opIn{Pop: true})
					continue
				}
				// push sizes around the capacity
				sz := r.Intn(4)
				switch r.Intn(4) {
				case 0:
					sz = in.Cap + r.Intn(3) - 1
				case 1:
					sz = 0
				}
				if sz < 0 {
					sz = 0
				}
				var p []int64
				for k := 0; k < sz; k++ {
					id := next
					next++
					if r.Intn(5) == 0 {
						id = -id // dropped by the relabel config
					}
					p = append(p, id)
				}
				in.Ops = append(in.Ops, opIn{Push: p})
			}
			out = append(out, in)
		case k < 14:
			in := input{Kind: "mid", Cap: 1 + r.Intn(6), Batch: 1 + r.Intn(4)}
			id := int64(1)
			mkp := func(sz int) []int64 {
				var p []int64
				for k := 0; k < sz; k++ {
					v := id
					id++
					if r.Intn(6) == 0 {
						v = -v
					}
					p = append(p, v)
				}
				return p
			}
			in.Pre = append(in.Pre, mkp(1+r.Intn(3)))
			if r.Intn(2) == 0 {
				in.Pre = append(in.Pre, mkp(r.Intn(in.Cap+2)))
			}
			in.Pre[0][0] = abs64(in.Pre[0][0]) // at least one kept alert: the token is set
			for j := 0; j < 1+r.Intn(3); j++ {
				in.Mids = append(in.Mids, mkp(r.Intn(4)))
			}
			in.CritPos = r.Intn(len(in.Mids) + 1)
			in.Term = r.Intn(3) == 0
			out = append(out, in)
		case k < 16:
			var p []int64
			for k := 0; k < r.Intn(4); k++ {
				id := int64(k + 1)
				if r.Intn(4) == 0 {
					id = -id
				}
				p = append(p, id)
			}
			out = append(out, input{Kind: "wake", Cap: r.Intn(4), Batch: 1 + r.Intn(3), Ops: []opIn{{Push: p}}})
		default:
			in := input{Kind: "conc", Batch: 1 + r.Intn(4), Pushers: 1 + r.Intn(4), PerPusher: 1 + r.Intn(8), BatchLen: 1 + r.Intn(3), Poppers: 1 + r.Intn(3)}
			in.Cap = in.Pushers*in.PerPusher*in.BatchLen + r.Intn(3)
			out = append(out, in)
		}
	}
	sort.SliceStable(out, func(a, b int) bool { return false })
	return out
}

func abs64(v int64) int64 {
	if v < 0 {
		return -v
	}
	return v
}

func main() {
	common.Main(common.Prop{ID: "C46", Facts: facts, Gen: gen, Run: run, QuickN: 400, ThoroughN: 4000,
		Preamble: "Open Scope Z_scope.\n", CaseTimeout: 20 * time.Second})
}
