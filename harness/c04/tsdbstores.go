package main

// Real TSDBStore-backed stores: every store is a store.TSDBStore over its own
// Prometheus TSDB (head), the replica label stored as an ordinary series label,
// a small SamplesPerChunk (the TSDB cuts the chunks) and a small
// maxBytesPerFrame, so that a series is split over several frames with little
// data. The stores support WithoutReplicaLabels (TSDBStore strips the replica
// labels itself and its resorting server re-sorts and flushes at the end).

import (
	"context"
	"fmt"
	"math"
	"os"
	"sort"

	"github.com/prometheus/prometheus/model/labels"
	"github.com/prometheus/prometheus/storage"
	"github.com/prometheus/prometheus/tsdb"
	"github.com/prometheus/prometheus/tsdb/chunkenc"

	"github.com/thanos-io/thanos/pkg/component"
	"github.com/thanos-io/thanos/pkg/store"
)

type tsdbStore struct {
	dir string
	db  *tsdb.DB
	st  *store.TSDBStore
	// chunks as an independent read of the database returns them, by full label string
	chunks map[string][][][2]int64
}

func (t *tsdbStore) close() {
	if t.db != nil {
		_ = t.db.Close()
	}
	_ = os.RemoveAll(t.dir)
}

func buildTSDBStores(in input) ([]*tsdbStore, error) {
	out := make([]*tsdbStore, in.NStores)
	fail := func(err error) ([]*tsdbStore, error) {
		for _, t := range out {
			if t != nil {
				t.close()
			}
		}
		return nil, err
	}
	spc := in.SamplesPerChunk
	if spc < 1 {
		spc = 4
	}
	for st := 0; st < in.NStores; st++ {
		dir, err := os.MkdirTemp("", "verif-c04-tsdb-")
		if err != nil {
			return fail(err)
		}
		t := &tsdbStore{dir: dir, chunks: map[string][][][2]int64{}}
		out[st] = t
		opts := tsdb.DefaultOptions()
		opts.RetentionDuration = math.MaxInt64
		opts.SamplesPerChunk = spc
		opts.WALSegmentSize = -1 // no WAL: the database lives for one case only
		db, err := tsdb.Open(dir, nil, nil, opts, nil)
		if err != nil {
			return fail(err)
		}
		t.db = db
		db.DisableCompactions()
		app := db.Appender(context.Background())
		for _, s := range in.Series {
			for _, r := range s.Replicas {
				// the samples of this replica placed on this store (union of its chunks here)
				take := map[int]bool{}
				for _, c := range r.Chunks {
					if c.Store != st {
						continue
					}
					if c.From < 0 || c.To > len(r.Samples) || c.From >= c.To {
						return fail(fmt.Errorf("bad chunk bounds"))
					}
					for k := c.From; k < c.To; k++ {
						take[k] = true
					}
				}
				var idx []int
				for k := range take {
					idx = append(idx, k)
				}
				sort.Ints(idx)
				l := fullLabels(in, s, r)
				for _, k := range idx {
					if _, err := app.Append(0, l, r.Samples[k][0], float64(r.Samples[k][1])); err != nil {
						return fail(fmt.Errorf("append %s t=%d: %w", l, r.Samples[k][0], err))
					}
				}
			}
		}
		if err := app.Commit(); err != nil {
			return fail(err)
		}
		// independent read of the chunks that overlap the query range
		q, err := db.ChunkQuerier(in.Mint, in.Maxt)
		if err != nil {
			return fail(err)
		}
		set := q.Select(context.Background(), true, &storage.SelectHints{Start: in.Mint, End: in.Maxt, DisableTrimming: true},
			labels.MustNewMatcher(labels.MatchEqual, "job", "j"))
		for set.Next() {
			s := set.At()
			key := s.Labels().String()
			it := s.Iterator(nil)
			for it.Next() {
				var smp [][2]int64
				ci := it.At().Chunk.Iterator(nil)
				for ci.Next() != chunkenc.ValNone {
					ts, v := ci.At()
					smp = append(smp, [2]int64{ts, int64(v)})
				}
				if len(smp) > 0 {
					t.chunks[key] = append(t.chunks[key], smp)
				}
			}
			if err := it.Err(); err != nil {
				q.Close()
				return fail(err)
			}
		}
		err = set.Err()
		q.Close()
		if err != nil {
			return fail(err)
		}
		t.st = store.NewTSDBStore(nil, db, component.Rule, labels.EmptyLabels())
		fb := in.FrameBytes
		if fb < 1 {
			fb = 1
		}
		t.st.VerifC04SetMaxBytesPerFrame(fb)
	}
	return out, nil
}
