// C04: deduplicated queries return each logical series once with replica data.
//
// Every case runs the real read path: in-process fake StoreAPI servers (only a
// Series method that streams pre-cut XOR chunks, split over frames) behind the
// real store.ProxyStore (eager retrieval, stores that do not support
// WithoutReplicaLabels, so the proxy itself strips the replica labels, re-sorts,
// chains equal series and drops identical chunks), behind the real
// query.NewQueryableCreator(...).Querier(mint, maxt).Select(...). Recorded: what
// the proxy handed to the querier and the (labels, samples) of every returned series.
package main

import (
	"context"
	"encoding/json"
	"fmt"
	"go/ast"
	"go/token"
	"io"
	"math"
	"math/rand"
	"sort"
	"strings"
	"time"

	"github.com/prometheus/prometheus/model/labels"
	"github.com/prometheus/prometheus/tsdb/chunkenc"
	"go.uber.org/atomic"

	"github.com/thanos-io/thanos/pkg/component"
	"github.com/thanos-io/thanos/pkg/dedup"
	"github.com/thanos-io/thanos/pkg/query"
	"github.com/thanos-io/thanos/pkg/store"
	"github.com/thanos-io/thanos/pkg/store/labelpb"
	"github.com/thanos-io/thanos/pkg/store/storepb"
	storetestutil "github.com/thanos-io/thanos/pkg/store/storepb/testutil"
	"github.com/thanos-io/thanos/zzverif/common"
	"github.com/thanos-io/thanos/zzverif/queryutil"
)

// ---- input -----------------------------------------------------------------

type inChunk struct {
	From  int `json:"from"` // samples[from:to]
	To    int `json:"to"`
	Store int `json:"store"`
	Frame int `json:"frame"`
}

type inReplica struct {
	Val     string     `json:"val"`
	Samples [][2]int64 `json:"samples"`
	Chunks  []inChunk  `json:"chunks"`
}

type inSeries struct {
	Labels   [][2]string `json:"labels"` // without the replica label
	Replicas []inReplica `json:"replicas"`
}

type input struct {
	Dedup        bool       `json:"dedup"`
	ReplicaLabel string     `json:"replica_label"`
	Mint         int64      `json:"mint"`
	Maxt         int64      `json:"maxt"`
	NStores      int        `json:"nstores"`
	Series       []inSeries `json:"series"`
	// Tsdb: the stores are real store.TSDBStore instances over real TSDBs (tsdbstores.go);
	// the chunk entries then only say which samples sit on which store, the TSDB
	// cuts chunks of SamplesPerChunk samples and frames of about FrameBytes bytes.
	Tsdb            bool `json:"tsdb,omitempty"`
	SamplesPerChunk int  `json:"samples_per_chunk,omitempty"`
	FrameBytes      int  `json:"frame_bytes,omitempty"`
}

// ---- tie T -------------------------------------------------------------------

func facts(repo string, w io.Writer) error {
	s, err := common.ParseSrc(repo, "pkg/dedup/iter.go")
	if err != nil {
		return err
	}
	fd, err := s.FindFunc("dedupSeriesIterator.Next")
	if err != nil {
		return err
	}
	val := ""
	var factors []string
	ast.Inspect(fd.Body, func(n ast.Node) bool {
		switch x := n.(type) {
		case *ast.GenDecl:
			if x.Tok == token.CONST {
				for _, sp := range x.Specs {
					vs := sp.(*ast.ValueSpec)
					for i, nm := range vs.Names {
						if nm.Name == "initialPenalty" && i < len(vs.Values) {
							if bl, ok := vs.Values[i].(*ast.BasicLit); ok && bl.Kind == token.INT {
								val = bl.Value
							}
						}
					}
				}
			}
		case *ast.AssignStmt:
			// it.penX = <k> * (tY - it.lastT)
			if len(x.Lhs) == 1 && len(x.Rhs) == 1 {
				lhs := s.ExprString(x.Lhs[0])
				if lhs == "it.penA" || lhs == "it.penB" {
					if be, ok := x.Rhs[0].(*ast.BinaryExpr); ok && be.Op == token.MUL {
						if bl, ok := be.X.(*ast.BasicLit); ok {
							factors = append(factors, lhs+"="+bl.Value+"*"+strings.ReplaceAll(s.ExprString(be.Y), " ", ""))
						}
					}
				}
			}
		}
		return true
	})
	if val == "" {
		return fmt.Errorf("c04 facts: const initialPenalty not found in dedupSeriesIterator.Next")
	}
	sort.Strings(factors)
	if strings.Join(factors, ";") != "it.penA=2*(tb-it.lastT);it.penB=2*(ta-it.lastT)" {
		return fmt.Errorf("c04 facts: penalty assignments changed: %v", factors)
	}
	fmt.Fprintln(w, "(* pkg/dedup/iter.go dedupSeriesIterator.Next: const initialPenalty; penalty = penaltyFactor * (t - lastT) *)")
	fmt.Fprintf(w, "Definition initialPenalty : Z := %s.\n", val)
	fmt.Fprintln(w, "Definition penaltyFactor : Z := 2.")

	// statement skeletons of the functions the model transcribes
	emit := func(file *common.SrcFile, fn, name string, keep func(queryutil.Ev) bool) error {
		evs, err := queryutil.Events(file, fn, []string{"level.", "errors.", "tracing.", "annotations."})
		if err != nil {
			return err
		}
		if keep != nil {
			var f []queryutil.Ev
			for _, e := range evs {
				if keep(e) {
					f = append(f, e)
				}
			}
			evs = f
		}
		queryutil.Emit(w, name, evs)
		return nil
	}
	fmt.Fprintln(w, "(* pkg/dedup/iter.go *)")
	for _, x := range [][2]string{
		{"overlapSplitSet.Next", "ev_overlap_next"},
		{"dedupSeriesIterator.Next", "ev_dedup_next"},
		{"dedupSeriesIterator.Seek", "ev_dedup_seek"},
		{"boundedSeriesIterator.Next", "ev_bounded_next"},
		{"boundedSeriesIterator.Seek", "ev_bounded_seek"},
		{"dedupSeriesSet.next", "ev_dedupset_next"},
	} {
		if err := emit(s, x[0], x[1], nil); err != nil {
			return err
		}
	}
	q, err := common.ParseSrc(repo, "pkg/query/iter.go")
	if err != nil {
		return err
	}
	fmt.Fprintln(w, "(* pkg/query/iter.go *)")
	for _, x := range [][2]string{
		{"chunkSeriesIterator.Next", "ev_csi_next"},
		{"chunkSeriesIterator.Seek", "ev_csi_seek"},
	} {
		if err := emit(q, x[0], x[1], nil); err != nil {
			return err
		}
	}
	qq, err := common.ParseSrc(repo, "pkg/query/querier.go")
	if err != nil {
		return err
	}
	fmt.Fprintln(w, "(* pkg/query/querier.go selectFn: only the dedup-related steps *)")
	return emit(qq, "querier.selectFn", "ev_selectfn", func(e queryutil.Ev) bool {
		return strings.Contains(e.Text, "dedup") || strings.Contains(e.Text, "Dedup") || strings.Contains(e.Text, "NewPromSeriesSet") ||
			strings.Contains(e.Text, "WithoutReplicaLabels") || strings.Contains(e.Text, "newStoreSeriesSet")
	})
}

// ---- fake stores ---------------------------------------------------------------

type fakeStore struct {
	storepb.StoreServer // unused methods
	resps               []*storepb.SeriesResponse
}

func (s *fakeStore) Series(_ *storepb.SeriesRequest, srv storepb.Store_SeriesServer) error {
	for _, r := range s.resps {
		if err := srv.Send(r); err != nil {
			return err
		}
	}
	return nil
}

func xorChunk(samples [][2]int64) (storepb.AggrChunk, error) {
	c := chunkenc.NewXORChunk()
	a, err := c.Appender()
	if err != nil {
		return storepb.AggrChunk{}, err
	}
	for _, s := range samples {
		a.Append(s[0], float64(s[1]))
	}
	return storepb.AggrChunk{
		MinTime: samples[0][0], MaxTime: samples[len(samples)-1][0],
		Raw: &storepb.Chunk{Type: storepb.Chunk_XOR, Data: c.Bytes()},
	}, nil
}

func fullLabels(in input, s inSeries, r inReplica) labels.Labels {
	b := labels.NewScratchBuilder(len(s.Labels) + 1)
	for _, l := range s.Labels {
		b.Add(l[0], l[1])
	}
	b.Add(in.ReplicaLabel, r.Val)
	b.Sort()
	return b.Labels()
}

func baseLabels(s inSeries) labels.Labels {
	b := labels.NewScratchBuilder(len(s.Labels))
	for _, l := range s.Labels {
		b.Add(l[0], l[1])
	}
	b.Sort()
	return b.Labels()
}

func buildStores(in input) ([]*fakeStore, error) {
	stores := make([]*fakeStore, in.NStores)
	for i := range stores {
		stores[i] = &fakeStore{}
	}
	type entry struct {
		lset   labels.Labels
		frames [][]storepb.AggrChunk
	}
	per := make([][]entry, in.NStores)
	for _, s := range in.Series {
		for _, r := range s.Replicas {
			lset := fullLabels(in, s, r)
			for st := 0; st < in.NStores; st++ {
				var frames [][]storepb.AggrChunk
				lastFrame := -1
				for _, c := range r.Chunks {
					if c.Store != st {
						continue
					}
					if c.From < 0 || c.To > len(r.Samples) || c.From >= c.To {
						return nil, fmt.Errorf("bad chunk bounds")
					}
					ch, err := xorChunk(r.Samples[c.From:c.To])
					if err != nil {
						return nil, err
					}
					if c.Frame != lastFrame || len(frames) == 0 {
						frames = append(frames, nil)
						lastFrame = c.Frame
					}
					frames[len(frames)-1] = append(frames[len(frames)-1], ch)
				}
				if len(frames) > 0 {
					per[st] = append(per[st], entry{lset, frames})
				}
			}
		}
	}
	for st := range per {
		sort.SliceStable(per[st], func(i, j int) bool { return labels.Compare(per[st][i].lset, per[st][j].lset) < 0 })
		for _, e := range per[st] {
			for _, f := range e.frames {
				stores[st].resps = append(stores[st].resps, storepb.NewSeriesResponse(&storepb.Series{
					Labels: labelpb.ZLabelsFromPromLabels(e.lset), Chunks: f,
				}))
			}
		}
	}
	return stores, nil
}

// recProxy records what the proxy sends to the querier.
type recProxy struct {
	storepb.StoreServer
	out []storepb.Series
}

type recServer struct {
	storepb.Store_SeriesServer
	p *recProxy
}

func (r *recServer) Send(resp *storepb.SeriesResponse) error {
	if s := resp.GetSeries(); s != nil {
		r.p.out = append(r.p.out, *s)
	}
	if b := resp.GetBatch(); b != nil {
		for _, s := range b.Series {
			r.p.out = append(r.p.out, *s)
		}
	}
	return r.Store_SeriesServer.Send(resp)
}

func (p *recProxy) Series(req *storepb.SeriesRequest, srv storepb.Store_SeriesServer) error {
	return p.StoreServer.Series(req, &recServer{Store_SeriesServer: srv, p: p})
}

// ---- Coq printers ----------------------------------------------------------------

func coqLabels(l labels.Labels) string {
	var parts []string
	l.Range(func(x labels.Label) { parts = append(parts, common.Pair(common.Bytes(x.Name), common.Bytes(x.Value))) })
	return common.List(parts)
}

func coqSamples(s [][2]int64) string {
	parts := make([]string, len(s))
	for i, x := range s {
		parts[i] = common.Pair(common.Z(x[0]), common.Z(x[1]))
	}
	return common.List(parts)
}

func coqChunk(s [][2]int64) string {
	return common.App("mkChunk", common.Z(s[0][0]), common.Z(s[len(s)-1][0]), coqSamples(s))
}

func decodeChunk(c storepb.AggrChunk) ([][2]int64, error) {
	if c.Raw == nil {
		return nil, fmt.Errorf("no raw chunk")
	}
	ch, err := chunkenc.FromData(chunkenc.EncXOR, c.Raw.Data)
	if err != nil {
		return nil, err
	}
	var out [][2]int64
	it := ch.Iterator(nil)
	for it.Next() != chunkenc.ValNone {
		t, v := it.At()
		out = append(out, [2]int64{t, int64(v)})
	}
	return out, it.Err()
}

type outSeries struct {
	Labels  string     `json:"labels"`
	Samples [][2]int64 `json:"samples"`
}

func inRange(s [][2]int64, mint, maxt int64) [][2]int64 {
	var out [][2]int64
	for _, x := range s {
		if x[0] >= mint && x[0] <= maxt {
			out = append(out, x)
		}
	}
	return out
}

func sameSamples(a, b [][2]int64) bool {
	if len(a) != len(b) {
		return false
	}
	for i := range a {
		if a[i] != b[i] {
			return false
		}
	}
	return true
}

// does any pair of chunks of the merged series overlap without being identical data?
func cutsOverlapWithinReplica(r inReplica) bool {
	for i := 1; i < len(r.Chunks); i++ {
		if r.Chunks[i].From < r.Chunks[i-1].To {
			return true
		}
	}
	covered := 0
	for _, c := range r.Chunks {
		if c.From > covered {
			return true // a gap: the replica does not hold all of its samples
		}
		if c.To > covered {
			covered = c.To
		}
	}
	return covered < len(r.Samples)
}

func run(raw json.RawMessage) (common.Case, error) {
	var in input
	if err := json.Unmarshal(raw, &in); err != nil {
		return common.Case{}, err
	}
	var c common.Case
	if in.NStores < 1 || in.NStores > 16 || len(in.Series) > 32 {
		return c, fmt.Errorf("bad sizes")
	}
	var cls []store.Client
	var tstores []*tsdbStore
	if in.Tsdb {
		var err error
		tstores, err = buildTSDBStores(in)
		if err != nil {
			return c, err
		}
		defer func() {
			for _, t := range tstores {
				t.close()
			}
		}()
		for i, t := range tstores {
			cls = append(cls, &storetestutil.TestClient{
				Name:        fmt.Sprintf("tsdb-%d", i),
				StoreClient: storepb.ServerAsClient(t.st, atomic.Bool{}),
				MinTime:     math.MinInt64, MaxTime: math.MaxInt64,
				WithoutReplicaLabelsEnabled: true,
			})
		}
	} else {
		stores, err := buildStores(in)
		if err != nil {
			return c, err
		}
		for i, s := range stores {
			cls = append(cls, &storetestutil.TestClient{
				Name:        fmt.Sprintf("store-%d", i),
				StoreClient: storepb.ServerAsClient(s, atomic.Bool{}),
				MinTime:     math.MinInt64, MaxTime: math.MaxInt64,
				WithoutReplicaLabelsEnabled: false,
			})
		}
	}
	proxy := store.NewProxyStore(nil, nil, func() []store.Client { return cls }, component.Query, labels.EmptyLabels(), 0, store.EagerRetrieval)
	rec := &recProxy{StoreServer: proxy}
	creator := query.NewQueryableCreator(nil, nil, rec, 4, time.Minute, dedup.AlgorithmPenalty, 0)
	q, err := creator(in.Dedup, []string{in.ReplicaLabel}, nil, 0, false, false, nil, query.NoopSeriesStatsReporter).Querier(in.Mint, in.Maxt)
	if err != nil {
		return c, err
	}
	defer q.Close()
	set := q.Select(context.Background(), false, nil, labels.MustNewMatcher(labels.MatchEqual, "job", "j"))
	var outs []outSeries
	var outTerms []string
	outBy := map[string][][2]int64{}
	for set.Next() {
		s := set.At()
		var smp [][2]int64
		it := s.Iterator(nil)
		for it.Next() != chunkenc.ValNone {
			t, v := it.At()
			smp = append(smp, [2]int64{t, int64(v)})
			if len(smp) > 100000 {
				return c, fmt.Errorf("runaway iterator")
			}
		}
		if it.Err() != nil {
			return c, fmt.Errorf("iterator error: %v", it.Err())
		}
		outs = append(outs, outSeries{Labels: s.Labels().String(), Samples: smp})
		outBy[s.Labels().String()] = smp
		outTerms = append(outTerms, common.Pair(coqLabels(s.Labels()), coqSamples(smp)))
	}
	if set.Err() != nil {
		return c, fmt.Errorf("select error: %v", set.Err())
	}
	c.Obs = outs

	// what the proxy handed over
	var poTerms []string
	replicaSamples := map[string][][2]int64{}
	for _, s := range in.Series {
		for _, r := range s.Replicas {
			replicaSamples[fullLabels(in, s, r).String()] = r.Samples
		}
	}
	for _, ps := range rec.out {
		var chunks []string
		for _, ch := range ps.Chunks {
			d, err := decodeChunk(ch)
			if err != nil {
				return c, err
			}
			if len(d) == 0 {
				return c, fmt.Errorf("empty chunk from proxy")
			}
			chunks = append(chunks, common.App("mkChunk", common.Z(ch.MinTime), common.Z(ch.MaxTime), coqSamples(d)))
		}
		lset := ps.PromLabels()
		t := common.Pair(coqLabels(lset), common.List(chunks))
		if !in.Dedup {
			t = common.Pair(t, coqSamples(replicaSamples[lset.String()]))
		}
		poTerms = append(poTerms, t)
	}

	nchunks, nrep := 0, 0
	if in.Dedup {
		var ls []string
		ident, overlap := false, false
		for _, s := range in.Series {
			var reps []string
			allSame := true
			for _, r := range s.Replicas {
				nrep++
				var chunks []string
				if in.Tsdb {
					key := fullLabels(in, s, r).String()
					for _, t := range tstores {
						for _, smp := range t.chunks[key] {
							chunks = append(chunks, coqChunk(smp))
							nchunks++
						}
					}
				} else {
					for _, ch := range r.Chunks {
						chunks = append(chunks, coqChunk(r.Samples[ch.From:ch.To]))
						nchunks++
					}
				}
				reps = append(reps, common.App("mkR", common.Bytes(r.Val), coqSamples(r.Samples), common.List(chunks)))
				if !sameSamples(r.Samples, s.Replicas[0].Samples) {
					allSame = false
				}
				if cutsOverlapWithinReplica(r) {
					overlap = true
				}
			}
			ls = append(ls, common.App("mkL", coqLabels(baseLabels(s)), common.List(reps)))
			got, ok := outBy[baseLabels(s).String()]
			if !ok {
				c.GoPred = "dedup on: no output series for " + baseLabels(s).String()
				c.Sig = "dedup-series-missing"
			} else if allSame {
				ident = true
				want := inRange(s.Replicas[0].Samples, in.Mint, in.Maxt)
				if !sameSamples(got, want) && c.GoPred == "" {
					c.GoPred = fmt.Sprintf("dedup on, identical replicas: series %s has %d samples, the replicas hold %d in range", baseLabels(s).String(), len(got), len(want))
					switch {
					case cutsOverlapWithinReplica2(s):
						c.Sig = "dedup-overlapping-cuts-lose-samples"
					case len(got) > 0 && got[len(got)-1][0] > in.Maxt:
						c.Sig = "dedup-sample-after-maxt"
					default:
						c.Sig = "dedup-identical-differs"
					}
				}
			}
		}
		if len(outs) != len(in.Series) && c.GoPred == "" {
			c.GoPred = fmt.Sprintf("dedup on: %d output series for %d logical series", len(outs), len(in.Series))
			c.Sig = "dedup-series-count"
		}
		switch {
		case ident && overlap:
			c.Class = "dedup-identical-overlapping-cuts"
		case ident:
			c.Class = "dedup-identical"
		default:
			c.Class = "dedup-different-replicas"
		}
		c.Coq = common.App("CDedup", common.Z(in.Mint), common.Z(in.Maxt), common.List(ls), common.List(poTerms), common.List(outTerms))
	} else {
		c.Class = "plain"
		for _, s := range in.Series {
			for _, r := range s.Replicas {
				nrep++
				nchunks += len(r.Chunks)
				got, ok := outBy[fullLabels(in, s, r).String()]
				want := inRange(r.Samples, in.Mint, in.Maxt)
				if (!ok || !sameSamples(got, want)) && c.GoPred == "" {
					c.GoPred = fmt.Sprintf("dedup off: replica %s of %s: %d samples returned, %d held in range", r.Val, baseLabels(s).String(), len(got), len(want))
					c.Sig = "plain-replica-differs"
				}
			}
		}
		c.Coq = common.App("CPlain", common.Z(in.Mint), common.Z(in.Maxt), common.List(poTerms), common.List(outTerms))
	}
	c.Nontrivial = nrep >= 2 && nchunks > nrep
	if in.Tsdb {
		c.Class = "tsdb-" + c.Class
	}
	return c, nil
}

func cutsOverlapWithinReplica2(s inSeries) bool {
	for _, r := range s.Replicas {
		if cutsOverlapWithinReplica(r) {
			return true
		}
	}
	return false
}

// ---- generator -------------------------------------------------------------------

func genSamples(r *rand.Rand, n int, fixedBase int64) [][2]int64 {
	base := common.Pick(r, int64(0), 1000, 1600000000000, -50000, 7)
	if fixedBase >= 0 {
		base = fixedBase // one TSDB head: all series start at the same time
	}
	step := common.Pick(r, int64(1), 2, 10, 1000, 15000, 30000)
	out := make([][2]int64, n)
	t := base
	for i := range out {
		out[i] = [2]int64{t, int64(r.Intn(1000))}
		d := step
		switch r.Intn(8) {
		case 0:
			d = step * int64(2+r.Intn(4)) // a gap
		case 1:
			d = step + int64(r.Intn(int(step/4)+1)) // jitter
		}
		if d < 1 {
			d = 1
		}
		t += d
	}
	return out
}

// cut [0,n) into contiguous chunks; with overlap: some chunks start earlier than the previous end.
func genCuts(r *rand.Rand, n, nstores int, overlap bool) []inChunk {
	var out []inChunk
	frame := 0
	for from := 0; from < n; {
		l := 1 + r.Intn(n-from)
		if r.Intn(3) > 0 && l > 8 {
			l = 1 + r.Intn(8)
		}
		f := from
		if overlap && from > 0 && r.Intn(2) == 0 {
			f = from - 1 - r.Intn(from)
		}
		if r.Intn(3) == 0 {
			frame++
		}
		out = append(out, inChunk{From: f, To: from + l, Store: r.Intn(nstores), Frame: frame})
		from += l
	}
	// the StoreAPI asks for chunks sorted by min time within a store
	sort.SliceStable(out, func(i, j int) bool { return out[i].From < out[j].From })
	return out
}

// placement for TSDB-backed stores: every store gets at most one contiguous run of a
// replica's samples (so that the chunks its TSDB cuts are consecutive pieces of the
// replica's samples); with overlap, runs start before the previous one ends.
func genRuns(r *rand.Rand, n, nstores int, overlap bool) []inChunk {
	k := 1 + r.Intn(nstores)
	if k > n {
		k = n
	}
	perm := r.Perm(nstores)[:k]
	// k-1 distinct cut points in (0, n)
	cuts := map[int]bool{}
	for len(cuts) < k-1 {
		cuts[1+r.Intn(n-1)] = true
	}
	var pts []int
	for c := range cuts {
		pts = append(pts, c)
	}
	sort.Ints(pts)
	pts = append(append([]int{0}, pts...), n)
	var out []inChunk
	for i := 0; i < k; i++ {
		from := pts[i]
		if overlap && from > 0 && r.Intn(2) == 0 {
			from = from - 1 - r.Intn(from)
		}
		out = append(out, inChunk{From: from, To: pts[i+1], Store: perm[i]})
	}
	return out
}

func gen(r *rand.Rand, tier string, n int) []any {
	var out []any
	maxN := 24
	if tier == "thorough" {
		maxN = 60
	}
	for i := 0; i < n; i++ {
		tsdbBase := int64(-1)
		in := input{Dedup: r.Intn(4) > 0, ReplicaLabel: common.Pick(r, "replica", "a_rep", "zz"), NStores: 1 + r.Intn(4)}
		if r.Intn(4) == 0 {
			// real TSDBStore-backed stores, chunks of a few samples, frames of a few chunks
			in.Tsdb = true
			in.SamplesPerChunk = common.Pick(r, 1, 2, 3, 4, 8)
			in.FrameBytes = common.Pick(r, 1, 40, 80, 160, 400, 1<<20)
			in.NStores = 1 + r.Intn(3)
			tsdbBase = common.Pick(r, int64(0), 1000, 1600000000000, 50000)
		}
		overlapCase := r.Intn(6) == 0
		nser := 1 + r.Intn(3)
		lo, hi := int64(math.MaxInt64), int64(math.MinInt64)
		for s := 0; s < nser; s++ {
			ser := inSeries{Labels: [][2]string{{"job", "j"}, {"m", fmt.Sprintf("s%d", s)}}}
			if r.Intn(3) == 0 {
				ser.Labels = append(ser.Labels, [2]string{"zone", common.Pick(r, "a", "b")})
			}
			nrep := 1 + r.Intn(4)
			base := genSamples(r, 1+r.Intn(maxN), tsdbBase)
			identicalReplicas := r.Intn(10) < 7
			for k := 0; k < nrep; k++ {
				smp := base
				if !identicalReplicas && k > 0 {
					// a replica that scrapes slightly shifted and may miss samples
					smp = nil
					shift := int64(r.Intn(5))
					for _, x := range base {
						if r.Intn(6) == 0 {
							continue
						}
						smp = append(smp, [2]int64{x[0] + shift, x[1] + int64(r.Intn(3))})
					}
					if len(smp) == 0 {
						smp = base[:1]
					}
					// keep timestamps strictly increasing
					for j := 1; j < len(smp); j++ {
						if smp[j][0] <= smp[j-1][0] {
							smp[j][0] = smp[j-1][0] + 1
						}
					}
				}
				cuts := genCuts(r, len(smp), in.NStores, overlapCase)
				if in.Tsdb {
					cuts = genRuns(r, len(smp), in.NStores, overlapCase)
				}
				ser.Replicas = append(ser.Replicas, inReplica{Val: fmt.Sprintf("r%d", k), Samples: smp, Chunks: cuts})
				if smp[0][0] < lo {
					lo = smp[0][0]
				}
				if smp[len(smp)-1][0] > hi {
					hi = smp[len(smp)-1][0]
				}
			}
			in.Series = append(in.Series, ser)
		}
		in.Mint, in.Maxt = -(1 << 62), 1<<62
		rangeKind := r.Intn(10)
		if in.Tsdb {
			// a TSDB store does not return series without data in the range: keep the range wide
			rangeKind = 9
		}
		switch rangeKind {
		case 0:
			in.Mint = lo + (hi-lo)/3
		case 1:
			in.Mint = lo + (hi-lo)/4
			in.Maxt = hi + 10
		case 2:
			in.Maxt = math.MaxInt64
			in.Mint = lo - 5
		case 3:
			in.Maxt = lo + 2*(hi-lo)/3
		case 4:
			in.Mint = lo + (hi-lo)/5
			in.Maxt = lo + (hi-lo)/2
		}
		out = append(out, in)
	}
	return out
}

func main() {
	common.Main(common.Prop{ID: "C04", Facts: facts, Gen: gen, Run: run, QuickN: 300, ThoroughN: 900,
		Preamble: "Open Scope Z_scope.\n"})
}
