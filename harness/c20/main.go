// C20: adding a node to a ketama ring (no zones) only moves series onto the new node.
package main

import (
	"encoding/json"
	"fmt"
	"go/ast"
	"io"
	"math/rand"
	"sort"

	"github.com/thanos-io/thanos/pkg/receive"
	"github.com/thanos-io/thanos/pkg/store/labelpb"
	"github.com/thanos-io/thanos/pkg/store/storepb/prompb"
	"github.com/thanos-io/thanos/zzverif/common"
	"github.com/thanos-io/thanos/zzverif/hashringutil"
)

type series struct {
	Tenant string      `json:"tenant"`
	Labels [][2]string `json:"labels"`
}

type input struct {
	Via    string   `json:"via"` // shim | multi
	Nodes  []string `json:"nodes"`
	Pos    int      `json:"pos"` // position of the added node in the new endpoint list
	Added  string   `json:"added"`
	Spn    int      `json:"spn"`
	RF     uint64   `json:"rf"`
	Series []series `json:"series"`
}

func facts(repo string, w io.Writer) error {
	s, err := common.ParseSrc(repo, "pkg/receive/hashring.go")
	if err != nil {
		return err
	}
	fd, err := s.FindFunc("NewMultiHashring")
	if err != nil {
		return err
	}
	// NewMultiHashring sorts m.nodes by address at the end. The ketama ring keeps the
	// endpoint slice it was given and refers to it by index, so m.nodes must never
	// alias a ring's slice: every assignment to m.nodes has to be
	// `m.nodes = append(m.nodes, <something>...)` (a copy into m.nodes' own array).
	assigns, copied := 0, true
	ast.Inspect(fd.Body, func(n ast.Node) bool {
		as, ok := n.(*ast.AssignStmt)
		if !ok {
			return true
		}
		for i, lhs := range as.Lhs {
			if s.ExprString(lhs) != "m.nodes" {
				continue
			}
			assigns++
			ok := false
			if i < len(as.Rhs) {
				if call, isCall := as.Rhs[i].(*ast.CallExpr); isCall {
					if id, isId := call.Fun.(*ast.Ident); isId && id.Name == "append" && len(call.Args) >= 1 &&
						s.ExprString(call.Args[0]) == "m.nodes" {
						ok = true
					}
				}
			}
			if !ok {
				copied = false
			}
		}
		return true
	})
	if assigns == 0 {
		return fmt.Errorf("srcfacts: NewMultiHashring no longer assigns m.nodes")
	}
	fmt.Fprintln(w, "(* pkg/receive/hashring.go NewMultiHashring: is every assignment to m.nodes an append onto m.nodes itself")
	fmt.Fprintln(w, "   (so that the final sort of m.nodes cannot reorder a ring's own endpoint slice)? *)")
	fmt.Fprintf(w, "Definition nodes_copied : bool := %s.\n", common.Bool(copied))
	return nil
}

func natList(xs []int) string {
	s := make([]string, len(xs))
	for i, x := range xs {
		s[i] = common.Nat(x)
	}
	return common.List(s)
}

func run(raw json.RawMessage) (common.Case, error) {
	var in input
	if err := json.Unmarshal(raw, &in); err != nil {
		return common.Case{}, err
	}
	var c common.Case
	if in.Pos < 0 || in.Pos > len(in.Nodes) {
		return c, fmt.Errorf("bad position")
	}
	newNodes := append(append(append([]string{}, in.Nodes[:in.Pos]...), in.Added), in.Nodes[in.Pos:]...)
	spn := in.Spn
	if in.Via == "multi" {
		spn = receive.SectionsPerNode
	}
	mk := func(nodes []string) (receive.Hashring, map[string]int, error) {
		eps := make([]receive.Endpoint, len(nodes))
		pos := map[string]int{}
		for i, a := range nodes {
			eps[i] = receive.Endpoint{Address: a}
			pos[a] = i
		}
		var h receive.Hashring
		var err error
		if in.Via == "multi" {
			h, err = receive.NewMultiHashring(receive.AlgorithmKetama, in.RF, []receive.HashringConfig{{Endpoints: eps}}, nil)
		} else {
			h, err = receive.VerifC20NewKetama(eps, spn, in.RF)
		}
		return h, pos, err
	}
	hOld, posOld, err := mk(in.Nodes)
	if err != nil {
		return c, fmt.Errorf("old ring: %v", err)
	}
	hNew, posNew, err := mk(newNodes)
	if err != nil {
		return c, fmt.Errorf("new ring: %v", err)
	}
	rk := &hashringutil.Ranker{}
	for _, a := range newNodes {
		for i := 1; i <= spn; i++ {
			rk.Add(hashringutil.SectionHash(a, i))
		}
	}
	hvs := make([]uint64, len(in.Series))
	tss := make([]*prompb.TimeSeries, len(in.Series))
	for i, sr := range in.Series {
		ls := make([]labelpb.ZLabel, len(sr.Labels))
		for j, l := range sr.Labels {
			ls[j] = labelpb.ZLabel{Name: l[0], Value: l[1]}
		}
		tss[i] = &prompb.TimeSeries{Labels: ls}
		hvs[i] = labelpb.HashWithPrefix(sr.Tenant, ls)
		rk.Add(hvs[i])
	}
	hashes := func(a string) string {
		hs := make([]string, 0, spn)
		for i := 1; i <= spn; i++ {
			hs = append(hs, common.ZU(rk.Rank(hashringutil.SectionHash(a, i))))
		}
		return common.List(hs)
	}
	var hsTerms []string
	for _, a := range in.Nodes {
		hsTerms = append(hsTerms, hashes(a))
	}
	var qs []string
	var obs [][2][]string
	moved := false
	for i, sr := range in.Series {
		get := func(h receive.Hashring, pos map[string]int) ([]int, []string, error) {
			var out []int
			var names []string
			for k := uint64(0); k < in.RF; k++ {
				e, err := h.GetN(sr.Tenant, tss[i], k)
				if err != nil {
					return nil, nil, fmt.Errorf("GetN(%d): %v", k, err)
				}
				out = append(out, pos[e.Address])
				names = append(names, e.Address)
			}
			return out, names, nil
		}
		a, na, err := get(hOld, posOld)
		if err != nil {
			return c, err
		}
		b, nb, err := get(hNew, posNew)
		if err != nil {
			return c, err
		}
		// Go-side predicate (search aid)
		before := map[string]bool{}
		for _, x := range na {
			before[x] = true
		}
		after := map[string]bool{}
		hasNew := false
		for _, x := range nb {
			after[x] = true
			if x == in.Added {
				hasNew = true
			} else if !before[x] {
				c.GoPred, c.Sig = "a series moved onto a pre-existing node that did not hold it before", "moved-between-old"
			}
		}
		lost := 0
		for _, x := range na {
			if !after[x] {
				lost++
			}
		}
		if lost > 1 && c.GoPred == "" {
			c.GoPred, c.Sig = "more than one old replica lost the series", "lost-many"
		}
		if !hasNew && fmt.Sprint(na) != fmt.Sprint(nb) && c.GoPred == "" {
			c.GoPred, c.Sig = "replica list changed although the new node is not in it", "changed-without-new"
		}
		if hasNew {
			moved = true
		}
		qs = append(qs, common.Tuple(common.ZU(rk.Rank(hvs[i])), natList(a), natList(b)))
		obs = append(obs, [2][]string{na, nb})
	}
	if in.Via == "multi" {
		// order-preserving ids of the addresses (the constructor sorts nodes by address)
		sorted := append([]string(nil), newNodes...)
		sort.Strings(sorted)
		id := map[string]int64{}
		for i, a := range sorted {
			id[a] = int64(i)
		}
		var addrTerms []int64
		for _, a := range in.Nodes {
			addrTerms = append(addrTerms, id[a])
		}
		c.Coq = common.App("CAddM", common.ZList(addrTerms), common.Z(id[in.Added]), common.List(hsTerms), common.Nat(in.Pos), hashes(in.Added), common.Nat(int(in.RF)), common.List(qs))
	} else {
		c.Coq = common.App("CAdd", common.List(hsTerms), common.Nat(in.Pos), hashes(in.Added), common.Nat(int(in.RF)), common.List(qs))
	}
	c.Obs = obs
	c.Class = fmt.Sprintf("%s/n=%d", in.Via, len(in.Nodes))
	// non-trivial: at least one series gained the new node as a replica
	c.Nontrivial = moved
	return c, nil
}

func gen(r *rand.Rand, tier string, n int) []any {
	var out []any
	nser := 8
	if tier == "thorough" {
		nser = 16
	}
	tenants := []string{"", "default-tenant", "team-a"}
	for i := 0; i < n; i++ {
		var in input
		in.Via = "shim"
		maxN := 12
		// the public constructor (real SectionsPerNode, so keep these few and small):
		// a single ketama hashring config with the endpoint list in arbitrary order
		if r.Intn(50) == 0 {
			in.Via, maxN = "multi", 4
		}
		nn := int(common.Between(r, 1, int64(maxN)))
		if in.Via == "multi" && nn < 2 {
			nn = 2
		}
		used := map[string]bool{}
		name := func() string {
			for {
				a := fmt.Sprintf("node-%d:10901", r.Intn(60))
				if !used[a] {
					used[a] = true
					return a
				}
			}
		}
		for j := 0; j < nn; j++ {
			in.Nodes = append(in.Nodes, name())
		}
		in.Added = name()
		in.Pos = r.Intn(nn + 1)
		in.Spn = int(common.Pick(r, int64(1), 2, 3, 5, 8, 16))
		in.RF = uint64(common.Between(r, 1, int64(min(nn, 5))))
		if r.Intn(4) == 0 {
			in.RF = uint64(nn) // every old node is a replica
			if in.RF > 6 {
				in.RF = 6
			}
		}
		for k := 0; k < nser; k++ {
			in.Series = append(in.Series, series{Tenant: common.Pick(r, tenants...),
				Labels: [][2]string{{"__name__", fmt.Sprintf("m%d", r.Intn(10000))}, {"job", fmt.Sprintf("j%d", r.Intn(20))}}})
		}
		out = append(out, in)
	}
	return out
}

func main() {
	common.Main(common.Prop{ID: "C20", Facts: facts, Gen: gen, Run: run, QuickN: 250, ThoroughN: 2500})
}
