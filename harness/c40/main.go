// C40: offline deduplication of downsampled chunks keeps every aggregate sample.
package main

import (
	"encoding/json"
	"fmt"
	"go/ast"
	"go/token"
	"io"
	"math/rand"
	"os"
	"os/exec"
	"path/filepath"
	"runtime/debug"
	"strings"

	"github.com/prometheus/prometheus/model/labels"
	"github.com/prometheus/prometheus/storage"
	"github.com/prometheus/prometheus/tsdb/chunkenc"
	"github.com/prometheus/prometheus/tsdb/chunks"

	"github.com/thanos-io/thanos/pkg/compact/downsample"
	"github.com/thanos-io/thanos/pkg/dedup"
	"github.com/thanos-io/thanos/zzverif/common"
	du "github.com/thanos-io/thanos/zzverif/deduputil"
)

// One aggregate chunk: the timestamps of its downsampled samples and the values of the
// five aggregates (count, sum, min, max, counter; null = aggregate absent). All
// aggregates are at the same timestamps; the counter has one value more (downsampling
// repeats the last timestamp with the last raw value).
type encChunk struct {
	Ts   []int64      `json:"ts"`
	Vals [5][]float64 `json:"vals"`
}

type achunk [5][]du.Sample

type input struct {
	// Chunks are all chunks of the series to merge, in the order dedupChunksIterator's
	// heap pops them: MinTime strictly increasing, except that a chunk may be an exact
	// copy of the previous one. Series[i] (default i) is the input series holding chunk i.
	Chunks []encChunk `json:"chunks"`
	Series []int      `json:"series,omitempty"`
}

func sameChunk(a, b encChunk) bool {
	return fmt.Sprint(a.Ts) == fmt.Sprint(b.Ts) && fmt.Sprint(a.Vals) == fmt.Sprint(b.Vals)
}

func (e encChunk) decode() (achunk, [5]bool, error) {
	var c achunk
	var pr [5]bool
	if len(e.Ts) == 0 {
		return c, pr, fmt.Errorf("chunk without samples")
	}
	for a := 0; a < 5; a++ {
		if e.Vals[a] == nil {
			continue
		}
		pr[a] = true
		tsx := e.Ts
		if a == 4 {
			tsx = append(append([]int64(nil), e.Ts...), e.Ts[len(e.Ts)-1])
		}
		if len(e.Vals[a]) != len(tsx) {
			return c, pr, fmt.Errorf("aggregate %d: %d values for %d timestamps", a, len(e.Vals[a]), len(tsx))
		}
		for j, t := range tsx {
			c[a] = append(c[a], du.Sample{float64(t), e.Vals[a][j]})
		}
	}
	return c, pr, nil
}

func facts(repo string, w io.Writer) error {
	if err := du.IterFacts(repo, w); err != nil {
		return err
	}
	// seriesToChunkEncoderSplit from the prometheus module the harness is linked against
	dir, err := promDir(repo)
	if err != nil {
		return err
	}
	s, err := common.ParseSrc(dir, "storage/series.go")
	if err != nil {
		return err
	}
	split := ""
	for _, d := range s.File.Decls {
		gd, ok := d.(*ast.GenDecl)
		if !ok || gd.Tok != token.CONST {
			continue
		}
		for _, sp := range gd.Specs {
			vs := sp.(*ast.ValueSpec)
			for i, nm := range vs.Names {
				if nm.Name == "seriesToChunkEncoderSplit" && i < len(vs.Values) {
					if bl, ok := vs.Values[i].(*ast.BasicLit); ok && bl.Kind == token.INT {
						split = bl.Value
					}
				}
			}
		}
	}
	if split == "" {
		return fmt.Errorf("srcfacts: const seriesToChunkEncoderSplit not found in prometheus storage/series.go")
	}
	fmt.Fprintln(w, "(* prometheus storage/series.go (module version linked by go.mod) *)")
	fmt.Fprintf(w, "Definition seriesToChunkEncoderSplit : Z := %s.\n", split)

	// shape of aggrChunkIterator.toChunk: conditions of if / for, break, the advance
	cs, err := common.ParseSrc(repo, "pkg/dedup/chunk_iter.go")
	if err != nil {
		return err
	}
	fd, err := cs.FindFunc("aggrChunkIterator.toChunk")
	if err != nil {
		return err
	}
	var items []string
	ast.Inspect(fd.Body, func(n ast.Node) bool {
		switch x := n.(type) {
		case *ast.IfStmt:
			c := cs.ExprString(x.Cond)
			if x.Init != nil {
				c = nodeStr(cs, x.Init) + "; " + c
			}
			items = append(items, "if "+c)
		case *ast.ForStmt:
			if x.Cond != nil {
				items = append(items, "for "+cs.ExprString(x.Cond))
			} else {
				items = append(items, "for")
			}
		case *ast.BranchStmt:
			items = append(items, x.Tok.String())
		case *ast.AssignStmt:
			if len(x.Rhs) == 1 {
				if call, ok := x.Rhs[0].(*ast.CallExpr); ok {
					if sel, ok := call.Fun.(*ast.SelectorExpr); ok && sel.Sel.Name == "Next" {
						items = append(items, cs.ExprString(x.Lhs[0])+" "+x.Tok.String()+" "+cs.ExprString(x.Rhs[0]))
					}
				}
			}
		}
		return true
	})
	xs := make([]string, len(items))
	for i, p := range items {
		xs[i] = common.CoqString(p)
	}
	fmt.Fprintln(w, "(* aggrChunkIterator.toChunk: if/for conditions, break, iterator advances; source order *)")
	fmt.Fprintf(w, "Definition to_chunk_src : list string := [%s]%%string.\n", strings.Join(xs, "; "))
	return nil
}

func nodeStr(s *common.SrcFile, n ast.Node) string {
	if as, ok := n.(*ast.AssignStmt); ok {
		var l, r []string
		for _, e := range as.Lhs {
			l = append(l, s.ExprString(e))
		}
		for _, e := range as.Rhs {
			r = append(r, s.ExprString(e))
		}
		return strings.Join(l, ", ") + " " + as.Tok.String() + " " + strings.Join(r, ", ")
	}
	return "?"
}

// promDir locates the source of the prometheus module this binary was built with.
func promDir(repo string) (string, error) {
	bi, ok := debug.ReadBuildInfo()
	if !ok {
		return "", fmt.Errorf("srcfacts: no build info")
	}
	for _, d := range bi.Deps {
		if d.Path == "github.com/prometheus/prometheus" {
			m := d
			if m.Replace != nil {
				m = m.Replace
			}
			mc := os.Getenv("GOMODCACHE")
			if mc == "" {
				out, err := exec.Command("go1.26", "env", "GOMODCACHE").Output()
				if err == nil {
					mc = strings.TrimSpace(string(out))
				}
			}
			if mc == "" {
				home, _ := os.UserHomeDir()
				mc = filepath.Join(home, "go", "pkg", "mod")
			}
			dir := filepath.Join(mc, m.Path+"@"+m.Version)
			if _, err := os.Stat(dir); err != nil {
				return "", fmt.Errorf("srcfacts: prometheus module source not found at %s", dir)
			}
			return dir, nil
		}
	}
	return "", fmt.Errorf("srcfacts: prometheus module not among the build dependencies")
}

func aggrMeta(c achunk, present [5]bool) (chunks.Meta, error) {
	var chks [5]chunkenc.Chunk
	mint, maxt := int64(0), int64(0)
	for i := 0; i < 5; i++ {
		if !present[i] {
			continue
		}
		x, err := du.XORChunk(c[i])
		if err != nil {
			return chunks.Meta{}, err
		}
		chks[i] = x
	}
	cnt := c[0]
	if len(cnt) == 0 {
		return chunks.Meta{}, fmt.Errorf("count aggregate must hold samples")
	}
	mint, maxt = cnt[0].T(), cnt[len(cnt)-1].T()
	return chunks.Meta{MinTime: mint, MaxTime: maxt, Chunk: downsample.EncodeAggrChunk(chks)}, nil
}

type obsChunk struct {
	MinT, MaxT int64
	Aggr       [5][]du.Obs
	Has        [5]bool
}

func run(raw json.RawMessage) (common.Case, error) {
	var in input
	if err := json.Unmarshal(raw, &in); err != nil {
		return common.Case{}, err
	}
	var c common.Case
	if len(in.Chunks) < 1 || len(in.Chunks) > 12 {
		return c, fmt.Errorf("need 1..12 chunks")
	}
	present := make([][5]bool, len(in.Chunks))
	dec := make([]achunk, len(in.Chunks))
	for i := range in.Chunks {
		var err error
		dec[i], present[i], err = in.Chunks[i].decode()
		if err != nil {
			return c, err
		}
		if !present[i][0] {
			return c, fmt.Errorf("the count aggregate must be present")
		}
	}
	lset := labels.FromStrings("__name__", "m")
	var metas []chunks.Meta
	for i, ch := range dec {
		for a := 0; a < 5; a++ {
			for _, s := range ch[a] {
				if !du.IsInt(s.V()) {
					return c, fmt.Errorf("C40 uses integer-valued samples")
				}
			}
		}
		m, err := aggrMeta(ch, present[i])
		if err != nil {
			return c, err
		}
		metas = append(metas, m)
	}
	nser := 0
	ser := make([]int, len(metas))
	for i := range metas {
		ser[i] = i
		if i < len(in.Series) {
			ser[i] = in.Series[i]
		}
		if ser[i] < 0 || ser[i] > 11 {
			return c, fmt.Errorf("bad series index")
		}
		if ser[i]+1 > nser {
			nser = ser[i] + 1
		}
	}
	// The model takes the chunks in the order the heap pops them. That order is
	// unambiguous when (MinTime, MaxTime) strictly increases, when a chunk repeats the
	// previous one exactly, and for the first chunks of series 0 and series 1 with the
	// same time range (container/heap keeps the one pushed first at the root).
	for i := 1; i < len(metas); i++ {
		a, b := metas[i-1], metas[i]
		switch {
		case a.MinTime < b.MinTime || (a.MinTime == b.MinTime && a.MaxTime < b.MaxTime):
		case sameChunk(in.Chunks[i], in.Chunks[i-1]):
		case i == 1 && a.MinTime == b.MinTime && a.MaxTime == b.MaxTime && ser[0] == 0 && ser[1] == 1:
		default:
			return c, fmt.Errorf("chunk %d: pop order of the heap would be ambiguous", i)
		}
	}
	var series []storage.ChunkSeries
	for sidx := 0; sidx < nser; sidx++ {
		var ms []chunks.Meta
		for i, m := range metas {
			if ser[i] == sidx {
				ms = append(ms, m)
			}
		}
		if len(ms) == 0 {
			continue
		}
		mm := ms
		series = append(series, &storage.ChunkSeriesEntry{Lset: lset, ChunkIteratorFn: func(chunks.Iterator) chunks.Iterator {
			return storage.NewListChunkSeriesIterator(mm...)
		}})
	}
	merged := dedup.NewChunkSeriesMerger()(series...)
	it := merged.Iterator(nil)
	var out []obsChunk
	for it.Next() {
		m := it.At()
		ac, ok := m.Chunk.(*downsample.AggrChunk)
		if !ok {
			return c, fmt.Errorf("output chunk is not an aggregate chunk")
		}
		oc := obsChunk{MinT: m.MinTime, MaxT: m.MaxTime}
		for a := downsample.AggrCount; a <= downsample.AggrCounter; a++ {
			x, err := ac.Get(a)
			if err != nil {
				continue
			}
			oc.Has[a] = true
			xi := x.Iterator(nil)
			for xi.Next() != chunkenc.ValNone {
				t, v := xi.At()
				oc.Aggr[a] = append(oc.Aggr[a], du.Obs{OK: true, T: t, V: v})
			}
		}
		out = append(out, oc)
		if len(out) > 1000 {
			break
		}
	}
	if err := it.Err(); err != nil {
		return c, fmt.Errorf("merge error: %v", err)
	}

	base := metas[0].MinTime
	coqChunk := func(e encChunk) string {
		tl := make([]int64, len(e.Ts))
		for j, t := range e.Ts {
			tl[j] = t - base
		}
		xs := make([]string, 5)
		for a := 0; a < 5; a++ {
			if e.Vals[a] == nil {
				xs[a] = common.None
				continue
			}
			vs := make([]int64, len(e.Vals[a]))
			for j, v := range e.Vals[a] {
				vs[j] = int64(v)
			}
			xs[a] = common.Some(common.ZList(vs))
		}
		return common.Pair(common.ZList(tl), common.List(xs))
	}
	var encs []string
	for _, e := range in.Chunks {
		encs = append(encs, coqChunk(e))
	}
	var outs []string
	for _, oc := range out {
		cnt := make([]string, len(oc.Aggr[0]))
		for j, o := range oc.Aggr[0] {
			cnt[j] = du.CoqSample(o.T-base, o.V)
		}
		var xs []string
		for a := 1; a < 5; a++ {
			if !oc.Has[a] {
				xs = append(xs, "OAbsent")
				continue
			}
			want := len(oc.Aggr[0])
			if a == 4 {
				want++
			}
			same := oc.Has[0] && len(oc.Aggr[a]) == want && len(oc.Aggr[0]) > 0
			if same {
				for j := range oc.Aggr[0] {
					if oc.Aggr[a][j].T != oc.Aggr[0][j].T {
						same = false
					}
				}
				if a == 4 && oc.Aggr[a][want-1].T != oc.Aggr[0][want-2].T {
					same = false
				}
			}
			if same {
				vs := make([]int64, len(oc.Aggr[a]))
				for j, o := range oc.Aggr[a] {
					vs[j] = int64(o.V)
				}
				xs = append(xs, common.App("OSame", common.ZList(vs)))
			} else {
				ss := make([]string, len(oc.Aggr[a]))
				for j, o := range oc.Aggr[a] {
					ss[j] = du.CoqSample(o.T-base, o.V)
				}
				xs = append(xs, common.App("OPairs", common.List(ss)))
			}
		}
		outs = append(outs, common.Tuple(common.Z(oc.MinT-base), common.Z(oc.MaxT-base), common.List(cnt), common.List(xs)))
	}
	c.Coq = common.App("Case", common.Z(base), common.List(encs), common.List(outs))
	c.Obs = out
	c.Nontrivial = len(out) >= 2
	ko := len(out)
	if ko > 4 {
		ko = 4
	}
	c.Class = fmt.Sprintf("k%d-s%d-out%d", len(in.Chunks), len(series), ko)

	// Go-side predicate for well-formed inputs (all five aggregates present, increasing timestamps)
	wf := true
	for i, e := range in.Chunks {
		for a := 0; a < 5; a++ {
			if !present[i][a] {
				wf = false
			}
		}
		for j := 1; j < len(e.Ts); j++ {
			if e.Ts[j] <= e.Ts[j-1] {
				wf = false
			}
		}
	}
	if !wf {
		c.Class = "not-wf-" + c.Class
		return c, nil
	}
	names := []string{"count", "sum", "min", "max", "counter"}
	for k, oc := range out {
		for a := 1; a < 5; a++ {
			want := len(oc.Aggr[0])
			if a == 4 {
				want++
			}
			bad := !oc.Has[a] || len(oc.Aggr[a]) != want
			if !bad {
				for j := range oc.Aggr[0] {
					if oc.Aggr[a][j].T != oc.Aggr[0][j].T {
						bad = true
					}
				}
			}
			if bad {
				c.GoPred = fmt.Sprintf("output chunk %d: aggregate %s has %d samples, count has %d (a sample is missing at a timestamp where count has one)", k, names[a], len(oc.Aggr[a]), len(oc.Aggr[0]))
				c.Sig = "aggregate-sample-lost"
				if k == 0 {
					c.Sig = "aggregate-sample-lost-first-chunk"
				}
				return c, nil
			}
		}
	}
	return c, nil
}

// mkChunk builds a downsampled chunk with the given timestamps.
func mkChunk(r *rand.Rand, tsx []int64) encChunk {
	c := encChunk{Ts: tsx}
	ctr := int64(r.Intn(1000))
	for range tsx {
		cnt := int64(1 + r.Intn(20))
		mn := int64(r.Intn(100)) - 20
		mx := mn + int64(r.Intn(100))
		sm := (mn+mx)*cnt/2 + 1
		ctr += int64(r.Intn(50))
		c.Vals[0] = append(c.Vals[0], float64(cnt))
		c.Vals[1] = append(c.Vals[1], float64(sm))
		c.Vals[2] = append(c.Vals[2], float64(mn))
		c.Vals[3] = append(c.Vals[3], float64(mx))
		c.Vals[4] = append(c.Vals[4], float64(ctr))
	}
	c.Vals[4] = append(c.Vals[4], float64(ctr+int64(r.Intn(10))))
	return c
}


// orderOK reports whether the heap's pop order is unambiguous for this input (the same
// test run() applies); the generator drops inputs for which it is not, so that the
// harness never has to refuse a generated input.
func orderOK(in input) bool {
	if len(in.Chunks) < 1 || len(in.Chunks) > 12 {
		return false
	}
	var metas []chunks.Meta
	for i := range in.Chunks {
		d, pr, err := in.Chunks[i].decode()
		if err != nil || !pr[0] {
			return false
		}
		m, err := aggrMeta(d, pr)
		if err != nil {
			return false
		}
		metas = append(metas, m)
	}
	ser := make([]int, len(metas))
	for i := range metas {
		ser[i] = i
		if i < len(in.Series) {
			ser[i] = in.Series[i]
		}
	}
	for i := 1; i < len(metas); i++ {
		a, b := metas[i-1], metas[i]
		switch {
		case a.MinTime < b.MinTime || (a.MinTime == b.MinTime && a.MaxTime < b.MaxTime):
		case sameChunk(in.Chunks[i], in.Chunks[i-1]):
		case i == 1 && a.MinTime == b.MinTime && a.MaxTime == b.MaxTime && ser[0] == 0 && ser[1] == 1:
		default:
			return false
		}
	}
	return true
}

func gen(r *rand.Rand, tier string, n int) []any {
	var out []any
	for len(out) < n {
		res := common.Pick(r, int64(300000), 300000, 3600000, 1000)
		base := common.Pick(r, int64(1600000000000), 300000, 7, 1)
		ngroups := 1
		switch g := r.Intn(10); {
		case g >= 9:
			ngroups = 3
		case g >= 6:
			ngroups = 2
		}
		// sizes: Coq reads the observed data slowly, so most cases are just big enough
		// to produce 2-3 output chunks (the count aggregate is cut every 120 samples)
		shape := r.Intn(20)
		var in input
		next := base + r.Int63n(res) // earliest start of the next group
		okc := true
		for g := 0; g < ngroups && okc; g++ {
			k := 2
			switch x := r.Intn(8); {
			case x == 0:
				k = 1 // a chunk that overlaps nothing: passed through
			case x >= 6:
				k = 3 + r.Intn(2)
			}
			prevMin := int64(0)
			gmax := int64(0)
			var prevTs []int64
			for i := 0; i < k; i++ {
				var ln int
				switch {
				case shape < 4 || g > 0: // small: a single output chunk
					ln = 1 + r.Intn(40)
				case shape < 17: // two or three output chunks
					ln = 55 + r.Intn(90)
					if i >= 2 {
						ln = 1 + r.Intn(30)
					}
				default: // long chunks, up to 400 samples
					ln = 150 + r.Intn(251)
					if i >= 1 {
						ln = 1 + r.Intn(150)
					}
				}
				if tier == "thorough" && r.Intn(2) == 0 {
					ln = 1 + r.Intn(400)
				}
				var start int64
				if i == 0 {
					start = next
				} else {
					// overlap the group: start inside (prevMin, gmax]
					span := gmax - prevMin
					if span <= 0 {
						okc = false
						break
					}
					start = prevMin + 1 + r.Int63n(span)
					switch r.Intn(3) {
					case 0: // typical replica: same resolution, small phase shift
						start = prevMin + 1 + r.Int63n(res)
						if start > gmax {
							start = gmax
						}
					case 1: // same grid: timestamps coincide with the previous chunk's (ties between replicas)
						if len(prevTs) > 1 {
							start = prevTs[1+r.Intn(len(prevTs)-1)]
						}
					}
				}
				var tsx []int64
				t := start
				for j := 0; j < ln; j++ {
					tsx = append(tsx, t)
					t += res
					if r.Intn(15) == 0 {
						t += res * int64(1+r.Intn(5)) // gap
					}
				}
				ch := mkChunk(r, tsx)
				in.Chunks = append(in.Chunks, ch)
				if r.Intn(12) == 0 { // the same chunk once more (e.g. the block was uploaded twice)
					in.Chunks = append(in.Chunks, ch)
				}
				prevMin = start
				prevTs = tsx
				if tsx[len(tsx)-1] > gmax {
					gmax = tsx[len(tsx)-1]
				}
			}
			next = gmax + 1 + r.Int63n(3*res)
		}
		if !okc || len(in.Chunks) > 12 {
			continue
		}
		nser := 2 + r.Intn(2)
		if r.Intn(5) == 0 {
			nser = len(in.Chunks) // every chunk in its own series
		}
		for range in.Chunks {
			in.Series = append(in.Series, r.Intn(nser))
		}
		if r.Intn(8) == 0 && len(in.Chunks) >= 1 && len(in.Chunks) < 12 {
			// two replicas downsampled on the same grid: same timestamps, other values;
			// the first chunks of series 0 and 1
			twin := mkChunk(r, in.Chunks[0].Ts)
			in.Chunks = append([]encChunk{in.Chunks[0], twin}, in.Chunks[1:]...)
			in.Series = append([]int{0, 1}, in.Series[1:]...)
		}
		switch r.Intn(20) {
		case 0: // an aggregate absent in every chunk
			a := 1 + r.Intn(4)
			for i := range in.Chunks {
				in.Chunks[i].Vals[a] = nil
			}
		case 1: // an aggregate absent in one chunk only
			a := 1 + r.Intn(4)
			orig := in.Chunks[r.Intn(len(in.Chunks))]
			for i := range in.Chunks {
				if sameChunk(in.Chunks[i], orig) { // keep exact copies exact
					in.Chunks[i].Vals[a] = nil
				}
			}
		}
		if !orderOK(in) {
			continue
		}
		out = append(out, in)
	}
	return out
}

func main() {
	common.Main(common.Prop{ID: "C40", Facts: facts, Gen: gen, Run: run, QuickN: 60, ThoroughN: 200,
		Preamble: "From Verif Require Import Lib.Dedup_Iter.\nOpen Scope Z_scope.\n"})
}
