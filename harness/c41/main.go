// C41: splitting a query by interval evaluates every step exactly once.
package main

import (
	"context"
	"encoding/json"
	"fmt"
	"io"
	"math/rand"
	"time"

	"github.com/thanos-io/thanos/internal/cortex/querier/queryrange"
	"github.com/thanos-io/thanos/pkg/queryfrontend"
	"github.com/thanos-io/thanos/zzverif/common"
)

type input struct {
	Kind     string `json:"kind"` // range | labels | series | align
	Start    int64  `json:"start"`
	End      int64  `json:"end"`
	Step     int64  `json:"step"`
	Interval int64  `json:"interval_ms"`
}

func facts(repo string, w io.Writer) error {
	s, err := common.ParseSrc(repo, "pkg/queryfrontend/split_by_interval.go")
	if err != nil {
		return err
	}
	d, err := s.TranslateFunc("nextIntervalBoundary", common.TranslateOpts{})
	if err != nil {
		return err
	}
	fmt.Fprintln(w, "(* pkg/queryfrontend/split_by_interval.go: nextIntervalBoundary; interval is a time.Duration (ns) *)")
	fmt.Fprintln(w, d)
	return nil
}

type capture struct{ start, end int64 }

func (c *capture) Do(_ context.Context, r queryrange.Request) (queryrange.Response, error) {
	c.start, c.end = r.GetStart(), r.GetEnd()
	return nil, nil
}

func run(raw json.RawMessage) (common.Case, error) {
	var in input
	if err := json.Unmarshal(raw, &in); err != nil {
		return common.Case{}, err
	}
	var c common.Case
	c.Class = in.Kind
	switch in.Kind {
	case "align":
		cp := &capture{}
		h := queryrange.StepAlignMiddleware.Wrap(cp)
		if _, err := h.Do(context.Background(), &queryfrontend.ThanosQueryRangeRequest{Start: in.Start, End: in.End, Step: in.Step, Query: "up"}); err != nil {
			return c, err
		}
		c.Coq = common.App("CAlign", common.Z(in.Start), common.Z(in.End), common.Z(in.Step), common.Pair(common.Z(cp.start), common.Z(cp.end)))
		c.Obs = [2]int64{cp.start, cp.end}
		c.Nontrivial = in.Start%in.Step != 0 || in.End%in.Step != 0
		return c, nil
	}
	var req queryrange.Request
	switch in.Kind {
	case "range":
		req = &queryfrontend.ThanosQueryRangeRequest{Start: in.Start, End: in.End, Step: in.Step, Query: "up"}
	case "labels":
		req = &queryfrontend.ThanosLabelsRequest{Start: in.Start, End: in.End}
	case "series":
		req = &queryfrontend.ThanosSeriesRequest{Start: in.Start, End: in.End}
	default:
		return c, fmt.Errorf("bad kind %q", in.Kind)
	}
	subs, err := queryfrontend.VerifSplitQuery(req, time.Duration(in.Interval)*time.Millisecond)
	if err != nil {
		return c, err
	}
	var outs []string
	var obs [][2]int64
	for _, s := range subs {
		outs = append(outs, common.Pair(common.Z(s.GetStart()), common.Z(s.GetEnd())))
		obs = append(obs, [2]int64{s.GetStart(), s.GetEnd()})
	}
	c.Obs = obs
	c.Nontrivial = len(subs) >= 2
	if in.Kind == "range" {
		c.Coq = common.App("CRange", common.Z(in.Start), common.Z(in.End), common.Z(in.Step), common.Z(in.Interval), common.List(outs))
		// Go-side predicate (search aid): concatenated steps = original steps.
		var want, got []int64
		for t := in.Start; t <= in.End; t += in.Step {
			want = append(want, t)
		}
		for _, s := range subs {
			if (s.GetStart()-in.Start)%in.Step != 0 {
				c.GoPred = "sub-query start not aligned to the original step"
				c.Sig = "misaligned-subquery"
			}
			for t := s.GetStart(); t <= s.GetEnd(); t += in.Step {
				got = append(got, t)
			}
		}
		if c.GoPred == "" && fmt.Sprint(want) != fmt.Sprint(got) {
			c.GoPred = "evaluation timestamps of the sub-queries differ from the original's"
			c.Sig = "steps-differ"
		}
	} else {
		c.Coq = common.App("CSplit", common.Z(in.Start), common.Z(in.End), common.Z(in.Interval), common.List(outs))
	}
	return c, nil
}

func gen(r *rand.Rand, tier string, n int) []any {
	var out []any
	maxSpan := int64(40)
	if tier == "thorough" {
		maxSpan = 400
	}
	for i := 0; i < n; i++ {
		var in input
		interval := common.Pick(r, int64(1), 2, 3, 5, 7, 10, 60, 1000, 3600000, 86400000)
		step := common.Pick(r, int64(1), 2, 3, 4, 7, 13, 15, 60, 1000, 14000, 3600000, 90000000)
		if r.Intn(3) == 0 {
			step = common.Between(r, 1, 3*interval)
		}
		base := common.Pick(r, int64(0), 0, 1600000000000, -100, -86400000, 12345)
		start := base + common.Between(r, -2*interval, 2*interval)
		// bound the number of steps and sub-queries so cases stay small
		span := common.Between(r, 0, maxSpan)
		unit := step
		if interval < unit {
			unit = interval
		}
		end := start + span*unit/4 + common.Between(r, 0, unit)
		if r.Intn(10) == 0 {
			end = start
		}
		if (end-start)/step > 4000 {
			end = start + 4000*step
		}
		if (end-start)/interval > 400 {
			end = start + 400*interval
		}
		in = input{Start: start, End: end, Step: step, Interval: interval}
		switch k := r.Intn(10); {
		case k < 6:
			in.Kind = "range"
			if r.Intn(2) == 0 { // step-aligned starts, as after the step-align middleware
				in.Start = (in.Start / step) * step
				in.End = (in.End / step) * step
				if in.End < in.Start {
					in.End = in.Start
				}
			}
		case k < 7:
			in.Kind = "labels"
		case k < 8:
			in.Kind = "series"
		default:
			in.Kind = "align"
		}
		out = append(out, in)
	}
	return out
}

func main() {
	common.Main(common.Prop{ID: "C41", Facts: facts, Gen: gen, Run: run, QuickN: 600, ThoroughN: 6000,
		Preamble: "Open Scope Z_scope.\n"})
}
