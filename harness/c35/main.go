// C35: the shipper uploads every eligible block completely, at least once.
//
// One input is a scenario: fake local TSDB blocks (levels, empty/non-empty) and
// a sequence of Shipper.Sync calls - each with a fresh Shipper on the same
// directory and bucket, its own settings (upload-compacted, out-of-order,
// external labels, which block directories exist) and optionally one fault:
// a crash before bucket operation k (reads count; the goroutine is frozen inside
// the bucket call; k = number of operations means "died before the meta file was
// written") or a single failing bucket operation k.
package main

import (
	"context"
	"encoding/json"
	"fmt"
	"go/ast"
	"io"
	"math/rand"
	"os"
	"path/filepath"
	"strings"

	"github.com/go-kit/log"
	"github.com/prometheus/prometheus/model/labels"
	"github.com/thanos-io/objstore"

	"github.com/thanos-io/thanos/pkg/block"
	"github.com/thanos-io/thanos/pkg/block/metadata"
	"github.com/thanos-io/thanos/pkg/shipper"
	"github.com/thanos-io/thanos/zzverif/common"
	cu "github.com/thanos-io/thanos/zzverif/crashutil"
)

type syncIn struct {
	Present []int             `json:"present"`
	UC      bool              `json:"upload_compacted"`
	OOO     bool              `json:"allow_out_of_order"`
	Labels  map[string]string `json:"labels"`
	Crash   int               `json:"crash"` // -1 none
	Fail    int               `json:"fail"`  // -1 none
	Skip    bool              `json:"skip_corrupted,omitempty"`
	Corrupt []int             `json:"corrupt,omitempty"`            // present blocks whose local meta.json is unreadable
	Conc    int               `json:"upload_concurrency,omitempty"` // > 1: chunk files of a block go out concurrently
	// Fresh: a new process (new Shipper object) performs this sync. Otherwise the Shipper of the
	// previous sync is reused when that sync did not die and the settings are the same - its
	// external labels come from a callback (as in the sidecar) whose value has changed meanwhile.
	Fresh bool `json:"fresh,omitempty"`
}

type input struct {
	Blocks []cu.BlockSpec `json:"blocks"`
	Syncs  []syncIn       `json:"syncs"`
}

// ---- tie T ----

var skeletonCalls = map[string]bool{"ReadMetaFile": true, "s.blockMetasFromOldest": true, "append": true, "s.bucket.Exists": true,
	"checker.IsOverlapping": true, "s.upload": true, "WriteMetaFile": true}

func facts(repo string, w io.Writer) error {
	bs, err := common.ParseSrc(repo, "pkg/block/block.go")
	if err != nil {
		return err
	}
	l, err := cu.CallArgs(bs, "upload", map[string]int{"objstore.UploadDir": 4, "objstore.UploadFile": 4, "bkt.Upload": 1, "bkt.Delete": 1})
	if err != nil {
		return err
	}
	fmt.Fprintln(w, "(* pkg/block/block.go: upload — source-order bucket mutations (callee, object argument) *)")
	fmt.Fprint(w, cu.CallArgsCoq("upload_calls", l))
	ss, err := common.ParseSrc(repo, "pkg/shipper/shipper.go")
	if err != nil {
		return err
	}
	evs, err := ss.CallOrder("Shipper.Sync")
	if err != nil {
		return err
	}
	// control skeleton: if/else/endif/for/endfor/return events and the calls that matter; inside
	// deferred function literals nothing is kept
	var sk []common.Event
	depth := 0
	for _, e := range evs {
		switch e.Kind {
		case "defer":
			if e.Text == "funclit" {
				depth++
			}
			continue
		case "enddefer":
			depth--
			continue
		case "funclit":
			depth++
			continue
		case "endfunclit":
			depth--
			continue
		}
		if depth > 0 {
			continue
		}
		switch e.Kind {
		case "if", "else", "endif", "for", "endfor", "return":
			sk = append(sk, e)
		case "call":
			if skeletonCalls[e.Text] {
				sk = append(sk, e)
			}
		}
	}
	fmt.Fprintln(w, "(* pkg/shipper/shipper.go: Shipper.Sync — control skeleton (conditions, loops, returns, the calls that matter) *)")
	fmt.Fprint(w, common.EventsCoq("sync_skeleton", sk))
	ul, err := cu.CallArgs(ss, "Shipper.upload", map[string]int{"s.dir.RemoveAll": 0, "s.dir.MkdirAll": 0, "hardlinkBlock": 0, "meta.WriteToDir": 1, "block.Upload": 3, "s.labels": -1})
	if err != nil {
		return err
	}
	fmt.Fprintln(w, "(* pkg/shipper/shipper.go: Shipper.upload — source-order calls *)")
	fmt.Fprint(w, cu.CallArgsCoq("shipper_upload_calls", ul))
	// what New stores in Shipper.labels: the owner's callback itself (read at upload time), not a
	// value captured at construction
	nf, err := ss.FindFunc("New")
	if err != nil {
		return err
	}
	field := ""
	ast.Inspect(nf.Body, func(n ast.Node) bool {
		if kv, ok := n.(*ast.KeyValueExpr); ok {
			if id, ok := kv.Key.(*ast.Ident); ok && id.Name == "labels" {
				field = ss.ExprString(kv.Value)
			}
		}
		return true
	})
	if field == "" {
		return fmt.Errorf("srcfacts: shipper.New: the labels field of the Shipper literal was not found")
	}
	fmt.Fprintf(w, "(* pkg/shipper/shipper.go: New — the value stored in Shipper.labels *)\nDefinition new_labels_field : string := %s%%string.\n", common.CoqString(field))
	// ... and Shipper.upload reads it by calling it
	lr, err := ss.RHS("Shipper.upload", "lset")
	if err != nil {
		return err
	}
	fmt.Fprintf(w, "Definition upload_lset_rhs : string := %s%%string.\n", common.CoqString(ss.ExprString(lr)))
	return nil
}

// ---- running the real code ----

func readMetaFile(dir string, env *cu.Env) (string, []int, []byte) {
	b, err := os.ReadFile(filepath.Join(dir, shipper.DefaultMetaFilename))
	if err != nil {
		return common.None, nil, nil
	}
	m, err := shipper.ReadMetaFile(filepath.Join(dir, shipper.DefaultMetaFilename))
	if err != nil {
		return common.None, nil, b
	}
	var ids []string
	var nums []int
	for _, id := range m.Uploaded {
		k := env.ParseName(id.String() + "/meta.json")
		ids = append(ids, common.N(uint64(k.Block)))
		nums = append(nums, k.Block)
	}
	return common.Some(common.List(ids)), nums, b
}

func run(raw json.RawMessage) (common.Case, error) {
	var in input
	if err := json.Unmarshal(raw, &in); err != nil {
		return common.Case{}, err
	}
	var c common.Case
	tmp, err := os.MkdirTemp("", "c35-")
	if err != nil {
		return c, err
	}
	defer os.RemoveAll(tmp)
	env := cu.NewEnv()
	var univ, locals []string
	for i, s := range in.Blocks {
		env.AddBlock(cu.BlockULID(i), i)
		univ = append(univ, common.App("ublk", common.N(uint64(i)), env.BlkCoq(s)))
		lv := s.Level
		if lv == 0 {
			lv = 1
		}
		locals = append(locals, common.App("lblk", common.N(uint64(i)),
			common.App("mklinfo", common.Bool(s.NumSamples > 0), common.N(uint64(lv)), common.Z(s.MinTime), common.Z(s.MaxTime))))
	}
	inner := objstore.NewInMemBucket()
	ctx := context.Background()
	var teardown []func()
	defer func() {
		for _, f := range teardown {
			f()
		}
	}()
	var steps []string
	var obs []any
	crashes, fails, uploads, reused := 0, 0, 0, 0
	var curShipper *shipper.Shipper
	var curRB *cu.RecBucket
	var curKey string
	var curLabels labels.Labels
	var roots []*os.Root
	defer func() {
		for _, r := range roots {
			r.Close()
		}
	}()
	wasCorrupt := map[int]bool{}
	cfgs := map[string]bool{}
	for si, sy := range in.Syncs {
		// local directory contents
		want := map[int]bool{}
		for _, p := range sy.Present {
			if p < 0 || p >= len(in.Blocks) {
				return c, fmt.Errorf("sync %d: unknown block %d", si, p)
			}
			want[p] = true
		}
		corrupt := map[int]bool{}
		for _, p := range sy.Corrupt {
			if want[p] {
				corrupt[p] = true
			}
		}
		for i, s := range in.Blocks {
			d := filepath.Join(tmp, cu.BlockULID(i).String())
			_, err := os.Stat(d)
			if want[i] && (err != nil || wasCorrupt[i]) {
				os.RemoveAll(d)
				if _, err := cu.WriteBlock(tmp, i, s); err != nil {
					return c, err
				}
				wasCorrupt[i] = false
			}
			if want[i] && corrupt[i] {
				if err := os.WriteFile(filepath.Join(d, "meta.json"), []byte("{broken"), 0o640); err != nil {
					return c, err
				}
				wasCorrupt[i] = true
			}
			if !want[i] && err == nil {
				os.RemoveAll(d)
			}
		}
		_, mfBeforeNums, mfBeforeBytes := readMetaFile(tmp, env)
		optKey := fmt.Sprint(sy.UC, sy.OOO, sy.Skip, sy.Conc)
		if curShipper == nil || sy.Fresh || optKey != curKey {
			// a new process: it starts with the external labels of this sync; a reused Shipper sees
			// them change through its label callback (the owner reloaded its configuration)
			curLabels = labels.FromMap(sy.Labels)
			curRB = cu.NewRecBucket(inner)
			root, err := os.OpenRoot(tmp)
			if err != nil {
				return c, err
			}
			roots = append(roots, root)
			curShipper = shipper.New(curRB, root,
				shipper.WithLogger(log.NewNopLogger()),
				shipper.WithSource(metadata.TestSource),
				shipper.WithLabels(func() labels.Labels { return curLabels }),
				shipper.WithUploadCompacted(sy.UC),
				shipper.WithAllowOutOfOrderUploads(sy.OOO),
				shipper.WithSkipCorruptedBlocks(sy.Skip),
				shipper.WithUploadConcurrency(sy.Conc),
				shipper.WithHashFunc(metadata.NoneFunc))
			curKey = optKey
		} else {
			reused++
		}
		curLabels = labels.FromMap(sy.Labels) // the external labels current at this sync
		rb, sh := curRB, curShipper
		rb.Arm(sy.Crash, sy.Fail, true)
		rerr, crashed, wait := cu.RunAction(rb, func() error { _, err := sh.Sync(ctx); return err })
		teardown = append(teardown, func() { rb.Release(); wait() })
		if !crashed && sy.Crash >= 0 && sy.Crash == rb.Counted() {
			// died after the last bucket operation, before WriteMetaFile: put the old file back
			crashed = true
			curShipper = nil
			p := filepath.Join(tmp, shipper.DefaultMetaFilename)
			if mfBeforeBytes == nil {
				os.Remove(p)
			} else if err := os.WriteFile(p, mfBeforeBytes, 0o644); err != nil {
				return c, err
			}
		}
		all := rb.Ops()
		ops := cu.MutOps(all)
		if crashed {
			crashes++
			curShipper = nil // the process is dead: the next sync is a new one
		}
		for _, o := range all {
			if o.Err {
				fails++
			}
		}
		ret := !crashed && rerr == nil
		mfAfter, mfAfterNums, _ := readMetaFile(tmp, env)

		var cids, opsC, snapsC, opNames []string
		// per attempted upload (in order): the order in which its chunk files went out; what a
		// crash cut off follows in directory order
		var attempt []int
		chunkOrder := map[int][]uint64{}
		for _, o := range ops {
			k := env.ParseName(o.Name)
			if _, ok := chunkOrder[k.Block]; !ok {
				attempt = append(attempt, k.Block)
				chunkOrder[k.Block] = nil
			}
			if k.File.Kind == "chunk" {
				chunkOrder[k.Block] = append(chunkOrder[k.Block], k.File.N)
			}
		}
		var orders []string
		for _, bn := range attempt {
			seen := map[uint64]bool{}
			var l []string
			for _, n := range chunkOrder[bn] {
				l = append(l, common.N(n))
				seen[n] = true
			}
			for j := range in.Blocks[bn].Chunks {
				if !seen[uint64(j+1)] {
					l = append(l, common.N(uint64(j+1)))
				}
			}
			orders = append(orders, common.List(l))
		}
		for _, o := range ops {
			k := env.ParseName(o.Name)
			if k.File.Kind == "meta" && o.Kind == "upload" {
				cids = append(cids, common.N(uint64(env.Cid(o.Body))))
				uploads++
			}
			opsC = append(opsC, env.OpCoq(o))
			snapsC = append(snapsC, env.BucketCoq(o.Snap))
			opNames = append(opNames, o.Kind+" "+o.Name)
			if p := cu.MetaProblem(o.Snap); p != "" && c.GoPred == "" {
				c.GoPred = fmt.Sprintf("sync %d after %q: %s", si, o.Kind+" "+o.Name, p)
				c.Sig = "visible-incomplete"
			}
			if k.File.Kind == "meta" && o.Kind == "upload" && c.GoPred == "" {
				var m metadata.Meta
				if json.Unmarshal(o.Body, &m) != nil || env.Lbl(m.Thanos.Labels) != env.Lbl(sy.Labels) {
					c.GoPred = fmt.Sprintf("sync %d uploaded %s with external labels %v, the labels current at this sync are %v", si, o.Name, m.Thanos.Labels, sy.Labels)
					c.Sig = "stale-external-labels"
				}
			}
		}
		post := inner.Objects()
		inList := func(l []int, x int) bool {
			for _, y := range l {
				if x == y {
					return true
				}
			}
			return false
		}
		if ret && c.GoPred == "" {
			for _, p := range sy.Present {
				s := in.Blocks[p]
				elig := s.NumSamples > 0 && (s.Level <= 1 || sy.UC)
				if _, ok := post[cu.BlockULID(p).String()+"/"+block.MetaFilename]; elig && !ok && !inList(mfBeforeNums, p) {
					c.GoPred = fmt.Sprintf("sync %d returned nil but eligible block %d is not in the bucket", si, p)
					c.Sig = "eligible-not-uploaded"
				}
			}
		}
		if !ret && !crashed && sy.Crash < 0 && sy.Fail < 0 && len(sy.Labels) > 0 && len(corrupt) == 0 && c.GoPred == "" {
			// an undisturbed sync failed: a compacted block must be blocked by an overlap in the bucket
			type rg struct{ a, b int64 }
			var vis []rg
			for n, body := range post {
				if !strings.HasSuffix(n, "/"+block.MetaFilename) {
					continue
				}
				var m metadata.Meta
				if json.Unmarshal(body, &m) != nil || env.Lbl(m.Thanos.Labels) != env.Lbl(sy.Labels) {
					continue
				}
				vis = append(vis, rg{m.MinTime, m.MaxTime})
			}
			meet := func(x, y rg) bool { return x.a < y.b && y.a < x.b }
			reason := false
			for _, p := range sy.Present {
				s := in.Blocks[p]
				if _, ok := post[cu.BlockULID(p).String()+"/"+block.MetaFilename]; ok || s.NumSamples == 0 || s.Level <= 1 || !sy.UC || sy.OOO {
					continue
				}
				all := append([]rg{{s.MinTime, s.MaxTime}}, vis...)
				for i := range all {
					for j := i + 1; j < len(all); j++ {
						if meet(all[i], all[j]) {
							reason = true
						}
					}
				}
			}
			if !reason {
				c.GoPred = fmt.Sprintf("sync %d had no fault and returned an error (%v) although no compacted block overlaps anything in the bucket", si, rerr)
				c.Sig = "sync-wedged"
			}
		}
		if c.GoPred == "" {
			for _, p := range mfAfterNums {
				if _, ok := post[cu.BlockULID(p).String()+"/"+block.MetaFilename]; !ok && !inList(mfBeforeNums, p) {
					c.GoPred = fmt.Sprintf("sync %d recorded block %d as uploaded; it is not in the bucket and was not recorded before", si, p)
					c.Sig = "recorded-not-uploaded"
				}
			}
		}
		// configuration term
		var present []string
		for _, p := range sy.Present {
			present = append(present, common.N(uint64(p)))
		}
		lbl := common.None
		if len(sy.Labels) > 0 {
			lbl = common.Some(common.N(uint64(env.Lbl(sy.Labels))))
		}
		fault := "NoFault"
		if sy.Crash >= 0 {
			fault = common.App("CrashAt", common.Nat(sy.Crash))
		} else if sy.Fail >= 0 {
			fault = common.App("FailAt", common.Nat(sy.Fail))
		}
		var corr []string
		for _, p := range sy.Corrupt {
			if want[p] {
				corr = append(corr, common.N(uint64(p)))
			}
		}
		cfg := common.App("mkcfg", common.List(present), common.Bool(sy.UC), common.Bool(sy.OOO), lbl, fault, common.List(cids),
			common.Bool(sy.Skip), common.List(corr), common.Bool(sy.Conc > 1), common.List(orders))
		steps = append(steps, common.App("mkstep", cfg, common.Bool(ret), common.List(opsC), common.List(snapsC), mfAfter))
		obs = append(obs, map[string]any{"sync": si, "crashed": crashed, "returned_nil": ret, "ops": opNames, "meta_file": mfAfterNums, "bucket_ops_total": rb.Counted(), "labels": sy.Labels, "shipper_objects_reused_so_far": reused})
		cfgs[fmt.Sprintf("uc=%v,ooo=%v", sy.UC, sy.OOO)] = true
	}
	c.Coq = common.App("CSync", common.List(univ), common.List(locals), common.List(steps))
	var cl []string
	for _, k := range []string{"uc=false,ooo=false", "uc=false,ooo=true", "uc=true,ooo=true", "uc=true,ooo=false"} {
		if cfgs[k] {
			cl = append(cl, k)
		}
	}
	c.Class = strings.Join(cl, " ")
	if crashes > 0 {
		c.Class += " crash"
	}
	if fails > 0 {
		c.Class += " fail"
	}
	c.Nontrivial = (crashes+fails) >= 1 && uploads >= 1
	c.Obs = obs
	return c, nil
}

// ---- generator ----

func gen(r *rand.Rand, tier string, n int) []any {
	var out []any
	maxBlocks, maxSyncs := 4, 5
	if tier == "thorough" {
		maxBlocks, maxSyncs = 7, 9
	}
	for i := 0; i < n; i++ {
		var in input
		nb := 1 + r.Intn(maxBlocks)
		perm := r.Perm(nb) // distinct min times, not in id order
		for b := 0; b < nb; b++ {
			s := cu.BlockSpec{Index: common.Between(r, 1, 30), NumSamples: 10, Level: 1, MinTime: int64(perm[b]) * 1000, MaxTime: int64(perm[b])*1000 + 1000}
			if r.Intn(6) == 0 {
				s.NumSamples = 0
			}
			if r.Intn(4) == 0 {
				s.Level = 2 + r.Intn(2)
				if r.Intn(3) == 0 { // a locally compacted block reaching into the next slot
					s.MaxTime += 1000
				}
			}
			nc := 1 + r.Intn(3)
			for j := 0; j < nc; j++ {
				s.Chunks = append(s.Chunks, common.Between(r, 0, 30))
			}
			in.Blocks = append(in.Blocks, s)
		}
		ns := 1 + r.Intn(maxSyncs)
		lbls := map[string]string{"replica": "a"}
		present := map[int]bool{}
		for b := 0; b < nb; b++ {
			if r.Intn(3) > 0 {
				present[b] = true
			}
		}
		var uc, ooo bool
		switch r.Intn(4) {
		case 1:
			ooo = true
		case 2:
			uc, ooo = true, true
		case 3:
			uc = true
		}
		for s := 0; s < ns; s++ {
			// the TSDB directory evolves: new blocks appear, old ones are removed
			for b := 0; b < nb; b++ {
				if !present[b] && r.Intn(3) == 0 {
					present[b] = true
				} else if present[b] && r.Intn(10) == 0 {
					delete(present, b)
				}
			}
			if r.Intn(8) == 0 {
				switch r.Intn(4) {
				case 0:
					uc, ooo = false, false
				case 1:
					uc, ooo = false, true
				case 2:
					uc, ooo = true, true
				case 3:
					uc, ooo = true, false
				}
			}
			if r.Intn(4) == 0 {
				lbls = map[string]string{"replica": common.Pick(r, "a", "b", "c")}
			}
			sy := syncIn{UC: uc, OOO: ooo, Labels: lbls, Crash: -1, Fail: -1, Fresh: r.Intn(3) == 0}
			if r.Intn(25) == 0 {
				sy.Labels = map[string]string{}
			}
			for b := 0; b < nb; b++ {
				if present[b] {
					sy.Present = append(sy.Present, b)
				}
			}
			r.Shuffle(len(sy.Present), func(a, b int) { sy.Present[a], sy.Present[b] = sy.Present[b], sy.Present[a] })
			if r.Intn(4) == 0 {
				sy.Conc = 2 + r.Intn(3)
			}
			switch k := r.Intn(10); {
			case k < 4:
				sy.Crash = r.Intn(4 + 4*len(sy.Present))
			case k < 6 && sy.Conc <= 1:
				sy.Fail = r.Intn(4 + 4*len(sy.Present))
			}
			if r.Intn(8) == 0 && len(sy.Present) > 0 {
				sy.Corrupt = []int{sy.Present[r.Intn(len(sy.Present))]}
				sy.Skip = r.Intn(3) > 0
			}
			in.Syncs = append(in.Syncs, sy)
		}
		// usually end with an undisturbed sync
		if r.Intn(4) > 0 {
			last := in.Syncs[len(in.Syncs)-1]
			last.Crash, last.Fail = -1, -1
			in.Syncs = append(in.Syncs, last)
		}
		out = append(out, in)
	}
	return out
}

func main() {
	common.Main(common.Prop{ID: "C35", Facts: facts, Gen: gen, Run: run, QuickN: 200, ThoroughN: 4000,
		Preamble: "From Verif Require Import Lib.Crash_Store Lib.Crash_Block.\nImport C35.\n"})
}
