// C22: an acknowledged remote write reached quorum for every series.
package main

import (
	"encoding/json"
	"fmt"
	"io"
	"math/rand"

	"github.com/thanos-io/thanos/zzverif/common"
	ru "github.com/thanos-io/thanos/zzverif/receiveutil"
)

func facts(repo string, w io.Writer) error {
	s, err := common.ParseSrc(repo, "pkg/receive/handler.go")
	if err != nil {
		return err
	}
	if err := ru.QuorumFacts(s, w); err != nil {
		return err
	}
	return ru.SendFacts(s, w)
}

func quorum(rf, replica int) (nrep, q int) {
	if replica != 0 {
		return 1, 1
	}
	if rf == 2 {
		return rf, 1
	}
	return rf, rf/2 + 1
}

func natList(xs []int) string {
	s := make([]string, len(xs))
	for i, x := range xs {
		s[i] = common.Nat(x)
	}
	return common.List(s)
}

func run(raw json.RawMessage) (common.Case, error) {
	var in ru.FanoutInput
	if err := json.Unmarshal(raw, &in); err != nil {
		return common.Case{}, err
	}
	res, err := ru.RunFanout(&in)
	if err != nil {
		return common.Case{}, err
	}
	var c common.Case
	var place, writes, ids []string
	for _, p := range in.Place {
		place = append(place, natList(p))
	}
	anyFail := false
	released := make([]ru.Write, 0, len(res.Order))
	for _, i := range res.Order {
		released = append(released, in.Writes[i])
	}
	for _, w := range released {
		writes = append(writes, common.Tuple(common.Nat(w.Node), common.Nat(w.Rep), ru.KindCoq(w.Kind)))
		anyFail = anyFail || w.Kind != "ok"
	}
	for _, x := range res.IDs {
		ids = append(ids, natList(x))
	}
	var nresp []int
	for _, i := range res.Order {
		nresp = append(nresp, res.Responses[i])
	}
	var hung []string
	for _, i := range res.HungWrites {
		hung = append(hung, common.Pair(common.Nat(in.Writes[i].Node), common.Nat(in.Writes[i].Rep)))
		if res.Responses[i] != 0 && c.GoPred == "" {
			c.GoPred = fmt.Sprintf("a peer that never answered is recorded with %d responses", res.Responses[i])
			c.Sig = "response-from-hung-peer"
		}
	}
	c.Coq = common.App("CAck", common.Z(int64(in.RF)), common.Z(int64(in.Replica)), common.List(place), common.List(writes), common.List(hung),
		common.List(ids), natList(nresp), common.Z(int64(res.Status)), common.Nat(res.DeliveredAtReturn))
	c.Obs = res
	c.Class = fmt.Sprintf("rf%d/series%d", in.RF, len(in.Place))
	if in.Replica != 0 {
		c.Class = "replicated/" + c.Class
	}
	c.Nontrivial = anyFail && len(in.Writes) > 1

	// Go-side predicate: acknowledged => every series has >= quorum successful
	// writes among the responses delivered before the handler returned.
	if res.Status == 200 && in.Replica <= in.RF {
		_, q := quorum(in.RF, in.Replica)
		for s, p := range in.Place {
			ok := 0
			for k, w := range released {
				if k < res.DeliveredAtReturn && w.Kind == "ok" && p[w.Rep] == w.Node {
					ok++
				}
			}
			if ok < q {
				c.GoPred = fmt.Sprintf("acknowledged although series %d was stored on %d replica(s) only, quorum is %d", s, ok, q)
				c.Sig = "ack-without-quorum"
				break
			}
		}
	}
	for i, n := range res.Responses {
		if in.Writes[i].Kind == "hang" {
			continue
		}
		if n != 1 && c.GoPred == "" {
			c.GoPred = fmt.Sprintf("write (node %d, replica %d) produced %d responses, want exactly one", in.Writes[i].Node, in.Writes[i].Rep, n)
			c.Sig = "not-one-response"
		}
	}
	if in.Workers > 0 {
		c.Class = "saturated-pool/" + c.Class
	}
	if len(res.HungWrites) > 0 {
		c.Class = "hung-peers/" + c.Class
	}
	if res.Hung {
		c.GoPred = "the request was never answered although every forwarded write had responded (response channel never closed?)"
		c.Sig = "no-answer"
	}
	return c, nil
}

func writesFor(in *ru.FanoutInput) []ru.Write {
	var ws []ru.Write
	seen := map[[2]int]bool{}
	for _, p := range in.Place {
		for r := 0; r < in.RF; r++ {
			if in.Replica != 0 && r != in.Replica-1 {
				continue
			}
			k := [2]int{p[r], r}
			if !seen[k] {
				seen[k] = true
				ws = append(ws, ru.Write{Node: p[r], Rep: r})
			}
		}
	}
	return ws
}

// hung-peer schedules that are always run
var hangFixed = []ru.FanoutInput{
	{RF: 3, Place: [][]int{{0, 1, 2}}, Writes: []ru.Write{{Node: 0, Rep: 0, Kind: "ok"}, {Node: 1, Rep: 1, Kind: "hang"}, {Node: 2, Rep: 2, Kind: "hang"}}},
	{RF: 3, Place: [][]int{{0, 1, 2}}, Writes: []ru.Write{{Node: 0, Rep: 0, Kind: "hang"}, {Node: 1, Rep: 1, Kind: "hang"}, {Node: 2, Rep: 2, Kind: "hang"}}},
	{RF: 3, Place: [][]int{{0, 1, 2}}, Writes: []ru.Write{{Node: 0, Rep: 0, Kind: "ok"}, {Node: 1, Rep: 1, Kind: "ok"}, {Node: 2, Rep: 2, Kind: "hang"}}},
	{RF: 1, Place: [][]int{{0}}, Writes: []ru.Write{{Node: 0, Rep: 0, Kind: "hang"}}},
	{RF: 2, Place: [][]int{{0, 1}, {1, 0}}, Writes: []ru.Write{{Node: 0, Rep: 0, Kind: "ok"}, {Node: 1, Rep: 1, Kind: "hang"}, {Node: 1, Rep: 0, Kind: "hang"}, {Node: 0, Rep: 1, Kind: "conflict"}}},
	{RF: 5, Place: [][]int{{0, 1, 2, 3, 4}}, Writes: []ru.Write{{Node: 0, Rep: 0, Kind: "ok"}, {Node: 1, Rep: 1, Kind: "conflict"}, {Node: 2, Rep: 2, Kind: "ok"}, {Node: 3, Rep: 3, Kind: "hang"}, {Node: 4, Rep: 4, Kind: "hang"}}},
}

func gen(r *rand.Rand, tier string, n int) []any {
	var out []any
	// all ordered outcome sequences over {ok, conflict, unavail}, one series
	maxAll := 4
	if tier == "thorough" {
		maxAll = 5
	}
	three := []string{"ok", "conflict", "unavail"}
	for rf := 1; rf <= maxAll; rf++ {
		total := 1
		for i := 0; i < rf; i++ {
			total *= 3
		}
		for code := 0; code < total; code++ {
			in := ru.FanoutInput{RF: rf}
			row := make([]int, rf)
			for i := range row {
				row[i] = i
			}
			in.Place = [][]int{row}
			perm := r.Perm(rf)
			c := code
			for i := 0; i < rf; i++ {
				in.Writes = append(in.Writes, ru.Write{Node: perm[i], Rep: perm[i], Kind: three[c%3]})
				c /= 3
			}
			out = append(out, in)
		}
	}
	maxRF, maxSeries := 5, 4
	if tier == "thorough" {
		maxRF, maxSeries = 7, 6
	}
	for i := 0; i < n; i++ {
		rf := 1 + r.Intn(maxRF)
		in := ru.FanoutInput{RF: rf}
		nodes := rf + r.Intn(3)
		ns := 1 + r.Intn(maxSeries)
		for s := 0; s < ns; s++ {
			row := r.Perm(nodes)[:rf]
			if r.Intn(12) == 0 {
				for j := range row {
					row[j] = r.Intn(nodes)
				}
			}
			in.Place = append(in.Place, row)
		}
		switch k := r.Intn(20); {
		case k == 0:
			in.Replica = rf + 1
		case k <= 3:
			in.Replica = 1 + r.Intn(rf)
		}
		ws := writesFor(&in)
		if in.Replica > rf {
			ws = nil
		}
		r.Shuffle(len(ws), func(a, b int) { ws[a], ws[b] = ws[b], ws[a] })
		// mostly-successful outcomes so that acks near the quorum boundary are common
		pOK := 40 + r.Intn(55)
		bad := []string{"conflict", "conflict_local", "unavail", "unavail_sent", "notready", "other"}
		for j := range ws {
			if r.Intn(100) < pOK {
				ws[j].Kind = "ok"
			} else {
				ws[j].Kind = bad[r.Intn(len(bad))]
			}
		}
		in.Writes = ws
		out = append(out, in)
	}
	// hung peers: some replicas never answer, so the forward timeout (ctx.Done)
	// ends the response loop unless the answered ones already decide every series
	nh := n / 12
	if tier == "thorough" {
		nh = n / 40
	}
	for i := 0; i < nh+len(hangFixed); i++ {
		var in ru.FanoutInput
		if i < len(hangFixed) {
			in = hangFixed[i]
		} else {
			rf := 1 + r.Intn(5)
			in = ru.FanoutInput{RF: rf}
			nodes := rf + r.Intn(2)
			for s := 0; s < 1+r.Intn(3); s++ {
				in.Place = append(in.Place, r.Perm(nodes)[:rf])
			}
			ws := writesFor(&in)
			r.Shuffle(len(ws), func(a, b int) { ws[a], ws[b] = ws[b], ws[a] })
			ph := 20 + r.Intn(60)
			any := false
			for j := range ws {
				switch x := r.Intn(100); {
				case x < ph:
					ws[j].Kind, any = "hang", true
				case x < ph+(100-ph)*2/3:
					ws[j].Kind = "ok"
				default:
					ws[j].Kind = common.Pick(r, "conflict", "unavail", "other")
				}
			}
			if !any {
				ws[r.Intn(len(ws))].Kind = "hang"
			}
			in.Writes = ws
		}
		out = append(out, in)
	}
	// saturated worker pools: few nodes, several replicas of different series on
	// the same node, one worker per peer, so that sendWrites' non-blocking first
	// pass rejects some writes and the blocking second pass has to deliver them
	for i := 0; i < n/5; i++ {
		rf := 3 + r.Intn(3)
		in := ru.FanoutInput{RF: rf, Workers: 1}
		nodes := 1 + r.Intn(2)
		for s := 0; s < 2+r.Intn(3); s++ {
			row := make([]int, rf)
			for j := range row {
				row[j] = r.Intn(nodes)
			}
			in.Place = append(in.Place, row)
		}
		ws := writesFor(&in)
		r.Shuffle(len(ws), func(a, b int) { ws[a], ws[b] = ws[b], ws[a] })
		for j := range ws {
			ws[j].Kind = common.Pick(r, "ok", "ok", "ok", "conflict", "unavail", "other")
		}
		in.Writes = ws
		out = append(out, in)
	}
	return out
}

func main() {
	common.Main(common.Prop{ID: "C22", Facts: facts, Gen: gen, Run: run, QuickN: 500, ThoroughN: 6000,
		Preamble: "Open Scope Z_scope.\n"})
}
