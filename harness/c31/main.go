// C31: only blocks fully covered by another block are hidden as duplicates.
package main

import (
	"context"
	"encoding/json"
	"fmt"
	"go/ast"
	"go/parser"
	"io"
	"strings"
	"math/big"
	"math/rand"
	"sort"

	"github.com/oklog/ulid/v2"
	"github.com/prometheus/client_golang/prometheus"

	"github.com/thanos-io/thanos/pkg/block"
	"github.com/thanos-io/thanos/pkg/block/metadata"
	"github.com/thanos-io/thanos/pkg/extprom"
	"github.com/thanos-io/thanos/zzverif/common"
)

// uid is a ULID given by its 48-bit time and the last two entropy bytes.
type uid struct {
	T uint64 `json:"t"`
	E uint16 `json:"e"`
}

type blk struct {
	ID      uid   `json:"id"`
	Res     int64 `json:"res"`
	Label   int   `json:"label"` // external label set number
	Level   int   `json:"level,omitempty"` // Compaction.Level
	Sources []uid `json:"sources"`
}

type input struct {
	Blocks []blk `json:"blocks"`
	Conc   []int `json:"conc"` // one filter instance per entry
	// Steps: successive Filter calls (syncs) on the SAME filter instance; each step lists the
	// indices of the blocks present at that sync.  Absent = one call with all blocks.
	Steps [][]int `json:"steps,omitempty"`
}

func (u uid) ulid() ulid.ULID {
	var x ulid.ULID
	if err := x.SetTime(u.T); err != nil {
		panic(err)
	}
	x[14], x[15] = byte(u.E>>8), byte(u.E)
	return x
}

func zOf(u ulid.ULID) string {
	return new(big.Int).SetBytes(u[:]).String() + "%Z"
}

func zList(us []ulid.ULID) string {
	s := make([]string, len(us))
	for i, u := range us {
		s[i] = zOf(u)
	}
	return common.List(s)
}

func sortULIDs(us []ulid.ULID) {
	sort.Slice(us, func(i, j int) bool { return us[i].Compare(us[j]) < 0 })
}

// tie T: the decisions of the sort.Slice comparator in filterGroup
func facts(repo string, w io.Writer) error {
	s, err := common.ParseSrc(repo, "pkg/block/fetcher.go")
	if err != nil {
		return err
	}
	fd, err := s.FindFunc("DefaultDeduplicateFilter.filterGroup")
	if err != nil {
		return err
	}
	var rets []*ast.ReturnStmt
	var ifs []*ast.IfStmt
	ast.Inspect(fd.Body, func(n ast.Node) bool {
		switch x := n.(type) {
		case *ast.ReturnStmt:
			if len(x.Results) == 1 {
				rets = append(rets, x)
			}
		case *ast.IfStmt:
			// the comparator's ifs are those whose body ends in a return
			if x.Else == nil && len(x.Body.List) > 0 {
				if _, ok := x.Body.List[len(x.Body.List)-1].(*ast.ReturnStmt); ok {
					ifs = append(ifs, x)
				}
			}
		}
		return true
	})
	const call = "metaSlice[i].ULID.Compare(metaSlice[j].ULID)"
	var ulidE, lenE, lvlE, tieE, lvlCond string
	for _, r := range rets {
		txt := s.ExprString(r.Results[0])
		switch {
		case strings.Contains(txt, call):
			e, err := parser.ParseExpr(strings.ReplaceAll(txt, call, "cmp"))
			if err != nil {
				return err
			}
			if ulidE, err = s.TranslateExpr(e, nil, nil); err != nil {
				return err
			}
		case strings.Contains(txt, "ilvl"):
			if lvlE, err = s.TranslateExpr(r.Results[0], nil, nil); err != nil {
				return err
			}
		case strings.Contains(txt, "ilen"):
			if lenE, err = s.TranslateExpr(r.Results[0], nil, nil); err != nil {
				return err
			}
		default:
			return fmt.Errorf("srcfacts: filterGroup: unexpected return in the comparator: %s", txt)
		}
	}
	for _, is := range ifs {
		txt := s.ExprString(is.Cond)
		switch {
		case strings.Contains(txt, "ilen"):
			if tieE, err = s.TranslateExpr(is.Cond, nil, nil); err != nil {
				return err
			}
		case strings.Contains(txt, "ilvl"):
			if lvlCond, err = s.TranslateExpr(is.Cond, nil, nil); err != nil {
				return err
			}
		default:
			return fmt.Errorf("srcfacts: filterGroup: unexpected if in the comparator: %s", txt)
		}
	}
	if ulidE == "" || lenE == "" || tieE == "" || (lvlE == "") != (lvlCond == "") {
		return fmt.Errorf("srcfacts: filterGroup: comparator shape not recognised (ulid=%q len=%q tie=%q level=%q/%q)", ulidE, lenE, tieE, lvlCond, lvlE)
	}
	if lvlE != "" {
		// the level test must sit inside the tie branch, before the ULID comparison
		okShape := false
		for _, is := range ifs {
			if strings.Contains(s.ExprString(is.Cond), "ilen") {
				for _, st := range is.Body.List {
					if in, ok := st.(*ast.IfStmt); ok && strings.Contains(s.ExprString(in.Cond), "ilvl") {
						okShape = true
					}
				}
			}
		}
		if !okShape {
			return fmt.Errorf("srcfacts: filterGroup: the compaction-level test is not inside the equal-source-count branch")
		}
	}
	fmt.Fprintln(w, "(* pkg/block/fetcher.go filterGroup comparator, equal source counts: cmp = ULID_i.Compare(ULID_j) *)")
	fmt.Fprintf(w, "Definition filterGroup_ulid_first (cmp : Z) : bool :=\n  %s.\n", ulidE)
	fmt.Fprintln(w, "(* filterGroup comparator, different source counts *)")
	fmt.Fprintf(w, "Definition filterGroup_len_first (ilen jlen : Z) : bool :=\n  %s.\n", lenE)
	fmt.Fprintln(w, "(* filterGroup comparator: when the tie-breaks apply *)")
	fmt.Fprintf(w, "Definition filterGroup_tie (ilen jlen : Z) : bool :=\n  %s.\n", tieE)
	if lvlE == "" {
		lvlCond, lvlE = "false", "false"
		fmt.Fprintln(w, "(* filterGroup comparator: no compaction-level tie-break in this source tree *)")
	} else {
		fmt.Fprintln(w, "(* filterGroup comparator, equal source counts: the compaction levels decide when they differ *)")
	}
	fmt.Fprintf(w, "Definition filterGroup_level_differs (ilvl jlvl : Z) : bool :=\n  %s.\n", lvlCond)
	fmt.Fprintf(w, "Definition filterGroup_level_first (ilvl jlvl : Z) : bool :=\n  %s.\n", lvlE)

	// Filter / filterGroup use the receiver only for: f.concurrency (read), f.mu.Lock/Unlock,
	// f.filterGroup(...) and the assignment f.duplicateIDs = ... (the result slot): nothing
	// written by a previous call is read.
	stateless := true
	why := ""
	for _, fn := range []string{"DefaultDeduplicateFilter.Filter", "DefaultDeduplicateFilter.filterGroup"} {
		d, err := s.FindFunc(fn)
		if err != nil {
			return err
		}
		recv := d.Recv.List[0].Names[0].Name
		lhs := map[ast.Node]bool{}
		ast.Inspect(d.Body, func(n ast.Node) bool {
			if as, ok := n.(*ast.AssignStmt); ok {
				for _, l := range as.Lhs {
					lhs[l] = true
				}
			}
			return true
		})
		ast.Inspect(d.Body, func(n ast.Node) bool {
			se, ok := n.(*ast.SelectorExpr)
			if !ok {
				return true
			}
			id, ok := se.X.(*ast.Ident)
			if !ok || id.Name != recv {
				return true
			}
			switch se.Sel.Name {
			case "concurrency", "mu", "filterGroup":
			case "duplicateIDs":
				if !lhs[se] {
					stateless, why = false, fn+" reads "+recv+".duplicateIDs"
				}
			default:
				stateless, why = false, fn+" uses "+recv+"."+se.Sel.Name
			}
			return true
		})
	}
	fmt.Fprintln(w, "(* Filter and filterGroup read nothing a previous call wrote: the receiver is used only for concurrency, the mutex,")
	fmt.Fprintf(w, "   filterGroup and the assignment of the result slot duplicateIDs%s *)\n", map[bool]string{true: "", false: " -- VIOLATED: " + why}[stateless])
	fmt.Fprintf(w, "Definition filter_reads_no_previous_result : bool := %v.\n", stateless)
	return nil
}

func run(raw json.RawMessage) (common.Case, error) {
	var in input
	if err := json.Unmarshal(raw, &in); err != nil {
		return common.Case{}, err
	}
	var c common.Case
	steps := in.Steps
	if len(steps) == 0 {
		all := make([]int, len(in.Blocks))
		for i := range all {
			all[i] = i
		}
		steps = [][]int{all}
	}
	build := func(idx []int) map[ulid.ULID]*metadata.Meta {
		metas := map[ulid.ULID]*metadata.Meta{}
		for _, i := range idx {
			b := in.Blocks[i]
			m := &metadata.Meta{}
			m.Version = 1
			m.ULID = b.ID.ulid()
			m.Thanos.Downsample.Resolution = b.Res
			m.Compaction.Level = b.Level
			m.Thanos.Labels = map[string]string{"cluster": fmt.Sprintf("c%d", b.Label)}
			for _, s := range b.Sources {
				m.Compaction.Sources = append(m.Compaction.Sources, s.ulid())
			}
			metas[m.ULID] = m
		}
		return metas
	}
	// blocks as Coq terms, group keys numbered in order of first appearance
	keys := map[string]int64{}
	var bs []string
	seen := map[ulid.ULID]bool{}
	for _, b := range in.Blocks {
		id := b.ID.ulid()
		if seen[id] {
			return c, fmt.Errorf("duplicate block id in input (the filter works on a map)")
		}
		seen[id] = true
		th := metadata.Thanos{Labels: map[string]string{"cluster": fmt.Sprintf("c%d", b.Label)}}
		th.Downsample.Resolution = b.Res
		k := th.GroupKey()
		if _, ok := keys[k]; !ok {
			keys[k] = int64(len(keys))
		}
		var ss []ulid.ULID
		for _, s := range b.Sources {
			ss = append(ss, s.ulid())
		}
		bs = append(bs, common.App("mk_blk", zOf(id), common.Z(keys[k]), zList(ss), common.Z(int64(b.Level))))
	}
	for _, st := range steps {
		for _, i := range st {
			if i < 0 || i >= len(in.Blocks) {
				return c, fmt.Errorf("step refers to block %d of %d", i, len(in.Blocks))
			}
		}
	}
	type res struct {
		Step int      `json:"step"`
		Conc int      `json:"conc"`
		Kept []string `json:"kept"`
		Dups []string `json:"dups"`
	}
	var obs []res
	runsOf := make([][]string, len(steps)) // per step: one run per filter instance
	firstOf := make([]*res, len(steps))
	maxDups := 0
	for _, conc := range in.Conc {
		f := block.NewDeduplicateFilter(conc) // one long-lived instance, one Filter call per sync
		for si, st := range steps {
			metas := build(st)
			g := extprom.NewTxGaugeVec(nil, prometheus.GaugeOpts{}, []string{"state"})
			if err := f.Filter(context.Background(), metas, g, g); err != nil {
				return c, err
			}
			var kept []ulid.ULID
			for id := range metas {
				kept = append(kept, id)
			}
			dups := append([]ulid.ULID{}, f.DuplicateIDs()...)
			sortULIDs(kept)
			sortULIDs(dups)
			r := res{Step: si, Conc: conc}
			for _, u := range kept {
				r.Kept = append(r.Kept, u.String())
			}
			for _, u := range dups {
				r.Dups = append(r.Dups, u.String())
			}
			if len(obs) < 12 {
				obs = append(obs, r)
			}
			if len(dups) > maxDups {
				maxDups = len(dups)
			}
			runsOf[si] = append(runsOf[si], common.Tuple(common.Z(int64(conc)), zList(kept), zList(dups)))
			if firstOf[si] == nil {
				firstOf[si] = &r
			} else if fmt.Sprint(firstOf[si].Kept, firstOf[si].Dups) != fmt.Sprint(r.Kept, r.Dups) && c.GoPred == "" {
				c.GoPred, c.Sig = "the outcome differs between two runs (listing order / concurrency)", "order-dependent"
			}
			// Go-side check of "hidden only if a kept block of the same group has all its sources"
			if c.GoPred == "" {
				keptSet := map[ulid.ULID]bool{}
				for _, u := range kept {
					keptSet[u] = true
				}
				by := map[ulid.ULID]blk{}
				for _, i := range st {
					by[in.Blocks[i].ID.ulid()] = in.Blocks[i]
				}
				for _, d := range dups {
					hb := by[d]
					covered := false
					for u := range keptSet {
						kb := by[u]
						if kb.Label != hb.Label || kb.Res != hb.Res {
							continue
						}
						have := map[uid]bool{}
						for _, s := range kb.Sources {
							have[s] = true
						}
						ok := true
						for _, s := range hb.Sources {
							if !have[s] {
								ok = false
							}
						}
						if ok {
							covered = true
						}
					}
					if !covered {
						c.GoPred = fmt.Sprintf("sync %d: block %s is hidden as duplicate but no kept block of its group was built from all its sources", si+1, d)
						c.Sig = "hidden-not-covered"
					}
				}
			}
		}
	}
	c.Obs = obs
	c.Class = fmt.Sprintf("syncs=%d/groups=%d/dups=%d", len(steps), min(len(keys), 4), min(maxDups, 5))
	c.Nontrivial = maxDups > 0
	if len(in.Steps) == 0 {
		c.Coq = common.App("CDedup", common.List(bs), common.List(runsOf[0]))
		return c, nil
	}
	var sts []string
	for si, st := range steps {
		var l []string
		for _, i := range st {
			l = append(l, bs[i])
		}
		sts = append(sts, common.Pair(common.List(l), common.List(runsOf[si])))
	}
	c.Coq = common.App("CHistory", common.List(sts))
	return c, nil
}

func gen(r *rand.Rand, tier string, n int) []any {
	var out []any
	maxB := 14
	if tier == "thorough" {
		maxB = 40
	}
	for i := 0; i < n; i++ {
		var in input
		nb := r.Intn(maxB + 1)
		nsrc := 2 + r.Intn(10)
		// pool of source ULIDs; some share the time part and differ in entropy only
		pool := make([]uid, nsrc)
		for j := range pool {
			pool[j] = uid{T: uint64(1 + r.Intn(6)), E: uint16(r.Intn(4))}
			if r.Intn(2) == 0 {
				pool[j] = uid{T: uint64(100 + j), E: 0}
			}
		}
		used := map[uid]bool{}
		ngroups := 1 + r.Intn(3)
		for len(in.Blocks) < nb {
			var b blk
			b.ID = uid{T: uint64(1000 + r.Intn(40)), E: uint16(r.Intn(3))}
			if r.Intn(4) == 0 { // level-1 block named like one of the sources
				b.ID = pool[r.Intn(nsrc)]
			}
			if used[b.ID] {
				continue
			}
			used[b.ID] = true
			g := r.Intn(ngroups)
			b.Label = g % 2
			b.Res = []int64{0, 300000, 3600000}[g/2%3]
			b.Level = 1 + r.Intn(3)
			switch k := r.Intn(10); {
			case k < 2:
				b.Sources = []uid{b.ID}
			case k < 3:
				b.Sources = []uid{} // no sources recorded
			default:
				// a contiguous run of the pool (compaction of neighbours), sometimes with a hole or a repeat
				a := r.Intn(nsrc)
				z := a + 1 + r.Intn(nsrc-a)
				for _, s := range pool[a:z] {
					if r.Intn(8) == 0 {
						continue
					}
					b.Sources = append(b.Sources, s)
				}
				if r.Intn(8) == 0 && len(b.Sources) > 0 {
					b.Sources = append(b.Sources, b.Sources[0])
				}
				r.Shuffle(len(b.Sources), func(x, y int) { b.Sources[x], b.Sources[y] = b.Sources[y], b.Sources[x] })
			}
			if b.Sources == nil {
				b.Sources = []uid{}
			}
			in.Blocks = append(in.Blocks, b)
		}
		if in.Blocks == nil {
			in.Blocks = []blk{}
		}
		in.Conc = []int{1, 1 + r.Intn(8), 1 + r.Intn(8), 8}
		if r.Intn(5) < 2 && len(in.Blocks) > 0 {
			// a history of syncs on the same filter instances: all blocks, then the blocks with the
			// most sources (the likely covering blocks) gone, then a random subset / all again
			all := make([]int, len(in.Blocks))
			maxSrc := 0
			for j := range all {
				all[j] = j
				if len(in.Blocks[j].Sources) > maxSrc {
					maxSrc = len(in.Blocks[j].Sources)
				}
			}
			var without []int
			for j, b := range in.Blocks {
				if len(b.Sources) == maxSrc && r.Intn(4) > 0 {
					continue
				}
				without = append(without, j)
			}
			if without == nil {
				without = []int{}
			}
			in.Steps = [][]int{all, without}
			switch r.Intn(3) {
			case 0:
				in.Steps = append(in.Steps, all)
			case 1:
				var sub []int
				for j := range all {
					if r.Intn(2) == 0 {
						sub = append(sub, j)
					}
				}
				if sub == nil {
					sub = []int{}
				}
				in.Steps = append(in.Steps, sub)
			}
			in.Conc = []int{1, 1 + r.Intn(8)}
		}
		out = append(out, in)
	}
	return out
}

func main() {
	common.Main(common.Prop{ID: "C31", Facts: facts, Gen: gen, Run: run, QuickN: 500, ThoroughN: 2500,
		Preamble: "Open Scope Z_scope.\n"})
}
