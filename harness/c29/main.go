// C29: compaction never loses or invents data, even if it crashes.
//
// One input: a set of small real TSDB blocks (aligned, with gaps, overlapping
// with identical samples when vertical compaction is on) uploaded to an
// in-memory bucket, and a crash schedule. The real BucketCompactor.Compact
// (Syncer + MetaFetcher + DefaultDeduplicateFilter + IgnoreDeletionMarkFilter +
// planner + TSDB LeveledCompactor + BlocksCleaner with delete delay 0) is run
// with fresh objects again and again: call i is frozen before mutating bucket
// operation crashes[i] (a process death), later calls run undisturbed until a
// call issues no mutation (quiescence); every call that returns is followed by
// the cleanup of aborted partial uploads (aged past the threshold). The observable is the block-level
// history (block became visible / was marked / disappeared) and, for the
// initial bucket and after every block-level change, the set of blocks a store
// gateway's fetcher selects, with deletion marks hidden at once (delay 0) and
// never (delay 1000h); the samples of every block are read back with the TSDB
// block reader.
package main

import (
	"context"
	"encoding/json"
	"fmt"
	"io"
	"math"
	"math/rand"
	"os"
	"path/filepath"
	"sort"
	"strconv"
	"strings"
	"time"

	"github.com/go-kit/log"
	"github.com/oklog/ulid/v2"
	"github.com/prometheus/client_golang/prometheus"
	"github.com/prometheus/common/promslog"
	"github.com/prometheus/prometheus/model/labels"
	"github.com/prometheus/prometheus/storage"
	"github.com/prometheus/prometheus/tsdb"
	"github.com/prometheus/prometheus/tsdb/chunkenc"
	"github.com/thanos-io/objstore"

	"github.com/thanos-io/thanos/pkg/block"
	"github.com/thanos-io/thanos/pkg/block/metadata"
	"github.com/thanos-io/thanos/pkg/compact"
	"github.com/thanos-io/thanos/pkg/dedup"
	"github.com/thanos-io/thanos/pkg/logutil"
	"github.com/thanos-io/thanos/zzverif/common"
	cu "github.com/thanos-io/thanos/zzverif/crashutil"
)

type sampleIn struct {
	S int   `json:"s"` // series number
	T int64 `json:"t"`
	V int64 `json:"v"`
}

type blockIn struct {
	Group   int        `json:"group,omitempty"`   // external label set (compaction group)
	Replica string     `json:"replica,omitempty"` // replica label value ("": none)
	MinT    int64      `json:"min_t"`
	MaxT    int64      `json:"max_t"`
	Samples []sampleIn `json:"samples"`
}

type input struct {
	Blocks   []blockIn `json:"blocks"`
	Vertical bool      `json:"vertical"`
	Dedup    bool      `json:"dedup,omitempty"` // compactor with --deduplication.replica-label=replica and the penalty merge function
	Crashes  []int     `json:"crashes"`
	// Shutdowns[i] >= 0: call i is not killed but shut down gracefully: the compactor's root context is
	// cancelled at that mutating bucket operation, which returns context.Canceled (as do all later calls
	// made with that context; code that uses context.Background() goes on); then the process restarts.
	Shutdowns []int `json:"shutdowns,omitempty"`
}

var ranges = []int64{1000, 3000, 9000}

// ---- tie T ----

func facts(repo string, w io.Writer) error {
	s, err := common.ParseSrc(repo, "pkg/compact/compact.go")
	if err != nil {
		return err
	}
	l, err := cu.CallArgs(s, "Group.compact", map[string]int{"block.Download": 3, "block.Upload": 3, "cg.deleteBlock": 0, "block.Delete": 3, "block.MarkForDeletion": 3, "comp.CompactWithBlockPopulator": 1})
	if err != nil {
		return err
	}
	fmt.Fprintln(w, "(* pkg/compact/compact.go: Group.compact — source-order calls that read, create or retire blocks *)")
	fmt.Fprint(w, cu.CallArgsCoq("compact_calls", l))
	l, err = cu.CallArgs(s, "Group.deleteBlock", map[string]int{"block.Delete": 3, "block.MarkForDeletion": 3, "os.RemoveAll": 0})
	if err != nil {
		return err
	}
	// what follows the upload of the result: on ANY upload error the function returns (before the loop
	// that marks the sources); there is no branch that carries on
	evs, err := s.CallOrder("Group.compact")
	if err != nil {
		return err
	}
	var after []common.Event
	depth, started := 0, false
	for i, e := range evs {
		if !started {
			if e.Kind == "call" && e.Text == "block.Upload" {
				started = true
			}
			_ = i
			continue
		}
		switch e.Kind {
		case "if":
			depth++
			after = append(after, e)
		case "endif":
			depth--
			after = append(after, e)
		case "else", "return", "for", "endfor":
			after = append(after, e)
		}
		if len(after) > 0 && depth == 0 && e.Kind == "endif" {
			break
		}
	}
	if len(after) == 0 {
		return fmt.Errorf("srcfacts: Group.compact: nothing found after block.Upload")
	}
	fmt.Fprintln(w, "(* pkg/compact/compact.go: Group.compact — control flow right after the upload of the result block *)")
	fmt.Fprint(w, common.EventsCoq("after_upload", after))
	fmt.Fprintln(w, "(* pkg/compact/compact.go: Group.deleteBlock *)")
	fmt.Fprint(w, cu.CallArgsCoq("deleteBlock_calls", l))
	l, err = cu.CallArgs(s, "BucketCompactor.Compact", map[string]int{"c.sy.SyncMetas": 0, "c.blocksCleaner.DeleteMarkedBlocks": 0, "c.sy.GarbageCollect": 0, "c.grouper.Groups": 0, "g.Compact": 0})
	if err != nil {
		return err
	}
	fmt.Fprintln(w, "(* pkg/compact/compact.go: BucketCompactor.Compact — sync, clean, garbage-collect, group, compact *)")
	fmt.Fprint(w, cu.CallArgsCoq("bucket_compact_calls", l))
	return nil
}

// ---- building and reading real blocks ----

func makeBlock(ctx context.Context, dir string, b blockIn) (ulid.ULID, error) {
	var id ulid.ULID
	headOpts := tsdb.DefaultHeadOptions()
	headOpts.ChunkDirRoot = filepath.Join(dir, "head-chunks")
	headOpts.ChunkRange = 10000000000
	h, err := tsdb.NewHead(nil, nil, nil, nil, headOpts, nil)
	if err != nil {
		return id, err
	}
	defer func() { h.Close(); os.RemoveAll(headOpts.ChunkDirRoot) }()
	ss := append([]sampleIn(nil), b.Samples...)
	sort.Slice(ss, func(i, j int) bool {
		if ss[i].T != ss[j].T {
			return ss[i].T < ss[j].T
		}
		return ss[i].S < ss[j].S
	})
	app := h.Appender(ctx)
	for _, s := range ss {
		if _, err := app.Append(0, labels.FromStrings("s", strconv.Itoa(s.S)), s.T, float64(s.V)); err != nil {
			app.Rollback()
			return id, err
		}
	}
	if err := app.Commit(); err != nil {
		return id, err
	}
	c, err := tsdb.NewLeveledCompactor(ctx, nil, promslog.NewNopLogger(), []int64{b.MaxT - b.MinT}, nil, nil)
	if err != nil {
		return id, err
	}
	ids, err := c.Write(dir, h, b.MinT, b.MaxT, nil)
	if err != nil {
		return id, err
	}
	if len(ids) == 0 {
		return id, fmt.Errorf("empty block")
	}
	id = ids[0]
	bdir := filepath.Join(dir, id.String())
	lbls := map[string]string{"cluster": fmt.Sprintf("c%d", b.Group)}
	if b.Replica != "" {
		lbls["replica"] = b.Replica
	}
	if _, err := metadata.InjectThanos(log.NewNopLogger(), bdir, metadata.Thanos{
		Labels: lbls, Downsample: metadata.ThanosDownsample{Resolution: 0}, Source: metadata.TestSource,
	}, nil); err != nil {
		return id, err
	}
	if err := os.Remove(filepath.Join(bdir, "tombstones")); err != nil {
		return id, err
	}
	return id, nil
}

func blockLabels(b blockIn) map[string]string {
	l := map[string]string{"cluster": fmt.Sprintf("c%d", b.Group)}
	if b.Replica != "" {
		l["replica"] = b.Replica
	}
	return l
}

type smp struct {
	S int
	T int64
	V int64
}

// readBlock reads every sample of block id out of a bucket snapshot.
func readBlock(ctx context.Context, tmp string, snap map[string][]byte, id ulid.ULID) ([]smp, error) {
	dir := filepath.Join(tmp, "read-"+id.String())
	defer os.RemoveAll(dir)
	pre := id.String() + "/"
	for n, b := range snap {
		if !strings.HasPrefix(n, pre) {
			continue
		}
		p := filepath.Join(dir, filepath.FromSlash(strings.TrimPrefix(n, pre)))
		if err := os.MkdirAll(filepath.Dir(p), 0o750); err != nil {
			return nil, err
		}
		if err := os.WriteFile(p, b, 0o640); err != nil {
			return nil, err
		}
	}
	// series of different streams (external labels) are different series
	var m metadata.Meta
	if err := json.Unmarshal(snap[pre+block.MetaFilename], &m); err != nil {
		return nil, err
	}
	group, err := strconv.Atoi(strings.TrimPrefix(m.Thanos.Labels["cluster"], "c"))
	if err != nil {
		return nil, err
	}
	bl, err := tsdb.OpenBlock(nil, dir, nil, nil)
	if err != nil {
		return nil, err
	}
	defer bl.Close()
	q, err := tsdb.NewBlockQuerier(bl, math.MinInt64, math.MaxInt64)
	if err != nil {
		return nil, err
	}
	defer q.Close()
	var out []smp
	set := q.Select(ctx, true, nil, labels.MustNewMatcher(labels.MatchRegexp, "s", ".+"))
	for set.Next() {
		ser := set.At()
		sn, err := strconv.Atoi(ser.Labels().Get("s"))
		if err != nil {
			return nil, err
		}
		it := ser.Iterator(nil)
		for it.Next() == chunkenc.ValFloat {
			t, v := it.At()
			out = append(out, smp{group*1000 + sn, t, int64(v)})
		}
		if it.Err() != nil {
			return nil, it.Err()
		}
	}
	return out, set.Err()
}

// selected runs a store-gateway style fetcher (deletion-mark filter with the given
// delay, then the duplicate filter) on a bucket snapshot.
func selected(ctx context.Context, snap map[string][]byte, delay time.Duration) ([]ulid.ULID, error) {
	b := objstore.NewInMemBucket()
	for n, body := range snap {
		if err := b.Upload(ctx, n, strings.NewReader(string(body))); err != nil {
			return nil, err
		}
	}
	ins := objstore.WithNoopInstr(b)
	f, err := block.NewMetaFetcher(nil, 1, ins, block.NewConcurrentLister(log.NewNopLogger(), ins), "", nil, []block.MetadataFilter{
		block.NewIgnoreDeletionMarkFilter(log.NewNopLogger(), ins, delay, 1),
		block.NewDeduplicateFilter(1),
	})
	if err != nil {
		return nil, err
	}
	metas, _, err := f.Fetch(ctx)
	if err != nil {
		return nil, err
	}
	var ids []ulid.ULID
	for id := range metas {
		ids = append(ids, id)
	}
	sort.Slice(ids, func(i, j int) bool { return ids[i].Compare(ids[j]) < 0 })
	return ids, nil
}

func newCompactor(ctx context.Context, bkt objstore.InstrumentedBucket, dir string, vertical, dedupReplicas bool) (*compact.BucketCompactor, *compact.Syncer, *block.IgnoreDeletionMarkFilter, error) {
	logger := log.NewNopLogger()
	reg := prometheus.NewRegistry()
	ctr := func() prometheus.Counter { return prometheus.NewCounter(prometheus.CounterOpts{Name: "x"}) }
	var replicaLabels []string // cmd/thanos/compact.go: --deduplication.replica-label
	if dedupReplicas {
		replicaLabels = []string{"replica"}
		vertical = true
	}
	ignoreDeletionMarkFilter := block.NewIgnoreDeletionMarkFilter(logger, bkt, 0, 1)
	duplicateBlocksFilter := block.NewDeduplicateFilter(1)
	noCompactMarkerFilter := compact.NewGatherNoCompactionMarkFilter(logger, bkt, 1)
	metaFetcher, err := block.NewMetaFetcher(nil, 1, bkt, block.NewConcurrentLister(logger, bkt), "", nil, []block.MetadataFilter{
		ignoreDeletionMarkFilter, block.NewReplicaLabelRemover(logger, replicaLabels), duplicateBlocksFilter, noCompactMarkerFilter,
	})
	if err != nil {
		return nil, nil, nil, err
	}
	sy, err := compact.NewMetaSyncer(nil, nil, bkt, metaFetcher, duplicateBlocksFilter, ignoreDeletionMarkFilter, ctr(), ctr(), 0)
	if err != nil {
		return nil, nil, nil, err
	}
	var mergeFunc storage.VerticalChunkSeriesMergeFunc
	if dedupReplicas {
		mergeFunc = dedup.NewChunkSeriesMerger()
	}
	comp, err := tsdb.NewLeveledCompactor(ctx, reg, logutil.GoKitLogToSlog(logger), ranges, nil, mergeFunc)
	if err != nil {
		return nil, nil, nil, err
	}
	planner := compact.NewPlanner(logger, ranges, noCompactMarkerFilter)
	grouper := compact.NewDefaultGrouper(logger, bkt, false, vertical, reg, ctr(), ctr(), ctr(), metadata.NoneFunc, 1, 1)
	cleaner := compact.NewBlocksCleaner(logger, bkt, ignoreDeletionMarkFilter, 0, ctr(), ctr())
	bc, err := compact.NewBucketCompactor(logger, sy, grouper, planner, comp, dir, bkt, 1, false, cleaner)
	return bc, sy, ignoreDeletionMarkFilter, err
}

func smpCoq(l []smp) string {
	sort.Slice(l, func(i, j int) bool {
		if l[i].S != l[j].S {
			return l[i].S < l[j].S
		}
		return l[i].T < l[j].T
	})
	parts := make([]string, len(l))
	for i, s := range l {
		parts[i] = common.App("sm", common.N(uint64(s.S)), common.Z(s.T), common.Z(s.V))
	}
	return common.List(parts)
}

func run(raw json.RawMessage) (common.Case, error) {
	var in input
	if err := json.Unmarshal(raw, &in); err != nil {
		return common.Case{}, err
	}
	var c common.Case
	ctx := context.Background()
	tmp, err := os.MkdirTemp("", "c29-")
	if err != nil {
		return c, err
	}
	defer os.RemoveAll(tmp)
	inner := objstore.NewInMemBucket()
	num := map[string]int{}
	numOf := func(id ulid.ULID) int {
		if n, ok := num[id.String()]; ok {
			return n
		}
		n := len(num)
		num[id.String()] = n
		return n
	}
	// block ids in the Coq term are ranks in ULID order (the duplicate filter breaks ties by
	// ULID); ranks are known only at the end, so terms carry placeholders until then
	groups := map[string]int{} // compaction group = full external label set (as Thanos.GroupKey)
	groupOf := func(l map[string]string) int {
		k := fmt.Sprintf("%s|%s", l["cluster"], l["replica"])
		if g, ok := groups[k]; ok {
			return g
		}
		g := len(groups)
		groups[k] = g
		return g
	}
	seenIDs := map[string]bool{}
	idN := func(id ulid.ULID) string {
		seenIDs[id.String()] = true
		return "@@" + id.String() + "@@%N"
	}
	var initC, metaC []string
	for i, b := range in.Blocks {
		id, err := makeBlock(ctx, filepath.Join(tmp, "src"), b)
		if err != nil {
			return c, fmt.Errorf("block %d: %w", i, err)
		}
		numOf(id)
		if err := block.Upload(ctx, log.NewNopLogger(), inner, filepath.Join(tmp, "src", id.String()), metadata.NoneFunc); err != nil {
			return c, err
		}
		time.Sleep(2 * time.Millisecond) // distinct ULID timestamps
	}
	samples := map[string][]smp{}
	blockSamples := func(snap map[string][]byte, id ulid.ULID) ([]smp, error) {
		if s, ok := samples[id.String()]; ok {
			return s, nil
		}
		s, err := readBlock(ctx, tmp, snap, id)
		if err != nil {
			return nil, err
		}
		samples[id.String()] = s
		return s, nil
	}
	snap0 := inner.Objects()
	origTotal := 0
	for idStr, n := range num {
		id := ulid.MustParse(idStr)
		s, err := blockSamples(snap0, id)
		if err != nil {
			return c, err
		}
		if len(s) != len(in.Blocks[n].Samples) {
			return c, fmt.Errorf("block %d: wrote %d samples, read %d", n, len(in.Blocks[n].Samples), len(s))
		}
		origTotal += len(s)
	}
	initByNum := make([]string, len(in.Blocks))
	metaByNum := make([]string, len(in.Blocks))
	for idStr, n := range num {
		id := ulid.MustParse(idStr)
		initByNum[n] = common.App("ib", idN(id), smpCoq(samples[idStr]))
		metaByNum[n] = common.App("om", idN(id), common.N(uint64(groupOf(blockLabels(in.Blocks[n])))), common.Z(in.Blocks[n].MinT), common.Z(in.Blocks[n].MaxT))
	}
	initC, metaC = initByNum, metaByNum

	// Go-side evaluation of the property on one selection
	origSet := map[smp]bool{}
	for _, s := range samples {
		for _, x := range s {
			origSet[x] = true
		}
	}
	checkSel := func(where string, snap map[string][]byte, sel []ulid.ULID, once bool) {
		if c.GoPred != "" {
			return
		}
		count := map[smp]int{}
		for _, id := range sel {
			s, err := blockSamples(snap, id)
			if err != nil {
				c.GoPred = fmt.Sprintf("%s: selected block %s unreadable: %v", where, id, err)
				c.Sig = "unreadable-block"
				return
			}
			for _, x := range s {
				count[x]++
			}
		}
		if in.Dedup {
			// deduplicated replicas: no series may disappear, nothing may be invented
			have := map[int]bool{}
			for x := range count {
				have[x.S] = true
			}
			for x := range origSet {
				if !have[x.S] {
					c.GoPred = fmt.Sprintf("%s: series %d of the original blocks is not served", where, x.S)
					c.Sig = "series-lost"
					return
				}
			}
			for x := range count {
				if !origSet[x] {
					c.GoPred = fmt.Sprintf("%s: served sample (series %d, t %d, v %d) was never written", where, x.S, x.T, x.V)
					c.Sig = "sample-invented"
					return
				}
			}
			if replicasIdentical(in.Blocks) {
				for x := range origSet {
					if count[x] == 0 {
						c.GoPred = fmt.Sprintf("%s: sample (series %d, t %d) of identical replicas is not served", where, x.S, x.T)
						c.Sig = "sample-lost"
						return
					}
				}
			}
			return
		}
		for x := range origSet {
			if count[x] == 0 {
				c.GoPred = fmt.Sprintf("%s: sample (series %d, t %d, v %d) of the original blocks is not served", where, x.S, x.T, x.V)
				c.Sig = "sample-lost"
				return
			}
		}
		for x, n := range count {
			if !origSet[x] {
				c.GoPred = fmt.Sprintf("%s: served sample (series %d, t %d, v %d) was never written", where, x.S, x.T, x.V)
				c.Sig = "sample-invented"
				return
			}
			if once && n > 1 {
				c.GoPred = fmt.Sprintf("%s: sample (series %d, t %d) is served %d times after compaction finished", where, x.S, x.T, n)
				c.Sig = "sample-duplicated"
				return
			}
		}
	}
	selCoq := func(snap map[string][]byte, where string, once bool) (string, string, error) {
		var out [2]string
		for k, d := range []time.Duration{0, 1000 * time.Hour} {
			ids, err := selected(ctx, snap, d)
			if err != nil {
				return "", "", err
			}
			checkSel(fmt.Sprintf("%s (deletion marks hidden after %s)", where, d), snap, ids, once)
			var ns []string
			for _, id := range ids {
				ns = append(ns, idN(id))
			}
			out[k] = common.List(ns)
		}
		return out[0], out[1], nil
	}

	s0, s1, err := selCoq(snap0, "initial bucket", false)
	if err != nil {
		return c, err
	}
	var teardown []func()
	defer func() {
		for _, f := range teardown {
			f()
		}
	}()
	var steps []string
	var obs []any
	quiescent := false
	crashes, adds, marks, dels := 0, 0, 0, 0
	compactDir := filepath.Join(tmp, "compact")
	var lastSnap = snap0
	visible := map[string]bool{}
	for id := range num {
		visible[id] = true
	}
	absorb := func(call int, ops []cu.Op) ([]string, error) {
		var names []string
		for _, o := range ops {
			names = append(names, o.Kind+" "+o.Name)
			if p := cu.MetaProblem(o.Snap); p != "" && c.GoPred == "" {
				c.GoPred = fmt.Sprintf("call %d after %q: %s", call, o.Kind+" "+o.Name, p)
				c.Sig = "visible-incomplete"
			}
			i := strings.Index(o.Name, "/")
			if i < 0 {
				continue
			}
			idStr, rel := o.Name[:i], o.Name[i+1:]
			id, perr := ulid.Parse(idStr)
			if perr != nil {
				continue
			}
			var hop string
			switch {
			case o.Kind == "upload" && rel == block.MetaFilename && !visible[idStr]:
				var m metadata.Meta
				if err := json.Unmarshal(o.Body, &m); err != nil {
					return nil, err
				}
				sm, err := blockSamples(o.Snap, id)
				if err != nil {
					return nil, fmt.Errorf("reading new block %s: %w", id, err)
				}
				var src, par []string
				for _, s := range m.Compaction.Sources {
					src = append(src, idN(s))
				}
				for _, p := range m.Compaction.Parents {
					par = append(par, idN(p.ULID))
				}
				grp := groupOf(m.Thanos.Labels)
				hop = common.App("HAdd", idN(id), common.App("mkcb", common.List(src), common.List(par), smpCoq(sm),
					common.N(uint64(grp)), common.Z(int64(m.Compaction.Level)), common.Z(m.MinTime), common.Z(m.MaxTime)))
				visible[idStr] = true
				adds++
			case o.Kind == "upload" && rel == metadata.DeletionMarkFilename:
				hop = common.App("HMark", idN(id))
				marks++
			case o.Kind == "delete" && rel == block.MetaFilename && o.OK:
				hop = common.App("HDel", idN(id))
				delete(visible, idStr)
				dels++
			default:
				continue
			}
			a, b, err := selCoq(o.Snap, fmt.Sprintf("call %d after %q", call, o.Kind+" "+o.Name), false)
			if err != nil {
				return nil, err
			}
			steps = append(steps, common.App("mkstep", hop, a, b))
			lastSnap = o.Snap
		}
		return names, nil
	}
	shutdowns := 0
	for call := 0; call < max(len(in.Crashes), len(in.Shutdowns))+8; call++ {
		crash, shut := -1, -1
		if call < len(in.Crashes) {
			crash = in.Crashes[call]
		}
		if call < len(in.Shutdowns) && in.Shutdowns[call] >= 0 {
			crash, shut = -1, in.Shutdowns[call]
		}
		rb := cu.NewRecBucket(inner)
		rb.CrashAt = crash
		cctx, cancel := context.WithCancel(ctx)
		defer cancel()
		rb.CancelAt, rb.Cancel = shut, cancel
		bc, sy, delMarks, err := newCompactor(cctx, rb, compactDir, in.Vertical, in.Dedup)
		if err != nil {
			return c, err
		}
		rerr, crashed, wait := cu.RunAction(rb, func() error { return bc.Compact(cctx) })
		shutDown := shut >= 0 && cctx.Err() != nil
		if shutDown {
			shutdowns++
		}
		teardown = append(teardown, func() { rb.Release(); wait() })
		ops := cu.MutOps(rb.Ops())
		names, err := absorb(call, ops)
		if err != nil {
			return c, err
		}
		var cleanupNames []string
		if !crashed && rerr == nil && !shutDown {
			// the cleanup part of the cycle (cmd/thanos/compact.go cleanPartialMarked): aborted partial
			// uploads left by earlier crashes are made old enough (3 days) to be cleaned
			objs := inner.Objects()
			hasMeta := map[string]bool{}
			for n := range objs {
				if strings.HasSuffix(n, "/"+block.MetaFilename) {
					hasMeta[strings.TrimSuffix(n, "/"+block.MetaFilename)] = true
				}
			}
			for n := range objs {
				if i := strings.Index(n, "/"); i > 0 && !hasMeta[n[:i]] {
					_ = inner.ChangeLastModified(n, time.Now().Add(-72*time.Hour))
				}
			}
			rbp := cu.NewRecBucket(inner)
			ctr := func() prometheus.Counter { return prometheus.NewCounter(prometheus.CounterOpts{Name: "x"}) }
			compact.BestEffortCleanAbortedPartialUploads(ctx, log.NewNopLogger(), sy.Partial(), rbp, ctr(), ctr(), ctr(), delMarks.DeletionMarkBlocks())
			cleanupNames, err = absorb(call, cu.MutOps(rbp.Ops()))
			if err != nil {
				return c, err
			}
		}
		if crashed {
			crashes++
		}
		obs = append(obs, map[string]any{"call": call, "crash_before_op": crash, "crashed": crashed, "shutdown_at_op": shut, "shut_down": shutDown, "error": fmt.Sprint(rerr), "ops": names, "partial_cleanup_ops": cleanupNames})
		if !crashed && rerr != nil && !shutDown {
			return c, fmt.Errorf("Compact call %d returned an error without any fault: %v", call, rerr)
		}
		if !crashed && !shutDown && rerr == nil && len(ops) == 0 {
			quiescent = true
			break
		}
	}
	if quiescent {
		for _, d := range []time.Duration{0, 1000 * time.Hour} {
			ids, err := selected(ctx, lastSnap, d)
			if err != nil {
				return c, err
			}
			checkSel(fmt.Sprintf("at quiescence (deletion marks hidden after %s)", d), lastSnap, ids, true)
		}
	}
	term := common.App("CHist", common.Bool(in.Vertical), common.List(metaC), common.List(initC), s0, s1, common.List(steps), common.Bool(quiescent))
	if in.Dedup {
		term = common.App("CHistD", common.Bool(replicasIdentical(in.Blocks)), common.List(metaC), common.List(initC), s0, s1, common.List(steps), common.Bool(quiescent))
	}
	var all []string
	for id := range seenIDs {
		all = append(all, id)
	}
	sort.Strings(all) // ULID strings sort like ULID.Compare
	for rank, id := range all {
		term = strings.ReplaceAll(term, "@@"+id+"@@", strconv.Itoa(rank))
	}
	c.Coq = term
	c.Class = fmt.Sprintf("blocks=%d vertical=%v crashes=%d shutdowns=%d", len(in.Blocks), in.Vertical, crashes, shutdowns)
	if in.Dedup {
		c.Class = fmt.Sprintf("blocks=%d replicas-dedup exact=%v crashes=%d", len(in.Blocks), replicasIdentical(in.Blocks), crashes)
	}
	c.Nontrivial = adds >= 1 && crashes+shutdowns >= 1
	c.Obs = map[string]any{"calls": obs, "blocks_added": adds, "marked": marks, "deleted": dels, "quiescent": quiescent, "original_samples": origTotal}
	return c, nil
}

// replicasIdentical: for every time slot the replicas' blocks carry the same samples
func replicasIdentical(bs []blockIn) bool {
	bySlot := map[string]string{}
	for _, b := range bs {
		ss := append([]sampleIn(nil), b.Samples...)
		sort.Slice(ss, func(i, j int) bool {
			if ss[i].S != ss[j].S {
				return ss[i].S < ss[j].S
			}
			return ss[i].T < ss[j].T
		})
		k := fmt.Sprintf("%d|%d", b.Group, b.MinT)
		v := fmt.Sprint(ss)
		if old, ok := bySlot[k]; ok && old != v {
			return false
		}
		bySlot[k] = v
	}
	return true
}

// ---- generator ----

func genBlocks(r *rand.Rand, vertical bool, maxBlocks int) []blockIn {
	nb := 2 + r.Intn(maxBlocks-1)
	var out []blockIn
	slot := int64(0)
	val := func(s int, t int64) int64 { return int64(s)*100000 + t }
	for len(out) < nb {
		if r.Intn(9) == 0 {
			slot++ // gap
		}
		mint := slot * 1000
		b := blockIn{MinT: mint, MaxT: mint + 1000}
		ns := 1 + r.Intn(3)
		for s := 0; s < ns; s++ {
			for j := int64(0); j < 10; j++ {
				if r.Intn(3) > 0 {
					t := mint + j*100 + int64(r.Intn(2))*50
					b.Samples = append(b.Samples, sampleIn{S: s, T: t, V: val(s, t)})
				}
			}
		}
		if len(b.Samples) == 0 {
			b.Samples = append(b.Samples, sampleIn{S: 0, T: mint, V: val(0, mint)})
		}
		out = append(out, b)
		if vertical && r.Intn(3) == 0 && len(out) < nb {
			// a second block for the same range: some identical samples, some of its own
			d := blockIn{MinT: mint, MaxT: mint + 1000}
			for _, s := range b.Samples {
				if r.Intn(2) == 0 {
					d.Samples = append(d.Samples, s)
				}
			}
			for j := int64(0); j < 4; j++ {
				t := mint + j*100 + 25
				d.Samples = append(d.Samples, sampleIn{S: r.Intn(3), T: t, V: 0})
			}
			seen := map[[2]int64]bool{}
			var uniq []sampleIn
			for _, s := range d.Samples {
				k := [2]int64{int64(s.S), s.T}
				if !seen[k] {
					seen[k] = true
					s.V = val(s.S, s.T)
					uniq = append(uniq, s)
				}
			}
			d.Samples = uniq
			out = append(out, d)
		}
		slot++
	}
	return out
}

func gen(r *rand.Rand, tier string, n int) []any {
	var out []any
	maxBlocks := 7
	for len(out) < n {
		if r.Intn(5) == 0 {
			out = append(out, genDedup(r))
			continue
		}
		vertical := r.Intn(3) == 0
		blocks := genBlocks(r, vertical, maxBlocks)
		if len(blocks) < 3 && r.Intn(4) > 0 {
			continue // too few blocks for the planner: keep only some of these
		}
		if tier == "thorough" && r.Intn(3) == 0 {
			// every crash point of the first call, each followed by undisturbed restarts
			for k := 0; k < 36 && len(out) < n; k++ {
				out = append(out, input{Vertical: vertical, Blocks: blocks, Crashes: []int{k}})
			}
			for k := 0; k < 12 && len(out) < n; k++ {
				out = append(out, input{Vertical: vertical, Blocks: blocks, Shutdowns: []int{k}})
			}
			continue
		}
		if r.Intn(4) == 0 {
			// a second stream (other external labels): compacted independently
			for _, b := range genBlocks(r, false, 4) {
				b.Group = 1
				blocks = append(blocks, b)
			}
		}
		in := input{Vertical: vertical, Blocks: blocks}
		if r.Intn(4) == 0 {
			// graceful shutdowns (context cancelled at a mutating operation), possibly mixed with kills
			n := 1 + r.Intn(2)
			for i := 0; i < n; i++ {
				in.Shutdowns = append(in.Shutdowns, r.Intn(12))
			}
			if r.Intn(3) == 0 {
				in.Crashes = []int{-1, -1, r.Intn(12)}
			}
			out = append(out, in)
			continue
		}
		switch r.Intn(8) {
		case 0: // no crash
		case 1, 2, 3:
			in.Crashes = []int{r.Intn(30)}
		case 4, 5:
			in.Crashes = []int{r.Intn(30), r.Intn(20)}
		default:
			in.Crashes = []int{r.Intn(20), r.Intn(12), r.Intn(12), r.Intn(8)}
		}
		out = append(out, in)
	}
	return out
}

// genDedup: two replicas of one stream (aligned block ranges), identical samples or the second
// replica shifted by a few milliseconds and with holes; compacted with replica deduplication.
func genDedup(r *rand.Rand) input {
	in := input{Dedup: true, Vertical: true}
	nslots := 2 + r.Intn(4)
	identical := r.Intn(2) == 0
	off := int64(1 + r.Intn(20))
	for slot := 0; slot < nslots; slot++ {
		mint := int64(slot) * 1000
		a := blockIn{MinT: mint, MaxT: mint + 1000, Replica: "a"}
		b := blockIn{MinT: mint, MaxT: mint + 1000, Replica: "b"}
		ns := 1 + r.Intn(2)
		for s := 0; s < ns; s++ {
			for j := int64(0); j < 10; j++ {
				t := mint + j*100
				if r.Intn(8) > 0 {
					a.Samples = append(a.Samples, sampleIn{S: s, T: t, V: int64(s)*100000 + t})
				}
				if identical {
					continue
				}
				if r.Intn(8) > 0 && t+off < mint+1000 {
					b.Samples = append(b.Samples, sampleIn{S: s, T: t + off, V: int64(s)*100000 + t + off})
				}
			}
		}
		if len(a.Samples) == 0 {
			a.Samples = []sampleIn{{S: 0, T: mint, V: mint}}
		}
		if identical {
			b.Samples = append([]sampleIn(nil), a.Samples...)
		} else if len(b.Samples) == 0 {
			b.Samples = []sampleIn{{S: 0, T: mint + off, V: mint + off}}
		}
		in.Blocks = append(in.Blocks, a, b)
	}
	switch r.Intn(4) {
	case 1:
		in.Crashes = []int{r.Intn(20)}
	case 2:
		in.Crashes = []int{r.Intn(20), r.Intn(12)}
	}
	return in
}

func main() {
	common.Main(common.Prop{ID: "C29", Facts: facts, Gen: gen, Run: run, QuickN: 20, ThoroughN: 300, CaseTimeout: 120 * time.Second,
		Preamble: "Import C29.\n"})
}

var _ = storage.ErrNotFound
