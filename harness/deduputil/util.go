// Package deduputil holds the pieces shared by the harnesses of the dedup
// group (C01, C02, C40): replica series backed by real XOR chunks, a reader
// program runner, Coq printers and source-fact extraction for pkg/dedup/iter.go.
package deduputil

import (
	"fmt"
	"go/ast"
	"go/token"
	"io"
	"math"
	"math/rand"
	"strings"

	"github.com/prometheus/prometheus/model/labels"
	"github.com/prometheus/prometheus/storage"
	"github.com/prometheus/prometheus/tsdb/chunkenc"
	"github.com/prometheus/prometheus/util/annotations"

	"github.com/thanos-io/thanos/zzverif/common"
)

// Sample is one (timestamp, value) pair; JSON form [t, v].
type Sample [2]float64

func (s Sample) T() int64   { return int64(s[0]) }
func (s Sample) V() float64 { return s[1] }

// Op is one reader call: {"k":"n"} = Next, {"k":"s","t":T} = Seek(T).
type Op struct {
	K string `json:"k"`
	T int64  `json:"t,omitempty"`
}

// XORChunk encodes samples into a real chunkenc XOR chunk.
func XORChunk(ss []Sample) (chunkenc.Chunk, error) {
	c := chunkenc.NewXORChunk()
	app, err := c.Appender()
	if err != nil {
		return nil, err
	}
	for _, s := range ss {
		app.Append(s.T(), s.V())
	}
	return c, nil
}

type series struct {
	lset labels.Labels
	chk  chunkenc.Chunk
}

func (s series) Labels() labels.Labels                        { return s.lset }
func (s series) Iterator(chunkenc.Iterator) chunkenc.Iterator { return s.chk.Iterator(nil) }

// NewSeries is a storage.Series whose iterator is the xorIterator of one chunk.
func NewSeries(lset labels.Labels, ss []Sample) (storage.Series, error) {
	c, err := XORChunk(ss)
	if err != nil {
		return nil, err
	}
	return series{lset: lset, chk: c}, nil
}

type sliceSet struct {
	s []storage.Series
	i int
}

func (s *sliceSet) Next() bool                        { s.i++; return s.i <= len(s.s) }
func (s *sliceSet) At() storage.Series                { return s.s[s.i-1] }
func (s *sliceSet) Err() error                        { return nil }
func (s *sliceSet) Warnings() annotations.Annotations { return nil }

// SeriesSet returns the given series in order.
func SeriesSet(ss []storage.Series) storage.SeriesSet { return &sliceSet{s: ss} }

// Obs is what a reader saw after one call: OK=false is ValNone.
type Obs struct {
	OK bool
	T  int64
	V  float64
}

// Drain iterates Next to exhaustion (at most limit samples).
func Drain(it chunkenc.Iterator, limit int) ([]Obs, bool) {
	var out []Obs
	for it.Next() != chunkenc.ValNone {
		t, v := it.At()
		out = append(out, Obs{true, t, v})
		if len(out) > limit {
			return out, false
		}
	}
	return out, true
}

// RunOps runs a reader program. Following the chunkenc.Iterator contract no
// Seek is issued after the iterator reported exhaustion: such ops are dropped
// (Next is still called and must keep returning ValNone). Returns the ops
// actually executed and what the reader observed.
func RunOps(it chunkenc.Iterator, ops []Op) ([]Op, []Obs) {
	var done []Op
	var out []Obs
	exhausted := false
	for _, o := range ops {
		var vt chunkenc.ValueType
		switch o.K {
		case "n":
			vt = it.Next()
		case "s":
			if exhausted {
				continue
			}
			vt = it.Seek(o.T)
		default:
			continue
		}
		done = append(done, o)
		if vt == chunkenc.ValNone {
			exhausted = true
			out = append(out, Obs{})
		} else {
			t, v := it.At()
			out = append(out, Obs{true, t, v})
		}
	}
	return done, out
}

// IsInt reports whether v is an integer-valued float that Z represents exactly.
func IsInt(v float64) bool {
	return v == math.Trunc(v) && math.Abs(v) < 1<<53
}

// FloatKey maps a float64 to an int64 such that a < b  <=>  key(a) < key(b)
// (for non-NaN values; -0 and +0 are adjacent). Used to decide order
// predicates on non-integer floats exactly inside Coq.
func FloatKey(v float64) int64 {
	b := int64(math.Float64bits(v))
	if b < 0 {
		return math.MinInt64 - b - 1 // negative floats: reverse order, below all non-negative keys
	}
	return b
}

func CoqSample(t int64, v float64) string {
	return common.Pair(common.Z(t), common.Z(int64(v)))
}

func CoqSamples(ss []Sample) string {
	xs := make([]string, len(ss))
	for i, s := range ss {
		xs[i] = CoqSample(s.T(), s.V())
	}
	return common.List(xs)
}

func CoqReplicas(rs [][]Sample) string {
	xs := make([]string, len(rs))
	for i, r := range rs {
		xs[i] = CoqSamples(r)
	}
	return common.List(xs)
}

func CoqOps(ops []Op) string {
	xs := make([]string, len(ops))
	for i, o := range ops {
		if o.K == "n" {
			xs[i] = "ONext"
		} else {
			xs[i] = common.App("OSeek", common.Z(o.T))
		}
	}
	return common.List(xs)
}

func CoqObsList(obs []Obs) string {
	xs := make([]string, len(obs))
	for i, o := range obs {
		if o.OK {
			xs[i] = common.Some(CoqSample(o.T, o.V))
		} else {
			xs[i] = common.None
		}
	}
	return common.List(xs)
}

func CoqObsSamples(obs []Obs) string {
	xs := make([]string, len(obs))
	for i, o := range obs {
		xs[i] = CoqSample(o.T, o.V)
	}
	return common.List(xs)
}

// ---------------------------------------------------------------- generators

// Layout draws 1..maxRep replica sample lists of one series.
func Layout(r *rand.Rand, maxRep, maxLen int, monotoneValues bool) [][]Sample {
	nrep := 1 + r.Intn(maxRep)
	if r.Intn(4) > 0 && nrep < 2 {
		nrep = 2
	}
	interval := common.Pick(r, int64(1000), 5000, 15000, 30000, 60000, 7)
	base := common.Pick(r, int64(0), 0, 1600000000000, -200000, 10000, 1)
	kind := r.Intn(10)
	n := 1 + r.Intn(maxLen)
	mk := func(off int64, n int, jitter int64, gapP int, startV int64) []Sample {
		var out []Sample
		t := base + off
		v := startV
		for i := 0; i < n; i++ {
			if gapP > 0 && r.Intn(gapP) == 0 {
				t += interval * int64(1+r.Intn(6))
			}
			j := int64(0)
			if jitter > 0 {
				j = r.Int63n(2*jitter+1) - jitter
			}
			if monotoneValues {
				v += int64(r.Intn(20))
				if r.Intn(8) == 0 {
					v += int64(r.Intn(1000))
				}
			} else {
				v = int64(r.Intn(2000)) - 500
			}
			out = append(out, Sample{float64(t + j), float64(v)})
			t += interval
		}
		return out
	}
	var reps [][]Sample
	switch {
	case kind == 0: // identical replicas
		one := mk(0, n, 0, 5, int64(r.Intn(100)))
		for i := 0; i < nrep; i++ {
			reps = append(reps, append([]Sample(nil), one...))
		}
	case kind == 1: // disjoint in time
		off := int64(0)
		for i := 0; i < nrep; i++ {
			k := 1 + r.Intn(maxLen)
			reps = append(reps, mk(off, k, 0, 0, int64(r.Intn(100))))
			off += interval * int64(k+r.Intn(5))
		}
		r.Shuffle(len(reps), func(i, j int) { reps[i], reps[j] = reps[j], reps[i] })
	case kind == 2: // some replicas empty or tiny
		for i := 0; i < nrep; i++ {
			k := r.Intn(3)
			reps = append(reps, mk(int64(r.Intn(3))*interval/2, k, interval/10, 0, int64(r.Intn(100))))
		}
	default: // independent scrape offsets, jitter, gaps
		jit := common.Pick(r, int64(0), 0, interval/100, interval/10, interval/3)
		for i := 0; i < nrep; i++ {
			off := r.Int63n(interval)
			if r.Intn(3) == 0 {
				off += interval * int64(r.Intn(10))
			}
			k := 1 + r.Intn(maxLen)
			reps = append(reps, mk(off, k, jit, common.Pick(r, 0, 0, 4, 10), int64(r.Intn(1000))))
		}
	}
	// jitter can break the order inside a replica; chunks hold increasing timestamps,
	// so repair it except in a small malformed stream.
	malformed := r.Intn(25) == 0
	for i := range reps {
		reps[i] = Increasing(reps[i], monotoneValues)
		if malformed && len(reps[i]) > 1 { // repeated or decreasing timestamps
			for k := 0; k < 1+r.Intn(3); k++ {
				j := 1 + r.Intn(len(reps[i])-1)
				reps[i][j][0] = reps[i][j-1][0] - float64(r.Intn(2))*float64(r.Intn(int(interval)+1))
			}
		}
	}
	return reps
}

// Increasing drops samples whose timestamp does not exceed the previous one.
func Increasing(ss []Sample, _ bool) []Sample {
	var out []Sample
	for _, s := range ss {
		if len(out) == 0 || s.T() > out[len(out)-1].T() {
			out = append(out, s)
		}
	}
	return out
}

// Program draws a reader program for the given replicas.
func Program(r *rand.Rand, reps [][]Sample) []Op {
	total := 0
	lo, hi := int64(math.MaxInt64), int64(math.MinInt64)
	for _, rp := range reps {
		total += len(rp)
		for _, s := range rp {
			if s.T() < lo {
				lo = s.T()
			}
			if s.T() > hi {
				hi = s.T()
			}
		}
	}
	if total == 0 {
		lo, hi = 0, 10
	}
	span := hi - lo + 1
	rt := func() int64 { return lo - span/10 - 1 + r.Int63n(span+span/5+3) }
	var ops []Op
	switch k := r.Intn(10); {
	case k < 2: // plain drain
		for i := 0; i < total+2; i++ {
			ops = append(ops, Op{K: "n"})
		}
	case k < 6: // seek first, then drain
		ops = append(ops, Op{K: "s", T: rt()})
		for i := 0; i < total+1; i++ {
			ops = append(ops, Op{K: "n"})
		}
	default: // mixed
		n := 2 + r.Intn(total+3)
		cur := lo
		for i := 0; i < n; i++ {
			if r.Intn(3) == 0 {
				var t int64
				switch r.Intn(4) {
				case 0:
					t = rt()
				case 1: // backwards / no-op seek
					t = cur - r.Int63n(span/4+2)
				default:
					t = cur + r.Int63n(span/3+2)
				}
				cur = t
				ops = append(ops, Op{K: "s", T: t})
			} else {
				ops = append(ops, Op{K: "n"})
			}
		}
	}
	return ops
}

// ---------------------------------------------------------------- tie T

// IterFacts writes the facts about pkg/dedup/iter.go that the model depends on:
// the initial penalty constant, the penalty formula, the lastT sentinel and the
// guard of the repaired Seek. It refuses (error) when the source has another shape.
func IterFacts(repo string, w io.Writer) error {
	s, err := common.ParseSrc(repo, "pkg/dedup/iter.go")
	if err != nil {
		return err
	}
	next, err := s.FindFunc("dedupSeriesIterator.Next")
	if err != nil {
		return err
	}
	// const initialPenalty = N
	ipen := ""
	ast.Inspect(next.Body, func(n ast.Node) bool {
		if gd, ok := n.(*ast.GenDecl); ok && gd.Tok == token.CONST {
			for _, sp := range gd.Specs {
				vs := sp.(*ast.ValueSpec)
				for i, nm := range vs.Names {
					if nm.Name == "initialPenalty" && i < len(vs.Values) {
						if bl, ok := vs.Values[i].(*ast.BasicLit); ok && bl.Kind == token.INT {
							ipen = bl.Value
						}
					}
				}
			}
		}
		return true
	})
	if ipen == "" {
		return fmt.Errorf("srcfacts: const initialPenalty (integer literal) not found in dedupSeriesIterator.Next")
	}
	fmt.Fprintln(w, "(* pkg/dedup/iter.go, dedupSeriesIterator.Next: const initialPenalty *)")
	fmt.Fprintf(w, "Definition initialPenalty : Z := %s.\n", ipen)

	// assignments to it.penA / it.penB / it.useA in Next, in source order
	var pens []string
	ast.Inspect(next.Body, func(n ast.Node) bool {
		as, ok := n.(*ast.AssignStmt)
		if !ok || len(as.Lhs) != 1 || len(as.Rhs) != 1 {
			return true
		}
		sel, ok := as.Lhs[0].(*ast.SelectorExpr)
		if !ok {
			return true
		}
		switch sel.Sel.Name {
		case "penA", "penB", "useA":
			rhs := s.ExprString(as.Rhs[0])
			if _, isBin := as.Rhs[0].(*ast.BinaryExpr); isBin && sel.Sel.Name != "useA" {
				rhs = "<formula>" // translated separately into penA_formula / penB_formula
			}
			pens = append(pens, sel.Sel.Name+" = "+rhs)
		}
		return true
	})
	fmt.Fprintln(w, "(* assignments to useA / penA / penB in Next, source order *)")
	xs := make([]string, len(pens))
	for i, p := range pens {
		xs[i] = common.CoqString(p)
	}
	fmt.Fprintf(w, "Definition next_assignments : list string := [%s]%%string.\n", strings.Join(xs, "; "))

	// penalty formula 2 * (tX - it.lastT): translate through the integer translator
	penExpr := func(sel, tvar string) (string, error) {
		var found ast.Expr
		ast.Inspect(next.Body, func(n ast.Node) bool {
			as, ok := n.(*ast.AssignStmt)
			if !ok || len(as.Lhs) != 1 || found != nil {
				return true
			}
			if se, ok := as.Lhs[0].(*ast.SelectorExpr); ok && se.Sel.Name == sel {
				if _, isLit := as.Rhs[0].(*ast.BasicLit); !isLit {
					if id, isId := as.Rhs[0].(*ast.Ident); !isId || id.Name != "initialPenalty" {
						found = as.Rhs[0]
					}
				}
			}
			return true
		})
		if found == nil {
			return "", fmt.Errorf("srcfacts: no penalty formula assigned to it.%s", sel)
		}
		// replace it.lastT by the identifier lastT
		e := rewriteSel(found, "lastT")
		return s.TranslateExpr(e, map[string]string{}, map[string]string{})
	}
	pb, err := penExpr("penB", "ta")
	if err != nil {
		return err
	}
	pa, err := penExpr("penA", "tb")
	if err != nil {
		return err
	}
	fmt.Fprintln(w, "(* penalty for the replica that was not picked (lastT known) *)")
	fmt.Fprintf(w, "Definition penB_formula (ta lastT : Z) : Z := %s.\n", pb)
	fmt.Fprintf(w, "Definition penA_formula (tb lastT : Z) : Z := %s.\n", pa)

	// Seek: the guard of the repaired Seek and the loop
	evs, err := s.CallOrder("dedupSeriesIterator.Seek")
	if err != nil {
		return err
	}
	fmt.Fprintln(w, "(* dedupSeriesIterator.Seek: source-order events *)")
	fmt.Fprintln(w, common.EventsCoq("seek_events", evs))
	return nil
}

func rewriteSel(e ast.Expr, field string) ast.Expr {
	switch x := e.(type) {
	case *ast.SelectorExpr:
		if x.Sel.Name == field {
			return ast.NewIdent(field)
		}
		return x
	case *ast.BinaryExpr:
		return &ast.BinaryExpr{X: rewriteSel(x.X, field), Op: x.Op, Y: rewriteSel(x.Y, field), OpPos: x.OpPos}
	case *ast.ParenExpr:
		return &ast.ParenExpr{X: rewriteSel(x.X, field), Lparen: x.Lparen, Rparen: x.Rparen}
	case *ast.UnaryExpr:
		return &ast.UnaryExpr{X: rewriteSel(x.X, field), Op: x.Op, OpPos: x.OpPos}
	}
	return e
}

// CounterFacts writes the facts about the counter adjustment of pkg/dedup/iter.go:
// which query functions are counters, the guard and update of adjustAtValue and
// the condition of the deferred adjust in Next.
func CounterFacts(repo string, w io.Writer) error {
	s, err := common.ParseSrc(repo, "pkg/dedup/iter.go")
	if err != nil {
		return err
	}
	fd, err := s.FindFunc("isCounter")
	if err != nil {
		return err
	}
	if len(fd.Body.List) != 1 {
		return fmt.Errorf("srcfacts: isCounter is not a single return")
	}
	ret, ok := fd.Body.List[0].(*ast.ReturnStmt)
	if !ok || len(ret.Results) != 1 {
		return fmt.Errorf("srcfacts: isCounter is not a single return")
	}
	fmt.Fprintln(w, "(* isCounter *)")
	fmt.Fprintf(w, "Definition isCounter_src : string := %s%%string.\n", common.CoqString(s.ExprString(ret.Results[0])))

	adj, err := s.FindFunc("counterErrAdjustSeriesIterator.adjustAtValue")
	if err != nil {
		return err
	}
	var stmts []string
	ast.Inspect(adj.Body, func(n ast.Node) bool {
		switch x := n.(type) {
		case *ast.IfStmt:
			stmts = append(stmts, "if "+s.ExprString(x.Cond))
		case *ast.AssignStmt:
			var l, r []string
			for _, e := range x.Lhs {
				l = append(l, s.ExprString(e))
			}
			for _, e := range x.Rhs {
				r = append(r, s.ExprString(e))
			}
			stmts = append(stmts, strings.Join(l, ", ")+" "+x.Tok.String()+" "+strings.Join(r, ", "))
		}
		return true
	})
	xs := make([]string, len(stmts))
	for i, p := range stmts {
		xs[i] = common.CoqString(p)
	}
	fmt.Fprintln(w, "(* counterErrAdjustSeriesIterator.adjustAtValue: if-conditions and assignments, source order *)")
	fmt.Fprintf(w, "Definition adjust_src : list string := [%s]%%string.\n", strings.Join(xs, "; "))

	at, err := s.FindFunc("counterErrAdjustSeriesIterator.At")
	if err != nil {
		return err
	}
	var rets []string
	ast.Inspect(at.Body, func(n ast.Node) bool {
		if x, ok := n.(*ast.ReturnStmt); ok {
			var r []string
			for _, e := range x.Results {
				r = append(r, s.ExprString(e))
			}
			rets = append(rets, strings.Join(r, ", "))
		}
		return true
	})
	xs = make([]string, len(rets))
	for i, p := range rets {
		xs[i] = common.CoqString(p)
	}
	fmt.Fprintf(w, "Definition counter_at_returns : list string := [%s]%%string.\n", strings.Join(xs, "; "))

	// the deferred adjust in dedupSeriesIterator.Next
	next, err := s.FindFunc("dedupSeriesIterator.Next")
	if err != nil {
		return err
	}
	deferCond := ""
	ast.Inspect(next.Body, func(n ast.Node) bool {
		if d, ok := n.(*ast.DeferStmt); ok {
			if fl, ok := d.Call.Fun.(*ast.FuncLit); ok && len(fl.Body.List) == 1 {
				if is, ok := fl.Body.List[0].(*ast.IfStmt); ok {
					deferCond = s.ExprString(is.Cond)
				}
			}
		}
		return true
	})
	if deferCond == "" {
		return fmt.Errorf("srcfacts: deferred adjust in dedupSeriesIterator.Next not found")
	}
	fmt.Fprintf(w, "Definition next_defer_cond : string := %s%%string.\n", common.CoqString(deferCond))
	return nil
}
