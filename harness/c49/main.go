// C49: memcached key placement is consistent (jump hash + naturally sorted server list).
package main

import (
	"encoding/json"
	"fmt"
	"io"
	"math/rand"
	"net"
	"sort"

	"github.com/cespare/xxhash/v2"
	"github.com/facette/natsort"

	"github.com/thanos-io/thanos/pkg/cacheutil"
	"github.com/thanos-io/thanos/zzverif/common"
)

type input struct {
	Kind     string   `json:"kind"` // jump | nat | pick | add
	Key      uint64   `json:"key,omitempty"`
	N        int      `json:"n,omitempty"`
	A        string   `json:"a,omitempty"`
	B        string   `json:"b,omitempty"`
	Servers  []string `json:"servers,omitempty"`
	Servers2 []string `json:"servers2,omitempty"`
	New      string   `json:"new,omitempty"`
	Keys     []string `json:"keys,omitempty"`
}

// ---- tie T ----

// the float expression of jumpHash as the harness copies it (nextJ below)
const jExprText = "int64(float64(b+1) * (float64(int64(1)<<31) / float64((key>>33)+1)))"

func nextJ(b int64, key uint64) int64 {
	return int64(float64(b+1) * (float64(int64(1)<<31) / float64((key>>33)+1)))
}

func facts(repo string, w io.Writer) error {
	s, err := common.ParseSrc(repo, "pkg/cacheutil/jump_hash.go")
	if err != nil {
		return err
	}
	e, err := s.RHS("jumpHash", "key")
	if err != nil {
		return err
	}
	tr, err := s.TranslateExpr(e, nil, nil)
	if err != nil {
		return err
	}
	fmt.Fprintln(w, "(* pkg/cacheutil/jump_hash.go jumpHash: `key = ...` (uint64: the model reduces mod 2^64) *)")
	fmt.Fprintf(w, "Definition jump_key_step (key : Z) : Z := %s.\n", tr)
	j, err := s.RHS("jumpHash", "j")
	if err != nil {
		return err
	}
	fmt.Fprintln(w, "(* pkg/cacheutil/jump_hash.go jumpHash: source text of `j = ...`; the harness evaluates a copy of it as the oracle *)")
	fmt.Fprintf(w, "Definition jump_j_expr : string := %s%%string.\n", common.CoqString(s.ExprString(j)))
	b, err := s.RHS("jumpHash", "b")
	if err != nil {
		return err
	}
	fmt.Fprintf(w, "Definition jump_b_expr : string := %s%%string.\n", common.CoqString(s.ExprString(b)))
	evs, err := s.CallOrder("jumpHash")
	if err != nil {
		return err
	}
	fmt.Fprintln(w, common.EventsCoq("jumpHash_events", evs))
	s2, err := common.ParseSrc(repo, "pkg/cacheutil/memcached_server_selector.go")
	if err != nil {
		return err
	}
	for _, fn := range []string{"MemcachedJumpHashSelector.SetServers", "MemcachedJumpHashSelector.PickServer", "MemcachedJumpHashSelector.PickServerForKeys", "pickServerWithJumpHash"} {
		evs, err := s2.CallOrder(fn)
		if err != nil {
			return err
		}
		name := fn
		if i := len("MemcachedJumpHashSelector."); len(fn) > i && fn[:i] == "MemcachedJumpHashSelector." {
			name = fn[i:]
		}
		fmt.Fprintln(w, common.EventsCoq(name+"_events", evs))
	}
	return nil
}

// ---- oracle tables ----

type njKey struct {
	b   int64
	key uint64
}

type njTab struct {
	m     map[njKey]int64
	order []njKey
}

// record every (b, key) -> j evaluation of the loop run with n buckets
func (t *njTab) add(key uint64, n int) {
	var j int64
	for j < int64(n) {
		b := j
		key = key*2862933555777941757 + 1
		j = nextJ(b, key)
		k := njKey{b, key}
		if _, ok := t.m[k]; !ok {
			t.m[k] = j
			t.order = append(t.order, k)
		}
		if j <= b { // cannot happen; avoid a runaway loop in the harness itself
			break
		}
	}
}

func (t *njTab) coq() string {
	var xs []string
	for _, k := range t.order {
		xs = append(xs, common.Pair(common.Pair(common.Z(k.b), common.ZU(k.key)), common.Z(t.m[k])))
	}
	return common.List(xs)
}

func strs(xs []string) string {
	out := make([]string, len(xs))
	for i, x := range xs {
		out[i] = common.Bytes(x)
	}
	return common.List(out)
}

func optStrs(xs []*string) string {
	out := make([]string, len(xs))
	for i, x := range xs {
		if x == nil {
			out[i] = common.None
		} else {
			out[i] = common.Some(common.Bytes(*x))
		}
	}
	return common.List(out)
}

func ckeys(keys []string) string {
	out := make([]string, len(keys))
	for i, k := range keys {
		out[i] = common.Pair(common.Bytes(k), common.ZU(xxhash.Sum64String(k)))
	}
	return common.List(out)
}

type selObs struct {
	Sorted []string            `json:"sorted"`
	Single []*string           `json:"single"`
	Batch  map[string][]string `json:"batch"`
	NoSrv  bool                `json:"no_servers_error,omitempty"`
}

func observe(servers, keys []string) (selObs, error) {
	var o selObs
	var s cacheutil.MemcachedJumpHashSelector
	if err := s.SetServers(servers...); err != nil {
		return o, err
	}
	_ = s.Each(func(a net.Addr) error { o.Sorted = append(o.Sorted, a.String()); return nil })
	for _, k := range keys {
		a, err := s.PickServer(k)
		if err != nil {
			o.Single = append(o.Single, nil)
			continue
		}
		str := a.String()
		o.Single = append(o.Single, &str)
	}
	m, err := s.PickServerForKeys(keys)
	if err != nil {
		o.NoSrv = true
	} else {
		o.Batch = m
	}
	return o, nil
}

func eqOpt(a, b []*string) bool {
	if len(a) != len(b) {
		return false
	}
	for i := range a {
		if (a[i] == nil) != (b[i] == nil) || (a[i] != nil && *a[i] != *b[i]) {
			return false
		}
	}
	return true
}

func ambiguous(servers []string) bool {
	for _, a := range servers {
		for _, b := range servers {
			if a != b && natsort.Compare(a, b) == natsort.Compare(b, a) {
				return true
			}
		}
	}
	return false
}

func run(raw json.RawMessage) (common.Case, error) {
	var in input
	if err := json.Unmarshal(raw, &in); err != nil {
		return common.Case{}, err
	}
	c := common.Case{Class: in.Kind}
	tab := &njTab{m: map[njKey]int64{}}
	switch in.Kind {
	case "jump":
		if in.N < 1 || in.N > 100000 {
			return c, fmt.Errorf("n out of range")
		}
		tab.add(in.Key, in.N)
		var outs []int64
		for n := 1; n <= in.N; n++ {
			outs = append(outs, int64(cacheutil.VerifC49JumpHash(in.Key, n)))
		}
		c.Coq = common.App("CJump", common.ZU(in.Key), tab.coq(), common.ZList(outs))
		c.Obs = outs
		c.Nontrivial = in.N >= 3
		for i, o := range outs {
			n := int64(i + 1)
			if o < 0 || o >= n {
				c.GoPred, c.Sig = fmt.Sprintf("jumpHash(key,%d) = %d out of range", n, o), "jump-out-of-range"
			} else if i > 0 && o != outs[i-1] && o != n-1 {
				c.GoPred, c.Sig = fmt.Sprintf("jumpHash(key,%d) = %d but jumpHash(key,%d) = %d", n, o, n-1, outs[i-1]), "jump-inconsistent"
			}
		}
		return c, nil
	case "nat":
		out := natsort.Compare(in.A, in.B)
		c.Coq = common.App("CNat", common.Bytes(in.A), common.Bytes(in.B), common.Bool(out))
		c.Obs = out
		c.Nontrivial = in.A != in.B
		return c, nil
	case "pick":
		o1, err := observe(in.Servers, in.Keys)
		if err != nil {
			return c, err
		}
		o2, err := observe(in.Servers2, in.Keys)
		if err != nil {
			return c, err
		}
		for _, k := range in.Keys {
			tab.add(xxhash.Sum64String(k), len(in.Servers))
		}
		batch := common.None
		if !o1.NoSrv {
			var addrs []string
			for a := range o1.Batch {
				addrs = append(addrs, a)
			}
			sort.Strings(addrs)
			var es []string
			for _, a := range addrs {
				es = append(es, common.Pair(common.Bytes(a), strs(o1.Batch[a])))
			}
			batch = common.Some(common.List(es))
		}
		c.Coq = common.App("CPick", strs(in.Servers), strs(in.Servers2), ckeys(in.Keys), tab.coq(),
			strs(o1.Sorted), strs(o2.Sorted), optStrs(o1.Single), optStrs(o2.Single), batch)
		c.Obs = map[string]any{"listing1": o1, "listing2": o2}
		c.Class = fmt.Sprintf("pick/servers=%d", len(in.Servers))
		c.Nontrivial = len(in.Servers) >= 2 && len(in.Keys) >= 2
		// Go-side predicate
		for i, k := range in.Keys {
			if o1.Single[i] == nil {
				if !o1.NoSrv {
					c.GoPred, c.Sig = "PickServer failed but PickServerForKeys succeeded", "single-batch-differ"
				}
				continue
			}
			found := false
			for _, bk := range o1.Batch[*o1.Single[i]] {
				if bk == k {
					found = true
				}
			}
			if !found {
				c.GoPred, c.Sig = fmt.Sprintf("key %q: alone -> %s, not under that server in the batch", k, *o1.Single[i]), "single-batch-differ"
			}
		}
		if c.GoPred == "" && (fmt.Sprint(o1.Sorted) != fmt.Sprint(o2.Sorted) || !eqOpt(o1.Single, o2.Single)) {
			c.GoPred = "the same servers listed in another order give a different server order / different picks"
			if ambiguous(in.Servers) {
				c.Sig = "natsort-ambiguous-order"
			} else {
				c.Sig = "order-dependent"
			}
		}
		return c, nil
	case "add":
		o1, err := observe(in.Servers, in.Keys)
		if err != nil {
			return c, err
		}
		after := append(append([]string{}, in.Servers...), in.New)
		o2, err := observe(after, in.Keys)
		if err != nil {
			return c, err
		}
		for _, k := range in.Keys {
			tab.add(xxhash.Sum64String(k), len(after))
		}
		c.Coq = common.App("CAdd", strs(in.Servers), common.Bytes(in.New), ckeys(in.Keys), tab.coq(), optStrs(o1.Single), optStrs(o2.Single))
		c.Obs = map[string]any{"before": o1, "after": o2}
		last := len(o2.Sorted) > 0 && o2.Sorted[len(o2.Sorted)-1] == in.New
		c.Class = "add/not-last"
		if last {
			c.Class = "add/last"
		}
		c.Nontrivial = len(in.Servers) >= 2 && len(in.Keys) >= 2
		for i := range in.Keys {
			b, a := o1.Single[i], o2.Single[i]
			same := (a == nil && b == nil) || (a != nil && b != nil && *a == *b)
			if !same && !(a != nil && *a == in.New) {
				c.GoPred = fmt.Sprintf("key %q moved between old servers when %s was added", in.Keys[i], in.New)
				if last {
					c.Sig = "add-last-moves-keys"
				} else {
					c.Sig = "add-not-last-moves-keys"
				}
			}
		}
		return c, nil
	}
	return c, fmt.Errorf("bad kind %q", in.Kind)
}

// ---- generators ----

var natPool = []string{"", "a", "s1", "s01", "s001", "s2", "s10", "s9", "a10b2", "a10b10", "a9b", "10", "9", "010", "x",
	"memcached-1.svc:11211", "memcached-10.svc:11211", "memcached-2.svc:11211", "10.0.0.1:11211", "10.0.0.10:11211", "10.0.0.2:11211",
	"s99999999999999999999", "s99999999999999999998", "s9223372036854775807", "s9223372036854775808", "/tmp/mc-1.sock", "/tmp/mc-12.sock", "-", "s-1", "s1a", "s1b", "1s", "01s"}

func serverPool(r *rand.Rand) []string {
	var p []string
	switch r.Intn(4) {
	case 0:
		for i := 1; i <= 40; i++ {
			p = append(p, fmt.Sprintf("10.0.0.%d:11211", i))
		}
	case 1:
		for i := 0; i < 40; i++ {
			p = append(p, fmt.Sprintf("/var/run/memcached-%d.sock", i))
		}
	case 2:
		for i := 1; i <= 12; i++ {
			p = append(p, fmt.Sprintf("10.%d.0.%d:11211", i%3, i), fmt.Sprintf("127.0.0.1:%d", 11200+i), fmt.Sprintf("/tmp/mc-%d.sock", i))
		}
		p = append(p, "[::1]:11211", "[fe80::1]:11211")
	default:
		for i := 1; i <= 20; i++ {
			p = append(p, fmt.Sprintf("127.0.0.%d:%d", i, 9+i*7))
		}
		p = append(p, "/a", "/b10", "/b9", "/b")
	}
	return p
}

func genKeys(r *rand.Rand, max int) []string {
	n := 1 + r.Intn(max)
	var ks []string
	for i := 0; i < n; i++ {
		if len(ks) > 0 && r.Intn(10) == 0 {
			ks = append(ks, ks[r.Intn(len(ks))])
			continue
		}
		ks = append(ks, fmt.Sprintf("%s:%d", common.Pick(r, "P", "S", "chunk", "01H", ""), r.Intn(100000)))
	}
	return ks
}

func gen(r *rand.Rand, tier string, n int) []any {
	var out []any
	maxN, maxKeys := 40, 12
	if tier == "thorough" {
		maxN, maxKeys = 150, 24
	}
	for i := 0; i < n; i++ {
		switch k := r.Intn(20); {
		case k < 5:
			key := r.Uint64()
			switch r.Intn(8) {
			case 0:
				key = uint64(r.Intn(4))
			case 1:
				key = ^uint64(0) - uint64(r.Intn(4))
			}
			out = append(out, input{Kind: "jump", Key: key, N: 1 + r.Intn(maxN)})
		case k < 8:
			out = append(out, input{Kind: "nat", A: common.Pick(r, natPool...), B: common.Pick(r, natPool...)})
		case k < 15:
			pool := serverPool(r)
			r.Shuffle(len(pool), func(a, b int) { pool[a], pool[b] = pool[b], pool[a] })
			ns := r.Intn(17)
			if ns > len(pool) {
				ns = len(pool)
			}
			servers := append([]string{}, pool[:ns]...)
			if ns > 0 && r.Intn(12) == 0 { // a server listed twice (more weight)
				servers = append(servers, servers[r.Intn(ns)])
			}
			s2 := append([]string{}, servers...)
			r.Shuffle(len(s2), func(a, b int) { s2[a], s2[b] = s2[b], s2[a] })
			out = append(out, input{Kind: "pick", Servers: servers, Servers2: s2, Keys: genKeys(r, maxKeys)})
		default:
			// add one server: statefulset style names, the new one usually with the next ordinal
			ns := r.Intn(12)
			var servers []string
			style := r.Intn(2)
			name := func(i int) string {
				if style == 0 {
					return fmt.Sprintf("10.0.0.%d:11211", i+1)
				}
				return fmt.Sprintf("/var/run/memcached-%d.sock", i)
			}
			for j := 0; j < ns; j++ {
				servers = append(servers, name(j))
			}
			r.Shuffle(len(servers), func(a, b int) { servers[a], servers[b] = servers[b], servers[a] })
			nw := name(ns)
			if ns > 0 && r.Intn(4) == 0 { // replace a middle one: remove it from the list and add it back
				j := r.Intn(len(servers))
				nw = servers[j]
				servers = append(servers[:j:j], servers[j+1:]...)
			}
			out = append(out, input{Kind: "add", Servers: servers, New: nw, Keys: genKeys(r, maxKeys)})
		}
	}
	return out
}

func main() {
	common.Main(common.Prop{ID: "C49", Facts: facts, Gen: gen, Run: run, QuickN: 500, ThoroughN: 2500,
		Preamble: "Open Scope Z_scope.\n"})
}
