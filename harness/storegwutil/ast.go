// Package storegwutil holds helpers shared by the store-gateway group of
// harnesses (C10, C11, C14).
package storegwutil

import (
	"go/ast"
	"strings"

	"github.com/thanos-io/thanos/zzverif/common"
)

// IfConds returns, in source order, the conditions of all `if` statements in
// function fn (nested function literals included) whose source text contains substr.
func IfConds(s *common.SrcFile, fn, substr string) ([]ast.Expr, error) {
	fd, err := s.FindFunc(fn)
	if err != nil {
		return nil, err
	}
	var out []ast.Expr
	ast.Inspect(fd.Body, func(n ast.Node) bool {
		if is, ok := n.(*ast.IfStmt); ok {
			if strings.Contains(s.ExprString(is.Cond), substr) {
				out = append(out, is.Cond)
			}
		}
		return true
	})
	return out, nil
}

// ForConds returns, in source order, the conditions of all `for` statements of fn
// whose source text contains substr.
func ForConds(s *common.SrcFile, fn, substr string) ([]ast.Expr, error) {
	fd, err := s.FindFunc(fn)
	if err != nil {
		return nil, err
	}
	var out []ast.Expr
	ast.Inspect(fd.Body, func(n ast.Node) bool {
		if fs, ok := n.(*ast.ForStmt); ok && fs.Cond != nil {
			if strings.Contains(s.ExprString(fs.Cond), substr) {
				out = append(out, fs.Cond)
			}
		}
		return true
	})
	return out, nil
}

// AssignsTo returns, in source order, the right-hand sides of all single
// assignments (`x := e`, `x = e`) to identifier ident inside function fn.
func AssignsTo(s *common.SrcFile, fn, ident string) ([]ast.Expr, error) {
	fd, err := s.FindFunc(fn)
	if err != nil {
		return nil, err
	}
	var out []ast.Expr
	ast.Inspect(fd.Body, func(n ast.Node) bool {
		if as, ok := n.(*ast.AssignStmt); ok && len(as.Lhs) == 1 && len(as.Rhs) == 1 {
			if id, ok := as.Lhs[0].(*ast.Ident); ok && id.Name == ident && (as.Tok.String() == ":=" || as.Tok.String() == "=") {
				out = append(out, as.Rhs[0])
			}
		}
		return true
	})
	return out, nil
}
