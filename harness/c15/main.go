// C15: the store gateway picks blocks that cover the query at allowed resolutions
// (bucketBlockSet.add / getFor).
package main

import (
	"encoding/json"
	"fmt"
	"go/ast"
	"io"
	"math"
	"math/rand"
	"strings"

	"github.com/oklog/ulid/v2"

	"github.com/thanos-io/thanos/pkg/compact/downsample"
	"github.com/thanos-io/thanos/pkg/store"
	"github.com/thanos-io/thanos/zzverif/common"
)

type blk struct {
	Min int64 `json:"min"`
	Max int64 `json:"max"`
	Res int64 `json:"res"`
}

type hop struct {
	Add    *blk      `json:"add,omitempty"`    // the k-th add of the history gets id k+1
	Remove *int      `json:"remove,omitempty"` // id
	Get    *[3]int64 `json:"get,omitempty"`    // mint, maxt, maxres
}

type input struct {
	Kind string `json:"kind,omitempty"` // "" (one layout, one query) | history
	Ops  []hop  `json:"ops,omitempty"`
	Blocks []blk `json:"blocks"` // in add order; block k has id k+1
	Mint   int64 `json:"mint"`
	Maxt   int64 `json:"maxt"`
	MaxRes int64 `json:"maxres"`
}

func coqStrList(name string, xs []string) string {
	q := make([]string, len(xs))
	for i, x := range xs {
		q[i] = common.CoqString(x)
	}
	return fmt.Sprintf("Definition %s : list string := [%s]%%string.\n", name, strings.Join(q, "; "))
}

func facts(repo string, w io.Writer) error {
	fmt.Fprintln(w, "(* pkg/compact/downsample: the constants the harness binary links against *)")
	fmt.Fprintf(w, "Definition ResLevel0 : Z := %d.\nDefinition ResLevel1 : Z := %d.\nDefinition ResLevel2 : Z := %d.\n",
		downsample.ResLevel0, downsample.ResLevel1, downsample.ResLevel2)
	s, err := common.ParseSrc(repo, "pkg/store/bucket.go")
	if err != nil {
		return err
	}
	// s.resolutions as written in newBucketBlockSet
	fd, err := s.FindFunc("newBucketBlockSet")
	if err != nil {
		return err
	}
	var resElts []string
	ast.Inspect(fd.Body, func(n ast.Node) bool {
		kv, ok := n.(*ast.KeyValueExpr)
		if !ok {
			return true
		}
		if id, ok := kv.Key.(*ast.Ident); ok && id.Name == "resolutions" {
			if cl, ok := kv.Value.(*ast.CompositeLit); ok {
				for _, e := range cl.Elts {
					resElts = append(resElts, s.ExprString(e))
				}
			}
		}
		return true
	})
	if len(resElts) == 0 {
		return fmt.Errorf("srcfacts: newBucketBlockSet: resolutions literal not found")
	}
	var coqRes []string
	for _, e := range resElts {
		switch e {
		case "downsample.ResLevel0", "downsample.ResLevel1", "downsample.ResLevel2":
			coqRes = append(coqRes, strings.TrimPrefix(e, "downsample."))
		default:
			return fmt.Errorf("srcfacts: newBucketBlockSet: unexpected resolution element %s", e)
		}
	}
	fmt.Fprintln(w, "(* pkg/store/bucket.go newBucketBlockSet: resolutions, high to low *)")
	fmt.Fprintf(w, "Definition resolutions : list Z := [%s].\n", strings.Join(coqRes, "; "))

	// getFor: its tests, assignments to start, recursive calls, appends
	gf, err := s.FindFunc("bucketBlockSet.getFor")
	if err != nil {
		return err
	}
	var ifs, starts, recs, appends, fors []string
	ast.Inspect(gf.Body, func(n ast.Node) bool {
		switch x := n.(type) {
		case *ast.IfStmt:
			ifs = append(ifs, s.ExprString(x.Cond))
		case *ast.ForStmt:
			c := ""
			if x.Cond != nil {
				c = s.ExprString(x.Cond)
			}
			fors = append(fors, c)
		case *ast.RangeStmt:
			fors = append(fors, "range "+s.ExprString(x.X))
		case *ast.AssignStmt:
			if len(x.Lhs) == 1 {
				if id, ok := x.Lhs[0].(*ast.Ident); ok {
					if id.Name == "start" {
						starts = append(starts, s.ExprString(x.Rhs[0]))
					}
					if id.Name == "bs" {
						appends = append(appends, s.ExprString(x.Rhs[0]))
					}
				}
			}
		case *ast.CallExpr:
			if se, ok := x.Fun.(*ast.SelectorExpr); ok && se.Sel.Name == "getFor" {
				var as []string
				for _, a := range x.Args {
					as = append(as, s.ExprString(a))
				}
				recs = append(recs, strings.Join(as, ", "))
			}
		}
		return true
	})
	fmt.Fprintln(w, "(* pkg/store/bucket.go bucketBlockSet.getFor, in source order *)")
	fmt.Fprint(w, coqStrList("getForIfs", ifs))
	fmt.Fprint(w, coqStrList("getForLoops", fors))
	fmt.Fprint(w, coqStrList("getForStartAssigns", starts))
	fmt.Fprint(w, coqStrList("getForRecursiveArgs", recs))
	fmt.Fprint(w, coqStrList("getForAppends", appends))
	// the comparison of add's sort
	ad, err := s.FindFunc("bucketBlockSet.add")
	if err != nil {
		return err
	}
	var addRet []string
	ast.Inspect(ad.Body, func(n ast.Node) bool {
		if fl, ok := n.(*ast.FuncLit); ok {
			ast.Inspect(fl.Body, func(m ast.Node) bool {
				switch x := m.(type) {
				case *ast.IfStmt:
					addRet = append(addRet, "if "+s.ExprString(x.Cond))
				case *ast.ReturnStmt:
					if len(x.Results) == 1 {
						addRet = append(addRet, "return "+s.ExprString(x.Results[0]))
					}
				}
				return true
			})
			return false
		}
		return true
	})
	fmt.Fprint(w, coqStrList("addSortLess", addRet))
	// how remove deletes the block from its level
	rm, err := s.FindFunc("bucketBlockSet.remove")
	if err != nil {
		return err
	}
	var rmAssigns []string
	ast.Inspect(rm.Body, func(n ast.Node) bool {
		if as, ok := n.(*ast.AssignStmt); ok && as.Tok.String() == "=" && len(as.Lhs) == 1 && len(as.Rhs) == 1 {
			rmAssigns = append(rmAssigns, s.ExprString(as.Lhs[0])+" = "+s.ExprString(as.Rhs[0]))
		}
		return true
	})
	fmt.Fprint(w, coqStrList("removeAssigns", rmAssigns))
	return nil
}

func idOf(k int) ulid.ULID {
	var u ulid.ULID
	n := uint64(k + 1)
	for i := 0; i < 8; i++ {
		u[15-i] = byte(n >> (8 * uint(i)))
	}
	return u
}

func numOf(u ulid.ULID) uint64 {
	var n uint64
	for i := 0; i < 8; i++ {
		n |= uint64(u[15-i]) << (8 * uint(i))
	}
	return n
}

func idsCoq(us []ulid.ULID) string {
	s := make([]string, len(us))
	for i, u := range us {
		s[i] = common.N(numOf(u))
	}
	return common.List(s)
}

func knownRes(r int64) bool {
	return r == downsample.ResLevel0 || r == downsample.ResLevel1 || r == downsample.ResLevel2
}

func run(raw json.RawMessage) (c common.Case, err error) {
	var in input
	if err := json.Unmarshal(raw, &in); err != nil {
		return common.Case{}, err
	}
	if in.Kind == "history" {
		return runHistory(in)
	}
	bl := make([]store.VerifC15Block, len(in.Blocks))
	blocksCoq := make([]string, len(in.Blocks))
	for k, b := range in.Blocks {
		bl[k] = store.VerifC15Block{ID: idOf(k), MinTime: b.Min, MaxTime: b.Max, Resolution: b.Res}
		blocksCoq[k] = common.App("mkBlock", common.N(uint64(k+1)), common.Z(b.Min), common.Z(b.Max), common.Z(b.Res))
	}
	c.Class = fmt.Sprintf("blocks=%s", sizeClass(len(in.Blocks)))
	if in.Mint > in.Maxt {
		c.Class += "/empty-range"
	} else if in.MaxRes < 0 {
		c.Class += "/neg-maxres"
	}

	var failed []bool
	var levels [][]ulid.ULID
	var out []ulid.ULID
	panicked := ""
	func() {
		defer func() {
			if r := recover(); r != nil {
				panicked = fmt.Sprint(r)
			}
		}()
		failed, levels, _, out = store.VerifC15GetFor(bl, in.Mint, in.Maxt, in.MaxRes)
	}()
	if panicked != "" {
		// run the adds again (they do not panic) to report the levels
		func() {
			defer func() { _ = recover() }()
			failed, levels, _, _ = store.VerifC15GetFor(bl, 1, 0, 0)
		}()
	}
	fs := make([]string, len(failed))
	for i, f := range failed {
		fs[i] = common.Bool(f)
	}
	ls := make([]string, len(levels))
	for i, l := range levels {
		ls[i] = idsCoq(l)
	}
	outCoq := common.None
	if panicked == "" {
		outCoq = common.Some(idsCoq(out))
	}
	c.Coq = common.App("CGet", common.List(blocksCoq), common.List(fs), common.List(ls),
		common.Z(in.Mint), common.Z(in.Maxt), common.Z(in.MaxRes), outCoq)
	var outN []uint64
	for _, u := range out {
		outN = append(outN, numOf(u))
	}
	c.Obs = map[string]any{"selected": outN, "panic": panicked}
	c.Nontrivial = len(out) >= 2

	// Go-side evaluation of the predicate (search aid)
	if panicked != "" {
		c.GoPred = "getFor panicked: " + panicked
		c.Sig = "panic"
		return c, nil
	}
	seen := map[uint64]bool{}
	for _, n := range outN {
		b := in.Blocks[n-1]
		if seen[n] {
			c.GoPred = fmt.Sprintf("block %d selected twice", n)
			c.Sig = "duplicate-block"
			return c, nil
		}
		seen[n] = true
		if b.Res > in.MaxRes {
			c.GoPred = fmt.Sprintf("block %d has resolution %d > max %d", n, b.Res, in.MaxRes)
			c.Sig = "resolution-exceeded"
			return c, nil
		}
		if !(b.Min <= in.Maxt && in.Mint < b.Max) {
			c.GoPred = fmt.Sprintf("block %d does not overlap the query range", n)
			c.Sig = "no-overlap"
			return c, nil
		}
	}
	if in.Mint <= in.Maxt && in.Maxt-in.Mint <= 20000 {
		for t := in.Mint; t <= in.Maxt; t++ {
			need := false
			for _, b := range in.Blocks {
				if knownRes(b.Res) && b.Res <= in.MaxRes && b.Min <= t && t < b.Max {
					need = true
					break
				}
			}
			if !need {
				continue
			}
			got := false
			for _, n := range outN {
				b := in.Blocks[n-1]
				if b.Min <= t && t < b.Max {
					got = true
					break
				}
			}
			if !got {
				c.GoPred = fmt.Sprintf("instant %d is covered by an allowed block but by no selected block", t)
				c.Sig = "not-covered"
				return c, nil
			}
		}
	}
	return c, nil
}

// runHistory drives one real bucketBlockSet through add / remove / getFor calls.
func runHistory(in input) (c common.Case, err error) {
	set := store.NewVerifC15Set()
	type cur struct {
		id uint64
		b  blk
	}
	var have []cur // the blocks the set is supposed to hold
	nextID := uint64(1)
	var opsCoq, obsCoq []string
	type ob struct {
		Op       string     `json:"op"`
		Levels   [][]uint64 `json:"levels"`
		Selected []uint64   `json:"selected,omitempty"`
		Panic    string     `json:"panic,omitempty"`
	}
	var obs []ob
	gets := 0
	for _, o := range in.Ops {
		failed := false
		outCoq := common.None
		var sel []uint64
		panicked := ""
		var opS string
		switch {
		case o.Add != nil:
			id := nextID
			nextID++
			failed = set.Add(store.VerifC15Block{ID: idOf(int(id - 1)), MinTime: o.Add.Min, MaxTime: o.Add.Max, Resolution: o.Add.Res})
			if knownRes(o.Add.Res) {
				have = append(have, cur{id, *o.Add})
			}
			opsCoq = append(opsCoq, common.App("OAdd", common.App("mkBlock", common.N(id), common.Z(o.Add.Min), common.Z(o.Add.Max), common.Z(o.Add.Res))))
			opS = fmt.Sprintf("add %d [%d,%d) res %d", id, o.Add.Min, o.Add.Max, o.Add.Res)
		case o.Remove != nil && *o.Remove > 0:
			id := uint64(*o.Remove)
			set.Remove(idOf(int(id - 1)))
			for i := range have {
				if have[i].id == id {
					have = append(have[:i:i], have[i+1:]...)
					break
				}
			}
			opsCoq = append(opsCoq, common.App("ORemove", common.N(id)))
			opS = fmt.Sprintf("remove %d", id)
		case o.Get != nil:
			mint, maxt, maxres := o.Get[0], o.Get[1], o.Get[2]
			var out []ulid.ULID
			func() {
				defer func() {
					if r := recover(); r != nil {
						panicked = fmt.Sprint(r)
					}
				}()
				out = set.GetFor(mint, maxt, maxres)
			}()
			gets++
			opsCoq = append(opsCoq, common.App("OGet", common.Z(mint), common.Z(maxt), common.Z(maxres)))
			opS = fmt.Sprintf("getFor [%d,%d] maxres %d", mint, maxt, maxres)
			if panicked == "" {
				outCoq = common.Some(idsCoq(out))
				for _, u := range out {
					sel = append(sel, numOf(u))
				}
			}
			// Go-side evaluation of the four clauses against the blocks currently in the set (search aid)
			if c.GoPred == "" {
				byID := map[uint64]blk{}
				for _, h := range have {
					byID[h.id] = h.b
				}
				seen := map[uint64]bool{}
				switch {
				case panicked != "":
					c.GoPred, c.Sig = "getFor panicked: "+panicked, "panic"
				default:
					for _, n := range sel {
						b, ok := byID[n]
						switch {
						case !ok:
							c.GoPred, c.Sig = fmt.Sprintf("%s returned block %d which is not in the set", opS, n), "removed-block-selected"
						case seen[n]:
							c.GoPred, c.Sig = fmt.Sprintf("%s: block %d selected twice", opS, n), "duplicate-block"
						case b.Res > maxres:
							c.GoPred, c.Sig = fmt.Sprintf("%s: block %d has resolution %d", opS, n, b.Res), "resolution-exceeded"
						case !(b.Min <= maxt && mint < b.Max):
							c.GoPred, c.Sig = fmt.Sprintf("%s: block %d does not overlap the range", opS, n), "no-overlap"
						}
						seen[n] = true
					}
					if c.GoPred == "" && mint <= maxt && maxt-mint <= 20000 {
						for t := mint; t <= maxt && c.GoPred == ""; t++ {
							need, got := uint64(0), false
							for _, h := range have {
								if h.b.Res <= maxres && h.b.Min <= t && t < h.b.Max {
									need = h.id
									if seen[h.id] {
										got = true
									}
								}
							}
							if need != 0 && !got {
								covered := false
								for n := range seen {
									if b := byID[n]; b.Min <= t && t < b.Max {
										covered = true
									}
								}
								if !covered {
									c.GoPred = fmt.Sprintf("%s: instant %d is covered by block %d of the set (allowed resolution) but by no selected block", opS, t, need)
									c.Sig = "not-covered"
								}
							}
						}
					}
				}
			}
		default:
			continue
		}
		var lv [][]uint64
		var lvCoq []string
		for _, l := range set.Levels() {
			var ids []uint64
			for _, u := range l {
				ids = append(ids, numOf(u))
			}
			lv = append(lv, ids)
			lvCoq = append(lvCoq, idsCoq(l))
		}
		obsCoq = append(obsCoq, common.Tuple(common.Bool(failed), common.List(lvCoq), outCoq))
		obs = append(obs, ob{opS, lv, sel, panicked})
	}
	c.Coq = common.App("CHistory", common.List(opsCoq), common.List(obsCoq))
	c.Obs = obs
	c.Class = "history"
	c.Nontrivial = gets >= 1 && len(opsCoq) >= 4
	return c, nil
}

func sizeClass(n int) string {
	switch {
	case n == 0:
		return "0"
	case n <= 3:
		return "1-3"
	case n <= 8:
		return "4-8"
	}
	return ">8"
}

var resLevels = []int64{downsample.ResLevel0, downsample.ResLevel1, downsample.ResLevel2}

func genHistory(r *rand.Rand, maxOps int) input {
	in := input{Kind: "history"}
	ip := func(v int) *int { return &v }
	var live []int // ids currently in the set
	nextID := 1
	add := func(b blk) {
		in.Ops = append(in.Ops, hop{Add: &b})
		if knownRes(b.Res) {
			live = append(live, nextID)
		}
		nextID++
	}
	query := func() {
		mint := int64(r.Intn(70)) - 10
		maxt := mint + int64(r.Intn(50))
		if r.Intn(4) == 0 {
			mint, maxt = -5, 100
		}
		in.Ops = append(in.Ops, hop{Get: &[3]int64{mint, maxt, common.Pick(r, int64(0), downsample.ResLevel1, downsample.ResLevel2, downsample.ResLevel2, math.MaxInt64)}})
	}
	// a resolution holding several blocks in time order, as after a sync
	base := common.Pick(r, resLevels...)
	k := 4 + r.Intn(4)
	for i := 0; i < k; i++ {
		add(blk{int64(10 * i), int64(10*i + 10), base})
	}
	for i := r.Intn(4); i > 0; i-- {
		a := int64(r.Intn(60))
		add(blk{a, a + 1 + int64(r.Intn(25)), common.Pick(r, resLevels...)})
	}
	for len(in.Ops) < maxOps {
		switch x := r.Intn(10); {
		case x < 3 && len(live) > 0: // retention / compaction removes a block, mostly an old one
			j := 0
			if r.Intn(3) == 0 {
				j = r.Intn(len(live))
			}
			in.Ops = append(in.Ops, hop{Remove: ip(live[j])})
			live = append(live[:j], live[j+1:]...)
			query()
		case x < 5:
			a := int64(r.Intn(80))
			b := blk{a, a + 1 + int64(r.Intn(25)), common.Pick(r, resLevels...)}
			if r.Intn(15) == 0 {
				b.Res = 1000 // unsupported: add fails
			}
			add(b)
		default:
			query()
		}
	}
	return in
}

func gen(r *rand.Rand, tier string, n int) []any {
	var out []any
	for i := 0; i < n/5; i++ {
		out = append(out, genHistory(r, 10+r.Intn(12)))
	}
	maxBlocks := 10
	if tier == "thorough" {
		maxBlocks = 24
	}
	for i := 0; i < n; i++ {
		var in input
		nb := r.Intn(maxBlocks + 1)
		switch style := r.Intn(4); style {
		case 0: // small coordinates: many coincidences, nesting, overlaps, gaps
			for k := 0; k < nb; k++ {
				a := int64(r.Intn(30))
				b := a + 1 + int64(r.Intn(12))
				if r.Intn(25) == 0 {
					b = a - int64(r.Intn(3)) // degenerate block (max <= min)
				}
				in.Blocks = append(in.Blocks, blk{a, b, common.Pick(r, resLevels...)})
			}
			in.Mint = int64(r.Intn(40)) - 5
			in.Maxt = in.Mint + int64(r.Intn(40))
		case 1: // realistic: contiguous raw blocks, downsampled copies of some, compacted at different paces
			unit := int64(7200000)
			base := int64(1600000000000) / unit * unit
			cnt := 1 + r.Intn(8)
			for lvl := 0; lvl < 3; lvl++ {
				k := 0
				for k < cnt {
					w := 1 + r.Intn(3) // compacted width
					if k+w > cnt {
						w = cnt - k
					}
					if lvl == 0 || r.Intn(4) != 0 { // partial downsampling coverage
						in.Blocks = append(in.Blocks, blk{base + int64(k)*unit, base + int64(k+w)*unit, resLevels[lvl]})
					}
					k += w
				}
			}
			r.Shuffle(len(in.Blocks), func(a, b int) { in.Blocks[a], in.Blocks[b] = in.Blocks[b], in.Blocks[a] })
			in.Mint = base + int64(r.Intn(int(unit)*cnt)) - unit/2
			in.Maxt = in.Mint + int64(r.Intn(int(unit)*cnt))
		case 2: // one level heavily overlapping, others sparse
			heavy := common.Pick(r, resLevels...)
			for k := 0; k < nb; k++ {
				a := int64(r.Intn(50))
				b := a + 1 + int64(r.Intn(30))
				res := heavy
				if r.Intn(3) == 0 {
					res = common.Pick(r, resLevels...)
				}
				in.Blocks = append(in.Blocks, blk{a, b, res})
			}
			in.Mint = int64(r.Intn(30))
			in.Maxt = in.Mint + int64(r.Intn(60))
		default: // a fine block spanning coarse blocks, and equal ranges across levels
			span := blk{0, 10 * int64(1+r.Intn(6)), common.Pick(r, resLevels[0], resLevels[1])}
			in.Blocks = append(in.Blocks, span)
			for k := 0; k < nb; k++ {
				a := int64(r.Intn(int(span.Max)))
				b := a + 1 + int64(r.Intn(15))
				in.Blocks = append(in.Blocks, blk{a, b, common.Pick(r, resLevels...)})
			}
			if r.Intn(2) == 0 {
				in.Blocks = append(in.Blocks, blk{span.Min, span.Max, downsample.ResLevel2})
			}
			in.Mint = int64(r.Intn(20)) - 5
			in.Maxt = in.Mint + int64(r.Intn(80))
		}
		if r.Intn(20) == 0 && len(in.Blocks) > 0 { // unsupported resolution: add fails
			in.Blocks[r.Intn(len(in.Blocks))].Res = common.Pick(r, int64(1000), 60000, -1, 3600001)
		}
		if r.Intn(25) == 0 {
			in.Mint, in.Maxt = in.Maxt+1, in.Mint // empty range
		}
		if r.Intn(30) == 0 {
			in.Mint, in.Maxt = math.MinInt64/2, math.MaxInt64/2
		}
		in.MaxRes = common.Pick(r, int64(0), 0, 1, downsample.ResLevel1-1, downsample.ResLevel1, downsample.ResLevel1, downsample.ResLevel1+1,
			downsample.ResLevel2-1, downsample.ResLevel2, downsample.ResLevel2, downsample.ResLevel2, downsample.ResLevel2+1, math.MaxInt64)
		if r.Intn(40) == 0 {
			in.MaxRes = common.Pick(r, int64(-1), -300000, math.MinInt64)
		}
		out = append(out, in)
	}
	return out
}

func main() {
	common.Main(common.Prop{ID: "C15", Facts: facts, Gen: gen, Run: run, QuickN: 800, ThoroughN: 12000,
		Preamble: "Open Scope Z_scope.\n"})
}
