package receiveutil

import (
	"bytes"
	"context"
	"fmt"
	"net/http"
	"net/http/httptest"
	"strings"
	"sync"
	"time"

	"github.com/go-kit/log"

	"github.com/thanos-io/thanos/pkg/receive"
	"github.com/thanos-io/thanos/pkg/store/storepb"
	"github.com/thanos-io/thanos/pkg/store/storepb/prompb"
	"github.com/thanos-io/thanos/pkg/tenancy"
)

// captureScript accepts every forwarded write at once and keeps what was sent.
type captureScript struct {
	mu   sync.Mutex
	reqs []*storepb.WriteRequest
}

func (c *captureScript) Connect(string) error { return nil }
func (c *captureScript) Await(_ context.Context, _ string, _ uint64, in *storepb.WriteRequest) error {
	c.mu.Lock()
	c.reqs = append(c.reqs, in)
	c.mu.Unlock()
	return nil
}
func (c *captureScript) Delivered(string, uint64, []int, error) {}

// IngestResult is what one HTTP remote-write request produced.
type IngestResult struct {
	Status   int
	Body     string
	Panic    string              // non-empty: request handling panicked (recovered by the harness)
	Ingested []prompb.TimeSeries // series handed to the (single) ingesting node, deep-copied
}

// IngestSession is one single-node Handler (replication factor 1) whose only
// peer records the series it is asked to ingest; requests are sent through
// receiveHTTP one after the other, on the caller's goroutine.
type IngestSession struct {
	h  *receive.Handler
	sc *captureScript
}

func NewIngestSession() (*IngestSession, error) {
	limiter, err := receive.NewLimiter(nil, nil, receive.RouterIngestor, log.NewNopLogger(), time.Second)
	if err != nil {
		return nil, err
	}
	h := receive.NewHandler(log.NewNopLogger(), &receive.Options{
		TenantHeader:      tenancy.DefaultTenantHeader,
		ReplicaHeader:     receive.DefaultReplicaHeader,
		ReplicationFactor: 1,
		ForwardTimeout:    time.Minute,
		Limiter:           limiter,
		ReceiverMode:      receive.RouterIngestor,
		Endpoint:          "self-not-in-ring",
	})
	sc := &captureScript{}
	receive.VerifSetPeers(h, sc, 4)
	h.Hashring(receive.SingleNodeHashring("node-0"))
	return &IngestSession{h: h, sc: sc}, nil
}

func (s *IngestSession) Close() { receive.VerifClosePeers(s.h) }

// Send sends body (already snappy-compressed) and reports the status and the
// series handed to ingestion by THIS request.
func (s *IngestSession) Send(body []byte, headers map[string]string) (res *IngestResult, err error) {
	s.sc.mu.Lock()
	s.sc.reqs = nil
	s.sc.mu.Unlock()
	req, err := http.NewRequest("POST", "http://receive/api/v1/receive", bytes.NewReader(body))
	if err != nil {
		return nil, err
	}
	req.Header.Set(tenancy.DefaultTenantHeader, "t1")
	for k, v := range headers {
		req.Header.Set(k, v)
	}
	rec := httptest.NewRecorder()
	res = &IngestResult{}
	func() {
		defer func() {
			if p := recover(); p != nil {
				res.Panic = fmt.Sprint(p)
			}
		}()
		s.h.VerifReceiveHTTP(rec, req)
	}()
	res.Status, res.Body = rec.Code, rec.Body.String()
	s.sc.mu.Lock()
	defer s.sc.mu.Unlock()
	for _, r := range s.sc.reqs {
		for _, td := range r.TimeseriesTenantData {
			for _, ts := range td.Timeseries {
				res.Ingested = append(res.Ingested, cloneSeries(ts))
			}
		}
	}
	return res, nil
}

// IngestHTTP sends one request through a fresh session.
func IngestHTTP(body []byte, headers map[string]string) (*IngestResult, error) {
	s, err := NewIngestSession()
	if err != nil {
		return nil, err
	}
	defer s.Close()
	return s.Send(body, headers)
}

func cloneSeries(ts prompb.TimeSeries) prompb.TimeSeries {
	out := ts
	out.Labels = nil
	for _, l := range ts.Labels {
		l.Name, l.Value = strings.Clone(l.Name), strings.Clone(l.Value)
		out.Labels = append(out.Labels, l)
	}
	out.Exemplars = nil
	for _, e := range ts.Exemplars {
		ne := e
		ne.Labels = nil
		for _, l := range e.Labels {
			l.Name, l.Value = strings.Clone(l.Name), strings.Clone(l.Value)
			ne.Labels = append(ne.Labels, l)
		}
		out.Exemplars = append(out.Exemplars, ne)
	}
	return out
}
