// Package receiveutil holds helpers shared by the receive-group harnesses
// (C22..C26): source-fact extraction on top of common/srcfacts and the fan-out
// rig that scripts peer responses of a real receive.Handler.
package receiveutil

import (
	"fmt"
	"go/ast"
	"go/token"
	"io"
	"net/http"
	"strings"

	"github.com/thanos-io/thanos/zzverif/common"
)

// SubstExpr rebuilds e bottom-up applying f to every (sub)expression of the
// integer/boolean fragment (paren, unary, binary, call). f returns nil to keep a node.
func SubstExpr(e ast.Expr, f func(ast.Expr) ast.Expr) ast.Expr {
	if e == nil {
		return nil
	}
	if r := f(e); r != nil {
		return r
	}
	switch x := e.(type) {
	case *ast.ParenExpr:
		return &ast.ParenExpr{Lparen: x.Lparen, X: SubstExpr(x.X, f), Rparen: x.Rparen}
	case *ast.UnaryExpr:
		return &ast.UnaryExpr{OpPos: x.OpPos, Op: x.Op, X: SubstExpr(x.X, f)}
	case *ast.BinaryExpr:
		return &ast.BinaryExpr{X: SubstExpr(x.X, f), OpPos: x.OpPos, Op: x.Op, Y: SubstExpr(x.Y, f)}
	case *ast.CallExpr:
		args := make([]ast.Expr, len(x.Args))
		for i, a := range x.Args {
			args[i] = SubstExpr(a, f)
		}
		return &ast.CallExpr{Fun: x.Fun, Lparen: x.Lparen, Args: args, Rparen: x.Rparen}
	}
	return e
}

func substStmts(l []ast.Stmt, f func(ast.Expr) ast.Expr) []ast.Stmt {
	out := make([]ast.Stmt, len(l))
	for i, s := range l {
		out[i] = substStmt(s, f)
	}
	return out
}

func substStmt(s ast.Stmt, f func(ast.Expr) ast.Expr) ast.Stmt {
	switch x := s.(type) {
	case *ast.BlockStmt:
		return &ast.BlockStmt{Lbrace: x.Lbrace, List: substStmts(x.List, f), Rbrace: x.Rbrace}
	case *ast.ReturnStmt:
		rs := make([]ast.Expr, len(x.Results))
		for i, r := range x.Results {
			rs[i] = SubstExpr(r, f)
		}
		return &ast.ReturnStmt{Return: x.Return, Results: rs}
	case *ast.IfStmt:
		n := &ast.IfStmt{If: x.If, Init: x.Init, Cond: SubstExpr(x.Cond, f)}
		n.Body = substStmt(x.Body, f).(*ast.BlockStmt)
		if x.Else != nil {
			n.Else = substStmt(x.Else, f)
		}
		return n
	case *ast.AssignStmt:
		rs := make([]ast.Expr, len(x.Rhs))
		for i, r := range x.Rhs {
			rs[i] = SubstExpr(r, f)
		}
		return &ast.AssignStmt{Lhs: x.Lhs, TokPos: x.TokPos, Tok: x.Tok, Rhs: rs}
	}
	return s
}

// SelectorText renders a.b.c selector chains ("" for anything else).
func SelectorText(e ast.Expr) string {
	switch x := e.(type) {
	case *ast.Ident:
		return x.Name
	case *ast.SelectorExpr:
		p := SelectorText(x.X)
		if p == "" {
			return ""
		}
		return p + "." + x.Sel.Name
	}
	return ""
}

// ReplaceSelectors returns a substitution turning the given selector chains /
// len(...) calls (by source text) into plain identifiers.
func ReplaceSelectors(s *common.SrcFile, m map[string]string) func(ast.Expr) ast.Expr {
	return func(e ast.Expr) ast.Expr {
		switch e.(type) {
		case *ast.SelectorExpr, *ast.CallExpr:
			if to, ok := m[s.ExprString(e)]; ok {
				return ast.NewIdent(to)
			}
		}
		return nil
	}
}

// TranslateMethodWithFields translates a parameterless integer method whose
// body reads struct fields: each field selector (by source text) becomes an
// integer parameter of the emitted Definition. Everything else is left to
// common.TranslateFunc (which refuses what it does not understand).
func TranslateMethodWithFields(s *common.SrcFile, name, coqName string, fields map[string]string, order []string) (string, error) {
	fd, err := s.FindFunc(name)
	if err != nil {
		return "", err
	}
	if fd.Type.Params != nil && len(fd.Type.Params.List) != 0 {
		return "", fmt.Errorf("receiveutil: %s: expected a parameterless method", name)
	}
	saveBody, saveParams := fd.Body, fd.Type.Params
	defer func() { fd.Body, fd.Type.Params = saveBody, saveParams }()
	fd.Body = substStmt(fd.Body, ReplaceSelectors(s, fields)).(*ast.BlockStmt)
	var pl []*ast.Field
	for _, p := range order {
		pl = append(pl, &ast.Field{Names: []*ast.Ident{ast.NewIdent(p)}, Type: ast.NewIdent("int64")})
	}
	fd.Type.Params = &ast.FieldList{List: pl}
	return s.TranslateFunc(name, common.TranslateOpts{CoqName: coqName})
}

// freeIdents lists identifiers of an expression of the integer fragment.
func freeIdents(e ast.Expr) []string {
	var out []string
	ast.Inspect(e, func(n ast.Node) bool {
		switch x := n.(type) {
		case *ast.CallExpr:
			for _, a := range x.Args {
				out = append(out, freeIdents(a)...)
			}
			return false
		case *ast.SelectorExpr:
			out = append(out, "<selector "+SelectorText(x)+">")
			return false
		case *ast.Ident:
			out = append(out, x.Name)
		}
		return true
	})
	return out
}

// ExprDefinition emits `Definition name (params : Z) : Z := <expr>.` for an
// integer expression whose free identifiers must all be among params.
func ExprDefinition(s *common.SrcFile, name string, e ast.Expr, params []string) (string, error) {
	allowed := map[string]bool{}
	for _, p := range params {
		allowed[p] = true
	}
	for _, id := range freeIdents(e) {
		if !allowed[id] {
			return "", fmt.Errorf("receiveutil: %s: expression %q mentions %s, which is not one of %v", name, s.ExprString(e), id, params)
		}
	}
	body, err := s.TranslateExpr(e, nil, nil)
	if err != nil {
		return "", err
	}
	return fmt.Sprintf("Definition %s %s : Z := %s.\n", name, "("+strings.Join(params, " ")+" : Z)", body), nil
}

// FirstCall returns the first call to callee (by rendered callee text) inside fn.
func FirstCall(s *common.SrcFile, fn, callee string) (*ast.CallExpr, error) {
	fd, err := s.FindFunc(fn)
	if err != nil {
		return nil, err
	}
	var found *ast.CallExpr
	ast.Inspect(fd.Body, func(n ast.Node) bool {
		if found != nil {
			return false
		}
		if c, ok := n.(*ast.CallExpr); ok && s.ExprString(c.Fun) == callee {
			found = c
			return false
		}
		return true
	})
	if found == nil {
		return nil, fmt.Errorf("receiveutil: %s: no call to %s in %s", s.Path, callee, fn)
	}
	return found, nil
}

var httpStatus = map[string]int{
	"http.StatusOK": http.StatusOK, "http.StatusBadRequest": http.StatusBadRequest,
	"http.StatusConflict": http.StatusConflict, "http.StatusServiceUnavailable": http.StatusServiceUnavailable,
	"http.StatusInternalServerError": http.StatusInternalServerError, "http.StatusTooManyRequests": http.StatusTooManyRequests,
	"http.StatusRequestEntityTooLarge": http.StatusRequestEntityTooLarge, "http.StatusUnprocessableEntity": http.StatusUnprocessableEntity,
	"http.StatusGatewayTimeout": http.StatusGatewayTimeout, "http.StatusRequestTimeout": http.StatusRequestTimeout,
}

// StatusSwitchArms extracts, from the `switch <tagText> { case a, b: v = http.StatusX ... }`
// statement inside fn, the association list case-identifier -> status code
// ("default" for the default arm), as a Coq `list (string * Z)`.
func StatusSwitchArms(s *common.SrcFile, fn, tagText, assigned, coqName string) (string, error) {
	fd, err := s.FindFunc(fn)
	if err != nil {
		return "", err
	}
	var sw *ast.SwitchStmt
	ast.Inspect(fd.Body, func(n ast.Node) bool {
		if x, ok := n.(*ast.SwitchStmt); ok && sw == nil && x.Tag != nil && s.ExprString(x.Tag) == tagText {
			sw = x
			return false
		}
		return true
	})
	if sw == nil {
		return "", fmt.Errorf("receiveutil: %s: no `switch %s` in %s", s.Path, tagText, fn)
	}
	var parts []string
	for _, st := range sw.Body.List {
		cc := st.(*ast.CaseClause)
		code := -1
		for _, b := range cc.Body {
			as, ok := b.(*ast.AssignStmt)
			if !ok || len(as.Lhs) != 1 || len(as.Rhs) != 1 || as.Tok != token.ASSIGN {
				continue
			}
			if id, ok := as.Lhs[0].(*ast.Ident); ok && id.Name == assigned {
				v, ok := httpStatus[s.ExprString(as.Rhs[0])]
				if !ok {
					return "", fmt.Errorf("receiveutil: %s: status expression %s not understood", fn, s.ExprString(as.Rhs[0]))
				}
				code = v
			}
		}
		if code < 0 {
			return "", fmt.Errorf("receiveutil: %s: a case arm of `switch %s` does not assign %s", fn, tagText, assigned)
		}
		if cc.List == nil {
			parts = append(parts, fmt.Sprintf("(%s, %d)", common.CoqString("default"), code))
		}
		for _, e := range cc.List {
			parts = append(parts, fmt.Sprintf("(%s, %d)", common.CoqString(s.ExprString(e)), code))
		}
	}
	return fmt.Sprintf("Definition %s : list (string * Z) :=\n  [%s]%%string.\n", coqName, strings.Join(parts, "; ")), nil
}

// ExpectedErrorsOrder extracts the `expectedErrors{{err: X, cause: p}, ...}`
// literal of fn as a Coq `list (string * string)` of (sentinel, predicate) names in source order.
func ExpectedErrorsOrder(s *common.SrcFile, fn, coqName string) (string, error) {
	fd, err := s.FindFunc(fn)
	if err != nil {
		return "", err
	}
	var lit *ast.CompositeLit
	ast.Inspect(fd.Body, func(n ast.Node) bool {
		if x, ok := n.(*ast.CompositeLit); ok && lit == nil && x.Type != nil && s.ExprString(x.Type) == "expectedErrors" {
			lit = x
			return false
		}
		return true
	})
	if lit == nil {
		return "", fmt.Errorf("receiveutil: %s: no expectedErrors literal in %s", s.Path, fn)
	}
	var parts []string
	for _, el := range lit.Elts {
		cl, ok := el.(*ast.CompositeLit)
		if !ok {
			return "", fmt.Errorf("receiveutil: %s: expectedErrors element not a literal", fn)
		}
		var e, c string
		for _, kv := range cl.Elts {
			k, ok := kv.(*ast.KeyValueExpr)
			if !ok {
				return "", fmt.Errorf("receiveutil: %s: expectedErrors element without keys", fn)
			}
			switch s.ExprString(k.Key) {
			case "err":
				e = s.ExprString(k.Value)
			case "cause":
				c = s.ExprString(k.Value)
			case "count":
				return "", fmt.Errorf("receiveutil: %s: expectedErrors element presets count", fn)
			}
		}
		if e == "" || c == "" {
			return "", fmt.Errorf("receiveutil: %s: expectedErrors element lacks err/cause", fn)
		}
		parts = append(parts, fmt.Sprintf("(%s, %s)", common.CoqString(e), common.CoqString(c)))
	}
	return fmt.Sprintf("Definition %s : list (string * string) :=\n  [%s]%%string.\n", coqName, strings.Join(parts, "; ")), nil
}

// Skeleton keeps only the if/return events of a function (its decision skeleton).
func Skeleton(s *common.SrcFile, fn string) ([]common.Event, error) {
	evs, err := s.CallOrder(fn)
	if err != nil {
		return nil, err
	}
	var out []common.Event
	for _, e := range evs {
		if e.Kind == "if" || e.Kind == "return" || e.Kind == "else" {
			out = append(out, e)
		}
	}
	return out, nil
}

// QuorumFacts writes the facts C22 needs from pkg/receive/handler.go:
// writeQuorum, the failureThreshold expression, the skeleton of
// canReturnEarly and the conditions under which fanoutForward adds a series
// error (the tests on failures[i]).
func QuorumFacts(s *common.SrcFile, w io.Writer) error {
	d, err := TranslateMethodWithFields(s, "Handler.writeQuorum", "writeQuorum",
		map[string]string{"h.options.ReplicationFactor": "rf"}, []string{"rf"})
	if err != nil {
		return err
	}
	fmt.Fprintln(w, "(* pkg/receive/handler.go: Handler.writeQuorum; rf = h.options.ReplicationFactor *)")
	fmt.Fprintln(w, d)
	rhs, err := s.RHS("Handler.fanoutForward", "failureThreshold")
	if err != nil {
		return err
	}
	rhs = SubstExpr(rhs, ReplaceSelectors(s, map[string]string{"len(params.replicas)": "nreplicas"}))
	d, err = ExprDefinition(s, "failureThreshold_expr", rhs, []string{"nreplicas", "successThreshold"})
	if err != nil {
		return err
	}
	fmt.Fprintln(w, "(* fanoutForward: failureThreshold := ...; nreplicas = len(params.replicas) *)")
	fmt.Fprintln(w, d)
	evs, err := Skeleton(s, "canReturnEarly")
	if err != nil {
		return err
	}
	fmt.Fprintf(w, "(* canReturnEarly: if/return skeleton in source order *)\n%s\n", common.EventsCoq("canReturnEarly_skeleton", evs))
	evs, err = Skeleton(s, "Handler.fanoutForward")
	if err != nil {
		return err
	}
	var sel []common.Event
	for _, e := range evs {
		if e.Kind == "if" && (strings.Contains(e.Text, "failures[") || strings.Contains(e.Text, "canReturnEarly") || e.Text == "!hasMore" || e.Text == "resp.err != nil" || e.Text == "params.alreadyReplicated") {
			sel = append(sel, e)
		}
		if e.Kind == "return" && (strings.Contains(e.Text, "writeErrors.ErrOrNil()") || strings.Contains(e.Text, "ctx.Err()")) {
			sel = append(sel, e)
		}
	}
	fmt.Fprintf(w, "(* fanoutForward: the decisions of the response loop, in source order *)\n%s\n", common.EventsCoq("fanout_decisions", sel))
	return nil
}

// bookkeeping callees whose order decides "exactly one response per write,
// all of them before the response channel is closed"
var sendCallees = map[string]bool{
	"wg.Add": true, "wg.Done": true, "wg.Wait": true, "close": true, "newWriteResponse": true, "cb": true,
	"h.tryWrite": true, "h.sendWrite": true, "h.sendWrites": true, "h.prepareRemoteWrite": true,
	"cl.TryRemoteWriteAsync": true, "cl.RemoteWriteAsync": true, "p.wp.Go": true, "p.wp.TryGo": true,
	"p.client.RemoteWrite": true, "h.peers.getConnection": true, "p.buildWork": true,
}

func filterSend(evs []common.Event) []common.Event {
	var out []common.Event
	for _, e := range evs {
		switch e.Kind {
		case "call", "defer":
			if sendCallees[e.Text] {
				out = append(out, e)
			}
		case "return":
			// keep which value is returned only where it decides the protocol
			t := e.Text
			if strings.Contains(t, "TryRemoteWriteAsync") || strings.Contains(t, "TryGo") {
				t = "<try result>"
			} else if t != "true" && t != "false" && t != "" && t != "nil, nil, nil" {
				t = "<value>"
			}
			out = append(out, common.Event{Kind: "return", Text: t})
		case "if":
			t := e.Text
			if !(strings.Contains(t, "tryWrite") || t == "cl == nil" || t == "err != nil" || strings.Contains(t, "wp.Go")) {
				t = "<other>"
			}
			out = append(out, common.Event{Kind: "if", Text: t})
		case "endif", "else", "for", "endfor", "funclit", "endfunclit", "go", "endgo":
			out = append(out, common.Event{Kind: e.Kind})
		}
	}
	return out
}

// SendFacts writes the bookkeeping skeletons of the functions that turn the
// distributed writes into responses on fanoutForward's channel.
func SendFacts(s *common.SrcFile, w io.Writer) error {
	for _, f := range [][2]string{
		{"Handler.sendWrites", "sendWrites_protocol"}, {"Handler.tryWrite", "tryWrite_protocol"},
		{"Handler.sendWrite", "sendWrite_protocol"}, {"Handler.prepareRemoteWrite", "prepareRemoteWrite_protocol"},
		{"peerWorker.buildWork", "buildWork_protocol"}, {"peerWorker.RemoteWriteAsync", "remoteWriteAsync_protocol"},
		{"peerWorker.TryRemoteWriteAsync", "tryRemoteWriteAsync_protocol"},
	} {
		evs, err := s.CallOrder(f[0])
		if err != nil {
			return err
		}
		fmt.Fprintf(w, "(* %s: bookkeeping events (WaitGroup, response sends, pool submission) in source order *)\n%s\n", f[0], common.EventsCoq(f[1], filterSend(evs)))
	}
	// the goroutine of fanoutForward that runs sendWrites, waits and closes the channel
	evs, err := s.CallOrder("Handler.fanoutForward")
	if err != nil {
		return err
	}
	var goEvs []common.Event
	depth := 0
	for _, e := range evs {
		if e.Kind == "go" && depth == 0 {
			depth = 1
			goEvs = goEvs[:0]
			continue
		}
		if depth > 0 {
			if e.Kind == "endgo" {
				depth = 0
				found := false
				for _, g := range goEvs {
					if g.Kind == "call" && g.Text == "h.sendWrites" {
						found = true
					}
				}
				if found {
					break
				}
				continue
			}
			goEvs = append(goEvs, e)
		}
	}
	fmt.Fprintf(w, "(* fanoutForward: the goroutine that sends the writes, waits for them and closes the response channel *)\n%s\n", common.EventsCoq("fanout_sender_protocol", filterSend(goEvs)))
	return nil
}
