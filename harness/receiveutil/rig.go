package receiveutil

import (
	"bytes"
	"context"
	"fmt"
	"net/http"
	"net/http/httptest"
	"runtime"
	"sort"
	"strconv"
	"sync"
	"sync/atomic"
	"time"

	"github.com/go-kit/log"
	"github.com/gogo/protobuf/proto"
	"github.com/golang/snappy"
	"github.com/pkg/errors"
	"github.com/prometheus/prometheus/storage"
	"github.com/prometheus/prometheus/tsdb"
	"google.golang.org/grpc/codes"
	"google.golang.org/grpc/status"

	"github.com/thanos-io/thanos/pkg/receive"
	"github.com/thanos-io/thanos/pkg/store/labelpb"
	"github.com/thanos-io/thanos/pkg/store/storepb"
	"github.com/thanos-io/thanos/pkg/store/storepb/prompb"
	"github.com/thanos-io/thanos/pkg/tenancy"
)

// Write is one forwarded write (node, replica) with the scripted outcome; the
// position in FanoutInput.Writes is the order in which responses are released.
type Write struct {
	Node int    `json:"node"`
	Rep  int    `json:"rep"`
	Kind string `json:"kind"` // ok | conflict | conflict_local | unavail | unavail_sent | notready | other | hang (the peer never answers: the forward timeout decides)
}

// FanoutInput scripts one remote-write request through a real receive.Handler.
type FanoutInput struct {
	RF      int     `json:"rf"`
	Replica int     `json:"replica"` // THANOS-REPLICA header value; 0 = header absent (not yet replicated)
	Place   [][]int `json:"place"`   // Place[series][replica] = node the fake hashring returns
	Writes  []Write `json:"writes"`
	// Workers is the size of every peer's worker pool (0 = 16: never saturated).
	// With a small pool some writes are rejected by the non-blocking first pass
	// of sendWrites and go through the blocking second pass; responses are then
	// released in script order as far as the pool lets them start.
	Workers int `json:"workers,omitempty"`
}

// Kinds in the order used by the Coq models.
var Kinds = []string{"ok", "conflict", "conflict_local", "unavail", "unavail_sent", "notready", "other"}

// KindCoq maps a kind to the model's constructor.
func KindCoq(k string) string {
	switch k {
	case "ok":
		return "KOk"
	case "conflict", "conflict_local":
		return "KConflict"
	case "unavail":
		return "KUnavailGrpc"
	case "unavail_sent":
		return "KUnavailSent"
	case "notready":
		return "KNotReady"
	}
	return "KOther"
}

func kindErr(k string) error {
	switch k {
	case "ok":
		return nil
	case "conflict":
		return status.Error(codes.AlreadyExists, "conflict")
	case "conflict_local":
		return errors.Wrap(storage.ErrOutOfOrderSample, "writing locally")
	case "unavail":
		return status.Error(codes.Unavailable, "unavailable")
	case "unavail_sent":
		return errors.Wrap(receive.VerifSentinel("unavailable"), "backing off")
	case "notready":
		return errors.Wrap(tsdb.ErrNotReady, "writing locally")
	}
	return errors.New("boom")
}

// ExpectedWrites lists the distinct (node, replica) pairs a request produces.
func (in *FanoutInput) ExpectedWrites() map[[2]int]bool {
	m := map[[2]int]bool{}
	if in.Replica > in.RF {
		return m
	}
	for _, p := range in.Place {
		if in.Replica != 0 {
			m[[2]int{p[in.Replica-1], in.Replica - 1}] = true
			continue
		}
		for r := 0; r < in.RF; r++ {
			m[[2]int{p[r], r}] = true
		}
	}
	return m
}

type fakeRing struct{ place [][]int }

func (f *fakeRing) GetN(_ string, ts *prompb.TimeSeries, n uint64) (receive.Endpoint, error) {
	for _, l := range ts.Labels {
		if l.Name == "series" {
			i, err := strconv.Atoi(l.Value)
			if err != nil || i < 0 || i >= len(f.place) || int(n) >= len(f.place[i]) {
				return receive.Endpoint{}, fmt.Errorf("fake hashring: no placement for series %q replica %d", l.Value, n)
			}
			a := fmt.Sprintf("node-%d", f.place[i][n])
			return receive.Endpoint{Address: a, CapNProtoAddress: a}, nil
		}
	}
	return receive.Endpoint{}, fmt.Errorf("fake hashring: series label missing")
}
func (f *fakeRing) Nodes() []receive.Endpoint { return nil }
func (f *fakeRing) Close()                    {}

type wkey struct {
	ep  string
	rep uint64
}

type script struct {
	mu        sync.Mutex
	cond      *sync.Cond
	parked    map[wkey]chan error
	delivered map[wkey][]int
	count     map[wkey]int
	ndeliv    int
	nreleased int
}

func (s *script) Connect(string) error { return nil }

func (s *script) Await(_ context.Context, ep string, rep uint64, _ *storepb.WriteRequest) error {
	ch := make(chan error, 1)
	s.mu.Lock()
	s.parked[wkey{ep, rep}] = ch
	s.cond.Broadcast()
	s.mu.Unlock()
	err := <-ch
	// counted BEFORE the worker puts the response on the channel, so that the
	// count read when the handler returns is never below what it consumed
	s.mu.Lock()
	s.nreleased++
	s.mu.Unlock()
	return err
}

func (s *script) Delivered(ep string, rep uint64, ids []int, _ error) {
	s.mu.Lock()
	s.delivered[wkey{ep, rep}] = append([]int(nil), ids...)
	s.count[wkey{ep, rep}]++
	s.ndeliv++
	s.cond.Broadcast()
	s.mu.Unlock()
}

// FanoutResult is what one scripted request produced.
type FanoutResult struct {
	Hung              bool    `json:"hung,omitempty"` // the handler did not answer within 8s after the last response
	Status            int     `json:"status"`
	Body              string  `json:"body"`
	DeliveredAtReturn int     `json:"delivered_at_return"`   // responses released to the channel when the handler returned (>= consumed, <= consumed+1)
	IDs               [][]int `json:"ids"`                   // series ids the handler attached to each write (in release order)
	Order             []int   `json:"order"`                 // indices into Writes in the order the responses were actually released
	Responses         []int   `json:"responses"`             // number of responses each write produced (in Writes order)
	HungWrites        []int   `json:"hung_writes,omitempty"` // indices into Writes of the peers that never answered
	ForwardTimeoutMS  int64   `json:"forward_timeout_ms,omitempty"`
}

// RunFanout sends one remote-write request with len(in.Place) series through
// receiveHTTP of a fresh Handler whose hashring and peers are scripted.
func RunFanout(in *FanoutInput) (*FanoutResult, error) {
	hasHang := false
	for _, w := range in.Writes {
		hasHang = hasHang || w.Kind == "hang"
	}
	if !hasHang {
		res, _, err := runFanoutOnce(in, 5*time.Minute, false)
		return res, err
	}
	// With hung peers the forward timeout ends the request. The scripted
	// responses must all be consumed well before it fires (else which of
	// "response" and "ctx.Done" the select takes is a race); a run in which the
	// last response was delivered later than half the timeout is repeated with
	// a four times longer timeout.
	var lastErr error
	for _, to := range []time.Duration{400 * time.Millisecond, 1600 * time.Millisecond, 6400 * time.Millisecond} {
		res, valid, err := runFanoutOnce(in, to, true)
		if err != nil {
			lastErr = err
			continue
		}
		if valid {
			return res, nil
		}
	}
	if lastErr != nil {
		return nil, lastErr
	}
	return nil, fmt.Errorf("could not deliver the scripted responses within half of a 6.4s forward timeout")
}

func runFanoutOnce(in *FanoutInput, forwardTimeout time.Duration, hasHang bool) (*FanoutResult, bool, error) {
	exp := in.ExpectedWrites()
	if len(exp) != len(in.Writes) {
		return nil, false, fmt.Errorf("input lists %d writes but the placement produces %d", len(in.Writes), len(exp))
	}
	for _, w := range in.Writes {
		if !exp[[2]int{w.Node, w.Rep}] {
			return nil, false, fmt.Errorf("write (%d,%d) is not produced by the placement", w.Node, w.Rep)
		}
	}
	for _, p := range in.Place {
		if len(p) != in.RF {
			return nil, false, fmt.Errorf("placement row of length %d, want rf=%d", len(p), in.RF)
		}
	}
	limiter, err := receive.NewLimiter(nil, nil, receive.RouterIngestor, log.NewNopLogger(), time.Second)
	if err != nil {
		return nil, false, err
	}
	h := receive.NewHandler(log.NewNopLogger(), &receive.Options{
		TenantHeader:      tenancy.DefaultTenantHeader,
		ReplicaHeader:     receive.DefaultReplicaHeader,
		ReplicationFactor: uint64(in.RF),
		ForwardTimeout:    forwardTimeout,
		Limiter:           limiter,
		ReceiverMode:      receive.RouterIngestor,
		Endpoint:          "self-not-in-ring",
	})
	sc := &script{parked: map[wkey]chan error{}, delivered: map[wkey][]int{}, count: map[wkey]int{}}
	sc.cond = sync.NewCond(&sc.mu)
	workers := uint(16)
	if in.Workers > 0 {
		workers = uint(in.Workers)
	}
	receive.VerifSetPeers(h, sc, workers)
	defer receive.VerifClosePeers(h)
	h.Hashring(&fakeRing{place: in.Place})

	wreq := &prompb.WriteRequest{}
	for i := range in.Place {
		wreq.Timeseries = append(wreq.Timeseries, prompb.TimeSeries{
			Labels:  []labelpb.ZLabel{{Name: "__name__", Value: "m"}, {Name: "series", Value: strconv.Itoa(i)}},
			Samples: []prompb.Sample{{Timestamp: 1000 + int64(i), Value: float64(i)}},
		})
	}
	buf, err := proto.Marshal(wreq)
	if err != nil {
		return nil, false, err
	}
	req, err := http.NewRequest("POST", "http://receive/api/v1/receive", bytes.NewBuffer(snappy.Encode(nil, buf)))
	if err != nil {
		return nil, false, err
	}
	req.Header.Set(tenancy.DefaultTenantHeader, "t1")
	if in.Replica != 0 {
		req.Header.Set(receive.DefaultReplicaHeader, strconv.Itoa(in.Replica))
	}
	rec := httptest.NewRecorder()
	var returned atomic.Bool
	var atReturn atomic.Int64
	var panicked any
	var retAt time.Time
	start := time.Now()
	done := make(chan struct{})
	go func() {
		defer close(done)
		defer func() {
			if r := recover(); r != nil {
				panicked = r
			}
			sc.mu.Lock()
			atReturn.Store(int64(sc.nreleased))
			retAt = time.Now()
			returned.Store(true)
			sc.cond.Broadcast()
			sc.mu.Unlock()
		}()
		h.VerifReceiveHTTP(rec, req)
	}()

	// wake the condition variable periodically so waits below can time out
	stopTick := make(chan struct{})
	defer close(stopTick)
	go func() {
		t := time.NewTicker(20 * time.Millisecond)
		defer t.Stop()
		for {
			select {
			case <-stopTick:
				return
			case <-t.C:
				sc.mu.Lock()
				sc.cond.Broadcast()
				sc.mu.Unlock()
			}
		}
	}()
	deadline := time.Now().Add(60 * time.Second)
	waitFor := func(cond func() bool) bool {
		sc.mu.Lock()
		defer sc.mu.Unlock()
		for !cond() {
			if time.Now().After(deadline) {
				return false
			}
			sc.cond.Wait()
		}
		return true
	}
	keyOf := func(w Write) wkey { return wkey{fmt.Sprintf("node-%d", w.Node), uint64(w.Rep)} }
	var order []int
	if in.Workers == 0 {
		// all writes parked (or the handler gave up before fanning out)
		if !waitFor(func() bool { return len(sc.parked) == len(in.Writes) || returned.Load() }) {
			return nil, false, fmt.Errorf("timeout waiting for %d forwarded writes (got %d)", len(in.Writes), len(sc.parked))
		}
	}
	releasedSet := map[int]bool{}
	nAnswer := 0
	var hungIdx []int
	for i, w := range in.Writes {
		if w.Kind == "hang" {
			hungIdx = append(hungIdx, i)
			releasedSet[i] = true // never released by the script
		} else {
			nAnswer++
		}
	}
	lastDelivery := start
	for k := 0; k < nAnswer; k++ {
		// next write in script order that has started; with a saturated pool a
		// write may only start after an earlier one on the same peer finished
		pick := -1
		choose := func() bool {
			pick = -1
			for i, w := range in.Writes {
				if !releasedSet[i] && sc.parked[keyOf(w)] != nil {
					pick = i
					return true
				}
			}
			return false
		}
		if in.Workers > 0 {
			// give the script's next write a moment to start, so that the script
			// order is followed where the pool allows it (preference only)
			next := -1
			for i := range in.Writes {
				if !releasedSet[i] {
					next = i
					break
				}
			}
			soft := time.Now().Add(30 * time.Millisecond)
			sc.mu.Lock()
			for sc.parked[keyOf(in.Writes[next])] == nil && time.Now().Before(soft) {
				sc.cond.Wait()
			}
			sc.mu.Unlock()
		}
		if !waitFor(choose) {
			sc.mu.Lock()
			none := len(sc.parked) == 0
			sc.mu.Unlock()
			if returned.Load() && none {
				break // nothing was forwarded
			}
			return nil, false, fmt.Errorf("timeout: %d of %d writes never started", nAnswer-k, len(in.Writes))
		}
		sc.mu.Lock()
		ch := sc.parked[keyOf(in.Writes[pick])]
		sc.mu.Unlock()
		releasedSet[pick] = true
		order = append(order, pick)
		ch <- kindErr(in.Writes[pick].Kind)
		if !waitFor(func() bool { return sc.ndeliv >= k+1 }) {
			return nil, false, fmt.Errorf("timeout waiting for delivery of response %d", k)
		}
		lastDelivery = time.Now()
		// let the fan-out loop consume this response before the next one is
		// released (keeps DeliveredAtReturn tight; correctness does not depend on it)
		for i := 0; i < 200 && !returned.Load(); i++ {
			runtime.Gosched()
		}
	}
	select {
	case <-done:
	case <-time.After(8*time.Second + func() time.Duration {
		if hasHang {
			return forwardTimeout
		}
		return 0
	}()):
		// every forwarded write has responded, yet the request is not answered:
		// reported to the caller as an observation (a failing case), not as a harness error
		res := &FanoutResult{Hung: true, Order: order, DeliveredAtReturn: len(order)}
		sc.mu.Lock()
		for _, i := range order {
			ids := append([]int(nil), sc.delivered[keyOf(in.Writes[i])]...)
			sort.Ints(ids)
			res.IDs = append(res.IDs, ids)
		}
		for _, w := range in.Writes {
			res.Responses = append(res.Responses, sc.count[keyOf(w)])
		}
		sc.mu.Unlock()
		return res, true, nil
	}
	if panicked != nil {
		return nil, false, fmt.Errorf("handler panicked: %v", panicked)
	}
	res := &FanoutResult{Status: rec.Code, Body: rec.Body.String(), DeliveredAtReturn: int(atReturn.Load()), Order: order, HungWrites: hungIdx}
	// every released write must have produced its response by now; give the
	// asynchronous completion callbacks a moment and then count
	waitFor(func() bool { return sc.ndeliv >= len(order) })
	sc.mu.Lock()
	for _, i := range order {
		ids := append([]int(nil), sc.delivered[keyOf(in.Writes[i])]...)
		sort.Ints(ids)
		res.IDs = append(res.IDs, ids)
	}
	for _, w := range in.Writes {
		res.Responses = append(res.Responses, sc.count[keyOf(w)])
	}
	// let the hung peers go so that the handler's goroutines can finish
	for _, i := range hungIdx {
		if ch := sc.parked[keyOf(in.Writes[i])]; ch != nil {
			ch <- errors.New("released by the harness after the request ended")
		}
	}
	sc.mu.Unlock()
	valid := true
	if hasHang {
		res.ForwardTimeoutMS = forwardTimeout.Milliseconds()
		timedOut := retAt.Sub(start) >= forwardTimeout
		if timedOut && lastDelivery.Sub(start) > forwardTimeout/2 {
			valid = false
		}
	}
	return res, valid, nil
}
