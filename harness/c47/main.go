// C47: the config reloader applies the latest configuration.
package main

import (
	"context"
	"encoding/json"
	"errors"
	"fmt"
	"io"
	"math/rand"
	"os"
	"path/filepath"
	"sort"
	"strings"
	"sync"
	"time"

	"github.com/thanos-io/thanos/pkg/reloader"
	"github.com/thanos-io/thanos/zzverif/common"
)

type stepIn struct {
	// edits applied before the apply call: nil pointer = delete, absent = unchanged
	Cfg    *string            `json:"cfg,omitempty"`
	DelCfg bool               `json:"del_cfg,omitempty"`
	Files  map[string]*string `json:"files,omitempty"`
	Fails  int                `json:"fails"`
	GiveUp bool               `json:"give_up,omitempty"`
	// DuringCfg: new content written to the config file in the middle of this apply pass, when
	// expandEnv logs its warning about an unset variable (needs tolerate and such a reference)
	DuringCfg *string `json:"during_cfg,omitempty"`
}

type input struct {
	Kind     string            `json:"kind,omitempty"` // "" = scripted apply calls; "watch" = the real Watch loop
	HasCfg   bool              `json:"has_cfg"`
	Tolerate bool              `json:"tolerate"`
	Env      map[string]string `json:"env"`
	Steps    []stepIn          `json:"steps"`
}

// every variable the generator may reference; those not in Env are unset
var allVars = []string{"V1", "V2", "V_3", "UNSET"}

func facts(repo string, w io.Writer) error {
	s, err := common.ParseSrc(repo, "pkg/reloader/reloader.go")
	if err != nil {
		return err
	}
	evs, err := s.CallOrder("Reloader.apply")
	if err != nil {
		return err
	}
	// keep only the `if` conditions and returns: the order of the decisions of apply
	var keep []common.Event
	for _, e := range evs {
		if e.Kind == "if" || e.Kind == "return" {
			keep = append(keep, e)
		}
	}
	fmt.Fprintln(w, "(* pkg/reloader/reloader.go: if-conditions and returns of Reloader.apply, in source order *)")
	fmt.Fprintln(w, common.EventsCoq("apply_decisions", keep))
	var reads []common.Event
	for _, e := range evs {
		if e.Kind == "call" && (e.Text == "hashFile" || e.Text == "r.normalize") {
			reads = append(reads, e)
		}
	}
	fmt.Fprintln(w, "(* pkg/reloader/reloader.go: the hashFile / r.normalize calls of Reloader.apply, in source order *)")
	fmt.Fprintln(w, common.EventsCoq("apply_reads", reads))
	wev, err := s.CallOrder("Reloader.Watch")
	if err != nil {
		return err
	}
	// the endless loop of Watch: everything from the last plain `for` on
	start := -1
	for i, e := range wev {
		if e.Kind == "for" && e.Text == "" {
			start = i
		}
	}
	if start < 0 {
		return fmt.Errorf("Watch: no plain for loop found")
	}
	fmt.Fprintln(w, "(* pkg/reloader/reloader.go: events of the endless loop of Reloader.Watch, in source order *)")
	fmt.Fprintln(w, common.EventsCoq("watch_loop", wev[start:]))
	return nil
}

// hookLogger runs fn once when a log call carries the given msg value.
type hookLogger struct {
	msg string
	fn  func()
}

func (h *hookLogger) Log(kv ...interface{}) error {
	if h.fn == nil {
		return nil
	}
	for i := 0; i+1 < len(kv); i += 2 {
		if k, ok := kv[i].(string); ok && k == "msg" {
			if v, ok := kv[i+1].(string); ok && v == h.msg {
				f := h.fn
				h.fn = nil
				f()
			}
		}
	}
	return nil
}

type fakeReload struct {
	fails, calls, ok int
	giveUp           bool
	cancel           context.CancelFunc
	dead             bool
}

func (f *fakeReload) TriggerReload(context.Context) error {
	f.calls++
	if f.dead {
		return errors.New("cancelled")
	}
	if f.calls <= f.fails {
		return errors.New("scripted failure")
	}
	if f.giveUp {
		f.dead = true
		f.cancel()
		return errors.New("scripted failure, giving up")
	}
	f.ok++
	return nil
}

type obsStep struct {
	Err       bool              `json:"err"`
	OutCfg    *string           `json:"out_cfg"`
	OutDir    map[string]string `json:"out_dir"`
	Tried     bool              `json:"tried"`
	Succeeded bool              `json:"succeeded"`
	Attempts  int               `json:"attempts"`
}

func coqFiles(m map[string]string) string {
	var names []string
	for n := range m {
		names = append(names, n)
	}
	sort.Strings(names)
	var xs []string
	for _, n := range names {
		xs = append(xs, common.Pair(common.Bytes(n), common.Bytes(m[n])))
	}
	return common.List(xs)
}

func optBytes(s *string) string {
	if s == nil {
		return common.None
	}
	return common.Some(common.Bytes(*s))
}

func run(raw json.RawMessage) (common.Case, error) {
	var in input
	if err := json.Unmarshal(raw, &in); err != nil {
		return common.Case{}, err
	}
	var c common.Case
	if in.Kind == "watch" {
		return runWatch(in)
	}
	for _, v := range allVars {
		os.Unsetenv(v)
	}
	var envNames []string
	for k, v := range in.Env {
		os.Setenv(k, v)
		envNames = append(envNames, k)
	}
	sort.Strings(envNames)
	defer func() {
		for k := range in.Env {
			os.Unsetenv(k)
		}
	}()
	root, err := os.MkdirTemp("", "c47")
	if err != nil {
		return c, err
	}
	defer os.RemoveAll(root)
	root, _ = filepath.EvalSymlinks(root)
	dir, outDir := filepath.Join(root, "in"), filepath.Join(root, "out")
	cfgPath, cfgOut := filepath.Join(root, "cfg.yaml"), filepath.Join(root, "cfg.out.yaml")
	os.Mkdir(dir, 0o755)
	os.Mkdir(outDir, 0o755)
	opts := &reloader.Options{
		CfgDirs:                       []reloader.CfgDirOption{{Dir: dir, OutputDir: outDir}},
		WatchInterval:                 time.Hour,
		RetryInterval:                 time.Millisecond,
		TolerateEnvVarExpansionErrors: in.Tolerate,
	}
	if in.HasCfg {
		opts.CfgFile, opts.CfgOutputFile = cfgPath, cfgOut
	}
	fr := &fakeReload{}
	hl := &hookLogger{msg: "expand environment variable"}
	rl := reloader.VerifC47NewWithLogger(hl, opts, fr)

	var curCfg *string
	cur := map[string]string{}
	var coqSteps []string
	var obs []obsStep
	// Go-side predicate state
	var lastOK, loaded *string
	pending, anyErrPass := false, false
	nEdits, nDuring := 0, 0
	for _, st := range in.Steps {
		if st.DelCfg {
			os.Remove(cfgPath)
			curCfg = nil
		} else if st.Cfg != nil {
			if err := os.WriteFile(cfgPath, []byte(*st.Cfg), 0o644); err != nil {
				return c, err
			}
			v := *st.Cfg
			curCfg = &v
			nEdits++
		}
		for n, v := range st.Files {
			p := filepath.Join(dir, n)
			if v == nil {
				os.Remove(p)
				delete(cur, n)
			} else {
				if err := os.WriteFile(p, []byte(*v), 0o644); err != nil {
					return c, err
				}
				cur[n] = *v
			}
			nEdits++
		}
		ctx, cancel := context.WithCancel(context.Background())
		*fr = fakeReload{fails: st.Fails, giveUp: st.GiveUp, cancel: cancel}
		// what this pass reads (an edit made while it runs lands after its reads of the config file)
		readCfg := curCfg
		readFiles := map[string]string{}
		for k, v := range cur {
			readFiles[k] = v
		}
		fired := false
		hl.fn = nil
		if st.DuringCfg != nil && in.HasCfg && curCfg != nil {
			newc := *st.DuringCfg
			hl.fn = func() {
				fired = true
				_ = os.WriteFile(cfgPath, []byte(newc), 0o644)
			}
		}
		aerr := reloader.VerifC47Apply(rl, ctx)
		hl.fn = nil
		cancel()
		if fired {
			v := *st.DuringCfg
			curCfg = &v
			nEdits++
			nDuring++
		}
		o := obsStep{Err: aerr != nil, OutDir: map[string]string{}, Tried: fr.calls > 0, Succeeded: fr.ok > 0, Attempts: fr.calls}
		if b, err := os.ReadFile(cfgOut); err == nil {
			s := string(b)
			o.OutCfg = &s
		}
		ents, _ := os.ReadDir(outDir)
		for _, e := range ents {
			b, err := os.ReadFile(filepath.Join(outDir, e.Name()))
			if err != nil {
				return c, err
			}
			o.OutDir[e.Name()] = string(b)
		}
		obs = append(obs, o)
		att := common.None
		if !st.GiveUp {
			att = common.Some(common.Nat(o.Attempts))
		}
		var cfgSnap *string
		if in.HasCfg {
			cfgSnap = readCfg
		}
		coqSteps = append(coqSteps, common.Tuple(
			common.Pair(optBytes(cfgSnap), coqFiles(readFiles)),
			common.Pair(common.Nat(st.Fails), common.Bool(st.GiveUp)),
			common.Tuple(common.Bool(o.Err), optBytes(o.OutCfg), coqFiles(o.OutDir), common.Bool(o.Tried), common.Bool(o.Succeeded), att)))
		// Go-side predicate (search aid)
		if o.Err {
			anyErrPass = true
			continue
		}
		snap := fmt.Sprint(cfgSnap != nil, cfgSnap, coqFiles(cur))
		if cfgSnap != nil {
			snap = fmt.Sprint(*cfgSnap, coqFiles(cur))
		}
		want := pending || lastOK == nil || *lastOK != snap
		if o.Tried != want && c.GoPred == "" {
			c.GoPred = fmt.Sprintf("reload attempted=%v but content changed since the last successful reload or a failed reload pending=%v", o.Tried, want)
			c.Sig = "reload-decision"
		}
		if o.Tried {
			pending = !o.Succeeded
			if o.Succeeded {
				lastOK = &snap
			}
		}
		outNow := fmt.Sprint(o.OutCfg != nil, coqFiles(o.OutDir))
		if o.OutCfg != nil {
			outNow = fmt.Sprint(*o.OutCfg, coqFiles(o.OutDir))
		}
		if o.Succeeded {
			loaded = &outNow
		}
		if !pending && (loaded == nil || *loaded != outNow) && c.GoPred == "" {
			c.GoPred = "no reload pending, but the outputs differ from those loaded by the last successful reload (the process runs a stale configuration)"
			c.Sig = "stale-loaded-config"
		}
		if len(o.OutDir) != len(cur) && c.GoPred == "" {
			c.GoPred = fmt.Sprintf("output directory has %d files for %d inputs", len(o.OutDir), len(cur))
			if anyErrPass {
				c.Sig = "stale-output-after-error-pass"
			} else {
				c.Sig = "stale-output"
			}
		}
	}
	var env []string
	for _, k := range envNames {
		env = append(env, common.Pair(common.Bytes(k), common.Bytes(in.Env[k])))
	}
	c.Coq = common.App("CReload", common.Bool(in.HasCfg), common.Bool(in.Tolerate), common.List(env), common.List(coqSteps))
	c.Obs = obs
	c.Class = fmt.Sprintf("cfg=%v/tolerate=%v", in.HasCfg, in.Tolerate)
	if nDuring > 0 {
		c.Class += "/edit-during-apply"
	}
	c.Nontrivial = len(in.Steps) >= 2 && nEdits >= 2
	return c, nil
}

type countingReload struct {
	mu         sync.Mutex
	failFirst  int
	calls, oks int
}

func (f *countingReload) TriggerReload(context.Context) error {
	f.mu.Lock()
	defer f.mu.Unlock()
	f.calls++
	if f.calls <= f.failFirst {
		return errors.New("scripted failure")
	}
	f.oks++
	return nil
}

func (f *countingReload) snapshot() (int, int) {
	f.mu.Lock()
	defer f.mu.Unlock()
	return f.calls, f.oks
}

// runWatch runs the real Watch loop (fsnotify + timers) while the files are edited
// step by step, then looks at the outcome some watch intervals after the last edit.
// runWatch retries a failing watch run: the real loop depends on timers, fsnotify and the
// scheduler, so on a heavily loaded machine a single run can miss its (generous) deadlines;
// a genuine defect of the loop fails every attempt, a timing artefact does not.
func runWatch(in input) (common.Case, error) {
	var c common.Case
	var err error
	for attempt := 0; attempt < 4; attempt++ {
		c, err = runWatchOnce(in)
		if err != nil || c.GoPred == "" {
			return c, err
		}
		time.Sleep(time.Duration(300*(attempt+1)) * time.Millisecond)
	}
	return c, err
}

func runWatchOnce(in input) (common.Case, error) {
	c := common.Case{Class: fmt.Sprintf("watch/cfg=%v", in.HasCfg)}
	for _, v := range allVars {
		os.Unsetenv(v)
	}
	var envNames []string
	for k, v := range in.Env {
		os.Setenv(k, v)
		envNames = append(envNames, k)
	}
	sort.Strings(envNames)
	defer func() {
		for k := range in.Env {
			os.Unsetenv(k)
		}
	}()
	root, err := os.MkdirTemp("", "c47w")
	if err != nil {
		return c, err
	}
	defer os.RemoveAll(root)
	root, _ = filepath.EvalSymlinks(root)
	dir, outDir := filepath.Join(root, "in"), filepath.Join(root, "out")
	cfgPath, cfgOut := filepath.Join(root, "cfg.yaml"), filepath.Join(root, "cfg.out.yaml")
	os.Mkdir(dir, 0o755)
	os.Mkdir(outDir, 0o755)
	const tick = 40 * time.Millisecond
	opts := &reloader.Options{
		CfgDirs:                       []reloader.CfgDirOption{{Dir: dir, OutputDir: outDir}},
		WatchInterval:                 tick,
		DelayInterval:                 3 * time.Millisecond,
		RetryInterval:                 time.Millisecond,
		TolerateEnvVarExpansionErrors: in.Tolerate,
	}
	var curCfg *string
	cur := map[string]string{}
	if in.HasCfg {
		opts.CfgFile, opts.CfgOutputFile = cfgPath, cfgOut
		first := "initial: 0\n"
		if err := os.WriteFile(cfgPath, []byte(first), 0o644); err != nil {
			return c, err
		}
		curCfg = &first
	}
	fails := 0
	if len(in.Steps) > 0 {
		fails = in.Steps[0].Fails
	}
	fr := &countingReload{failFirst: fails}
	rl := reloader.VerifC47New(opts, fr)
	ctx, cancel := context.WithCancel(context.Background())
	done := make(chan error, 1)
	go func() { done <- rl.Watch(ctx) }()
	oksAtLastEdit := 0
	for i, st := range in.Steps {
		if i == len(in.Steps)-1 {
			// taken before the last edit starts: a reload that completes after this point has seen,
			// or will be followed by one that sees, the final content
			_, oksAtLastEdit = fr.snapshot()
		}
		if st.Cfg != nil && in.HasCfg {
			if err := os.WriteFile(cfgPath, []byte(*st.Cfg), 0o644); err != nil {
				cancel()
				return c, err
			}
			v := *st.Cfg
			curCfg = &v
		}
		for n, v := range st.Files {
			p := filepath.Join(dir, n)
			if v == nil {
				os.Remove(p)
				delete(cur, n)
			} else {
				if err := os.WriteFile(p, []byte(*v), 0o644); err != nil {
					cancel()
					return c, err
				}
				cur[n] = *v
			}
		}
		if i < len(in.Steps)-1 {
			time.Sleep(time.Duration(5+7*(i%4)) * time.Millisecond)
		}
	}
	// wait for a successful reload after the last edit (generous: the machine may be loaded) ...
	for dl := time.Now().Add(10 * time.Second); time.Now().Before(dl); {
		if _, oks := fr.snapshot(); oks > oksAtLastEdit {
			break
		}
		time.Sleep(tick / 4)
	}
	// ... then look for silence: a window of six watch intervals without any endpoint call
	// (retried for up to 15 s, the machine may be loaded); extraCalls = calls in the last window tried
	_, oksSettled := fr.snapshot()
	extraCalls := 0
	for dl := time.Now().Add(15 * time.Second); ; {
		before, _ := fr.snapshot()
		time.Sleep(6 * tick)
		after, oks := fr.snapshot()
		oksSettled = oks
		extraCalls = after - before
		if extraCalls == 0 || time.Now().After(dl) {
			break
		}
	}
	var oc *string
	if b, err := os.ReadFile(cfgOut); err == nil {
		s := string(b)
		oc = &s
	}
	od := map[string]string{}
	ents, _ := os.ReadDir(outDir)
	for _, e := range ents {
		if strings.HasSuffix(e.Name(), ".tmp") {
			continue // the loop re-writes every output through <name>.tmp + rename on every interval: a pass is in progress
		}
		b, err := os.ReadFile(filepath.Join(outDir, e.Name()))
		if err != nil {
			continue
		}
		od[e.Name()] = string(b)
	}
	cancel()
	returned := false
	select {
	case <-done:
		returned = true
	case <-time.After(10 * time.Second):
	}
	var env []string
	for _, k := range envNames {
		env = append(env, common.Pair(common.Bytes(k), common.Bytes(in.Env[k])))
	}
	var cfgSnap *string
	if in.HasCfg {
		cfgSnap = curCfg
	}
	reloaded := oksSettled > oksAtLastEdit || (oksSettled > 0 && len(in.Steps) == 0)
	c.Coq = common.App("CWatch", common.Bool(in.HasCfg), common.Bool(in.Tolerate), common.List(env), optBytes(cfgSnap), coqFiles(cur),
		optBytes(oc), coqFiles(od), common.Bool(reloaded), common.Nat(extraCalls), common.Bool(returned))
	c.Obs = map[string]any{"out_cfg": oc, "out_dir": od, "reloads_ok": oksSettled, "reloaded_after_last_edit": reloaded, "extra_calls": extraCalls, "returned": returned}
	c.Nontrivial = len(in.Steps) >= 2
	if !reloaded {
		c.GoPred, c.Sig = "no successful reload after the last edit", "watch-no-reload"
	} else if extraCalls != 0 {
		c.GoPred, c.Sig = "the endpoint is still being called although nothing changes", "watch-not-quiet"
	} else if !returned {
		c.GoPred, c.Sig = "Watch did not return after its context was cancelled", "watch-no-return"
	} else if len(od) != len(cur) {
		c.GoPred, c.Sig = fmt.Sprintf("output directory has %d files for %d inputs", len(od), len(cur)), "watch-stale-output"
	}
	return c, nil
}

// ---- generators ----
var fragments = []string{"a: 1\n", "x", "$(V1)", "$(V2)", "$(V_3)", "$(UNSET)", "$(", "$()", "$V1", "${V1}", ")", "$(V1", "$$(V2)", "$(V1)$(V2)", "\n", "name: $(V1)-$(V2)\n", "$(v1)", "$(V1 )"}

func genContent(r *rand.Rand, allowUnset bool) string {
	s := ""
	for i := 0; i < r.Intn(4); i++ {
		f := common.Pick(r, fragments...)
		if f == "$(UNSET)" && !allowUnset {
			continue
		}
		s += f
	}
	return s
}

func gen(r *rand.Rand, tier string, n int) []any {
	var out []any
	maxSteps := 6
	if tier == "thorough" {
		maxSteps = 14
	}
	names := []string{"a.yaml", "b.yaml", "c.yaml", "rules.yml"}
	for i := 0; i < n; i++ {
		if r.Intn(12) == 0 {
			// the real Watch loop: only expandable contents, every step changes something
			in := input{Kind: "watch", HasCfg: r.Intn(3) > 0, Tolerate: true, Env: map[string]string{"V1": "host-1", "V2": common.Pick(r, "", "7")}}
			for s := 0; s < 1+r.Intn(4); s++ {
				st := stepIn{Files: map[string]*string{}}
				if in.HasCfg && r.Intn(2) == 0 {
					v := fmt.Sprintf("step: %d-%d\n%s", i, s, genContent(r, true))
					st.Cfg = &v
				}
				nme := common.Pick(r, names...)
				if r.Intn(4) == 0 && s > 0 {
					st.Files[nme] = nil
					other := common.Pick(r, names...)
					v := fmt.Sprintf("%d-%d %s", i, s, genContent(r, true))
					st.Files[other] = &v
				} else {
					v := fmt.Sprintf("%d-%d %s", i, s, genContent(r, true))
					st.Files[nme] = &v
				}
				if s == 0 {
					st.Fails = r.Intn(3)
				}
				in.Steps = append(in.Steps, st)
			}
			out = append(out, in)
			continue
		}
		in := input{HasCfg: r.Intn(4) > 0, Tolerate: r.Intn(2) == 0, Env: map[string]string{}}
		for _, v := range []string{"V1", "V2", "V_3"} {
			if r.Intn(5) > 0 {
				in.Env[v] = common.Pick(r, "host-1", "", "$(V2)", "x y", "7")
			}
		}
		allowUnset := r.Intn(3) == 0
		cfgExists := false
		for s := 0; s < 1+r.Intn(maxSteps); s++ {
			st := stepIn{}
			if in.HasCfg && (!cfgExists || r.Intn(3) == 0) {
				if cfgExists && r.Intn(8) == 0 {
					st.DelCfg = true
					cfgExists = false
				} else {
					v := genContent(r, allowUnset)
					st.Cfg = &v
					cfgExists = true
				}
			}
			if r.Intn(3) > 0 {
				st.Files = map[string]*string{}
				for k := 0; k < 1+r.Intn(2); k++ {
					nme := common.Pick(r, names...)
					if r.Intn(3) == 0 {
						st.Files[nme] = nil
					} else {
						v := genContent(r, allowUnset)
						st.Files[nme] = &v
					}
				}
			}
			switch r.Intn(6) {
			case 0:
				st.Fails = 1 + r.Intn(2)
			case 1:
				st.Fails, st.GiveUp = r.Intn(2), true
			}
			// the config file is edited while this very pass runs (between its reads and its end)
			if in.HasCfg && in.Tolerate && r.Intn(4) == 0 {
				v := fmt.Sprintf("before: %d-%d $(UNSET)\n", i, s)
				st.Cfg, st.DelCfg = &v, false
				cfgExists = true
				d := fmt.Sprintf("after: %d-%d %s\n", i, s, genContent(r, true))
				st.DuringCfg = &d
				in.Steps = append(in.Steps, st)
				// then the files stop changing: undisturbed passes
				for q := 0; q < 1+r.Intn(2); q++ {
					in.Steps = append(in.Steps, stepIn{})
				}
				continue
			}
			in.Steps = append(in.Steps, st)
		}
		out = append(out, in)
	}
	return out
}

func main() {
	common.Main(common.Prop{ID: "C47", Facts: facts, Gen: gen, Run: run, QuickN: 300, ThoroughN: 3000})
}
