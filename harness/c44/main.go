// C44: sharded query execution returns the unsharded result.
package main

import (
	"context"
	"encoding/json"
	"fmt"
	"io"
	"math/rand"
	"sort"
	"strings"
	"sync"
	"time"

	"github.com/cespare/xxhash/v2"
	"github.com/prometheus/prometheus/model/histogram"
	"github.com/prometheus/prometheus/model/labels"
	"github.com/prometheus/prometheus/promql"
	"github.com/prometheus/prometheus/storage"
	"github.com/prometheus/prometheus/tsdb/chunkenc"
	"github.com/prometheus/prometheus/tsdb/chunks"
	"github.com/prometheus/prometheus/util/annotations"

	"github.com/thanos-io/thanos/internal/cortex/cortexpb"
	"github.com/thanos-io/thanos/internal/cortex/querier/queryrange"
	"github.com/thanos-io/thanos/pkg/queryfrontend"
	"github.com/thanos-io/thanos/pkg/querysharding"
	"github.com/thanos-io/thanos/pkg/store/labelpb"
	"github.com/thanos-io/thanos/pkg/store/storepb"
	"github.com/thanos-io/thanos/zzverif/common"
)

type node struct {
	K        string   `json:"k"` // leaf | call | bin | agg | wrap
	Text     string   `json:"text,omitempty"`
	F        string   `json:"f,omitempty"`
	Dst      string   `json:"dst,omitempty"`
	Args     []*node  `json:"args,omitempty"`
	Op       string   `json:"op,omitempty"`
	Match    string   `json:"match,omitempty"` // "" | on | ignoring   (vector-vector only)
	Labels   []string `json:"labels,omitempty"`
	Group    string   `json:"group,omitempty"` // "" | group_left | group_right
	Scalar   bool     `json:"scalar,omitempty"`
	L        *node    `json:"l,omitempty"`
	R        *node    `json:"r,omitempty"`
	Without  bool     `json:"without,omitempty"`
	NoClause bool     `json:"no_clause,omitempty"`
	Param    *node    `json:"param,omitempty"`
	E        *node    `json:"e,omitempty"`
	Wrap     string   `json:"wrap,omitempty"` // paren | neg | subquery
}

type input struct {
	Kind   string      `json:"kind"` // shard | analyze | eval
	By     bool        `json:"by,omitempty"`
	Set    []string    `json:"set,omitempty"`
	N      int64       `json:"n,omitempty"`
	Labels [][2]string `json:"labels,omitempty"`
	Expr   *node       `json:"expr,omitempty"`
	Q      *qnode      `json:"q,omitempty"`
	Series []seriesIn  `json:"series,omitempty"`
	Note   string      `json:"note,omitempty"`
}

// qnode is a program of the mini-PromQL with a Coq semantics (Model.C44.qexpr).
type qnode struct {
	K        string     `json:"k"` // sel | agg | bin
	On       bool       `json:"on,omitempty"`
	L        *qnode     `json:"l,omitempty"`
	R        *qnode     `json:"r,omitempty"`
	Matchers []qmatcher `json:"matchers,omitempty"`
	Op       string     `json:"op,omitempty"` // sum | count | min | max
	Without  bool       `json:"without,omitempty"`
	Labels   []string   `json:"labels,omitempty"`
	E        *qnode     `json:"e,omitempty"`
}

type qmatcher struct {
	Neq   bool   `json:"neq,omitempty"`
	Name  string `json:"name"`
	Value string `json:"value"`
}

func (q *qnode) promql() string {
	if q.K == "sel" {
		var ms []string
		for _, m := range q.Matchers {
			op := "="
			if m.Neq {
				op = "!="
			}
			ms = append(ms, fmt.Sprintf("%s%s%q", m.Name, op, m.Value))
		}
		return "{" + strings.Join(ms, ",") + "}"
	}
	if q.K == "bin" {
		m := "ignoring"
		if q.On {
			m = "on"
		}
		return fmt.Sprintf("(%s) %s %s(%s) (%s)", q.L.promql(), q.Op, m, strings.Join(q.Labels, ","), q.R.promql())
	}
	kw := "by"
	if q.Without {
		kw = "without"
	}
	return fmt.Sprintf("%s %s (%s) (%s)", q.Op, kw, strings.Join(q.Labels, ","), q.E.promql())
}

func (q *qnode) coq() string {
	if q.K == "sel" {
		var ms []string
		for _, m := range q.Matchers {
			c := "MEq"
			if m.Neq {
				c = "MNeq"
			}
			ms = append(ms, common.App(c, common.Bytes(m.Name), common.Bytes(m.Value)))
		}
		return common.App("QSel", common.List(ms))
	}
	if q.K == "bin" {
		op := map[string]string{"+": "BAdd", "-": "BSub", "*": "BMul"}[q.Op]
		return common.App("QBin", op, common.Bool(q.On), strs(q.Labels), q.L.coq(), q.R.coq())
	}
	op := map[string]string{"sum": "ASum", "count": "ACount", "min": "AMin", "max": "AMax"}[q.Op]
	return common.App("QAgg", op, common.Bool(q.Without), strs(q.Labels), q.E.coq())
}

// dropsName: some node of q removes __name__ from its output (without-aggregation, binary operation)
func (q *qnode) dropsName() bool {
	switch q.K {
	case "sel":
		return false
	case "bin":
		return true
	}
	return q.Without || q.E.dropsName()
}

// analyzer AST of a qnode (Model.C44.erase)
func (q *qnode) erase() *node {
	if q.K == "sel" {
		return &node{K: "leaf", Text: q.promql()}
	}
	if q.K == "bin" {
		m := "ignoring"
		if q.On {
			m = "on"
		}
		return &node{K: "bin", Op: q.Op, Match: m, Labels: q.Labels, L: q.L.erase(), R: q.R.erase()}
	}
	return &node{K: "agg", Op: q.Op, Without: q.Without, Labels: q.Labels, E: q.E.erase()}
}

// ---- an in-memory storage for the real PromQL engine ----

type memSeries struct {
	lset labels.Labels
	val  float64
}

type memQueryable struct {
	series []memSeries
	keep   func(labels.Labels) bool // the store-side shard filter
	ts     int64
}

func (q *memQueryable) Querier(_, _ int64) (storage.Querier, error) { return q, nil }
func (q *memQueryable) LabelValues(context.Context, string, *storage.LabelHints, ...*labels.Matcher) ([]string, annotations.Annotations, error) {
	return nil, nil, nil
}
func (q *memQueryable) LabelNames(context.Context, *storage.LabelHints, ...*labels.Matcher) ([]string, annotations.Annotations, error) {
	return nil, nil, nil
}
func (q *memQueryable) Close() error { return nil }

func (q *memQueryable) Select(_ context.Context, _ bool, _ *storage.SelectHints, ms ...*labels.Matcher) storage.SeriesSet {
	var out []storage.Series
	for _, s := range q.series {
		ok := true
		for _, m := range ms {
			if !m.Matches(s.lset.Get(m.Name)) {
				ok = false
				break
			}
		}
		if ok && (q.keep == nil || q.keep(s.lset)) {
			out = append(out, storage.NewListSeries(s.lset, []chunks.Sample{fsample{t: q.ts, f: s.val}}))
		}
	}
	sort.Slice(out, func(i, j int) bool { return labels.Compare(out[i].Labels(), out[j].Labels()) < 0 })
	return &sliceSet{s: out, i: -1}
}

type fsample struct {
	t int64
	f float64
}

func (s fsample) T() int64                      { return s.t }
func (s fsample) F() float64                    { return s.f }
func (s fsample) H() *histogram.Histogram       { return nil }
func (s fsample) FH() *histogram.FloatHistogram { return nil }
func (s fsample) Type() chunkenc.ValueType      { return chunkenc.ValFloat }
func (s fsample) Copy() chunks.Sample           { return s }

type sliceSet struct {
	s []storage.Series
	i int
}

func (s *sliceSet) Next() bool                        { s.i++; return s.i < len(s.s) }
func (s *sliceSet) At() storage.Series                { return s.s[s.i] }
func (s *sliceSet) Err() error                        { return nil }
func (s *sliceSet) Warnings() annotations.Annotations { return nil }

var engine = promql.NewEngine(promql.EngineOpts{MaxSamples: 1000000, Timeout: 20 * time.Second, LookbackDelta: 5 * time.Minute})

type obsSample struct {
	Labels [][2]string `json:"labels"`
	Value  int64       `json:"value"`
}

// errEngine marks an error returned by the engine while executing a valid query
// (e.g. many-to-many matching): an observable, not a harness failure.
type errEngine struct{ error }

func evalEngine(q string, qb *memQueryable) ([]obsSample, error) {
	qry, err := engine.NewInstantQuery(context.Background(), qb, nil, q, time.UnixMilli(qb.ts))
	if err != nil {
		return nil, err
	}
	defer qry.Close()
	res := qry.Exec(context.Background())
	if res.Err != nil {
		return nil, errEngine{res.Err}
	}
	vec, err := res.Vector()
	if err != nil {
		return nil, err
	}
	var out []obsSample
	for _, s := range vec {
		if s.H != nil || s.F != float64(int64(s.F)) {
			return nil, fmt.Errorf("non-integral result")
		}
		o := obsSample{Value: int64(s.F)}
		s.Metric.Range(func(l labels.Label) { o.Labels = append(o.Labels, [2]string{l.Name, l.Value}) })
		out = append(out, o)
	}
	sort.Slice(out, func(i, j int) bool { return fmt.Sprint(out[i].Labels) < fmt.Sprint(out[j].Labels) })
	return out, nil
}

func coqResult(v []obsSample, failed bool) string {
	if failed {
		return common.None
	}
	return common.Some(coqVector(v))
}

func coqVector(v []obsSample) string {
	var out []string
	for _, s := range v {
		out = append(out, common.Pair(coqLabels(s.Labels), common.Z(s.Value)))
	}
	return common.List(out)
}

type seriesIn struct {
	Labels [][2]string `json:"labels"`
	Value  int64       `json:"value"`
}

func facts(repo string, w io.Writer) error {
	s := storepb.VerifC44Sep()
	if len(s) != 1 {
		return fmt.Errorf("separator is not a single byte")
	}
	fmt.Fprintln(w, "From Coq Require Import NArith.")
	fmt.Fprintln(w, "(* pkg/store/storepb/shard_info.go: var sep (value in the linked binary) *)")
	fmt.Fprintf(w, "Definition shard_sep : N := %d%%N.\n", s[0])
	return nil
}

// ---- printing the mini AST as PromQL and as a Coq term ----

func (n *node) promql() string {
	switch n.K {
	case "leaf":
		return n.Text
	case "call":
		var as []string
		for _, a := range n.Args {
			as = append(as, a.promql())
		}
		return n.F + "(" + strings.Join(as, ", ") + ")"
	case "bin":
		m := ""
		if n.Match != "" {
			m = fmt.Sprintf(" %s(%s)", n.Match, strings.Join(n.Labels, ","))
			if n.Group != "" {
				m += " " + n.Group + "()"
			}
		}
		return "(" + n.L.promql() + ") " + n.Op + m + " (" + n.R.promql() + ")"
	case "agg":
		cl := ""
		if !n.NoClause {
			kw := "by"
			if n.Without {
				kw = "without"
			}
			cl = fmt.Sprintf(" %s (%s)", kw, strings.Join(n.Labels, ","))
		}
		inner := n.E.promql()
		if n.Param != nil {
			inner = n.Param.promql() + ", " + inner
		}
		return n.Op + cl + " (" + inner + ")"
	case "wrap":
		switch n.Wrap {
		case "neg":
			return "-(" + n.E.promql() + ")"
		case "subquery":
			return "(" + n.E.promql() + ")[5m:1m]"
		default:
			return "(" + n.E.promql() + ")"
		}
	}
	return "?"
}

func strs(xs []string) string {
	out := make([]string, len(xs))
	for i, x := range xs {
		out[i] = common.Bytes(x)
	}
	return common.List(out)
}

func (n *node) coq() string {
	switch n.K {
	case "leaf":
		return "ELeaf"
	case "call":
		var as []string
		for _, a := range n.Args {
			as = append(as, a.coq())
		}
		dst := common.None
		if n.F == "label_replace" || n.F == "label_join" {
			dst = common.Some(common.Bytes(n.Dst))
		}
		return common.App("ECall", common.Bytes(n.F), dst, common.List(as))
	case "bin":
		vm := common.None
		if !n.Scalar {
			vm = common.Some(common.Pair(common.Bool(n.Match == "on"), strs(n.Labels)))
		}
		return common.App("EBin", vm, n.L.coq(), n.R.coq())
	case "agg":
		p := common.None
		if n.Param != nil {
			p = common.Some(n.Param.coq())
		}
		g := n.Labels
		if n.NoClause {
			g = nil
		}
		return common.App("EAgg", common.Bool(n.Without && !n.NoClause), strs(g), p, n.E.coq())
	case "wrap":
		return common.App("EWrap", n.E.coq())
	}
	return "ELeaf"
}

func coqLabels(ls [][2]string) string {
	var out []string
	for _, l := range ls {
		out = append(out, common.Pair(common.Bytes(l[0]), common.Bytes(l[1])))
	}
	return common.List(out)
}

var pool = sync.Pool{New: func() any { b := make([]byte, 0, 128); return &b }}

func run(raw json.RawMessage) (common.Case, error) {
	var in input
	if err := json.Unmarshal(raw, &in); err != nil {
		return common.Case{}, err
	}
	var c common.Case
	switch in.Kind {
	case "shard":
		if in.N < 1 {
			return c, fmt.Errorf("n < 1")
		}
		var zl []labelpb.ZLabel
		for _, l := range in.Labels {
			zl = append(zl, labelpb.ZLabel{Name: l[0], Value: l[1]})
		}
		var obs, obs2 []bool
		var obsS, obsS2 []string
		cnt, cnt2 := 0, 0
		var kv []string
		for _, l := range in.Labels {
			kv = append(kv, l[0], l[1])
		}
		plbls := labels.FromStrings(kv...)
		for i := int64(0); i < in.N; i++ {
			info := &storepb.ShardInfo{TotalShards: in.N, ShardIndex: i, By: in.By, Labels: in.Set}
			m := info.Matcher(&pool)
			ok := m.MatchesZLabels(zl) // entry point of the proxy
			m.Close()
			m = info.Matcher(&pool)
			ok2 := m.MatchesLabels(plbls) // entry point of the shard-aware stores
			m.Close()
			obs, obs2 = append(obs, ok), append(obs2, ok2)
			obsS, obsS2 = append(obsS, common.Bool(ok)), append(obsS2, common.Bool(ok2))
			if ok {
				cnt++
			}
			if ok2 {
				cnt2++
			}
		}
		// oracle: the hash of the bytes the matcher is specified to hash (independent reconstruction)
		set := map[string]bool{}
		for _, s := range in.Set {
			set[s] = true
		}
		var buf []byte
		sep := storepb.VerifC44Sep()[0]
		for _, l := range in.Labels {
			if set[l[0]] == in.By {
				buf = append(buf, l[0]...)
				buf = append(buf, sep)
				buf = append(buf, l[1]...)
				buf = append(buf, sep)
			}
		}
		h := xxhash.Sum64(buf)
		tbl := common.List([]string{common.Pair(common.Bytes(string(buf)), common.N(h))})
		c.Coq = common.App("CShard", common.Bool(in.By), strs(in.Set), common.N(uint64(in.N)), coqLabels(in.Labels), tbl, common.List(obsS), common.List(obsS2))
		c.Obs = map[string]any{"MatchesZLabels": obs, "MatchesLabels": obs2}
		c.Class = fmt.Sprintf("shard by=%v n=%d", in.By, in.N)
		c.Nontrivial = in.N > 1 && len(in.Labels) > 0
		if cnt != 1 || cnt2 != 1 {
			c.GoPred = fmt.Sprintf("series matched by %d shards through MatchesZLabels and %d through MatchesLabels", cnt, cnt2)
			c.Sig = "not-exactly-one-shard"
		} else if fmt.Sprint(obs) != fmt.Sprint(obs2) {
			c.GoPred = fmt.Sprintf("MatchesZLabels %v and MatchesLabels %v put the series on different shards", obs, obs2)
			c.Sig = "entry-points-disagree"
		}
		return c, nil
	case "analyze":
		q := in.Expr.promql()
		a, err := querysharding.NewQueryAnalyzer().Analyze(q)
		if err != nil {
			return c, fmt.Errorf("analyze %q: %w", q, err)
		}
		ls := append([]string(nil), a.ShardingLabels()...)
		sort.Strings(ls)
		c.Coq = common.App("CAnalyze", in.Expr.coq(), common.Bool(a.IsShardable()), common.Bool(a.ShardBy()), strs(ls))
		c.Obs = map[string]any{"query": q, "shardable": a.IsShardable(), "by": a.ShardBy(), "labels": ls}
		c.Class = "analyze"
		if a.IsShardable() {
			c.Class = fmt.Sprintf("analyze shardable by=%v", a.ShardBy())
		}
		c.Nontrivial = a.IsShardable()
		return c, nil
	case "eval":
		return runEval(in)
	}
	return c, fmt.Errorf("bad kind %q", in.Kind)
}

func runEval(in input) (common.Case, error) {
	var c common.Case
	q := in.Q.promql()
	a, err := querysharding.NewQueryAnalyzer().Analyze(q)
	if err != nil {
		return c, fmt.Errorf("analyze %q: %w", q, err)
	}
	ls := append([]string(nil), a.ShardingLabels()...)
	sort.Strings(ls)
	if !a.IsShardable() || in.N < 1 {
		e := in.Q.erase()
		c.Coq = common.App("CAnalyze", e.coq(), common.Bool(a.IsShardable()), common.Bool(a.ShardBy()), strs(ls))
		c.Obs = map[string]any{"query": q, "shardable": a.IsShardable()}
		c.Class = "eval-not-shardable"
		return c, nil
	}
	const ts = int64(1000000)
	var all []memSeries
	var dataCoq []string
	seen := map[string]bool{}
	for _, s := range in.Series {
		sorted := append([][2]string(nil), s.Labels...)
		sort.Slice(sorted, func(i, j int) bool { return sorted[i][0] < sorted[j][0] })
		var kv []string
		for _, l := range sorted {
			if l[1] == "" {
				return c, fmt.Errorf("empty label value")
			}
			kv = append(kv, l[0], l[1])
		}
		if seen[fmt.Sprint(kv)] {
			continue
		}
		seen[fmt.Sprint(kv)] = true
		all = append(all, memSeries{lset: labels.FromStrings(kv...), val: float64(s.Value)})
		dataCoq = append(dataCoq, common.Pair(coqLabels(sorted), common.Z(s.Value)))
	}
	unsharded, err := evalEngine(q, &memQueryable{series: all, ts: ts})
	unFailed := false
	if _, ok := err.(errEngine); ok {
		unFailed = true
	} else if err != nil {
		return c, fmt.Errorf("engine %q: %w", q, err)
	}
	var shards []any
	var shardsCoq []string
	var merged []obsSample
	anyFailed := false
	for i := int64(0); i < in.N; i++ {
		info := &storepb.ShardInfo{TotalShards: in.N, ShardIndex: i, By: a.ShardBy(), Labels: a.ShardingLabels()}
		keep := func(l labels.Labels) bool {
			m := info.Matcher(&pool)
			defer m.Close()
			return m.MatchesLabels(l)
		}
		r, err := evalEngine(q, &memQueryable{series: all, ts: ts, keep: keep})
		failed := false
		if _, ok := err.(errEngine); ok {
			failed, anyFailed = true, true
		} else if err != nil {
			return c, fmt.Errorf("engine shard %d %q: %w", i, q, err)
		}
		if failed {
			shards = append(shards, "error")
		} else {
			shards = append(shards, r)
		}
		shardsCoq = append(shardsCoq, coqResult(r, failed))
		merged = append(merged, r...)
	}
	sort.Slice(merged, func(i, j int) bool { return fmt.Sprint(merged[i].Labels) < fmt.Sprint(merged[j].Labels) })
	// what the frontend makes of the shard responses: the real queryInstantCodec.MergeResponse
	var mergedReal []obsSample
	mergedFailed := anyFailed
	if !anyFailed {
		var resps []queryrange.Response
		for _, sh := range shards {
			v := &queryrange.Vector{}
			for _, smp := range sh.([]obsSample) {
				ps := &queryrange.Sample{SampleValue: float64(smp.Value), Timestamp: ts}
				for _, l := range smp.Labels {
					ps.Labels = append(ps.Labels, cortexpb.LabelAdapter{Name: l[0], Value: l[1]})
				}
				v.Samples = append(v.Samples, ps)
			}
			resps = append(resps, &queryrange.PrometheusInstantQueryResponse{Status: queryrange.StatusSuccess,
				Data: queryrange.PrometheusInstantQueryData{ResultType: "vector",
					Result: queryrange.PrometheusInstantQueryResult{Result: &queryrange.PrometheusInstantQueryResult_Vector{Vector: v}}}})
		}
		mr, err := queryfrontend.NewThanosQueryInstantCodec(false).MergeResponse(&queryfrontend.ThanosQueryInstantRequest{Query: q, Time: ts}, resps...)
		if err != nil {
			return c, fmt.Errorf("MergeResponse: %w", err)
		}
		for _, smp := range mr.(*queryrange.PrometheusInstantQueryResponse).Data.Result.GetVector().Samples {
			o := obsSample{Value: int64(smp.SampleValue)}
			for _, l := range smp.Labels {
				o.Labels = append(o.Labels, [2]string{l.Name, l.Value})
			}
			mergedReal = append(mergedReal, o)
		}
		sort.Slice(mergedReal, func(i, j int) bool { return fmt.Sprint(mergedReal[i].Labels) < fmt.Sprint(mergedReal[j].Labels) })
	}
	// hash oracle for every series
	set := map[string]bool{}
	for _, l := range a.ShardingLabels() {
		set[l] = true
	}
	sep := storepb.VerifC44Sep()[0]
	var tbl []string
	seenBuf := map[string]bool{}
	for _, s := range all {
		var buf []byte
		s.lset.Range(func(l labels.Label) {
			if set[l.Name] == a.ShardBy() {
				buf = append(buf, l.Name...)
				buf = append(buf, sep)
				buf = append(buf, l.Value...)
				buf = append(buf, sep)
			}
		})
		if !seenBuf[string(buf)] {
			seenBuf[string(buf)] = true
			tbl = append(tbl, common.Pair(common.Bytes(string(buf)), common.N(xxhash.Sum64(buf))))
		}
	}
	c.Coq = common.App("CEval", in.Q.coq(), common.List(dataCoq), common.N(uint64(in.N)), common.Bool(a.ShardBy()), strs(ls),
		common.List(tbl), coqResult(unsharded, unFailed), common.List(shardsCoq), coqResult(mergedReal, mergedFailed))
	c.Obs = map[string]any{"query": q, "by": a.ShardBy(), "labels": ls, "unsharded": unsharded, "unsharded_error": unFailed, "shards": shards, "merged_by_frontend": mergedReal}
	c.Class = fmt.Sprintf("eval by=%v", a.ShardBy())
	if unFailed {
		c.Class += " engine-error"
	}
	c.Nontrivial = len(unsharded) > 0 && in.N > 1
	if !unFailed && (anyFailed || fmt.Sprint(merged) != fmt.Sprint(unsharded) || fmt.Sprint(mergedReal) != fmt.Sprint(unsharded)) {
		c.GoPred = fmt.Sprintf("%q: shard results %v (merged by the frontend: %v) differ from the unsharded result %v", q, merged, mergedReal, unsharded)
		c.Sig = "sharded-differs"
		// known: a without() aggregation drops __name__, which the analyzer does not count among its labels
		if in.Q.dropsName() && ((a.ShardBy() && set["__name__"]) || (!a.ShardBy() && !set["__name__"])) {
			c.Sig = "without-aggregation-drops-metric-name"
		}
	}
	return c, nil
}

// ---- generators ----

var labelNames = []string{"a", "b", "c", "pod", "le", "job"}

func pickLabels(r *rand.Rand) []string {
	n := r.Intn(4)
	seen := map[string]bool{}
	var out []string
	for i := 0; i < n; i++ {
		l := common.Pick(r, labelNames...)
		if !seen[l] || r.Intn(6) == 0 {
			out = append(out, l)
		}
		seen[l] = true
	}
	return out
}

func leaf(r *rand.Rand) *node {
	m := common.Pick(r, "m1", "m2", "m3_bucket")
	if r.Intn(3) == 0 {
		return &node{K: "leaf", Text: fmt.Sprintf(`%s{a=~"x|y"}`, m)}
	}
	return &node{K: "leaf", Text: m}
}

// genV returns an expression of instant-vector type.
func genV(r *rand.Rand, depth int) *node {
	if depth <= 0 {
		return leaf(r)
	}
	switch k := r.Intn(20); {
	case k < 3:
		return leaf(r)
	case k < 9: // aggregation
		n := &node{K: "agg", Op: common.Pick(r, "sum", "max", "min", "count", "avg", "group"), E: genV(r, depth-1)}
		switch r.Intn(5) {
		case 0:
			n.NoClause = true
		case 1:
			n.Without = true
			n.Labels = pickLabels(r)
		default:
			n.Labels = pickLabels(r)
		}
		if r.Intn(6) == 0 {
			n.Op = common.Pick(r, "topk", "bottomk", "quantile")
			p := "2"
			if n.Op == "quantile" {
				p = "0.5"
			}
			n.Param = &node{K: "leaf", Text: p}
		}
		return n
	case k < 13: // vector-vector binary
		n := &node{K: "bin", L: genV(r, depth-1), R: genV(r, depth-1)}
		n.Op = common.Pick(r, "+", "-", "*", "/", ">", "<", "== bool", "and", "or", "unless")
		switch r.Intn(3) {
		case 0:
		case 1:
			n.Match = "on"
			n.Labels = pickLabels(r)
		default:
			n.Match = "ignoring"
			n.Labels = pickLabels(r)
		}
		if n.Match != "" && r.Intn(4) == 0 && !strings.Contains("and or unless", n.Op) {
			n.Group = common.Pick(r, "group_left", "group_right")
		}
		return n
	case k < 14: // vector-scalar binary
		return &node{K: "bin", Scalar: true, Op: common.Pick(r, "+", "*", ">"), L: genV(r, depth-1), R: &node{K: "leaf", Text: "2"}}
	case k < 18: // functions
		switch r.Intn(9) {
		case 0:
			return &node{K: "call", F: "rate", Args: []*node{{K: "leaf", Text: common.Pick(r, "m1", "m2") + "[5m]"}}}
		case 1:
			return &node{K: "call", F: "label_replace", Dst: common.Pick(r, labelNames...), Args: []*node{genV(r, depth-1),
				{K: "leaf", Text: ""}, {K: "leaf", Text: `"$1"`}, {K: "leaf", Text: `"a"`}, {K: "leaf", Text: `"(.*)"`}}}
		case 2:
			return &node{K: "call", F: "label_join", Dst: common.Pick(r, labelNames...), Args: []*node{genV(r, depth-1),
				{K: "leaf", Text: ""}, {K: "leaf", Text: `","`}, {K: "leaf", Text: `"a"`}, {K: "leaf", Text: `"b"`}}}
		case 3:
			return &node{K: "call", F: "histogram_quantile", Args: []*node{{K: "leaf", Text: "0.9"}, genV(r, depth-1)}}
		case 4:
			return &node{K: "call", F: common.Pick(r, "absent", "absent", "scalar_wrapped"), Args: []*node{genV(r, depth-1)}}
		case 5:
			return &node{K: "call", F: "max_over_time", Args: []*node{{K: "wrap", Wrap: "subquery", E: genV(r, depth-1)}}}
		case 6:
			return &node{K: "call", F: "absent_over_time", Args: []*node{{K: "leaf", Text: "m1[5m]"}}}
		default:
			return &node{K: "call", F: common.Pick(r, "abs", "ceil", "sort", "timestamp"), Args: []*node{genV(r, depth-1)}}
		}
	default:
		return &node{K: "wrap", Wrap: common.Pick(r, "paren", "neg"), E: genV(r, depth-1)}
	}
}

// fix up the helper encodings used by genV (string literal for dst, scalar(...) usage)
func finish(n *node) {
	if n == nil {
		return
	}
	if n.K == "call" && (n.F == "label_replace" || n.F == "label_join") {
		n.Args[1].Text = fmt.Sprintf("%q", n.Dst)
	}
	if n.K == "call" && n.F == "scalar_wrapped" {
		// vector(scalar(v)): scalar() makes the query unshardable
		n.F = "vector"
		n.Args = []*node{{K: "call", F: "scalar", Args: n.Args}}
	}
	for _, a := range n.Args {
		finish(a)
	}
	finish(n.L)
	finish(n.R)
	finish(n.E)
	finish(n.Param)
}

func genSeriesLabels(r *rand.Rand) [][2]string {
	ls := [][2]string{{"__name__", common.Pick(r, "m1", "m2", "m3_bucket")}}
	for _, n := range []string{"a", "b", "c", "job", "le", "pod"} {
		if r.Intn(3) > 0 {
			ls = append(ls, [2]string{n, common.Pick(r, "x", "y", "z", "", "0.5", "x\xffy")})
		}
	}
	return ls
}

func genQ(r *rand.Rand, depth int) *qnode {
	if depth <= 0 {
		q := &qnode{K: "sel"}
		switch r.Intn(3) {
		case 0:
			q.Matchers = []qmatcher{{Name: "job", Value: "j"}}
		case 1:
			q.Matchers = []qmatcher{{Name: "__name__", Value: common.Pick(r, "m1", "m2")}}
		default:
			q.Matchers = []qmatcher{{Name: "job", Value: "j"}, {Neq: r.Intn(2) == 0, Name: common.Pick(r, "a", "b", "pod"), Value: common.Pick(r, "x", "y")}}
		}
		return q
	}
	if r.Intn(5) == 0 {
		// a join that usually succeeds: both sides aggregated by the labels they are matched on
		var g []string
		for _, nm := range []string{"a", "b", "pod"} {
			if r.Intn(2) == 0 {
				g = append(g, nm)
			}
		}
		if len(g) == 0 {
			g = []string{"a"}
		}
		side := func(m string) *qnode {
			return &qnode{K: "agg", Op: common.Pick(r, "sum", "max", "count"), Labels: g,
				E: &qnode{K: "sel", Matchers: []qmatcher{{Name: "__name__", Value: m}}}}
		}
		b := &qnode{K: "bin", Op: common.Pick(r, "+", "-", "*"), On: r.Intn(3) > 0, L: side("m1"), R: side("m2")}
		if b.On {
			b.Labels = g
		}
		if depth > 1 && r.Intn(2) == 0 {
			return &qnode{K: "agg", Op: common.Pick(r, "sum", "max"), Labels: g[:1], E: b}
		}
		return b
	}
	if r.Intn(4) == 0 {
		b := &qnode{K: "bin", Op: common.Pick(r, "+", "-", "*"), On: r.Intn(2) == 0, L: genQ(r, depth-1), R: genQ(r, depth-1)}
		for _, nm := range []string{"a", "b", "c", "pod", "__name__", "job"} {
			p := 3
			if b.On {
				p = 2
			}
			if r.Intn(p) == 0 {
				b.Labels = append(b.Labels, nm)
			}
		}
		return b
	}
	q := &qnode{K: "agg", Op: common.Pick(r, "sum", "count", "min", "max"), Without: r.Intn(3) == 0, E: genQ(r, depth-1)}
	names := []string{"a", "b", "c", "pod", "__name__", "job"}
	for _, nm := range names {
		p := 2
		if q.Without {
			p = 4
		}
		if r.Intn(p) == 0 || (!q.Without && nm == "a") {
			q.Labels = append(q.Labels, nm)
		}
	}
	return q
}

func genData(r *rand.Rand) []seriesIn {
	n := 3 + r.Intn(10)
	var out []seriesIn
	for i := 0; i < n; i++ {
		ls := [][2]string{{"__name__", common.Pick(r, "m1", "m2")}, {"job", "j"}}
		for _, nm := range []string{"a", "b", "c", "pod"} {
			if r.Intn(4) > 0 {
				ls = append(ls, [2]string{nm, common.Pick(r, "x", "y", "z")})
			}
		}
		out = append(out, seriesIn{Labels: ls, Value: common.Between(r, -5, 20)})
	}
	return out
}

func gen(r *rand.Rand, tier string, n int) []any {
	var out []any
	for i := 0; i < n; i++ {
		switch k := r.Intn(10); {
		case k < 3:
			out = append(out, input{Kind: "eval", Q: genQ(r, 1+r.Intn(3)), N: common.Between(r, 2, 5), Series: genData(r)})
		case k < 5:
			in := input{Kind: "shard", By: r.Intn(2) == 0, Set: pickLabels(r), N: common.Between(r, 1, 5), Labels: genSeriesLabels(r)}
			if r.Intn(5) == 0 {
				in.Set = append(in.Set, "__name__")
			}
			out = append(out, in)
		default:
			e := genV(r, 1+r.Intn(4))
			finish(e)
			out = append(out, input{Kind: "analyze", Expr: e})
		}
	}
	return out
}

func main() {
	common.Main(common.Prop{ID: "C44", Facts: facts, Gen: gen, Run: run, QuickN: 800, ThoroughN: 10000})
}
