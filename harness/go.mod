// Stub: the real go.mod is regenerated from $VERIF_REPO/go.mod on every run
// (bin/check, see harness_modfile) and passed with -modfile.
module github.com/thanos-io/thanos/zzverif

go 1.26.0
