package main

// Thorough tier only: the concurrent cases are additionally run in a copy of
// this harness built with the race detector (go build -race). Any report of the
// detector becomes a failing case (Sig "data-race"). Skipped (and said so in the
// case class) when the race build is not possible (no cgo / no toolchain).

import (
	"bytes"
	"crypto/sha256"
	"encoding/hex"
	"fmt"
	"math/rand"
	"os"
	"os/exec"
	"path/filepath"
	"strings"
	"time"
)

type raceResult struct {
	Races   int    `json:"races"`
	Report  string `json:"report,omitempty"`
	Skipped string `json:"skipped,omitempty"`
	Cases   int    `json:"cases"`
}

func raceRun(r *rand.Rand, n int) raceResult {
	res := raceResult{Cases: n}
	exe, err := os.Executable()
	if err != nil {
		res.Skipped = err.Error()
		return res
	}
	work := filepath.Dir(exe)                // /verif/.work/C16
	root := filepath.Dir(filepath.Dir(work)) // /verif
	repo := os.Getenv("VERIF_REPO")
	if repo == "" {
		repo = "/repo"
	}
	abs, _ := filepath.Abs(repo)
	h := sha256.Sum256([]byte(abs))
	modfile := filepath.Join(root, ".work", "mod-"+hex.EncodeToString(h[:])[:10], "go.mod")
	if _, err := os.Stat(modfile); err != nil {
		res.Skipped = "no harness go.mod: " + err.Error()
		return res
	}
	gobin := os.Getenv("VERIF_GO")
	if gobin == "" {
		gobin = "go1.26"
	}
	bin := filepath.Join(work, "vh-race")
	build := exec.Command(gobin, "build", "-race", "-trimpath", "-modfile="+modfile, "-tags", "slicelabels,verif", "-o", bin, "./c16")
	build.Dir = filepath.Join(root, "harness")
	build.Env = append(os.Environ(), "GOFLAGS=-mod=mod", "GOPROXY=off", "GOSUMDB=off", "GOTOOLCHAIN=local", "CGO_ENABLED=1")
	if out, err := build.CombinedOutput(); err != nil {
		s := string(out)
		if len(s) > 300 {
			s = s[len(s)-300:]
		}
		res.Skipped = "race build failed: " + strings.TrimSpace(s)
		return res
	}
	out, err := os.MkdirTemp(work, "race-")
	if err != nil {
		res.Skipped = err.Error()
		return res
	}
	defer os.RemoveAll(out)
	cmd := exec.Command(bin, "gen", "--seed", fmt.Sprint(r.Int63n(1<<40)), "--tier", "quick", "--n", fmt.Sprint(n), "--out", out,
		"--corpus", filepath.Join(root, "corpus", "C16"))
	cmd.Env = append(os.Environ(), "GORACE=halt_on_error=0 exitcode=0", "VERIF_C16_NORACE=1")
	var stderr bytes.Buffer
	cmd.Stderr = &stderr
	done := make(chan error, 1)
	go func() { done <- cmd.Run() }()
	select {
	case err := <-done:
		if err != nil {
			res.Skipped = "race run failed: " + err.Error()
		}
	case <-time.After(20 * time.Minute):
		_ = cmd.Process.Kill()
		res.Skipped = "race run timed out"
	}
	s := stderr.String()
	res.Races = strings.Count(s, "WARNING: DATA RACE")
	if res.Races > 0 {
		if i := strings.Index(s, "WARNING: DATA RACE"); i >= 0 {
			s = s[i:]
		}
		if len(s) > 4000 {
			s = s[:4000]
		}
		res.Report = s
	}
	return res
}
