// C16: lazy index headers stay correct under concurrent idle unloading.
//
// Two kinds of cases run against the real LazyBinaryReader / ReaderPool:
//
//	seq   one goroutine runs a sequence of Reader-method calls, Close /
//	      unloadIfIdleSince(ts), isIdleSince(ts) and sweeps; after every
//	      operation the result class, loaded / failed flags, usedAt and the four
//	      metric counters are recorded. Model/C16.v replays the same operations
//	      through the transition system's step function (corr_ok).
//	conc  many goroutines run lookups while others Close / unload / sweep (or a
//	      real ReaderPool sweeps in the background); every lookup result is
//	      compared with an always-loaded BinaryReader; recorded are the numbers
//	      of results per class and the final counters (checked against the
//	      counter invariant proved for the transition system).
package main

import (
	"context"
	"encoding/json"
	"fmt"
	"math"
	"math/rand"
	"os"
	"path/filepath"
	"reflect"
	"runtime"
	"runtime/debug"
	"sync"
	"time"

	"github.com/go-kit/log"
	"github.com/oklog/ulid/v2"
	"github.com/prometheus/client_golang/prometheus"
	"github.com/prometheus/prometheus/model/labels"
	"github.com/thanos-io/objstore"
	"github.com/thanos-io/objstore/providers/filesystem"

	"github.com/thanos-io/thanos/pkg/block"
	"github.com/thanos-io/thanos/pkg/block/indexheader"
	"github.com/thanos-io/thanos/pkg/block/metadata"
	"github.com/thanos-io/thanos/pkg/testutil/e2eutil"
	"github.com/thanos-io/thanos/zzverif/common"
)

// ---- inputs --------------------------------------------------------------

type sop struct {
	Kind   string `json:"kind"`    // lookup | unload | idle | sweep
	Method int    `json:"method"`  // lookup: which Reader method
	Arg    int    `json:"arg"`     // lookup: argument selector
	TsMode string `json:"ts_mode"` // abs | rel (relative to the current usedAt)
	Ts     int64  `json:"ts"`      // unload / idle / sweep
}

type input struct {
	Kind     string `json:"kind"` // seq | conc
	FailLoad bool   `json:"fail_load,omitempty"`
	Ops      []sop  `json:"ops,omitempty"`
	// conc
	Lookers     int   `json:"lookers,omitempty"`
	LookupsEach int   `json:"lookups_each,omitempty"`
	Closers     int   `json:"closers,omitempty"`
	ClosesEach  int   `json:"closes_each,omitempty"`
	CloseMode   int   `json:"close_mode,omitempty"` // 0 Close(); 1 unloadIfIdleSince(now); 2 mixed incl. never-idle ts; 3 sweep (isIdleSince+unload)
	Pool        bool  `json:"pool,omitempty"`
	IdleUs      int   `json:"idle_us,omitempty"` // pool idle timeout (microseconds)
	Seed        int64 `json:"seed,omitempty"`
	Pause       int   `json:"pause,omitempty"` // 0..3: how often goroutines yield / sleep
	// CancelUs > 0: the context given to the lazy reader is cancelled that many
	// microseconds after the goroutines start; such a case runs in a child process
	// (child.go) so that a runtime fatal error is an observation.
	CancelUs int `json:"cancel_us,omitempty"`
	// race: outcome of the thorough-tier run under the race detector (race.go)
	Race *raceResult `json:"race,omitempty"`
}

// ---- fixture: one block, its index-header, an always-loaded reader ---------

type fixture struct {
	root   string // <tmp>
	dir    string // <tmp>/data
	bkt    objstore.Bucket
	id     ulid.ULID
	always *indexheader.BinaryReader
	names  []string
	values map[string][]string
	nsym   int
	// a directory / bucket in which loading must fail
	emptyDir string
	emptyBkt objstore.Bucket
}

var (
	fxOnce sync.Once
	fx     *fixture
	fxErr  error
)

func getFixture() (*fixture, error) {
	fxOnce.Do(func() {
		ctx := context.Background()
		tmp, err := os.MkdirTemp("", "verif-c16-")
		if err != nil {
			fxErr = err
			return
		}
		f := &fixture{root: tmp, dir: filepath.Join(tmp, "data"), values: map[string][]string{}}
		if fxErr = os.MkdirAll(f.dir, 0o755); fxErr != nil {
			return
		}
		f.bkt, fxErr = filesystem.NewBucket(filepath.Join(tmp, "bkt"))
		if fxErr != nil {
			return
		}
		var series []labels.Labels
		for i := 0; i < 60; i++ {
			series = append(series, labels.FromStrings(
				"a", fmt.Sprintf("v%02d", i%13), "b", fmt.Sprintf("w%d", i%7), "job", "j", "n", fmt.Sprintf("%03d", i)))
		}
		f.id, fxErr = e2eutil.CreateBlock(ctx, f.dir, series, 20, 0, 1000, labels.FromStrings("ext", "1"), 0, metadata.NoneFunc, nil)
		if fxErr != nil {
			return
		}
		if fxErr = block.Upload(ctx, log.NewNopLogger(), f.bkt, filepath.Join(f.dir, f.id.String()), metadata.NoneFunc); fxErr != nil {
			return
		}
		f.always, fxErr = indexheader.NewBinaryReader(ctx, log.NewNopLogger(), f.bkt, f.dir, f.id, 3, indexheader.NewBinaryReaderMetrics(nil))
		if fxErr != nil {
			return
		}
		f.names, fxErr = f.always.LabelNames()
		if fxErr != nil {
			return
		}
		for _, n := range f.names {
			vs, err := f.always.LabelValues(n)
			if err != nil {
				fxErr = err
				return
			}
			f.values[n] = vs
		}
		for o := uint32(0); o < 4096; o++ {
			if _, err := f.always.LookupSymbol(ctx, o); err != nil {
				break
			}
			f.nsym++
		}
		f.emptyDir = filepath.Join(tmp, "empty")
		if fxErr = os.MkdirAll(f.emptyDir, 0o755); fxErr != nil {
			return
		}
		f.emptyBkt, fxErr = filesystem.NewBucket(filepath.Join(tmp, "emptybkt"))
		fx = f
	})
	return fx, fxErr
}

// ---- one lookup, on any Reader ------------------------------------------

const nMethods = 6

var (
	panicMu   sync.Mutex
	lastPanic string
)

type answer struct {
	Val any
	Err string
}

func (f *fixture) name(arg int) string {
	k := arg % (len(f.names) + 1)
	if k == len(f.names) {
		return "missing"
	}
	return f.names[k]
}

func (f *fixture) value(name string, arg int) string {
	vs := f.values[name]
	k := (arg / 7) % (len(vs) + 1)
	if k >= len(vs) {
		return "nope"
	}
	return vs[k]
}

func (f *fixture) call(r indexheader.Reader, method, arg int) (a answer, err error) {
	ctx := context.Background()
	var v any
	switch method % nMethods {
	case 0:
		v, err = r.IndexVersion()
	case 1:
		n := f.name(arg)
		v, err = r.PostingsOffset(n, f.value(n, arg))
	case 2:
		n := f.name(arg)
		v, err = r.PostingsOffsets(n, f.value(n, arg), f.value(n, arg+7), f.value(n, arg+21))
	case 3:
		v, err = r.LookupSymbol(ctx, uint32(arg%(f.nsym+2)))
	case 4:
		v, err = r.LabelValues(f.name(arg))
	case 5:
		v, err = r.LabelNames()
	}
	a.Val = v
	if err != nil {
		a.Err = err.Error()
	}
	return a, err
}

// pending is a Reader-method call that has returned; its answer is read
// (compared with the always-loaded reader's) only later, after the lazy reader
// has been unloaded again: an answer must not depend on the header staying mapped.
type pending struct {
	method, arg int
	got         answer
	err         error
	panicked    bool
}

func notePanic(method, arg int, p any) {
	panicMu.Lock()
	if lastPanic == "" {
		lastPanic = fmt.Sprintf("method %d arg %d: %v\n%s", method, arg, p, debug.Stack())
	}
	panicMu.Unlock()
}

func (f *fixture) callLazy(r indexheader.Reader, method, arg int) (p pending) {
	p.method, p.arg = method, arg
	defer func() {
		if x := recover(); x != nil {
			p.panicked = true
			notePanic(method, arg, x)
		}
	}()
	p.got, p.err = f.call(r, method, arg)
	return p
}

// classify reads the answer and compares it with the always-loaded reader's.
func (f *fixture) classify(p pending, failLoad bool) (class string) {
	defer func() {
		if x := recover(); x != nil {
			class = "KPanic"
			notePanic(p.method, p.arg, x)
		}
	}()
	if p.panicked {
		return "KPanic"
	}
	if indexheader.VerifC16ErrClass(p.err) == "unloaded" {
		return "KUnloaded"
	}
	if failLoad {
		if p.err != nil {
			return "KLoadErr"
		}
		return "KDiff"
	}
	want, _ := f.call(f.always, p.method, p.arg)
	if p.got.Err == want.Err && (p.got.Err != "" || reflect.DeepEqual(p.got.Val, want.Val)) {
		return "KOk"
	}
	if p.err != nil && want.Err == "" {
		return "KOther"
	}
	return "KDiff"
}

func unloadClass(err error) string {
	switch indexheader.VerifC16ErrClass(err) {
	case "nil":
		return "KNil"
	case "notidle":
		return "KNotIdle"
	}
	return "KOther"
}

// ---- metrics -------------------------------------------------------------

type counters struct{ loads, loadfails, unloads, unloadfails uint64 }

func readCounters(reg *prometheus.Registry) counters {
	var c counters
	mfs, _ := reg.Gather()
	for _, mf := range mfs {
		if len(mf.Metric) == 0 || mf.Metric[0].Counter == nil {
			continue
		}
		v := uint64(mf.Metric[0].Counter.GetValue())
		switch mf.GetName() {
		case "indexheader_lazy_load_total":
			c.loads = v
		case "indexheader_lazy_load_failed_total":
			c.loadfails = v
		case "indexheader_lazy_unload_total":
			c.unloads = v
		case "indexheader_lazy_unload_failed_total":
			c.unloadfails = v
		}
	}
	return c
}

func (f *fixture) newLazy(failLoad bool, reg *prometheus.Registry) (*indexheader.LazyBinaryReader, error) {
	return f.newLazyCtx(context.Background(), failLoad, reg)
}

func (f *fixture) newLazyCtx(ctx context.Context, failLoad bool, reg *prometheus.Registry) (*indexheader.LazyBinaryReader, error) {
	if failLoad {
		// nothing on disk, nothing in the bucket, lazy download: construction
		// succeeds and every load fails.
		return indexheader.NewLazyBinaryReader(ctx, log.NewNopLogger(), f.emptyBkt, f.emptyDir, ulid.MustNew(1, nil), 3,
			indexheader.NewLazyBinaryReaderMetrics(reg), indexheader.NewBinaryReaderMetrics(nil), nil, true)
	}
	return indexheader.NewLazyBinaryReader(ctx, log.NewNopLogger(), f.bkt, f.dir, f.id, 3,
		indexheader.NewLazyBinaryReaderMetrics(reg), indexheader.NewBinaryReaderMetrics(nil), nil, false)
}

// ---- sequential cases ------------------------------------------------------

type seqObs struct {
	Op     string `json:"op"`
	Ts     int64  `json:"ts,omitempty"`
	Res    string `json:"res"`
	Loaded bool   `json:"loaded"`
	Failed bool   `json:"failed"`
	Loads  uint64 `json:"loads"`
	Unl    uint64 `json:"unloads"`
}

func runSeq(f *fixture, in input) (common.Case, error) {
	debug.SetPanicOnFault(true)
	c := common.Case{Class: "seq"}
	if in.FailLoad {
		c.Class = "seq-failload"
	}
	reg := prometheus.NewRegistry()
	r, err := f.newLazy(in.FailLoad, reg)
	if err != nil {
		return c, err
	}
	u0 := indexheader.VerifC16UsedAt(r)
	type rec struct {
		opTerm string
		used   int64
		pend   *pending
		res    string
		loaded bool
		failed bool
		cs     counters
		o      sop
		ts     int64
	}
	var recs []rec
	for _, o := range in.Ops {
		ts := o.Ts
		if o.TsMode == "rel" {
			ts = indexheader.VerifC16UsedAt(r) + o.Ts
		}
		rc := rec{o: o, ts: ts}
		switch o.Kind {
		case "lookup":
			p := f.callLazy(r, o.Method, o.Arg)
			rc.pend = &p
			rc.opTerm = "OLookup"
		case "unload":
			if o.TsMode == "abs" && ts == 0 {
				rc.res = unloadClass(r.Close())
			} else {
				rc.res = unloadClass(indexheader.VerifC16UnloadIfIdleSince(r, ts))
			}
			rc.opTerm = common.App("OUnload", common.Z(ts))
		case "idle":
			if indexheader.VerifC16IsIdleSince(r, ts) {
				rc.res = "KTrue"
			} else {
				rc.res = "KFalse"
			}
			rc.opTerm = common.App("OIsIdle", common.Z(ts))
		case "sweep":
			// the body of ReaderPool.closeIdleReaders for this one reader
			if indexheader.VerifC16IsIdleSince(r, ts) {
				rc.res = unloadClass(indexheader.VerifC16UnloadIfIdleSince(r, ts))
			} else {
				rc.res = "KFalse"
			}
			rc.opTerm = common.App("OSweep", common.Z(ts))
		default:
			return c, fmt.Errorf("bad op kind %q", o.Kind)
		}
		rc.loaded, rc.failed = indexheader.VerifC16Loaded(r)
		rc.used = indexheader.VerifC16UsedAt(r)
		rc.cs = readCounters(reg)
		recs = append(recs, rc)
	}
	// unload, and only now read the answers
	_ = r.Close()
	var terms []string
	var obs []seqObs
	notIdle, reloads := 0, 0
	for _, rc := range recs {
		if rc.pend != nil {
			rc.res = f.classify(*rc.pend, in.FailLoad)
		}
		terms = append(terms, common.Tuple(rc.opTerm, common.Z(rc.used),
			common.App("mkO", rc.res, common.Bool(rc.loaded), common.Bool(rc.failed), common.Z(rc.used),
				common.N(rc.cs.loads), common.N(rc.cs.loadfails), common.N(rc.cs.unloads), common.N(rc.cs.unloadfails))))
		obs = append(obs, seqObs{Op: rc.o.Kind, Ts: rc.ts, Res: rc.res, Loaded: rc.loaded, Failed: rc.failed, Loads: rc.cs.loads, Unl: rc.cs.unloads})
		if rc.res == "KNotIdle" {
			notIdle++
		}
		if rc.cs.loads >= 2 {
			reloads = 1
		}
		if rc.o.Kind == "lookup" && rc.res != "KOk" && rc.res != "KLoadErr" && rc.res != "KUnloaded" {
			c.GoPred = fmt.Sprintf("lookup (method %d arg %d) answered %s when its answer was read after the header had been unloaded", rc.o.Method, rc.o.Arg, rc.res)
			c.Sig = "seq-lookup-" + rc.res
		}
	}
	c.Coq = common.App("CSeq", common.Z(u0), common.Bool(!in.FailLoad), common.List(terms))
	c.Obs = obs
	c.Nontrivial = reloads > 0 || notIdle > 0 || in.FailLoad && len(in.Ops) > 1
	return c, nil
}

// ---- concurrent cases --------------------------------------------------------

type concObs struct {
	Panic    string         `json:"panic,omitempty"`
	Lookups  map[string]int `json:"lookups"`
	Unloads  map[string]int `json:"unloads"`
	Counters [4]uint64      `json:"counters"`
	Loaded   bool           `json:"loaded"`
}

func pause(rng *rand.Rand, level int) {
	if level == 0 {
		return
	}
	if level > 3 {
		level = 3
	}
	switch k := rng.Intn(8 * (4 - level)); {
	case k == 0:
		time.Sleep(time.Duration(rng.Intn(300)) * time.Microsecond)
	case k < 3:
		runtime.Gosched()
	}
}

func runConc(f *fixture, in input) (common.Case, error) {
	c := common.Case{Class: "conc"}
	ctx, cancel := context.WithCancel(context.Background())
	defer cancel()
	reg := prometheus.NewRegistry()
	var r *indexheader.LazyBinaryReader
	var pool *indexheader.ReaderPool
	if in.Pool {
		c.Class = "conc-pool"
		idle := time.Duration(in.IdleUs) * time.Microsecond
		if idle < 100*time.Microsecond {
			idle = 100 * time.Microsecond
		}
		pool = indexheader.NewReaderPool(log.NewNopLogger(), true, idle, indexheader.NewReaderPoolMetrics(reg), indexheader.AlwaysEagerDownloadIndexHeader)
		rr, err := pool.NewBinaryReader(ctx, log.NewNopLogger(), f.bkt, f.dir, f.id, 3, nil)
		if err != nil {
			return c, err
		}
		r = rr.(*indexheader.LazyBinaryReader)
	} else {
		var err error
		if r, err = f.newLazyCtx(ctx, false, reg); err != nil {
			return c, err
		}
	}
	if in.CancelUs > 0 {
		c.Class += "-ctx-cancel"
	}
	var mu sync.Mutex
	lk := map[string]int{}
	ul := map[string]int{}
	var pend []pending
	var wg sync.WaitGroup
	start := make(chan struct{})
	for g := 0; g < in.Lookers; g++ {
		wg.Add(1)
		go func(g int) {
			defer wg.Done()
			debug.SetPanicOnFault(true)
			rng := rand.New(rand.NewSource(in.Seed*1000 + int64(g)))
			var local []pending
			<-start
			for i := 0; i < in.LookupsEach; i++ {
				local = append(local, f.callLazy(r, rng.Intn(nMethods), rng.Intn(1000)))
				pause(rng, in.Pause)
			}
			mu.Lock()
			pend = append(pend, local...)
			mu.Unlock()
		}(g)
	}
	for g := 0; g < in.Closers; g++ {
		wg.Add(1)
		go func(g int) {
			defer wg.Done()
			rng := rand.New(rand.NewSource(in.Seed*1000 + 500 + int64(g)))
			local := map[string]int{}
			<-start
			for i := 0; i < in.ClosesEach; i++ {
				mode := in.CloseMode
				if mode == 2 {
					mode = rng.Intn(5)
				}
				switch mode {
				case 0:
					local[unloadClass(indexheader.VerifC16UnloadIfIdleSince(r, 0))]++
				case 1:
					local[unloadClass(indexheader.VerifC16UnloadIfIdleSince(r, time.Now().UnixNano()))]++
				case 3:
					ts := time.Now().UnixNano()
					if pool != nil {
						indexheader.VerifC16CloseIdleReaders(pool)
					} else if indexheader.VerifC16IsIdleSince(r, ts) {
						local[unloadClass(indexheader.VerifC16UnloadIfIdleSince(r, ts))]++
					}
				default:
					local[unloadClass(indexheader.VerifC16UnloadIfIdleSince(r, 1))]++ // never idle
				}
				pause(rng, in.Pause+1)
			}
			mu.Lock()
			for k, v := range local {
				ul[k] += v
			}
			mu.Unlock()
		}(g)
	}
	if in.CancelUs > 0 {
		wg.Add(1)
		go func() {
			defer wg.Done()
			<-start
			time.Sleep(time.Duration(in.CancelUs) * time.Microsecond)
			cancel()
		}()
	}
	close(start)
	wg.Wait()
	if pool != nil {
		pool.Close()
		// let an in-flight background sweep finish before reading the final state
		time.Sleep(2 * time.Millisecond)
	}
	loaded, _ := indexheader.VerifC16Loaded(r)
	cs := readCounters(reg)
	// unload (not part of the observation), and only now read the answers
	_ = indexheader.VerifC16UnloadIfIdleSince(r, 0)
	debug.SetPanicOnFault(true)
	for _, p := range pend {
		lk[f.classify(p, false)]++
	}

	total := uint64(in.Lookers * in.LookupsEach)
	n := func(m map[string]int, k string) string { return common.N(uint64(m[k])) }
	otherL := 0
	for k, v := range lk {
		switch k {
		case "KOk", "KDiff", "KLoadErr", "KUnloaded", "KPanic":
		default:
			otherL += v
		}
	}
	c.Coq = common.App("CConc", common.N(total),
		n(lk, "KOk"), n(lk, "KDiff"), n(lk, "KLoadErr"), n(lk, "KUnloaded"), n(lk, "KPanic"), common.N(uint64(otherL)),
		n(ul, "KNil"), n(ul, "KNotIdle"), n(ul, "KOther"),
		common.N(cs.loads), common.N(cs.loadfails), common.N(cs.unloads), common.N(cs.unloadfails), common.Bool(loaded))
	panicMu.Lock()
	pmsg := lastPanic
	lastPanic = ""
	panicMu.Unlock()
	c.Obs = concObs{Panic: pmsg, Lookups: lk, Unloads: ul, Counters: [4]uint64{cs.loads, cs.loadfails, cs.unloads, cs.unloadfails}, Loaded: loaded}
	c.Nontrivial = cs.loads >= 2 && cs.unloads >= 1
	switch {
	case lk["KPanic"] > 0:
		c.GoPred = fmt.Sprintf("%d concurrent lookup(s) panicked or returned an answer that faults once the header is unloaded (nil or unmapped index-header)", lk["KPanic"])
		c.Sig = "conc-lookup-panic"
	case lk["KDiff"] > 0:
		c.GoPred = fmt.Sprintf("%d concurrent lookup(s) answered differently from the always-loaded reader", lk["KDiff"])
		c.Sig = "conc-lookup-diff"
	case otherL > 0 || lk["KLoadErr"] > 0:
		c.GoPred = fmt.Sprintf("%d concurrent lookup(s) failed with an undeclared error", otherL+lk["KLoadErr"])
		c.Sig = "conc-lookup-error"
	case ul["KOther"] > 0:
		c.GoPred = "an unload returned an undeclared error"
		c.Sig = "conc-unload-error"
	}
	return c, nil
}

func run(raw json.RawMessage) (common.Case, error) {
	var in input
	if err := json.Unmarshal(raw, &in); err != nil {
		return common.Case{}, err
	}
	f, err := getFixture()
	if err != nil {
		return common.Case{}, fmt.Errorf("fixture: %w", err)
	}
	switch in.Kind {
	case "race":
		return runRace(in)
	case "seq":
		return runSeq(f, in)
	case "conc":
		if in.Lookers > 64 || in.Closers > 64 || in.LookupsEach > 5000 || in.ClosesEach > 5000 {
			return common.Case{}, fmt.Errorf("case too large")
		}
		if in.CancelUs > 0 && os.Getenv("VERIF_C16_CHILD") == "" {
			return runInChild(f, raw)
		}
		return runConc(f, in)
	}
	return common.Case{}, fmt.Errorf("bad kind %q", in.Kind)
}

// ---- generators ----------------------------------------------------------------

func genSeq(r *rand.Rand, maxOps int) input {
	in := input{Kind: "seq", FailLoad: r.Intn(8) == 0}
	n := 1 + r.Intn(maxOps)
	for i := 0; i < n; i++ {
		var o sop
		switch k := r.Intn(10); {
		case k < 4:
			o = sop{Kind: "lookup", Method: r.Intn(nMethods), Arg: r.Intn(1000)}
		case k < 7:
			o = sop{Kind: "unload"}
		case k < 8:
			o = sop{Kind: "idle"}
		default:
			o = sop{Kind: "sweep"}
		}
		if o.Kind != "lookup" {
			switch r.Intn(6) {
			case 0:
				o.TsMode, o.Ts = "abs", 0 // Close()
			case 1:
				o.TsMode, o.Ts = "abs", common.Pick(r, int64(1), -1, -5, math.MaxInt64, math.MinInt64, 1000)
			default:
				// around the boundary usedAt > ts
				o.TsMode, o.Ts = "rel", common.Pick(r, int64(-1), 0, 1, -1000000000, 1000000000, 0, -1, 1)
			}
		}
		in.Ops = append(in.Ops, o)
	}
	return in
}

func genConc(r *rand.Rand, tier string) input {
	in := input{Kind: "conc", Seed: r.Int63n(1 << 40)}
	scale := 1
	if tier == "thorough" {
		scale = 3
	}
	in.Lookers = 1 + r.Intn(8)
	in.LookupsEach = (5 + r.Intn(40)) * scale
	in.Closers = 1 + r.Intn(3)
	in.ClosesEach = (3 + r.Intn(30)) * scale
	in.CloseMode = common.Pick(r, 0, 0, 1, 2, 3)
	in.Pause = common.Pick(r, 0, 0, 1, 2, 3)
	if r.Intn(3) == 0 {
		// cancel the reader's context while lookups and unloads race
		in.CancelUs = common.Pick(r, 1, 50, 200, 1000)
		in.CloseMode = 0
		in.Closers = 1 + r.Intn(3)
		in.Lookers = 2 + r.Intn(7)
	}
	if r.Intn(4) == 0 {
		in.Pool = true
		in.IdleUs = common.Pick(r, 100, 300, 1000, 3000)
		in.CloseMode = common.Pick(r, 0, 3, 3)
		in.Pause = 1 + r.Intn(3)
	}
	return in
}

func runRace(in input) (common.Case, error) {
	c := common.Case{Class: "race-detector"}
	rr := in.Race
	if rr == nil {
		return c, fmt.Errorf("race case without result")
	}
	if rr.Skipped != "" {
		c.Class = "race-detector-skipped"
	}
	z := common.N(0)
	c.Coq = common.App("CConc", common.N(uint64(rr.Races)), z, z, z, z, z, common.N(uint64(rr.Races)), z, z, z, z, z, z, z, "false")
	c.Obs = rr
	c.Nontrivial = rr.Skipped == "" && rr.Cases > 0
	if rr.Races > 0 {
		c.GoPred = fmt.Sprintf("the race detector reported %d data race(s) while %d cases ran: %s", rr.Races, rr.Cases, rr.Report)
		c.Sig = "data-race"
	}
	return c, nil
}

func gen(r *rand.Rand, tier string, n int) []any {
	var out []any
	if tier == "thorough" && os.Getenv("VERIF_C16_NORACE") == "" {
		rr := raceRun(r, 400)
		out = append(out, input{Kind: "race", Race: &rr})
	}
	maxOps := 12
	if tier == "thorough" {
		maxOps = 40
	}
	for i := 0; i < n; i++ {
		if r.Intn(5) < 3 {
			out = append(out, genSeq(r, maxOps))
		} else {
			out = append(out, genConc(r, tier))
		}
	}
	return out
}

func main() {
	if len(os.Args) >= 2 && os.Args[1] == "c16child" {
		childMain(os.Args[2:])
		return
	}
	common.Main(common.Prop{ID: "C16", Facts: facts, Gen: gen, Run: run, QuickN: 400, ThoroughN: 4000})
	if fx != nil {
		os.RemoveAll(filepath.Dir(fx.dir))
	}
}
