// C16: lazy index headers stay correct under concurrent idle unloading.
package main

import (
	"encoding/json"
	"math/rand"

	"github.com/thanos-io/thanos/zzverif/common"
)

func run(raw json.RawMessage) (common.Case, error) { return common.Case{}, nil }

func gen(r *rand.Rand, tier string, n int) []any { return nil }

func main() {
	common.Main(common.Prop{ID: "C16", Facts: facts, Gen: gen, Run: run, QuickN: 300, ThoroughN: 3000})
}
