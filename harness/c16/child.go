package main

// Cases whose reader context is cancelled mid-run are executed in a child
// process (this same binary, sub-command "c16child") over the parent's fixture
// directory: an unbalanced RUnlock ("fatal error: sync: RUnlock of unlocked
// RWMutex") or any other runtime fatal error kills the child and thereby becomes
// an observation of the parent (Sig rwmutex-unbalanced / child-fatal).

import (
	"bytes"
	"context"
	"encoding/json"
	"fmt"
	"os"
	"os/exec"
	"path/filepath"
	"strings"
	"time"

	"github.com/go-kit/log"
	"github.com/oklog/ulid/v2"
	"github.com/thanos-io/objstore/providers/filesystem"

	"github.com/thanos-io/thanos/pkg/block/indexheader"
	"github.com/thanos-io/thanos/zzverif/common"
)

// openFixture opens the fixture another process created under root.
func openFixture(root, id string) (*fixture, error) {
	ctx := context.Background()
	f := &fixture{root: root, dir: filepath.Join(root, "data"), values: map[string][]string{}}
	var err error
	if f.id, err = ulid.Parse(id); err != nil {
		return nil, err
	}
	if f.bkt, err = filesystem.NewBucket(filepath.Join(root, "bkt")); err != nil {
		return nil, err
	}
	if f.always, err = indexheader.NewBinaryReader(ctx, log.NewNopLogger(), f.bkt, f.dir, f.id, 3, indexheader.NewBinaryReaderMetrics(nil)); err != nil {
		return nil, err
	}
	if f.names, err = f.always.LabelNames(); err != nil {
		return nil, err
	}
	for _, n := range f.names {
		vs, err := f.always.LabelValues(n)
		if err != nil {
			return nil, err
		}
		f.values[n] = vs
	}
	for o := uint32(0); o < 4096; o++ {
		if _, err := f.always.LookupSymbol(ctx, o); err != nil {
			break
		}
		f.nsym++
	}
	return f, nil
}

// childMain: args = fixture root, block id; the input is read from stdin, the
// resulting common.Case is written to stdout as JSON.
func childMain(args []string) {
	if len(args) != 2 {
		fmt.Fprintln(os.Stderr, "usage: c16child ROOT BLOCKID < input.json")
		os.Exit(2)
	}
	var in input
	if err := json.NewDecoder(os.Stdin).Decode(&in); err != nil {
		fmt.Fprintln(os.Stderr, "child: bad input:", err)
		os.Exit(2)
	}
	f, err := openFixture(args[0], args[1])
	if err != nil {
		fmt.Fprintln(os.Stderr, "child: fixture:", err)
		os.Exit(2)
	}
	c, err := runConc(f, in)
	if err != nil {
		fmt.Fprintln(os.Stderr, "child: run:", err)
		os.Exit(2)
	}
	_ = json.NewEncoder(os.Stdout).Encode(c)
}

func runInChild(f *fixture, raw json.RawMessage) (common.Case, error) {
	exe, err := os.Executable()
	if err != nil {
		return common.Case{}, err
	}
	ctx, cancel := context.WithTimeout(context.Background(), 25*time.Second)
	defer cancel()
	cmd := exec.CommandContext(ctx, exe, "c16child", f.root, f.id.String())
	cmd.Env = append(os.Environ(), "VERIF_C16_CHILD=1")
	cmd.Stdin = bytes.NewReader(raw)
	var stdout, stderr bytes.Buffer
	cmd.Stdout, cmd.Stderr = &stdout, &stderr
	runErr := cmd.Run()
	se := stderr.String()
	if runErr == nil {
		var c common.Case
		if err := json.Unmarshal(stdout.Bytes(), &c); err != nil {
			return common.Case{}, fmt.Errorf("child output: %w", err)
		}
		return c, nil
	}
	if ctx.Err() != nil {
		// lookups / unloads never finished: a corrupted lock count blocks them for ever
		c := common.Case{Class: "conc-ctx-cancel", Nontrivial: true, Sig: "child-hang"}
		c.GoPred = "the process running lookups / unloads with a cancelled reader context did not finish within 25s (blocked on the reader's lock)"
		one, z := common.N(1), common.N(0)
		c.Coq = common.App("CConc", one, z, z, z, z, one, z, z, z, z, z, z, z, z, "false")
		c.Obs = map[string]string{"child": "timeout"}
		return c, nil
	}
	if !strings.Contains(se, "fatal error:") && !strings.Contains(se, "panic:") && !strings.Contains(se, "SIGSEGV") {
		if len(se) > 500 {
			se = se[:500]
		}
		return common.Case{}, fmt.Errorf("child failed: %v: %s", runErr, se)
	}
	// the process died: that is the observation
	c := common.Case{Class: "conc-ctx-cancel", Nontrivial: true}
	msg := se
	if i := strings.Index(msg, "fatal error:"); i >= 0 {
		msg = msg[i:]
	}
	if len(msg) > 1500 {
		msg = msg[:1500]
	}
	c.Sig = "child-fatal"
	if strings.Contains(se, "RUnlock of unlocked RWMutex") || strings.Contains(se, "Unlock of unlocked RWMutex") {
		c.Sig = "rwmutex-unbalanced"
	}
	c.GoPred = "the process running lookups / unloads with a cancelled reader context died: " + msg
	one, z := common.N(1), common.N(0)
	// one lookup, counted as a panic; no counters could be read
	c.Coq = common.App("CConc", one, z, z, z, z, one, z, z, z, z, z, z, z, z, "false")
	c.Obs = map[string]string{"child_stderr": msg}
	return c, nil
}
