package main

// Tie T for C16: the synchronisation skeleton of the lazy reader's functions,
// regenerated from the Go source on every run. For each function we emit the
// source-order list of (kind, text) events: call / defer / enddefer / return /
// if / else / endif / assign. Calls that cannot touch the reader state
// (logging, metrics, time, error wrapping) are dropped by an explicit list;
// every other statement kind that is not understood makes the translator
// refuse. Proofs/C16*.v checks (by computation) that these lists are exactly
// the skeleton the hand-written thread programs of Model/C16.v implement.

import (
	"bytes"
	"fmt"
	"go/ast"
	"go/printer"
	"go/token"
	"io"
	"strings"

	"github.com/thanos-io/thanos/zzverif/common"
)

type ev struct{ kind, text string }

func nstr(fset *token.FileSet, n ast.Node) string {
	var b bytes.Buffer
	printer.Fprint(&b, fset, n)
	return strings.Join(strings.Fields(b.String()), " ")
}

// calls with one of these prefixes cannot affect lock / reader state.
var ignoredCallPrefixes = []string{"level.", "r.metrics.", "time.", "errors.", "r.id."}

func ignoredCall(name string) bool {
	for _, p := range ignoredCallPrefixes {
		if strings.HasPrefix(name, p) {
			return true
		}
	}
	return false
}

func callee(fset *token.FileSet, e ast.Expr) string {
	switch x := e.(type) {
	case *ast.Ident:
		return x.Name
	case *ast.SelectorExpr:
		return callee(fset, x.X) + "." + x.Sel.Name
	case *ast.CallExpr:
		return callee(fset, x.Fun) + "()"
	case *ast.ParenExpr:
		return callee(fset, x.X)
	}
	return nstr(fset, e)
}

type walker struct {
	fset *token.FileSet
	evs  []ev
	err  error
}

func (w *walker) fail(n ast.Node, what string) {
	if w.err == nil {
		w.err = fmt.Errorf("c16 facts: unsupported %s at %s", what, w.fset.Position(n.Pos()))
	}
}

// calls inside an expression, in source order (arguments before the call).
func (w *walker) expr(e ast.Expr) {
	if e == nil {
		return
	}
	ast.Inspect(e, func(n ast.Node) bool {
		switch x := n.(type) {
		case *ast.FuncLit:
			w.fail(x, "function literal in expression")
			return false
		case *ast.CallExpr:
			if se, ok := x.Fun.(*ast.SelectorExpr); ok {
				w.expr(se.X)
			}
			for _, a := range x.Args {
				w.expr(a)
			}
			name := callee(w.fset, x.Fun)
			if !ignoredCall(name) {
				w.evs = append(w.evs, ev{"call", name})
			}
			return false
		}
		return true
	})
}

func (w *walker) block(b *ast.BlockStmt) {
	for _, st := range b.List {
		w.stmt(st)
	}
}

func (w *walker) stmt(st ast.Stmt) {
	switch x := st.(type) {
	case *ast.ExprStmt:
		w.expr(x.X)
	case *ast.AssignStmt:
		for _, r := range x.Rhs {
			w.expr(r)
		}
		// only assignments to fields / named results matter; locals (:=) are dropped
		if x.Tok == token.ASSIGN {
			w.evs = append(w.evs, ev{"assign", nstr(w.fset, x)})
		} else if x.Tok == token.DEFINE {
			// locals are dropped unless they read the shared reader fields
			if t := nstr(w.fset, x); strings.Contains(t, "r.reader") {
				w.evs = append(w.evs, ev{"define", t})
			}
		} else {
			w.fail(x, "assignment operator")
		}
	case *ast.DeferStmt:
		for _, a := range x.Call.Args {
			w.expr(a)
		}
		if fl, ok := x.Call.Fun.(*ast.FuncLit); ok {
			w.evs = append(w.evs, ev{"defer", "funclit"})
			w.block(fl.Body)
			w.evs = append(w.evs, ev{"enddefer", "funclit"})
		} else {
			w.evs = append(w.evs, ev{"defer", callee(w.fset, x.Call.Fun)})
		}
	case *ast.ReturnStmt:
		var parts []string
		for _, r := range x.Results {
			w.expr(r)
			parts = append(parts, nstr(w.fset, r))
		}
		w.evs = append(w.evs, ev{"return", strings.Join(parts, ", ")})
	case *ast.IfStmt:
		if x.Init != nil {
			w.stmt(x.Init)
		}
		w.expr(x.Cond)
		w.evs = append(w.evs, ev{"if", nstr(w.fset, x.Cond)})
		w.block(x.Body)
		if x.Else != nil {
			w.evs = append(w.evs, ev{"else", ""})
			switch e := x.Else.(type) {
			case *ast.BlockStmt:
				w.block(e)
			default:
				w.stmt(e)
			}
		}
		w.evs = append(w.evs, ev{"endif", ""})
	case *ast.BlockStmt:
		w.block(x)
	case *ast.RangeStmt:
		w.expr(x.X)
		w.evs = append(w.evs, ev{"for", "range " + nstr(w.fset, x.X)})
		w.block(x.Body)
		w.evs = append(w.evs, ev{"endfor", ""})
	case *ast.DeclStmt:
		// `var idle []*LazyBinaryReader`: no calls allowed inside
		ast.Inspect(x, func(n ast.Node) bool {
			if _, ok := n.(*ast.CallExpr); ok {
				w.fail(n, "call in declaration")
			}
			return true
		})
	default:
		w.fail(st, fmt.Sprintf("statement %T", st))
	}
}

func events(s *common.SrcFile, fn string) ([]ev, error) {
	fd, err := s.FindFunc(fn)
	if err != nil {
		return nil, err
	}
	w := &walker{fset: s.Fset}
	w.block(fd.Body)
	if w.err != nil {
		return nil, fmt.Errorf("%s: %w", fn, w.err)
	}
	return w.evs, nil
}

func emit(w io.Writer, name string, evs []ev) {
	var parts []string
	for _, e := range evs {
		parts = append(parts, fmt.Sprintf("(%s, %s)", common.CoqString(e.kind), common.CoqString(e.text)))
	}
	fmt.Fprintf(w, "Definition %s : list (string * string) :=\n  [%s]%%string.\n", name, strings.Join(parts, ";\n   "))
}

func facts(repo string, w io.Writer) error {
	s, err := common.ParseSrc(repo, "pkg/block/indexheader/lazy_binary_reader.go")
	if err != nil {
		return err
	}
	fmt.Fprintln(w, "(* pkg/block/indexheader/lazy_binary_reader.go: source-order synchronisation skeletons *)")
	for _, fn := range []string{"load", "unloadIfIdleSince", "isIdleSince", "Close"} {
		evs, err := events(s, "LazyBinaryReader."+fn)
		if err != nil {
			return err
		}
		emit(w, "ev_"+fn, evs)
	}
	// every method of *LazyBinaryReader that is not one of the above: which ones
	// exist, and the skeleton of each (they must all have the same shape).
	var names []string
	for _, d := range s.File.Decls {
		fd, ok := d.(*ast.FuncDecl)
		if !ok || fd.Recv == nil || len(fd.Recv.List) != 1 {
			continue
		}
		t := fd.Recv.List[0].Type
		if st, ok := t.(*ast.StarExpr); ok {
			t = st.X
		}
		if id, ok := t.(*ast.Ident); !ok || id.Name != "LazyBinaryReader" {
			continue
		}
		switch fd.Name.Name {
		case "load", "unloadIfIdleSince", "isIdleSince", "Close":
			continue
		}
		names = append(names, fd.Name.Name)
	}
	var ms []string
	for _, n := range names {
		evs, err := events(s, "LazyBinaryReader."+n)
		if err != nil {
			return err
		}
		// the delegate call r.reader.<Name> is normalised to r.reader.METHOD so
		// that all methods can be compared with one expected skeleton
		for i := range evs {
			evs[i].text = strings.ReplaceAll(evs[i].text, "r.reader."+n, "r.reader.METHOD")
			if evs[i].kind == "return" {
				if strings.HasPrefix(evs[i].text, "r.reader.METHOD(") {
					evs[i].text = "r.reader.METHOD(...)"
				} else if strings.HasSuffix(evs[i].text, ", err") {
					evs[i].text = "ZERO, err"
				}
			}
		}
		emit(w, "ev_method_"+n, evs)
		ms = append(ms, fmt.Sprintf("(%s, ev_method_%s)", common.CoqString(n), n))
	}
	fmt.Fprintf(w, "Definition ev_methods : list (string * list (string * string)) :=\n  [%s]%%string.\n", strings.Join(ms, ";\n   "))

	// which of the delegated BinaryReader methods hand out zero-copy strings
	// (direct use of yoloString / package unsafe in the method body)
	b, err := common.ParseSrc(repo, "pkg/block/indexheader/binary_reader.go")
	if err != nil {
		return err
	}
	var yolo []string
	for _, n := range names {
		fd, err := b.FindFunc("BinaryReader." + n)
		if err != nil {
			return err
		}
		uses := false
		ast.Inspect(fd.Body, func(x ast.Node) bool {
			switch y := x.(type) {
			case *ast.Ident:
				if y.Name == "yoloString" || y.Name == "unsafe" {
					uses = true
				}
			}
			return true
		})
		if uses {
			yolo = append(yolo, common.CoqString(n))
		}
	}
	fmt.Fprintln(w, "(* pkg/block/indexheader/binary_reader.go: delegated methods whose body uses yoloString / unsafe *)")
	fmt.Fprintf(w, "Definition yolo_methods : list string := [%s]%%string.\n", strings.Join(yolo, "; "))

	p, err := common.ParseSrc(repo, "pkg/block/indexheader/reader_pool.go")
	if err != nil {
		return err
	}
	fmt.Fprintln(w, "(* pkg/block/indexheader/reader_pool.go *)")
	for _, fn := range []string{"closeIdleReaders", "getIdleReadersSince"} {
		evs, err := events(p, "ReaderPool."+fn)
		if err != nil {
			return err
		}
		emit(w, "ev_pool_"+fn, evs)
	}
	return nil
}
