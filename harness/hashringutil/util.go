// Package hashringutil holds helpers shared by the hashring harnesses
// (C18, C19, C20, C21, C27).
package hashringutil

import (
	"sort"
	"strconv"

	"github.com/cespare/xxhash/v2"
)

// SectionHash is the oracle for the hash newKetamaHashring assigns to section
// i (1-based) of the endpoint with the given address: the value the real
// xxhash library computes for "<address>:<i>".
func SectionHash(addr string, i int) uint64 {
	return xxhash.Sum64String(addr + ":" + strconv.Itoa(i))
}

// Ranker maps uint64 hash values to their dense rank among all values added.
// The ketama code and its model use hash values only through comparisons
// (sorting, binary search, equality), so an order- and equality-preserving
// renaming changes nothing observable; it keeps the Coq case terms small
// (elaborating a 64-bit literal costs Coq about 2 ms). With Raw set, values
// are passed through unchanged.
type Ranker struct {
	Raw  bool
	vals []uint64
	rank map[uint64]uint64
}

func (r *Ranker) Add(vs ...uint64) { r.vals = append(r.vals, vs...); r.rank = nil }

func (r *Ranker) Rank(v uint64) uint64 {
	if r.Raw {
		return v
	}
	if r.rank == nil {
		s := append([]uint64(nil), r.vals...)
		sort.Slice(s, func(i, j int) bool { return s[i] < s[j] })
		r.rank = map[uint64]uint64{}
		for _, x := range s {
			if _, ok := r.rank[x]; !ok {
				r.rank[x] = uint64(len(r.rank))
			}
		}
	}
	k, ok := r.rank[v]
	if !ok {
		panic("hashringutil: value was not added to the ranker")
	}
	return k
}
