// Package hashringutil holds helpers shared by the hashring harnesses
// (C18, C19, C20, C21, C27).
package hashringutil

import (
	"fmt"
	"go/ast"
	"go/token"
	"sort"
	"strconv"

	"github.com/cespare/xxhash/v2"
)

// SectionHash is the oracle for the hash newKetamaHashring assigns to section
// i (1-based) of the endpoint with the given address: the value the real
// xxhash library computes for "<address>:<i>".
func SectionHash(addr string, i int) uint64 {
	return xxhash.Sum64String(addr + ":" + strconv.Itoa(i))
}

// Ranker maps uint64 hash values to their dense rank among all values added.
// The ketama code and its model use hash values only through comparisons
// (sorting, binary search, equality), so an order- and equality-preserving
// renaming changes nothing observable; it keeps the Coq case terms small
// (elaborating a 64-bit literal costs Coq about 2 ms). With Raw set, values
// are passed through unchanged.
type Ranker struct {
	Raw  bool
	vals []uint64
	rank map[uint64]uint64
}

func (r *Ranker) Add(vs ...uint64) { r.vals = append(r.vals, vs...); r.rank = nil }

func (r *Ranker) Rank(v uint64) uint64 {
	if r.Raw {
		return v
	}
	if r.rank == nil {
		s := append([]uint64(nil), r.vals...)
		sort.Slice(s, func(i, j int) bool { return s[i] < s[j] })
		r.rank = map[uint64]uint64{}
		for _, x := range s {
			if _, ok := r.rank[x]; !ok {
				r.rank[x] = uint64(len(r.rank))
			}
		}
	}
	k, ok := r.rank[v]
	if !ok {
		panic("hashringutil: value was not added to the ranker")
	}
	return k
}

// SearchPredicate locates the function literal passed to sort.Search inside fn
// (a single `return <lhs> <op> <rhs>` body), checks that lhs/rhs are spelled as
// expected and returns the Coq boolean comparison operator for <op>. It is a
// deliberately tiny translator: anything else is an error, never a guess.
func SearchPredicate(fd *ast.FuncDecl, render func(ast.Expr) string, wantLHS, wantRHS string) (string, error) {
	var pred *ast.BinaryExpr
	ast.Inspect(fd.Body, func(n ast.Node) bool {
		call, ok := n.(*ast.CallExpr)
		if !ok || pred != nil {
			return true
		}
		sel, ok := call.Fun.(*ast.SelectorExpr)
		if !ok || sel.Sel.Name != "Search" || len(call.Args) != 2 {
			return true
		}
		fl, ok := call.Args[1].(*ast.FuncLit)
		if !ok || len(fl.Body.List) != 1 {
			return true
		}
		rs, ok := fl.Body.List[0].(*ast.ReturnStmt)
		if !ok || len(rs.Results) != 1 {
			return true
		}
		if be, ok := rs.Results[0].(*ast.BinaryExpr); ok && render(be.X) == wantLHS && render(be.Y) == wantRHS {
			pred = be
		}
		return true
	})
	if pred == nil {
		return "", fmt.Errorf("srcfacts: no sort.Search(_, func(..) bool { return %s <op> %s }) in %s", wantLHS, wantRHS, fd.Name.Name)
	}
	switch pred.Op {
	case token.GEQ:
		return ">=?", nil
	case token.GTR:
		return ">?", nil
	case token.LEQ:
		return "<=?", nil
	case token.LSS:
		return "<?", nil
	case token.EQL:
		return "=?", nil
	}
	return "", fmt.Errorf("srcfacts: comparison %s not supported", pred.Op)
}
