// C38: re-downsampling aggregates conserves totals.
package main

import (
	"encoding/json"
	"fmt"
	"io"
	"math"
	"math/rand"

	"github.com/prometheus/prometheus/tsdb/chunkenc"

	"github.com/thanos-io/thanos/pkg/compact/downsample"
	"github.com/thanos-io/thanos/zzverif/common"
	"github.com/thanos-io/thanos/zzverif/downsampleutil"
)

type input struct {
	Res1    int64                 `json:"res1"` // resolution of the first level (5m)
	Res2    int64                 `json:"res2"` // target resolution (1h)
	Samples []downsampleutil.RawS `json:"samples"`
	// Drop[i] = aggregate types (0 count .. 3 max) removed from first-level chunk i
	// (model = implementation only).
	Drop map[int][]int `json:"drop,omitempty"`
}

func facts(repo string, w io.Writer) error { return downsampleutil.WindowFacts(repo, w) }

func run(raw json.RawMessage) (common.Case, error) {
	var in input
	if err := json.Unmarshal(raw, &in); err != nil {
		return common.Case{}, err
	}
	var c common.Case
	if len(in.Samples) == 0 || in.Res1 <= 0 || in.Res2 <= 0 {
		return c, fmt.Errorf("empty input")
	}
	metas := downsample.DownsampleRaw(downsample.SamplesFromTSDBSamples(downsampleutil.TSDBSamples(in.Samples)), in.Res1)
	if len(metas) == 0 {
		return c, fmt.Errorf("no first-level chunks (all NaN)")
	}
	var acs []*downsample.AggrChunk
	numSamples := 0
	for i, m := range metas {
		ac := m.Chunk.(*downsample.AggrChunk)
		if drop := in.Drop[i]; len(drop) > 0 {
			var chks [5]chunkenc.Chunk
			for t := 0; t < 5; t++ {
				ch, err := ac.Get(downsample.AggrType(t))
				if err != nil {
					return c, err
				}
				chks[t] = ch
			}
			for _, t := range drop {
				if t >= 0 && t < 4 {
					chks[t] = nil
				}
			}
			ac = downsample.EncodeAggrChunk(chks)
		}
		acs = append(acs, ac)
		numSamples += ac.NumSamples()
	}
	var ins []downsampleutil.Chunk
	for i, m := range metas {
		k, err := downsampleutil.DecodeAggr(m.MinTime, m.MaxTime, acs[i])
		if err != nil {
			return c, err
		}
		ins = append(ins, k)
	}
	mint, maxt := metas[0].MinTime, metas[len(metas)-1].MaxTime
	nc := downsample.VerifC38TargetChunkCount(mint, maxt, in.Res1, in.Res2, numSamples)
	// nc > len(acs) ("more target chunks than chunks") is run too: as found the batch size was
	// then 0 and downsampleAggrLoop never returned (the case times out: sig "hang").
	outMetas, err := downsample.VerifC38DownsampleAggr(acs, mint, maxt, in.Res1, in.Res2)
	if err != nil {
		return c, fmt.Errorf("downsampleAggr: %w", err)
	}
	out, err := downsampleutil.DecodeMetas(outMetas)
	if err != nil {
		return c, err
	}
	c.Coq = common.App("CAggr", common.Z(in.Res2), common.Nat(nc), downsampleutil.ChunksCoq(ins), downsampleutil.ChunksCoq(out))
	rows := 0
	for _, k := range out {
		rows += len(k.Count)
	}
	c.Obs = map[string]any{"in_chunks": len(ins), "num_chunks_target": nc, "out_chunks": len(out), "out_rows": rows}
	c.Class = fmt.Sprintf("res=%d->%d parts=%s", in.Res1, in.Res2, bucket(len(out)))
	if len(in.Drop) > 0 {
		c.Class = "dropped-aggregates"
	}
	if nc > len(acs) {
		c.Class = "more-targets-than-chunks"
	}
	c.Nontrivial = rows >= 2 && len(ins) >= 1 && len(in.Drop) == 0
	// Go-side search aid: totals
	if len(in.Drop) == 0 && downsampleutil.ValidRaw(in.Samples) {
		tot := func(ks []downsampleutil.Chunk, f func(downsampleutil.Chunk) []downsampleutil.S) (s int64, mn, mx int64) {
			mn, mx = math.MaxInt64, math.MinInt64
			for _, k := range ks {
				for _, x := range f(k) {
					s += x.V
					if x.V < mn {
						mn = x.V
					}
					if x.V > mx {
						mx = x.V
					}
				}
			}
			return
		}
		cnt := func(k downsampleutil.Chunk) []downsampleutil.S { return k.Count }
		sm := func(k downsampleutil.Chunk) []downsampleutil.S { return k.Sum }
		mnf := func(k downsampleutil.Chunk) []downsampleutil.S { return k.Min }
		mxf := func(k downsampleutil.Chunk) []downsampleutil.S { return k.Max }
		a, _, _ := tot(ins, cnt)
		b, _, _ := tot(out, cnt)
		switch {
		case a != b:
			c.GoPred, c.Sig = fmt.Sprintf("total count %d became %d", a, b), "count-total"
		default:
			a, _, _ = tot(ins, sm)
			b, _, _ = tot(out, sm)
			_, m1, _ := tot(ins, mnf)
			_, m2, _ := tot(out, mnf)
			_, _, x1 := tot(ins, mxf)
			_, _, x2 := tot(out, mxf)
			if a != b {
				c.GoPred, c.Sig = fmt.Sprintf("total sum %d became %d", a, b), "sum-total"
			} else if m1 != m2 {
				c.GoPred, c.Sig = fmt.Sprintf("overall min %d became %d", m1, m2), "min-total"
			} else if x1 != x2 {
				c.GoPred, c.Sig = fmt.Sprintf("overall max %d became %d", x1, x2), "max-total"
			}
		}
	}
	return c, nil
}

func bucket(n int) string {
	switch {
	case n <= 1:
		return fmt.Sprint(n)
	case n <= 3:
		return "2-3"
	default:
		return "4+"
	}
}

func gen(r *rand.Rand, tier string, n int) []any {
	var out []any
	for i := 0; i < n; i++ {
		var in input
		switch k := r.Intn(10); {
		case k < 5:
			in.Res1, in.Res2 = downsample.ResLevel1, downsample.ResLevel2
		case k < 6:
			in.Res1, in.Res2 = 60000, 300000
		default:
			in.Res1 = common.Pick(r, int64(10), 7, 1000, 1)
			in.Res2 = in.Res1 * common.Pick(r, int64(2), 3, 12, 5)
		}
		in.Samples = downsampleutil.GenRaw(r, tier, in.Res1, false)
		if r.Intn(20) == 0 {
			// outside the 5m -> 1h domain: hourly first level with one row per window gives
			// huge chunks, so targetChunkCount exceeds the number of chunks (batch size clamp)
			in.Res1, in.Res2 = 3600000, 7200000
			in.Samples = downsampleutil.GenDense(r, in.Res1, 300+r.Intn(300))
		}
		if in.Res1 < 60000 && r.Intn(2) == 0 {
			// many first-level rows and chunks, so that the second level is cut into several parts
			in.Samples = downsampleutil.GenDense(r, in.Res1, 300+r.Intn(500))
		}
		allNaN := true
		for _, s := range in.Samples {
			if s.K == "" {
				allNaN = false
			}
		}
		if allNaN {
			in.Samples[0].K = ""
		}
		if r.Intn(12) == 0 {
			in.Drop = map[int][]int{r.Intn(3): {r.Intn(4)}}
			if r.Intn(2) == 0 {
				in.Drop[r.Intn(3)] = []int{r.Intn(4), r.Intn(4)}
			}
		}
		out = append(out, in)
	}
	return out
}

func main() {
	common.Main(common.Prop{ID: "C38", Facts: facts, Gen: gen, Run: run, QuickN: 110, ThoroughN: 800,
		Preamble: "From Verif Require Import Lib.Downsample_Core.\nOpen Scope Z_scope.\n"})
}
