// C39: aggregate chunk encoding round-trips for any set of aggregates.
package main

import (
	"encoding/binary"
	"encoding/json"
	"fmt"
	"io"
	"math/rand"
	"strings"

	"github.com/prometheus/prometheus/tsdb/chunkenc"

	"github.com/thanos-io/thanos/pkg/compact/downsample"
	"github.com/thanos-io/thanos/zzverif/common"
)

// subIn is one aggregate slot of the input: Enc is the encoding byte and Data
// the sub-chunk's Bytes(). A nil *subIn is a nil chunk (absent aggregate).
type subIn struct {
	Enc  uint8  `json:"enc"`
	Data []byte `json:"data"`
}

type input struct {
	Kind string `json:"kind"` // enc | get
	// enc: encode the five slots, then Get(0..5)
	Subs [5]*subIn `json:"subs,omitempty"`
	// get: Get(T) on an arbitrary byte string
	Bytes []byte `json:"bytes,omitempty"`
	T     int    `json:"t,omitempty"`
}

// rawChunk is a chunkenc.Chunk with arbitrary bytes and encoding, for slots
// whose encoding FromData would refuse (so that EncodeAggrChunk is exercised
// on them too).
type rawChunk struct {
	enc  chunkenc.Encoding
	data []byte
}

func (c rawChunk) Bytes() []byte                                { return c.data }
func (c rawChunk) Encoding() chunkenc.Encoding                  { return c.enc }
func (c rawChunk) Appender() (chunkenc.Appender, error)         { return nil, fmt.Errorf("n/a") }
func (c rawChunk) Iterator(chunkenc.Iterator) chunkenc.Iterator { return chunkenc.NewNopIterator() }
func (c rawChunk) NumSamples() int                              { return 0 }
func (c rawChunk) Compact()                                     {}
func (c rawChunk) Reset([]byte)                                 {}

func facts(repo string, w io.Writer) error {
	// encodings accepted by the chunkenc.FromData this binary links against
	var ok []string
	for e := 0; e < 256; e++ {
		if _, err := chunkenc.FromData(chunkenc.Encoding(e), []byte{0, 0}); err == nil {
			ok = append(ok, fmt.Sprintf("%d", e))
		}
	}
	fmt.Fprintln(w, "(* encodings for which chunkenc.FromData returns a chunk (probed on the linked library) *)")
	fmt.Fprintf(w, "Definition valid_encodings : list N := [%s]%%N.\n", strings.Join(ok, "; "))
	fmt.Fprintf(w, "Definition AggrCounter : nat := %d%%nat.\n", int(downsample.AggrCounter))
	s, err := common.ParseSrc(repo, "pkg/compact/downsample/aggr.go")
	if err != nil {
		return err
	}
	evs, err := s.CallOrder("AggrChunk.Get")
	if err != nil {
		return err
	}
	fmt.Fprintln(w, "(* pkg/compact/downsample/aggr.go: source-order events of AggrChunk.Get *)")
	fmt.Fprint(w, common.EventsCoq("Get_events", evs))
	return nil
}

func bytesCoq(b []byte) string { return common.Bytes(string(b)) }

func getCoq(c downsample.AggrChunk, t int) (s string, obs string) {
	defer func() {
		if r := recover(); r != nil {
			s, obs = "GPanic", "panic"
		}
	}()
	ch, err := c.Get(downsample.AggrType(t))
	switch {
	case err == downsample.ErrAggrNotExist:
		return "GNotExist", "notexist"
	case err != nil:
		return "GErr", "err"
	}
	return common.App("GOk", common.N(uint64(ch.Encoding())), bytesCoq(ch.Bytes())), fmt.Sprintf("ok enc=%d len=%d", ch.Encoding(), len(ch.Bytes()))
}

func run(raw json.RawMessage) (common.Case, error) {
	var in input
	if err := json.Unmarshal(raw, &in); err != nil {
		return common.Case{}, err
	}
	var c common.Case
	switch in.Kind {
	case "get":
		if in.T < 0 || in.T > 255 {
			return c, fmt.Errorf("bad t")
		}
		s, o := getCoq(downsample.AggrChunk(in.Bytes), in.T)
		c.Class = "get:" + strings.Fields(o)[0]
		c.Coq = common.App("CGet", bytesCoq(in.Bytes), common.Nat(in.T), s)
		c.Obs = o
		c.Nontrivial = len(in.Bytes) > 0
		return c, nil
	case "enc":
	default:
		return c, fmt.Errorf("bad kind %q", in.Kind)
	}
	var chks [5]chunkenc.Chunk
	var subs []string
	pattern := ""
	wf := true
	for i, s := range in.Subs {
		if s == nil {
			subs = append(subs, common.None)
			pattern += "0"
			continue
		}
		pattern += "1"
		ch, err := chunkenc.FromData(chunkenc.Encoding(s.Enc), s.Data)
		if err != nil {
			ch = rawChunk{enc: chunkenc.Encoding(s.Enc), data: s.Data}
			wf = false
		}
		if len(s.Data) == 0 {
			wf = false
		}
		chks[i] = ch
		subs = append(subs, common.Some(common.Pair(common.N(uint64(s.Enc)), bytesCoq(s.Data))))
	}
	ac := downsample.EncodeAggrChunk(chks)
	var gets, obs []string
	for t := 0; t <= 5; t++ {
		s, o := getCoq(*ac, t)
		gets = append(gets, s)
		obs = append(obs, o)
		if wf && t < 5 {
			want := "notexist"
			if in.Subs[t] != nil {
				want = fmt.Sprintf("ok enc=%d len=%d", in.Subs[t].Enc, len(in.Subs[t].Data))
			}
			if o != want && c.GoPred == "" {
				c.GoPred = fmt.Sprintf("Get(%d) on presence pattern %s: want %s, got %s", t, pattern, want, o)
				if in.Subs[t] == nil {
					c.Sig = "absent-not-reported"
					if t == 4 {
						c.Sig = "trailing-absent-invalid-size"
					}
				} else {
					c.Sig = "present-not-returned"
				}
			}
		}
	}
	c.Coq = common.App("CEnc", common.List(subs), bytesCoq(ac.Bytes()), common.List(gets))
	c.Obs = map[string]any{"pattern": pattern, "encoded_len": len(ac.Bytes()), "gets": obs}
	c.Class = "enc:" + pattern
	if !wf {
		c.Class = "enc-illformed"
	}
	c.Nontrivial = wf && pattern != "00000"
	return c, nil
}

// xorChunk builds a real XOR chunk with n samples.
func xorChunk(r *rand.Rand, n int) []byte {
	c := chunkenc.NewXORChunk()
	app, _ := c.Appender()
	t := r.Int63n(1 << 40)
	v := float64(r.Intn(1000))
	for i := 0; i < n; i++ {
		app.Append(t, v)
		t += 1 + r.Int63n(60000)
		switch r.Intn(4) {
		case 0:
			v += float64(r.Intn(100))
		case 1:
			v = r.NormFloat64() * 1e6
		}
	}
	return append([]byte(nil), c.Bytes()...)
}

func randBytes(r *rand.Rand, n int) []byte {
	b := make([]byte, n)
	r.Read(b)
	return b
}

func genSub(r *rand.Rand, tier string) *subIn {
	switch k := r.Intn(20); {
	case k < 9: // real XOR chunk, small
		return &subIn{Enc: uint8(chunkenc.EncXOR), Data: xorChunk(r, r.Intn(30))}
	case k < 11: // real XOR chunk crossing the 1-byte uvarint length (>= 128 bytes)
		return &subIn{Enc: uint8(chunkenc.EncXOR), Data: xorChunk(r, 40+r.Intn(120))}
	case k < 16: // arbitrary payload under a valid encoding, lengths around the uvarint boundaries
		n := common.Pick(r, 1, 1, 2, 3, 10, 126, 127, 128, 129, 200, 255, 256, 300)
		if tier == "thorough" && r.Intn(25) == 0 {
			n = common.Pick(r, 16383, 16384, 16385)
		}
		return &subIn{Enc: uint8(common.Pick(r, chunkenc.EncXOR, chunkenc.EncHistogram, chunkenc.EncFloatHistogram)), Data: randBytes(r, n)}
	case k < 18: // payload starting with bytes that look like lengths / zero
		d := randBytes(r, 1+r.Intn(6))
		d[0] = common.Pick(r, byte(0), 0, 1, 0x80, 0xff)
		return &subIn{Enc: uint8(chunkenc.EncXOR), Data: d}
	case k < 19: // ill-formed: unknown encoding byte
		return &subIn{Enc: common.Pick(r, uint8(0), 4, 77, 0x80, 0xff), Data: randBytes(r, 1+r.Intn(5))}
	default: // ill-formed: empty payload
		return &subIn{Enc: uint8(chunkenc.EncXOR), Data: []byte{}}
	}
}

func genEnc(r *rand.Rand, tier string, pattern int) input {
	in := input{Kind: "enc"}
	big := false
	for i := 0; i < 5; i++ {
		if pattern&(1<<i) != 0 {
			s := genSub(r, tier)
			// at most one large payload per case: Coq's parser overflows its stack on list
			// literals of more than ~40000 elements (the encoded chunk is one such list)
			if len(s.Data) > 4000 {
				if big {
					s.Data = s.Data[:300]
				}
				big = true
			}
			in.Subs[i] = s
		}
	}
	return in
}

func encodeIn(in input) []byte {
	var chks [5]chunkenc.Chunk
	for i, s := range in.Subs {
		if s != nil {
			chks[i] = rawChunk{enc: chunkenc.Encoding(s.Enc), data: s.Data}
		}
	}
	return append([]byte(nil), downsample.EncodeAggrChunk(chks).Bytes()...)
}

func gen(r *rand.Rand, tier string, n int) []any {
	var out []any
	for i := 0; i < n; i++ {
		switch k := r.Intn(10); {
		case k < 7:
			// all 32 presence patterns in turn, random contents
			out = append(out, genEnc(r, tier, i%32))
		default:
			// Get on a corrupted / arbitrary byte string
			var b []byte
			switch r.Intn(5) {
			case 0:
				b = randBytes(r, r.Intn(12))
			case 1: // truncated valid encoding
				b = encodeIn(genEnc(r, "quick", r.Intn(32)))
				b = b[:r.Intn(len(b)+1)]
			case 2: // one byte changed
				b = encodeIn(genEnc(r, "quick", r.Intn(32)))
				b[r.Intn(len(b))] = byte(r.Intn(256))
			case 3: // a length field close to the int64 / uint64 limits
				var buf [binary.MaxVarintLen64]byte
				l := common.Pick(r, uint64(1)<<63-1, 1<<63, 1<<63+1, 1<<64-1, 1<<64-2, 1<<62, 1<<32, 5)
				k := binary.PutUvarint(buf[:], l)
				b = append(b, randBytes(r, r.Intn(2))...)
				for j := range b {
					b[j] = 0
				}
				b = append(b, buf[:k]...)
				b = append(b, randBytes(r, r.Intn(8))...)
			default: // over-long varints
				b = make([]byte, 9+r.Intn(4))
				for j := range b {
					b[j] = 0x80 | byte(r.Intn(128))
				}
				b = append(b, byte(r.Intn(4)))
				b = append(b, randBytes(r, r.Intn(4))...)
			}
			out = append(out, input{Kind: "get", Bytes: b, T: r.Intn(7)})
		}
	}
	return out
}

func main() {
	common.Main(common.Prop{ID: "C39", Facts: facts, Gen: gen, Run: run, QuickN: 480, ThoroughN: 2400})
}
