// C07: label name/value APIs cover every label seen by Series.
//
// Runs the real TSDBStore.Series / LabelNames / LabelValues over a real Prometheus TSDB
// under 1-3 different external label sets (replicas of the same data), and the real
// ProxyStore in front of those stores, for the same selectors, replica-label list and
// asked label name; prints all responses as a Coq case.
package main

import (
	"context"
	"encoding/json"
	"fmt"
	"go.uber.org/atomic"
	"go/ast"
	"io"
	"math"
	"math/rand"
	"sort"
	"strings"
	"time"

	"github.com/prometheus/prometheus/model/labels"

	"github.com/thanos-io/thanos/pkg/component"
	"github.com/thanos-io/thanos/pkg/store"
	"github.com/thanos-io/thanos/pkg/store/labelpb"
	"github.com/thanos-io/thanos/pkg/store/storepb"
	storetestutil "github.com/thanos-io/thanos/pkg/store/storepb/testutil"
	"github.com/thanos-io/thanos/zzverif/common"
	tu "github.com/thanos-io/thanos/zzverif/tsdbutil"
)

type input struct {
	Kind   string       `json:"kind"` // labels (TSDB stores + proxy) | bucket (BucketStore + proxy) | cleanup
	Blocks []tu.BlockIn `json:"blocks,omitempty"`
	Exts   [][]tu.Lbl   `json:"exts"`
	// InitExts, when set (same length as Exts): store i is constructed with InitExts[i] and its external
	// labels are then replaced with Exts[i] by SetExtLset before any query (a receiver reload does this)
	InitExts [][]tu.Lbl     `json:"init_exts,omitempty"`
	Series   []tu.SeriesIn  `json:"series"`
	Ms       []tu.MatcherIn `json:"ms"`
	WRL      []string       `json:"wrl"`
	Label    string         `json:"label"`
}

type recServer struct {
	storepb.Store_SeriesServer
	ctx  context.Context
	sets []labels.Labels
}

func (r *recServer) Send(m *storepb.SeriesResponse) error {
	switch {
	case m.GetSeries() != nil:
		r.sets = append(r.sets, cloneLabels(labelpb.ZLabelsToPromLabels(m.GetSeries().Labels)))
	case m.GetBatch() != nil:
		for _, s := range m.GetBatch().Series {
			r.sets = append(r.sets, cloneLabels(labelpb.ZLabelsToPromLabels(s.Labels)))
		}
	}
	return nil
}
func (r *recServer) Context() context.Context { return r.ctx }

// responses of the bucket store may point into memory-mapped index headers: copy every string
func cloneStrs(in []string) []string {
	out := make([]string, len(in))
	for i, x := range in {
		out[i] = strings.Clone(x)
	}
	return out
}

func cloneLabels(l labels.Labels) labels.Labels {
	var out []labels.Label
	l.Range(func(x labels.Label) {
		out = append(out, labels.Label{Name: strings.Clone(x.Name), Value: strings.Clone(x.Value)})
	})
	return labels.New(out...)
}

type obs struct {
	series []labels.Labels
	serr   bool
	names  []string
	values []string
}

func canonSets(in []labels.Labels) []labels.Labels {
	sort.SliceStable(in, func(i, j int) bool { return labels.Compare(in[i], in[j]) < 0 })
	var out []labels.Labels
	for i, l := range in {
		if i == 0 || labels.Compare(in[i-1], l) != 0 {
			out = append(out, l)
		}
	}
	return out
}

func (o obs) coq() string {
	ser := common.None
	if !o.serr {
		var xs []string
		for _, l := range o.series {
			xs = append(xs, tu.CoqLabels(l))
		}
		ser = common.Some(common.List(xs))
	}
	return common.App("MkObs", ser, tu.CoqStrs(o.names), tu.CoqStrs(o.values))
}

func askAll(srv storepb.StoreServer, in input) (obs, error) {
	var o obs
	ctx := context.Background()
	rs := &recServer{ctx: ctx}
	err := srv.Series(&storepb.SeriesRequest{MinTime: math.MinInt64 / 2, MaxTime: math.MaxInt64 / 2,
		Matchers: tu.ToPB(in.Ms), WithoutReplicaLabels: in.WRL, SkipChunks: true,
		PartialResponseStrategy: storepb.PartialResponseStrategy_WARN}, rs)
	if err != nil {
		o.serr = true
	} else {
		o.series = canonSets(rs.sets)
	}
	ln, err := srv.LabelNames(ctx, &storepb.LabelNamesRequest{Start: math.MinInt64 / 2, End: math.MaxInt64 / 2,
		Matchers: tu.ToPB(in.Ms), WithoutReplicaLabels: in.WRL})
	if err != nil {
		return o, fmt.Errorf("LabelNames: %w", err)
	}
	o.names = cloneStrs(ln.Names)
	lv, err := srv.LabelValues(ctx, &storepb.LabelValuesRequest{Label: in.Label, Start: math.MinInt64 / 2, End: math.MaxInt64 / 2,
		Matchers: tu.ToPB(in.Ms), WithoutReplicaLabels: in.WRL})
	if err != nil {
		return o, fmt.Errorf("LabelValues: %w", err)
	}
	o.values = cloneStrs(lv.Values)
	return o, nil
}

func run(raw json.RawMessage) (common.Case, error) {
	var in input
	if err := json.Unmarshal(raw, &in); err != nil {
		return common.Case{}, err
	}
	var c common.Case
	if in.Kind == "cleanup" {
		tu.Cleanup()
		tu.CleanupBucket()
		c.Coq, c.Class = "CNop7", "cleanup"
		return c, nil
	}
	if in.Kind == "bucket" {
		return runBucket(in)
	}
	sc, err := tu.GetScenario(in.Series)
	if err != nil {
		return c, err
	}
	uni := map[string]struct{}{"": {}}
	var stored []string
	for _, s := range sc.Stored {
		tu.AddValues(uni, s.Labels)
		stored = append(stored, tu.CoqLabels(s.Labels))
	}
	var exts []labels.Labels
	var coqExts []string
	for _, e := range in.Exts {
		l := tu.MkLabels(e)
		tu.AddValues(uni, l)
		exts = append(exts, l)
		coqExts = append(coqExts, tu.CoqLabels(l))
	}
	coqMs, _, err := tu.CoqMatchers(in.Ms, uni)
	if err != nil {
		return c, err
	}

	var clients []store.Client
	var storeObs []obs
	var coqStores []string
	var coqInits []string
	for i, e := range exts {
		init := e
		if len(in.InitExts) == len(in.Exts) {
			init = tu.MkLabels(in.InitExts[i])
			tu.AddValues(uni, init)
		}
		coqInits = append(coqInits, tu.CoqLabels(init))
		st := store.NewTSDBStore(nil, sc.DB, component.Rule, init)
		if len(in.InitExts) == len(in.Exts) {
			st.SetExtLset(e)
		}
		o, err := askAll(st, in)
		if err != nil {
			return c, err
		}
		storeObs = append(storeObs, o)
		coqStores = append(coqStores, o.coq())
		clients = append(clients, &storetestutil.TestClient{StoreClient: storepb.ServerAsClient(st, atomic.Bool{}), Name: fmt.Sprintf("tsdb%d", i),
			ExtLset: []labels.Labels{e}, MinTime: math.MinInt64, MaxTime: math.MaxInt64, WithoutReplicaLabelsEnabled: true})
	}
	p := store.NewProxyStore(nil, nil, func() []store.Client { return clients }, component.Query, labels.EmptyLabels(), 0*time.Second, store.EagerRetrieval)
	po, err := askAll(p, in)
	if err != nil {
		return c, err
	}
	c.Coq = common.App("CLabels", common.List(stored), common.List(coqInits), common.List(coqExts), tu.CoqStrs(in.WRL), coqMs, common.Bytes(in.Label),
		common.List(coqStores), po.coq())
	c.Obs = map[string]any{"proxy_names": po.names, "proxy_values": po.values, "proxy_series": len(po.series)}

	// ---- Go-side predicate (search aid) ----
	check := func(who string, o obs) {
		names := map[string]bool{}
		for _, n := range o.names {
			names[n] = true
		}
		vals := map[string]bool{}
		for _, v := range o.values {
			vals[v] = true
		}
		for _, l := range o.series {
			l.Range(func(x labels.Label) {
				if !names[x.Name] {
					c.GoPred = fmt.Sprintf("%s: label name %q of series %s is not in LabelNames %v", who, x.Name, l, o.names)
					c.Sig = "name-not-covered"
				}
				if x.Name == in.Label && !vals[x.Value] {
					c.GoPred = fmt.Sprintf("%s: value %q of label %q on series %s is not in LabelValues %v", who, x.Value, x.Name, l, o.values)
					c.Sig = "value-not-covered"
				}
			})
		}
	}
	nser := 0
	for i, o := range storeObs {
		check(fmt.Sprintf("tsdb store %d", i), o)
		nser += len(o.series)
	}
	check("proxy", po)
	switch {
	case nser == 0:
		c.Class = "no-series"
	case len(po.series) == 0:
		c.Class = "proxy-empty"
	default:
		c.Class = fmt.Sprintf("stores=%d", len(exts))
	}
	// non-trivial: the proxy returned series and the asked label occurs on one of them
	for _, l := range po.series {
		if l.Has(in.Label) {
			c.Nontrivial = true
		}
	}
	return c, nil
}

// runBucket: the object-storage store gateway over generated blocks, asked directly and through a proxy.
func runBucket(in input) (common.Case, error) {
	var c common.Case
	sc, err := tu.GetBucketScenario(in.Blocks)
	if err != nil {
		return c, err
	}
	uni := map[string]struct{}{"": {}}
	var coqBlocks []string
	for _, b := range sc.Blocks {
		tu.AddValues(uni, b.Ext)
		var ss []string
		for _, l := range b.Stored {
			tu.AddValues(uni, l)
			ss = append(ss, tu.CoqLabels(l))
		}
		coqBlocks = append(coqBlocks, common.Pair(tu.CoqLabels(b.Ext), common.List(ss)))
	}
	coqMs, _, err := tu.CoqMatchers(in.Ms, uni)
	if err != nil {
		return c, err
	}
	hne := false
	for _, m := range in.Ms {
		if m.Name == "__name__" && m.Type == 0 {
			hne = true
		}
	}
	so, err := askAll(sc.Store, in)
	if err != nil {
		return c, err
	}
	var lsets []labels.Labels
	for _, ls := range sc.Store.LabelSet() {
		lsets = append(lsets, cloneLabels(labelpb.ZLabelsToPromLabels(ls.Labels)))
	}
	mint, maxt := sc.Store.TimeRange()
	clients := []store.Client{&storetestutil.TestClient{StoreClient: storepb.ServerAsClient(sc.Store, atomic.Bool{}), Name: "bucket",
		ExtLset: lsets, MinTime: mint, MaxTime: maxt, WithoutReplicaLabelsEnabled: true}}
	p := store.NewProxyStore(nil, nil, func() []store.Client { return clients }, component.Query, labels.EmptyLabels(), 0*time.Second, store.EagerRetrieval)
	po, err := askAll(p, in)
	if err != nil {
		return c, err
	}
	c.Coq = common.App("CBucket7", common.List(coqBlocks), tu.CoqStrs(in.WRL), coqMs, common.Bool(hne), common.Bytes(in.Label), so.coq(), po.coq())
	c.Obs = map[string]any{"names": so.names, "values": so.values, "series": len(so.series), "proxy_series": len(po.series)}
	check := func(who string, o obs) {
		names := map[string]bool{}
		for _, n := range o.names {
			names[n] = true
		}
		vals := map[string]bool{}
		for _, v := range o.values {
			vals[v] = true
		}
		for _, l := range o.series {
			l.Range(func(x labels.Label) {
				if !names[x.Name] {
					c.GoPred = fmt.Sprintf("%s: label name %q of series %s is not in LabelNames %v", who, x.Name, l, o.names)
					c.Sig = "name-not-covered"
				}
				if x.Name == in.Label && !vals[x.Value] {
					c.GoPred = fmt.Sprintf("%s: value %q of label %q on series %s is not in LabelValues %v", who, x.Value, x.Name, l, o.values)
					c.Sig = "value-not-covered"
				}
			})
		}
	}
	check("bucket store", so)
	check("proxy over bucket store", po)
	c.Class = "bucket"
	if len(so.series) == 0 {
		c.Class = "bucket/no-series"
	}
	for _, l := range po.series {
		if l.Has(in.Label) {
			c.Nontrivial = true
		}
	}
	return c, nil
}

func genBlocks(r *rand.Rand) []tu.BlockIn {
	var out []tu.BlockIn
	n := 1 + r.Intn(3)
	for i := 0; i < n; i++ {
		b := tu.BlockIn{}
		used := map[string]bool{"cluster": true}
		b.Ext = append(b.Ext, tu.Lbl{"cluster", common.Pick(r, "c1", "c1", "c2")})
		for q := r.Intn(3); q > 0; q-- {
			nm := common.Pick(r, "region", "replica", "a", "zone")
			if used[nm] {
				continue
			}
			used[nm] = true
			b.Ext = append(b.Ext, tu.Lbl{nm, common.Pick(r, "eu", "us", "1", "r0", "r1")})
		}
		for _, s := range genSeries(r) {
			b.Series = append(b.Series, s.Labels)
		}
		out = append(out, b)
	}
	return out
}

func genRequest(r *rand.Rand, in *input, pool [][]tu.Lbl) {
	if r.Intn(10) < 6 {
		in.Ms = append(in.Ms, common.Pick(r,
			tu.MatcherIn{Type: 2, Name: "__name__", Value: "up|m"},
			tu.MatcherIn{Type: 2, Name: "__name__", Value: ".+"},
			tu.MatcherIn{Type: 0, Name: "__name__", Value: "up"},
			tu.MatcherIn{Type: 1, Name: "__name__", Value: ""},
			tu.MatcherIn{Type: 3, Name: "a", Value: "9"}))
	}
	for q := r.Intn(3); q > 0 || len(in.Ms) == 0; q-- {
		m := tu.MatcherIn{Type: r.Intn(4), Name: common.Pick(r, "__name__", "a", "b", "region", "replica", "cluster", "zone"), Value: common.Pick(r, mvals...)}
		if r.Intn(3) == 0 && len(pool) > 0 {
			s := pool[r.Intn(len(pool))]
			l := s[r.Intn(len(s))]
			m = tu.MatcherIn{Type: common.Pick(r, 0, 2, 1), Name: l[0], Value: l[1]}
		}
		in.Ms = append(in.Ms, m)
	}
	for q := r.Intn(3); q > 0; q-- {
		in.WRL = append(in.WRL, common.Pick(r, "replica", "replica", "region", "a", "nope"))
	}
	in.Label = common.Pick(r, "__name__", "a", "b", "region", "replica", "cluster", "zone", "nope")
}

var (
	snames  = []string{"a", "b", "region", "replica", "zone"}
	svalues = []string{"1", "2", "eu", "us", "x"}
	enames  = []string{"region", "replica", "cluster", "a", "zone"}
	mvals   = []string{"", "1", "2", "eu", "us", "x", "c1", "1|2", ".*", ".+", "e.", "eu|us", "3"}
)

func genSeries(r *rand.Rand) []tu.SeriesIn {
	n := 1 + r.Intn(5)
	seen := map[string]bool{}
	var out []tu.SeriesIn
	for len(out) < n {
		ls := []tu.Lbl{{"__name__", common.Pick(r, "up", "m")}}
		used := map[string]bool{}
		for k := r.Intn(4); k > 0; k-- {
			nm := common.Pick(r, snames...)
			if used[nm] {
				continue
			}
			used[nm] = true
			ls = append(ls, tu.Lbl{nm, common.Pick(r, svalues...)})
		}
		key := tu.MkLabels(ls).String()
		if seen[key] {
			continue
		}
		seen[key] = true
		out = append(out, tu.SeriesIn{Labels: ls, NChunks: 1, T0: 0})
	}
	return out
}

func gen(r *rand.Rand, tier string, n int) []any {
	var out []any
	for len(out) < n {
		series := genSeries(r)
		for k := 0; k < 10 && len(out) < n; k++ {
			in := input{Kind: "labels", Series: series}
			nst := 1 + r.Intn(3)
			var base []tu.Lbl
			used := map[string]bool{}
			for q := r.Intn(3); q > 0; q-- {
				nm := common.Pick(r, enames...)
				if used[nm] {
					continue
				}
				used[nm] = true
				base = append(base, tu.Lbl{nm, common.Pick(r, "eu", "us", "1", "c1")})
			}
			for i := 0; i < nst; i++ {
				e := append([]tu.Lbl(nil), base...)
				if !used["replica"] && r.Intn(4) != 0 {
					e = append(e, tu.Lbl{"replica", fmt.Sprintf("r%d", i)})
				}
				if r.Intn(5) == 0 && !used["zone"] {
					e = append(e, tu.Lbl{"zone", common.Pick(r, "z1", "z2")})
				}
				in.Exts = append(in.Exts, e)
			}
			if r.Intn(10) < 7 { // a permissive first selector, so that series come back
				in.Ms = append(in.Ms, common.Pick(r,
					tu.MatcherIn{Type: 2, Name: "__name__", Value: "up|m"},
					tu.MatcherIn{Type: 2, Name: "__name__", Value: ".+"},
					tu.MatcherIn{Type: 0, Name: "__name__", Value: "up"},
					tu.MatcherIn{Type: 1, Name: "__name__", Value: ""},
					tu.MatcherIn{Type: 3, Name: "a", Value: "9"}))
			}
			for q := r.Intn(3); q > 0 || len(in.Ms) == 0; q-- {
				m := tu.MatcherIn{Type: r.Intn(4), Name: common.Pick(r, "__name__", "a", "b", "region", "replica", "cluster", "zone"), Value: common.Pick(r, mvals...)}
				if r.Intn(3) == 0 && len(series) > 0 { // a selector that agrees with some stored label
					s := series[r.Intn(len(series))]
					l := s.Labels[r.Intn(len(s.Labels))]
					m = tu.MatcherIn{Type: common.Pick(r, 0, 2, 1), Name: l[0], Value: l[1]}
				}
				in.Ms = append(in.Ms, m)
			}
			for q := r.Intn(3); q > 0; q-- {
				in.WRL = append(in.WRL, common.Pick(r, "replica", "replica", "region", "a", "nope"))
			}
			in.Label = common.Pick(r, "__name__", "a", "b", "region", "replica", "cluster", "zone", "nope")
			// a history: the stores were built with other external labels (names added / removed /
			// values changed since) and reloaded with SetExtLset before the queries
			if r.Intn(3) == 0 {
				for _, e := range in.Exts {
					var init []tu.Lbl
					for _, l := range e {
						switch r.Intn(4) {
						case 0: // this label is new
						case 1:
							init = append(init, tu.Lbl{l[0], common.Pick(r, "eu", "us", "old")})
						default:
							init = append(init, l)
						}
					}
					if r.Intn(3) == 0 {
						has := false
						for _, l := range e {
							has = has || l[0] == "tenant"
						}
						if !has {
							init = append(init, tu.Lbl{"tenant", "t0"}) // a label that was removed
						}
					}
					in.InitExts = append(in.InitExts, init)
				}
				if r.Intn(2) == 0 && len(in.Exts) > 0 { // ask for a label that is new in the current set
					e := in.Exts[r.Intn(len(in.Exts))]
					if len(e) > 0 {
						in.Label = e[r.Intn(len(e))][0]
					}
				}
			}
			out = append(out, in)
		}
	}
	for nb := 0; nb < n/3; {
		blocks := genBlocks(r)
		var pool [][]tu.Lbl
		for _, b := range blocks {
			pool = append(pool, b.Series...)
			pool = append(pool, b.Ext)
		}
		for k := 0; k < 10 && nb < n/3; k++ {
			in := input{Kind: "bucket", Blocks: blocks}
			genRequest(r, &in, pool)
			out = append(out, in)
			nb++
		}
	}
	out = append(out, input{Kind: "cleanup"})
	return out
}

// facts: do TSDBStore.LabelNames / LabelValues read the store's CURRENT external labels
// (s.getExtLset() / s.extLsetAsLabelSets) where they add the external label names / values, or
// something else of the store (e.g. a copy made at construction time)?
func facts(repo string, w io.Writer) error {
	s, err := common.ParseSrc(repo, "pkg/store/tsdb.go")
	if err != nil {
		return err
	}
	// every `s.<x>` mentioned in the node, except the request-independent plumbing
	srcs := func(n ast.Node) (current bool, other []string) {
		ast.Inspect(n, func(m ast.Node) bool {
			se, ok := m.(*ast.SelectorExpr)
			if !ok {
				return true
			}
			if id, ok := se.X.(*ast.Ident); !ok || id.Name != "s" {
				return true
			}
			switch se.Sel.Name {
			case "getExtLset", "extLsetAsLabelSets", "ExtLabelSets":
				current = true
			case "db", "logger", "matcherCache", "buffers", "mtx":
			default:
				other = append(other, se.Sel.Name)
			}
			return true
		})
		return
	}
	ln, err := s.FindFunc("TSDBStore.LabelNames")
	if err != nil {
		return err
	}
	var namesBlock ast.Node
	ast.Inspect(ln.Body, func(n ast.Node) bool {
		if is, ok := n.(*ast.IfStmt); ok && namesBlock == nil && s.ExprString(is.Cond) == "len(res) > 0" {
			namesBlock = is.Body
		}
		return true
	})
	if namesBlock == nil {
		return fmt.Errorf("srcfacts: pkg/store/tsdb.go: TSDBStore.LabelNames: `if len(res) > 0` block (external label names) not found")
	}
	cur, other := srcs(namesBlock)
	fmt.Fprintf(w, "(* pkg/store/tsdb.go TSDBStore.LabelNames, block adding the external label names: reads the current external labels: %v; other store fields: %v *)\n", cur, other)
	fmt.Fprintf(w, "Definition labelnames_reads_current_ext : bool := %s.\n", common.Bool(cur && len(other) == 0))
	lv, err := s.FindFunc("TSDBStore.LabelValues")
	if err != nil {
		return err
	}
	var valIf ast.Node
	ast.Inspect(lv.Body, func(n ast.Node) bool {
		if is, ok := n.(*ast.IfStmt); ok && valIf == nil && is.Init != nil && strings.Contains(s.ExprString(is.Cond), `val != ""`) {
			valIf = is.Init
		}
		return true
	})
	if valIf == nil {
		return fmt.Errorf("srcfacts: pkg/store/tsdb.go: TSDBStore.LabelValues: `if val := ...; val != \"\"` (external label value) not found")
	}
	cur, other = srcs(valIf)
	fmt.Fprintf(w, "(* pkg/store/tsdb.go TSDBStore.LabelValues, external label value: reads the current external labels: %v; other store fields: %v *)\n", cur, other)
	fmt.Fprintf(w, "Definition labelvalues_reads_current_ext : bool := %s.\n", common.Bool(cur && len(other) == 0))
	return nil
}

func main() {
	common.Main(common.Prop{ID: "C07", Facts: facts, Gen: gen, Run: run, QuickN: 500, ThoroughN: 4000,
		Preamble: "Open Scope Z_scope.\n"})
}
