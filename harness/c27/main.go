// C27: tenants are routed to the hashring their configuration selects, stably.
package main

import (
	"encoding/json"
	"fmt"
	"go/ast"
	"io"
	"math/rand"
	"path/filepath"
	"sync"

	"github.com/thanos-io/thanos/pkg/receive"
	"github.com/thanos-io/thanos/pkg/store/labelpb"
	"github.com/thanos-io/thanos/pkg/store/storepb/prompb"
	"github.com/thanos-io/thanos/zzverif/common"
)

type ringCfg struct {
	Tenants []string `json:"tenants"`
	Type    string   `json:"type"` // "exact" | "glob" | "" | other
	// Nodes: endpoint name suffixes of this hashring, in configuration order
	// (arbitrary, not sorted); empty = a single endpoint. Algo: "" (hashmod) | "ketama".
	Nodes []string `json:"nodes,omitempty"`
	Algo  string   `json:"algo,omitempty"`
}

func ringAddrs(i int, r ringCfg) []string {
	if len(r.Nodes) == 0 {
		return []string{fmt.Sprintf("ring-%d:10901", i)}
	}
	var out []string
	for _, n := range r.Nodes {
		out = append(out, fmt.Sprintf("ring-%d-%s:10901", i, n))
	}
	return out
}

type input struct {
	Rings   []ringCfg `json:"rings"`
	Tenants []string  `json:"tenants"` // tenants to route
	Fresh   int       `json:"fresh"`   // number of freshly built rings per tenant
	// History mode: many tenants looked up on ONE multi-hashring instance.
	// Tenants = warm-up tenants (served first); then Families x [0,N) names
	// ("cust-17", "batch-3", ...) in an order shuffled by Seed, every tenth repeated later.
	History  bool     `json:"history,omitempty"`
	Families []string `json:"families,omitempty"`
	N        int      `json:"n,omitempty"`
	Seed     int64    `json:"seed,omitempty"`
}

// view renders the configuration as seen from one tenant (Coq tset terms) and
// computes, in Go, the first-match route the configuration selects for it
// ("RErr" when nothing matches or the first undecided glob set has a malformed
// pattern and no matching one).
func view(in input, t string, sid func(string) int64) (sets []string, expected string, malformed bool) {
	expected = ""
	for i, r := range in.Rings {
		decided := ""
		switch {
		case len(r.Tenants) == 0:
			sets = append(sets, "TDefault")
			decided = common.App("RIdx", common.Nat(i))
		case r.Type == "exact" || r.Type == "":
			var ids []int64
			hit := false
			for _, x := range r.Tenants {
				ids = append(ids, sid(x))
				if x == t {
					hit = true
				}
			}
			sets = append(sets, common.App("TExact", common.ZList(ids)))
			if hit {
				decided = common.App("RIdx", common.Nat(i))
			}
		case r.Type == "glob":
			var rs []string
			seen := map[string]bool{}
			hit, bad := false, false
			for _, p := range r.Tenants {
				if seen[p] { // the tenant set is a map: duplicates collapse
					continue
				}
				seen[p] = true
				m, err := filepath.Match(p, t)
				if err != nil {
					rs = append(rs, common.None)
					malformed, bad = true, true
				} else {
					rs = append(rs, common.Some(common.Bool(m)))
					hit = hit || m
				}
			}
			sets = append(sets, common.App("TGlob", common.List(rs)))
			if hit {
				decided = common.App("RIdx", common.Nat(i))
			} else if bad {
				decided = "RErr"
			}
		default:
			sets = append(sets, "TOther")
		}
		if expected == "" && decided != "" {
			expected = decided
		}
	}
	if expected == "" {
		expected = "RErr"
	}
	return sets, expected, malformed
}

func runHistory(in input, c common.Case, idx map[string]int, sid func(string) int64) (common.Case, error) {
	h, err := build(in)
	if err != nil {
		return c, fmt.Errorf("NewMultiHashring: %v", err)
	}
	order := append([]string{}, in.Tenants...)
	var names []string
	for _, f := range in.Families {
		for k := 0; k < in.N; k++ {
			names = append(names, fmt.Sprintf("%s%d", f, k))
		}
	}
	r := rand.New(rand.NewSource(in.Seed))
	r.Shuffle(len(names), func(a, b int) { names[a], names[b] = names[b], names[a] })
	order = append(order, names...)
	for k := 0; k < len(names); k += 10 { // repeated requests: cache hits
		order = append(order, names[k])
	}
	type lookup struct {
		tenant, observed, expected string
	}
	var sample []lookup
	var firstBad *lookup
	bad := 0
	anyMalformed := false
	for n, t := range order {
		_, exp, mal := view(in, t, func(string) int64 { return 0 })
		anyMalformed = anyMalformed || mal
		got := ask(h, t, idx)
		l := lookup{t, got, exp}
		if got != exp {
			bad++
			if firstBad == nil {
				firstBad = &l
				c.GoPred = fmt.Sprintf("lookup #%d on one multi-hashring instance: tenant %q is routed to %s, its configuration selects %s", n, t, got, exp)
				c.Sig = "history-misroute"
			}
		}
		if n < len(in.Tenants) || r.Intn(len(order)/24+1) == 0 {
			sample = append(sample, l)
		}
	}
	if firstBad != nil {
		sample = append([]lookup{*firstBad}, sample...)
	}
	if len(sample) > 40 {
		sample = sample[:40]
	}
	var qs []string
	for _, l := range sample {
		sets, _, _ := view(in, l.tenant, sid)
		qs = append(qs, common.App("Q", common.Z(sid(l.tenant)), common.List(sets), common.List([]string{l.observed}), "[]"))
	}
	c.Coq = common.App("CHistory", common.Nat(len(order)), common.Nat(bad), common.List(qs))
	c.Obs = map[string]any{"lookups": len(order), "disagreements": bad}
	if firstBad != nil {
		c.Obs = map[string]any{"lookups": len(order), "disagreements": bad,
			"first": map[string]string{"tenant": firstBad.tenant, "observed": firstBad.observed, "expected": firstBad.expected}}
	}
	c.Class = "history"
	if anyMalformed {
		c.Class = "history/malformed-pattern"
	}
	c.Nontrivial = len(in.Rings) >= 2 && len(order) >= 1000
	return c, nil
}

func facts(repo string, w io.Writer) error {
	s, err := common.ParseSrc(repo, "pkg/receive/hashring.go")
	if err != nil {
		return err
	}
	// statement order inside multiHashring.GetN: cache read before the loop, cache write only after a match
	evs, err := s.CallOrder("multiHashring.GetN")
	if err != nil {
		return err
	}
	fmt.Fprintln(w, "(* pkg/receive/hashring.go: source-order events of multiHashring.GetN *)")
	fmt.Fprint(w, common.EventsCoq("getn_events", evs))
	// the tenant cache of multiHashring.GetN must be keyed by the tenant string itself:
	// every index into m.cache is `m.cache[tenant]`, at least one read and one write
	gd, err := s.FindFunc("multiHashring.GetN")
	if err != nil {
		return err
	}
	uses, keyed := 0, true
	ast.Inspect(gd.Body, func(n ast.Node) bool {
		if ix, ok := n.(*ast.IndexExpr); ok && s.ExprString(ix.X) == "m.cache" {
			uses++
			if s.ExprString(ix.Index) != "tenant" {
				keyed = false
			}
		}
		return true
	})
	if uses < 2 {
		keyed = false
	}
	fmt.Fprintln(w, "(* multiHashring.GetN: every use of the cache is m.cache[tenant] (keyed by the full tenant name) *)")
	fmt.Fprintf(w, "Definition cache_key_is_tenant : bool := %s.\n", common.Bool(keyed))
	mevs, err := s.CallOrder("tenantSet.match")
	if err != nil {
		return err
	}
	fmt.Fprintln(w, "(* pkg/receive/hashring.go: source-order events of tenantSet.match *)")
	fmt.Fprint(w, common.EventsCoq("match_events", mevs))
	return nil
}

func build(in input) (receive.Hashring, error) {
	var cfg []receive.HashringConfig
	for i, r := range in.Rings {
		var eps []receive.Endpoint
		for _, a := range ringAddrs(i, r) {
			eps = append(eps, receive.Endpoint{Address: a})
		}
		cfg = append(cfg, receive.HashringConfig{
			Hashring:          fmt.Sprintf("ring-%d", i),
			Tenants:           r.Tenants,
			TenantMatcherType: receive.VerifC27Matcher(r.Type),
			Endpoints:         eps,
			Algorithm:         receive.HashringAlgorithm(r.Algo),
		})
	}
	return receive.NewMultiHashring(receive.AlgorithmHashmod, 1, cfg, nil)
}

func ask(h receive.Hashring, tenant string, idx map[string]int) string {
	ts := &prompb.TimeSeries{Labels: []labelpb.ZLabel{{Name: "__name__", Value: "up"}}}
	e, err := h.GetN(tenant, ts, 0)
	if err != nil {
		return "RErr"
	}
	i, ok := idx[e.Address]
	if !ok {
		return "RErr"
	}
	return common.App("RIdx", common.Nat(i))
}

func run(raw json.RawMessage) (common.Case, error) {
	var in input
	if err := json.Unmarshal(raw, &in); err != nil {
		return common.Case{}, err
	}
	var c common.Case
	if in.Fresh < 1 {
		in.Fresh = 1
	}
	idx := map[string]int{}
	for i, r := range in.Rings {
		for _, a := range ringAddrs(i, r) {
			idx[a] = i
		}
	}
	strID := map[string]int64{}
	sid := func(s string) int64 {
		if _, ok := strID[s]; !ok {
			strID[s] = int64(len(strID))
		}
		return strID[s]
	}
	if in.History {
		return runHistory(in, c, idx, sid)
	}
	var qs []string
	var obs []any
	malformed := false
	for _, t := range in.Tenants {
		sets, _, mal := view(in, t, sid)
		malformed = malformed || mal
		var firsts, repeats []string
		var first receive.Hashring
		for k := 0; k < in.Fresh; k++ {
			h, err := build(in)
			if err != nil {
				return c, fmt.Errorf("NewMultiHashring: %v", err)
			}
			firsts = append(firsts, ask(h, t, idx))
			if k == 0 {
				first = h
			}
		}
		// repeated requests on the first ring: sequential, then concurrent
		for k := 0; k < 3; k++ {
			repeats = append(repeats, ask(first, t, idx))
		}
		var mu sync.Mutex
		var wg sync.WaitGroup
		for g := 0; g < 4; g++ {
			wg.Add(1)
			go func() {
				defer wg.Done()
				for k := 0; k < 3; k++ {
					a := ask(first, t, idx)
					mu.Lock()
					repeats = append(repeats, a)
					mu.Unlock()
				}
			}()
		}
		wg.Wait()
		all := append(append([]string{}, firsts...), repeats...)
		for _, a := range all {
			if a != all[0] && c.GoPred == "" {
				c.GoPred = fmt.Sprintf("tenant %q is routed differently across fresh rings / repeated requests (%s vs %s)", t, all[0], a)
				c.Sig = "unstable-route"
				if malformed {
					c.Sig = "malformed-glob-order"
				}
			}
		}
		qs = append(qs, common.App("Q", common.Z(sid(t)), common.List(sets), common.List(firsts), common.List(repeats)))
		obs = append(obs, map[string]any{"tenant": t, "first": firsts[0]})
	}
	c.Coq = common.App("CRoute", common.List(qs))
	c.Obs = obs
	c.Class = "wellformed"
	if malformed {
		c.Class = "malformed-pattern"
	}
	// non-trivial: at least two hashrings with tenant lists
	nlists := 0
	for _, r := range in.Rings {
		if len(r.Tenants) > 0 {
			nlists++
		}
	}
	c.Nontrivial = nlists >= 2
	return c, nil
}

func gen(r *rand.Rand, tier string, n int) []any {
	var out []any
	tenants := []string{"team-a", "team-b", "prod-1", "prod-22", "x", "", "te*m", "default-tenant"}
	patterns := []string{"team-*", "prod-?", "*", "team-a", "prod-[0-9]*", "t?am-b", "x", "te\\*m", "[bad", "a[", "\\"}
	for i := 0; i < n; i++ {
		var in input
		nr := int(common.Between(r, 1, 5))
		for k := 0; k < nr; k++ {
			var rc ringCfg
			switch j := r.Intn(10); {
			case j < 2:
				// default ring (no tenants)
			case j < 5:
				rc.Type = common.Pick(r, "exact", "")
				for m := int(common.Between(r, 1, 3)); m > 0; m-- {
					rc.Tenants = append(rc.Tenants, common.Pick(r, tenants...))
				}
			case j < 9:
				rc.Type = "glob"
				for m := int(common.Between(r, 1, 3)); m > 0; m-- {
					rc.Tenants = append(rc.Tenants, common.Pick(r, patterns...))
				}
			default:
				rc.Type = "regex"
				rc.Tenants = []string{common.Pick(r, tenants...)}
			}
			if r.Intn(3) == 0 { // several endpoints, in arbitrary (unsorted) order
				rc.Nodes = []string{"n2", "n10", "n1"}[:int(common.Between(r, 2, 3))]
				r.Shuffle(len(rc.Nodes), func(a, b int) { rc.Nodes[a], rc.Nodes[b] = rc.Nodes[b], rc.Nodes[a] })
				rc.Algo = common.Pick(r, "", "ketama")
			}
			in.Rings = append(in.Rings, rc)
		}
		for m := int(common.Between(r, 2, 5)); m > 0; m-- {
			in.Tenants = append(in.Tenants, common.Pick(r, tenants...))
		}
		in.Fresh = 3
		if r.Intn(8) == 0 {
			// many tenants on one instance: name families that the patterns above sort into
			// different hashrings (team-* / prod-? / exact names / default)
			in.History = true
			in.Families = []string{"cust-", "team-", "prod-", "batch-"}[:int(common.Between(r, 2, 4))]
			in.N = int(common.Pick(r, int64(300), 1000, 2500))
			if tier == "thorough" {
				in.N *= 2
			}
			in.Seed = r.Int63()
		}
		out = append(out, in)
	}
	return out
}

func main() {
	common.Main(common.Prop{ID: "C27", Facts: facts, Gen: gen, Run: run, QuickN: 400, ThoroughN: 6000})
}
