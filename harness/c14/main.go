// C14: the caching bucket is transparent for immutable objects.
package main

import (
	"bytes"
	"context"
	"encoding/json"
	"fmt"
	"go/ast"
	"io"
	"math/rand"
	"sort"
	"strings"
	"sync"
	"time"

	"github.com/go-kit/log"
	"github.com/thanos-io/objstore"

	"github.com/thanos-io/thanos/pkg/cache"
	storecache "github.com/thanos-io/thanos/pkg/store/cache"
	"github.com/thanos-io/thanos/pkg/store/cache/cachekey"
	"github.com/thanos-io/thanos/zzverif/common"
	"github.com/thanos-io/thanos/zzverif/storegwutil"
)

// ---- tie T ------------------------------------------------------------------

func facts(repo string, w io.Writer) error {
	s, err := common.ParseSrc(repo, "pkg/store/cache/caching_bucket.go")
	if err != nil {
		return err
	}
	consts := map[string]string{
		"cfg.SubrangeSize": "S", "attrs.Size": "size", "m.start": "m_start", "m.end": "m_end",
	}
	emit := func(name, params, typ string, e ast.Expr) error {
		t, err := s.TranslateExpr(e, consts, nil)
		if err != nil {
			return fmt.Errorf("%s: %w", name, err)
		}
		fmt.Fprintf(w, "(* %s *)\nDefinition %s %s : %s := %s.\n", s.ExprString(e), name, params, typ, t)
		return nil
	}
	pick := func(es []ast.Expr, err error, what string, n int) ([]ast.Expr, error) {
		if err != nil {
			return nil, err
		}
		if len(es) != n {
			return nil, fmt.Errorf("%s: expected %d occurrence(s), found %d", what, n, len(es))
		}
		return es, nil
	}
	fn := "CachingBucket.cachedGetRange"
	fmt.Fprintln(w, "(* pkg/store/cache/caching_bucket.go, cachedGetRange: S = cfg.SubrangeSize, size = attrs.Size *)")
	// conditions, in source order
	conds, err := storegwutil.IfConds(s, fn, "attrs.Size")
	if conds, err = pick(conds, err, "if-conditions on attrs.Size in cachedGetRange", 3); err != nil {
		return err
	}
	if err := emit("past_end_cond", "(offset size : Z)", "bool", conds[0]); err != nil {
		return err
	}
	if err := emit("clamp_cond", "(offset length size : Z)", "bool", conds[1]); err != nil {
		return err
	}
	if err := emit("last_clamp_cond", "(endRange size : Z)", "bool", conds[2]); err != nil {
		return err
	}
	bump, err := storegwutil.IfConds(s, fn, "%cfg.SubrangeSize")
	if bump, err = pick(bump, err, "end-range bump condition", 1); err != nil {
		return err
	}
	if err := emit("bump_cond", "(offset length S : Z)", "bool", bump[0]); err != nil {
		return err
	}
	as, err := storegwutil.AssignsTo(s, fn, "length")
	if as, err = pick(as, err, "assignments to length", 1); err != nil {
		return err
	}
	if err := emit("clamped_length", "(offset size : Z)", "Z", as[0]); err != nil {
		return err
	}
	as, err = storegwutil.AssignsTo(s, fn, "startRange")
	if as, err = pick(as, err, "assignments to startRange", 1); err != nil {
		return err
	}
	if err := emit("start_range", "(offset S : Z)", "Z", as[0]); err != nil {
		return err
	}
	as, err = storegwutil.AssignsTo(s, fn, "endRange")
	if as, err = pick(as, err, "assignments to endRange", 1); err != nil {
		return err
	}
	if err := emit("end_range0", "(offset length S : Z)", "Z", as[0]); err != nil {
		return err
	}
	as, err = storegwutil.AssignsTo(s, fn, "lastSubrangeOffset")
	if as, err = pick(as, err, "assignments to lastSubrangeOffset", 2); err != nil {
		return err
	}
	if err := emit("last_off_default", "(endRange S : Z)", "Z", as[0]); err != nil {
		return err
	}
	if err := emit("last_off_clamped", "(size S : Z)", "Z", as[1]); err != nil {
		return err
	}
	as, err = storegwutil.AssignsTo(s, fn, "lastSubrangeLength")
	if as, err = pick(as, err, "assignments to lastSubrangeLength", 2); err != nil {
		return err
	}
	if err := emit("last_len_default", "(S : Z)", "Z", as[0]); err != nil {
		return err
	}
	if err := emit("last_len_clamped", "(size lastSubrangeOffset : Z)", "Z", as[1]); err != nil {
		return err
	}
	as, err = storegwutil.AssignsTo(s, fn, "end")
	if as, err = pick(as, err, "assignments to end", 1); err != nil {
		return err
	}
	if err := emit("subrange_end", "(off S size : Z)", "Z", as[0]); err != nil {
		return err
	}
	fn = "CachingBucket.fetchMissingSubranges"
	fmt.Fprintln(w, "(* fetchMissingSubranges *)")
	conds, err = storegwutil.IfConds(s, fn, "lastSubrangeOffset >=")
	if conds, err = pick(conds, err, "bufSize condition", 1); err != nil {
		return err
	}
	if err := emit("buf_full_cond", "(lastSubrangeOffset m_end : Z)", "bool", conds[0]); err != nil {
		return err
	}
	as, err = storegwutil.AssignsTo(s, fn, "bufSize")
	if as, err = pick(as, err, "assignments to bufSize", 2); err != nil {
		return err
	}
	if err := emit("buf_size_full", "(m_start m_end : Z)", "Z", as[0]); err != nil {
		return err
	}
	if err := emit("buf_size_last", "(m_start m_end S lastSubrangeLength : Z)", "Z", as[1]); err != nil {
		return err
	}
	// the error tests of fetchMissingSubranges: every one is a plain `err != nil` (no exemption for
	// io.ErrUnexpectedEOF after io.ReadFull: a short body must fail the read)
	ec, err := storegwutil.IfConds(s, "CachingBucket.fetchMissingSubranges", "err")
	if err != nil {
		return err
	}
	plain := len(ec) >= 2
	for _, c := range ec {
		if s.ExprString(c) != "err != nil" {
			plain = false
		}
	}
	fmt.Fprintf(w, "(* fetchMissingSubranges: %d error tests, all of them `err != nil` *)\nDefinition read_full_err_test_ok : bool := %v.\n", len(ec), plain)
	// statement order in cachedGetRange: attributes are read before anything else, the
	// past-the-end test precedes the subrange arithmetic
	evs, err := s.CallOrder("CachingBucket.cachedGetRange")
	if err != nil {
		return err
	}
	iAttr := common.IndexOf(evs, "call", "cb.cachedAttributes")
	iPast := common.IndexOf(evs, "if", s.ExprString(mustCond(s, "CachingBucket.cachedGetRange", "offset >= attrs.Size")))
	iClamp := common.IndexOf(evs, "if", "offset+length > attrs.Size")
	iFetch := common.IndexOf(evs, "call", "cfg.Cache.Fetch")
	fmt.Fprintf(w, "(* statement order in cachedGetRange: cachedAttributes < past-the-end test < length clamp < Cache.Fetch *)\n")
	fmt.Fprintf(w, "Definition get_range_order_ok : bool := %v.\n", iAttr >= 0 && iAttr < iPast && iPast < iClamp && iClamp < iFetch)
	return nil
}

func mustCond(s *common.SrcFile, fn, substr string) ast.Expr {
	cs, err := storegwutil.IfConds(s, fn, substr)
	if err != nil || len(cs) == 0 {
		return &ast.Ident{Name: "missing"}
	}
	return cs[0]
}

// ---- lossy recording cache ---------------------------------------------------

type lossyCache struct {
	mtx    sync.Mutex
	data   map[string][]byte
	r      *rand.Rand
	pDrop  int // percent of present keys not returned by a Fetch
	pEvict int // percent of the dropped ones that are evicted for good
	pLose  int // percent of stores that are silently lost
	hits   []string
	stores []string
}

func (c *lossyCache) Store(data map[string][]byte, ttl time.Duration) {
	c.mtx.Lock()
	defer c.mtx.Unlock()
	keys := make([]string, 0, len(data))
	for k := range data {
		keys = append(keys, k)
	}
	sort.Strings(keys)
	for _, k := range keys {
		c.stores = append(c.stores, k)
		if ttl <= 0 {
			continue
		}
		if c.r.Intn(100) < c.pLose {
			delete(c.data, k)
			continue
		}
		c.data[k] = data[k]
	}
}

func (c *lossyCache) Fetch(_ context.Context, keys []string) map[string][]byte {
	c.mtx.Lock()
	defer c.mtx.Unlock()
	out := map[string][]byte{}
	for _, k := range keys {
		v, ok := c.data[k]
		if !ok {
			continue
		}
		if c.r.Intn(100) < c.pDrop {
			if c.r.Intn(100) < c.pEvict {
				delete(c.data, k)
			}
			continue
		}
		out[k] = v
		c.hits = append(c.hits, k)
	}
	return out
}

func (c *lossyCache) Name() string { return "lossy" }

// recording bucket: logs GetRange calls that reach the underlying bucket
type recBucket struct {
	objstore.Bucket
	mtx   sync.Mutex
	calls [][2]int64
	cut   int // >= 0: fault injection, bodies of GetRange end after cut bytes
}

func (b *recBucket) GetRange(ctx context.Context, name string, off, length int64) (io.ReadCloser, error) {
	b.mtx.Lock()
	b.calls = append(b.calls, [2]int64{off, length})
	cut := b.cut
	b.mtx.Unlock()
	rc, err := b.Bucket.GetRange(ctx, name, off, length)
	if err != nil || cut < 0 {
		return rc, err
	}
	defer rc.Close()
	data, err := io.ReadAll(rc)
	if err != nil {
		return nil, err
	}
	if cut < len(data) {
		data = data[:cut]
	}
	return io.NopCloser(bytes.NewReader(data)), nil // fewer bytes than requested, then EOF
}

// ---- input -------------------------------------------------------------------

type opIn struct {
	Kind string `json:"k"` // getrange | get | exists | attrs | iter
	Name string `json:"n"`
	Off  int64  `json:"off,omitempty"`
	Len  int64  `json:"len,omitempty"`
	Rec  bool   `json:"rec,omitempty"`
	// getrange: Fault = the body of every underlying GetRange issued during this operation ends after Cut bytes
	Fault bool `json:"fault,omitempty"`
	Cut   int  `json:"cut,omitempty"`
	// get: size of the buffer the object is read with (0 = 512, like the first read of io.ReadAll)
	Chunk int `json:"chunk,omitempty"`
}

type input struct {
	SubrangeSize   int64          `json:"subrange"`
	MaxSubRequests int            `json:"max_sub_requests"`
	MaxCacheable   int            `json:"max_cacheable"`
	Objects        map[string]int `json:"objects"` // name -> size; content is a fixed function of name and position
	Ops            []opIn         `json:"ops"`
	CacheSeed      int64          `json:"cache_seed"`
	Drop           int            `json:"drop"`
	Evict          int            `json:"evict"`
	Lose           int            `json:"lose"`
}

func content(name string, size int) []byte {
	b := make([]byte, size)
	h := 7
	for _, c := range name {
		h = h*31 + int(c)
	}
	for i := range b {
		b[i] = byte((i*13 + h + i/7) % 251)
	}
	return b
}

// ---- run ---------------------------------------------------------------------

type interner struct {
	ids   map[string]int
	names []string
}

func (t *interner) id(s string) uint64 {
	if i, ok := t.ids[s]; ok {
		return uint64(i)
	}
	t.ids[s] = len(t.names)
	t.names = append(t.names, s)
	return uint64(len(t.names) - 1)
}

func bytesCoq(b []byte) string { return common.Bytes(string(b)) }

func (t *interner) keyCoq(k string) (string, error) {
	ck, err := cachekey.ParseBucketCacheKey(k)
	if err != nil {
		return "", fmt.Errorf("cache key %q: %v", k, err)
	}
	switch ck.Verb {
	case cachekey.SubrangeVerb:
		return common.App("KSub", common.N(t.id(ck.Name)), common.Z(ck.Start), common.Z(ck.End)), nil
	case cachekey.AttributesVerb:
		return common.App("KAttr", common.N(t.id(ck.Name))), nil
	case cachekey.ExistsVerb:
		return common.App("KExists", common.N(t.id(ck.Name))), nil
	case cachekey.ContentVerb:
		return common.App("KContent", common.N(t.id(ck.Name))), nil
	case cachekey.IterVerb:
		return common.App("KIter", common.N(t.id(ck.Name)), "false"), nil
	case cachekey.IterRecursiveVerb:
		return common.App("KIter", common.N(t.id(ck.Name)), "true"), nil
	}
	return "", fmt.Errorf("cache key %q: unknown verb", k)
}

func (t *interner) keysCoq(ks []string) (string, error) {
	ks = append([]string{}, ks...)
	sort.Strings(ks)
	var out []string
	for _, k := range ks {
		s, err := t.keyCoq(k)
		if err != nil {
			return "", err
		}
		out = append(out, s)
	}
	return common.List(out), nil
}

type outcome struct {
	kind  string // bytes | err | bool | size | list | panic
	bytes []byte
	b     bool
	size  int64
	list  []string
	msg   string
}

func (o outcome) coq(t *interner) string {
	switch o.kind {
	case "bytes":
		return common.App("RBytes", bytesCoq(o.bytes))
	case "bool":
		return common.App("RBool", common.Bool(o.b))
	case "size":
		return common.App("RSize", common.Z(o.size))
	case "list":
		var l []string
		for _, s := range o.list {
			l = append(l, common.N(t.id(s)))
		}
		return common.App("RList", common.List(l))
	case "panic":
		return "RPanic"
	}
	return "RErr"
}

func (o outcome) String() string {
	switch o.kind {
	case "bytes":
		if len(o.bytes) > 24 {
			return fmt.Sprintf("bytes[%d] %x...", len(o.bytes), o.bytes[:24])
		}
		return fmt.Sprintf("bytes[%d] %x", len(o.bytes), o.bytes)
	case "bool":
		return fmt.Sprint(o.b)
	case "size":
		return fmt.Sprintf("size=%d", o.size)
	case "list":
		return fmt.Sprintf("%q", o.list)
	case "panic":
		return "panic: " + o.msg
	}
	return "error"
}

func (o outcome) eq(p outcome) bool {
	return o.kind == p.kind && string(o.bytes) == string(p.bytes) && o.b == p.b && o.size == p.size && fmt.Sprintf("%q", o.list) == fmt.Sprintf("%q", p.list)
}

func doOp(ctx context.Context, b objstore.Bucket, op opIn) (res outcome) {
	defer func() {
		if r := recover(); r != nil {
			res = outcome{kind: "panic", msg: fmt.Sprint(r)}
		}
	}()
	readAll := func(rc io.ReadCloser, err error) outcome {
		if err != nil {
			return outcome{kind: "err", msg: err.Error()}
		}
		defer rc.Close()
		data, err := io.ReadAll(rc)
		if err != nil {
			return outcome{kind: "err", msg: err.Error()}
		}
		return outcome{kind: "bytes", bytes: data}
	}
	switch op.Kind {
	case "getrange":
		return readAll(b.GetRange(ctx, op.Name, op.Off, op.Len))
	case "get":
		rc, err := b.Get(ctx, op.Name)
		if err != nil {
			return outcome{kind: "err", msg: err.Error()}
		}
		defer rc.Close()
		chunk := op.Chunk
		if chunk <= 0 {
			chunk = 512
		}
		// consume the reader to EOF in reads of `chunk` bytes
		var data []byte
		buf := make([]byte, chunk)
		for {
			n, err := rc.Read(buf)
			data = append(data, buf[:n]...)
			if err == io.EOF {
				break
			}
			if err != nil {
				return outcome{kind: "err", msg: err.Error()}
			}
		}
		if data == nil {
			data = []byte{}
		}
		return outcome{kind: "bytes", bytes: data}
	case "exists":
		ok, err := b.Exists(ctx, op.Name)
		if err != nil {
			return outcome{kind: "err", msg: err.Error()}
		}
		return outcome{kind: "bool", b: ok}
	case "attrs":
		a, err := b.Attributes(ctx, op.Name)
		if err != nil {
			return outcome{kind: "err", msg: err.Error()}
		}
		return outcome{kind: "size", size: a.Size}
	case "iter":
		var l []string
		var opts []objstore.IterOption
		if op.Rec {
			opts = append(opts, objstore.WithRecursiveIter())
		}
		err := b.Iter(ctx, op.Name, func(s string) error { l = append(l, s); return nil }, opts...)
		if err != nil {
			return outcome{kind: "err", msg: err.Error()}
		}
		return outcome{kind: "list", list: l}
	}
	return outcome{kind: "err", msg: "bad op"}
}

func run(raw json.RawMessage) (common.Case, error) {
	var in input
	if err := json.Unmarshal(raw, &in); err != nil {
		return common.Case{}, err
	}
	var c common.Case
	ctx := context.Background()
	if in.SubrangeSize <= 0 {
		return c, fmt.Errorf("subrange size must be positive")
	}
	inmem := objstore.NewInMemBucket()
	t := &interner{ids: map[string]int{}}
	var names []string
	for n := range in.Objects {
		names = append(names, n)
	}
	sort.Strings(names)
	var objsCoq []string
	for _, n := range names {
		data := content(n, in.Objects[n])
		if err := inmem.Upload(ctx, n, strings.NewReader(string(data))); err != nil {
			return c, err
		}
		objsCoq = append(objsCoq, common.Pair(common.N(t.id(n)), bytesCoq(data)))
	}
	lc := &lossyCache{data: map[string][]byte{}, r: rand.New(rand.NewSource(in.CacheSeed)), pDrop: in.Drop, pEvict: in.Evict, pLose: in.Lose}
	rb := &recBucket{Bucket: inmem, cut: -1}
	cfg := cache.NewCachingBucketConfig()
	all := func(string) bool { return true }
	const ttl = 24 * time.Hour
	cfg.CacheGetRange("r", lc, all, in.SubrangeSize, ttl, ttl, in.MaxSubRequests)
	cfg.CacheGet("g", lc, all, in.MaxCacheable, ttl, ttl, ttl)
	cfg.CacheExists("e", lc, all, ttl, ttl)
	cfg.CacheAttributes("a", lc, all, ttl)
	cfg.CacheIter("i", lc, all, ttl, storecache.JSONIterCodec{}, "")
	cb, err := storecache.NewCachingBucket(rb, cfg, log.NewNopLogger(), nil)
	if err != nil {
		return c, err
	}
	var opsCoq []string
	type opObs struct {
		Op    opIn
		Impl  string
		Under string
		Calls [][2]int64
		Hits  []string
	}
	var obs []opObs
	classes := map[string]bool{}
	merged, partial := false, false
	for _, op := range in.Ops {
		lc.hits, lc.stores, rb.calls = nil, nil, nil
		faulty := op.Kind == "getrange" && op.Fault
		if faulty {
			rb.cut = op.Cut
		}
		got := doOp(ctx, cb, op)
		rb.cut = -1
		hits, stores, calls := lc.hits, lc.stores, rb.calls
		want := doOp(ctx, inmem, op)
		if faulty && got.kind == "err" {
			// an error is an acceptable answer to a read whose body was cut short
		} else if !got.eq(want) && c.GoPred == "" {
			c.GoPred = fmt.Sprintf("%s(%q, off=%d, len=%d) through the caching bucket = %s; the underlying bucket = %s", op.Kind, op.Name, op.Off, op.Len, got, want)
			c.Sig = op.Kind + "-differs"
			if got.kind == "panic" {
				c.Sig = op.Kind + "-panic"
				if size, ok := in.Objects[op.Name]; ok && op.Kind == "getrange" && op.Off >= int64(size) {
					c.Sig = "getrange-past-end-panic"
				}
			}
		}
		sort.Slice(calls, func(i, j int) bool { return calls[i][0] < calls[j][0] })
		var callsCoq []string
		for _, cl := range calls {
			callsCoq = append(callsCoq, common.Pair(common.Z(cl[0]), common.Z(cl[1])))
		}
		hitsCoq, err := t.keysCoq(hits)
		if err != nil {
			return c, err
		}
		storesCoq, err := t.keysCoq(stores)
		if err != nil {
			return c, err
		}
		var opCoq string
		switch op.Kind {
		case "getrange":
			opCoq = common.App("OGetRange", common.N(t.id(op.Name)), common.Z(op.Off), common.Z(op.Len))
			if len(hits) > 0 && len(calls) > 0 {
				partial = true
			}
			if len(calls) >= 2 || (len(calls) == 1 && in.MaxSubRequests > 0 && len(hits) >= 2) {
				merged = true
			}
		case "get":
			chunk := op.Chunk
			if chunk <= 0 {
				chunk = 512
			}
			opCoq = common.App("OGet", common.N(t.id(op.Name)), common.Z(int64(chunk)))
		case "exists":
			opCoq = common.App("OExists", common.N(t.id(op.Name)))
		case "attrs":
			opCoq = common.App("OAttr", common.N(t.id(op.Name)))
		case "iter":
			opCoq = common.App("OIter", common.N(t.id(op.Name)), common.Bool(op.Rec))
		default:
			return c, fmt.Errorf("bad op kind %q", op.Kind)
		}
		// truth for iter: what the underlying bucket lists (data for the model)
		truth := "[]"
		if faulty {
			truth = common.List([]string{common.N(uint64(op.Cut))})
			classes["fault"] = true
		}
		if op.Kind == "iter" && want.kind == "list" {
			var l []string
			for _, s := range want.list {
				l = append(l, common.N(t.id(s)))
			}
			truth = common.List(l)
		}
		opsCoq = append(opsCoq, common.Tuple(opCoq, hitsCoq, truth, got.coq(t), want.coq(t), common.List(callsCoq), storesCoq))
		obs = append(obs, opObs{Op: op, Impl: got.String(), Under: want.String(), Calls: calls, Hits: hits})
		classes[op.Kind] = true
	}
	c.Coq = common.App("CHist", common.Z(in.SubrangeSize), common.Z(int64(in.MaxSubRequests)), common.Z(int64(in.MaxCacheable)),
		common.List(objsCoq), common.List(opsCoq))
	if len(obs) > 6 {
		obs = obs[:6]
	}
	c.Obs = obs
	c.Nontrivial = partial && len(in.Ops) >= 3
	c.Class = fmt.Sprintf("ops=%s/drop=%v/gaps=%v/fault=%v", bucketN(len(in.Ops)), in.Drop > 0, merged, classes["fault"])
	return c, nil
}

func bucketN(n int) string {
	switch {
	case n <= 2:
		return "1-2"
	case n <= 8:
		return "3-8"
	}
	return "9+"
}

// ---- generator ----------------------------------------------------------------

// genSparse: scattered small reads warm a few subranges, then large reads have to
// fetch several separate gaps and merge them down to MaxSubRequests.
func genSparse(r *rand.Rand, tier string) input {
	var in input
	in.SubrangeSize = common.Pick(r, int64(1), 1, 2, 3, 4)
	in.MaxSubRequests = common.Pick(r, 1, 1, 2, 3, 4)
	in.MaxCacheable = 0
	in.CacheSeed = r.Int63n(1 << 30)
	in.Drop = common.Pick(r, 0, 0, 10, 30)
	in.Evict = common.Pick(r, 0, 50)
	size := int(in.SubrangeSize)*(6+r.Intn(30)) + r.Intn(int(in.SubrangeSize))
	if tier == "thorough" {
		size = int(in.SubrangeSize)*(6+r.Intn(150)) + r.Intn(int(in.SubrangeSize))
	}
	in.Objects = map[string]int{"top": size}
	nSmall := 1 + r.Intn(6)
	for i := 0; i < nSmall; i++ {
		in.Ops = append(in.Ops, opIn{Kind: "getrange", Name: "top", Off: r.Int63n(int64(size)), Len: 1 + r.Int63n(2*in.SubrangeSize)})
	}
	nBig := 1 + r.Intn(3)
	for i := 0; i < nBig; i++ {
		off := r.Int63n(int64(size)/3 + 1)
		in.Ops = append(in.Ops, opIn{Kind: "getrange", Name: "top", Off: off, Len: int64(size) - off - r.Int63n(int64(size)/4+1) + r.Int63n(3)})
	}
	for i := range in.Ops {
		if in.Ops[i].Len <= 0 {
			in.Ops[i].Len = 1
		}
	}
	return in
}

// genGets: objects around and above MaxCacheableSize, read in small chunks, several times.
func genGets(r *rand.Rand, tier string) input {
	var in input
	in.SubrangeSize = common.Pick(r, int64(4), 16, 100)
	in.MaxSubRequests = 0
	in.MaxCacheable = common.Pick(r, 1, 4, 5, 16, 20, 64)
	in.CacheSeed = r.Int63n(1 << 30)
	in.Drop = common.Pick(r, 0, 0, 0, 20)
	in.Objects = map[string]int{}
	names := []string{"a/obj1", "a/obj2", "top"}
	for _, n := range names[:1+r.Intn(3)] {
		in.Objects[n] = common.Pick(r, 0, 1, in.MaxCacheable-1, in.MaxCacheable, in.MaxCacheable+1, 2*in.MaxCacheable+3, in.MaxCacheable+r.Intn(40))
		if in.Objects[n] < 0 {
			in.Objects[n] = 0
		}
	}
	var present []string
	for n := range in.Objects {
		present = append(present, n)
	}
	sort.Strings(present)
	nOps := 2 + r.Intn(6)
	for i := 0; i < nOps; i++ {
		op := opIn{Kind: "get", Name: present[r.Intn(len(present))]}
		op.Chunk = common.Pick(r, 0, 1, 2, 3, in.MaxCacheable, in.MaxCacheable+1, 1+r.Intn(in.MaxCacheable), 1000)
		in.Ops = append(in.Ops, op)
		if r.Intn(4) == 0 {
			in.Ops = append(in.Ops, opIn{Kind: common.Pick(r, "exists", "attrs"), Name: op.Name})
		}
	}
	return in
}

// genFault: a GetRange whose underlying body is cut short, then healthy reads of the same and
// of overlapping ranges. One merged request at most (MaxSubRequests = 1), so that a failed
// fetch is deterministic.
func genFault(r *rand.Rand, tier string) input {
	var in input
	in.SubrangeSize = common.Pick(r, int64(1), 2, 4, 5, 8, 16)
	in.MaxSubRequests = 1
	in.MaxCacheable = 0
	in.CacheSeed = r.Int63n(1 << 30)
	in.Drop = common.Pick(r, 0, 0, 0, 25)
	size := 1 + r.Intn(60)
	in.Objects = map[string]int{"top": size}
	rng := func() (int64, int64) {
		off := r.Int63n(int64(size))
		return off, 1 + r.Int63n(int64(size)-off+3)
	}
	if r.Intn(2) == 0 { // warm a part of the cache first
		off, l := rng()
		in.Ops = append(in.Ops, opIn{Kind: "getrange", Name: "top", Off: off, Len: l})
	}
	off, l := rng()
	cut := r.Intn(int(l) + 2)
	if r.Intn(3) == 0 {
		cut = 0
	}
	in.Ops = append(in.Ops, opIn{Kind: "getrange", Name: "top", Off: off, Len: l, Fault: true, Cut: cut})
	in.Ops = append(in.Ops, opIn{Kind: "getrange", Name: "top", Off: off, Len: l})
	if r.Intn(2) == 0 {
		in.Ops = append(in.Ops, opIn{Kind: "getrange", Name: "top", Off: off, Len: l, Fault: true, Cut: r.Intn(int(l) + 2)})
	}
	o2, l2 := rng()
	in.Ops = append(in.Ops, opIn{Kind: "getrange", Name: "top", Off: o2, Len: l2})
	in.Ops = append(in.Ops, opIn{Kind: "getrange", Name: "top", Off: 0, Len: int64(size)})
	return in
}

func genOne(r *rand.Rand, tier string) input {
	if r.Intn(4) == 0 {
		return genSparse(r, tier)
	}
	if r.Intn(7) == 0 {
		return genFault(r, tier)
	}
	if r.Intn(6) == 0 {
		return genGets(r, tier)
	}
	var in input
	in.SubrangeSize = common.Pick(r, int64(1), 2, 3, 4, 5, 7, 8, 10, 16, 100)
	in.MaxSubRequests = common.Pick(r, 0, 0, 1, 1, 2, 3, 5)
	in.MaxCacheable = common.Pick(r, 0, 5, 20, 1000)
	in.CacheSeed = r.Int63n(1 << 30)
	switch r.Intn(4) {
	case 0: // cooperative cache
	case 1:
		in.Drop = 30
	case 2:
		in.Drop, in.Evict = 40, 50
	default:
		in.Drop, in.Evict, in.Lose = 25, 30, 20
	}
	maxSize := 60
	if tier == "thorough" {
		maxSize = 400
	}
	in.Objects = map[string]int{}
	objNames := []string{"a/obj1", "a/obj2", "b/x", "top"}
	nObj := 1 + r.Intn(3)
	var present []string
	for i := 0; i < nObj; i++ {
		n := objNames[i]
		var sz int
		switch r.Intn(6) {
		case 0:
			sz = r.Intn(3) // 0, 1, 2
		case 1:
			sz = int(in.SubrangeSize) * (1 + r.Intn(5)) // multiple of the subrange size
		case 2:
			sz = int(in.SubrangeSize)*(1+r.Intn(5)) + 1
		default:
			sz = 1 + r.Intn(maxSize)
		}
		if sz > 4*maxSize {
			sz = 4 * maxSize
		}
		in.Objects[n] = sz
		present = append(present, n)
	}
	nOps := common.Pick(r, 1, 2, 4, 8, 12)
	if tier == "thorough" {
		nOps = common.Pick(r, 2, 6, 12, 24, 40)
	}
	for i := 0; i < nOps; i++ {
		var op opIn
		op.Name = present[r.Intn(len(present))]
		if r.Intn(12) == 0 {
			op.Name = common.Pick(r, "missing", "a/none")
		}
		size := int64(in.Objects[op.Name])
		switch k := r.Intn(20); {
		case k < 12:
			op.Kind = "getrange"
			switch r.Intn(10) {
			case 0:
				op.Off = size // exactly at the end
			case 1:
				op.Off = size + r.Int63n(3*in.SubrangeSize+2) // past the end
			case 2:
				op.Off = (size / in.SubrangeSize) * in.SubrangeSize
			default:
				if size > 0 {
					op.Off = r.Int63n(size)
				}
			}
			switch r.Intn(6) {
			case 0:
				op.Len = 1
			case 1:
				op.Len = size + 10
			case 2:
				op.Len = in.SubrangeSize
			default:
				op.Len = 1 + r.Int63n(size+in.SubrangeSize+1)
			}
		case k < 14:
			op.Kind = "get"
			op.Chunk = common.Pick(r, 0, 0, 1, 2, 3, 5, 7, 16, 64)
			if r.Intn(2) == 0 && in.MaxCacheable > 0 { // a read size that fits into the cacheable limit
				op.Chunk = 1 + r.Intn(in.MaxCacheable)
			}
			// the same object again (served from the content cache when it was stored)
			in.Ops = append(in.Ops, op)
			if r.Intn(3) == 0 {
				op2 := op
				op2.Chunk = common.Pick(r, 0, 1, 4, 9)
				in.Ops = append(in.Ops, op2)
			}
		case k < 16:
			op.Kind = "exists"
		case k < 18:
			op.Kind = "attrs"
		default:
			op.Kind = "iter"
			op.Name = common.Pick(r, "", "a/", "b/", "zz/")
			op.Rec = r.Intn(3) == 0
		}
		in.Ops = append(in.Ops, op)
	}
	return in
}

func gen(r *rand.Rand, tier string, n int) []any {
	var out []any
	for i := 0; i < n; i++ {
		out = append(out, genOne(r, tier))
	}
	return out
}

func main() {
	common.Main(common.Prop{ID: "C14", Facts: facts, Gen: gen, Run: run, QuickN: 600, ThoroughN: 6000,
		Preamble: "Open Scope Z_scope.\n"})
}
