// C06: partial-response strategy is honoured under store failures.
//
// Runs the real ProxyStore.Series over in-process fake store clients of which a
// subset fails (Series() itself fails, Recv fails after k frames, or Recv blocks
// until the per-frame timeout cancels the stream), for both strategies (and the
// deprecated PartialResponseDisabled flag), lazy and eager retrieval.
package main

import (
	"encoding/json"
	"fmt"
	"go/ast"
	"go/token"
	"io"
	"math/rand"
	"sort"
	"strings"
	"time"

	"github.com/thanos-io/thanos/pkg/store/storepb"
	"github.com/thanos-io/thanos/zzverif/common"
	pu "github.com/thanos-io/thanos/zzverif/proxyutil"
)

var modeConsts = map[string]string{
	"r.PartialResponseDisabled":             "disabled",
	"r.PartialResponseStrategy":             "strategy",
	"storepb.PartialResponseStrategy_ABORT": "ABORT",
	"r.Limit":                               "limit",
}

func facts(repo string, w io.Writer) error {
	s, err := common.ParseSrc(repo, "pkg/store/proxy.go")
	if err != nil {
		return err
	}
	fd, err := s.FindFunc("ProxyStore.Series")
	if err != nil {
		return err
	}
	var limitCond, openCond, loopCond ast.Expr
	ast.Inspect(fd.Body, func(n ast.Node) bool {
		is, ok := n.(*ast.IfStmt)
		if !ok {
			return true
		}
		txt := s.ExprString(is.Cond)
		switch {
		case limitCond == nil && len(is.Body.List) == 1 && isBreak(is.Body.List[0]):
			limitCond = is.Cond
		case openCond == nil && strings.HasPrefix(txt, "!r.PartialResponseDisabled"):
			// `if !r.PartialResponseDisabled && r.PartialResponseStrategy != ABORT { send warning; continue } else { return err }`
			openCond = is.Cond
		case loopCond == nil && strings.HasPrefix(txt, "resp.GetWarning() != \"\" &&"):
			// `if resp.GetWarning() != "" && (<abort mode>) { return Aborted }`: the second conjunct
			if be, ok := is.Cond.(*ast.BinaryExpr); ok && be.Op == token.LAND {
				loopCond = be.Y
			}
		}
		return true
	})
	if limitCond == nil || openCond == nil || loopCond == nil {
		return fmt.Errorf("srcfacts: pkg/store/proxy.go: ProxyStore.Series: limit / open-error / warning strategy tests not found (%v %v %v)", limitCond != nil, openCond != nil, loopCond != nil)
	}
	fmt.Fprintf(w, "Definition ABORT : Z := %d. (* storepb.PartialResponseStrategy_ABORT *)\n", int64(storepb.PartialResponseStrategy_ABORT))
	fmt.Fprintf(w, "Definition WARN : Z := %d. (* storepb.PartialResponseStrategy_WARN *)\n", int64(storepb.PartialResponseStrategy_WARN))
	for _, d := range []struct {
		name, params string
		e            ast.Expr
		note         string
	}{
		{"limit_break", "(limit i : Z)", limitCond, "`if %s { break }` after i++"},
		{"open_warn_mode", "(disabled : bool) (strategy : Z)", openCond, "a store that cannot be opened: `if %s { send warning; continue } else { return err }`"},
		{"loop_abort_mode", "(disabled : bool) (strategy : Z)", loopCond, "a warning in the merged stream: `if resp.GetWarning() != \"\" && %s { return Aborted }`"},
	} {
		e, err := s.TranslateExpr(d.e, modeConsts, nil)
		if err != nil {
			return err
		}
		fmt.Fprintf(w, "(* pkg/store/proxy.go ProxyStore.Series: "+d.note+" *)\n", s.ExprString(d.e))
		fmt.Fprintf(w, "Definition %s %s : bool :=\n  %s.\n", d.name, d.params, e)
	}
	if err := eosFacts(repo, w); err != nil {
		return err
	}
	return timerFacts(repo, w)
}

// eosFacts: how the lazy and the eager receiver decide that a Recv error is the clean end of the
// stream: `err == io.EOF` (identity) or errors.Is(err, io.EOF) (also errors wrapping io.EOF).
func eosFacts(repo string, w io.Writer) error {
	s, err := common.ParseSrc(repo, "pkg/store/proxy_merge.go")
	if err != nil {
		return err
	}
	for _, d := range []struct{ fn, name string }{{"newLazyRespSet", "recv_eos_lazy"}, {"newEagerRespSet", "recv_eos_eager"}} {
		fd, err := s.FindFunc(d.fn)
		if err != nil {
			return err
		}
		var cond ast.Expr
		ast.Inspect(fd.Body, func(n ast.Node) bool {
			is, ok := n.(*ast.IfStmt)
			if !ok || cond != nil || s.ExprString(is.Cond) != "err != nil" {
				return true
			}
			// the first statement of the error branch after cl.Recv(): `if <eos test> { ... return false }`
			if len(is.Body.List) > 0 {
				if inner, ok := is.Body.List[0].(*ast.IfStmt); ok && strings.Contains(s.ExprString(inner.Cond), "io.EOF") {
					cond = inner.Cond
				}
			}
			return true
		})
		if cond == nil {
			return fmt.Errorf("srcfacts: pkg/store/proxy_merge.go: %s: end-of-stream test on the Recv error not found", d.fn)
		}
		var body string
		switch s.ExprString(cond) {
		case "err == io.EOF", "io.EOF == err":
			body = "is_eof"
		case "errors.Is(err, io.EOF)":
			body = "(is_eof || wraps_eof)"
		default:
			return fmt.Errorf("srcfacts: %s: end-of-stream test %q not understood", d.fn, s.ExprString(cond))
		}
		fmt.Fprintf(w, "(* pkg/store/proxy_merge.go %s handleRecvResponse: `if %s` => clean end of the store's stream *)\n", d.fn, s.ExprString(cond))
		fmt.Fprintf(w, "Definition %s (is_eof wraps_eof : bool) : bool :=\n  %s.\n", d.name, body)
	}
	return nil
}

// timerFacts: where the lazy receiver pauses its frame-timeout timer (t.Reset(MaxInt64)) relative to
// cl.Recv() and to the appends into the ring buffer (which may block), and under which condition.
func timerFacts(repo string, w io.Writer) error {
	s, err := common.ParseSrc(repo, "pkg/store/proxy_merge.go")
	if err != nil {
		return err
	}
	fd, err := s.FindFunc("newLazyRespSet")
	if err != nil {
		return err
	}
	var lit *ast.FuncLit
	ast.Inspect(fd.Body, func(n ast.Node) bool {
		if as, ok := n.(*ast.AssignStmt); ok && lit == nil && len(as.Lhs) == 1 && len(as.Rhs) == 1 {
			if id, ok := as.Lhs[0].(*ast.Ident); ok && id.Name == "handleRecvResponse" {
				lit, _ = as.Rhs[0].(*ast.FuncLit)
			}
		}
		return true
	})
	if lit == nil {
		return fmt.Errorf("srcfacts: pkg/store/proxy_merge.go: newLazyRespSet: handleRecvResponse closure not found")
	}
	isPause := func(n ast.Node) bool {
		found := false
		ast.Inspect(n, func(m ast.Node) bool {
			if c, ok := m.(*ast.CallExpr); ok && s.ExprString(c.Fun) == "t.Reset" && len(c.Args) == 1 &&
				strings.Contains(s.ExprString(c.Args[0]), "math.MaxInt64") {
				found = true
			}
			return true
		})
		return found
	}
	hasCall := func(n ast.Node, callee string) bool {
		found := false
		ast.Inspect(n, func(m ast.Node) bool {
			if c, ok := m.(*ast.CallExpr); ok && s.ExprString(c.Fun) == callee {
				found = true
			}
			return true
		})
		return found
	}
	iRecv, iPause, iAppend := -1, -1, -1
	var pauseCond ast.Expr
	for i, st := range lit.Body.List {
		if iRecv < 0 && hasCall(st, "cl.Recv") {
			iRecv = i
			continue
		}
		if is, ok := st.(*ast.IfStmt); ok && iPause < 0 && is.Else == nil && isPause(is.Body) && !hasCall(is, "l.rb.append") {
			iPause, pauseCond = i, is.Cond
		}
		if iAppend < 0 && iRecv >= 0 && i > iRecv+1 && hasCall(st, "l.rb.append") {
			iAppend = i
		}
	}
	if iRecv < 0 || iPause < 0 || iAppend < 0 {
		return fmt.Errorf("srcfacts: pkg/store/proxy_merge.go: handleRecvResponse: Recv / timer pause / buffer append statements not found (%d %d %d)", iRecv, iPause, iAppend)
	}
	// the condition under which the timer is paused: a conjunction of `t != nil` (a timer exists) and
	// possibly tests of the buffer state
	var conj []string
	var split func(e ast.Expr) error
	split = func(e ast.Expr) error {
		if be, ok := e.(*ast.BinaryExpr); ok && be.Op == token.LAND {
			if err := split(be.X); err != nil {
				return err
			}
			return split(be.Y)
		}
		if pe, ok := e.(*ast.ParenExpr); ok {
			return split(pe.X)
		}
		switch s.ExprString(e) {
		case "t != nil":
			conj = append(conj, "true")
		case "l.rb.isFull()":
			conj = append(conj, "buffer_full")
		case "!l.rb.isFull()":
			conj = append(conj, "(negb buffer_full)")
		default:
			return fmt.Errorf("srcfacts: handleRecvResponse: timer pause condition %q not understood", s.ExprString(e))
		}
		return nil
	}
	if err := split(pauseCond); err != nil {
		return err
	}
	fmt.Fprintf(w, "(* pkg/store/proxy_merge.go newLazyRespSet/handleRecvResponse: `if %s { t.Reset(MaxInt64) }` is statement %d, cl.Recv() statement %d, the first (possibly blocking) l.rb.append statement %d *)\n",
		s.ExprString(pauseCond), iPause, iRecv, iAppend)
	fmt.Fprintf(w, "Definition timer_pause_cond (buffer_full : bool) : bool :=\n  (%s).\n", strings.Join(conj, " && "))
	fmt.Fprintf(w, "Definition timer_pause_after_recv_before_append : bool := %s.\n", common.Bool(iRecv < iPause && iPause < iAppend))
	return nil
}

func isBreak(st ast.Stmt) bool {
	br, ok := st.(*ast.BranchStmt)
	return ok && br.Tok == token.BREAK
}

func failToken(name string) string { return "!fail:" + name }

func run(raw json.RawMessage) (common.Case, error) {
	var in pu.Input
	if err := json.Unmarshal(raw, &in); err != nil {
		return common.Case{}, err
	}
	var c common.Case
	var timeout time.Duration
	var failing []string
	storeWarns := false
	for _, s := range in.Stores {
		switch s.Fail {
		case "timeout":
			if s.FailAt <= len(s.Frames) {
				timeout = 400 * time.Millisecond
				failing = append(failing, s.Name)
			}
		case "recv":
			if s.FailAt <= len(s.Frames) {
				failing = append(failing, s.Name)
			}
		case "open":
			failing = append(failing, s.Name)
		}
		for i, f := range s.Frames {
			if f.Kind == "warn" && s.Fail != "open" && (s.Fail == "" || i < s.FailAt) {
				storeWarns = true
			}
		}
	}
	res := pu.RunProxy(in, timeout)

	canon := func(w string) string {
		for _, n := range failing {
			if strings.Contains(w, n) {
				return failToken(n)
			}
		}
		return w
	}
	var scripts []string
	for _, s := range in.Stores {
		scripts = append(scripts, pu.CoqScript(s, failToken(s.Name), failToken(s.Name)))
	}
	oFrames := common.None
	var ws []string
	if res.Err == nil {
		var fs []string
		for _, f := range res.Frames {
			fs = append(fs, pu.CoqFrame(f, func(string) string { return "" }))
		}
		oFrames = common.Some(common.List(fs))
		for _, w := range pu.Warnings(res.Frames) {
			ws = append(ws, canon(w))
		}
		sort.Strings(ws)
	}
	strategy := int64(storepb.PartialResponseStrategy_WARN)
	if in.Abort {
		strategy = int64(storepb.PartialResponseStrategy_ABORT)
	}
	// ---- the same stores through the Thanos querier's Select (partial response = WARN strategy) ----
	qPartial := !in.Abort
	qr := pu.RunQuerier(in, timeout, qPartial)
	oQ := common.None
	var qws []string
	if qr.Err == nil {
		seenW := map[string]bool{}
		for _, w := range qr.Warns {
			if cw := canon(w); !seenW[cw] {
				seenW[cw] = true
				qws = append(qws, cw)
			}
		}
		sort.Strings(qws)
		var ls []string
		for _, l := range qr.Labels {
			ls = append(ls, pu.CoqLabelsP(l))
		}
		oQ = common.Some(common.Pair(common.List(ls), pu.CoqStrList(qws)))
	}
	var wraps []string
	for _, s := range in.Stores {
		wraps = append(wraps, common.Bool(pu.WrapsEOF(s.FailKind)))
	}
	c.Coq = common.App("CFail", common.Bool(in.Lazy), common.Nat(in.Buf), pu.CoqStrList(in.WRL), common.Bool(in.Disabled), common.Z(strategy),
		common.Nat(int(in.Batch)), common.List(scripts), common.List(wraps), oFrames, pu.CoqStrList(ws), common.Bool(qPartial), oQ)
	obs := map[string]any{"ok": res.Err == nil, "warnings": ws, "frames": len(res.Frames),
		"querier_ok": qr.Err == nil, "querier_warnings": qws, "querier_series": len(qr.Labels)}
	c.Obs = obs

	// ---- Go-side predicate (search aid) ----
	abort := in.Abort || in.Disabled
	switch {
	case abort && (len(failing) > 0 || storeWarns) && res.Err == nil:
		c.GoPred = "abort strategy: a store failed (or warned) but the request succeeded"
		c.Sig = "abort-succeeded"
	case abort && len(failing) == 0 && !storeWarns && res.Err != nil:
		c.GoPred = "abort strategy: no store failed but the request failed"
		c.Sig = "abort-failed-without-failure"
	case !abort && res.Err != nil:
		c.GoPred = "warn strategy: the request failed"
		c.Sig = "warn-failed"
	case !abort:
		have := map[string]bool{}
		for _, w := range ws {
			have[w] = true
		}
		for _, n := range failing {
			if !have[failToken(n)] {
				c.GoPred = "warn strategy: no warning for failed store " + n
				c.Sig = "warn-missing-warning"
			}
		}
		// every label set of a non-failing store is in the result
		out := map[string]bool{}
		for _, f := range res.Frames {
			if f.GetSeries() != nil {
				l, _ := pu.CoqSeries(f.GetSeries())
				out[l] = true
			}
			if b := f.GetBatch(); b != nil {
				for _, s := range b.Series {
					l, _ := pu.CoqSeries(s)
					out[l] = true
				}
			}
		}
		for _, s := range in.Stores {
			if s.Fail != "" {
				continue
			}
			strip := !s.Supports && len(in.WRL) > 0
			for _, f := range s.Frames {
				for _, se := range f.Series {
					ls := se.Labels
					if strip {
						ls = nil
						for _, l := range se.Labels {
							if l[0] != "r" {
								ls = append(ls, l)
							}
						}
					}
					if !out[pu.CoqLabelsIn(ls)] {
						c.GoPred = fmt.Sprintf("warn strategy: series %v of non-failing store %s is missing", ls, s.Name)
						c.Sig = "warn-lost-series"
					}
				}
			}
		}
	}
	if c.GoPred == "" {
		switch {
		case !qPartial && (len(failing) > 0 || storeWarns) && qr.Err == nil:
			c.GoPred = "querier, partial response off: a store failed (or warned) but Select succeeded"
			c.Sig = "querier-abort-succeeded"
		case !qPartial && len(failing) == 0 && !storeWarns && qr.Err != nil:
			c.GoPred = "querier, partial response off: no store failed but Select failed"
			c.Sig = "querier-abort-failed-without-failure"
		case qPartial && qr.Err != nil:
			c.GoPred = "querier, partial response on: Select failed"
			c.Sig = "querier-warn-failed"
		case qPartial:
			have := map[string]bool{}
			for _, w := range qws {
				have[w] = true
			}
			for _, n := range failing {
				if !have[failToken(n)] {
					c.GoPred = "querier, partial response on: no annotation for failed store " + n
					c.Sig = "querier-warn-missing-warning"
				}
			}
		}
	}
	mode := "warn"
	if abort {
		mode = "abort"
	}
	lz := "eager"
	if in.Lazy {
		lz = "lazy"
	}
	c.Class = fmt.Sprintf("%s/%s/failing=%d", mode, lz, len(failing))
	// non-trivial: at least one store fails and at least one other store returns series
	other := false
	for _, s := range in.Stores {
		if s.Fail == "" && len(s.Frames) > 0 {
			other = true
		}
	}
	c.Nontrivial = len(failing) > 0 && other
	return c, nil
}

// genStall: lazy retrieval with a small buffer, a frame timeout, a truly failing store, healthy
// stores that answer at once but pack their series into batch responses larger than the buffer
// with more responses to follow, and a reader that stalls longer than the frame timeout.
func genStall(r *rand.Rand) pu.Input {
	in := pu.Input{Lazy: true, Buf: common.Pick(r, 1, 1, 2), Batch: common.Pick(r, int64(0), 2, 64),
		FrameTimeoutMs: 300, StallMs: 800, StallAfter: r.Intn(2)}
	mk := func(prefix string, i int) pu.SeriesIn {
		return pu.SeriesIn{Labels: []pu.Lbl{{"a", fmt.Sprintf("%s%02d", prefix, i)}}}
	}
	nst := 2 + r.Intn(2)
	failing := r.Intn(nst)
	for si := 0; si < nst; si++ {
		st := pu.StoreIn{Name: fmt.Sprintf("store%d", si), Supports: true}
		prefix := string(rune('b' + si))
		next := 1
		frames := 2 + r.Intn(2)
		for f := 0; f < frames; f++ {
			if si != failing && (f == 0 || r.Intn(2) == 0) {
				fr := pu.FrameIn{Kind: "batch"}
				for k := in.Buf + 2 + r.Intn(3); k > 0; k-- {
					fr.Series = append(fr.Series, mk(prefix, next))
					next++
				}
				st.Frames = append(st.Frames, fr)
			} else {
				st.Frames = append(st.Frames, pu.FrameIn{Kind: "series", Series: []pu.SeriesIn{mk(prefix, next)}})
				next++
			}
		}
		if si == failing {
			st.Fail = "recv"
			st.FailAt = r.Intn(2)
		}
		in.Stores = append(in.Stores, st)
	}
	return in
}

func gen(r *rand.Rand, tier string, n int) []any {
	var out []any
	nTimeout := 0
	for i := 0; i < n; i++ {
		if r.Intn(40) == 0 {
			out = append(out, genStall(r))
			continue
		}
		in := pu.GenBase(r, tier == "thorough")
		in.Limit = 0
		in.Abort = r.Intn(2) == 0
		in.Disabled = r.Intn(8) == 0
		// store-sent warnings are rare here: the property is about failures
		if r.Intn(4) != 0 {
			for si := range in.Stores {
				var fs []pu.FrameIn
				for _, f := range in.Stores[si].Frames {
					if f.Kind != "warn" {
						fs = append(fs, f)
					}
				}
				in.Stores[si].Frames = fs
			}
		}
		// every subset of failing stores is reachable; at least one fails in 5/6 of the cases
		anyFail := false
		for si := range in.Stores {
			if r.Intn(3) != 0 {
				continue
			}
			s := &in.Stores[si]
			switch k := r.Intn(10); {
			case k < 3:
				s.Fail = "open"
			case k < 9 || nTimeout >= n/40+2:
				s.Fail = "recv"
			default:
				s.Fail = "timeout"
				nTimeout++
			}
			s.FailAt = r.Intn(len(s.Frames) + 1) // before the first frame ... after the last one
			if s.Fail != "timeout" {
				s.FailKind = common.Pick(r, "", "", "grpc", "canceled", "deadline", "ueof", "wrapueof", "wrapeof", "wrapeof")
			}
			anyFail = true
		}
		if !anyFail && r.Intn(6) != 0 && len(in.Stores) > 0 {
			s := &in.Stores[r.Intn(len(in.Stores))]
			s.Fail = "recv"
			s.FailAt = r.Intn(len(s.Frames) + 1)
		}
		out = append(out, in)
	}
	return out
}

func main() {
	common.Main(common.Prop{ID: "C06", Facts: facts, Gen: gen, Run: run, QuickN: 500, ThoroughN: 4000,
		Preamble: "Open Scope Z_scope.\n"})
}
