// C10: store gateway answers equal a direct TSDB read of the same blocks.
package main

import (
	"context"
	"encoding/json"
	"fmt"
	"hash/fnv"
	"io"
	"math/rand"
	"os"
	"path/filepath"
	"sort"
	"strings"
	"time"

	"github.com/go-kit/log"
	"github.com/prometheus/common/promslog"
	"github.com/prometheus/prometheus/model/labels"
	"github.com/prometheus/prometheus/storage"
	"github.com/prometheus/prometheus/tsdb"
	"github.com/prometheus/prometheus/tsdb/chunkenc"
	"github.com/prometheus/prometheus/tsdb/chunks"
	"github.com/prometheus/prometheus/tsdb/index"
	"github.com/thanos-io/objstore"

	"github.com/thanos-io/thanos/pkg/block"
	"github.com/thanos-io/thanos/pkg/block/metadata"
	"github.com/thanos-io/thanos/pkg/store"
	storecache "github.com/thanos-io/thanos/pkg/store/cache"
	"github.com/thanos-io/thanos/pkg/store/storepb"
	"github.com/thanos-io/thanos/zzverif/common"
	"github.com/thanos-io/thanos/zzverif/storegwutil"
)

// ---- tie T ---------------------------------------------------------------------

func facts(repo string, w io.Writer) error {
	s, err := common.ParseSrc(repo, "pkg/store/bucket.go")
	if err != nil {
		return err
	}
	// decodeSeriesForTime: the two chunk-selection tests
	cs, err := storegwutil.IfConds(s, "decodeSeriesForTime", "select")
	if err != nil {
		return err
	}
	if len(cs) != 2 {
		return fmt.Errorf("decodeSeriesForTime: expected 2 conditions on selectMint/selectMaxt, found %d", len(cs))
	}
	fmt.Fprintln(w, "(* pkg/store/bucket.go, decodeSeriesForTime: chunk selection tests, in source order *)")
	names := []string{"chunk_break_cond", "chunk_keep_cond"}
	params := []string{"(mint selectMaxt : Z)", "(maxt selectMint : Z)"}
	for i, c := range cs {
		e, err := s.TranslateExpr(c, nil, nil)
		if err != nil {
			return err
		}
		fmt.Fprintf(w, "(* %s *)\nDefinition %s %s : bool := %s.\n", s.ExprString(c), names[i], params[i], e)
	}
	// statement order inside toPostingGroup: the tests of the matcher, in source order
	evs, err := s.CallOrder("toPostingGroup")
	if err != nil {
		return err
	}
	var ifs []common.Event
	for _, e := range evs {
		if e.Kind == "if" && (strings.Contains(e.Text, "m.Type") || strings.Contains(e.Text, "m.Matches(\"\")") || strings.Contains(e.Text, "m.Value")) {
			ifs = append(ifs, e)
		}
	}
	fmt.Fprintln(w, "(* toPostingGroup: the tests on the matcher, in source order *)")
	fmt.Fprint(w, common.EventsCoq("to_posting_group_tests", ifs))
	return nil
}

// ---- input ---------------------------------------------------------------------

type seriesIn struct {
	Labels []string `json:"l"` // name, value, ...
	Start  int64    `json:"s"`
	Step   int64    `json:"st"`
	Count  int      `json:"n"`
}

type matcherIn struct {
	Type  string `json:"t"` // = != =~ !~
	Name  string `json:"n"`
	Value string `json:"v"`
}

type configIn struct {
	Lazy        bool    `json:"lazy"`
	MatchRatio  float64 `json:"match_ratio"`
	KeyRatio    float64 `json:"key_ratio"`
	BatchSize   int     `json:"batch"`
	Sampling    int     `json:"sampling"`
	IndexCache  bool    `json:"cache"`
	Repeat      int     `json:"repeat"` // how many times the query is sent (cache warm-up)
	MaxGap      uint64  `json:"max_gap"`
	EstSeries   uint64  `json:"est_series,omitempty"` // WithBlockEstimatedMaxSeriesFunc (0: from meta.json); 1 forces lazy marking
	DontResort  bool    `json:"-"`
	description string
}

type input struct {
	Kind     string      `json:"kind,omitempty"`     // "" (series query history) | part | lazy
	Ratio    [4]int64    `json:"ratio,omitempty"`    // lazy: series match ratio num/den, max key/series ratio num/den (dyadic, so float arithmetic is exact)
	EstSize  uint64      `json:"est_size,omitempty"` // lazy: estimated max series size (0: from meta.json)
	MaxGap   uint64      `json:"part_max_gap,omitempty"`
	Ranges   [][2]uint64 `json:"ranges,omitempty"`
	Series   []seriesIn  `json:"series"`
	Ext      []string    `json:"ext"`
	Matchers []matcherIn `json:"matchers"`
	Mint     int64       `json:"mint"`
	Maxt     int64       `json:"maxt"`
	History  [][2]int64  `json:"history,omitempty"` // time ranges queried one after the other on the same store (same matchers); empty: [[mint, maxt]]
	Configs  []configIn  `json:"configs"`
}

// ---- block ---------------------------------------------------------------------

type builtBlock struct {
	key      string
	dir      string
	blockDir string
	bkt      objstore.Bucket
	blk      *tsdb.Block
	series   []idxSeries
	lvals    map[string][]string
}

type chunkObs struct {
	Mint, Maxt int64
	Hash       uint64
}

type idxSeries struct {
	lset labels.Labels
	chks []chunkObs
}

var cached *builtBlock

func hashBytes(b []byte) uint64 {
	h := fnv.New64a()
	h.Write(b)
	return h.Sum64() >> 4 // keep it below 2^60
}

func buildBlock(in input) (*builtBlock, error) {
	kb, _ := json.Marshal(struct {
		S []seriesIn
		E []string
	}{in.Series, in.Ext})
	key := string(kb)
	if cached != nil && cached.key == key {
		return cached, nil
	}
	if cached != nil {
		cached.blk.Close()
		os.RemoveAll(cached.dir)
		cached = nil
	}
	ctx := context.Background()
	dir, err := os.MkdirTemp("", "c10-")
	if err != nil {
		return nil, err
	}
	headOpts := tsdb.DefaultHeadOptions()
	headOpts.ChunkDirRoot = filepath.Join(dir, "chunks")
	headOpts.ChunkRange = 10000000000
	h, err := tsdb.NewHead(nil, nil, nil, nil, headOpts, nil)
	if err != nil {
		return nil, err
	}
	var mint, maxt int64 = 1 << 62, -(1 << 62)
	for si, s := range in.Series {
		lset := labels.FromStrings(s.Labels...)
		app := h.Appender(ctx)
		t := s.Start
		for i := 0; i < s.Count; i++ {
			if _, err := app.Append(0, lset, t, float64((si*7+i*3)%101)); err != nil {
				return nil, fmt.Errorf("append: %w", err)
			}
			if t < mint {
				mint = t
			}
			if t > maxt {
				maxt = t
			}
			t += s.Step
		}
		if err := app.Commit(); err != nil {
			return nil, err
		}
	}
	c, err := tsdb.NewLeveledCompactor(ctx, nil, promslog.NewNopLogger(), []int64{maxt - mint + 1}, nil, nil)
	if err != nil {
		return nil, err
	}
	ids, err := c.Write(dir, h, mint, maxt+1, nil)
	if err != nil {
		return nil, err
	}
	h.Close()
	os.RemoveAll(headOpts.ChunkDirRoot)
	if len(ids) == 0 {
		return nil, fmt.Errorf("no block written")
	}
	bdir := filepath.Join(dir, ids[0].String())
	ext := labels.FromStrings(in.Ext...)
	if _, err := metadata.InjectThanos(log.NewNopLogger(), bdir, metadata.Thanos{
		Labels:     ext.Map(),
		Downsample: metadata.ThanosDownsample{Resolution: 0},
		Source:     metadata.TestSource,
		IndexStats: metadata.IndexStats{SeriesMaxSize: 64},
	}, nil); err != nil {
		return nil, err
	}
	os.Remove(filepath.Join(bdir, "tombstones"))
	bkt := objstore.NewInMemBucket()
	if err := block.Upload(ctx, log.NewNopLogger(), bkt, bdir, metadata.NoneFunc); err != nil {
		return nil, err
	}
	blk, err := tsdb.OpenBlock(nil, bdir, nil, nil)
	if err != nil {
		return nil, err
	}
	bb := &builtBlock{key: key, dir: dir, blockDir: bdir, bkt: bkt, blk: blk, lvals: map[string][]string{}}
	// read the whole index + chunk hashes (data for the model)
	ir, err := blk.Index()
	if err != nil {
		return nil, err
	}
	defer ir.Close()
	cr, err := blk.Chunks()
	if err != nil {
		return nil, err
	}
	defer cr.Close()
	k, v := index.AllPostingsKey()
	p, err := ir.Postings(ctx, k, v)
	if err != nil {
		return nil, err
	}
	var b labels.ScratchBuilder
	for p.Next() {
		var chks []chunks.Meta
		if err := ir.Series(p.At(), &b, &chks); err != nil {
			return nil, err
		}
		s := idxSeries{lset: b.Labels().Copy()}
		for _, m := range chks {
			ch, _, err := cr.ChunkOrIterable(m)
			if err != nil {
				return nil, err
			}
			s.chks = append(s.chks, chunkObs{m.MinTime, m.MaxTime, hashBytes(ch.Bytes())})
		}
		bb.series = append(bb.series, s)
		s.lset.Range(func(l labels.Label) {
			bb.lvals[l.Name] = append(bb.lvals[l.Name], l.Value)
		})
	}
	for n, vs := range bb.lvals {
		sort.Strings(vs)
		var d []string
		for i, x := range vs {
			if i == 0 || vs[i-1] != x {
				d = append(d, x)
			}
		}
		bb.lvals[n] = d
	}
	cached = bb
	return bb, nil
}

// ---- series server -----------------------------------------------------------------

type seriesServer struct {
	storepb.Store_SeriesServer
	ctx  context.Context
	resp []*storepb.Series
	warn []string
}

func (s *seriesServer) Send(r *storepb.SeriesResponse) error {
	if w := r.GetWarning(); w != "" {
		s.warn = append(s.warn, w)
	}
	if se := r.GetSeries(); se != nil {
		s.resp = append(s.resp, se)
	}
	return nil
}
func (s *seriesServer) Context() context.Context { return s.ctx }

type answer struct {
	Labels []string   `json:"labels"`
	Chunks []chunkObs `json:"chunks"`
}

func canon(as []answer) []answer {
	sort.Slice(as, func(i, j int) bool { return strings.Join(as[i].Labels, "\x00") < strings.Join(as[j].Labels, "\x00") })
	return as
}

func lsetStrings(l labels.Labels) []string {
	var out []string
	l.Range(func(x labels.Label) { out = append(out, x.Name, x.Value) })
	return out
}

func mtype(t string) (labels.MatchType, storepb.LabelMatcher_Type, error) {
	switch t {
	case "=":
		return labels.MatchEqual, storepb.LabelMatcher_EQ, nil
	case "!=":
		return labels.MatchNotEqual, storepb.LabelMatcher_NEQ, nil
	case "=~":
		return labels.MatchRegexp, storepb.LabelMatcher_RE, nil
	case "!~":
		return labels.MatchNotRegexp, storepb.LabelMatcher_NRE, nil
	}
	return 0, 0, fmt.Errorf("bad matcher type %q", t)
}

func runStore(bb *builtBlock, in input, cfg configIn, req *storepb.SeriesRequest, hist [][2]int64) ([][]answer, error) {
	ctx := context.Background()
	dir, err := os.MkdirTemp("", "c10-store-")
	if err != nil {
		return nil, err
	}
	defer os.RemoveAll(dir)
	insBkt := objstore.WithNoopInstr(bb.bkt)
	lister := block.NewConcurrentLister(log.NewNopLogger(), insBkt)
	fetcher, err := block.NewMetaFetcher(log.NewNopLogger(), 2, insBkt, lister, dir, nil, nil)
	if err != nil {
		return nil, err
	}
	opts := []store.BucketStoreOption{
		store.WithLazyExpandedPostings(cfg.Lazy),
		store.WithSeriesBatchSize(cfg.BatchSize),
	}
	if cfg.Lazy {
		opts = append(opts, store.WithSeriesMatchRatio(cfg.MatchRatio), store.WithPostingGroupMaxKeySeriesRatio(cfg.KeyRatio))
	}
	if cfg.EstSeries > 0 {
		est := cfg.EstSeries
		opts = append(opts, store.WithBlockEstimatedMaxSeriesFunc(func(_ metadata.Meta) uint64 { return est }))
	}
	if cfg.IndexCache {
		ic, err := storecache.NewInMemoryIndexCacheWithConfig(log.NewNopLogger(), nil, nil, storecache.InMemoryIndexCacheConfig{MaxSize: 1 << 24, MaxItemSize: 1 << 20})
		if err != nil {
			return nil, err
		}
		opts = append(opts, store.WithIndexCache(ic))
	}
	maxGap := cfg.MaxGap
	st, err := store.NewBucketStore(insBkt, fetcher, dir,
		store.NewChunksLimiterFactory(0), store.NewSeriesLimiterFactory(0), store.NewBytesLimiterFactory(0),
		store.NewGapBasedPartitioner(maxGap), 2, cfg.Sampling, true, false, time.Minute, opts...)
	if err != nil {
		return nil, err
	}
	defer st.Close()
	if err := st.SyncBlocks(ctx); err != nil {
		return nil, err
	}
	var out [][]answer
	for _, tr := range hist {
		srv := &seriesServer{ctx: ctx}
		r := *req
		r.MinTime, r.MaxTime = tr[0], tr[1]
		if err := st.Series(&r, srv); err != nil {
			return nil, fmt.Errorf("Series: %w", err)
		}
		var as []answer
		for _, se := range srv.resp {
			a := answer{}
			for _, l := range se.Labels {
				a.Labels = append(a.Labels, l.Name, l.Value)
			}
			for _, c := range se.Chunks {
				if c.Raw == nil {
					return nil, fmt.Errorf("chunk without raw data")
				}
				a.Chunks = append(a.Chunks, chunkObs{c.MinTime, c.MaxTime, hashBytes(c.Raw.Data)})
			}
			as = append(as, a)
		}
		out = append(out, canon(as))
	}
	return out, nil
}

func runOracle(bb *builtBlock, ms []*labels.Matcher, ext labels.Labels, mint, maxt int64) ([]answer, error) {
	// matchers on external labels are decided against the block's external labels
	var rest []*labels.Matcher
	for _, m := range ms {
		if v := ext.Get(m.Name); v != "" {
			if !m.Matches(v) {
				return nil, nil
			}
			continue
		}
		rest = append(rest, m)
	}
	// The TSDB chunk querier trims chunks to the queried range; the property speaks about whole
	// chunks overlapping the range, so read everything and keep the chunks that overlap [mint, maxt].
	q, err := tsdb.NewBlockChunkQuerier(bb.blk, -(1 << 62), 1<<62)
	if err != nil {
		return nil, err
	}
	defer q.Close()
	ss := q.Select(context.Background(), true, nil, rest...)
	var out []answer
	for ss.Next() {
		s := ss.At()
		b := labels.NewBuilder(s.Labels())
		ext.Range(func(l labels.Label) { b.Set(l.Name, l.Value) })
		a := answer{Labels: lsetStrings(b.Labels())}
		it := s.Iterator(nil)
		for it.Next() {
			m := it.At()
			if m.MaxTime < mint || m.MinTime > maxt {
				continue
			}
			a.Chunks = append(a.Chunks, chunkObs{m.MinTime, m.MaxTime, hashBytes(m.Chunk.Bytes())})
		}
		if it.Err() != nil {
			return nil, it.Err()
		}
		if len(a.Chunks) > 0 {
			out = append(out, a)
		}
	}
	if ss.Err() != nil {
		return nil, ss.Err()
	}
	return canon(out), nil
}

// ---- Coq printers -------------------------------------------------------------------

func lsCoq(kv []string) string {
	var out []string
	for i := 0; i+1 < len(kv); i += 2 {
		out = append(out, common.Pair(common.Bytes(kv[i]), common.Bytes(kv[i+1])))
	}
	return common.List(out)
}

func chunksCoq(cs []chunkObs) string {
	var out []string
	for _, c := range cs {
		out = append(out, common.Tuple(common.Z(c.Mint), common.Z(c.Maxt), common.ZU(c.Hash)))
	}
	return common.List(out)
}

func answersCoq(as []answer) string {
	var out []string
	for _, a := range as {
		out = append(out, common.Pair(lsCoq(a.Labels), chunksCoq(a.Chunks)))
	}
	return common.List(out)
}

func strListCoq(xs []string) string {
	out := make([]string, len(xs))
	for i, x := range xs {
		out[i] = common.Bytes(x)
	}
	return common.List(out)
}

func run(raw json.RawMessage) (common.Case, error) {
	var in input
	if err := json.Unmarshal(raw, &in); err != nil {
		return common.Case{}, err
	}
	var c common.Case
	if in.Kind == "part" {
		return runPart(in)
	}
	if in.Kind == "lazy" {
		return runLazy(in)
	}
	bb, err := buildBlock(in)
	if err != nil {
		return c, err
	}
	ext := labels.FromStrings(in.Ext...)
	var pms []*labels.Matcher
	req := &storepb.SeriesRequest{MaxResolutionWindow: 0, Aggregates: []storepb.Aggr{storepb.Aggr_RAW}}
	var msCoq []string
	nonExt := 0
	for _, m := range in.Matchers {
		pt, st, err := mtype(m.Type)
		if err != nil {
			return c, err
		}
		pm, err := labels.NewMatcher(pt, m.Name, m.Value)
		if err != nil {
			return c, err
		}
		pms = append(pms, pm)
		req.Matchers = append(req.Matchers, storepb.LabelMatcher{Type: st, Name: m.Name, Value: m.Value})
		if ext.Get(m.Name) != "" {
			continue // decided by the block's external labels, not part of the model's matcher list
		}
		nonExt++
		// truth table of the matcher on the label's values in this block and on ""
		var matched []string
		for _, v := range append([]string{""}, bb.lvals[m.Name]...) {
			if pm.Matches(v) {
				matched = append(matched, v)
			}
		}
		sets := pm.SetMatches()
		ctor := map[string]string{"=": "MEq", "!=": "MNeq", "=~": "MRe", "!~": "MNre"}[m.Type]
		msCoq = append(msCoq, common.App("mk_matcher", ctor, common.Bytes(m.Name), common.Bytes(m.Value), strListCoq(sets), strListCoq(matched)))
	}
	if nonExt == 0 {
		return c, fmt.Errorf("input needs at least one matcher on a non-external label")
	}
	extOK := true
	for _, pm := range pms {
		if v := ext.Get(pm.Name); v != "" && !pm.Matches(v) {
			extOK = false
		}
	}
	base := in.History
	if len(base) == 0 {
		base = [][2]int64{{in.Mint, in.Maxt}}
	}
	oracles := map[[2]int64][]answer{}
	var oracleCoq []string
	maxOracle, minOracle := 0, 1<<30
	for _, tr := range base {
		if _, ok := oracles[tr]; ok {
			continue
		}
		o, err := runOracle(bb, pms, ext, tr[0], tr[1])
		if err != nil {
			return c, err
		}
		oracles[tr] = o
		oracleCoq = append(oracleCoq, common.Tuple(common.Z(tr[0]), common.Z(tr[1]), answersCoq(o)))
		if len(o) > maxOracle {
			maxOracle = len(o)
		}
		if len(o) < minOracle {
			minOracle = len(o)
		}
	}
	var impls []string
	type cfgObs struct {
		Config configIn
		Range  [2]int64
		Series int
		Differ bool
	}
	var obs []cfgObs
	for _, cfg := range in.Configs {
		hist := base
		for k := 1; k < cfg.Repeat; k++ { // old-style inputs: the whole history again on the warm store
			hist = append(append([][2]int64{}, hist...), base...)
		}
		outs, err := runStore(bb, in, cfg, req, hist)
		if err != nil {
			return c, err
		}
		var steps []string
		for k, as := range outs {
			tr := hist[k]
			steps = append(steps, common.Tuple(common.Z(tr[0]), common.Z(tr[1]), answersCoq(as)))
			oracle := oracles[tr]
			differ := fmt.Sprint(as) != fmt.Sprint(oracle)
			if differ && c.GoPred == "" {
				c.GoPred = fmt.Sprintf("store gateway answer differs from the TSDB read of the same range (config %+v, query #%d of the history %v, range %v): %d vs %d series", cfg, k+1, hist, tr, len(as), len(oracle))
				c.Sig = "series-differ"
				if k > 0 {
					c.Sig = "series-differ-warm"
				}
			}
			obs = append(obs, cfgObs{cfg, tr, len(as), differ})
		}
		impls = append(impls, common.List(steps))
	}
	var idx []string
	for _, s := range bb.series {
		idx = append(idx, common.Pair(lsCoq(lsetStrings(s.lset)), chunksCoq(s.chks)))
	}
	c.Coq = common.App("CSel", common.List(idx), lsCoq(in.Ext), common.Bool(extOK), common.List(msCoq),
		common.List(impls), common.List(oracleCoq))
	if len(obs) > 12 {
		obs = obs[:12]
	}
	c.Obs = map[string]any{"oracle_series_max": maxOracle, "runs": obs}
	c.Nontrivial = maxOracle >= 1 && maxOracle < len(bb.series) && len(in.Matchers) >= 2
	hk := "single"
	if len(base) > 1 {
		hk = "history"
		if minOracle < maxOracle {
			hk = "history-varying"
		}
	}
	c.Class = fmt.Sprintf("matchers=%d/selected=%s/%s", len(in.Matchers), selBucket(maxOracle, len(bb.series)), hk)
	return c, nil
}

func newStore(bb *builtBlock, cfg configIn, dir string) (*store.BucketStore, error) {
	insBkt := objstore.WithNoopInstr(bb.bkt)
	lister := block.NewConcurrentLister(log.NewNopLogger(), insBkt)
	fetcher, err := block.NewMetaFetcher(log.NewNopLogger(), 2, insBkt, lister, dir, nil, nil)
	if err != nil {
		return nil, err
	}
	opts := []store.BucketStoreOption{
		store.WithLazyExpandedPostings(cfg.Lazy),
		store.WithSeriesBatchSize(cfg.BatchSize),
	}
	if cfg.Lazy {
		opts = append(opts, store.WithSeriesMatchRatio(cfg.MatchRatio), store.WithPostingGroupMaxKeySeriesRatio(cfg.KeyRatio))
	}
	if cfg.EstSeries > 0 {
		est := cfg.EstSeries
		opts = append(opts, store.WithBlockEstimatedMaxSeriesFunc(func(_ metadata.Meta) uint64 { return est }))
	}
	if cfg.IndexCache {
		ic, err := storecache.NewInMemoryIndexCacheWithConfig(log.NewNopLogger(), nil, nil, storecache.InMemoryIndexCacheConfig{MaxSize: 1 << 24, MaxItemSize: 1 << 20})
		if err != nil {
			return nil, err
		}
		opts = append(opts, store.WithIndexCache(ic))
	}
	st, err := store.NewBucketStore(insBkt, fetcher, dir,
		store.NewChunksLimiterFactory(0), store.NewSeriesLimiterFactory(0), store.NewBytesLimiterFactory(0),
		store.NewGapBasedPartitioner(cfg.MaxGap), 2, cfg.Sampling, true, false, time.Minute, opts...)
	if err != nil {
		return nil, err
	}
	if err := st.SyncBlocks(context.Background()); err != nil {
		st.Close()
		return nil, err
	}
	return st, nil
}

func matcherCoq(bb *builtBlock, m matcherIn, pm *labels.Matcher) string {
	var matched []string
	for _, v := range append([]string{""}, bb.lvals[m.Name]...) {
		if pm.Matches(v) {
			matched = append(matched, v)
		}
	}
	ctor := map[string]string{"=": "MEq", "!=": "MNeq", "=~": "MRe", "!~": "MNre"}[m.Type]
	return common.App("mk_matcher", ctor, common.Bytes(m.Name), common.Bytes(m.Value), strListCoq(pm.SetMatches()), strListCoq(matched))
}

// the lazy-marking heuristic: real matchersToPostingGroups and the real marking made by
// ExpandedPostings (through the verif export shim) against the model
func runLazy(in input) (common.Case, error) {
	var c common.Case
	c.Class = "lazy"
	bb, err := buildBlock(in)
	if err != nil {
		return c, err
	}
	if in.Ratio[1] <= 0 || in.Ratio[3] <= 0 {
		return c, fmt.Errorf("ratio denominators must be positive")
	}
	cfg := configIn{Lazy: true, BatchSize: 10000, Sampling: 32, MaxGap: 512 * 1024, EstSeries: in.EstSize,
		MatchRatio: float64(in.Ratio[0]) / float64(in.Ratio[1]), KeyRatio: float64(in.Ratio[2]) / float64(in.Ratio[3])}
	dir, err := os.MkdirTemp("", "c10-store-")
	if err != nil {
		return c, err
	}
	defer os.RemoveAll(dir)
	st, err := newStore(bb, cfg, dir)
	if err != nil {
		return c, err
	}
	defer st.Close()
	ext := labels.FromStrings(in.Ext...)
	var pms []*labels.Matcher
	var msCoq []string
	for _, m := range in.Matchers {
		pt, _, err := mtype(m.Type)
		if err != nil {
			return c, err
		}
		pm, err := labels.NewMatcher(pt, m.Name, m.Value)
		if err != nil {
			return c, err
		}
		if ext.Get(m.Name) != "" {
			return c, fmt.Errorf("lazy inputs must not have matchers on external labels")
		}
		pms = append(pms, pm)
		msCoq = append(msCoq, matcherCoq(bb, m, pm))
	}
	ctx := context.Background()
	groups, ok, err := st.VerifC10PostingGroups(ctx, pms)
	if err != nil {
		return c, err
	}
	lazyNames, postings, size, err := st.VerifC10LazyMatchers(ctx, pms)
	if err != nil {
		return c, err
	}
	gsCoq := common.None
	addEager := !ok
	if ok {
		var gl []string
		anyAdd := false
		for _, g := range groups {
			gl = append(gl, fmt.Sprintf("{| g_name := %s; g_all := %s; g_add := %s; g_rem := %s |}", common.Bytes(g.Name), common.Bool(g.AddAll), strListCoq(g.AddKeys), strListCoq(g.RemoveKeys)))
			isLazy := false
			for _, n := range lazyNames {
				isLazy = isLazy || n == g.Name
			}
			if len(g.AddKeys) > 0 {
				anyAdd = true
				if !isLazy {
					addEager = true
				}
			}
		}
		if !anyAdd {
			addEager = true
		}
		gsCoq = common.Some(common.List(gl))
	}
	if !addEager {
		c.GoPred, c.Sig = "every posting group with add keys was marked lazy", "lazy-marks-all-add-groups"
	}
	var idx []string
	for _, s := range bb.series {
		idx = append(idx, common.Pair(lsCoq(lsetStrings(s.lset)), chunksCoq(s.chks)))
	}
	c.Coq = common.App("CLazy", common.List(idx), common.List(msCoq), common.Z(int64(size)),
		common.Z(in.Ratio[0]), common.Z(in.Ratio[1]), common.Z(in.Ratio[2]), common.Z(in.Ratio[3]),
		gsCoq, strListCoq(lazyNames), common.Z(int64(postings)))
	c.Obs = map[string]any{"groups": groups, "lazy": lazyNames, "postings": postings, "series_size": size}
	c.Nontrivial = len(lazyNames) > 0
	c.Class = fmt.Sprintf("lazy/groups=%d/marked=%d", len(groups), len(lazyNames))
	return c, nil
}

func genLazy(r *rand.Rand, series []seriesIn, ext []string) input {
	in := input{Kind: "lazy", Series: series, Ext: ext}
	for {
		in.Matchers = nil
		if r.Intn(10) < 3 {
			for _, m := range genMatchers(r, series, ext) {
				if m.Name != ext[0] {
					in.Matchers = append(in.Matchers, m)
				}
			}
		} else { // matchers that give several posting groups with existing keys
			for _, n := range []string{"__name__", "a", "b", "c"} {
				if r.Intn(3) == 0 {
					continue
				}
				switch r.Intn(7) {
				case 0:
					in.Matchers = append(in.Matchers, matcherIn{Type: "!=", Name: n, Value: ""})
				case 1:
					in.Matchers = append(in.Matchers, matcherIn{Type: "=~", Name: n, Value: ".+"})
				case 2:
					in.Matchers = append(in.Matchers, matcherIn{Type: "=~", Name: n, Value: map[string]string{"__name__": "(m1|up)", "a": "a0|a1|a2", "b": "[xyz].*", "c": "1|2"}[n]})
				case 3:
					in.Matchers = append(in.Matchers, matcherIn{Type: "!=", Name: n, Value: map[string]string{"__name__": "up", "a": "a0", "b": "x0", "c": "1"}[n]})
				case 4:
					in.Matchers = append(in.Matchers, matcherIn{Type: "!~", Name: n, Value: map[string]string{"__name__": "m.*", "a": "a1|a3", "b": "y.*", "c": "10"}[n]})
				case 5:
					in.Matchers = append(in.Matchers, matcherIn{Type: "=~", Name: n, Value: map[string]string{"__name__": "m.*|up", "a": "a.*", "b": ".*1", "c": ".*"}[n]})
				default:
					in.Matchers = append(in.Matchers, matcherIn{Type: "=", Name: n, Value: map[string]string{"__name__": "up", "a": "a0", "b": "x0", "c": "1"}[n]})
				}
			}
		}
		if len(in.Matchers) > 0 {
			break
		}
	}
	mr := common.Pick(r, [2]int64{1, 2}, [2]int64{1, 4}, [2]int64{1, 1}, [2]int64{1, 8}, [2]int64{3, 4}, [2]int64{1, 1024})
	kr := common.Pick(r, [2]int64{0, 1}, [2]int64{0, 1}, [2]int64{1, 2}, [2]int64{2, 1}, [2]int64{100, 1}, [2]int64{1, 4}, [2]int64{1, 1}, [2]int64{1, 1}, [2]int64{3, 1}, [2]int64{3, 2})
	in.Ratio = [4]int64{mr[0], mr[1], kr[0], kr[1]}
	in.EstSize = common.Pick(r, uint64(0), 1, 1, 1, 1, 2, 2, 4, 8, 1000)
	return in
}

// gapBasedPartitioner.Partition on sorted ranges
func runPart(in input) (common.Case, error) {
	var c common.Case
	c.Class = "part"
	parts := store.NewGapBasedPartitioner(in.MaxGap).Partition(len(in.Ranges), func(i int) (uint64, uint64) {
		return in.Ranges[i][0], in.Ranges[i][1]
	})
	var rs, ps []string
	for _, r := range in.Ranges {
		rs = append(rs, common.Pair(common.ZU(r[0]), common.ZU(r[1])))
	}
	next := 0
	for _, p := range parts {
		ps = append(ps, common.Tuple(common.ZU(p.Start), common.ZU(p.End), common.Nat(p.ElemRng[0]), common.Nat(p.ElemRng[1])))
		if p.ElemRng[0] != next || p.ElemRng[1] <= p.ElemRng[0] {
			c.GoPred, c.Sig = "element ranges of the parts are not contiguous", "part-not-contiguous"
		}
		for i := p.ElemRng[0]; i < p.ElemRng[1] && i < len(in.Ranges); i++ {
			if in.Ranges[i][0] < p.Start || in.Ranges[i][1] > p.End {
				c.GoPred, c.Sig = fmt.Sprintf("range %d is not inside its part", i), "part-not-covering"
			}
		}
		next = p.ElemRng[1]
	}
	if next != len(in.Ranges) && c.GoPred == "" {
		c.GoPred, c.Sig = "parts do not cover all ranges", "part-not-covering"
	}
	c.Coq = common.App("CPart", common.ZU(in.MaxGap), common.List(rs), common.List(ps))
	c.Obs = parts
	c.Nontrivial = len(parts) >= 2 && len(parts) < len(in.Ranges)
	return c, nil
}

func genPart(r *rand.Rand) input {
	in := input{Kind: "part", MaxGap: common.Pick(r, uint64(0), 1, 5, 50, 1000)}
	n := r.Intn(25)
	var cur uint64
	for i := 0; i < n; i++ {
		cur += uint64(r.Intn(int(in.MaxGap)*2 + 3))
		l := uint64(r.Intn(60))
		in.Ranges = append(in.Ranges, [2]uint64{cur, cur + l})
	}
	return in
}

func selBucket(n, total int) string {
	switch {
	case n == 0:
		return "none"
	case n == total:
		return "all"
	}
	return "some"
}

// ---- generator ------------------------------------------------------------------------

func genBlock(r *rand.Rand, tier string) ([]seriesIn, []string) {
	nSeries := common.Pick(r, 3, 6, 10, 16)
	if tier == "thorough" {
		nSeries = common.Pick(r, 6, 16, 40, 80)
	}
	cardA := 1 + r.Intn(4)
	cardB := 1 + r.Intn(6)
	seen := map[string]bool{}
	var out []seriesIn
	for len(out) < nSeries {
		var ls []string
		ls = append(ls, "__name__", common.Pick(r, "m1", "m2", "up"))
		if r.Intn(5) > 0 {
			ls = append(ls, "a", fmt.Sprintf("a%d", r.Intn(cardA)))
		}
		if r.Intn(4) > 0 {
			ls = append(ls, "b", common.Pick(r, "x", "y", "zz", "x1", "y-2", "")[0:]+fmt.Sprint(r.Intn(cardB)))
		}
		if r.Intn(3) == 0 {
			ls = append(ls, "c", common.Pick(r, "1", "2", "10"))
		}
		k := strings.Join(ls, ",")
		if seen[k] {
			if len(seen) > 200 {
				break
			}
			ls = append(ls, "id", fmt.Sprint(len(out)))
			k = strings.Join(ls, ",")
		}
		seen[k] = true
		s := seriesIn{Labels: ls}
		switch r.Intn(4) {
		case 0: // dense, several chunks
			s.Start, s.Step, s.Count = 0, 10, 130+r.Intn(250)
		case 1: // sparse
			s.Start, s.Step, s.Count = int64(r.Intn(2000)), 500, 1+r.Intn(5)
		case 2: // late
			s.Start, s.Step, s.Count = 2000+int64(r.Intn(1000)), 7, 20+r.Intn(200)
		default:
			s.Start, s.Step, s.Count = int64(r.Intn(500)), 15, 1+r.Intn(140)
		}
		out = append(out, s)
	}
	ext := []string{"ext1", "v1"}
	if r.Intn(3) == 0 {
		ext = append(ext, "region", "eu")
	}
	return out, ext
}

func genMatchers(r *rand.Rand, series []seriesIn, ext []string) []matcherIn {
	vals := map[string][]string{}
	for _, s := range series {
		for i := 0; i+1 < len(s.Labels); i += 2 {
			vals[s.Labels[i]] = append(vals[s.Labels[i]], s.Labels[i+1])
		}
	}
	names := []string{"__name__", "__name__", "a", "a", "a", "b", "b", "b", "c", "id", "nolabel"}
	n := common.Pick(r, 1, 1, 1, 2, 2, 3)
	var ms []matcherIn
	for len(ms) < n {
		name := names[r.Intn(len(names))]
		vs := vals[name]
		pick := func() string {
			if len(vs) == 0 || r.Intn(10) == 0 {
				return common.Pick(r, "nope", "a9", "x")
			}
			return vs[r.Intn(len(vs))]
		}
		var m matcherIn
		m.Name = name
		k := r.Intn(22)
		if k >= 16 { // extra weight on matchers that usually keep many series
			k = []int{1, 3, 4, 6, 8, 13}[k-16]
		}
		switch k {
		case 0:
			m.Type, m.Value = "=", pick()
		case 1:
			m.Type, m.Value = "!=", pick()
		case 2:
			m.Type, m.Value = "=~", pick()+"|"+pick()
		case 3:
			m.Type, m.Value = "!~", pick()+"|"+pick()
		case 4:
			m.Type, m.Value = "=", ""
		case 5:
			m.Type, m.Value = "!=", ""
		case 6:
			m.Type, m.Value = "=~", ".*"
		case 7:
			m.Type, m.Value = "=~", ".+"
		case 8:
			m.Type, m.Value = "!~", ".+"
		case 9:
			m.Type, m.Value = "!~", ".*"
		case 10:
			m.Type, m.Value = "=~", ""
		case 11:
			m.Type, m.Value = "!~", ""
		case 12:
			m.Type, m.Value = "=~", pick()[:1]+".*"
		case 13:
			m.Type, m.Value = "!~", pick()[:1]+".+"
		case 14:
			m.Type, m.Value = "=~", pick()+"|"
		default:
			m.Type, m.Value = "=~", "("+pick()+"|"+pick()+"|"+pick()+")"
		}
		ms = append(ms, m)
	}
	if r.Intn(3) == 0 { // the same label name twice
		ms = append(ms, matcherIn{Type: common.Pick(r, "!=", "=~", "!~", "="), Name: ms[0].Name, Value: func() string {
			vs := vals[ms[0].Name]
			if len(vs) == 0 {
				return "q"
			}
			return vs[r.Intn(len(vs))]
		}()})
	}
	if r.Intn(6) == 0 { // a matcher on an external label
		ms = append(ms, matcherIn{Type: common.Pick(r, "=", "=", "!=", "=~"), Name: ext[0], Value: common.Pick(r, ext[1], ext[1], "other")})
	}
	return ms
}

func genConfigs(r *rand.Rand) []configIn {
	base := configIn{BatchSize: 10000, Sampling: 32, Repeat: 1, MaxGap: 512 * 1024}
	var out []configIn
	out = append(out, base) // eager, no index cache
	c := base               // eager, index cache, small batches
	c.IndexCache = true
	c.Sampling = common.Pick(r, 1, 1, 1, 2, 3, 64) // index-header sampling rate 1 (every value in memory) is the common case here
	c.BatchSize = common.Pick(r, 1, 2, 3, 7)
	c.MaxGap = common.Pick(r, uint64(0), 1, 100, 512*1024)
	out = append(out, c)
	c = base // lazy postings that really trigger (tiny series size estimate), index cache
	c.Lazy, c.IndexCache, c.EstSeries = true, true, 1
	c.Sampling = common.Pick(r, 32, 1, 1, 2, 5)
	c.MatchRatio = common.Pick(r, 0.05, 0.05, 0.5, 1.0)
	c.KeyRatio = common.Pick(r, 0, 0, 0.5, 100)
	c.BatchSize = common.Pick(r, 1, 4, 10000)
	out = append(out, c)
	if r.Intn(2) == 0 { // lazy with the block's own estimate, extreme ratios, cache or not
		c = base
		c.Lazy = true
		c.MatchRatio = common.Pick(r, 0.000001, 0.05, 1.0)
		c.KeyRatio = common.Pick(r, 0, 0.5, 100)
		c.IndexCache = r.Intn(2) == 0
		c.EstSeries = common.Pick(r, uint64(0), 0, 8)
		c.BatchSize = common.Pick(r, 1, 4, 10000)
		out = append(out, c)
	}
	return out
}

// one time range; kinds as before
func genRange(r *rand.Rand, series []seriesIn) [2]int64 {
	var mint, maxt int64
	tk := r.Intn(9)
	if tk >= 6 { // more weight on ranges that contain data
		tk = []int{0, 0, 4}[tk-6]
	}
	switch tk {
	case 5: // exactly on a chunk boundary of some series
		sp := series[r.Intn(len(series))]
		n := sp.Count
		if n > 120 {
			n = 120
		}
		first, lastOfFirst := sp.Start, sp.Start+int64(n-1)*sp.Step
		switch r.Intn(4) {
		case 0:
			mint, maxt = lastOfFirst, lastOfFirst+int64(r.Intn(3))*sp.Step
		case 1:
			mint, maxt = first-int64(r.Intn(30)), first
		case 2:
			mint, maxt = lastOfFirst+1, lastOfFirst+sp.Step
		default:
			mint, maxt = lastOfFirst+sp.Step, lastOfFirst+sp.Step
		}
	case 0:
		mint, maxt = -1<<40, 1<<40
	case 1:
		mint, maxt = 0, int64(r.Intn(1500))
	case 2:
		mint = int64(r.Intn(3000))
		maxt = mint + int64(r.Intn(50))
	case 3:
		mint = 1190 + int64(r.Intn(20)) // around a chunk boundary of dense series
		maxt = mint + int64(r.Intn(20))
	default:
		mint = int64(r.Intn(4000))
		maxt = mint + int64(r.Intn(3000))
	}
	return [2]int64{mint, maxt}
}

// a narrow window inside the data of one series (other, sparse series have no chunk there)
func genNarrow(r *rand.Rand, series []seriesIn) [2]int64 {
	sp := series[r.Intn(len(series))]
	t := sp.Start + int64(r.Intn(sp.Count))*sp.Step
	return [2]int64{t - int64(r.Intn(5)), t + int64(r.Intn(30))}
}

func genHistory(r *rand.Rand, series []seriesIn) [][2]int64 {
	wide := [2]int64{-1 << 40, 1 << 40}
	switch r.Intn(8) {
	case 0:
		return [][2]int64{genRange(r, series)}
	case 1:
		x := genRange(r, series)
		return [][2]int64{x, x}
	case 2, 3:
		return [][2]int64{genNarrow(r, series), wide}
	case 4:
		return [][2]int64{wide, genNarrow(r, series)}
	case 5:
		return [][2]int64{genNarrow(r, series), genNarrow(r, series), wide, genRange(r, series)}
	case 6:
		return [][2]int64{genNarrow(r, series), genRange(r, series), wide}
	default:
		return [][2]int64{genRange(r, series), genRange(r, series), genRange(r, series)}
	}
}

func gen(r *rand.Rand, tier string, n int) []any {
	var out []any
	for len(out) < n {
		if len(out) < n {
			out = append(out, genPart(r))
		}
		series, ext := genBlock(r, tier)
		for q := 0; q < 2 && len(out) < n; q++ {
			out = append(out, genLazy(r, series, ext))
		}
		perBlock := 6
		for q := 0; q < perBlock && len(out) < n; q++ {
			in := input{Series: series, Ext: ext}
			in.Matchers = genMatchers(r, series, ext)
			broad := q == 0 || r.Intn(5) == 0
			if broad {
				// two broad add-type matchers on different labels: several posting groups with many
				// candidates, so that lazy expansion has something to mark and to re-check
				names := []string{"__name__", "a", "b"}
				r.Shuffle(len(names), func(i, j int) { names[i], names[j] = names[j], names[i] })
				in.Matchers = nil
				for _, n := range names[:2] {
					switch r.Intn(4) {
					case 0:
						in.Matchers = append(in.Matchers, matcherIn{Type: "!=", Name: n, Value: ""})
					case 1:
						in.Matchers = append(in.Matchers, matcherIn{Type: "=~", Name: n, Value: ".+"})
					case 2:
						in.Matchers = append(in.Matchers, matcherIn{Type: "=~", Name: n, Value: map[string]string{"__name__": "(m1|up|m2)", "a": "a.*", "b": "[xyz].*"}[n]})
					default:
						in.Matchers = append(in.Matchers, matcherIn{Type: "!~", Name: n, Value: "nope|"})
					}
				}
				if r.Intn(3) == 0 {
					in.Matchers = append(in.Matchers, matcherIn{Type: "!=", Name: names[2], Value: "zzz"})
				}
			}
			hasNonExt := false
			for _, m := range in.Matchers {
				if m.Name != ext[0] {
					hasNonExt = true
				}
			}
			if !hasNonExt {
				continue
			}
			in.History = genHistory(r, series)
			if broad {
				wide := [2]int64{-1 << 40, 1 << 40}
				in.History = [][2]int64{genNarrow(r, series), wide}
				if r.Intn(2) == 0 {
					in.History = [][2]int64{genNarrow(r, series), genNarrow(r, series), wide, genNarrow(r, series)}
				}
			}
			in.Mint, in.Maxt = in.History[0][0], in.History[0][1]
			in.Configs = genConfigs(r)
			out = append(out, in)
		}
	}
	return out
}

var _ = storage.SeriesRef(0)
var _ = chunkenc.EncXOR

func main() {
	common.Main(common.Prop{ID: "C10", Facts: facts, Gen: gen, Run: run, QuickN: 150, ThoroughN: 2000,
		Preamble: "Open Scope Z_scope.\n"})
}
