// Package proxyutil is shared by the proxy-property harnesses (C03, C06): JSON
// input types for scripted stores, in-process fake store.Client implementations
// that stream the scripted frames (with optional failure points), a recording
// Store_SeriesServer, and printers of inputs/outputs as terms of the Coq model
// Lib/Proxy_Model.v instantiated in Model/C03.v.
package proxyutil

import (
	"context"
	"errors"
	"fmt"
	"io"
	"math"
	"runtime"
	"sort"
	"strings"
	"sync"
	"time"

	"github.com/cespare/xxhash/v2"
	"github.com/prometheus/prometheus/model/labels"
	"google.golang.org/grpc"
	"google.golang.org/grpc/codes"
	"google.golang.org/grpc/status"

	"github.com/prometheus/prometheus/storage"

	"github.com/thanos-io/thanos/pkg/component"
	"github.com/thanos-io/thanos/pkg/dedup"
	"github.com/thanos-io/thanos/pkg/query"
	"github.com/thanos-io/thanos/pkg/store"
	"github.com/thanos-io/thanos/pkg/store/labelpb"
	"github.com/thanos-io/thanos/pkg/store/storepb"
	storetestutil "github.com/thanos-io/thanos/pkg/store/storepb/testutil"
	"github.com/thanos-io/thanos/zzverif/common"
)

type Lbl [2]string

// FieldIn is one *storepb.Chunk of an AggrChunk. Hash 0 = not set (the proxy hashes Data itself).
type FieldIn struct {
	Type int    `json:"type"`
	Data []byte `json:"data"`
	Hash uint64 `json:"hash"`
}

// ChunkIn: Fields in the order Raw, Count, Sum, Min, Max, Counter.
type ChunkIn struct {
	Min    int64       `json:"min"`
	Max    int64       `json:"max"`
	Fields [6]*FieldIn `json:"fields"`
}

type SeriesIn struct {
	Labels []Lbl     `json:"labels"`
	Chunks []ChunkIn `json:"chunks"`
}

// FrameIn: kind series (one entry in Series), batch, warn.
type FrameIn struct {
	Kind   string     `json:"kind"`
	Series []SeriesIn `json:"series,omitempty"`
	Warn   string     `json:"warn,omitempty"`
}

type StoreIn struct {
	Name     string    `json:"name"`
	Supports bool      `json:"supports"` // SupportsWithoutReplicaLabels
	Frames   []FrameIn `json:"frames"`
	// failure script (C06): "" none | "open" Series() fails | "recv" Recv fails after FailAt frames |
	// "timeout" Recv blocks after FailAt frames until the per-frame timeout cancels the stream
	Fail   string `json:"fail,omitempty"`
	FailAt int    `json:"fail_at,omitempty"`
	// FailKind: the error value an "open"/"recv" failure returns: "" plain error | "grpc" status error |
	// "canceled" context.Canceled | "deadline" context.DeadlineExceeded | "ueof" io.ErrUnexpectedEOF |
	// "wrapueof" an error wrapping io.ErrUnexpectedEOF | "wrapeof" an error that WRAPS io.EOF
	// (e.g. net/http `Post "...": EOF` as PrometheusStore.Series wraps it)
	FailKind string `json:"fail_kind,omitempty"`
}

type Input struct {
	Lazy  bool     `json:"lazy"`
	Buf   int      `json:"buf"`
	WRL   []string `json:"wrl"`
	Limit int64    `json:"limit"`
	Batch int64    `json:"batch"`
	Abort bool     `json:"abort"`
	// Disabled sets the deprecated SeriesRequest.PartialResponseDisabled flag
	Disabled bool `json:"disabled,omitempty"`
	Jitter   int  `json:"jitter"` // 0 none; n>0: receivers yield / sleep pseudo-randomly (seeded by n)
	// FrameTimeoutMs > 0 sets the proxy's per-frame response timeout although no store times out;
	// StallMs > 0 makes the consumer of the merged stream (the client's Send) sleep that long when
	// it has received StallAfter frames (a slow reader).
	FrameTimeoutMs int `json:"frame_timeout_ms,omitempty"`
	StallMs        int `json:"stall_ms,omitempty"`
	StallAfter     int `json:"stall_after,omitempty"`
	// Sched, when non-empty, is a schedule for the per-store receiver goroutines: the sequence of
	// store indices whose Recv call is let through next (see scheduler). Deterministic per input.
	Sched  []int     `json:"sched,omitempty"`
	Stores []StoreIn `json:"stores"`
}

// ---- building protobuf messages ----

func MkSeries(s SeriesIn) *storepb.Series {
	out := &storepb.Series{}
	ls := make([]labels.Label, 0, len(s.Labels))
	for _, l := range s.Labels {
		ls = append(ls, labels.Label{Name: l[0], Value: l[1]})
	}
	out.Labels = labelpb.ZLabelsFromPromLabels(labels.New(ls...))
	for _, c := range s.Chunks {
		ac := storepb.AggrChunk{MinTime: c.Min, MaxTime: c.Max}
		ptrs := []**storepb.Chunk{&ac.Raw, &ac.Count, &ac.Sum, &ac.Min, &ac.Max, &ac.Counter}
		for i, f := range c.Fields {
			if f != nil {
				*ptrs[i] = &storepb.Chunk{Type: storepb.Chunk_Encoding(f.Type), Data: append([]byte(nil), f.Data...), Hash: f.Hash}
			}
		}
		out.Chunks = append(out.Chunks, ac)
	}
	return out
}

func MkFrame(f FrameIn) *storepb.SeriesResponse {
	switch f.Kind {
	case "series":
		return storepb.NewSeriesResponse(MkSeries(f.Series[0]))
	case "batch":
		var b []*storepb.Series
		for _, s := range f.Series {
			b = append(b, MkSeries(s))
		}
		return storepb.NewBatchResponse(b)
	case "warn":
		return storepb.NewWarnSeriesResponse(errors.New(f.Warn))
	}
	panic("bad frame kind " + f.Kind)
}

// MkErr builds the injected error of the given kind.
func MkErr(kind, what string) error {
	switch kind {
	case "grpc":
		return status.Error(codes.Unavailable, "injected "+what+" failure")
	case "canceled":
		return context.Canceled
	case "deadline":
		return context.DeadlineExceeded
	case "ueof":
		return io.ErrUnexpectedEOF
	case "wrapueof":
		return fmt.Errorf("injected %s failure: Post \"http://store/api\": %w", what, io.ErrUnexpectedEOF)
	case "wrapeof":
		return fmt.Errorf("injected %s failure: Post \"http://store/api\": %w", what, io.EOF)
	}
	return errors.New("injected " + what + " failure")
}

// WrapsEOF: errors.Is(err, io.EOF) holds for the injected error although it is not io.EOF itself.
func WrapsEOF(kind string) bool { return kind == "wrapeof" }

// ---- fake store client ----

type fakeStore struct {
	storepb.StoreClient
	in     StoreIn
	jitter *uint64
	idx    int
	sch    *scheduler
}

// scheduler gates the Recv calls of the fake streams so that the interleaving of the receiver
// goroutines (and thereby of their ring-buffer appends against the merge's pops) follows a
// given order of store indices. It never blocks progress for good: a scheduled store that does
// not show up within a bounded number of scheduler yields (e.g. because its receiver waits for
// a free buffer slot) is skipped, and once the order is used up everything runs freely.
type scheduler struct {
	mu      sync.Mutex
	waiting []chan struct{}
	done    []bool
	free    bool
	trace   []int // store indices in the order their Recv calls were let through by the schedule
}

const schedSpins = 300

func newScheduler(n int, order []int) *scheduler {
	s := &scheduler{waiting: make([]chan struct{}, n), done: make([]bool, n)}
	go func() {
		for _, i := range order {
			if i < 0 || i >= n {
				continue
			}
			granted := false
			for spin := 0; spin < schedSpins; spin++ {
				s.mu.Lock()
				ch, fin := s.waiting[i], s.done[i]
				if ch != nil {
					s.waiting[i] = nil
					s.trace = append(s.trace, i)
				}
				s.mu.Unlock()
				if ch != nil {
					close(ch)
					granted = true
					break
				}
				if fin {
					break
				}
				runtime.Gosched()
			}
			if granted { // let it run until it comes back for its next frame (or gets stuck elsewhere)
				for spin := 0; spin < schedSpins; spin++ {
					s.mu.Lock()
					back := s.waiting[i] != nil || s.done[i]
					s.mu.Unlock()
					if back {
						break
					}
					runtime.Gosched()
				}
			}
		}
		s.mu.Lock()
		s.free = true
		for i, ch := range s.waiting {
			if ch != nil {
				close(ch)
				s.waiting[i] = nil
			}
		}
		s.mu.Unlock()
	}()
	return s
}

func (s *scheduler) enter(ctx context.Context, i int) error {
	s.mu.Lock()
	if s.free {
		s.mu.Unlock()
		return nil
	}
	ch := make(chan struct{})
	s.waiting[i] = ch
	s.mu.Unlock()
	select {
	case <-ch:
		return nil
	case <-ctx.Done():
		return ctx.Err()
	}
}

func (s *scheduler) finish(i int) {
	s.mu.Lock()
	s.done[i] = true
	s.mu.Unlock()
}

type fakeStream struct {
	grpc.ClientStream
	ctx    context.Context
	st     *fakeStore
	frames []*storepb.SeriesResponse
	i      int
}

func (f *fakeStore) Series(ctx context.Context, _ *storepb.SeriesRequest, _ ...grpc.CallOption) (storepb.Store_SeriesClient, error) {
	if f.in.Fail == "open" {
		return nil, MkErr(f.in.FailKind, "open")
	}
	fs := make([]*storepb.SeriesResponse, 0, len(f.in.Frames))
	for _, fr := range f.in.Frames {
		fs = append(fs, MkFrame(fr))
	}
	return &fakeStream{ctx: ctx, st: f, frames: fs}, nil
}

func (s *fakeStream) Recv() (r *storepb.SeriesResponse, err error) {
	if sc := s.st.sch; sc != nil {
		if e := sc.enter(s.ctx, s.st.idx); e != nil {
			sc.finish(s.st.idx)
			return nil, e
		}
		defer func() {
			if err != nil {
				sc.finish(s.st.idx)
			}
		}()
	}
	// like a real gRPC stream: a cancelled stream context breaks the stream
	if e := s.ctx.Err(); e != nil {
		return nil, e
	}
	if j := s.st.jitter; j != nil {
		*j = *j*6364136223846793005 + 1442695040888963407
		switch (*j >> 33) % 4 {
		case 0:
			runtime.Gosched()
		case 1:
			time.Sleep(time.Duration((*j>>40)%200) * time.Microsecond)
		}
	}
	if s.st.in.Fail != "" && s.st.in.Fail != "open" && s.i == s.st.in.FailAt {
		if s.st.in.Fail == "timeout" {
			<-s.ctx.Done() // blocks until the frame timeout (or the caller) cancels the stream
			return nil, s.ctx.Err()
		}
		return nil, MkErr(s.st.in.FailKind, "recv")
	}
	if s.i >= len(s.frames) {
		return nil, io.EOF
	}
	r = s.frames[s.i]
	s.i++
	return r, nil
}

func (s *fakeStream) Context() context.Context { return s.ctx }
func (s *fakeStream) CloseSend() error         { return nil }

// ---- recording server ----

type RecServer struct {
	storepb.Store_SeriesServer
	Ctx    context.Context
	Frames []*storepb.SeriesResponse
	// a slow reader: sleep Stall when StallAfter frames have been received
	Stall      time.Duration
	StallAfter int
}

func (r *RecServer) Send(m *storepb.SeriesResponse) error {
	if r.Stall > 0 && len(r.Frames) == r.StallAfter {
		time.Sleep(r.Stall)
	}
	r.Frames = append(r.Frames, m)
	return nil
}
func (r *RecServer) Context() context.Context { return r.Ctx }

// Result of running ProxyStore.Series on an Input.
type Result struct {
	Err    error
	Frames []*storepb.SeriesResponse
	// Trace: the realised part of Input.Sched (store index per Recv call let through in order)
	Trace []int
}

// BuildProxy builds a ProxyStore over fake clients for in.Stores.
func BuildProxy(in Input, responseTimeout time.Duration) *store.ProxyStore {
	p, _ := buildProxy(in, responseTimeout)
	return p
}

func buildProxy(in Input, responseTimeout time.Duration) (*store.ProxyStore, *scheduler) {
	if ft := time.Duration(in.FrameTimeoutMs) * time.Millisecond; ft > responseTimeout {
		responseTimeout = ft
	}
	var clients []store.Client
	var sch *scheduler
	if len(in.Sched) > 0 {
		sch = newScheduler(len(in.Stores), in.Sched)
	}
	for i := range in.Stores {
		fs := &fakeStore{in: in.Stores[i], idx: i, sch: sch}
		if in.Jitter > 0 {
			j := uint64(in.Jitter)*1000003 + uint64(i)*7919 + 1
			fs.jitter = &j
		}
		clients = append(clients, &storetestutil.TestClient{StoreClient: fs, Name: in.Stores[i].Name,
			MinTime: math.MinInt64, MaxTime: math.MaxInt64, WithoutReplicaLabelsEnabled: in.Stores[i].Supports})
	}
	strategy := store.EagerRetrieval
	if in.Lazy {
		strategy = store.LazyRetrieval
	}
	return store.NewProxyStore(nil, nil, func() []store.Client { return clients }, component.Query, labels.EmptyLabels(),
		responseTimeout, strategy, store.WithLazyRetrievalMaxBufferedResponsesForProxy(in.Buf)), sch
}

// RunProxy runs one ProxyStore.Series call over fake clients for in.Stores.
func RunProxy(in Input, responseTimeout time.Duration) Result {
	p, sch := buildProxy(in, responseTimeout)
	req := &storepb.SeriesRequest{
		MinTime: 0, MaxTime: 1000,
		Matchers:             []storepb.LabelMatcher{{Type: storepb.LabelMatcher_NEQ, Name: "__verif__", Value: "x"}},
		WithoutReplicaLabels: in.WRL,
		Limit:                in.Limit,
		ResponseBatchSize:    in.Batch,
	}
	req.PartialResponseDisabled = in.Disabled
	if in.Abort {
		req.PartialResponseStrategy = storepb.PartialResponseStrategy_ABORT
	} else {
		req.PartialResponseStrategy = storepb.PartialResponseStrategy_WARN
	}
	srv := &RecServer{Ctx: context.Background(), Stall: time.Duration(in.StallMs) * time.Millisecond, StallAfter: in.StallAfter}
	err := p.Series(req, srv)
	res := Result{Err: err, Frames: srv.Frames}
	if sch != nil {
		sch.mu.Lock()
		res.Trace = append([]int(nil), sch.trace...)
		sch.mu.Unlock()
	}
	return res
}

// QResult: what a PromQL engine sees from the Thanos querier's Select.
type QResult struct {
	Err    error
	Labels []labels.Labels
	Warns  []string // distinct annotation texts
}

// RunQuerier runs query.NewQueryableCreator(...)(...).Querier(...).Select over the same proxy
// (deduplication off, so no replica labels are dropped and no chunk is decoded).
func RunQuerier(in Input, responseTimeout time.Duration, partialResponse bool) QResult {
	p := BuildProxy(in, responseTimeout)
	qc := query.NewQueryableCreator(nil, nil, p, 4, 5*time.Minute, dedup.AlgorithmPenalty, int(in.Batch))
	q, err := qc(false, nil, nil, 0, partialResponse, false, nil, query.NoopSeriesStatsReporter).Querier(0, 1000)
	if err != nil {
		return QResult{Err: err}
	}
	defer q.Close()
	set := q.Select(context.Background(), false, &storage.SelectHints{Start: 0, End: 1000},
		labels.MustNewMatcher(labels.MatchNotEqual, "__verif__", "x"))
	var out QResult
	for set.Next() {
		out.Labels = append(out.Labels, set.At().Labels().Copy())
	}
	out.Err = set.Err()
	for w := range set.Warnings() {
		out.Warns = append(out.Warns, w)
	}
	sort.Strings(out.Warns)
	return out
}

// ---- Coq printers (types of Model/C03.v) ----

func CoqLabelsZ(ls []labelpb.ZLabel) string {
	var ps []string
	for _, l := range ls {
		ps = append(ps, common.Pair(common.Bytes(l.Name), common.Bytes(l.Value)))
	}
	return common.List(ps)
}

// CoqLabelsP renders Prometheus labels.
func CoqLabelsP(l labels.Labels) string {
	var ps []string
	l.Range(func(x labels.Label) {
		ps = append(ps, common.Pair(common.Bytes(x.Name), common.Bytes(x.Value)))
	})
	return common.List(ps)
}

func CoqLabelsIn(ls []Lbl) string {
	// as the store presents them: labels.New sorts by name
	s := MkSeries(SeriesIn{Labels: ls})
	return CoqLabelsZ(s.Labels)
}

func effHash(c *storepb.Chunk) uint64 {
	if c.Hash != 0 {
		return c.Hash
	}
	return xxhash.Sum64(c.Data)
}

func CoqChunk(c storepb.AggrChunk) string {
	var fs []string
	for _, f := range []*storepb.Chunk{c.Raw, c.Count, c.Sum, c.Min, c.Max, c.Counter} {
		if f == nil {
			fs = append(fs, common.None)
		} else {
			fs = append(fs, common.Some(common.Tuple(common.Z(int64(f.Type)), common.N(effHash(f)), common.Bytes(string(f.Data)))))
		}
	}
	return common.App("MkChunk", common.Z(c.MinTime), common.Z(c.MaxTime), common.List(fs))
}

func CoqSeries(s *storepb.Series) (string, string) {
	var cs []string
	for _, c := range s.Chunks {
		cs = append(cs, CoqChunk(c))
	}
	return CoqLabelsZ(s.Labels), common.List(cs)
}

// CoqFrame renders a response; warnings are rendered with text w(arg) (pass "" to anonymise).
func CoqFrame(r *storepb.SeriesResponse, warnText func(string) string) string {
	switch {
	case r.GetSeries() != nil:
		l, c := CoqSeries(r.GetSeries())
		return common.App("FSeries", l, c)
	case r.GetBatch() != nil:
		var ss []string
		for _, s := range r.GetBatch().Series {
			l, c := CoqSeries(s)
			ss = append(ss, common.Pair(l, c))
		}
		return common.App("FBatch", common.List(ss))
	default:
		return common.App("FWarn", common.Bytes(warnText(r.GetWarning())))
	}
}

// CoqScript renders one store's script as a Coq `script` term. openWarn / recvWarn
// give the warning text the model should use for failures (oracle / canonical token).
func CoqScript(s StoreIn, openWarn, recvWarn string) string {
	var fs []string
	frames := s.Frames
	if (s.Fail == "recv" || s.Fail == "timeout") && s.FailAt < len(frames) {
		frames = frames[:s.FailAt]
	}
	for _, f := range frames {
		fs = append(fs, CoqFrame(MkFrame(f), func(w string) string { return w }))
	}
	open := common.None
	end := "EEof"
	switch s.Fail {
	case "open":
		open = common.Some(common.Bytes(openWarn))
	case "recv", "timeout":
		if s.FailAt <= len(s.Frames) {
			end = common.App("ERecvErr", common.Bytes(recvWarn))
		}
	}
	return common.App("MkScript", open, common.List(fs), end, common.Bool(s.Supports))
}

func CoqStrList(xs []string) string {
	var ps []string
	for _, x := range xs {
		ps = append(ps, common.Bytes(x))
	}
	return common.List(ps)
}

// Warnings returns the sorted warning texts among frames.
func Warnings(frames []*storepb.SeriesResponse) []string {
	var ws []string
	for _, f := range frames {
		if f.GetSeries() == nil && f.GetBatch() == nil {
			ws = append(ws, f.GetWarning())
		}
	}
	sort.Strings(ws)
	return ws
}

// Describe renders frames for humans (replay files).
func Describe(frames []*storepb.SeriesResponse) []string {
	var out []string
	ser := func(s *storepb.Series) string {
		var cs []string
		for _, c := range s.Chunks {
			cs = append(cs, fmt.Sprintf("[%d,%d]", c.MinTime, c.MaxTime))
		}
		return labelpb.ZLabelsToPromLabels(s.Labels).String() + strings.Join(cs, "")
	}
	for _, f := range frames {
		switch {
		case f.GetSeries() != nil:
			out = append(out, "series "+ser(f.GetSeries()))
		case f.GetBatch() != nil:
			var ss []string
			for _, s := range f.GetBatch().Series {
				ss = append(ss, ser(s))
			}
			out = append(out, "batch "+strings.Join(ss, " ; "))
		default:
			out = append(out, "warn "+f.GetWarning())
		}
	}
	return out
}
