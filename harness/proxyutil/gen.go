package proxyutil

import (
	"fmt"
	"math/rand"
	"sort"
	"strings"

	"github.com/cespare/xxhash/v2"

	"github.com/thanos-io/thanos/zzverif/common"
)

// ---- generator ----

type uSeries struct {
	labels []Lbl // without replica label
	chunks []ChunkIn
}

func mkRaw(id int, min, max int64, explicitHash bool) ChunkIn {
	data := []byte{byte(1 + id%250), byte(id / 250)}
	f := &FieldIn{Type: 1, Data: data}
	if explicitHash {
		f.Hash = xxhash.Sum64(data)
	}
	var c ChunkIn
	c.Min, c.Max = min, max
	c.Fields[0] = f
	return c
}

func mkAggr(id int, min, max int64, nf int) ChunkIn {
	var c ChunkIn
	c.Min, c.Max = min, max
	for k := 0; k < nf && k < 5; k++ {
		c.Fields[1+k] = &FieldIn{Type: 1, Data: []byte{byte(1 + id%250), byte(id / 250), byte(10 + k)}}
	}
	return c
}

// SortedInput: every store that the proxy forwards without re-sorting sends label-sorted series.
func SortedInput(in Input) bool {
	wrl := len(in.WRL) > 0
	for _, s := range in.Stores {
		if !in.Lazy || (!s.Supports && wrl) {
			continue
		}
		var prev string
		first := true
		for _, f := range s.Frames {
			for _, se := range f.Series {
				k := LabelsKey(se.Labels)
				if !first && k < prev {
					return false
				}
				prev, first = k, false
			}
		}
	}
	return true
}

// labelsKey orders label sets like labels.Compare for the generator's alphabet
// (names and values without bytes below 0x02).
func LabelsKey(ls []Lbl) string {
	cp := append([]Lbl(nil), ls...)
	sort.Slice(cp, func(i, j int) bool { return cp[i][0] < cp[j][0] })
	var sb strings.Builder
	for _, l := range cp {
		sb.WriteString(l[0])
		sb.WriteByte(1)
		sb.WriteString(l[1])
		sb.WriteByte(1)
	}
	return sb.String()
}

// GenBase draws one proxy input without failures.
func GenBase(r *rand.Rand, big bool) Input {
	{
		var in Input
		in.Lazy = r.Intn(2) == 0
		in.Buf = common.Pick(r, 0, 1, 1, 2, 3, 20)
		in.Batch = common.Pick(r, int64(0), 1, 2, 3, 5, 64)
		if r.Intn(5) == 0 {
			in.Limit = common.Between(r, 1, 6)
		}
		if r.Intn(3) == 0 {
			in.Jitter = 1 + r.Intn(1000)
		}
		useReplica := r.Intn(2) == 0
		if useReplica && r.Intn(4) != 0 {
			in.WRL = []string{"r"}
		}
		// universe of series
		nU := 1 + r.Intn(6)
		if big {
			nU = 1 + r.Intn(14)
		}
		var uni []uSeries
		seen := map[string]bool{}
		cid := 0
		for len(uni) < nU {
			var ls []Lbl
			ls = append(ls, Lbl{"a", common.Pick(r, "1", "2", "3", "10")})
			if r.Intn(2) == 0 {
				ls = append(ls, Lbl{"b", common.Pick(r, "x", "y", "")})
			}
			if r.Intn(6) == 0 {
				ls = append(ls, Lbl{"z", common.Pick(r, "1", "2")})
			}
			if r.Intn(8) == 0 {
				ls = append(ls, Lbl{"__name__", "up"})
			}
			// drop empty-valued labels (a store never sends them)
			var ls2 []Lbl
			for _, l := range ls {
				if l[1] != "" {
					ls2 = append(ls2, l)
				}
			}
			k := LabelsKey(ls2)
			if seen[k] {
				if r.Intn(4) == 0 {
					break
				}
				continue
			}
			seen[k] = true
			u := uSeries{labels: ls2}
			nc := r.Intn(5)
			t := common.Between(r, 0, 50)
			for q := 0; q < nc; q++ {
				cid++
				d := common.Between(r, 1, 10)
				switch {
				case r.Intn(6) == 0:
					u.chunks = append(u.chunks, mkAggr(cid, t, t+d, 1+r.Intn(5)))
				default:
					u.chunks = append(u.chunks, mkRaw(cid, t, t+d, r.Intn(3) == 0))
				}
				switch r.Intn(4) {
				case 0: // overlapping / same start
				case 1:
					t += d
				default:
					t += d + 1
				}
			}
			uni = append(uni, u)
		}
		nStores := 1 + r.Intn(5)
		unsorted := r.Intn(12) == 0
		for si := 0; si < nStores; si++ {
			st := StoreIn{Name: fmt.Sprintf("store%d", si), Supports: r.Intn(4) != 0}
			replica := fmt.Sprint(si % 2)
			type item struct {
				labels []Lbl
				chunks []ChunkIn
			}
			var items []item
			for _, u := range uni {
				if r.Intn(3) == 0 {
					continue
				}
				reps := []string{replica}
				if useReplica && r.Intn(4) == 0 {
					reps = []string{"0", "1"} // the store holds both replicas
				}
				for _, rep := range reps {
					ls := append([]Lbl(nil), u.labels...)
					if useReplica && !(st.Supports && len(in.WRL) > 0) {
						ls = append(ls, Lbl{"r", rep})
					}
					// subset of the chunks (duplicates across stores), split over 1..3 frames
					var cs []ChunkIn
					for _, ch := range u.chunks {
						if r.Intn(4) != 0 {
							cs = append(cs, ch)
						}
					}
					parts := 1
					if r.Intn(3) == 0 {
						parts = 2 + r.Intn(2)
					}
					for p := 0; p < parts; p++ {
						lo, hi := p*len(cs)/parts, (p+1)*len(cs)/parts
						items = append(items, item{ls, append([]ChunkIn(nil), cs[lo:hi]...)})
					}
				}
			}
			sort.SliceStable(items, func(a, b int) bool { return LabelsKey(items[a].labels) < LabelsKey(items[b].labels) })
			if unsorted && len(items) >= 2 && r.Intn(2) == 0 {
				a, b := r.Intn(len(items)), r.Intn(len(items))
				items[a], items[b] = items[b], items[a]
			}
			// frames: single series or batches; occasional warnings
			for k := 0; k < len(items); {
				if r.Intn(10) == 0 {
					st.Frames = append(st.Frames, FrameIn{Kind: "warn", Warn: fmt.Sprintf("w%d-%d%s", si, k, strings.Repeat("!", r.Intn(3)))})
				}
				if r.Intn(3) == 0 {
					m := 1 + r.Intn(4)
					if k+m > len(items) {
						m = len(items) - k
					}
					f := FrameIn{Kind: "batch"}
					for _, it := range items[k : k+m] {
						f.Series = append(f.Series, SeriesIn{Labels: it.labels, Chunks: it.chunks})
					}
					st.Frames = append(st.Frames, f)
					k += m
				} else {
					st.Frames = append(st.Frames, FrameIn{Kind: "series", Series: []SeriesIn{{Labels: items[k].labels, Chunks: items[k].chunks}}})
					k++
				}
			}
			if r.Intn(15) == 0 {
				st.Frames = append(st.Frames, FrameIn{Kind: "warn", Warn: fmt.Sprintf("end%d", si)})
			}
			in.Stores = append(in.Stores, st)
		}
		// a schedule for the receiver goroutines (2/5 of the cases): round robin, one store after
		// the other, reverse, or random
		if r.Intn(5) < 2 && len(in.Stores) > 0 {
			total := len(in.Stores)
			for _, st := range in.Stores {
				total += len(st.Frames)
			}
			n := len(in.Stores)
			switch r.Intn(4) {
			case 0:
				for k := 0; k < total*n; k++ {
					in.Sched = append(in.Sched, k%n)
				}
			case 1:
				perm := r.Perm(n)
				for _, i := range perm {
					for k := 0; k <= len(in.Stores[i].Frames); k++ {
						in.Sched = append(in.Sched, i)
					}
				}
			case 2:
				for k := 0; k < total*n; k++ {
					in.Sched = append(in.Sched, n-1-k%n)
				}
			default:
				for k := 0; k < 2*total; k++ {
					in.Sched = append(in.Sched, r.Intn(n))
				}
			}
		}
		return in
	}
}
