package crashutil

import (
	"fmt"
	"go/ast"
	"strings"

	"github.com/thanos-io/thanos/zzverif/common"
)

// CallArgs is a statement-order fact for tie T: the source-order list of the
// calls inside function fn whose callee (rendered "recv.Method" / "pkg.Func")
// is a key of want, each paired with the source text of its argument number
// want[callee] (the object name / destination the call works on). Calls inside
// nested function literals appear where the literal is written.
// Every call to a callee in want is listed, so an added, removed, reordered or
// retargeted bucket mutation changes the list.
func CallArgs(s *common.SrcFile, fn string, want map[string]int) ([][2]string, error) {
	fd, err := s.FindFunc(fn)
	if err != nil {
		return nil, err
	}
	var out [][2]string
	var bad error
	ast.Inspect(fd.Body, func(n ast.Node) bool {
		ce, ok := n.(*ast.CallExpr)
		if !ok {
			return true
		}
		name := callee(ce.Fun)
		idx, ok := want[name]
		if !ok {
			return true
		}
		if idx < 0 { // no argument of interest
			out = append(out, [2]string{name, ""})
			return true
		}
		if idx >= len(ce.Args) {
			bad = fmt.Errorf("srcfacts: %s: call to %s has %d args, want arg %d", fn, name, len(ce.Args), idx)
			return false
		}
		out = append(out, [2]string{name, s.ExprString(ce.Args[idx])})
		return true
	})
	if bad != nil {
		return nil, bad
	}
	if len(out) == 0 {
		return nil, fmt.Errorf("srcfacts: %s: none of the expected calls found in %s", s.Path, fn)
	}
	return out, nil
}

func callee(e ast.Expr) string {
	switch x := e.(type) {
	case *ast.Ident:
		return x.Name
	case *ast.SelectorExpr:
		return callee(x.X) + "." + x.Sel.Name
	case *ast.CallExpr:
		return callee(x.Fun) + "()"
	case *ast.ParenExpr:
		return callee(x.X)
	}
	return "?"
}

// CallArgsCoq renders the list as `Definition name : list (string * string)`.
func CallArgsCoq(name string, l [][2]string) string {
	var parts []string
	for _, e := range l {
		parts = append(parts, fmt.Sprintf("(%s, %s)", common.CoqString(e[0]), common.CoqString(e[1])))
	}
	return fmt.Sprintf("Definition %s : list (string * string) :=\n  [%s]%%string.\n", name, strings.Join(parts, ";\n   "))
}
