// Package crashutil is the shared machinery of the crash group (C28, C35, C29):
// a recording, crash-injecting objstore.Bucket around objstore.NewInMemBucket,
// fake TSDB block directories, and printers for the Coq types of
// coq/Lib/Crash_Block.v.
package crashutil

import (
	"bytes"
	"context"
	"errors"
	"io"
	"sort"
	"sync"

	"github.com/thanos-io/objstore"
)

// ErrCrashed is returned by every bucket operation after the crash point once
// the frozen process is released at the end of a scenario.
var ErrCrashed = errors.New("verif: process crashed (bucket frozen)")

// ErrInjected is the transient single-operation failure.
var ErrInjected = errors.New("verif: injected bucket error")

// Op is one recorded bucket operation.
type Op struct {
	Kind string // upload | delete | exists | get | iter | attributes | getrange
	Name string
	Mut  bool
	OK   bool   // delete: the object existed; exists/get/attributes: found
	Body []byte // upload: the uploaded bytes
	Err  bool   // the operation was made to fail (ErrInjected)
	// Snap is the bucket content after a mutating operation.
	Snap map[string][]byte
}

// RecBucket serialises all operations (one total order), records them, takes a
// snapshot of the bucket after every mutating one, and implements two faults:
//
//	crash:  before the operation with index CrashAt (counting mutating ops only,
//	        or all ops when CountReads) the calling goroutine - and every later
//	        caller - blocks until Release; the bucket is left exactly as a real
//	        process death would leave it.
//	error:  the operation with index FailAt returns ErrInjected without effect.
type RecBucket struct {
	inner *objstore.InMemBucket

	mu         sync.Mutex
	ops        []Op
	n          int // counted ops so far
	CrashAt    int // -1 = never
	FailAt     int // -1 = never
	CountReads bool
	// BeforeOp, when set, runs before every counted operation with the index it is about to get
	// (two-actor histories: the other actor's operations are performed here).
	BeforeOp func(idx int)
	// Permit/Stepped, when set, make every mutating operation wait for a token on Permit and
	// announce its completion on Stepped (buffered): the actor behind this bucket is single-stepped.
	Permit  chan struct{}
	Stepped chan struct{}
	// CancelAt/Cancel: graceful shutdown. The mutating operation with index CancelAt (counting
	// mutating operations only) calls Cancel - which cancels the owner's root context - and
	// returns context.Canceled without effect; every later call made with the cancelled context
	// fails the same way (see the ctx checks), calls made with a fresh context go through.
	CancelAt int
	Cancel   func()
	mutN     int
	// LexIter makes Iter hand out the entries in plain lexicographic order (as S3, GCS, Azure
	// list them: "chunks/" before "index"); the in-memory bucket lists files before directories.
	LexIter   bool
	crashed   bool
	crashedCh chan struct{}
	release   chan struct{}
	released  bool
}

func NewRecBucket(inner *objstore.InMemBucket) *RecBucket {
	return &RecBucket{inner: inner, CrashAt: -1, FailAt: -1, CancelAt: -1, crashedCh: make(chan struct{}), release: make(chan struct{})}
}

// Arm resets the op log and counters and sets the fault points for the next action.
func (b *RecBucket) Arm(crashAt, failAt int, countReads bool) {
	b.mu.Lock()
	defer b.mu.Unlock()
	b.ops = nil
	b.n = 0
	b.CrashAt, b.FailAt, b.CountReads = crashAt, failAt, countReads
	b.crashed = false
	b.crashedCh = make(chan struct{})
	b.release = make(chan struct{})
	b.released = false
}

// Crashed is closed when the crash point has been reached.
func (b *RecBucket) Crashed() <-chan struct{} {
	b.mu.Lock()
	defer b.mu.Unlock()
	return b.crashedCh
}

// Release lets frozen goroutines return ErrCrashed (scenario teardown).
func (b *RecBucket) Release() {
	b.mu.Lock()
	defer b.mu.Unlock()
	if !b.released {
		b.released = true
		close(b.release)
	}
}

// Ops returns a copy of the recorded operations.
func (b *RecBucket) Ops() []Op {
	b.mu.Lock()
	defer b.mu.Unlock()
	return append([]Op(nil), b.ops...)
}

// Counted returns the number of operations that received an index so far.
func (b *RecBucket) Counted() int {
	b.mu.Lock()
	defer b.mu.Unlock()
	return b.n
}

// Inner gives direct (unrecorded) access for scenario set-up and inspection.
func (b *RecBucket) Inner() *objstore.InMemBucket { return b.inner }

// Snapshot returns the current objects.
func (b *RecBucket) Snapshot() map[string][]byte { return b.inner.Objects() }

// gate decides what happens to the next operation: 0 proceed, 1 injected error; it
// blocks (and then returns 2) when the process is crashed.
func (b *RecBucket) gate(mut bool) int {
	if b.BeforeOp != nil && (mut || b.CountReads) {
		b.mu.Lock()
		idx := b.n
		b.mu.Unlock()
		b.BeforeOp(idx)
	}
	if mut && b.Permit != nil {
		<-b.Permit
	}
	b.mu.Lock()
	if b.crashed {
		rel := b.release
		b.mu.Unlock()
		<-rel
		return 2
	}
	counted := mut || b.CountReads
	if counted {
		if b.CrashAt >= 0 && b.n == b.CrashAt {
			b.crashed = true
			close(b.crashedCh)
			rel := b.release
			b.mu.Unlock()
			<-rel
			return 2
		}
		idx := b.n
		b.n++
		if b.FailAt >= 0 && idx == b.FailAt {
			// keep the lock: caller records under it
			return 1
		}
	}
	return 0
}

// shutdownNow counts a mutating operation and tells whether it is the one at which the owner shuts down.
func (b *RecBucket) shutdownNow() bool {
	b.mu.Lock()
	idx := b.mutN
	b.mutN++
	hit := b.CancelAt >= 0 && idx == b.CancelAt
	b.mu.Unlock()
	if hit && b.Cancel != nil {
		b.Cancel()
	}
	return hit
}

func (b *RecBucket) record(o Op) {
	if o.Mut && !o.Err {
		o.Snap = b.inner.Objects()
	}
	b.ops = append(b.ops, o)
	if o.Mut && b.Stepped != nil {
		b.Stepped <- struct{}{}
	}
}

func (b *RecBucket) Upload(ctx context.Context, name string, r io.Reader, opts ...objstore.ObjectUploadOption) error {
	// a cancelled context fails the call before it reaches the store (as every real provider does);
	// such calls are not bucket operations and are not recorded
	if err := ctx.Err(); err != nil {
		return err
	}
	body, rerr := io.ReadAll(r)
	if b.shutdownNow() {
		return context.Canceled
	}
	switch b.gate(true) {
	case 2:
		return ErrCrashed
	case 1:
		b.record(Op{Kind: "upload", Name: name, Mut: true, Body: body, Err: true})
		b.mu.Unlock()
		return ErrInjected
	}
	defer b.mu.Unlock()
	if rerr != nil {
		return rerr
	}
	err := b.inner.Upload(ctx, name, bytes.NewReader(body), opts...)
	b.record(Op{Kind: "upload", Name: name, Mut: true, Body: body, OK: err == nil})
	return err
}

func (b *RecBucket) Delete(ctx context.Context, name string) error {
	if err := ctx.Err(); err != nil {
		return err
	}
	if b.shutdownNow() {
		return context.Canceled
	}
	switch b.gate(true) {
	case 2:
		return ErrCrashed
	case 1:
		b.record(Op{Kind: "delete", Name: name, Mut: true, Err: true})
		b.mu.Unlock()
		return ErrInjected
	}
	defer b.mu.Unlock()
	err := b.inner.Delete(ctx, name)
	b.record(Op{Kind: "delete", Name: name, Mut: true, OK: err == nil})
	return err
}

func (b *RecBucket) Exists(ctx context.Context, name string) (bool, error) {
	if err := ctx.Err(); err != nil {
		return false, err
	}
	switch b.gate(false) {
	case 2:
		return false, ErrCrashed
	case 1:
		b.record(Op{Kind: "exists", Name: name, Err: true})
		b.mu.Unlock()
		return false, ErrInjected
	}
	defer b.mu.Unlock()
	ok, err := b.inner.Exists(ctx, name)
	b.record(Op{Kind: "exists", Name: name, OK: ok})
	return ok, err
}

func (b *RecBucket) Get(ctx context.Context, name string) (io.ReadCloser, error) {
	if err := ctx.Err(); err != nil {
		return nil, err
	}
	switch b.gate(false) {
	case 2:
		return nil, ErrCrashed
	case 1:
		b.record(Op{Kind: "get", Name: name, Err: true})
		b.mu.Unlock()
		return nil, ErrInjected
	}
	defer b.mu.Unlock()
	rc, err := b.inner.Get(ctx, name)
	b.record(Op{Kind: "get", Name: name, OK: err == nil})
	return rc, err
}

func (b *RecBucket) GetRange(ctx context.Context, name string, off, length int64) (io.ReadCloser, error) {
	if err := ctx.Err(); err != nil {
		return nil, err
	}
	switch b.gate(false) {
	case 2:
		return nil, ErrCrashed
	case 1:
		b.record(Op{Kind: "getrange", Name: name, Err: true})
		b.mu.Unlock()
		return nil, ErrInjected
	}
	defer b.mu.Unlock()
	rc, err := b.inner.GetRange(ctx, name, off, length)
	b.record(Op{Kind: "getrange", Name: name, OK: err == nil})
	return rc, err
}

func (b *RecBucket) Attributes(ctx context.Context, name string) (objstore.ObjectAttributes, error) {
	if err := ctx.Err(); err != nil {
		return objstore.ObjectAttributes{}, err
	}
	switch b.gate(false) {
	case 2:
		return objstore.ObjectAttributes{}, ErrCrashed
	case 1:
		b.record(Op{Kind: "attributes", Name: name, Err: true})
		b.mu.Unlock()
		return objstore.ObjectAttributes{}, ErrInjected
	}
	defer b.mu.Unlock()
	a, err := b.inner.Attributes(ctx, name)
	b.record(Op{Kind: "attributes", Name: name, OK: err == nil})
	return a, err
}

// Iter lists under the gate, then calls f outside it (f issues further operations).
func (b *RecBucket) Iter(ctx context.Context, dir string, f func(string) error, options ...objstore.IterOption) error {
	if err := ctx.Err(); err != nil {
		return err
	}
	switch b.gate(false) {
	case 2:
		return ErrCrashed
	case 1:
		b.record(Op{Kind: "iter", Name: dir, Err: true})
		b.mu.Unlock()
		return ErrInjected
	}
	var names []string
	err := b.inner.Iter(ctx, dir, func(n string) error { names = append(names, n); return nil }, options...)
	b.record(Op{Kind: "iter", Name: dir, OK: err == nil})
	b.mu.Unlock()
	if err != nil {
		return err
	}
	if b.LexIter {
		sort.Strings(names)
	}
	for _, n := range names {
		if err := f(n); err != nil {
			return err
		}
	}
	return nil
}

func (b *RecBucket) IterWithAttributes(ctx context.Context, dir string, f func(objstore.IterObjectAttributes) error, options ...objstore.IterOption) error {
	if err := ctx.Err(); err != nil {
		return err
	}
	switch b.gate(false) {
	case 2:
		return ErrCrashed
	case 1:
		b.record(Op{Kind: "iter", Name: dir, Err: true})
		b.mu.Unlock()
		return ErrInjected
	}
	var attrs []objstore.IterObjectAttributes
	err := b.inner.IterWithAttributes(ctx, dir, func(a objstore.IterObjectAttributes) error { attrs = append(attrs, a); return nil }, options...)
	b.record(Op{Kind: "iter", Name: dir, OK: err == nil})
	b.mu.Unlock()
	if err != nil {
		return err
	}
	for _, a := range attrs {
		if err := f(a); err != nil {
			return err
		}
	}
	return nil
}

func (b *RecBucket) SupportedIterOptions() []objstore.IterOptionType {
	return b.inner.SupportedIterOptions()
}
func (b *RecBucket) IsObjNotFoundErr(err error) bool  { return b.inner.IsObjNotFoundErr(err) }
func (b *RecBucket) IsAccessDeniedErr(err error) bool { return b.inner.IsAccessDeniedErr(err) }
func (b *RecBucket) Close() error                     { return nil }
func (b *RecBucket) Name() string                     { return "verif-rec" }
func (b *RecBucket) Provider() objstore.ObjProvider   { return b.inner.Provider() }
func (b *RecBucket) WithExpectedErrs(objstore.IsOpFailureExpectedFunc) objstore.Bucket {
	return b
}
func (b *RecBucket) ReaderWithExpectedErrs(objstore.IsOpFailureExpectedFunc) objstore.BucketReader {
	return b
}

var _ objstore.InstrumentedBucket = (*RecBucket)(nil)

// MutOps filters the mutating operations that took effect or were attempted (not the injected failures).
func MutOps(ops []Op) []Op {
	var out []Op
	for _, o := range ops {
		if o.Mut && !o.Err {
			out = append(out, o)
		}
	}
	return out
}

// SortedNames of a snapshot.
func SortedNames(m map[string][]byte) []string {
	names := make([]string, 0, len(m))
	for n := range m {
		names = append(names, n)
	}
	sort.Strings(names)
	return names
}

// RunAction runs f in its own goroutine against the armed bucket and waits until it
// returns or the crash point is reached. crashed=true: the goroutine is frozen inside a
// bucket call; call b.Release() and then wait() at scenario teardown.
func RunAction(b *RecBucket, f func() error) (err error, crashed bool, wait func()) {
	done := make(chan error, 1)
	go func() { done <- f() }()
	select {
	case err = <-done:
		return err, false, func() {}
	case <-b.Crashed():
		return nil, true, func() { <-done }
	}
}
