package crashutil

import (
	"crypto/sha256"
	"encoding/hex"
	"encoding/json"
	"fmt"
	"os"
	"path/filepath"
	"sort"
	"strconv"
	"strings"

	"github.com/go-kit/log"
	"github.com/oklog/ulid/v2"
	"github.com/prometheus/prometheus/tsdb"

	"github.com/thanos-io/thanos/pkg/block/metadata"
	"github.com/thanos-io/thanos/zzverif/common"
)

// BlockSpec describes one fake TSDB block directory. Only what block.Upload,
// Shipper.Sync and the replicator look at is real: meta.json (a valid
// metadata.Meta), an index file and chunks/NNNNNN files of the given sizes.
type BlockSpec struct {
	Chunks     []int64           `json:"chunks"` // sizes of chunks/000001, 000002, ...
	Index      int64             `json:"index"`
	Labels     map[string]string `json:"labels,omitempty"`
	NumSamples uint64            `json:"num_samples"`
	Level      int               `json:"level"`
	MinTime    int64             `json:"min_time"`
	MaxTime    int64             `json:"max_time"`
}

// BlockULID is the deterministic id of block number i (ULID order = number order).
func BlockULID(i int) ulid.ULID {
	var e [10]byte
	e[9] = byte(i)
	e[8] = byte(i >> 8)
	var id ulid.ULID
	_ = id.SetTime(uint64(1600000000000 + i*1000))
	_ = id.SetEntropy(e[:])
	return id
}

// WriteBlock creates <dir>/<ulid(i)>/ for spec.
func WriteBlock(dir string, i int, s BlockSpec) (ulid.ULID, error) {
	id := BlockULID(i)
	bdir := filepath.Join(dir, id.String())
	if err := os.MkdirAll(filepath.Join(bdir, "chunks"), 0o750); err != nil {
		return id, err
	}
	for j, sz := range s.Chunks {
		if err := os.WriteFile(filepath.Join(bdir, "chunks", fmt.Sprintf("%06d", j+1)), fill(sz, byte(i*16+j)), 0o640); err != nil {
			return id, err
		}
	}
	if err := os.WriteFile(filepath.Join(bdir, "index"), fill(s.Index, byte(i)), 0o640); err != nil {
		return id, err
	}
	lv := s.Level
	if lv == 0 {
		lv = 1
	}
	m := metadata.Meta{
		BlockMeta: tsdb.BlockMeta{
			ULID: id, MinTime: s.MinTime, MaxTime: s.MaxTime, Version: 1,
			Stats:      tsdb.BlockStats{NumSamples: s.NumSamples, NumSeries: 1, NumChunks: uint64(len(s.Chunks))},
			Compaction: tsdb.BlockMetaCompaction{Level: lv, Sources: []ulid.ULID{id}},
		},
	}
	if s.Labels != nil {
		m.Thanos = metadata.Thanos{Version: 1, Labels: s.Labels, Source: metadata.TestSource}
	}
	return id, m.WriteToDir(log.NewNopLogger(), bdir)
}

func fill(n int64, b byte) []byte {
	out := make([]byte, n)
	for i := range out {
		out[i] = b + byte(i)
	}
	return out
}

// Env numbers blocks, label sets, contents and odd names for one scenario.
type Env struct {
	blocks map[string]int // ULID string -> block number
	lbls   map[string]int
	cids   map[string]int
	others map[string]int
}

func NewEnv() *Env {
	return &Env{blocks: map[string]int{}, lbls: map[string]int{}, cids: map[string]int{}, others: map[string]int{}}
}

func (e *Env) AddBlock(id ulid.ULID, n int) { e.blocks[id.String()] = n }

func intern(m map[string]int, k string) int {
	if v, ok := m[k]; ok {
		return v
	}
	v := len(m)
	m[k] = v
	return v
}

// Lbl numbers a label set (canonical sorted rendering).
func (e *Env) Lbl(l map[string]string) int {
	ks := make([]string, 0, len(l))
	for k := range l {
		ks = append(ks, k)
	}
	sort.Strings(ks)
	var sb strings.Builder
	for _, k := range ks {
		fmt.Fprintf(&sb, "%q=%q,", k, l[k])
	}
	return intern(e.lbls, sb.String())
}

// Cid numbers a byte content.
func (e *Env) Cid(body []byte) int {
	h := sha256.Sum256(body)
	return intern(e.cids, hex.EncodeToString(h[:]))
}

// File is the Go image of Crash_Block.file.
type File struct {
	Kind string // meta index chunk delmark nocompact nodownsample dirchunks dirblock other
	N    uint64
}

func (f File) Coq() string {
	switch f.Kind {
	case "meta":
		return "FMeta"
	case "index":
		return "FIndex"
	case "chunk":
		return common.App("FChunk", common.N(f.N))
	case "delmark":
		return "FDelMark"
	case "nocompact":
		return "FNoCompact"
	case "nodownsample":
		return "FNoDownsample"
	case "dirchunks":
		return "FDirChunks"
	case "dirblock":
		return "FDirBlock"
	}
	return common.App("FOther", common.N(f.N))
}

func (f File) code() (uint64, uint64) {
	switch f.Kind {
	case "chunk":
		return 0, f.N
	case "delmark":
		return 1, 0
	case "index":
		return 2, 0
	case "meta":
		return 3, 0
	case "nocompact":
		return 4, 0
	case "nodownsample":
		return 5, 0
	case "dirchunks":
		return 6, 0
	case "dirblock":
		return 7, 0
	}
	return 8, f.N
}

// ParseRel maps a path relative to the block directory to a File.
func (e *Env) ParseRel(rel string) File {
	switch rel {
	case "meta.json":
		return File{Kind: "meta"}
	case "index":
		return File{Kind: "index"}
	case "deletion-mark.json":
		return File{Kind: "delmark"}
	case "no-compact-mark.json":
		return File{Kind: "nocompact"}
	case "no-downsample-mark.json":
		return File{Kind: "nodownsample"}
	case "chunks/":
		return File{Kind: "dirchunks"}
	case "":
		return File{Kind: "dirblock"}
	}
	if strings.HasPrefix(rel, "chunks/") {
		s := strings.TrimPrefix(rel, "chunks/")
		if len(s) == 6 {
			if n, err := strconv.ParseUint(s, 10, 64); err == nil {
				return File{Kind: "chunk", N: n}
			}
		}
	}
	return File{Kind: "other", N: uint64(intern(e.others, rel))}
}

// Key is the Go image of Crash_Block.key.
type Key struct {
	Block int
	File  File
}

func (k Key) Coq() string { return common.Pair(common.N(uint64(k.Block)), k.File.Coq()) }

// ParseName maps an object name to a Key. Names outside any known block
// directory get block numbers from 1000000 up.
func (e *Env) ParseName(name string) Key {
	i := strings.Index(name, "/")
	if i > 0 {
		if n, ok := e.blocks[name[:i]]; ok {
			return Key{Block: n, File: e.ParseRel(name[i+1:])}
		}
		if _, err := ulid.Parse(name[:i]); err == nil {
			n := 1000000 + intern(e.others, "block:"+name[:i])
			return Key{Block: n, File: e.ParseRel(name[i+1:])}
		}
	}
	return Key{Block: 2000000, File: File{Kind: "other", N: uint64(intern(e.others, name))}}
}

func keyLess(a, b Key) bool {
	if a.Block != b.Block {
		return a.Block < b.Block
	}
	a1, a2 := a.File.code()
	b1, b2 := b.File.code()
	if a1 != b1 {
		return a1 < b1
	}
	return a2 < b2
}

// ObjCoq renders an object as Crash_Block.obj: meta.json is parsed
// (Thanos.Files, labels, content id); anything else is its size.
func (e *Env) ObjCoq(k Key, body []byte) string {
	if k.File.Kind == "meta" {
		var m metadata.Meta
		if err := json.Unmarshal(body, &m); err == nil && m.Version == 1 {
			var fs []string
			for _, f := range m.Thanos.Files {
				fs = append(fs, common.App("fz", e.ParseRel(filepath.ToSlash(f.RelPath)).Coq(), common.Z(f.SizeBytes)))
			}
			return common.App("MetaO", common.N(uint64(e.Cid(body))), common.List(fs), common.N(uint64(e.Lbl(m.Thanos.Labels))))
		}
	}
	return common.App("Blob", common.Z(int64(len(body))))
}

// BucketCoq renders a snapshot as Crash_Block.bucket in the model's key order.
func (e *Env) BucketCoq(snap map[string][]byte) string {
	type kv struct {
		k    Key
		body []byte
	}
	var l []kv
	for n, b := range snap {
		l = append(l, kv{e.ParseName(n), b})
	}
	sort.Slice(l, func(i, j int) bool { return keyLess(l[i].k, l[j].k) })
	parts := make([]string, len(l))
	for i, x := range l {
		parts[i] = common.App("kv", common.N(uint64(x.k.Block)), x.k.File.Coq(), e.ObjCoq(x.k, x.body))
	}
	return common.List(parts)
}

// OpCoq renders a mutating operation as Crash_Block.bop.
func (e *Env) OpCoq(o Op) string {
	k := e.ParseName(o.Name)
	if o.Kind == "upload" {
		return common.App("up", common.N(uint64(k.Block)), k.File.Coq(), e.ObjCoq(k, o.Body))
	}
	return common.App("dl", common.N(uint64(k.Block)), k.File.Coq())
}

// BlkCoq renders a BlockSpec as Crash_Block.blk.
func (e *Env) BlkCoq(s BlockSpec) string {
	var cs []string
	for j, sz := range s.Chunks {
		cs = append(cs, common.App("cz", common.N(uint64(j+1)), common.Z(sz)))
	}
	return common.App("mkblk", common.List(cs), common.Z(s.Index), common.N(uint64(e.Lbl(s.Labels))))
}

// Readable summary of a snapshot for replay files.
func SnapSummary(snap map[string][]byte) []string {
	var out []string
	for _, n := range SortedNames(snap) {
		out = append(out, fmt.Sprintf("%s (%d bytes)", n, len(snap[n])))
	}
	return out
}

// MetaProblem evaluates "meta.json present => every listed file present with the
// recorded size" on one bucket listing (Go-side search aid). "" = holds.
func MetaProblem(snap map[string][]byte) string {
	for name, body := range snap {
		if !strings.HasSuffix(name, "/meta.json") {
			continue
		}
		dir := strings.TrimSuffix(name, "meta.json")
		var m metadata.Meta
		if err := json.Unmarshal(body, &m); err != nil {
			return "meta.json of " + dir + " does not parse"
		}
		for _, f := range m.Thanos.Files {
			if f.RelPath == "meta.json" {
				continue
			}
			b, ok := snap[dir+filepath.ToSlash(f.RelPath)]
			if !ok {
				return fmt.Sprintf("%smeta.json is present but %s is missing", dir, f.RelPath)
			}
			if int64(len(b)) != f.SizeBytes {
				return fmt.Sprintf("%smeta.json records %d bytes for %s, the bucket has %d", dir, f.SizeBytes, f.RelPath, len(b))
			}
		}
	}
	return ""
}
