// C08: stores present external labels consistently.
//
// Runs the real TSDBStore.Series over a real Prometheus TSDB (head) holding generated
// series whose labels collide with the store's external labels, with replica-label
// lists, selectors (incl. ones contradicting the external labels) and tiny
// maxBytesPerFrame values that split a series across frames.
package main

import (
	"context"
	"encoding/json"
	"fmt"
	"go/ast"
	"go/token"
	"io"
	"math"
	"math/rand"
	"sort"
	"strings"

	"github.com/prometheus/prometheus/model/labels"

	"github.com/thanos-io/thanos/pkg/component"
	"github.com/thanos-io/thanos/pkg/store"
	"github.com/thanos-io/thanos/pkg/store/labelpb"
	"github.com/thanos-io/thanos/pkg/store/storepb"
	"github.com/thanos-io/thanos/zzverif/common"
	tu "github.com/thanos-io/thanos/zzverif/tsdbutil"
)

type input struct {
	Kind     string         `json:"kind"` // series (TSDBStore) | bucket (BucketStore) | cleanup
	Blocks   []tu.BlockIn   `json:"blocks,omitempty"`
	Ext      []tu.Lbl       `json:"ext"`
	Series   []tu.SeriesIn  `json:"series"`
	Ms       []tu.MatcherIn `json:"ms"`
	WRL      []string       `json:"wrl"`
	MaxBytes int            `json:"max_bytes"`
	Skip     bool           `json:"skip"`
	Batch    int64          `json:"batch"`
}

func facts(repo string, w io.Writer) error {
	s, err := common.ParseSrc(repo, "pkg/store/tsdb.go")
	if err != nil {
		return err
	}
	fd, err := s.FindFunc("TSDBStore.Series")
	if err != nil {
		return err
	}
	// `if frameBytesLeft > 0 && isNext { continue }`
	var cond ast.Expr
	ast.Inspect(fd.Body, func(n ast.Node) bool {
		if is, ok := n.(*ast.IfStmt); ok && cond == nil && len(is.Body.List) == 1 {
			if br, ok := is.Body.List[0].(*ast.BranchStmt); ok && br.Tok == token.CONTINUE {
				if be, ok := is.Cond.(*ast.BinaryExpr); ok && be.Op == token.LAND {
					cond = is.Cond
				}
			}
		}
		return true
	})
	if cond == nil {
		return fmt.Errorf("srcfacts: pkg/store/tsdb.go: TSDBStore.Series: `if frameBytesLeft > 0 && isNext { continue }` not found")
	}
	e, err := s.TranslateExpr(cond, nil, nil)
	if err != nil {
		return err
	}
	fmt.Fprintf(w, "(* pkg/store/tsdb.go TSDBStore.Series: `if %s { continue }`: keep filling the current frame *)\n", s.ExprString(cond))
	fmt.Fprintf(w, "Definition frame_continue (frameBytesLeft : Z) (isNext : bool) : bool :=\n  %s.\n", e)
	return nil
}

type recServer struct {
	storepb.Store_SeriesServer
	ctx    context.Context
	frames []*storepb.Series
	warns  int
}

func (r *recServer) Send(m *storepb.SeriesResponse) error {
	switch {
	case m.GetSeries() != nil:
		r.frames = append(r.frames, m.GetSeries())
	case m.GetBatch() != nil:
		r.frames = append(r.frames, m.GetBatch().Series...)
	default:
		r.warns++
	}
	return nil
}
func (r *recServer) Context() context.Context { return r.ctx }

func run(raw json.RawMessage) (common.Case, error) {
	var in input
	if err := json.Unmarshal(raw, &in); err != nil {
		return common.Case{}, err
	}
	var c common.Case
	if in.Kind == "cleanup" {
		tu.Cleanup()
		tu.CleanupBucket()
		c.Coq, c.Class = "CNop", "cleanup"
		return c, nil
	}
	if in.Kind == "bucket" {
		return runBucket(in)
	}
	sc, err := tu.GetScenario(in.Series)
	if err != nil {
		return c, err
	}
	ext := tu.MkLabels(in.Ext)
	uni := map[string]struct{}{"": {}}
	tu.AddValues(uni, ext)
	for _, s := range sc.Stored {
		tu.AddValues(uni, s.Labels)
	}
	coqMs, pm, err := tu.CoqMatchers(in.Ms, uni)
	if err != nil {
		return c, err
	}

	st := store.NewTSDBStore(nil, sc.DB, component.Rule, ext)
	st.VerifC08SetMaxBytesPerFrame(in.MaxBytes)
	srv := &recServer{ctx: context.Background()}
	rerr := st.Series(&storepb.SeriesRequest{
		MinTime: math.MinInt64 / 2, MaxTime: math.MaxInt64 / 2,
		Matchers:             tu.ToPB(in.Ms),
		WithoutReplicaLabels: in.WRL,
		SkipChunks:           in.Skip,
		ResponseBatchSize:    in.Batch,
	}, srv)

	o := common.None
	type fr struct {
		l  labels.Labels
		cs []tu.StoredChunk
	}
	var frs []fr
	if rerr == nil {
		for _, f := range srv.frames {
			x := fr{l: labelpb.ZLabelsToPromLabels(f.Labels).Copy()}
			for _, ch := range f.Chunks {
				x.cs = append(x.cs, tu.StoredChunk{Min: ch.MinTime, Max: ch.MaxTime, Size: int64(ch.Size())})
			}
			frs = append(frs, x)
		}
		// canonical order: labels, then the chunk lists lexicographically (as Model/C08.v frame_le)
		sort.SliceStable(frs, func(i, j int) bool {
			if d := labels.Compare(frs[i].l, frs[j].l); d != 0 {
				return d < 0
			}
			a, b := frs[i].cs, frs[j].cs
			for k := 0; k < len(a) && k < len(b); k++ {
				if a[k] != b[k] {
					if a[k].Min != b[k].Min {
						return a[k].Min < b[k].Min
					}
					if a[k].Max != b[k].Max {
						return a[k].Max < b[k].Max
					}
					return a[k].Size < b[k].Size
				}
			}
			return len(a) < len(b)
		})
		var fs []string
		for _, x := range frs {
			var cs []string
			for _, ch := range x.cs {
				cs = append(cs, tu.CoqChunk(ch))
			}
			fs = append(fs, common.Pair(tu.CoqLabels(x.l), common.List(cs)))
		}
		o = common.Some(common.List(fs))
	}
	c.Coq = common.App("CTsdb", tu.CoqLabels(ext), tu.CoqStrs(in.WRL), coqMs, common.Z(int64(in.MaxBytes)), common.Bool(in.Skip),
		tu.CoqStored(sc.Stored), o)
	var desc []string
	for _, x := range frs {
		desc = append(desc, fmt.Sprintf("%s x%d", x.l, len(x.cs)))
	}
	c.Obs = map[string]any{"ok": rerr == nil, "frames": desc}

	// ---- Go-side predicate (search aid) ----
	drop := map[string]bool{}
	for _, d := range in.WRL {
		drop[d] = true
	}
	contradict := false
	for _, m := range pm {
		if v := ext.Get(m.Name); v != "" && !m.Matches(v) {
			contradict = true
		}
	}
	collide, split := false, false
	for _, s := range sc.Stored {
		ext.Range(func(l labels.Label) {
			if s.Labels.Has(l.Name) && s.Labels.Get(l.Name) != l.Value {
				collide = true
			}
		})
	}
	seen := map[string]int{}
	for _, x := range frs {
		seen[x.l.String()]++
		if seen[x.l.String()] > 1 {
			split = true
		}
		ext.Range(func(l labels.Label) {
			if !drop[l.Name] && l.Value != "" && x.l.Get(l.Name) != l.Value {
				c.GoPred = fmt.Sprintf("series %s does not carry external label %s=%q", x.l, l.Name, l.Value)
				c.Sig = "missing-external-label"
			}
		})
		for d := range drop {
			if x.l.Has(d) {
				c.GoPred = fmt.Sprintf("series %s still carries dropped label %s", x.l, d)
				c.Sig = "dropped-label-present"
			}
		}
	}
	if contradict && (rerr != nil || len(frs) > 0) {
		c.GoPred = "selectors contradict the external labels but series were returned"
		c.Sig = "contradiction-not-empty"
	}
	switch {
	case contradict:
		c.Class = "contradicting-selectors"
	case rerr != nil:
		c.Class = "error"
	case split:
		c.Class = "split-frames"
	default:
		c.Class = "plain"
	}
	// non-trivial: series came back and a stored label collides with an external one, or a series was split
	c.Nontrivial = len(frs) > 0 && (collide || split)
	return c, nil
}

// runBucket: BucketStore.Series over blocks in an in-memory bucket; observable = the label sets.
func runBucket(in input) (common.Case, error) {
	var c common.Case
	sc, err := tu.GetBucketScenario(in.Blocks)
	if err != nil {
		return c, err
	}
	uni := map[string]struct{}{"": {}}
	var coqBlocks []string
	for _, b := range sc.Blocks {
		tu.AddValues(uni, b.Ext)
		var ss []string
		for _, l := range b.Stored {
			tu.AddValues(uni, l)
			ss = append(ss, tu.CoqLabels(l))
		}
		coqBlocks = append(coqBlocks, common.Pair(tu.CoqLabels(b.Ext), common.List(ss)))
	}
	coqMs, pm, err := tu.CoqMatchers(in.Ms, uni)
	if err != nil {
		return c, err
	}
	// the request is repeated (BucketStore visits its block sets in map order); reported is the first
	// answer with a series that no non-contradicted block can have produced, else the first answer
	// that differs from the first one, else the first one
	dropSet := map[string]bool{}
	for _, d := range in.WRL {
		dropSet[d] = true
	}
	explained := func(l labels.Labels) bool {
		for _, b := range sc.Blocks {
			all := true
			b.Ext.Range(func(x labels.Label) {
				if !dropSet[x.Name] && l.Get(x.Name) != x.Value {
					all = false
				}
			})
			for _, m := range pm {
				if v := b.Ext.Get(m.Name); v != "" && !m.Matches(v) {
					all = false
				}
			}
			if all {
				return true
			}
		}
		return false
	}
	var srv *recServer
	var rerr error
	firstKey, differs := "", false
	for rep := 0; rep < 6; rep++ {
		s2 := &recServer{ctx: context.Background()}
		e2 := sc.Store.Series(&storepb.SeriesRequest{
			MinTime: math.MinInt64 / 2, MaxTime: math.MaxInt64 / 2,
			Matchers:             tu.ToPB(in.Ms),
			WithoutReplicaLabels: in.WRL,
			SkipChunks:           in.Skip,
			ResponseBatchSize:    in.Batch,
		}, s2)
		var ks []string
		bad := false
		for _, f := range s2.frames {
			l := labelpb.ZLabelsToPromLabels(f.Labels)
			ks = append(ks, l.String())
			bad = bad || !explained(l)
		}
		sort.Strings(ks)
		key := fmt.Sprint(e2 != nil, ks)
		switch {
		case rep == 0:
			srv, rerr, firstKey = s2, e2, key
		case key != firstKey && !differs:
			srv, rerr, differs = s2, e2, true
		}
		if bad {
			srv, rerr = s2, e2
			break
		}
	}
	o := common.None
	var sets []labels.Labels
	if rerr == nil {
		for _, f := range srv.frames {
			var ls []labels.Label
			for _, x := range f.Labels {
				ls = append(ls, labels.Label{Name: strings.Clone(x.Name), Value: strings.Clone(x.Value)})
			}
			sets = append(sets, labels.New(ls...))
		}
		sort.SliceStable(sets, func(i, j int) bool { return labels.Compare(sets[i], sets[j]) < 0 })
		var xs []string
		var prev labels.Labels
		for i, l := range sets {
			if i > 0 && labels.Compare(prev, l) == 0 {
				continue
			}
			prev = l
			xs = append(xs, tu.CoqLabels(l))
		}
		o = common.Some(common.List(xs))
	}
	c.Coq = common.App("CBkt", common.List(coqBlocks), tu.CoqStrs(in.WRL), coqMs, o)
	var desc []string
	for _, l := range sets {
		desc = append(desc, l.String())
	}
	c.Obs = map[string]any{"ok": rerr == nil, "series": desc}
	if rerr != nil {
		c.GoPred = "BucketStore.Series returned an error: " + rerr.Error()
		c.Sig = "bucket-series-error"
	}
	drop := map[string]bool{}
	for _, d := range in.WRL {
		drop[d] = true
	}
	collide := false
	for _, l := range sets {
		for d := range drop {
			if l.Has(d) {
				c.GoPred = fmt.Sprintf("bucket store: series %s still carries dropped label %s", l, d)
				c.Sig = "dropped-label-present"
			}
		}
		ok := false
		for _, b := range sc.Blocks {
			all := true
			b.Ext.Range(func(x labels.Label) {
				if !drop[x.Name] && l.Get(x.Name) != x.Value {
					all = false
				}
			})
			ok = ok || all
		}
		if !ok {
			c.GoPred = fmt.Sprintf("bucket store: series %s carries the external labels of none of the blocks", l)
			c.Sig = "missing-external-label"
		}
		// a request whose selectors contradict a block's external labels returns no series of that block
		okc := false
		for _, b := range sc.Blocks {
			all := true
			b.Ext.Range(func(x labels.Label) {
				if !drop[x.Name] && l.Get(x.Name) != x.Value {
					all = false
				}
			})
			for _, m := range pm {
				if v := b.Ext.Get(m.Name); v != "" && !m.Matches(v) {
					all = false
				}
			}
			okc = okc || all
		}
		if ok && !okc {
			c.GoPred = fmt.Sprintf("bucket store: series %s was returned although the selectors contradict the external labels of every block it can come from", l)
			c.Sig = "contradicting-block-returned"
		}
	}
	for _, b := range sc.Blocks {
		for _, sl := range b.Stored {
			b.Ext.Range(func(x labels.Label) {
				if sl.Has(x.Name) && sl.Get(x.Name) != x.Value {
					collide = true
				}
			})
		}
	}
	c.Class = "bucket"
	c.Nontrivial = len(sets) > 0 && (collide || len(in.WRL) > 0)
	return c, nil
}

func genBlocks(r *rand.Rand) []tu.BlockIn {
	var out []tu.BlockIn
	n := 1 + r.Intn(3)
	for i := 0; i < n; i++ {
		b := tu.BlockIn{}
		used := map[string]bool{}
		b.Ext = append(b.Ext, tu.Lbl{"cluster", common.Pick(r, "c1", "c2", "c3")})
		used["cluster"] = true
		for q := r.Intn(3); q > 0; q-- {
			nm := common.Pick(r, "region", "replica", "a", "zone")
			if used[nm] {
				continue
			}
			used[nm] = true
			b.Ext = append(b.Ext, tu.Lbl{nm, common.Pick(r, "eu", "us", "1", "r0", "r1")})
		}
		for _, s := range genSeries(r) {
			b.Series = append(b.Series, s.Labels)
		}
		out = append(out, b)
	}
	return out
}

// ---- generator ----

var (
	snames  = []string{"a", "b", "region", "replica", "zone"}
	svalues = []string{"1", "2", "eu", "us", "x"}
	enames  = []string{"region", "replica", "cluster", "a", "zone"}
	mvals   = []string{"", "1", "2", "eu", "us", "x", "c1", "1|2", ".*", ".+", "e.", "eu|us", "3"}
)

func genSeries(r *rand.Rand) []tu.SeriesIn {
	n := 1 + r.Intn(5)
	seen := map[string]bool{}
	var out []tu.SeriesIn
	for len(out) < n {
		ls := []tu.Lbl{{"__name__", common.Pick(r, "up", "m")}}
		used := map[string]bool{}
		for k := r.Intn(4); k > 0; k-- {
			nm := common.Pick(r, snames...)
			if used[nm] {
				continue
			}
			used[nm] = true
			ls = append(ls, tu.Lbl{nm, common.Pick(r, svalues...)})
		}
		key := tu.MkLabels(ls).String()
		if seen[key] {
			continue
		}
		seen[key] = true
		out = append(out, tu.SeriesIn{Labels: ls, NChunks: 1 + r.Intn(5), T0: common.Pick(r, int64(0), 0, 100, 1000)})
	}
	return out
}

func gen(r *rand.Rand, tier string, n int) []any {
	var out []any
	perScenario := 8
	for len(out) < n {
		series := genSeries(r)
		for k := 0; k < perScenario && len(out) < n; k++ {
			in := input{Kind: "series", Series: series}
			used := map[string]bool{}
			for q := r.Intn(4); q > 0; q-- {
				nm := common.Pick(r, enames...)
				if used[nm] {
					continue
				}
				used[nm] = true
				in.Ext = append(in.Ext, tu.Lbl{nm, common.Pick(r, "eu", "us", "1", "c1", "r0")})
			}
			for q := r.Intn(3); q >= 0; q-- {
				m := tu.MatcherIn{Type: r.Intn(4), Name: common.Pick(r, "__name__", "a", "b", "region", "replica", "cluster", "zone"), Value: common.Pick(r, mvals...)}
				if r.Intn(3) == 0 {
					m = tu.MatcherIn{Type: 0, Name: "__name__", Value: common.Pick(r, "up", "m")}
				}
				in.Ms = append(in.Ms, m)
			}
			if r.Intn(4) == 0 && len(in.Ext) > 0 { // a selector on an external label: agreeing or contradicting
				e := in.Ext[r.Intn(len(in.Ext))]
				in.Ms = append(in.Ms, tu.MatcherIn{Type: r.Intn(4), Name: e[0], Value: common.Pick(r, e[1], e[1], "zz", "")})
			}
			for q := r.Intn(3); q > 0; q-- {
				in.WRL = append(in.WRL, common.Pick(r, "replica", "region", "a", "cluster", "nope"))
			}
			in.MaxBytes = common.Pick(r, 1, 40, 60, 80, 120, 160, 250, 1<<20)
			in.Skip = r.Intn(12) == 0
			in.Batch = common.Pick(r, int64(0), 0, 1, 2, 64)
			out = append(out, in)
		}
	}
	// BucketStore scenarios: 1/4 of the budget on top
	for nb := 0; nb < n/4; {
		blocks := genBlocks(r)
		for k := 0; k < 8 && nb < n/4; k++ {
			in := input{Kind: "bucket", Blocks: blocks}
			for q := r.Intn(3); q >= 0; q-- {
				m := tu.MatcherIn{Type: r.Intn(4), Name: common.Pick(r, "__name__", "a", "b", "region", "replica", "cluster", "zone"), Value: common.Pick(r, mvals...)}
				if r.Intn(2) == 0 {
					m = tu.MatcherIn{Type: 0, Name: "__name__", Value: common.Pick(r, "up", "m")}
				}
				in.Ms = append(in.Ms, m)
			}
			if r.Intn(2) == 0 { // a selector on an external label, before or after the other selectors
				e := blocks[r.Intn(len(blocks))].Ext
				l := e[r.Intn(len(e))]
				m := tu.MatcherIn{Type: common.Pick(r, 0, 0, 2, 1, 3), Name: l[0], Value: common.Pick(r, l[1], l[1], l[1], "zz", "")}
				if r.Intn(2) == 0 {
					in.Ms = append([]tu.MatcherIn{m}, in.Ms...)
				} else {
					in.Ms = append(in.Ms, m)
				}
			}
			for q := r.Intn(3); q > 0; q-- {
				in.WRL = append(in.WRL, common.Pick(r, "replica", "region", "a", "cluster", "nope"))
			}
			in.Skip = r.Intn(3) == 0
			in.Batch = common.Pick(r, int64(0), 0, 2, 64)
			out = append(out, in)
			nb++
		}
	}
	out = append(out, input{Kind: "cleanup"})
	return out
}

func main() {
	common.Main(common.Prop{ID: "C08", Facts: facts, Gen: gen, Run: run, QuickN: 600, ThoroughN: 5000,
		Preamble: "Open Scope Z_scope.\n"})
}
