package compactutil

import (
	"fmt"
	"go/ast"
	"go/token"
	"strconv"
	"strings"
)

// TimeExpr translates a Go expression over time.Time / time.Duration / integers
// into Gallina over Z, with every instant and duration in NANOSECONDS:
//
//	time.Now()            -> now
//	time.Unix(s, ns)      -> (s * 1000000000 + ns)
//	time.UnixMilli(ms)    -> (ms * 1000000)
//	time.Since(t)         -> (now - t)
//	t.Add(d)              -> (t + d)
//	t.Sub(u)              -> (t - u)
//	a.After(b) / a.Before(b) -> (a >? b) / (a <? b)
//	d.Seconds()           -> d     (float64 seconds; only ever compared with
//	                               another .Seconds() or with 0, so the order is
//	                               the order of the nanosecond counts up to
//	                               float rounding, which the guard band of the
//	                               correspondence check covers)
//
// Identifiers and selectors are renamed through names (e.g. "m.MaxTime" ->
// "maxt"); anything not listed is refused.
func TimeExpr(e ast.Expr, names map[string]string) (string, error) {
	switch x := e.(type) {
	case *ast.ParenExpr:
		return TimeExpr(x.X, names)
	case *ast.BasicLit:
		if x.Kind != token.INT {
			return "", fmt.Errorf("timeexpr: literal %s not supported", x.Value)
		}
		v, err := strconv.ParseInt(strings.ReplaceAll(x.Value, "_", ""), 0, 64)
		if err != nil {
			return "", err
		}
		return fmt.Sprintf("%d", v), nil
	case *ast.Ident:
		if n, ok := names[x.Name]; ok {
			return n, nil
		}
		return "", fmt.Errorf("timeexpr: identifier %s not supported", x.Name)
	case *ast.SelectorExpr:
		if n, ok := names[selName(x)]; ok {
			return n, nil
		}
		return "", fmt.Errorf("timeexpr: selector %s not supported", selName(x))
	case *ast.BinaryExpr:
		a, err := TimeExpr(x.X, names)
		if err != nil {
			return "", err
		}
		b, err := TimeExpr(x.Y, names)
		if err != nil {
			return "", err
		}
		switch x.Op {
		case token.ADD:
			return fmt.Sprintf("(%s + %s)", a, b), nil
		case token.SUB:
			return fmt.Sprintf("(%s - %s)", a, b), nil
		case token.MUL:
			return fmt.Sprintf("(%s * %s)", a, b), nil
		case token.QUO:
			return fmt.Sprintf("(Z.quot %s %s)", a, b), nil
		case token.REM:
			return fmt.Sprintf("(Z.rem %s %s)", a, b), nil
		case token.LSS:
			return fmt.Sprintf("(%s <? %s)", a, b), nil
		case token.LEQ:
			return fmt.Sprintf("(%s <=? %s)", a, b), nil
		case token.GTR:
			return fmt.Sprintf("(%s >? %s)", a, b), nil
		case token.GEQ:
			return fmt.Sprintf("(%s >=? %s)", a, b), nil
		case token.EQL:
			return fmt.Sprintf("(%s =? %s)", a, b), nil
		case token.NEQ:
			return fmt.Sprintf("(negb (%s =? %s))", a, b), nil
		case token.LAND:
			return fmt.Sprintf("(%s && %s)", a, b), nil
		case token.LOR:
			return fmt.Sprintf("(%s || %s)", a, b), nil
		}
		return "", fmt.Errorf("timeexpr: operator %s not supported", x.Op)
	case *ast.UnaryExpr:
		a, err := TimeExpr(x.X, names)
		if err != nil {
			return "", err
		}
		switch x.Op {
		case token.NOT:
			return fmt.Sprintf("(negb %s)", a), nil
		case token.SUB:
			return fmt.Sprintf("(- %s)", a), nil
		}
		return "", fmt.Errorf("timeexpr: unary %s not supported", x.Op)
	case *ast.CallExpr:
		fn := ""
		var recv ast.Expr
		switch f := x.Fun.(type) {
		case *ast.SelectorExpr:
			if id, ok := f.X.(*ast.Ident); ok && id.Name == "time" {
				fn = "time." + f.Sel.Name
			} else {
				fn, recv = "."+f.Sel.Name, f.X
			}
		case *ast.Ident:
			fn = f.Name
		}
		var args []string
		for _, a := range x.Args {
			s, err := TimeExpr(a, names)
			if err != nil {
				return "", err
			}
			args = append(args, s)
		}
		r := ""
		if recv != nil {
			var err error
			if r, err = TimeExpr(recv, names); err != nil {
				return "", err
			}
		}
		switch {
		case fn == "time.Now" && len(args) == 0:
			return "now", nil
		case fn == "time.Unix" && len(args) == 2:
			return fmt.Sprintf("(%s * 1000000000 + %s)", args[0], args[1]), nil
		case fn == "time.UnixMilli" && len(args) == 1:
			return fmt.Sprintf("(%s * 1000000)", args[0]), nil
		case fn == "time.Since" && len(args) == 1:
			return fmt.Sprintf("(now - %s)", args[0]), nil
		case fn == ".Add" && len(args) == 1:
			return fmt.Sprintf("(%s + %s)", r, args[0]), nil
		case fn == ".Sub" && len(args) == 1:
			return fmt.Sprintf("(%s - %s)", r, args[0]), nil
		case fn == ".After" && len(args) == 1:
			return fmt.Sprintf("(%s >? %s)", r, args[0]), nil
		case fn == ".Before" && len(args) == 1:
			return fmt.Sprintf("(%s <? %s)", r, args[0]), nil
		case fn == ".Seconds" && len(args) == 0:
			return r, nil
		case (fn == "int64" || fn == "time.Duration") && len(args) == 1:
			return args[0], nil
		}
		return "", fmt.Errorf("timeexpr: call %s/%d not supported", fn, len(args))
	}
	return "", fmt.Errorf("timeexpr: expression %T not supported", e)
}

func selName(x *ast.SelectorExpr) string {
	switch p := x.X.(type) {
	case *ast.Ident:
		return p.Name + "." + x.Sel.Name
	case *ast.SelectorExpr:
		return selName(p) + "." + x.Sel.Name
	}
	return "?." + x.Sel.Name
}
