// Package compactutil holds helpers shared by the compactor-planning group of
// property harnesses (C30..C34): extra source-fact extraction on top of
// common/srcfacts.go and a recording / fault-injecting bucket wrapper.
package compactutil

import (
	"fmt"
	"go/ast"
	"go/token"
	"strings"

	"github.com/thanos-io/thanos/zzverif/common"
)

// FindIfs returns, in source order, every *ast.IfStmt inside fn for which pred holds.
func FindIfs(s *common.SrcFile, fn string, pred func(*ast.IfStmt) bool) ([]*ast.IfStmt, error) {
	fd, err := s.FindFunc(fn)
	if err != nil {
		return nil, err
	}
	var out []*ast.IfStmt
	ast.Inspect(fd.Body, func(n ast.Node) bool {
		if is, ok := n.(*ast.IfStmt); ok && pred(is) {
			out = append(out, is)
		}
		return true
	})
	return out, nil
}

// TheIf is FindIfs that insists on exactly one match.
func TheIf(s *common.SrcFile, fn, what string, pred func(*ast.IfStmt) bool) (*ast.IfStmt, error) {
	l, err := FindIfs(s, fn, pred)
	if err != nil {
		return nil, err
	}
	if len(l) != 1 {
		return nil, fmt.Errorf("srcfacts: %s: %s: expected exactly one matching if statement (%s), found %d", s.Path, fn, what, len(l))
	}
	return l[0], nil
}

// AssignsOnly reports whether block b consists of exactly one plain
// assignment `name = e` and returns e.
func AssignsOnly(b *ast.BlockStmt, name string) (ast.Expr, bool) {
	if b == nil || len(b.List) != 1 {
		return nil, false
	}
	as, ok := b.List[0].(*ast.AssignStmt)
	if !ok || len(as.Lhs) != 1 || len(as.Rhs) != 1 || (as.Tok != token.ASSIGN && as.Tok != token.DEFINE) {
		return nil, false
	}
	id, ok := as.Lhs[0].(*ast.Ident)
	if !ok || id.Name != name {
		return nil, false
	}
	return as.Rhs[0], true
}

// BodyKinds renders the statement kinds of a block, e.g. "incdec;continue".
func BodyKinds(b *ast.BlockStmt) string {
	var ks []string
	for _, st := range b.List {
		switch x := st.(type) {
		case *ast.BranchStmt:
			k := strings.ToLower(x.Tok.String())
			if x.Label != nil {
				k += ":" + x.Label.Name
			}
			ks = append(ks, k)
		case *ast.IncDecStmt:
			ks = append(ks, "incdec")
		case *ast.ReturnStmt:
			ks = append(ks, "return")
		case *ast.AssignStmt:
			ks = append(ks, "assign")
		case *ast.ExprStmt:
			ks = append(ks, "expr")
		case *ast.IfStmt:
			ks = append(ks, "if")
		default:
			ks = append(ks, "other")
		}
	}
	return strings.Join(ks, ";")
}

// Mentions reports whether expression e mentions identifier name.
func Mentions(e ast.Node, name string) bool {
	found := false
	ast.Inspect(e, func(n ast.Node) bool {
		if id, ok := n.(*ast.Ident); ok && id.Name == name {
			found = true
		}
		return !found
	})
	return found
}

// Def renders `Definition name (p1 p2 : Z) : ty := body.`
func Def(name string, params []string, ty, body string) string {
	ps := ""
	if len(params) > 0 {
		ps = " (" + strings.Join(params, " ") + " : Z)"
	}
	return fmt.Sprintf("Definition %s%s : %s :=\n  %s.\n", name, ps, ty, body)
}
