package compactutil

import (
	"context"
	"errors"
	"io"
	"sync"
	"time"

	"github.com/thanos-io/objstore"
)

// Op is one bucket operation seen by the recording wrapper.
type Op struct {
	Kind string // iter | get | getrange | exists | attributes | upload | delete
	Name string
	// Seq is the position in the global operation order.
	Seq int
	// Failed is true when the wrapper injected a failure into this operation.
	Failed bool
	// NotFound is true when the underlying bucket reported the object missing.
	NotFound bool
}

func (o Op) Mutating() bool { return o.Kind == "upload" || o.Kind == "delete" }

// ErrInjected is the transient error returned by an injected read failure.
var ErrInjected = errors.New("verif: injected transient bucket failure")

// RecBucket wraps a bucket, records every operation in order and can fail the
// k-th read operation (counting from 0 over iter/get/getrange/exists/attributes)
// or every read whose name satisfies FailName.
type RecBucket struct {
	objstore.Bucket
	mu       sync.Mutex
	ops      []Op
	reads    int
	FailRead int // index of the read to fail; <0 = none
	FailName func(kind, name string) bool
	// Sticky: once a failure was injected keep failing the same (kind,name).
	Sticky bool
	// FailBody: Get of a matching object succeeds but the returned reader fails after half of
	// the bytes (a transfer cut in the middle); logged as an extra op of kind "getbody".
	FailBody func(kind, name string) bool
	// IterFail: IterWithAttributes on a matching directory fails with ErrInjected after having
	// passed `after` objects to the callback (0 = before the first object).
	IterFail func(dir string) (after int, ok bool)
	// ModTime, when set, overrides the last-modified time reported by
	// IterWithAttributes (ok=false keeps the underlying value; a zero time
	// means "not available").
	ModTime func(name string) (time.Time, bool)
	failed map[string]bool
}

func NewRecBucket(b objstore.Bucket) *RecBucket {
	return &RecBucket{Bucket: b, FailRead: -1, failed: map[string]bool{}}
}

func (b *RecBucket) rec(kind, name string, read bool) (fail bool) {
	b.mu.Lock()
	defer b.mu.Unlock()
	if read {
		if b.reads == b.FailRead {
			fail = true
		}
		b.reads++
		if b.FailName != nil && b.FailName(kind, name) {
			fail = true
		}
		if b.Sticky && b.failed[kind+" "+name] {
			fail = true
		}
		if fail {
			b.failed[kind+" "+name] = true
		}
	}
	b.ops = append(b.ops, Op{Kind: kind, Name: name, Seq: len(b.ops), Failed: fail})
	return fail
}

func (b *RecBucket) markNotFound(kind, name string) {
	b.mu.Lock()
	defer b.mu.Unlock()
	for i := len(b.ops) - 1; i >= 0; i-- {
		if b.ops[i].Kind == kind && b.ops[i].Name == name {
			b.ops[i].NotFound = true
			return
		}
	}
}

// Ops returns a copy of the operation log.
func (b *RecBucket) Ops() []Op {
	b.mu.Lock()
	defer b.mu.Unlock()
	return append([]Op{}, b.ops...)
}

// Reads returns the number of read operations so far.
func (b *RecBucket) Reads() int {
	b.mu.Lock()
	defer b.mu.Unlock()
	return b.reads
}

// Reset clears the log and the read counter.
func (b *RecBucket) Reset() {
	b.mu.Lock()
	defer b.mu.Unlock()
	b.ops, b.reads, b.failed = nil, 0, map[string]bool{}
}

func (b *RecBucket) Iter(ctx context.Context, dir string, f func(string) error, o ...objstore.IterOption) error {
	if b.rec("iter", dir, true) {
		return ErrInjected
	}
	return b.Bucket.Iter(ctx, dir, f, o...)
}

func (b *RecBucket) IterWithAttributes(ctx context.Context, dir string, f func(objstore.IterObjectAttributes) error, o ...objstore.IterOption) error {
	if b.rec("iter", dir, true) {
		return ErrInjected
	}
	failAfter, failing := -1, false
	if b.IterFail != nil {
		failAfter, failing = b.IterFail(dir)
	}
	if b.ModTime == nil && !failing {
		return b.Bucket.IterWithAttributes(ctx, dir, f, o...)
	}
	seen := 0
	err := b.Bucket.IterWithAttributes(ctx, dir, func(a objstore.IterObjectAttributes) error {
		if failing && seen == failAfter {
			return ErrInjected
		}
		seen++
		if b.ModTime != nil {
			if t, ok := b.ModTime(a.Name); ok {
				a.SetLastModified(t)
			}
		}
		return f(a)
	}, o...)
	if err == nil && failing && seen <= failAfter {
		// fewer objects than the fault position: the listing still ends with an error
		err = ErrInjected
	}
	if failing && err != nil {
		b.mu.Lock()
		b.ops = append(b.ops, Op{Kind: "iterfail", Name: dir, Seq: len(b.ops), Failed: true})
		b.mu.Unlock()
	}
	return err
}

func (b *RecBucket) Get(ctx context.Context, name string) (io.ReadCloser, error) {
	if b.rec("get", name, true) {
		return nil, ErrInjected
	}
	r, err := b.Bucket.Get(ctx, name)
	if err != nil && b.Bucket.IsObjNotFoundErr(err) {
		b.markNotFound("get", name)
	}
	if err == nil && b.FailBody != nil && b.FailBody("get", name) {
		data, rerr := io.ReadAll(r)
		r.Close()
		if rerr != nil {
			return nil, rerr
		}
		b.mu.Lock()
		b.ops = append(b.ops, Op{Kind: "getbody", Name: name, Seq: len(b.ops), Failed: true})
		b.mu.Unlock()
		return &cutReader{data: data[:len(data)/2]}, nil
	}
	return r, err
}

func (b *RecBucket) GetRange(ctx context.Context, name string, off, length int64) (io.ReadCloser, error) {
	if b.rec("getrange", name, true) {
		return nil, ErrInjected
	}
	return b.Bucket.GetRange(ctx, name, off, length)
}

func (b *RecBucket) Exists(ctx context.Context, name string) (bool, error) {
	if b.rec("exists", name, true) {
		return false, ErrInjected
	}
	ok, err := b.Bucket.Exists(ctx, name)
	if err == nil && !ok {
		b.markNotFound("exists", name)
	}
	return ok, err
}

func (b *RecBucket) Attributes(ctx context.Context, name string) (objstore.ObjectAttributes, error) {
	if b.rec("attributes", name, true) {
		return objstore.ObjectAttributes{}, ErrInjected
	}
	return b.Bucket.Attributes(ctx, name)
}

func (b *RecBucket) Upload(ctx context.Context, name string, r io.Reader, o ...objstore.ObjectUploadOption) error {
	b.rec("upload", name, false)
	return b.Bucket.Upload(ctx, name, r, o...)
}

func (b *RecBucket) Delete(ctx context.Context, name string) error {
	b.rec("delete", name, false)
	return b.Bucket.Delete(ctx, name)
}

// IsObjNotFoundErr: an injected failure is never "not found".
func (b *RecBucket) IsObjNotFoundErr(err error) bool {
	if errors.Is(err, ErrInjected) {
		return false
	}
	return b.Bucket.IsObjNotFoundErr(err)
}

// cutReader returns its data and then fails instead of reporting EOF.
type cutReader struct {
	data []byte
	off  int
}

func (c *cutReader) Read(p []byte) (int, error) {
	if c.off >= len(c.data) {
		return 0, ErrInjected
	}
	n := copy(p, c.data[c.off:])
	c.off += n
	return n, nil
}

func (c *cutReader) Close() error { return nil }
